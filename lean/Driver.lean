import LeanHelix.Driver.Quorum
import LeanHelix.Driver.Kernels
import LeanHelix.Driver.Filter
import LeanHelix.Driver.Node
import LeanHelix.Driver.NetAdm
import LeanHelix.Driver.BlockProof
import LeanHelix.Driver.Wire
/-!
`lhdriver <suite>`: reads one operation per line on stdin, runs the *model*, prints one output
line per operation.  `bin/check` diffs this stream against what the Go harness observed on the
real implementation for the same operations.  Stateless suites map a line to a line; stateful
suites thread a model state.
-/
open LeanHelix Driver

def tokens (line : String) : List String :=
  (line.trimAscii.toString.splitOn " ").filter (· ≠ "")

partial def loopStateless (h : IO.FS.Stream) (out : IO.FS.Stream) (f : List String → Option String) : IO Unit := do
  let line ← h.getLine
  if line.isEmpty then return ()
  match f (tokens line) with
  | some s => out.putStrLn s
  | none => out.putStrLn "bad-op"
  loopStateless h out f

partial def loopStateful {σ} (h : IO.FS.Stream) (out : IO.FS.Stream) (st : σ)
    (f : σ → List String → Option (σ × String)) : IO Unit := do
  let line ← h.getLine
  if line.isEmpty then return ()
  match f st (tokens line) with
  | some (st', s) => out.putStrLn s; loopStateful h out st' f
  | none => out.putStrLn "bad-op"; loopStateful h out st f

partial def loopLines (h : IO.FS.Stream) (out : IO.FS.Stream) (f : String → String) : IO Unit := do
  let line ← h.getLine
  if line.isEmpty then return ()
  out.putStrLn (f line.trimAscii.toString)
  loopLines h out f

def loopsStep_loop (i o : IO.FS.Stream) : IO Unit := loopStateful i o (([], []) : LNodes × Nodes) mixedStep

def main (args : List String) : IO UInt32 := do
  let stdin ← IO.getStdin
  let stdout ← IO.getStdout
  match args with
  | ["quorum"] => loopStateless stdin stdout quorumStep; return 0
  | ["leader"] => loopStateless stdin stdout leaderStep; return 0
  | ["timeout"] => loopStateless stdin stdout timeoutStep; return 0
  | ["state"] => loopStateful stdin stdout State.init stateStep; return 0
  | ["contexts"] => loopStateful stdin stdout ({} : Contexts.Reg) contextsStep; return 0
  | ["filter"] => loopStateful stdin stdout ({ me := 0, inst := 0 } : Filter.Filt) filterStep; return 0
  | ["blockproof"] => loopStateless stdin stdout blockProofStep; return 0
  | ["trigger"] => loopStateful stdin stdout ({} : Trigger.Trig) triggerStep; return 0
  | ["loops"] => loopsStep_loop stdin stdout; return 0
  | ["wire"] => loopLines stdin stdout LeanHelix.WireDriver.wireLine; return 0
  | ["node"] => loopStateful stdin stdout ([] : Nodes) nodeStep; return 0
  | ["netadm"] => loopStateful stdin stdout ({} : AdmState) admStep; return 0
  | _ => IO.eprintln "usage: lhdriver <suite>"; return 2
