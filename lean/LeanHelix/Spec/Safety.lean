import LeanHelix.Lemmas.Weights
/-!
# Abstract, history-based specification of one height, and agreement from the local rules

`Ev` are the statements *correct* nodes make (signed messages they send, decisions they take).
A history is a list of events, newest first.  `Justified H e` is what a correct node must check
before adding `e` after history `H` — these are the per-node rules the properties C07–C10 state
(and that the node-level theorems `C07`, `C08`, `C09`, `C10` establish for the Term model, except for
the known finding D5).  `agreement` derives C01 for every committee, weight vector, Byzantine set of
weight ≤ f and every history built by those rules — no bound on views, nodes or steps.
-/
namespace LeanHelix.Spec
open LeanHelix

structure Setting where
  ms : List Member
  honest : Pred
  hW : 1 ≤ W ms
  hbyz : wt ms (fun i => !honest i) ≤ F ms

variable (S : Setting)

theorem split_honest (p : Pred) : wt S.ms p ≤ wt S.ms (fun i => p i && S.honest i) + F S.ms := by
  have h1 := wt_incl_excl S.ms (fun i => p i && S.honest i) (fun i => p i && !S.honest i)
  have h2 : wt S.ms p ≤ wt S.ms (fun i => (p i && S.honest i) || (p i && !S.honest i)) := by
    apply wt_mono; intro m _ hp; cases hh : S.honest m.id <;> simp [hp, hh]
  have h3 : wt S.ms (fun i => p i && !S.honest i) ≤ wt S.ms (fun i => !S.honest i) := by
    apply wt_mono; intro m _ hp; simp at hp ⊢; exact hp.2
  have h4 := S.hbyz
  omega

/-- two quorums share a correct member -/
theorem QI1 (p q : Pred) (hp : Q S.ms ≤ wt S.ms p) (hq : Q S.ms ≤ wt S.ms q) :
    ∃ m ∈ S.ms, p m.id = true ∧ q m.id = true ∧ S.honest m.id = true := by
  have ie := wt_incl_excl S.ms p q
  have le := wt_le_W S.ms (fun i => p i || q i)
  have sp := split_honest S (fun i => p i && q i)
  have tf := three_f_lt S.ms S.hW
  have : 0 < wt S.ms (fun i => (p i && q i) && S.honest i) := by unfold Q at hp hq; omega
  obtain ⟨m, hm, h⟩ := wt_pos_exists _ _ this
  simp at h; exact ⟨m, hm, h.1.1, h.1.2, h.2⟩

/-- a quorum meets any set of weight ≥ Q - f -/
theorem QI2 (p q : Pred) (hp : Q S.ms ≤ wt S.ms p) (hq : Q S.ms - F S.ms ≤ wt S.ms q) :
    ∃ m ∈ S.ms, p m.id = true ∧ q m.id = true := by
  have ie := wt_incl_excl S.ms p q
  have le := wt_le_W S.ms (fun i => p i || q i)
  have tf := three_f_lt S.ms S.hW
  have : 0 < wt S.ms (fun i => p i && q i) := by unfold Q at hp hq; omega
  obtain ⟨m, hm, h⟩ := wt_pos_exists _ _ this
  simp at h; exact ⟨m, hm, h.1, h.2⟩

/-- a quorum contains a correct member -/
theorem QH (p : Pred) (hp : Q S.ms ≤ wt S.ms p) : ∃ m ∈ S.ms, p m.id = true ∧ S.honest m.id = true := by
  have sp := split_honest S p
  have tf := three_f_lt S.ms S.hW
  have : 0 < wt S.ms (fun i => p i && S.honest i) := by unfold Q at hp; omega
  obtain ⟨m, hm, h⟩ := wt_pos_exists _ _ this
  simp at h; exact ⟨m, hm, h.1, h.2⟩

/-! ## events and local rules -/

inductive Ev where
  | acc  (n : Nat) (v : Nat) (h : Nat)                  -- correct n accepted proposal (v,h): sent PREPARE, or proposed it as leader
  | com  (n : Nat) (v : Nat) (h : Nat)                  -- correct n sent COMMIT(v,h) on becoming prepared
  | lcom (n : Nat) (v : Nat) (h : Nat)                  -- correct n sent COMMIT(v,h) on seeing a commit quorum
  | vote (n : Nat) (v : Nat) (pf : Option (Nat × Nat))  -- correct n sent VIEW_CHANGE for v carrying proof pf = (view, hash)
  | dec  (n : Nat) (h : Nat)                            -- correct n delivered h
deriving DecidableEq

open Ev

/-- a prepared certificate for (v,h) is visible in `H` -/
def validCert (H : List Ev) (v h : Nat) : Prop :=
  ∃ P : Pred, Q S.ms ≤ wt S.ms P ∧ ∀ m ∈ S.ms, P m.id = true → S.honest m.id = true → acc m.id v h ∈ H

/-- a commit quorum for (v,h) is visible in `H` -/
def commitQuorum (H : List Ev) (v h : Nat) : Prop :=
  ∃ C : Pred, Q S.ms ≤ wt S.ms C ∧ ∀ m ∈ S.ms, C m.id = true → S.honest m.id = true →
    (com m.id v h ∈ H ∨ lcom m.id v h ∈ H)

/-- a valid NEW_VIEW certificate for (v',h') is visible in `H` -/
def newViewJust (H : List Ev) (v' h' : Nat) : Prop :=
  ∃ (V : Pred) (pf : Nat → Option (Nat × Nat)),
    Q S.ms ≤ wt S.ms V ∧
    (∀ m ∈ S.ms, V m.id = true → S.honest m.id = true → vote m.id v' (pf m.id) ∈ H) ∧
    (∀ m ∈ S.ms, V m.id = true → ∀ pv hp, pf m.id = some (pv, hp) → pv < v' ∧ validCert S H pv hp) ∧
    ((∀ m ∈ S.ms, V m.id = true → pf m.id = none) ∨
     (∃ m0 ∈ S.ms, ∃ pvmax, V m0.id = true ∧ pf m0.id = some (pvmax, h') ∧
        ∀ m ∈ S.ms, V m.id = true → ∀ pv hp, pf m.id = some (pv, hp) → pv ≤ pvmax))

/-- what a correct node may do next, given the history so far -/
def Justified (H : List Ev) : Ev → Prop
  | acc n v h  => (∀ h', acc n v h' ∈ H → h' = h) ∧ (∀ v' pf, vote n v' pf ∈ H → v' ≤ v)
      ∧ (0 < v → newViewJust S H v h
          -- what the code allows in addition (known finding D5, after the fix: commit that makes a
          -- prepared node refuse conflicting bare proposals): a stand-alone PREPREPARE of the
          -- node's current view, provided the node holds no prepared certificate for another hash
          -- (`lockConflict` consults only the node's *latest* prepared view; the node's current
          -- view is never below a view it prepared in, and it accepts once per view)
          ∨ (∀ v0 h0, com n v0 h0 ∈ H → v0 < v ∧ ((∀ v1 h1, com n v1 h1 ∈ H → v1 ≤ v0) → h0 = h)))
  | com n v h  => acc n v h ∈ H ∧ validCert S H v h ∧ (∀ v' pf, vote n v' pf ∈ H → v' ≤ v)
      ∧ (∀ v' h', acc n v' h' ∈ H → v' ≤ v)      -- a node becomes prepared only in its current view
  | lcom _ v h => commitQuorum S H v h
  | vote n v' pf => ∀ v h, com n v h ∈ H → v < v' → ∃ pv hp, pf = some (pv, hp) ∧ v ≤ pv
  | dec _ h    => ∃ v, commitQuorum S H v h

inductive Valid : List Ev → Prop
  | nil : Valid []
  | cons {H : List Ev} {e : Ev} : Valid H → Justified S H e → Valid (e :: H)

/-! ## monotonicity -/

theorem validCert_mono {H H' : List Ev} (hsub : ∀ e ∈ H, e ∈ H') {v h : Nat} (hc : validCert S H v h) :
    validCert S H' v h := by
  obtain ⟨P, hq, hP⟩ := hc
  exact ⟨P, hq, fun m hm hp hh => hsub _ (hP m hm hp hh)⟩

theorem commitQuorum_mono {H H' : List Ev} (hsub : ∀ e ∈ H, e ∈ H') {v h : Nat} (hc : commitQuorum S H v h) :
    commitQuorum S H' v h := by
  obtain ⟨C, hq, hC⟩ := hc
  refine ⟨C, hq, fun m hm hc hh => ?_⟩
  rcases hC m hm hc hh with a | a
  · exact Or.inl (hsub _ a)
  · exact Or.inr (hsub _ a)

/-- every event of a valid history was justified by the history before it, which is itself valid -/
theorem justified_of_mem {H : List Ev} (hv : Valid S H) {e : Ev} (he : e ∈ H) :
    ∃ H0, Valid S H0 ∧ Justified S H0 e ∧ (∀ x ∈ H0, x ∈ H) ∧ H0.length < H.length ∧ (∀ x ∈ H, x = e ∨ x ∈ H0 ∨ (∃ H1, Valid S H1 ∧ Justified S H1 x ∧ e ∈ H1 ∧ ∀ y ∈ H1, y ∈ H)) := by
  induction hv with
  | nil => cases he
  | cons hv' hj ih =>
    rename_i H e0
    rcases List.mem_cons.mp he with rfl | he'
    · refine ⟨H, hv', hj, fun x hx => List.mem_cons_of_mem _ hx, by simp, ?_⟩
      intro x hx
      rcases List.mem_cons.mp hx with rfl | hx'
      · exact Or.inl rfl
      · exact Or.inr (Or.inl hx')
    · obtain ⟨H0, v0, j0, s0, l0, c0⟩ := ih he'
      refine ⟨H0, v0, j0, fun x hx => List.mem_cons_of_mem _ (s0 x hx), by simp; omega, ?_⟩
      intro x hx
      rcases List.mem_cons.mp hx with rfl | hx'
      · exact Or.inr (Or.inr ⟨H, hv', hj, he', fun y hy => List.mem_cons_of_mem _ hy⟩)
      · rcases c0 x hx' with a | a | ⟨H1, v1, j1, m1, s1⟩
        · exact Or.inl a
        · exact Or.inr (Or.inl a)
        · exact Or.inr (Or.inr ⟨H1, v1, j1, m1, fun y hy => List.mem_cons_of_mem _ (s1 y hy)⟩)

/-- of two events in a valid history, one was justified by a valid history containing the other (or they are equal) -/
theorem order {H : List Ev} (hv : Valid S H) {a b : Ev} (ha : a ∈ H) (hb : b ∈ H) :
    a = b ∨ (∃ H1, Valid S H1 ∧ Justified S H1 a ∧ b ∈ H1 ∧ ∀ y ∈ H1, y ∈ H)
          ∨ (∃ H1, Valid S H1 ∧ Justified S H1 b ∧ a ∈ H1 ∧ ∀ y ∈ H1, y ∈ H) := by
  obtain ⟨H0, v0, j0, s0, _, c0⟩ := justified_of_mem S hv hb
  rcases c0 a ha with e | e | ⟨H1, v1, j1, m1, s1⟩
  · exact Or.inl e
  · exact Or.inr (Or.inr ⟨H0, v0, j0, e, s0⟩)
  · exact Or.inr (Or.inl ⟨H1, v1, j1, m1, s1⟩)

/-! ## the lemma chain -/

/-- no equivocation: a correct node accepts one hash per view -/
theorem acc_unique {H : List Ev} (hv : Valid S H) {n v h h' : Nat}
    (h1 : acc n v h ∈ H) (h2 : acc n v h' ∈ H) : h = h' := by
  rcases order S hv h1 h2 with e | ⟨H1, _, j1, m1, _⟩ | ⟨H1, _, j1, m1, _⟩
  · injection e
  · exact (j1.1 h' m1).symm
  · exact (j1.1 h m1)

/-- at most one certified hash per view -/
theorem cert_unique {H : List Ev} (hv : Valid S H) {v h h' : Nat}
    (c1 : validCert S H v h) (c2 : validCert S H v h') : h = h' := by
  obtain ⟨P, hp, hP⟩ := c1
  obtain ⟨P', hp', hP'⟩ := c2
  obtain ⟨m, hm, a, b, hh⟩ := QI1 S P P' hp hp'
  exact acc_unique S hv (hP m hm a hh) (hP' m hm b hh)

/-- a correct node that sent COMMIT on becoming prepared saw a prepared certificate -/
theorem com_cert {H : List Ev} (hv : Valid S H) {n v h : Nat} (hc : com n v h ∈ H) : validCert S H v h := by
  obtain ⟨H0, _, j0, s0, _, _⟩ := justified_of_mem S hv hc
  exact validCert_mono S s0 j0.2.1

/-- a vote sent after preparing in an earlier view carries a proof of at least that view -/
theorem lock_carried {H : List Ev} (hv : Valid S H) {n v h v' : Nat} {pf : Option (Nat × Nat)}
    (hc : com n v h ∈ H) (hvote : vote n v' pf ∈ H) (hlt : v < v') :
    ∃ pv hp, pf = some (pv, hp) ∧ v ≤ pv := by
  rcases order S hv hc hvote with e | ⟨H1, _, j1, m1, _⟩ | ⟨H1, _, j1, m1, _⟩
  · cases e
  · -- com justified after the vote: all earlier votes are for views ≤ v
    have := j1.2.2.1 v' pf m1; omega
  · exact j1 v h m1 hlt

/-- behind every visible commit quorum there is one whose correct members all committed on becoming prepared -/
theorem commitQuorum_prepared : ∀ (k : Nat) {H : List Ev}, H.length ≤ k → Valid S H → ∀ {v h : Nat},
    commitQuorum S H v h →
    ∃ C : Pred, Q S.ms ≤ wt S.ms C ∧ ∀ m ∈ S.ms, C m.id = true → S.honest m.id = true → com m.id v h ∈ H := by
  intro k
  induction k with
  | zero =>
    intro H hl _ v h ⟨C, hq, hC⟩
    have : H = [] := List.length_eq_zero_iff.mp (Nat.le_zero.mp hl)
    subst this
    refine ⟨C, hq, fun m hm hc hh => ?_⟩
    rcases hC m hm hc hh with a | a <;> cases a
  | succ k ih =>
    intro H hl hv v h hcq
    obtain ⟨C, hq, hC⟩ := hcq
    -- either no correct member of C used the late path, or one did and we descend
    by_cases hl2 : ∃ m ∈ S.ms, C m.id = true ∧ S.honest m.id = true ∧ lcom m.id v h ∈ H
    · obtain ⟨m, _, _, _, hlc⟩ := hl2
      obtain ⟨H0, v0, j0, s0, l0, _⟩ := justified_of_mem S hv hlc
      have hshort : H0.length ≤ k := by omega
      obtain ⟨C', hq', hC'⟩ := ih hshort v0 j0
      exact ⟨C', hq', fun m hm hc hh => s0 _ (hC' m hm hc hh)⟩
    · refine ⟨C, hq, fun m hm hc hh => ?_⟩
      rcases hC m hm hc hh with a | a
      · exact a
      · exact absurd ⟨m, hm, hc, hh, a⟩ hl2


/-- among the COMMITs-on-prepared of a node in a history there is one of the highest view -/
theorem max_com (H : List Ev) (n : Nat) (hex : ∃ v h, com n v h ∈ H) :
    ∃ v h, com n v h ∈ H ∧ ∀ v1 h1, com n v1 h1 ∈ H → v1 ≤ v := by
  induction H with
  | nil => obtain ⟨_, _, h⟩ := hex; cases h
  | cons e H ih =>
    by_cases hrest : ∃ v h, com n v h ∈ H
    · obtain ⟨v, h, hin, hmax⟩ := ih hrest
      by_cases hnew : ∃ v2 h2, e = com n v2 h2 ∧ v < v2
      · obtain ⟨v2, h2, rfl, hlt⟩ := hnew
        refine ⟨v2, h2, List.mem_cons_self, fun v1 h1 h => ?_⟩
        rcases List.mem_cons.mp h with e | h
        · injection e with _ e2 _; omega
        · have := hmax v1 h1 h; omega
      · refine ⟨v, h, List.mem_cons_of_mem _ hin, fun v1 h1 h => ?_⟩
        rcases List.mem_cons.mp h with e' | h
        · by_cases hle : v1 ≤ v
          · exact hle
          · exact absurd ⟨v1, h1, e'.symm, by omega⟩ hnew
        · exact hmax v1 h1 h
    · obtain ⟨v, h, hin⟩ := hex
      rcases List.mem_cons.mp hin with rfl | hin
      · refine ⟨v, h, List.mem_cons_self, fun v1 h1 h' => ?_⟩
        rcases List.mem_cons.mp h' with e | h'
        · injection e with _ e2 _; omega
        · exact absurd ⟨v1, h1, h'⟩ hrest
      · exact absurd ⟨v, h, hin⟩ hrest

/-- **the lock**: once a commit quorum for (v,h) is visible, every certificate of a later view is for h -/
theorem locked {H : List Ev} (hv : Valid S H) {v h : Nat} (hcq : commitQuorum S H v h) :
    ∀ (d : Nat) (v' h' : Nat), v' = v + 1 + d → validCert S H v' h' → h' = h := by
  obtain ⟨C, hq, hC⟩ := commitQuorum_prepared S H.length (Nat.le_refl _) hv hcq
  -- the correct prepared committers weigh at least Q - f
  have hPC : Q S.ms - F S.ms ≤ wt S.ms (fun i => C i && S.honest i) := by
    have := split_honest S C; omega
  -- and (v,h) itself is certified
  have hcert : validCert S H v h := by
    obtain ⟨m, hm, hc, hh⟩ := QH S C hq
    exact com_cert S hv (hC m hm hc hh)
  intro d
  induction d using Nat.strongRecOn with
  | _ d ih =>
    intro v' h' hv' hc'
    -- the certificate's quorum meets the correct prepared committers of (v,h): some correct member
    -- that is prepared on (v,h) accepted (v',h')
    obtain ⟨P, hpq, hP⟩ := hc'
    obtain ⟨m1, hm1, hp1, hC1⟩ := QI2 S P (fun i => C i && S.honest i) hpq hPC
    simp only [Bool.and_eq_true] at hC1
    have hacc := hP m1 hm1 hp1 hC1.2
    have hcom1 := hC m1 hm1 hC1.1 hC1.2
    obtain ⟨H0, v0, j0, s0, _, c0⟩ := justified_of_mem S hv hacc
    rcases j0.2.2 (by omega) with hnv | hbare
    · obtain ⟨V, pf, hVq, hVvote, hVpf, hVmax⟩ := hnv
      -- the vote quorum meets the prepared committers
      obtain ⟨m2, hm2, hV2, hC2⟩ := QI2 S V (fun i => C i && S.honest i) hVq hPC
      simp only [Bool.and_eq_true] at hC2
      have hcom := hC m2 hm2 hC2.1 hC2.2
      have hvote := s0 _ (hVvote m2 hm2 hV2 hC2.2)
      obtain ⟨pv, hp, hpf, hle⟩ := lock_carried S hv hcom hvote (by omega)
      -- so the NEW_VIEW re-proposes the highest certified hash
      rcases hVmax with hnone | ⟨m0, hm0, pvmax, hV0, hpf0, hmax⟩
      · rw [hnone m2 hm2 hV2] at hpf; cases hpf
      · have hge : pv ≤ pvmax := hmax m2 hm2 hV2 pv hp hpf
        obtain ⟨hlt0, hcert0⟩ := hVpf m0 hm0 hV0 pvmax h' hpf0
        have hcert0' := validCert_mono S s0 hcert0
        by_cases heq : pvmax = v
        · subst heq; exact cert_unique S hv hcert0' hcert
        · exact ih (pvmax - v - 1) (by omega) pvmax h' (by omega) hcert0'
    · -- stand-alone proposal: the member was already prepared on (v,h) (a node cannot become prepared
      -- in v after accepting a proposal of the later view v'), so the proposal is for h
      rcases c0 (com m1.id v h) hcom1 with e | hin | ⟨H1, _, j1, m1in, _⟩
      · cases e
      · -- the member's latest COMMIT-on-prepared before this acceptance is for a view in [v, v')
        obtain ⟨vm, hm, hmin, hmax⟩ := max_com H0 m1.id ⟨v, h, hin⟩
        obtain ⟨hlt, hhash⟩ := hbare vm hm hmin
        have hh' : hm = h' := hhash hmax
        have hge : v ≤ vm := hmax v h hin
        have hcm : com m1.id vm hm ∈ H := s0 _ hmin
        by_cases heq : vm = v
        · subst heq
          obtain ⟨Ha, _, ja, sa, _, _⟩ := justified_of_mem S hv hcm
          obtain ⟨Hb, _, jb, sb, _, _⟩ := justified_of_mem S hv hcom1
          have := acc_unique S hv (sa _ ja.1) (sb _ jb.1)
          omega
        · have := ih (vm - v - 1) (by omega) vm hm (by omega) (com_cert S hv hcm)
          omega
      · have := j1.2.2.2 v' h' m1in; omega

/-- **Agreement (C01)**: in every history built by the local rules, for every committee and every
Byzantine set of weight at most f, all correct nodes that decide, decide the same value. -/
theorem agreement {H : List Ev} (hv : Valid S H) {a b ha hb : Nat}
    (da : dec a ha ∈ H) (db : dec b hb ∈ H) : ha = hb := by
  obtain ⟨Ha, _, ⟨va, qa⟩, sa, _, _⟩ := justified_of_mem S hv da
  obtain ⟨Hb, _, ⟨vb, qb⟩, sb, _, _⟩ := justified_of_mem S hv db
  have qa' := commitQuorum_mono S sa qa
  have qb' := commitQuorum_mono S sb qb
  -- both committed pairs are certified
  have cert : ∀ {v h}, commitQuorum S H v h → validCert S H v h := by
    intro v h hq
    obtain ⟨C, hq', hC⟩ := commitQuorum_prepared S H.length (Nat.le_refl _) hv hq
    obtain ⟨m, hm, hc, hh⟩ := QH S C hq'
    exact com_cert S hv (hC m hm hc hh)
  rcases Nat.lt_trichotomy va vb with hlt | heq | hgt
  · exact (locked S hv qa' (vb - va - 1) vb hb (by omega) (cert qb')).symm
  · subst heq; exact cert_unique S hv (cert qa') (cert qb')
  · exact locked S hv qb' (va - vb - 1) va ha (by omega) (cert qa')

/-- external validity in the abstract: a certified (v,h) was accepted by a correct member -/
theorem certified_was_accepted_by_correct {H : List Ev} {v h : Nat} (hc : validCert S H v h) :
    ∃ m ∈ S.ms, S.honest m.id = true ∧ acc m.id v h ∈ H := by
  obtain ⟨P, hq, hP⟩ := hc
  obtain ⟨m, hm, hp, hh⟩ := QH S P hq
  exact ⟨m, hm, hh, hP m hm hp hh⟩

/-- a decided value was accepted (PREPARE sent / proposed) by a correct member in the deciding view -/
theorem decided_was_accepted_by_correct {H : List Ev} (hv : Valid S H) {n h : Nat} (hd : dec n h ∈ H) :
    ∃ v, ∃ m ∈ S.ms, S.honest m.id = true ∧ acc m.id v h ∈ H := by
  obtain ⟨H0, _, ⟨v, q⟩, s0, _, _⟩ := justified_of_mem S hv hd
  have q' := commitQuorum_mono S s0 q
  obtain ⟨C, hq', hC⟩ := commitQuorum_prepared S H.length (Nat.le_refl _) hv q'
  obtain ⟨m, hm, hc, hh⟩ := QH S C hq'
  exact ⟨v, certified_was_accepted_by_correct S (com_cert S hv (hC m hm hc hh))⟩

end LeanHelix.Spec
