import LeanHelix.Props.C09
import LeanHelix.Props.C04
/-!
# C11 — Whatever a correct node emits, correct peers in a matching state accept

Node-level theorems over the Term model.  "Peer" is any node state with the same configuration
(instance, height, ordered committee) — its own log, view and flags are arbitrary.

* `authentic_prepare_is_counted`, `authentic_commit_is_counted`: a PREPARE / COMMIT that meets the
  C08 conditions is in the peer's log afterwards (first-wins: or an earlier one with the same key is).
* `own_prepare_is_authentic_for_peers`, `own_commit_is_authentic_for_peers`: the PREPARE / COMMIT a
  correct node creates meets those conditions at every peer whose view is not higher.
* `prepares_ok_step`: log invariant for every event — every stored PREPARE is PREPARE-typed, from a
  committee member, verifies, is not from the leader of its view (or is the node's own), and no two
  share (height, view, hash, sender): whatever Byzantine members and outsiders sent.
* `own_vote_is_valid_for_the_leader`: therefore the VIEW_CHANGE a correct node builds on timeout —
  its proof is extracted from that log — passes `isViewChangeValid` at the correct leader it is
  addressed to: **no accepted input can turn the node's own vote into something a correct leader rejects**.
The NEW_VIEW case (a correct leader's NEW_VIEW is adopted by correct followers) is covered by the
correspondence, the clone-free monitor `honest-newview-not-adopted` and `own-newview-invalid`, not
yet by a Lean theorem (partial).
-/
namespace LeanHelix.C11
open LeanHelix LeanHelix.Msg LeanHelix.Term

/-! ## PREPARE and COMMIT are counted -/

def pkey (m : PMsg) : Nat × Nat × Nat × Nat := (m.header.height, m.header.view, m.header.hash, m.sender.id)

theorem storePrepare_has_key (s : Store) (pm : PMsg) : pkey pm ∈ (s.storePrepare pm).prepares.map pkey := by
  unfold Store.storePrepare
  split
  · rename_i h
    rw [List.any_eq_true] at h
    obtain ⟨x, hx, hk⟩ := h
    simp only [Bool.and_eq_true, beq_iff_eq] at hk
    apply List.mem_map.mpr
    exact ⟨x, hx, by simp only [pkey, Prod.mk.injEq]; exact ⟨hk.1.1.1, hk.1.1.2, hk.1.2, hk.2⟩⟩
  · simp

theorem checkPreparedLocally_prepares (w : Term.W) (h v hash : Nat) :
    (checkPreparedLocally w h v hash).n.store.prepares = w.n.store.prepares := by
  rcases checkPreparedLocally_cases w h v hash with e | ⟨_, e⟩
  · rw [e]
  · rw [e, (onPreparedLocally_n w h v hash).2.1]
    unfold Store.storeCommit; split <;> rfl

/-- **an authentic PREPARE is counted**: afterwards the peer's log holds a PREPARE with its (height, view, hash, sender) -/
theorem authentic_prepare_is_counted (w : Term.W) (pm : PMsg) (ha : C08.PrepareAuthentic w.n pm) :
    pkey pm ∈ (handlePrepare w pm).n.store.prepares.map pkey := by
  obtain ⟨a1, a2, a3, a4, a5⟩ := ha
  unfold handlePrepare
  dsimp only
  rw [if_neg (by simp [a1]), if_neg (by simp [a2]), if_neg (by simp [a3]), if_neg a4, if_neg (by simp [a5])]
  rw [checkPreparedLocally_prepares]
  exact storePrepare_has_key _ _

def ckey := C03.ckey

theorem storeCommit_has_key (s : Store) (cm : CMsg) : C03.ckey cm ∈ (s.storeCommit cm).commits.map C03.ckey := by
  unfold Store.storeCommit
  split
  · rename_i h
    rw [List.any_eq_true] at h
    obtain ⟨x, hx, hk⟩ := h
    simp only [Bool.and_eq_true, beq_iff_eq] at hk
    apply List.mem_map.mpr
    exact ⟨x, hx, by simp only [C03.ckey, Prod.mk.injEq]; exact ⟨hk.1.1.1, hk.1.1.2, hk.1.2, hk.2⟩⟩
  · simp

/-- **an authentic COMMIT is counted** -/
theorem authentic_commit_is_counted (w : Term.W) (cm : CMsg) (ha : C08.CommitAuthentic w.n cm) :
    C03.ckey cm ∈ (handleCommit w cm).n.store.commits.map C03.ckey := by
  obtain ⟨a0, a1, a2, a3⟩ := ha
  unfold handleCommit
  dsimp only
  rw [if_neg (by simp [a0]), if_neg (by simp [a1]), if_neg (by simp [a2]), if_neg (by simp [a3])]
  rw [(checkCommitted_n _ _ _ _).2.1]
  exact storeCommit_has_key _ _

/-- what a correct sender's own PREPARE looks like to a peer with the same committee whose view is not higher -/
theorem own_prepare_is_authentic_for_peers (sender peer : Node) (h v hash : Nat)
    (hcfg : peer.cfg.members = sender.cfg.members)
    (hme : isMember sender.cfg sender.cfg.me = true)
    (hnl : isLeader sender.cfg sender.cfg.me v = false)       -- C10.never_prepare_as_leader
    (hview : peer.view ≤ v) :
    C08.PrepareAuthentic peer (ownPrepare sender.cfg h v hash) := by
  refine ⟨rfl, ?_, rfl, by show ¬ v < peer.view; omega, ?_⟩
  · show isMember peer.cfg sender.cfg.me = true
    unfold isMember at hme ⊢; rw [hcfg]; exact hme
  · show isLeader peer.cfg sender.cfg.me v = false
    unfold isLeader leaderId at hnl ⊢; rw [hcfg]; exact hnl

theorem own_commit_is_authentic_for_peers (sender peer : Node) (h v hash : Nat)
    (hcfg : peer.cfg.members = sender.cfg.members)
    (hme : isMember sender.cfg sender.cfg.me = true) :
    C08.CommitAuthentic peer (ownCommit sender.cfg h v hash) := by
  refine ⟨rfl, rfl, ?_, rfl⟩
  show isMember peer.cfg sender.cfg.me = true
  unfold isMember at hme ⊢; rw [hcfg]; exact hme

/-! ## the log of PREPAREs stays clean -/

structure PreparesOK (n : Node) : Prop where
  auth : ∀ pm ∈ n.store.prepares, pm.header.mtype = tP ∧ isMember n.cfg pm.sender.id = true ∧ pm.sender.ok = true
      ∧ (isLeader n.cfg pm.sender.id pm.header.view = false ∨ pm.sender = mySig n.cfg)
  keys : (n.store.prepares.map pkey).Nodup

theorem preparesOK_init (c : Cfg) : PreparesOK { cfg := c } := ⟨(by intro pm h; cases h), List.nodup_nil⟩

private theorem storePrepare_prepares (s : Store) (pm : PMsg) :
    (s.storePrepare pm).prepares = s.prepares ∨
    ((s.storePrepare pm).prepares = s.prepares ++ [pm] ∧ pkey pm ∉ s.prepares.map pkey) := by
  unfold Store.storePrepare
  split
  · exact Or.inl rfl
  · rename_i h
    right
    refine ⟨rfl, ?_⟩
    intro hm
    apply h
    obtain ⟨x, hx, hk⟩ := List.mem_map.mp hm
    simp only [pkey, Prod.mk.injEq] at hk
    rw [List.any_eq_true]
    exact ⟨x, hx, by simp [hk.1, hk.2.1, hk.2.2.1, hk.2.2.2]⟩

private theorem apply_prepares_other (s : Store) (op : StoreOp) (h : ∀ pm, op ≠ .prepare pm) :
    (s.apply op).prepares = s.prepares := by
  cases op with
  | prepare pm => exact absurd rfl (h pm)
  | pp m =>
    show (s.storePP m).prepares = s.prepares
    unfold Store.storePP; split <;> rfl
  | commit m =>
    show (s.storeCommit m).prepares = s.prepares
    unfold Store.storeCommit; split <;> rfl
  | vc m =>
    show (s.storeVC m).prepares = s.prepares
    unfold Store.storeVC; split <;> rfl

theorem preparesOK_evolves {a b : Node} (hme : isMember a.cfg a.cfg.me = true) (h : Evolves J a b)
    (ha : PreparesOK a) : PreparesOK b := by
  have gen : ∀ {a b : Node}, Evolves J a b → isMember a.cfg a.cfg.me = true → PreparesOK a →
      PreparesOK b ∧ b.cfg = a.cfg := by
    intro a b h
    induction h with
    | refl n => intro _ ha; exact ⟨ha, rfl⟩
    | other h => rename_i n n'; intro _ ha; exact ⟨⟨by rw [h.1, h.2]; exact ha.auth, by rw [h.2]; exact ha.keys⟩, h.1⟩
    | insert op hP =>
      rename_i n
      intro hme ha
      refine ⟨?_, rfl⟩
      cases op with
      | prepare pm =>
        have hauth : pm.header.mtype = tP ∧ isMember n.cfg pm.sender.id = true ∧ pm.sender.ok = true
            ∧ (isLeader n.cfg pm.sender.id pm.header.view = false ∨ pm.sender = mySig n.cfg) := by
          rcases hP with ⟨t, m, o, l, _⟩ | ⟨ho, _⟩
          · exact ⟨t, m, o, Or.inl l⟩
          · rw [ho]; exact ⟨rfl, hme, rfl, Or.inr rfl⟩
        rcases storePrepare_prepares n.store pm with e | ⟨e, hk⟩
        · exact ⟨by show ∀ x ∈ (n.store.storePrepare pm).prepares, _; rw [e]; exact ha.auth,
                 by show ((n.store.storePrepare pm).prepares.map pkey).Nodup; rw [e]; exact ha.keys⟩
        · refine ⟨?_, ?_⟩
          · show ∀ x ∈ (n.store.storePrepare pm).prepares, _
            rw [e]; intro x hx; simp at hx
            rcases hx with hx | rfl
            · exact ha.auth x hx
            · exact hauth
          · show ((n.store.storePrepare pm).prepares.map pkey).Nodup
            rw [e, List.map_append, List.nodup_append]
            refine ⟨ha.keys, by simp, ?_⟩
            intro x hx y hy; simp at hy; subst hy
            intro exy; subst exy; exact hk hx
      | pp m =>
        have e : ({ n with store := n.store.apply (.pp m) } : Node).store.prepares = n.store.prepares :=
          apply_prepares_other _ _ (by intro c hc; cases hc)
        exact ⟨by rw [e]; exact ha.auth, by rw [e]; exact ha.keys⟩
      | commit m =>
        have e : ({ n with store := n.store.apply (.commit m) } : Node).store.prepares = n.store.prepares :=
          apply_prepares_other _ _ (by intro c hc; cases hc)
        exact ⟨by rw [e]; exact ha.auth, by rw [e]; exact ha.keys⟩
      | vc m =>
        have e : ({ n with store := n.store.apply (.vc m) } : Node).store.prepares = n.store.prepares :=
          apply_prepares_other _ _ (by intro c hc; cases hc)
        exact ⟨by rw [e]; exact ha.auth, by rw [e]; exact ha.keys⟩
    | trans _ _ ih1 ih2 =>
      intro hme ha
      obtain ⟨hb, eb⟩ := ih1 hme ha
      obtain ⟨hc, ec⟩ := ih2 (by rw [eb]; exact hme) hb
      exact ⟨hc, by rw [ec, eb]⟩
  exact (gen h hme ha).1

/-- **the invariant holds after every event, whatever was received** -/
theorem prepares_ok_step (n : Node) (e : Event) (spi : List Spi) (hme : isMember n.cfg n.cfg.me = true)
    (hstart : ∀ c, e = .start c → n.view = 0) (h : PreparesOK n) : PreparesOK (step n e spi).1 :=
  preparesOK_evolves hme (step_ev n e spi hstart) h

/-! ## the node's own vote is valid for the leader it is sent to -/

private theorem mem_getPrepares {s : Store} {h v hash : Nat} {pm : PMsg} (hm : pm ∈ s.getPrepares h v hash) :
    pm ∈ s.prepares ∧ pm.header.height = h ∧ pm.header.view = v ∧ pm.header.hash = hash := by
  unfold Store.getPrepares at hm
  rw [List.mem_filter] at hm
  have h2 := hm.2
  simp only [Bool.and_eq_true, beq_iff_eq] at h2
  exact ⟨hm.1, h2.1.1, h2.1.2, h2.2⟩

private theorem getPrepares_ids_nodup (s : Store) (h v hash : Nat) (hk : (s.prepares.map pkey).Nodup) :
    ((s.getPrepares h v hash).map (·.sender.id)).Nodup := by
  unfold Store.getPrepares
  generalize s.prepares = l at hk
  induction l with
  | nil => simp
  | cons x xs ih =>
    simp only [List.map_cons, List.nodup_cons] at hk
    by_cases hx : (x.header.height == h && x.header.view == v && x.header.hash == hash) = true
    · simp only [List.filter_cons, hx, if_true, List.map_cons, List.nodup_cons]
      refine ⟨?_, ih hk.2⟩
      intro hm
      obtain ⟨y, hy, hid⟩ := List.mem_map.mp hm
      rw [List.mem_filter] at hy
      apply hk.1
      apply List.mem_map.mpr
      refine ⟨y, hy.1, ?_⟩
      simp only [Bool.and_eq_true, beq_iff_eq] at hx
      have hy2 := hy.2
      simp only [Bool.and_eq_true, beq_iff_eq] at hy2
      simp only [pkey, Prod.mk.injEq]
      exact ⟨by rw [hy2.1.1, hx.1.1], by rw [hy2.1.2, hx.1.2], by rw [hy2.2, hx.2], hid⟩
    · simp only [List.filter_cons, hx]
      exact ih hk.2

private theorem getPP_mem {s : Store} {h v : Nat} {ppm : PPMsg} (hg : s.getPP h v = some ppm) :
    ppm ∈ s.pps ∧ ppm.c.header.height = h ∧ ppm.c.header.view = v := by
  unfold Store.getPP at hg
  have h1 := List.mem_of_find?_eq_some hg
  have h2 := List.find?_some hg
  simp only [Bool.and_eq_true, beq_iff_eq] at h2
  exact ⟨h1, h2.1, h2.2⟩

/-- **The prepared proof a correct node puts into its VIEW_CHANGE passes validation at any correct
node with the same configuration** — whatever PREPAREs, proposals and COMMITs it accepted before:
its log invariants (`PreparesOK`, `C04.ProposalsOK`) are exactly the conditions the validator checks.
Hypotheses: the proof was extracted for a view below the vote's view; the node is not the leader of
that view (it sent PREPARE there, `C10.never_prepare_as_leader`); stored messages carry this instance
id (worker filter). -/
theorem own_proof_passes_validation (n : Node) (pv voteView : Nat) (p : Proof) (b : Option Block)
    (hx : extractProof n pv = some (p, b))
    (hP : PreparesOK n) (hPP : C04.ProposalsOK n)
    (hlt : pv < voteView)
    (hown : ∀ pm ∈ n.store.prepares, pm.header.view = pv → pm.sender = mySig n.cfg → isLeader n.cfg n.cfg.me pv = false) :
    validatePreparedProof n.cfg n.cfg.height voteView (some p) = true := by
  obtain ⟨ppm, hg, _, e1, e2, e3, e4, e5, e6⟩ := C09.extractProof_spec n pv p b hx
  obtain ⟨hppmem, hpph, hppv⟩ := getPP_mem hg
  obtain ⟨ppt, ppl, ppok⟩ := hPP ppm hppmem
  -- the shape of the proof
  unfold extractProof at hx
  rw [hg] at hx
  simp only at hx
  split at hx
  · cases hx
  split at hx
  · cases hx
  split at hx
  · cases hx
  rename_i p0 ps hps
  simp only [Option.some.injEq, Prod.mk.injEq] at hx
  obtain ⟨hp, _⟩ := hx
  have hp0 : p0 ∈ n.store.getPrepares n.cfg.height pv ppm.c.header.hash := by rw [hps]; exact List.mem_cons_self ..
  obtain ⟨_, q1, q2, q3⟩ := mem_getPrepares hp0
  unfold validatePreparedProof
  subst hp
  simp only [Bool.and_eq_true, beq_iff_eq, decide_eq_true_eq, List.all_eq_true, bne_iff_ne, ne_eq]
  refine ⟨⟨⟨⟨⟨⟨⟨⟨⟨hpph, by rw [hppv]; exact hlt⟩, ?_⟩, ?_⟩, ?_⟩, q3⟩, by rw [q1, hpph]⟩, by rw [q2, hppv]⟩, ?_⟩, ?_⟩
  · -- quorum
    have := e6
    simpa [hps, List.map_map, Function.comp_def] using this
  · -- the proposer's signature verifies (or it is the node's own)
    rcases ppok with ok | own
    · exact ok
    · rw [own]; rfl
  · -- the proposer is the leader of that view
    have : isLeader n.cfg ppm.c.sender.id ppm.c.header.view = true := ppl
    unfold isLeader at this
    simp only [beq_iff_eq] at this
    exact this
  · -- every PREPARE sender verifies, is a member, and is not the proposer
    intro s hs
    obtain ⟨pm, hpm, rfl⟩ := List.mem_map.mp hs
    obtain ⟨hin, _, r2, _⟩ := mem_getPrepares hpm
    obtain ⟨_, am, ao, al⟩ := hP.auth pm hin
    refine ⟨⟨ao, ?_⟩, am⟩
    -- not the proposer: the proposer is the leader of pv
    have hlead : leaderId n.cfg pv = ppm.c.sender.id := by
      have : isLeader n.cfg ppm.c.sender.id ppm.c.header.view = true := ppl
      unfold isLeader at this; simp only [beq_iff_eq] at this; rw [← hppv]; exact this
    intro heq
    rcases al with al | al
    · unfold isLeader at al; rw [r2, hlead, heq] at al; simp at al
    · have : pm.sender.id = n.cfg.me := by rw [al]; rfl
      have hnl := hown pm hin r2 al
      unfold isLeader at hnl; rw [hlead, ← heq, this] at hnl; simp at hnl
  · -- distinct senders
    have := getPrepares_ids_nodup n.store n.cfg.height pv ppm.c.header.hash hP.keys
    simpa [List.map_map, Function.comp_def] using this

/-- **The VIEW_CHANGE a correct node builds on timeout is valid at every correct node with the same
configuration** (so the leader it is addressed to counts it, `C08.ViewChangeAuthentic` + matching
block by `C09.timeout_vote`).  `hprep`: the prepared view is below the vote's view and the node did
not lead it if it holds an own PREPARE for it; `hinst`: logged messages carry this instance id (the worker's filter, C08). -/
theorem own_vote_is_valid_for_peers (n peer : Node) (hcfg : peer.cfg = n.cfg)
    (hme : isMember n.cfg n.cfg.me = true)
    (hP : PreparesOK n) (hPP : C04.ProposalsOK n)
    (hprep : ∀ pv, n.prepared = some pv → pv < n.view ∧
      (∀ pm ∈ n.store.prepares, pm.header.view = pv → pm.sender = mySig n.cfg → isLeader n.cfg n.cfg.me pv = false))
    (hinstPP : ∀ ppm ∈ n.store.pps, ppm.c.header.inst = n.cfg.inst)
    (hinstP : ∀ pm ∈ n.store.prepares, pm.header.inst = n.cfg.inst) :
    isViewChangeValid peer (C09.voteOnTimeout n).c = true := by
  unfold isViewChangeValid
  rw [hcfg]
  have hm : isMember n.cfg (C09.voteOnTimeout n).c.sender.id = true := hme
  have hok : (C09.voteOnTimeout n).c.sender.ok = true := rfl
  have hty : (C09.voteOnTimeout n).c.header.mtype = tVC := rfl
  have hin : (C09.voteOnTimeout n).c.header.inst = n.cfg.inst := rfl
  have hvw : (C09.voteOnTimeout n).c.header.view = n.view := rfl
  simp only [hm, hok, hty, hin, hvw, beq_self_eq_true, Bool.true_and, Bool.and_eq_true]
  cases hpr : n.prepared with
  | none =>
    have : (C09.voteOnTimeout n).c.header.proof = none := by unfold C09.voteOnTimeout; simp [hpr]
    rw [this]; exact ⟨rfl, rfl⟩
  | some pv =>
    cases hx : extractProof n pv with
    | none =>
      have : (C09.voteOnTimeout n).c.header.proof = none := by unfold C09.voteOnTimeout; simp [hpr, hx]
      rw [this]; exact ⟨rfl, rfl⟩
    | some pb =>
      obtain ⟨p, b⟩ := pb
      have : (C09.voteOnTimeout n).c.header.proof = some p := by unfold C09.voteOnTimeout; simp [hpr, hx]
      rw [this]
      obtain ⟨hlt, hnl⟩ := hprep pv hpr
      refine ⟨?_, own_proof_passes_validation n pv n.view p b hx hP hPP hlt hnl⟩
      -- message types and instance ids inside the proof
      obtain ⟨ppm, hg, _⟩ := C09.extractProof_spec n pv p b hx
      obtain ⟨hppmem, _, _⟩ := getPP_mem hg
      unfold extractProof at hx
      rw [hg] at hx
      simp only at hx
      split at hx
      · cases hx
      split at hx
      · cases hx
      split at hx
      · cases hx
      rename_i p0 ps hps
      simp only [Option.some.injEq, Prod.mk.injEq] at hx
      obtain ⟨hp, _⟩ := hx
      have hp0 : p0 ∈ n.store.getPrepares n.cfg.height pv ppm.c.header.hash := by rw [hps]; exact List.mem_cons_self ..
      obtain ⟨hp0mem, _, _, _⟩ := mem_getPrepares hp0
      subst hp
      simp only [beq_self_eq_true, Bool.true_and, Bool.and_eq_true, beq_iff_eq]
      exact ⟨hinstPP ppm hppmem, hinstP p0 hp0mem⟩

/-- non-vacuity: a concrete prepared follower state meets every hypothesis and its vote carries a proof -/
def exCfg : Cfg := ⟨2, 7, 5, [⟨1, 1⟩, ⟨2, 1⟩, ⟨3, 1⟩, ⟨4, 1⟩]⟩
def exPP : PPMsg := ⟨⟨⟨tPP, 7, 5, 0, 99⟩, ⟨1, true⟩⟩, some ⟨9, 5, 99⟩⟩
def exStore : Store := { pps := [exPP], prepares := [⟨⟨tP, 7, 5, 0, 99⟩, ⟨2, true⟩⟩, ⟨⟨tP, 7, 5, 0, 99⟩, ⟨3, true⟩⟩] }
def exNode : Node := { cfg := exCfg, view := 1, prepared := some 0, store := exStore }

example : (extractProof exNode 0).isSome = true := by decide
example : isMember exNode.cfg exNode.cfg.me = true := by decide
example : PreparesOK exNode := by
  refine ⟨?_, by decide⟩
  intro pm hpm
  have : pm = ⟨⟨tP, 7, 5, 0, 99⟩, ⟨2, true⟩⟩ ∨ pm = ⟨⟨tP, 7, 5, 0, 99⟩, ⟨3, true⟩⟩ := by
    simpa [exNode, exStore] using hpm
  rcases this with rfl | rfl <;> exact ⟨rfl, by decide, rfl, Or.inl (by decide)⟩
example : C04.ProposalsOK exNode := by
  intro ppm hpp
  have : ppm = exPP := by simpa [exNode, exStore] using hpp
  subst this
  exact ⟨rfl, by decide, Or.inl rfl⟩
example : ∀ pv, exNode.prepared = some pv → pv < exNode.view ∧
    (∀ pm ∈ exNode.store.prepares, pm.header.view = pv → pm.sender = mySig exNode.cfg → isLeader exNode.cfg exNode.cfg.me pv = false) := by
  intro pv h
  have : pv = 0 := by simpa [exNode] using h.symm
  subst this; exact ⟨by decide, fun _ _ _ _ => by decide⟩
example : ((C09.voteOnTimeout exNode).c.header.proof).isSome = true := by decide

end LeanHelix.C11
