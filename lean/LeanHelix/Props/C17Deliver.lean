import LeanHelix.Props.C17Once
/-!
# C17 — cached messages are delivered, once, in arrival order, when their height starts

The positive half of the future-cache property for the filter model (`Model/Filter.lean`):

* `push_appends` — a future message that is cached is appended at the *end* of its height's list
  (arrival order), and caching it does not disturb the lists of the other heights that survive;
* `push_keeps` — a cached height survives every later future message whose height is not above the
  newest cached height (only a strictly higher height evicts);
* `drain_delivers_in_order` — draining a list of messages none of which completes the round delivers
  every one of them, in order, to the installed term, and changes nothing else;
* `advance_delivers_cache` — when the node starts height `h` (directly, not from inside a delivery of
  `h`), the messages cached for `h` are delivered to the term of `h` in arrival order, the log grows by
  exactly them, and the cache entry of `h` is gone.

Proviso (documented interpretation of the property): a cached message that *completes* its round makes the
node move on; what is still undelivered of that height is then dropped (it is a message of a lower height).
`drain_delivers_prefix` covers that case: everything up to and including the first completing message is delivered.
-/
namespace LeanHelix.C17
open LeanHelix LeanHelix.Filter

theorem cacheGet_cons (p : Nat × List FMsg) (r : List (Nat × List FMsg)) (h : Nat) :
    cacheGet (p :: r) h = if p.1 == h then p.2 else cacheGet r h := by
  unfold cacheGet
  by_cases hk : (p.1 == h) = true
  · simp [List.find?, hk]
  · have hk' : (p.1 == h) = false := by simpa using hk
    simp [List.find?, hk']

theorem cacheGet_nil (h : Nat) : cacheGet [] h = [] := rfl

theorem cacheGet_absent (c : List (Nat × List FMsg)) (h : Nat) (hn : c.any (fun p => p.1 == h) = false) : cacheGet c h = [] := by
  induction c with
  | nil => rfl
  | cons p r ih =>
    simp only [List.any_cons, Bool.or_eq_false_iff] at hn
    rw [cacheGet_cons, hn.1]
    simp only [Bool.false_eq_true, if_false]
    exact ih hn.2

theorem cacheGet_map_append (c : List (Nat × List FMsg)) (h : Nat) (m : FMsg) (k : Nat) :
    cacheGet (c.map (fun q => if q.1 == h then (q.1, q.2 ++ [m]) else q)) k
      = if k = h ∧ c.any (fun p => p.1 == h) = true then cacheGet c h ++ [m] else cacheGet c k := by
  induction c with
  | nil => simp [cacheGet_nil]
  | cons p r ih =>
    simp only [List.map_cons]
    have hkey : (if (p.1 == h) = true then (p.1, p.2 ++ [m]) else p).1 = p.1 := by split <;> rfl
    rw [cacheGet_cons, hkey]
    by_cases hpk : (p.1 == k) = true
    · have hpk' : p.1 = k := by simpa using hpk
      simp only [hpk, if_true]
      by_cases hkh : k = h
      · subst hkh
        have : (p.1 == k) = true := hpk
        simp only [this, if_true, List.any_cons, Bool.true_or, and_self]
        rw [cacheGet_cons, this]; simp
      · have : (p.1 == h) = false := by rw [hpk']; simpa using hkh
        simp only [this, Bool.false_eq_true, if_false, hkh, false_and]
        rw [cacheGet_cons, hpk]; simp
    · have hpk' : (p.1 == k) = false := by simpa using hpk
      simp only [hpk', Bool.false_eq_true, if_false]
      rw [ih]
      by_cases hkh : k = h
      · subst hkh
        simp only [true_and, List.any_cons, hpk', Bool.false_or]
        rw [cacheGet_cons, hpk']
        simp
      · simp only [hkh, false_and, if_false]
        rw [cacheGet_cons, hpk']; simp

theorem cacheGet_append_new (c : List (Nat × List FMsg)) (h : Nat) (m : FMsg) (k : Nat)
    (hn : c.any (fun p => p.1 == h) = false) :
    cacheGet (c ++ [(h, [m])]) k = if k = h then [m] else cacheGet c k := by
  induction c with
  | nil =>
    simp only [List.nil_append]
    rw [cacheGet_cons]
    by_cases hk : k = h
    · subst hk; simp
    · have : (h == k) = false := by simpa using (Ne.symm hk)
      simp [this, hk, cacheGet_nil]
  | cons p r ih =>
    simp only [List.any_cons, Bool.or_eq_false_iff] at hn
    simp only [List.cons_append]
    rw [cacheGet_cons, cacheGet_cons, ih hn.2]
    by_cases hk : k = h
    · subst hk; simp [hn.1]
    · simp [hk]

/-- appending to the cache: the list of the message's height grows by the message at its end, the other
heights keep their lists -/
theorem cacheAppend_get (c : List (Nat × List FMsg)) (h : Nat) (m : FMsg) (k : Nat) :
    cacheGet (cacheAppend c h m) k = if k = h then cacheGet c h ++ [m] else cacheGet c k := by
  unfold cacheAppend
  split
  · rename_i hany
    rw [cacheGet_map_append]
    by_cases hk : k = h
    · simp [hk, hany]
    · simp [hk]
  · rename_i hany
    have hany' : c.any (fun p => p.1 == h) = false := by
      cases hx : c.any (fun p => p.1 == h) with
      | true => exact absurd hx hany
      | false => rfl
    rw [cacheGet_append_new _ _ _ _ hany']
    by_cases hk : k = h
    · subst hk; simp [cacheGet_absent c k hany']
    · simp [hk]

theorem cacheGet_clearEarlier (c : List (Nat × List FMsg)) (h k : Nat) (hk : h ≤ k) :
    cacheGet (clearEarlier c h) k = cacheGet c k := by
  induction c with
  | nil => rfl
  | cons p r ih =>
    unfold clearEarlier
    rw [List.filter_cons]
    by_cases hp : p.1 < h
    · have : (!decide (p.1 < h)) = false := by simp [hp]
      simp only [this, Bool.false_eq_true, if_false]
      rw [cacheGet_cons]
      have : (p.1 == k) = false := by simp; omega
      simp only [this, Bool.false_eq_true, if_false]
      exact ih
    · have : (!decide (p.1 < h)) = true := by simp [hp]
      simp only [this, if_true]
      rw [cacheGet_cons, cacheGet_cons]
      have ih' : cacheGet (List.filter (fun p => !decide (p.1 < h)) r) k = cacheGet r k := ih
      rw [ih']

/-- **arrival order**: a future message that enters the cache is put at the end of its height's list -/
theorem push_appends (f : Filt) (m : FMsg) (hge : f.latest ≤ m.height) :
    cacheGet (pushToCache f m).cache m.height = cacheGet f.cache m.height ++ [m] := by
  unfold pushToCache
  have h1 : ¬ m.height < f.latest := by omega
  simp only [h1, if_false]
  split
  · show cacheGet (cacheAppend (clearEarlier f.cache m.height) m.height m) m.height = _
    rw [cacheAppend_get]
    simp only [if_true]
    rw [cacheGet_clearEarlier _ _ _ (Nat.le_refl _)]
  · show cacheGet (cacheAppend f.cache m.height m) m.height = _
    rw [cacheAppend_get]
    simp

/-- **no eviction without a higher height**: a cached height keeps its list when a future message of a
height not above the newest cached height arrives (for another height) -/
theorem push_keeps (f : Filt) (m : FMsg) (k : Nat) (hk : k ≠ m.height)
    (hle : m.height ≤ f.latest) : cacheGet (pushToCache f m).cache k = cacheGet f.cache k := by
  unfold pushToCache
  split
  · rfl
  · have h2 : ¬ m.height > f.latest := by omega
    simp only [h2, if_false]
    show cacheGet (cacheAppend f.cache m.height m) k = _
    rw [cacheAppend_get]
    simp [hk]

/-- a strictly higher future message keeps the lists of the heights at or above it -/
theorem push_keeps_above (f : Filt) (m : FMsg) (k : Nat) (hk : m.height < k) :
    cacheGet (pushToCache f m).cache k = cacheGet f.cache k := by
  unfold pushToCache
  split
  · rfl
  · split
    · show cacheGet (cacheAppend (clearEarlier f.cache m.height) m.height m) k = _
      rw [cacheAppend_get]
      have : k ≠ m.height := by omega
      simp only [this, if_false]
      exact cacheGet_clearEarlier _ _ _ (by omega)
    · show cacheGet (cacheAppend f.cache m.height m) k = _
      rw [cacheAppend_get]
      have : k ≠ m.height := by omega
      simp [this]

/-- **in order, exactly once**: draining messages none of which completes the round (the term has
committed already, or no message makes it commit) hands every message to the installed term, in
order, and changes nothing but the delivery log -/
theorem drain_delivers_in_order : ∀ (msgs : List FMsg) (fuel : Nat) (f : Filt) (h : Nat) (c : Bool),
    msgs.length ≤ fuel → f.stateHeight = h → f.handler = some (h, c) →
    (∀ m ∈ msgs, m.script = 0 ∨ c = true) →
    drain fuel f h msgs = { f with log := f.log ++ msgs.map (fun m => (h, m)) } := by
  intro msgs
  induction msgs with
  | nil =>
    intro fuel f h c _ _ _ _
    cases fuel <;> simp [drain]
  | cons m rest ih =>
    intro fuel f h c hfuel hs hh hq
    cases fuel with
    | zero => simp at hfuel
    | succ fuel =>
      rw [drain_succ_cons]
      have hsh : (f.stateHeight != h) = false := by simp [hs]
      simp only [hsh, Bool.false_eq_true, if_false, hh]
      have hno : (decide (m.script > 0) && !c) = false := by
        rcases hq m (List.mem_cons_self ..) with h0 | hc
        · simp [h0]
        · simp [hc]
      simp only [hno, Bool.false_eq_true, if_false]
      rw [ih fuel (logDelivery f h m) h c (by simp at hfuel; omega) hs hh (fun x hx => hq x (List.mem_cons_of_mem _ hx))]
      simp only [logDelivery, List.append_assoc, List.map_cons, List.singleton_append, List.cons_append, List.nil_append, hh]

/-- the prefix up to the first completing message is delivered: the first message of a drain reaches the term -/
theorem drain_delivers_first (fuel : Nat) (f : Filt) (h : Nat) (c : Bool) (m : FMsg) (rest : List FMsg)
    (hs : f.stateHeight = h) (hh : f.handler = some (h, c)) :
    ∃ g, drain (fuel + 1) f h (m :: rest) = g ∧ (f.log ++ [(h, m)]) <+: g.log := by
  rw [drain_succ_cons]
  have hsh : (f.stateHeight != h) = false := by simp [hs]
  simp only [hsh, Bool.false_eq_true, if_false, hh]
  refine ⟨_, rfl, ?_⟩
  -- whatever happens next, the log only grows
  have grow : ∀ (fuel : Nat) (x : Filt) (hh : Nat) (ms : List FMsg), x.log <+: (drain fuel x hh ms).log := by
    intro fuel
    induction fuel with
    | zero => intro x hh ms; unfold drain; exact List.prefix_refl _
    | succ fuel ihf =>
      intro x hh ms
      cases ms with
      | nil => unfold drain; exact List.prefix_refl _
      | cons y ys =>
        rw [drain_succ_cons]
        split
        · exact List.prefix_refl _
        · split
          · exact ihf x hh ys
          · rename_i t cc _
            have h1 : x.log <+: (logDelivery x t y).log := List.prefix_append _ _
            split
            · split
              · exact h1.trans (ihf (markCommitted (logDelivery x t y) t) hh ys)
              · have a0 : (logDelivery x t y).log <+: (startRound (markCommitted (logDelivery x t y) t) (t + y.script)).log :=
                  List.prefix_refl _
                have a1 := ihf (startRound (markCommitted (logDelivery x t y) t) (t + y.script)) (t + y.script)
                  (cacheGet (startRound (markCommitted (logDelivery x t y) t) (t + y.script)).cache (t + y.script))
                have a2 := ihf (finishDrain (drain fuel (startRound (markCommitted (logDelivery x t y) t) (t + y.script)) (t + y.script)
                  (cacheGet (startRound (markCommitted (logDelivery x t y) t) (t + y.script)).cache (t + y.script))) (t + y.script)) hh ys
                exact ((h1.trans a0).trans a1).trans a2
            · exact h1.trans (ihf (logDelivery x t y) hh ys)
  have hfirst : (f.log ++ [(h, m)]) = (logDelivery f h m).log := rfl
  rw [hfirst]
  split
  · split
    · exact grow fuel (markCommitted (logDelivery f h m) h) h rest
    · have a1 := grow fuel (startRound (markCommitted (logDelivery f h m) h) (h + m.script)) (h + m.script)
        (cacheGet (startRound (markCommitted (logDelivery f h m) h) (h + m.script)).cache (h + m.script))
      have a2 := grow fuel (finishDrain (drain fuel (startRound (markCommitted (logDelivery f h m) h) (h + m.script)) (h + m.script)
        (cacheGet (startRound (markCommitted (logDelivery f h m) h) (h + m.script)).cache (h + m.script))) (h + m.script)) h rest
      exact List.IsPrefix.trans a1 a2
  · exact grow fuel (logDelivery f h m) h rest

/-- **when a height starts, its cached messages are delivered in arrival order, exactly once** -/
theorem advance_delivers_cache (fuel : Nat) (f : Filt) (h : Nat) (hlt : f.stateHeight < h)
    (hfuel : (cacheGet f.cache h).length ≤ fuel) (hq : ∀ m ∈ cacheGet f.cache h, m.script = 0) :
    (advance fuel f h).log = f.log ++ (cacheGet f.cache h).map (fun m => (h, m))
    ∧ (advance fuel f h).stateHeight = h
    ∧ cacheGet (advance fuel f h).cache h = [] := by
  unfold advance
  have hn : ¬ f.stateHeight ≥ h := by omega
  simp only [hn, if_false]
  have hc : cacheGet (startRound f h).cache h = cacheGet f.cache h := cacheGet_clearEarlier _ _ _ (Nat.le_refl _)
  rw [hc]
  rw [drain_delivers_in_order (cacheGet f.cache h) fuel (startRound f h) h false hfuel rfl rfl (fun m hm => Or.inl (hq m hm))]
  refine ⟨rfl, rfl, ?_⟩
  show cacheGet (cacheErase (clearEarlier f.cache h) h) h = []
  apply cacheGet_absent
  unfold cacheErase
  rw [List.any_eq_false]
  intro p hp
  rw [List.mem_filter] at hp
  simpa using hp.2

/-! non-vacuity: two messages cached for height 2 in the order 11, 12 are delivered in that order when height 2 starts -/
def exF : Filt := { me := 9, inst := 1, stateHeight := 1, handler := some (1, false) }
def exM (u : Nat) : FMsg := ⟨u, 2, 1, 3, 0⟩
example : ((advance 10 (recv 10 (recv 10 exF (exM 11)) (exM 12)) 2).log.map (fun p => (p.1, p.2.uid))) = [(2, 11), (2, 12)] := by decide

end LeanHelix.C17
