import LeanHelix.Props.C11NewView
import LeanHelix.Props.C19
import LeanHelix.Props.C03
import LeanHelix.Props.C06
/-!
# C05 — Liveness after stabilisation (the proved parts)

Liveness of the whole network needs real time and fairness; what is proved here are the pieces the
argument is made of, each for every state / input, and the `node` suite's stabilisation phase (a
timely fair schedule with virtual timers `2^view`, after random adversarial prefixes, on real nodes)
checks their composition, with the monitor `no-commit-after-stabilisation` /
`accepted-but-not-committed`.

1. **View synchronisation by doubling timeouts** (`catch_up`): below saturation the timeouts of all
   earlier views together are shorter than the timeout of view `v`, so a member that is any number
   of views behind reaches view `v` by its own timeouts before a member that entered `v` at the same
   moment leaves it.  (`timeouts_saturate_partial`: at and above saturation this fails — views whose
   timeout is `MaxInt64` ns; they are outside the property's premise.)
2. **A correct leader's NEW_VIEW is adopted** (C11: `checkElected_newview_valid`,
   `valid_newview_is_adopted`), a PREPARE / COMMIT of a correct member is counted (C11).
3. **Quorum of PREPAREs ⇒ COMMIT is sent** (`becomes_prepared`), **quorum of COMMITs ⇒ the block is
   committed** (`commits_when_quorum`), for every node state.
4. **One node through a good view** (`good_view_prepares`, `good_view_commits`): a node that accepted the proposal
   of view `v` and is then delivered PREPAREs and COMMITs of members that together reach quorum — in
   any order, interleaved with any other PREPAREs/COMMITs — ends up committed.
-/
namespace LeanHelix.C05
open LeanHelix LeanHelix.Msg LeanHelix.Term LeanHelix.Timeout

/-! ## 1. timers -/

private theorem two_pow_pos (v : Nat) : (0 : Int) < 2 ^ v := Int.pow_pos (by decide)

def sumTimeouts (base : Int) : Nat → Int
  | 0 => 0
  | v + 1 => sumTimeouts base v + calcTimeout base v

private theorem fits_of_le (base : Int) (k v : Nat) (hb : 0 < base) (hkv : k ≤ v) (hfit : base * 2 ^ v ≤ maxInt64) :
    base * 2 ^ k ≤ maxInt64 := by
  obtain ⟨d, rfl⟩ : ∃ d, v = k + d := ⟨v - k, by omega⟩
  have hk := two_pow_pos k
  have hd := two_pow_pos d
  have : base * 2 ^ k ≤ base * 2 ^ (k + d) := by
    rw [Int.pow_add, ← Int.mul_assoc]
    have hp : 0 < base * 2 ^ k := Int.mul_pos hb hk
    calc base * 2 ^ k = base * 2 ^ k * 1 := by omega
      _ ≤ base * 2 ^ k * 2 ^ d := Int.mul_le_mul_of_nonneg_left (by omega) (by omega)
  omega

theorem sumTimeouts_eq (base : Int) (v : Nat) (hb : 0 < base) (hfit : base * 2 ^ v ≤ maxInt64) :
    sumTimeouts base v = base * 2 ^ v - base := by
  induction v with
  | zero => simp [sumTimeouts]
  | succ v ih =>
    have hv : base * 2 ^ v ≤ maxInt64 := fits_of_le base v (v + 1) hb (by omega) hfit
    unfold sumTimeouts
    rw [ih hv, C19.timeout_exact_when_fits base v hb hv, Int.pow_succ, ← Int.mul_assoc]
    omega

/-- **catch-up**: all earlier timeouts together are shorter than the timeout of view `v` -/
theorem catch_up (base : Int) (v : Nat) (hb : 0 < base) (hfit : base * 2 ^ v ≤ maxInt64) :
    sumTimeouts base v < calcTimeout base v := by
  rw [sumTimeouts_eq base v hb hfit, C19.timeout_exact_when_fits base v hb hfit]
  omega

example : sumTimeouts 4000000000 10 < calcTimeout 4000000000 10 := catch_up 4000000000 10 (by decide) (by decide)

/-- at saturation the catch-up argument no longer holds: the timeouts stop growing -/
theorem timeouts_saturate_partial : calcTimeout 4000000000 32 = calcTimeout 4000000000 33 := by decide

/-- every delay `D` that a Duration can express is eventually exceeded by the timeout -/
theorem timeout_exceeds_delay (base D : Int) (hb : 0 < base) (hD : D ≤ maxInt64) : ∃ v, D ≤ calcTimeout base v :=
  ⟨63, by unfold calcTimeout; rw [if_neg (by omega), if_pos (by omega)]; exact hD⟩

/-! ## 3. quorum of PREPAREs ⇒ COMMIT; quorum of COMMITs ⇒ committed -/

theorem checkPreparedLocally_of_cond (w : Term.W) (h v hash : Nat) (hc : PreparedCond w.n h v hash) :
    checkPreparedLocally w h v hash = onPreparedLocally w h v hash := by
  obtain ⟨c1, c2, ppm, c3, c4⟩ := hc
  unfold checkPreparedLocally
  rw [if_neg (by simpa using c1), if_neg (by simp [c2])]
  simp only [c3, c4, if_true]

theorem onPreparedLocally_effects (w : Term.W) (h v hash : Nat) :
    (onPreparedLocally w h v hash).n.prepared = some v
    ∧ Out.send (others w.n.cfg) (.commit (ownCommit w.n.cfg h v hash)) ∈ (onPreparedLocally w h v hash).outs
    ∧ C03.ckey (ownCommit w.n.cfg h v hash) ∈ (onPreparedLocally w h v hash).n.store.commits.map C03.ckey := by
  unfold onPreparedLocally
  dsimp only
  refine ⟨?_, ?_, ?_⟩
  · rw [(checkCommitted_n _ _ _ _).2.2.2.1]; rfl
  · obtain ⟨l, el, _⟩ := checkCommitted_appends
      (({ w with n := { w.n with prepared := some v, store := w.n.store.storeCommit ⟨⟨tC, w.n.cfg.inst, h, v, hash⟩, mySig w.n.cfg, true⟩ } } : Term.W).emit
        (.send (others w.n.cfg) (.commit ⟨⟨tC, w.n.cfg.inst, h, v, hash⟩, mySig w.n.cfg, true⟩))) h v hash
    rw [el]
    apply List.mem_append_left
    simp [W.emit, ownCommit]
  · rw [(checkCommitted_n _ _ _ _).2.1]
    exact C11.storeCommit_has_key _ _

/-- **A node whose log reaches a quorum of PREPAREs for the accepted proposal sends its COMMIT.** -/
theorem becomes_prepared (w : Term.W) (h v hash : Nat) (hc : PreparedCond w.n h v hash) :
    (checkPreparedLocally w h v hash).n.prepared = some v
    ∧ Out.send (others w.n.cfg) (.commit (ownCommit w.n.cfg h v hash)) ∈ (checkPreparedLocally w h v hash).outs := by
  rw [checkPreparedLocally_of_cond w h v hash hc]
  exact ⟨(onPreparedLocally_effects w h v hash).1, (onPreparedLocally_effects w h v hash).2.1⟩

/-- **A node that holds the proposal (with its block) and a quorum of COMMITs for it commits that
block** — provided it has not committed yet and its term-level context is still live. -/
theorem commits_when_quorum (w : Term.W) (h v hash : Nat) (ppm : PPMsg) (b : Block)
    (hnc : w.n.committed = none) (hpp : w.n.store.getPP h v = some ppm) (hb : ppm.block = some b)
    (hh : ppm.c.header.hash = hash)
    (hq : isQuorum w.n.cfg ((w.n.store.getCommits h v hash).map (·.sender.id)) = true)
    (hctx : (ctxFor w h maxView).2.isSome = true) :
    (checkCommitted w h v hash).n.committed = some b
    ∧ Out.commit b (w.n.store.getCommits h v hash) ∈ (checkCommitted w h v hash).outs := by
  have hpre : isPreprepared w.n h v hash = true := by
    unfold isPreprepared; rw [hpp]; simp [hb, hh]
  unfold checkCommitted
  rw [if_neg (by simp [hnc]), if_neg (by simp [hpre])]
  dsimp only
  rw [if_neg (by simp [hq])]
  simp only [hpp]
  have hn : ((ctxFor w h maxView).2.isNone) = false := by
    cases hx : (ctxFor w h maxView).2 with
    | none => rw [hx] at hctx; cases hctx
    | some _ => rfl
  generalize ctxFor w h maxView = r at hn hctx ⊢
  obtain ⟨w1, ctx⟩ := r
  simp only at hn
  simp only [hn, Bool.false_eq_true, if_false, hb]
  refine ⟨rfl, ?_⟩
  simp [W.emit]

/-! ## 4. one node through a good view -/

/-- the registry still hands out the term-level context of height `h` -/
def Live (r : Contexts.Reg) (h : Nat) : Prop := r.shutdown = false ∧ Contexts.isStale r ⟨h, maxView⟩ = false

def RegSame (a b : Contexts.Reg) : Prop := b.shutdown = a.shutdown ∧ b.watermark = a.watermark

theorem RegSame.refl (a : Contexts.Reg) : RegSame a a := ⟨rfl, rfl⟩
theorem RegSame.trans {a b c : Contexts.Reg} (h1 : RegSame a b) (h2 : RegSame b c) : RegSame a c :=
  ⟨h2.1.trans h1.1, h2.2.trans h1.2⟩

theorem Live.of_same {a b : Contexts.Reg} {h : Nat} (hs : RegSame a b) (hl : Live a h) : Live b h := by
  obtain ⟨s1, s2⟩ := hs
  obtain ⟨l1, l2⟩ := hl
  refine ⟨by rw [s1]; exact l1, ?_⟩
  unfold Contexts.isStale at l2 ⊢
  rw [s2]; exact l2

theorem for_same (r : Contexts.Reg) (hv : State.HV) : RegSame r (Contexts.step r (.for_ hv)).1 := by
  simp only [Contexts.step]
  split
  · exact RegSame.refl _
  · split
    · exact RegSame.refl _
    · split <;> exact ⟨rfl, rfl⟩

theorem ctxFor_same (w : Term.W) (h v : Nat) : RegSame w.n.reg (ctxFor w h v).1.n.reg := by
  unfold ctxFor
  exact for_same w.n.reg ⟨h, v⟩

theorem ctxFor_live (w : Term.W) (h : Nat) (hl : Live w.n.reg h) : (ctxFor w h maxView).2.isSome = true := by
  obtain ⟨l1, l2⟩ := hl
  simp only [ctxFor, Contexts.step, l1, Bool.false_eq_true, if_false, l2]
  cases Contexts.lookup w.n.reg.live ⟨h, maxView⟩ <;> rfl

theorem checkCommitted_same (w : Term.W) (h v hash : Nat) : RegSame w.n.reg (checkCommitted w h v hash).n.reg := by
  unfold checkCommitted
  split
  · exact RegSame.refl _
  split
  · exact RegSame.refl _
  dsimp only
  split
  · exact RegSame.refl _
  split
  · exact RegSame.refl _
  · have hc := ctxFor_same w h maxView
    generalize ctxFor w h maxView = r at hc ⊢
    obtain ⟨w1, ctx⟩ := r
    dsimp only at hc ⊢
    split
    · exact hc
    · split
      · exact hc
      · split <;> exact hc

theorem onPreparedLocally_same (w : Term.W) (h v hash : Nat) : RegSame w.n.reg (onPreparedLocally w h v hash).n.reg := by
  unfold onPreparedLocally
  exact checkCommitted_same _ h v hash

theorem checkPreparedLocally_same (w : Term.W) (h v hash : Nat) : RegSame w.n.reg (checkPreparedLocally w h v hash).n.reg := by
  rcases checkPreparedLocally_cases w h v hash with e | ⟨_, e⟩
  · rw [e]; exact RegSame.refl _
  · rw [e]; exact onPreparedLocally_same w h v hash

theorem handlePrepare_same (w : Term.W) (pm : PMsg) : RegSame w.n.reg (handlePrepare w pm).n.reg := by
  unfold handlePrepare
  dsimp only
  split
  · exact RegSame.refl _
  split
  · exact RegSame.refl _
  split
  · exact RegSame.refl _
  split
  · exact RegSame.refl _
  split
  · exact RegSame.refl _
  · exact checkPreparedLocally_same _ _ _ _

theorem handleCommit_same (w : Term.W) (cm : CMsg) : RegSame w.n.reg (handleCommit w cm).n.reg := by
  unfold handleCommit
  dsimp only
  split
  · exact RegSame.refl _
  split
  · exact RegSame.refl _
  split
  · exact RegSame.refl _
  split
  · exact RegSame.refl _
  · exact checkCommitted_same _ _ _ _

/-! ### the log only grows -/

theorem apply_commits_sub (s : Store) (op : StoreOp) : ∀ cm ∈ s.commits, cm ∈ (s.apply op).commits := by
  intro cm hcm
  cases op with
  | commit m =>
    show cm ∈ (s.storeCommit m).commits
    unfold Store.storeCommit; split
    · exact hcm
    · exact List.mem_append_left _ hcm
  | pp m =>
    show cm ∈ (s.storePP m).commits
    unfold Store.storePP; split <;> exact hcm
  | prepare m =>
    show cm ∈ (s.storePrepare m).commits
    unfold Store.storePrepare; split <;> exact hcm
  | vc m =>
    show cm ∈ (s.storeVC m).commits
    unfold Store.storeVC; split <;> exact hcm

theorem evolves_commits_sub {P} {a b : Node} (hev : Evolves P a b) : ∀ cm ∈ a.store.commits, cm ∈ b.store.commits := by
  induction hev with
  | refl => intro cm h; exact h
  | other hh => intro cm h; rw [hh.2]; exact h
  | insert op _ => exact apply_commits_sub _ op
  | trans _ _ ih1 ih2 => intro cm h; exact ih2 cm (ih1 cm h)

theorem apply_prepares_sub (s : Store) (op : StoreOp) : ∀ pm ∈ s.prepares, pm ∈ (s.apply op).prepares := by
  intro pm hpm
  cases op with
  | prepare m =>
    show pm ∈ (s.storePrepare m).prepares
    unfold Store.storePrepare; split
    · exact hpm
    · exact List.mem_append_left _ hpm
  | pp m =>
    show pm ∈ (s.storePP m).prepares
    unfold Store.storePP; split <;> exact hpm
  | commit m =>
    show pm ∈ (s.storeCommit m).prepares
    unfold Store.storeCommit; split <;> exact hpm
  | vc m =>
    show pm ∈ (s.storeVC m).prepares
    unfold Store.storeVC; split <;> exact hpm

theorem evolves_prepares_sub {P} {a b : Node} (hev : Evolves P a b) : ∀ pm ∈ a.store.prepares, pm ∈ b.store.prepares := by
  induction hev with
  | refl => intro pm h; exact h
  | other hh => intro pm h; rw [hh.2]; exact h
  | insert op _ => exact apply_prepares_sub _ op
  | trans _ _ ih1 ih2 => intro pm h; exact ih2 pm (ih1 pm h)

theorem committed_stays (w : Term.W) (cm : CMsg) (h : w.n.committed.isSome = true) :
    (handleCommit w cm).n.committed.isSome = true := by
  have key : ∀ (w : Term.W) (h' v hash : Nat), w.n.committed.isSome = true → (checkCommitted w h' v hash).n.committed.isSome = true := by
    intro w h' v hash hc
    unfold checkCommitted
    rw [if_pos hc]; exact hc
  unfold handleCommit
  dsimp only
  split
  · exact h
  split
  · exact h
  split
  · exact h
  split
  · exact h
  · exact key _ _ _ _ h

/-- ids of the stored COMMITs for (h, v, hash) -/
theorem mem_getCommits_ids (s : Store) (h v hash id : Nat) (hk : (h, v, hash, id) ∈ s.commits.map C03.ckey) :
    id ∈ (s.getCommits h v hash).map (·.sender.id) := by
  obtain ⟨cm, hcm, e⟩ := List.mem_map.mp hk
  simp only [C03.ckey, Prod.mk.injEq] at e
  apply List.mem_map.mpr
  refine ⟨cm, ?_, e.2.2.2⟩
  unfold Store.getCommits
  rw [List.mem_filter]
  exact ⟨hcm, by simp [e.1, e.2.1, e.2.2.1]⟩

/-- **Commit phase of a good view.**  A node that holds the proposal of (h, v) with its block `b`,
has a live term context and has not committed, and is then delivered any list of COMMITs among
which are authentic COMMITs for that proposal from members `R` of quorum weight (some possibly
logged already, at least one not), has committed `b` afterwards — whatever else the list contains. -/
theorem good_view_commits (cms : List CMsg) (h v hash : Nat) (ppm : PPMsg) (b : Block) (R : List Nat) (c : Cfg)
    (hfit : C06.Fits c.members) (hq : isQuorum c R = true) (hb : ppm.block = some b) (hh : ppm.c.header.hash = hash) :
    ∀ (w : Term.W), w.n.cfg = c → w.n.store.getPP h v = some ppm → Live w.n.reg h →
      (∀ id ∈ R, (h, v, hash, id) ∈ w.n.store.commits.map C03.ckey ∨
          ∃ cm ∈ cms, C08.CommitAuthentic w.n cm ∧ C03.ckey cm = (h, v, hash, id)) →
      (w.n.committed.isSome = true ∨ (w.n.committed = none ∧ ∃ id ∈ R, (h, v, hash, id) ∉ w.n.store.commits.map C03.ckey)) →
      (cms.foldl handleCommit w).n.committed.isSome = true := by
  induction cms with
  | nil =>
    intro w _ _ _ hR hst
    rcases hst with hc | ⟨_, id, hid, hmiss⟩
    · exact hc
    · rcases hR id hid with k | ⟨cm, hcm, _⟩
      · exact absurd k hmiss
      · cases hcm
  | cons cm rest ih =>
    intro w hcfg hpp hlive hR hst
    simp only [List.foldl_cons]
    have hev := handleCommit_ev w cm
    have hcfg' : (handleCommit w cm).n.cfg = c := by rw [hev.cfg]; exact hcfg
    have hpp' := hev.getPP_stable h v ppm hpp
    have hlive' : Live (handleCommit w cm).n.reg h := Live.of_same (handleCommit_same w cm) hlive
    have hkeys : ∀ k, k ∈ w.n.store.commits.map C03.ckey → k ∈ (handleCommit w cm).n.store.commits.map C03.ckey := by
      intro k hk
      obtain ⟨x, hx, rfl⟩ := List.mem_map.mp hk
      exact List.mem_map.mpr ⟨x, evolves_commits_sub hev x hx, rfl⟩
    have hauthT : ∀ x, C08.CommitAuthentic w.n x → C08.CommitAuthentic (handleCommit w cm).n x := by
      intro x hx; unfold C08.CommitAuthentic at hx ⊢; rw [hev.cfg]; exact hx
    -- what the rest of the list still has to deliver
    have hR' : ∀ id ∈ R, (h, v, hash, id) ∈ (handleCommit w cm).n.store.commits.map C03.ckey ∨
        ∃ x ∈ rest, C08.CommitAuthentic (handleCommit w cm).n x ∧ C03.ckey x = (h, v, hash, id) := by
      intro id hid
      rcases hR id hid with k | ⟨x, hx, hxa, hxk⟩
      · exact Or.inl (hkeys _ k)
      · rcases List.mem_cons.mp hx with rfl | hx'
        · left
          have := C11.authentic_commit_is_counted w x hxa
          rw [hxk] at this; exact this
        · exact Or.inr ⟨x, hx', hauthT x hxa, hxk⟩
    apply ih (handleCommit w cm) hcfg' hpp' hlive' hR'
    rcases hst with hc | ⟨hnc, hmiss⟩
    · exact Or.inl (committed_stays w cm hc)
    · -- not committed yet, something is missing
      by_cases hall : ∀ id ∈ R, (h, v, hash, id) ∈ (handleCommit w cm).n.store.commits.map C03.ckey
      · -- this COMMIT completed the quorum: it is authentic and for (h, v, hash)
        left
        by_cases hca : C08.CommitAuthentic w.n cm
        · obtain ⟨a0, a1, a2, a3⟩ := hca
          -- unfold the handler to the commit check
          have hunf : handleCommit w cm = checkCommitted { w with n := { w.n with store := w.n.store.storeCommit cm } } cm.header.height cm.header.view cm.header.hash := by
            unfold handleCommit
            dsimp only
            rw [if_neg (by simp [a0]), if_neg (by simp [a1]), if_neg (by simp [a2]), if_neg (by simp [a3])]
          -- the log after the handler is the log after storing
          have hlog : (handleCommit w cm).n.store = w.n.store.storeCommit cm := by
            rw [hunf]; exact (checkCommitted_n _ _ _ _).2.1
          -- cm is the completing one, so its key is one of R's
          obtain ⟨id0, hid0, hm0⟩ := hmiss
          have hin0 := hall id0 hid0
          rw [hlog] at hin0
          have hkey : C03.ckey cm = (h, v, hash, id0) := by
            obtain ⟨x, hx, hxk⟩ := List.mem_map.mp hin0
            unfold Store.storeCommit at hx
            split at hx
            · exact absurd (List.mem_map.mpr ⟨x, hx, hxk⟩) hm0
            · simp only [List.mem_append, List.mem_singleton] at hx
              rcases hx with hx | rfl
              · exact absurd (List.mem_map.mpr ⟨x, hx, hxk⟩) hm0
              · exact hxk
          simp only [C03.ckey, Prod.mk.injEq] at hkey
          rw [hunf, hkey.1, hkey.2.1, hkey.2.2.1]
          have hq' : isQuorum ({ w with n := { w.n with store := w.n.store.storeCommit cm } } : Term.W).n.cfg
              ((({ w with n := { w.n with store := w.n.store.storeCommit cm } } : Term.W).n.store.getCommits h v hash).map (·.sender.id)) = true := by
            show isQuorum w.n.cfg (((w.n.store.storeCommit cm).getCommits h v hash).map (·.sender.id)) = true
            rw [hcfg]
            apply C06.isQuorum_mono c.members hfit R _ _ hq
            intro i hi
            have := hall i hi
            rw [hlog] at this
            exact mem_getCommits_ids _ _ _ _ _ this
          have hppS : ({ w with n := { w.n with store := w.n.store.storeCommit cm } } : Term.W).n.store.getPP h v = some ppm :=
            apply_getPP_stable w.n.store (.commit cm) h v ppm hpp
          have hctx := ctxFor_live ({ w with n := { w.n with store := w.n.store.storeCommit cm } } : Term.W) h hlive
          have := (commits_when_quorum ({ w with n := { w.n with store := w.n.store.storeCommit cm } } : Term.W) h v hash ppm b hnc hppS hb hh hq' hctx).1
          rw [this]; rfl
        · -- not authentic: nothing changed, so nothing can have been completed
          have hsame := C08.commit_ignored_unless_authentic w cm hca
          obtain ⟨id0, hid0, hm0⟩ := hmiss
          have := hall id0 hid0
          rw [hsame] at this
          exact absurd this hm0
      · have hnall : ∃ id ∈ R, (h, v, hash, id) ∉ (handleCommit w cm).n.store.commits.map C03.ckey := by
          by_cases hex : ∃ id ∈ R, (h, v, hash, id) ∉ (handleCommit w cm).n.store.commits.map C03.ckey
          · exact hex
          · exfalso; apply hall
            intro id hid
            by_cases hk : (h, v, hash, id) ∈ (handleCommit w cm).n.store.commits.map C03.ckey
            · exact hk
            · exact absurd ⟨id, hid, hk⟩ hex
        -- either it got committed anyway or it is still uncommitted with something missing
        cases hcs : (handleCommit w cm).n.committed with
        | none => exact Or.inr ⟨rfl, hnall⟩
        | some _ => exact Or.inl rfl

/-! ### prepare phase -/

/-- the node's own COMMIT for (h, v, hash) is logged and was sent to all other members -/
def CommitSent (c : Cfg) (h v hash : Nat) (w : Term.W) : Prop :=
  C03.ckey (ownCommit c h v hash) ∈ w.n.store.commits.map C03.ckey
  ∧ Out.send (others c) (.commit (ownCommit c h v hash)) ∈ w.outs

theorem mem_getPrepares_ids (s : Store) (h v hash id : Nat) (hk : (h, v, hash, id) ∈ s.prepares.map C11.pkey) :
    id ∈ (s.getPrepares h v hash).map (·.sender.id) := by
  obtain ⟨pm, hpm, e⟩ := List.mem_map.mp hk
  simp only [C11.pkey, Prod.mk.injEq] at e
  apply List.mem_map.mpr
  refine ⟨pm, ?_, e.2.2.2⟩
  unfold Store.getPrepares
  rw [List.mem_filter]
  exact ⟨hpm, by simp [e.1, e.2.1, e.2.2.1]⟩

theorem handlePrepare_view (w : Term.W) (pm : PMsg) : (handlePrepare w pm).n.view = w.n.view := by
  unfold handlePrepare
  dsimp only
  split
  · rfl
  split
  · rfl
  split
  · rfl
  split
  · rfl
  split
  · rfl
  · rw [(C10.checkPreparedLocally_view _ _ _ _).1]

/-- **Prepare phase of a good view.**  A node in view `v` that holds the proposal of (h, v) with its
block and is delivered any list of PREPAREs of its height, among which are authentic PREPAREs for
that proposal from members `R` that together with the proposer reach quorum weight (some possibly
logged already, at least one not), has logged and sent its COMMIT for that proposal afterwards. -/
theorem good_view_prepares (pms : List PMsg) (h v hash : Nat) (ppm : PPMsg) (R : List Nat) (c : Cfg)
    (hfit : C06.Fits c.members) (hq : isQuorum c (R ++ [ppm.c.sender.id]) = true)
    (hbk : ppm.block.isSome = true) (hh : ppm.c.header.hash = hash)
    (hheight : ∀ pm ∈ pms, pm.header.height = h) :
    ∀ (w : Term.W), w.n.cfg = c → w.n.view = v → w.n.store.getPP h v = some ppm →
      (∀ id ∈ R, (h, v, hash, id) ∈ w.n.store.prepares.map C11.pkey ∨
          ∃ pm ∈ pms, C08.PrepareAuthentic w.n pm ∧ C11.pkey pm = (h, v, hash, id)) →
      (CommitSent c h v hash w ∨ (w.n.prepared ≠ some v ∧ ∃ id ∈ R, (h, v, hash, id) ∉ w.n.store.prepares.map C11.pkey)) →
      CommitSent c h v hash (pms.foldl handlePrepare w) := by
  induction pms with
  | nil =>
    intro w _ _ _ hR hst
    rcases hst with hc | ⟨_, id, hid, hmiss⟩
    · exact hc
    · rcases hR id hid with k | ⟨pm, hpm, _⟩
      · exact absurd k hmiss
      · cases hpm
  | cons pm rest ih =>
    intro w hcfg hview hpp hR hst
    simp only [List.foldl_cons]
    have hev := handlePrepare_ev w pm
    have hcfg' : (handlePrepare w pm).n.cfg = c := by rw [hev.cfg]; exact hcfg
    have hview' : (handlePrepare w pm).n.view = v := by rw [handlePrepare_view]; exact hview
    have hpp' := hev.getPP_stable h v ppm hpp
    have hkeys : ∀ k, k ∈ w.n.store.prepares.map C11.pkey → k ∈ (handlePrepare w pm).n.store.prepares.map C11.pkey := by
      intro k hk
      obtain ⟨x, hx, rfl⟩ := List.mem_map.mp hk
      exact List.mem_map.mpr ⟨x, evolves_prepares_sub hev x hx, rfl⟩
    have hauthT : ∀ x, C08.PrepareAuthentic w.n x → C08.PrepareAuthentic (handlePrepare w pm).n x := by
      intro x hx; unfold C08.PrepareAuthentic at hx ⊢; rw [hev.cfg, handlePrepare_view]; exact hx
    have hR' : ∀ id ∈ R, (h, v, hash, id) ∈ (handlePrepare w pm).n.store.prepares.map C11.pkey ∨
        ∃ x ∈ rest, C08.PrepareAuthentic (handlePrepare w pm).n x ∧ C11.pkey x = (h, v, hash, id) := by
      intro id hid
      rcases hR id hid with k | ⟨x, hx, hxa, hxk⟩
      · exact Or.inl (hkeys _ k)
      · rcases List.mem_cons.mp hx with rfl | hx'
        · left
          have := C11.authentic_prepare_is_counted w x hxa
          rw [hxk] at this; exact this
        · exact Or.inr ⟨x, hx', hauthT x hxa, hxk⟩
    have hdone : CommitSent c h v hash w → CommitSent c h v hash (handlePrepare w pm) := by
      rintro ⟨d1, d2⟩
      refine ⟨?_, ?_⟩
      · obtain ⟨x, hx, hxk⟩ := List.mem_map.mp d1
        exact List.mem_map.mpr ⟨x, evolves_commits_sub hev x hx, hxk⟩
      · obtain ⟨l, el, _⟩ := handlePrepare_appends w pm
        rw [el]; exact List.mem_append_left _ d2
    apply ih (fun x hx => hheight x (List.mem_cons_of_mem _ hx)) (handlePrepare w pm) hcfg' hview' hpp' hR'
    rcases hst with hc | ⟨hnp, hmiss⟩
    · exact Or.inl (hdone hc)
    · by_cases hpa : C08.PrepareAuthentic w.n pm
      · obtain ⟨a1, a2, a3, a4, a5⟩ := hpa
        have hph : pm.header.height = h := hheight pm (List.mem_cons_self ..)
        have hunf : handlePrepare w pm = checkPreparedLocally { w with n := { w.n with store := w.n.store.storePrepare pm } } h pm.header.view pm.header.hash := by
          unfold handlePrepare
          dsimp only
          rw [if_neg (by simp [a1]), if_neg (by simp [a2]), if_neg (by simp [a3]), if_neg a4, if_neg (by simp [a5]), hph]
        have hlog : (handlePrepare w pm).n.store.prepares = (w.n.store.storePrepare pm).prepares := by
          rw [hunf]; exact C11.checkPreparedLocally_prepares _ _ _ _
        have hppS : ({ w with n := { w.n with store := w.n.store.storePrepare pm } } : Term.W).n.store.getPP h v = some ppm :=
          apply_getPP_stable w.n.store (.prepare pm) h v ppm hpp
        have hpre : isPreprepared ({ w with n := { w.n with store := w.n.store.storePrepare pm } } : Term.W).n h v hash = true := by
          unfold isPreprepared; rw [hppS]; simp [hbk, hh]
        -- firing for (h, v, hash) gives the goal
        have hfire : checkPreparedLocally { w with n := { w.n with store := w.n.store.storePrepare pm } } h v hash
              = onPreparedLocally { w with n := { w.n with store := w.n.store.storePrepare pm } } h v hash →
            handlePrepare w pm = checkPreparedLocally { w with n := { w.n with store := w.n.store.storePrepare pm } } h v hash →
            CommitSent c h v hash (handlePrepare w pm) := by
          intro e1 e2
          rw [e2, e1]
          obtain ⟨_, f2, f3⟩ := onPreparedLocally_effects ({ w with n := { w.n with store := w.n.store.storePrepare pm } } : Term.W) h v hash
          have hc : ({ w with n := { w.n with store := w.n.store.storePrepare pm } } : Term.W).n.cfg = c := hcfg
          rw [hc] at f2 f3
          exact ⟨f3, f2⟩
        by_cases hall : ∀ id ∈ R, (h, v, hash, id) ∈ (handlePrepare w pm).n.store.prepares.map C11.pkey
        · -- pm completed the set: it carries (h, v, hash)
          left
          obtain ⟨id0, hid0, hm0⟩ := hmiss
          have hin0 := hall id0 hid0
          rw [hlog] at hin0
          have hkey : C11.pkey pm = (h, v, hash, id0) := by
            obtain ⟨x, hx, hxk⟩ := List.mem_map.mp hin0
            unfold Store.storePrepare at hx
            split at hx
            · exact absurd (List.mem_map.mpr ⟨x, hx, hxk⟩) hm0
            · simp only [List.mem_append, List.mem_singleton] at hx
              rcases hx with hx | rfl
              · exact absurd (List.mem_map.mpr ⟨x, hx, hxk⟩) hm0
              · exact hxk
          simp only [C11.pkey, Prod.mk.injEq] at hkey
          have hunf' : handlePrepare w pm = checkPreparedLocally { w with n := { w.n with store := w.n.store.storePrepare pm } } h v hash := by
            rw [hunf, hkey.2.1, hkey.2.2.1]
          have hcond : PreparedCond ({ w with n := { w.n with store := w.n.store.storePrepare pm } } : Term.W).n h v hash := by
            refine ⟨hnp, hpre, ppm, hppS, ?_⟩
            show isQuorum w.n.cfg (((w.n.store.storePrepare pm).getPrepares h v hash).map (·.sender.id) ++ [ppm.c.sender.id]) = true
            rw [hcfg]
            apply C06.isQuorum_mono c.members hfit (R ++ [ppm.c.sender.id]) _ _ hq
            intro i hi
            rcases List.mem_append.mp hi with hi | hi
            · apply List.mem_append_left
              have := hall i hi
              rw [hlog] at this
              exact mem_getPrepares_ids _ _ _ _ _ this
            · exact List.mem_append_right _ hi
          exact hfire (checkPreparedLocally_of_cond _ h v hash hcond) hunf'
        · have hnall : ∃ id ∈ R, (h, v, hash, id) ∉ (handlePrepare w pm).n.store.prepares.map C11.pkey := by
            by_cases hex : ∃ id ∈ R, (h, v, hash, id) ∉ (handlePrepare w pm).n.store.prepares.map C11.pkey
            · exact hex
            · exfalso; apply hall
              intro id hid
              by_cases hk : (h, v, hash, id) ∈ (handlePrepare w pm).n.store.prepares.map C11.pkey
              · exact hk
              · exact absurd ⟨id, hid, hk⟩ hex
          -- did this PREPARE make the node prepared for some (view, hash)?
          rcases checkPreparedLocally_cases ({ w with n := { w.n with store := w.n.store.storePrepare pm } } : Term.W) h pm.header.view pm.header.hash with e | ⟨hc, e⟩
          · right
            refine ⟨?_, hnall⟩
            rw [hunf, e]; exact hnp
          · by_cases hv : pm.header.view = v
            · -- prepared in view v: the stored proposal of (h, v) has hash `hash`, so it fired for (h, v, hash)
              left
              obtain ⟨_, hpre', _⟩ := hc
              rw [hv] at hpre'
              unfold isPreprepared at hpre'
              rw [hppS] at hpre'
              simp only [Bool.and_eq_true, beq_iff_eq] at hpre'
              have hhash : pm.header.hash = hash := by rw [← hpre'.2, hh]
              have hunf' : handlePrepare w pm = checkPreparedLocally { w with n := { w.n with store := w.n.store.storePrepare pm } } h v hash := by
                rw [hunf, hv, hhash]
              rw [hv, hhash] at e
              exact hfire e hunf'
            · right
              refine ⟨?_, hnall⟩
              rw [hunf, e, (onPreparedLocally_effects _ _ _ _).1]
              intro he
              exact hv (Option.some.inj he)
      · right
        have hsame := C08.prepare_ignored_unless_authentic w pm hpa
        rw [hsame]
        exact ⟨hnp, hmiss⟩

end LeanHelix.C05
