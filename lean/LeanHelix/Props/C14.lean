import LeanHelix.Model.Loops
import LeanHelix.Props.C15Registry
/-!
# C14 — Node sync: the newest UpdateState always takes effect, stale ones never do

Theorems over the Loops / Worker model (serialised schedules):
* `stale_sync_changes_nothing`: a sync for a block below the height being decided emits nothing and
  leaves height, term and cache untouched (it may only raise registry bookkeeping);
* `sync_round_is_never_first_leader`: every round entered through UpdateState is started with
  `canBeFirstLeader = false`; `no_first_proposal_after_sync`: such a term above height 1 proposes nothing;
* `accepted_sync_takes_effect`: a sync for a block at or above the height being decided, with a live
  registry, ends with the node deciding a height above that block (`newRound_height_ge` /
  `drain_height_ge`: commits inside the round can only move it further);
What the Go runtime does with concurrent callers (UpdateState returning in bounded time while the
worker sits in a long SPI call, channel hand-over never blocking) is measured by the stress phase of
the `loops` suite.
-/
namespace LeanHelix.C14
open LeanHelix LeanHelix.Msg LeanHelix.Worker LeanHelix.Loops LeanHelix.Contexts

/-! ## heights never go back inside the worker -/

theorem disposeTerm_height (w : WW) : (disposeTerm w).n.height = w.n.height := by
  unfold disposeTerm; dsimp only; split <;> rfl

theorem askCommittee_height (w : WW) (h : Nat) : (askCommittee w h).1.n.height = w.n.height := by
  unfold askCommittee; dsimp only; split
  · split <;> rfl
  · rfl

theorem createTerm_height (w : WW) (h : Nat) (ms : List Member) (c : Bool) : (createTerm w h ms c).n.height = w.n.height := by
  unfold createTerm; split
  · split <;> rfl
  · rfl

theorem installTerm_height (w : WW) (h : Nat) (c : Bool) : (installTerm w h c).n.height = w.n.height := by
  unfold installTerm
  dsimp only
  show (createTerm (askCommittee (disposeTerm w) h).1 h (askCommittee (disposeTerm w) h).2 c).n.height = _
  rw [createTerm_height, askCommittee_height, disposeTerm_height]

theorem handInTerm_height (w : WW) (t : Term.Node) (m : Message) : (handInTerm w t m).1.n.height = w.n.height := rfl

mutual
theorem newRound_height_ge : ∀ (fuel : Nat) (w : WW) (prevH : Nat) (c : Bool), w.n.height ≤ (newRound fuel w prevH c).n.height
  | 0, w, _, _ => by unfold newRound; exact Nat.le_refl _
  | fuel + 1, w, prevH, c => by
    unfold newRound
    dsimp only
    split
    · split
      · exact Nat.le_refl _
      · rename_i hlt
        have h1 := drain_height_ge fuel
          (installTerm { w with n := { ({ w with n := { w.n with reg := (Contexts.step w.n.reg (.for_ ⟨wrap64 (prevH + 1), 0⟩)).1 } } : WW).n with height := wrap64 (prevH + 1) } } (wrap64 (prevH + 1)) c)
          (wrap64 (prevH + 1)) (cacheGet (installTerm { w with n := { ({ w with n := { w.n with reg := (Contexts.step w.n.reg (.for_ ⟨wrap64 (prevH + 1), 0⟩)).1 } } : WW).n with height := wrap64 (prevH + 1) } } (wrap64 (prevH + 1)) c).n.cache (wrap64 (prevH + 1)))
        rw [installTerm_height] at h1
        have hlt' : w.n.height < wrap64 (prevH + 1) := by
          have : ¬ (w.n.height ≥ wrap64 (prevH + 1)) := hlt
          omega
        exact Nat.le_trans (Nat.le_of_lt hlt') h1
    · exact Nat.le_refl _
theorem drain_height_ge : ∀ (fuel : Nat) (w : WW) (height : Nat) (ms : List Message), w.n.height ≤ (drain fuel w height ms).n.height
  | 0, w, _, _ => by unfold drain; exact Nat.le_refl _
  | _ + 1, w, _, [] => by unfold drain; exact Nat.le_refl _
  | fuel + 1, w, height, m :: rest => by
    unfold drain
    split
    · exact Nat.le_refl _
    · split
      · exact drain_height_ge fuel w height rest
      · split
        · exact drain_height_ge fuel w height rest
        · rename_i t _
          dsimp only
          have h0 : (handInTerm w t m).1.n.height = w.n.height := rfl
          generalize handInTerm w t m = r at h0
          obtain ⟨w1, oc⟩ := r
          dsimp only at h0 ⊢
          refine Nat.le_trans ?_ (drain_height_ge fuel _ height rest)
          cases oc with
          | none => exact Nat.le_of_eq h0.symm
          | some bc =>
            obtain ⟨b, cs⟩ := bc
            dsimp only
            split
            · rename_i sp _
              refine Nat.le_trans ?_ (newRound_height_ge fuel _ b.height true)
              exact Nat.le_of_eq h0.symm
            · exact Nat.le_of_eq h0.symm
            · exact Nat.le_of_eq h0.symm
end

/-! ## stale syncs -/

theorem toWorker_update (fuel : Nat) (m : LNode) (bh : Nat) (spi : List WSpi) :
    toWorker fuel m (.update bh) spi =
      ({ m with w := (updateState fuel { n := m.w, spi := spi } bh).n }, (updateState fuel { n := m.w, spi := spi } bh).outs) := rfl

theorem regStep_w (n : LNode) (op : Contexts.Op) : (regStep n op).w.height = n.w.height ∧ (regStep n op).w.term = n.w.term
    ∧ (regStep n op).w.cache = n.w.cache ∧ (regStep n op).maxSync = n.maxSync ∧ (regStep n op).down = n.down := ⟨rfl, rfl, rfl, rfl, rfl⟩

theorem forIssued_w (n : LNode) (h v : Nat) : (forIssued n h v).1.w.height = n.w.height ∧ (forIssued n h v).1.w.term = n.w.term
    ∧ (forIssued n h v).1.w.cache = n.w.cache ∧ (forIssued n h v).1.maxSync = n.maxSync := ⟨rfl, rfl, rfl, rfl⟩

/-- **a sync below the height being decided changes nothing**: no effect is emitted, and height,
term and cache are exactly as before (the main loop may note the sync and move registry
bookkeeping, the worker ignores the block) -/
theorem stale_sync_changes_nothing (fuel : Nat) (n : LNode) (bh : Nat) (spi : List WSpi)
    (hstale : bh < n.w.height) :
    (Loops.step fuel n (.sync (some bh)) spi).2 = []
    ∧ (Loops.step fuel n (.sync (some bh)) spi).1.w.height = n.w.height
    ∧ (Loops.step fuel n (.sync (some bh)) spi).1.w.term = n.w.term
    ∧ (Loops.step fuel n (.sync (some bh)) spi).1.w.cache = n.w.cache := by
  unfold Loops.step
  by_cases hd : n.down = true
  · simp [hd]
  · simp only [hd, Bool.false_eq_true, if_false, Option.getD_some]
    unfold syncStep
    by_cases ha : alreadySynced (gc n) bh = true
    · rw [if_pos ha]; exact ⟨rfl, rfl, rfl, rfl⟩
    · rw [if_neg ha]
      dsimp only
      by_cases hok : (!(forIssued (regStep (gc n) (.cancelOlderThan ⟨wrap64 (bh + 1), 0⟩)) (wrap64 (bh + 1)) 0).2) = true
      · rw [if_pos hok]; exact ⟨rfl, rfl, rfl, rfl⟩
      · rw [if_neg hok]
        -- forwarded: the worker ignores a block below its height
        have hw : ∀ (m : LNode), m.w.height = n.w.height → m.w.term = n.w.term → m.w.cache = n.w.cache →
            (toWorker fuel m (.update bh) spi).2 = [] ∧ (toWorker fuel m (.update bh) spi).1.w.height = n.w.height
            ∧ (toWorker fuel m (.update bh) spi).1.w.term = n.w.term ∧ (toWorker fuel m (.update bh) spi).1.w.cache = n.w.cache := by
          intro m e1 e2 e3
          rw [toWorker_update]
          unfold updateState
          have hn : ¬ (bh ≥ ({ n := m.w, spi := spi } : WW).n.height) := by show ¬ (bh ≥ m.w.height); rw [e1]; omega
          rw [if_neg hn]
          exact ⟨rfl, e1, e2, e3⟩
        exact hw (forIssued (regStep (gc n) (.cancelOlderThan ⟨wrap64 (bh + 1), 0⟩)) (wrap64 (bh + 1)) 0).1 rfl rfl rfl

/-! ## never first leader after a sync -/

/-- every new-round callback caused by a sync carries `canBeFirstLeader = false`: the worker passes
`false` to `onNewConsensusRound` and only the commit path passes `true` -/
theorem sync_passes_false (fuel : Nat) (w : WW) (bh : Nat) :
    updateState fuel w bh = (if bh ≥ w.n.height then newRound fuel w bh false else w) := rfl

/-- a term started with `canBeFirstLeader = false` above height 1 sends nothing and asks the
consumer for nothing: it only arms the election timer -/
theorem no_first_proposal_after_sync (w : Term.W) (hh : w.n.cfg.height > 1) :
    ∀ o ∈ (Term.startTerm w false).outs, o ∈ w.outs ∨ ∃ h v, o = .registerElection h v := by
  unfold Term.startTerm
  dsimp only
  intro o ho
  have hiv : ∀ o ∈ (Term.initView { w with n := { w.n with prepared := none } } 0).1.outs,
      o ∈ w.outs ∨ ∃ h v, o = Term.Out.registerElection h v := by
    intro o ho
    unfold Term.initView at ho
    split at ho
    · exact Or.inl ho
    · simp only [Term.W.emit, List.mem_append, List.mem_singleton] at ho
      rcases ho with ho | ho
      · exact Or.inl ho
      · exact Or.inr ⟨_, _, ho⟩
  have hcfg : (Term.initView { w with n := { w.n with prepared := none } } 0).1.n.cfg = w.n.cfg := by
    unfold Term.initView; split <;> rfl
  generalize Term.initView { w with n := { w.n with prepared := none } } 0 = r at hiv hcfg ho
  obtain ⟨w1, ok⟩ := r
  dsimp only at hiv hcfg ho
  split at ho
  · exact hiv o ho
  · have hgt : (decide (w1.n.cfg.height > 1) && !false) = true := by rw [hcfg]; simp [hh]
    rw [if_pos hgt] at ho
    exact hiv o ho

/-! ## an accepted sync takes effect -/

/-- `For` on a live registry, for a position that is not older than the watermark, hands out a
context; it never touches the watermark or the shutdown flag -/
theorem for_eq (r : Reg) (hv : State.HV) :
    Contexts.step r (.for_ hv) =
      (if r.shutdown then (r, .errShutdown)
       else if isStale r hv then (r, .errStale)
       else match lookup r.live hv with
        | some id => (r, .ctx id)
        | none => ({ r with live := (hv, r.next) :: r.live, next := r.next + 1, issued := (hv, r.next) :: r.issued }, .ctx r.next)) := rfl

theorem for_result (r : Reg) (hv : State.HV) :
    (Contexts.step r (.for_ hv)).1.watermark = r.watermark ∧ (Contexts.step r (.for_ hv)).1.shutdown = r.shutdown
    ∧ (r.shutdown = false → ¬ C15.stale r hv → ∃ id, (Contexts.step r (.for_ hv)).2 = .ctx id) := by
  rw [for_eq]
  refine ⟨?_, ?_, ?_⟩
  · split
    · rfl
    · split
      · rfl
      · split <;> rfl
  · split
    · rfl
    · split
      · rfl
      · split <;> rfl
  · intro hs hn
    have hst : isStale r hv = false := by
      cases hc : isStale r hv with
      | false => rfl
      | true => exact absurd ((C15.isStale_iff _ _).mp hc) hn
    simp only [hs, Bool.false_eq_true, if_false, hst]
    cases hl : lookup r.live hv with
    | some id => exact ⟨id, rfl⟩
    | none => exact ⟨r.next, rfl⟩

theorem forIssued_ok (n : LNode) (h v : Nat) (hlive : n.w.reg.shutdown = false)
    (hwm : ¬ C15.stale n.w.reg ⟨h, v⟩) : (forIssued n h v).2 = true := by
  unfold forIssued
  obtain ⟨id, hid⟩ := (for_result n.w.reg ⟨h, v⟩).2.2 hlive hwm
  generalize Contexts.step n.w.reg (.for_ ⟨h, v⟩) = r at hid
  obtain ⟨r1, res⟩ := r
  dsimp only at hid ⊢
  rw [hid]

/-- **After `UpdateState(block)` for a block at or above the height being decided, the node ends up
deciding a height above that block** — provided the registry is live (not shut down) and the main
loop has not already seen a sync at or above it; whatever the SPI answers and the future cache hold. -/
theorem accepted_sync_takes_effect (fuel : Nat) (n : LNode) (bh : Nat) (spi : List WSpi)
    (hup : n.down = false) (hlive : n.w.reg.shutdown = false)
    (hnew : ∀ ms, n.maxSync = some ms → ms < bh) (hge : n.w.height ≤ bh) (hfit : bh + 1 < U64)
    (hwm : ∀ wm, n.w.reg.watermark = some wm → wm.height ≤ n.w.height) :
    bh < (Loops.step (fuel + 1) n (.sync (some bh)) spi).1.w.height := by
  unfold Loops.step
  simp only [hup, Bool.false_eq_true, if_false, Option.getD_some]
  unfold syncStep
  have hms : alreadySynced (gc n) bh = false := by
    show alreadySynced n bh = false
    unfold alreadySynced
    cases hm : n.maxSync with
    | none => rfl
    | some ms => have := hnew ms hm; simp; omega
  rw [hms]
  simp only [Bool.false_eq_true, if_false]
  have hw : wrap64 (bh + 1) = bh + 1 := wrap64_of_lt hfit
  rw [hw]
  -- the registry after gc and the cancel: live, nothing at or above (bh+1, 0) is stale
  have hlive1 : (regStep (gc n) (.cancelOlderThan ⟨bh + 1, 0⟩)).w.reg.shutdown = false := by
    show (Contexts.step (Contexts.step n.w.reg (.cancelOlderThan ⟨n.w.height, 0⟩)).1 (.cancelOlderThan ⟨bh + 1, 0⟩)).1.shutdown = false
    rw [C15.cancel_eq, C15.cancel_eq]; exact hlive
  have hnotstale : ¬ C15.stale (regStep (gc n) (.cancelOlderThan ⟨bh + 1, 0⟩)).w.reg ⟨bh + 1, 0⟩ := by
    intro hs
    have h1 := C15.stale_cancel_cases (gc n).w.reg ⟨bh + 1, 0⟩ ⟨bh + 1, 0⟩ hs
    rcases h1 with h1 | h1
    · have h2 := C15.stale_cancel_cases n.w.reg ⟨n.w.height, 0⟩ ⟨bh + 1, 0⟩ h1
      rcases h2 with ⟨wm, hwmeq, hold⟩ | h2
      · have := hwm wm hwmeq
        rw [C15.olderThan_iff] at hold; simp at hold; omega
      · rw [C15.olderThan_iff] at h2; simp at h2; omega
    · rw [C15.olderThan_iff] at h1; simp at h1
  have hok := forIssued_ok (regStep (gc n) (.cancelOlderThan ⟨bh + 1, 0⟩)) (bh + 1) 0 hlive1 hnotstale
  simp only [hok, Bool.not_true, Bool.false_eq_true, if_false]
  -- the worker: the block is at or above its height, so a round for bh+1 starts
  generalize hm : (forIssued (regStep (gc n) (.cancelOlderThan ⟨bh + 1, 0⟩)) (bh + 1) 0).1 = m
  have hmh : m.w.height = n.w.height := by rw [← hm]; rfl
  have hfr := for_result (regStep (gc n) (.cancelOlderThan ⟨bh + 1, 0⟩)).w.reg ⟨bh + 1, 0⟩
  have hmlive : m.w.reg.shutdown = false := by
    rw [← hm]; show (Contexts.step _ (.for_ ⟨bh + 1, 0⟩)).1.shutdown = false
    rw [hfr.2.1]; exact hlive1
  have hmns : ¬ C15.stale m.w.reg ⟨bh + 1, 0⟩ := by
    intro ⟨wm, hwmeq, hold⟩
    apply hnotstale
    refine ⟨wm, ?_, hold⟩
    rw [← hm] at hwmeq
    have : (Contexts.step (regStep (gc n) (.cancelOlderThan ⟨bh + 1, 0⟩)).w.reg (.for_ ⟨bh + 1, 0⟩)).1.watermark = some wm := hwmeq
    rw [hfr.1] at this; exact this
  show bh < (toWorker (fuel + 1) m (.update bh) spi).1.w.height
  rw [toWorker_update]
  unfold updateState
  have hge' : bh ≥ ({ n := m.w, spi := spi } : WW).n.height := by show bh ≥ m.w.height; rw [hmh]; exact hge
  rw [if_pos hge']
  show bh < (newRound (fuel + 1) { n := m.w, spi := spi } bh false).n.height
  -- newRound: the context for (bh+1, 0) is handed out again, the height moves to bh+1, then only grows
  unfold newRound
  simp only [hw]
  obtain ⟨id, hid⟩ := (for_result m.w.reg ⟨bh + 1, 0⟩).2.2 hmlive hmns
  generalize hr : Contexts.step m.w.reg (.for_ ⟨bh + 1, 0⟩) = r at hid
  obtain ⟨r1, res⟩ := r
  dsimp only at hid ⊢
  rw [hid]
  dsimp only
  have hlt : ¬ (m.w.height ≥ bh + 1) := by rw [hmh]; omega
  rw [if_neg hlt]
  have h1 := drain_height_ge fuel
    (installTerm { ({ n := m.w, spi := spi } : WW) with n := { ({ ({ n := m.w, spi := spi } : WW) with n := { m.w with reg := r1 } } : WW).n with height := bh + 1 } } (bh + 1) false)
    (bh + 1) (cacheGet (installTerm { ({ n := m.w, spi := spi } : WW) with n := { ({ ({ n := m.w, spi := spi } : WW) with n := { m.w with reg := r1 } } : WW).n with height := bh + 1 } } (bh + 1) false).n.cache (bh + 1))
  rw [installTerm_height] at h1
  exact Nat.lt_of_lt_of_le (Nat.lt_succ_self bh) h1

end LeanHelix.C14
