import LeanHelix.Model.Leader
/-!
# C18 — Leader rotation is a total round-robin function of the view

Theorems about `Leader.leaderOf` (the model of `calcLeaderOfViewAndCommittee`) for every view
(any `Nat`, in particular the whole 64-bit range) and every ordered committee.
-/
namespace LeanHelix.C18
open LeanHelix Leader

/-- Leader computation never fails for a non-empty committee, whatever the view, and the leader is
the member at position `view mod size`. -/
theorem leader_total (view : Nat) (ms : List Member) (hne : ms ≠ []) :
    ∃ (h : view % ms.length < ms.length), leaderOf view ms = .ok (ms[view % ms.length]).id := by
  have hpos : 0 < ms.length := List.length_pos_iff.mpr hne
  have hlt : view % ms.length < ms.length := Nat.mod_lt _ hpos
  refine ⟨hlt, ?_⟩
  unfold leaderOf leaderIndex
  rw [List.getElem?_eq_getElem hlt]

/-- The only failing case: the empty committee (Go: integer divide by zero). `NewTermInCommittee`
panics on committees with fewer than 4 members before any leader is computed. -/
theorem leader_fails_iff_empty (view : Nat) (ms : List Member) :
    (∃ w, leaderOf view ms = .panic w) ↔ ms = [] := by
  constructor
  · intro ⟨w, hw⟩
    by_cases hne : ms = []
    · exact hne
    · obtain ⟨_, h⟩ := leader_total view ms hne
      rw [h] at hw; cases hw
  · intro h; subst h; exact ⟨_, rfl⟩

/-- Every node computes the same leader: it is a function of (view, ordered committee) only, and
views that agree modulo the committee size have the same leader. -/
theorem leader_periodic (view k : Nat) (ms : List Member) :
    leaderOf (view + k * ms.length) ms = leaderOf view ms := by
  unfold leaderOf leaderIndex
  rw [Nat.add_mul_mod_self_right]

private theorem mod_inj {n s i j : Nat} (hi : i < n) (hj : j < n)
    (h : (s + i) % n = (s + j) % n) : i = j := by
  have e1 := Nat.mod_add_div (s + i) n
  have e2 := Nat.mod_add_div (s + j) n
  rw [h] at e1
  generalize (s + j) % n = p at e1 e2
  generalize hq1 : (s + i) / n = q1 at e1
  generalize hq2 : (s + j) / n = q2 at e2
  rcases Nat.lt_trichotomy q1 q2 with hlt | heq | hgt
  · have : n * (q1 + 1) ≤ n * q2 := Nat.mul_le_mul_left n hlt
    rw [Nat.mul_succ] at this; omega
  · subst heq; omega
  · have : n * (q2 + 1) ≤ n * q1 := Nat.mul_le_mul_left n hgt
    rw [Nat.mul_succ] at this; omega

private theorem mod_surj {n s p : Nat} (hp : p < n) : ∃ i, i < n ∧ (s + i) % n = p := by
  have hn : 0 < n := by omega
  have ha : s % n < n := Nat.mod_lt _ hn
  by_cases hge : s % n ≤ p
  · refine ⟨p - s % n, by omega, ?_⟩
    rw [Nat.add_mod, Nat.mod_eq_of_lt (show p - s % n < n by omega)]
    have : s % n + (p - s % n) = p := by omega
    rw [this, Nat.mod_eq_of_lt hp]
  · refine ⟨p + n - s % n, by omega, ?_⟩
    rw [Nat.add_mod, Nat.mod_eq_of_lt (show p + n - s % n < n by omega)]
    have : s % n + (p + n - s % n) = p + n := by omega
    rw [this, Nat.add_mod_right, Nat.mod_eq_of_lt hp]

/-- Round robin: in any run of `size` consecutive views starting at `s`, each member (ids pairwise
distinct) leads exactly once. -/
theorem leader_round_robin (ms : List Member) (hnd : (ms.map (·.id)).Nodup) (s : Nat)
    (m : Member) (hm : m ∈ ms) :
    ∃ i, i < ms.length ∧ leaderOf (s + i) ms = .ok m.id ∧
      ∀ j, j < ms.length → leaderOf (s + j) ms = .ok m.id → j = i := by
  obtain ⟨p, hp, hpm⟩ := List.getElem_of_mem hm
  have hne : ms ≠ [] := List.ne_nil_of_mem hm
  obtain ⟨i, hi, hmod⟩ := mod_surj (s := s) hp
  have hli : leaderOf (s + i) ms = .ok m.id := by
    obtain ⟨hlt, h⟩ := leader_total (s + i) ms hne
    rw [h]; congr 2; simp only [hmod]; exact hpm
  refine ⟨i, hi, hli, ?_⟩
  intro j hj hlj
  obtain ⟨hlt, h⟩ := leader_total (s + j) ms hne
  rw [h] at hlj
  have hid : (ms[(s + j) % ms.length]).id = m.id := by injection hlj
  -- distinct ids: equal ids at two positions force equal positions
  have hpos : (s + j) % ms.length = p := by
    have h1 : (ms.map (·.id))[(s + j) % ms.length]'(by simpa using hlt) = (ms.map (·.id))[p]'(by simpa using hp) := by
      simp only [List.getElem_map]; rw [hid, hpm]
    exact (List.getElem_inj hnd).mp h1
  exact mod_inj hj hi (by rw [hpos, hmod])

/-! ## non-vacuity -/
def ex4 : List Member := [⟨10, 1⟩, ⟨11, 2⟩, ⟨12, 3⟩, ⟨13, 4⟩]
example : (ex4.map (·.id)).Nodup := by decide
example : leaderOf 9223372036854775809 ex4 = .ok 11 := by rfl   -- a view above 2^63
example : leaderOf 18446744073709551615 ex4 = .ok 13 := by rfl  -- 2^64-1

end LeanHelix.C18
