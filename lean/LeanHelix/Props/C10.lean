import LeanHelix.Model.Worker
import LeanHelix.Lemmas.TermStore
import LeanHelix.Lemmas.TermOuts
import LeanHelix.Props.C07
/-!
# C10 — A correct node never equivocates and respects phase order

Theorems over the Term model for every node state, event and SPI answer.

* `prepare_needs_fresh_slot`, `prepare_fills_slot`, `getPP_stable` ⇒ `one_prepare_per_view`: over
  any sequence of events at most one PREPARE hash is ever signed per (height, view) — the PREPARE is
  for the proposal stored for that view, from that view's leader, in the node's current view.
* `commit_hash_is_stored_proposal_hash`: every COMMIT the node signs for (h, v) carries the hash of
  the proposal stored for (h, v), which never changes — one COMMIT hash per view; and it is sent
  only when the node holds a prepared certificate or a commit quorum for exactly that pair.
* `view_never_decreases`, `viewchange_is_for_the_new_view`: VIEW_CHANGE messages are sent only by
  the election step, for the view just entered, which is strictly above the previous one.
* `never_prepare_as_leader` is a worker-level fact (the filter drops messages carrying the node's
  own id, so the proposal a PREPARE answers never comes from the node itself).
-/
namespace LeanHelix.C10
open LeanHelix LeanHelix.Msg LeanHelix.Term

/-! ## PREPARE -/

/-- the effects of adopting a proposal: at most one PREPARE, for exactly the adopted proposal -/
def PrepareFor (ppm : PPMsg) (cfg : Cfg) (o : Out) : Prop :=
  ∀ rs pm, o = .send rs (.prepare pm) →
    pm = ownPrepare cfg ppm.c.header.height ppm.c.header.view ppm.c.header.hash

theorem checkPreparedLocally_noPrepare (w : Term.W) (h v hash : Nat) :
    Appends NP w (checkPreparedLocally w h v hash) := checkPreparedLocally_appends w h v hash

theorem NP_imp_PrepareFor (ppm : PPMsg) (cfg : Cfg) (o : Out) (h : NP o) : PrepareFor ppm cfg o := by
  intro rs pm e; subst e; cases h

theorem Appends.weaken {P Q : Out → Prop} (hPQ : ∀ o, P o → Q o) {a b : Term.W} (h : Appends P a b) : Appends Q a b := by
  obtain ⟨l, e, p⟩ := h; exact ⟨l, e, fun o ho => hPQ o (p o ho)⟩

/-- adopting `ppm` sends PREPARE only for `ppm` itself, and only if its view is the node's current view -/
theorem processPreprepare_sends (w : Term.W) (ppm : PPMsg) :
    Appends (PrepareFor ppm w.n.cfg) w (processPreprepare w ppm)
    ∧ (w.n.view ≠ ppm.c.header.view → processPreprepare w ppm = w) := by
  unfold processPreprepare
  dsimp only
  constructor
  · split
    · exact Appends.refl _ _
    · refine Appends.trans ⟨[_], rfl, ?_⟩ (Appends.weaken (NP_imp_PrepareFor ppm w.n.cfg) (checkPreparedLocally_appends _ _ _ _))
      intro o ho; simp at ho; subst ho
      intro rs pm e
      simp only [Out.send.injEq, Message.prepare.injEq] at e
      rw [← e.2]; rfl
  · intro hne
    have : (w.n.view != ppm.c.header.view) = true := by simpa using hne
    rw [if_pos this]

/-- the trivial justification: used when only first-wins stability of the log matters -/
def T (_ : Node) (_ : StoreOp) : Prop := True

theorem checkPreparedLocally_view (w : Term.W) (h v hash : Nat) :
    (checkPreparedLocally w h v hash).n.view = w.n.view ∧ (checkPreparedLocally w h v hash).n.cfg = w.n.cfg := by
  rcases checkPreparedLocally_cases w h v hash with e | ⟨_, e⟩
  · rw [e]; exact ⟨rfl, rfl⟩
  · rw [e]; obtain ⟨c1, _, c3, _⟩ := onPreparedLocally_n w h v hash; exact ⟨c3, c1⟩

/-- the state right after the proposal and the node's own PREPARE have been logged and the PREPARE sent -/
def adoptState (w : Term.W) (ppm : PPMsg) : Term.W :=
  ({ w with n := { w.n with store := (w.n.store.storePP ppm).storePrepare (ownPrepare w.n.cfg ppm.c.header.height ppm.c.header.view ppm.c.header.hash) } } : Term.W).emit
    (.send (others w.n.cfg) (.prepare (ownPrepare w.n.cfg ppm.c.header.height ppm.c.header.view ppm.c.header.hash)))

theorem processPreprepare_unfold (w : Term.W) (ppm : PPMsg) (hv : w.n.view = ppm.c.header.view) :
    processPreprepare w ppm = checkPreparedLocally (adoptState w ppm) ppm.c.header.height ppm.c.header.view ppm.c.header.hash := by
  unfold processPreprepare
  dsimp only
  rw [if_neg (by simpa using hv)]
  rfl

/-- what adopting a proposal does when no proposal is stored yet for its (height, view) -/
theorem processPreprepare_spec (w : Term.W) (ppm : PPMsg)
    (hnone : w.n.store.getPP ppm.c.header.height ppm.c.header.view = none) :
    (w.n.view ≠ ppm.c.header.view ∧ processPreprepare w ppm = w) ∨
    (w.n.view = ppm.c.header.view ∧
      (∃ l, (processPreprepare w ppm).outs = w.outs ++
          [.send (others w.n.cfg) (.prepare (ownPrepare w.n.cfg ppm.c.header.height ppm.c.header.view ppm.c.header.hash))] ++ l
        ∧ ∀ o ∈ l, NP o)
      ∧ (processPreprepare w ppm).n.store.getPP ppm.c.header.height ppm.c.header.view = some ppm
      ∧ (processPreprepare w ppm).n.view = w.n.view) := by
  by_cases hv : w.n.view = ppm.c.header.view
  · right
    let st2 := (w.n.store.storePP ppm).storePrepare (ownPrepare w.n.cfg ppm.c.header.height ppm.c.header.view ppm.c.header.hash)
    let w2 : Term.W := ({ w with n := { w.n with store := st2 } } : Term.W).emit
          (.send (others w.n.cfg) (.prepare (ownPrepare w.n.cfg ppm.c.header.height ppm.c.header.view ppm.c.header.hash)))
    have hunf : processPreprepare w ppm = checkPreparedLocally w2 ppm.c.header.height ppm.c.header.view ppm.c.header.hash := by
      unfold processPreprepare
      dsimp only
      rw [if_neg (by simpa using hv)]
      rfl
    have hget : w2.n.store.getPP ppm.c.header.height ppm.c.header.view = some ppm := by
      show ((w.n.store.storePP ppm).storePrepare _).getPP _ _ = some ppm
      have h1 : (w.n.store.storePP ppm).getPP ppm.c.header.height ppm.c.header.view = some ppm := by
        unfold Store.storePP; rw [hnone]
        unfold Store.getPP at hnone ⊢
        simp only [List.find?_append, hnone, Option.none_or]
        simp
      exact apply_getPP_stable _ (.prepare _) _ _ _ h1
    refine ⟨hv, ?_, ?_, ?_⟩
    · rw [hunf]
      obtain ⟨l, el, pl⟩ := checkPreparedLocally_appends w2 ppm.c.header.height ppm.c.header.view ppm.c.header.hash
      exact ⟨l, el, pl⟩
    · rw [hunf]
      exact (checkPreparedLocally_ev w2 _ _ _).getPP_stable _ _ _ hget
    · rw [hunf]
      exact (checkPreparedLocally_view w2 _ _ _).1
  · left
    exact ⟨hv, (processPreprepare_sends w ppm).2 hv⟩

/-- effects that are neither sends nor callbacks: timer registration and SPI calls -/
def BenignOnly (o : Out) : Prop :=
  (∃ h v, o = .registerElection h v) ∨ (∃ h, o = .callRequest h) ∨ (∃ h b x, o = .callValidate h b x) ∨ (∃ s, o = .goPanic s)

theorem benignOnly_benign : Benign BenignOnly :=
  ⟨fun h v => Or.inl ⟨h, v, rfl⟩, fun h => Or.inr (Or.inl ⟨h, rfl⟩), fun h b x => Or.inr (Or.inr (Or.inl ⟨h, b, x, rfl⟩)),
   fun s => Or.inr (Or.inr (Or.inr ⟨s, rfl⟩))⟩

theorem benignOnly_NP (o : Out) (h : BenignOnly o) : NP o := by
  rcases h with ⟨_, _, rfl⟩ | ⟨_, rfl⟩ | ⟨_, _, _, rfl⟩ | ⟨_, rfl⟩ <;> rfl

theorem benignOnly_not_send (o : Out) (h : BenignOnly o) : ∀ rs m, o ≠ .send rs m := by
  intro rs m e
  rcases h with ⟨_, _, rfl⟩ | ⟨_, rfl⟩ | ⟨_, _, _, rfl⟩ | ⟨_, rfl⟩ <;> cases e

/-- the state in which a handler reaches `processPreprepare`: same log and configuration as at the
start of the event, only benign effects so far, and `validatePreprepare` has passed -/
structure Reaches (w w1 : Term.W) (ppm : PPMsg) : Prop where
  store : w1.n.store = w.n.store
  cfg : w1.n.cfg = w.n.cfg
  outs : Appends BenignOnly w w1
  valid : C08.PreprepareAuthentic w.n ppm

/-- a bare PREPREPARE either leaves only benign effects or reaches `processPreprepare` -/
theorem handlePrePrepare_reaches (w : Term.W) (ppm : PPMsg) :
    Appends BenignOnly w (handlePrePrepare w ppm) ∨
    ∃ w1, Reaches w w1 ppm ∧ handlePrePrepare w ppm = processPreprepare w1 ppm := by
  unfold handlePrePrepare
  split
  · exact Or.inl (Appends.refl _ _)
  · rename_i hval
    have hval' : validatePreprepare w.n ppm = true := by simpa using hval
    split
    · exact Or.inl (Appends.refl _ _)
    dsimp only
    obtain ⟨a1, a2, _⟩ := askValidate_n w ppm.c.header.height ppm.c.header.view ppm.block ppm.c.header.hash
    have aouts := askValidate_appends' benignOnly_benign w ppm.c.header.height ppm.c.header.view ppm.block ppm.c.header.hash
    generalize askValidate w ppm.c.header.height ppm.c.header.view ppm.block ppm.c.header.hash = r at a1 a2 aouts
    obtain ⟨w1, ok⟩ := r
    dsimp only at a1 a2 aouts ⊢
    split
    · exact Or.inl aouts
    · exact Or.inr ⟨w1, ⟨a2, a1, aouts, (C08.validatePreprepare_iff _ _).mp hval'⟩, rfl⟩

/-- a NEW_VIEW either leaves only benign effects or reaches `processPreprepare` with its embedded proposal -/
theorem handleNewView_reaches (w : Term.W) (nvm : NVMsg) :
    Appends BenignOnly w (handleNewView w nvm) ∨
    ∃ w1, Reaches w w1 ⟨nvm.pp, nvm.block⟩ ∧ handleNewView w nvm = processPreprepare w1 ⟨nvm.pp, nvm.block⟩
      ∧ w1.n.view = nvm.header.view := by
  unfold handleNewView
  dsimp only
  split; exact Or.inl (Appends.refl _ _)
  split; exact Or.inl (Appends.refl _ _)
  split; exact Or.inl (Appends.refl _ _)
  split; exact Or.inl (Appends.refl _ _)
  split; exact Or.inl (Appends.refl _ _)
  split; exact Or.inl (Appends.refl _ _)
  split; exact Or.inl (Appends.refl _ _)
  split; exact Or.inl (Appends.refl _ _)
  split; exact Or.inl (Appends.refl _ _)
  unfold adoptNewView
  dsimp only
  have tail : ∀ (w1 : Term.W) (ok : Bool), w1.n.store = w.n.store → w1.n.cfg = w.n.cfg → Appends BenignOnly w w1 →
      let res := (if (!ok) = true then w1 else
        if (!validatePreprepare w1.n ⟨nvm.pp, nvm.block⟩) = true then w1 else
          if (!(initView { w1 with n := { w1.n with latestNV := nvm.header.view } } nvm.header.view).2) = true
          then (initView { w1 with n := { w1.n with latestNV := nvm.header.view } } nvm.header.view).1
          else processPreprepare (initView { w1 with n := { w1.n with latestNV := nvm.header.view } } nvm.header.view).1 ⟨nvm.pp, nvm.block⟩)
      Appends BenignOnly w res ∨ ∃ w2, Reaches w w2 ⟨nvm.pp, nvm.block⟩ ∧ res = processPreprepare w2 ⟨nvm.pp, nvm.block⟩ ∧ w2.n.view = nvm.header.view := by
    intro w1 ok hst hcfg hap
    dsimp only
    split
    · exact Or.inl hap
    · split
      · exact Or.inl hap
      · rename_i hval
        have hval' : validatePreprepare w1.n ⟨nvm.pp, nvm.block⟩ = true := by simpa using hval
        have hauth : C08.PreprepareAuthentic w.n ⟨nvm.pp, nvm.block⟩ := by
          have := (C08.validatePreprepare_iff _ _).mp hval'
          unfold C08.PreprepareAuthentic at this ⊢
          rw [hcfg, hst] at this; exact this
        obtain ⟨i1, i2, _, _, _, i6, _⟩ := initView_n { w1 with n := { w1.n with latestNV := nvm.header.view } } nvm.header.view
        have hiv := initView_appends' benignOnly_benign { w1 with n := { w1.n with latestNV := nvm.header.view } } nvm.header.view
        split
        · exact Or.inl (Appends.trans hap hiv)
        · rename_i hok
          refine Or.inr ⟨_, ⟨by rw [i2]; exact hst, by rw [i1]; exact hcfg, Appends.trans hap hiv, hauth⟩, rfl, ?_⟩
          exact (i6 (by simpa using hok)).1
  by_cases hlv : (latestVote nvm.header.votes).isNone = true
  · simp only [hlv, if_true]
    obtain ⟨a1, a2, _⟩ := askValidate_n w nvm.header.height nvm.header.view nvm.block nvm.pp.header.hash
    exact tail _ _ a2 a1 (askValidate_appends' benignOnly_benign _ _ _ _ _)
  · simp only [hlv]
    exact tail w true rfl rfl (Appends.refl _ _)

/-- the proposal an event carries, if it is a proposal event -/
def proposalOf : Event → Option PPMsg
  | .deliver (.preprepare m) => some m
  | .deliver (.newView m) => some ⟨m.pp, m.block⟩
  | _ => none

/-- **Adoption**: whenever a node sends a PREPARE, the event carried a proposal `ppm` that passed
`validatePreprepare` (PREPREPARE-typed, signed by the leader of its view, no proposal stored for that
(height, view) before); the PREPARE is for exactly `ppm`'s (height, view, hash); afterwards `ppm` is the
stored proposal of that (height, view), and the node is in that view. -/
theorem adoption (n : Node) (e : Event) (spi : List Spi) (rs : List Nat) (pm : PMsg)
    (hsend : Out.send rs (.prepare pm) ∈ (step n e spi).2) :
    ∃ ppm, proposalOf e = some ppm ∧ C08.PreprepareAuthentic n ppm
      ∧ pm = ownPrepare n.cfg ppm.c.header.height ppm.c.header.view ppm.c.header.hash
      ∧ (step n e spi).1.store.getPP ppm.c.header.height ppm.c.header.view = some ppm
      ∧ (step n e spi).1.view = ppm.c.header.view := by
  have hprop := C07.only_proposals_make_a_node_send_prepare n e spi ⟨_, hsend, rfl⟩
  have fin : ∀ (ppm : PPMsg) (w1 : Term.W), Reaches { n := n, spi := spi } w1 ppm →
      Out.send rs (.prepare pm) ∈ (processPreprepare w1 ppm).outs →
      C08.PreprepareAuthentic n ppm
      ∧ pm = ownPrepare n.cfg ppm.c.header.height ppm.c.header.view ppm.c.header.hash
      ∧ (processPreprepare w1 ppm).n.store.getPP ppm.c.header.height ppm.c.header.view = some ppm
      ∧ (processPreprepare w1 ppm).n.view = ppm.c.header.view := by
    intro ppm w1 hr hin
    have hnone : w1.n.store.getPP ppm.c.header.height ppm.c.header.view = none := by rw [hr.store]; exact hr.valid.2.2.2
    obtain ⟨l0, el0, pl0⟩ := hr.outs
    rcases processPreprepare_spec w1 ppm hnone with ⟨_, e1⟩ | ⟨hv, ⟨l, el, pl⟩, hget, hview⟩
    · rw [e1, el0] at hin; simp at hin
      exact absurd rfl (benignOnly_not_send _ (pl0 _ hin) _ _)
    · rw [el, el0] at hin
      simp only [List.nil_append, List.mem_append, List.mem_singleton] at hin
      rcases hin with (hin | hin) | hin
      · exact absurd rfl (benignOnly_not_send _ (pl0 _ hin) _ _)
      · simp only [Out.send.injEq, Message.prepare.injEq] at hin
        refine ⟨hr.valid, ?_, hget, by rw [hview]; exact hv⟩
        rw [hin.2, hr.cfg]
      · have := pl _ hin; cases this
  have noprep : ∀ w' : Term.W, Appends NP { n := n, spi := spi } w' → Out.send rs (.prepare pm) ∉ w'.outs := by
    intro w' ⟨l, el, pl⟩ hc
    rw [el] at hc; simp at hc
    have := pl _ hc; cases this
  rcases hprop with ⟨m, rfl⟩ | ⟨m, rfl⟩
  · rcases handlePrePrepare_reaches { n := n, spi := spi } m with hnp | ⟨w1, hr, heq⟩
    · exact absurd hsend (noprep _ (Appends.weaken benignOnly_NP hnp))
    · have hs : Out.send rs (.prepare pm) ∈ (processPreprepare w1 m).outs := by rw [← heq]; exact hsend
      obtain ⟨a, b, c, d⟩ := fin m w1 hr hs
      refine ⟨m, rfl, a, b, ?_, ?_⟩
      · show (handlePrePrepare { n := n, spi := spi } m).n.store.getPP _ _ = some m; rw [heq]; exact c
      · show (handlePrePrepare { n := n, spi := spi } m).n.view = _; rw [heq]; exact d
  · rcases handleNewView_reaches { n := n, spi := spi } m with hnp | ⟨w1, hr, heq, _⟩
    · exact absurd hsend (noprep _ (Appends.weaken benignOnly_NP hnp))
    · have hs : Out.send rs (.prepare pm) ∈ (processPreprepare w1 ⟨m.pp, m.block⟩).outs := by rw [← heq]; exact hsend
      obtain ⟨a, b, c, d⟩ := fin ⟨m.pp, m.block⟩ w1 hr hs
      refine ⟨⟨m.pp, m.block⟩, rfl, a, b, ?_, ?_⟩
      · show (handleNewView { n := n, spi := spi } m).n.store.getPP _ _ = some _; rw [heq]; exact c
      · show (handleNewView { n := n, spi := spi } m).n.view = _; rw [heq]; exact d

/-! ## one PREPARE per (height, view), over whole executions -/

/-- the node after a sequence of (event, SPI answers) pairs, and everything it emitted -/
def runAll (n : Node) : List (Event × List Spi) → Node × List Out
  | [] => (n, [])
  | (e, spi) :: rest =>
    let (n1, o1) := step n e spi
    let (n2, o2) := runAll n1 rest
    (n2, o1 ++ o2)

/-- the stored proposal of a (height, view) never changes along an execution -/
theorem runAll_getPP_stable (es : List (Event × List Spi)) (n : Node) (h v : Nat) (p : PPMsg)
    (hp : n.store.getPP h v = some p)
    (hstart : ∀ x ∈ es, ∀ c, x.1 ≠ .start c) : (runAll n es).1.store.getPP h v = some p := by
  induction es generalizing n with
  | nil => exact hp
  | cons x xs ih =>
    obtain ⟨e, spi⟩ := x
    unfold runAll
    dsimp only
    have hs : ∀ c, e = .start c → n.view = 0 := fun c hc => absurd hc (hstart (e, spi) (List.mem_cons_self ..) c)
    exact ih _ ((step_ev n e spi hs).getPP_stable h v p hp) (fun y hy => hstart y (List.mem_cons_of_mem _ hy))

/-- **One PREPARE hash per (height, view)**: in any execution of a term (any events, any SPI
answers, after the term has started), two PREPAREs the node sends for the same (height, view) are
the same message. -/
theorem one_prepare_per_view (es : List (Event × List Spi)) (n : Node)
    (hstart : ∀ x ∈ es, ∀ c, x.1 ≠ .start c)
    (rs1 rs2 : List Nat) (p1 p2 : PMsg)
    (h1 : Out.send rs1 (.prepare p1) ∈ (runAll n es).2) (h2 : Out.send rs2 (.prepare p2) ∈ (runAll n es).2)
    (hk : p1.header.height = p2.header.height ∧ p1.header.view = p2.header.view) : p1 = p2 := by
  -- strengthen: also against any proposal already stored
  have gen : ∀ (es : List (Event × List Spi)) (n : Node), (∀ x ∈ es, ∀ c, x.1 ≠ .start c) →
      ∀ rs pm, Out.send rs (.prepare pm) ∈ (runAll n es).2 →
        n.store.getPP pm.header.height pm.header.view = none
        ∧ ∃ ppm, (runAll n es).1.store.getPP pm.header.height pm.header.view = some ppm
            ∧ pm = ownPrepare n.cfg pm.header.height pm.header.view ppm.c.header.hash := by
    intro es
    induction es with
    | nil => intro n _ rs pm h; cases h
    | cons x xs ih =>
      intro n hst rs pm h
      obtain ⟨e, spi⟩ := x
      unfold runAll at h ⊢
      dsimp only at h ⊢
      have hs : ∀ c, e = .start c → n.view = 0 := fun c hc => absurd hc (hst (e, spi) (List.mem_cons_self ..) c)
      have hst' : ∀ y ∈ xs, ∀ c, y.1 ≠ .start c := fun y hy => hst y (List.mem_cons_of_mem _ hy)
      have hev := step_ev n e spi hs
      rw [List.mem_append] at h
      rcases h with h | h
      · obtain ⟨ppm, _, hauth, hpm, hget, _⟩ := adoption n e spi rs pm h
        have e1 : pm.header.height = ppm.c.header.height := by rw [hpm]; rfl
        have e2 : pm.header.view = ppm.c.header.view := by rw [hpm]; rfl
        refine ⟨by rw [e1, e2]; exact hauth.2.2.2, ppm, ?_, ?_⟩
        · rw [e1, e2]; exact runAll_getPP_stable xs _ _ _ _ hget hst'
        · rw [hpm]; rfl
      · obtain ⟨hnone, ppm, hget, hpm⟩ := ih (step n e spi).1 hst' rs pm h
        refine ⟨?_, ppm, hget, by rw [← hev.cfg]; exact hpm⟩
        cases hb : n.store.getPP pm.header.height pm.header.view with
        | none => rfl
        | some q => rw [hev.getPP_stable _ _ q hb] at hnone; cases hnone
  obtain ⟨_, q1, g1, e1⟩ := gen es n hstart rs1 p1 h1
  obtain ⟨_, q2, g2, e2⟩ := gen es n hstart rs2 p2 h2
  rw [hk.1, hk.2] at g1
  rw [g1] at g2
  injection g2 with g2
  rw [e1, e2, hk.1, hk.2, g2]

/-! ## COMMIT -/

/-- shape and guard of a COMMIT send: it is the node's own COMMIT for the (h, v, hash) being
checked, and the stored proposal of (h, v) has a block and exactly that hash -/
def CommitFor (n : Node) (h v hash : Nat) (o : Out) : Prop :=
  ∀ rs cm, o = .send rs (.commit cm) → cm = ownCommit n.cfg h v hash ∧ isPreprepared n h v hash = true

theorem commitFor_trivial (n : Node) (h v hash : Nat) (o : Out) (ho : ∀ rs cm, o ≠ .send rs (.commit cm)) :
    CommitFor n h v hash o := fun rs cm e => absurd e (ho rs cm)

/-- the late-commit path (`sendCommitIfNotAlreadySent`) -/
theorem checkCommitted_commit_sends (w : Term.W) (h v hash : Nat) :
    Appends (CommitFor w.n h v hash) w (checkCommitted w h v hash) := by
  unfold checkCommitted
  dsimp only
  split
  · exact Appends.refl _ _
  split
  · exact Appends.refl _ _
  rename_i hpre
  split
  · exact Appends.refl _ _
  split
  · exact Appends.refl _ _
  · have h0 : Appends (CommitFor w.n h v hash) w (ctxFor w h maxView).1 := Appends.of_outs_eq (ctxFor_outs _ _ _)
    split
    · exact h0
    · split
      · exact h0
      · have hcb : ∀ b cs, CommitFor w.n h v hash (.commit b cs) := fun _ _ => commitFor_trivial _ _ _ _ _ (fun _ _ e => by cases e)
        split
        · exact Appends.emit_trans _ (Appends.setN _ h0) (hcb _ _)
        · refine Appends.emit_trans _ (Appends.setN _ (Appends.emit_trans _ h0 ?_)) (hcb _ _)
          intro rs cm e
          simp only [Out.send.injEq, Message.commit.injEq] at e
          obtain ⟨_, rfl⟩ := e
          have c1 := (ctxFor_n w h maxView).1
          exact ⟨by rw [c1], by simpa using hpre⟩

theorem checkPreparedLocally_commit_sends (w : Term.W) (h v hash : Nat) :
    Appends (CommitFor w.n h v hash) w (checkPreparedLocally w h v hash) := by
  rcases checkPreparedLocally_cases w h v hash with e | ⟨hcond, e⟩
  · rw [e]; exact Appends.refl _ _
  · rw [e]
    unfold onPreparedLocally
    dsimp only
    have s1 : Appends (CommitFor w.n h v hash) w
        (({ w with n := { ({ w with n := { w.n with prepared := some v } } : Term.W).n with
            store := w.n.store.storeCommit ⟨⟨tC, w.n.cfg.inst, h, v, hash⟩, mySig w.n.cfg, true⟩ } } : Term.W).emit
          (.send (others w.n.cfg) (.commit ⟨⟨tC, w.n.cfg.inst, h, v, hash⟩, mySig w.n.cfg, true⟩))) := by
      refine ⟨[_], rfl, ?_⟩
      intro o ho; simp at ho; subst ho
      intro rs cm e
      simp only [Out.send.injEq, Message.commit.injEq] at e
      obtain ⟨_, rfl⟩ := e
      exact ⟨rfl, hcond.2.1⟩
    refine Appends.trans s1 ?_
    obtain ⟨l, el, pl⟩ := checkCommitted_commit_sends
      (({ w with n := { ({ w with n := { w.n with prepared := some v } } : Term.W).n with
            store := w.n.store.storeCommit ⟨⟨tC, w.n.cfg.inst, h, v, hash⟩, mySig w.n.cfg, true⟩ } } : Term.W).emit
          (.send (others w.n.cfg) (.commit ⟨⟨tC, w.n.cfg.inst, h, v, hash⟩, mySig w.n.cfg, true⟩))) h v hash
    refine ⟨l, el, ?_⟩
    intro o ho rs cm e
    obtain ⟨a, _⟩ := pl o ho rs cm e
    exact ⟨a, hcond.2.1⟩

/-- from the guard to the stored proposal -/
theorem isPreprepared_getPP (n : Node) (h v hash : Nat) (hp : isPreprepared n h v hash = true) :
    ∃ ppm, n.store.getPP h v = some ppm ∧ ppm.c.header.hash = hash ∧ ppm.block.isSome = true := by
  unfold isPreprepared at hp
  cases hg : n.store.getPP h v with
  | none => rw [hg] at hp; cases hp
  | some ppm =>
    rw [hg] at hp
    simp only [Bool.and_eq_true, beq_iff_eq] at hp
    exact ⟨ppm, rfl, hp.2, hp.1⟩

/-- no COMMIT send -/
def NC (o : Out) : Prop := ∀ rs cm, o ≠ .send rs (.commit cm)

theorem NC_accElect : AccElect NC :=
  ⟨⟨⟨fun _ _ _ _ h => (by cases h), fun _ _ _ h => (by cases h), fun _ _ _ _ _ h => (by cases h), fun _ _ _ h => (by cases h)⟩,
   fun _ _ _ _ h => (by cases h)⟩, fun _ _ _ _ h => (by cases h), fun _ _ _ _ h => (by cases h)⟩

/-- a COMMIT send found among the effects appended by a (checkPreparedLocally / checkCommitted)
call made in state `w'`, whose log the final state extends, carries the stored proposal's hash -/
private theorem commit_from_tail (w' wf : Term.W) (h v hash : Nat) (rs : List Nat) (cm : CMsg)
    (hap : Appends (CommitFor w'.n h v hash) w' wf) (hev : Evolves J w'.n wf.n)
    (hin : Out.send rs (.commit cm) ∈ wf.outs) (hnot : Out.send rs (.commit cm) ∉ w'.outs) :
    ∃ ppm, wf.n.store.getPP cm.header.height cm.header.view = some ppm ∧ ppm.c.header.hash = cm.header.hash
      ∧ ppm.block.isSome = true := by
  obtain ⟨l, el, pl⟩ := hap
  rw [el, List.mem_append] at hin
  rcases hin with hin | hin
  · exact absurd hin hnot
  · obtain ⟨hcm, hpre⟩ := pl _ hin rs cm rfl
    obtain ⟨ppm, hg, hh, hb⟩ := isPreprepared_getPP _ _ _ _ hpre
    have e1 : cm.header.height = h := by rw [hcm]; rfl
    have e2 : cm.header.view = v := by rw [hcm]; rfl
    have e3 : cm.header.hash = hash := by rw [hcm]; rfl
    exact ⟨ppm, by rw [e1, e2]; exact hev.getPP_stable _ _ _ hg, by rw [e3]; exact hh, hb⟩

/-- a COMMIT sent while adopting a proposal (the node became prepared at once) -/
private theorem commit_via_adoption (w1 : Term.W) (ppm : PPMsg) (rs : List Nat) (cm : CMsg) {w0 : Term.W}
    (hb : Appends BenignOnly w0 w1) (hw0 : w0.outs = [])
    (hs : Out.send rs (.commit cm) ∈ (processPreprepare w1 ppm).outs) :
    ∃ q, (processPreprepare w1 ppm).n.store.getPP cm.header.height cm.header.view = some q
      ∧ q.c.header.hash = cm.header.hash ∧ q.block.isSome = true := by
  obtain ⟨l0, el0, pl0⟩ := hb
  have hnot1 : Out.send rs (.commit cm) ∉ w1.outs := by
    rw [el0, hw0]; intro hc; simp at hc
    exact benignOnly_not_send _ (pl0 _ hc) _ _ rfl
  by_cases hv : w1.n.view = ppm.c.header.view
  · rw [processPreprepare_unfold w1 ppm hv] at hs ⊢
    refine commit_from_tail (adoptState w1 ppm) _ _ _ _ rs cm (checkPreparedLocally_commit_sends _ _ _ _) (checkPreparedLocally_ev _ _ _ _) hs ?_
    unfold adoptState
    simp only [W.emit, List.mem_append, List.mem_singleton]
    intro hc
    rcases hc with hc | hc
    · exact hnot1 hc
    · cases hc
  · rw [(processPreprepare_sends w1 ppm).2 hv] at hs
    exact absurd hs hnot1

/-- **One COMMIT hash per (height, view), and only for an accepted proposal**: every COMMIT the
node sends for (h, v) carries the hash of the proposal stored for (h, v) (with its block) — and that
stored proposal never changes (`Evolves.getPP_stable`). -/
theorem commit_hash_is_stored_proposal_hash (n : Node) (e : Event) (spi : List Spi) (rs : List Nat) (cm : CMsg)
    (hsend : Out.send rs (.commit cm) ∈ (step n e spi).2) :
    ∃ ppm, (step n e spi).1.store.getPP cm.header.height cm.header.view = some ppm
      ∧ ppm.c.header.hash = cm.header.hash ∧ ppm.block.isSome = true := by
  have nocommit : ∀ w' : Term.W, Appends NC { n := n, spi := spi } w' → Out.send rs (.commit cm) ∉ w'.outs := by
    intro w' ⟨l, el, pl⟩ hc
    rw [el] at hc; simp at hc
    exact pl _ hc rs cm rfl
  cases e with
  | start c =>
    exfalso
    -- startTerm emits only registrations, a request and a PREPREPARE
    have : Appends NC { n := n, spi := spi } (startTerm { n := n, spi := spi } c) := by
      unfold startTerm
      dsimp only
      have h0 := initView_appends' NC_accElect.toBenign { ({ n := n, spi := spi } : Term.W) with n := { n with prepared := none } } 0
      generalize initView { ({ n := n, spi := spi } : Term.W) with n := { n with prepared := none } } 0 = r at h0 ⊢
      obtain ⟨w1, ok⟩ := r
      have h0' : Appends NC { n := n, spi := spi } w1 := h0
      dsimp only
      split; exact h0'
      split; exact h0'
      split; exact h0'
      have h1 := Appends.trans h0' (askProposal_appends' NC_accElect.toBenign w1 w1.n.cfg.height 0)
      generalize askProposal w1 w1.n.cfg.height 0 = r2 at h1 ⊢
      obtain ⟨w2, ob⟩ := r2
      dsimp only at h1 ⊢
      split
      · exact h1
      · exact Appends.emit_trans _ (Appends.setN _ h1) (NC_accElect.pp _ _)
    exact nocommit _ this hsend
  | election h v => exact absurd hsend (nocommit _ (election_appends' NC_accElect _ h v))
  | cancelOlder h v => cases hsend
  | deliver m =>
    cases m with
    | viewChange m => exact absurd hsend (nocommit _ (handleViewChange_appends' NC_accElect.toAccLead _ m))
    | prepare m =>
      -- handlePrepare: either nothing, or store + checkPreparedLocally
      show ∃ ppm, (handlePrepare { n := n, spi := spi } m).n.store.getPP _ _ = some ppm ∧ _
      have hs : Out.send rs (.commit cm) ∈ (handlePrepare { n := n, spi := spi } m).outs := hsend
      unfold handlePrepare at hs ⊢
      dsimp only at hs ⊢
      split at hs; · cases hs
      split at hs; · cases hs
      split at hs; · cases hs
      split at hs; · cases hs
      split at hs; · cases hs
      rename_i g1 g2 g3 g4 g5
      rw [if_neg g1, if_neg g2, if_neg g3, if_neg g4, if_neg g5]
      exact commit_from_tail _ _ _ _ _ rs cm (checkPreparedLocally_commit_sends _ _ _ _) (checkPreparedLocally_ev _ _ _ _) hs (by simp)
    | commit m =>
      show ∃ ppm, (handleCommit { n := n, spi := spi } m).n.store.getPP _ _ = some ppm ∧ _
      have hs : Out.send rs (.commit cm) ∈ (handleCommit { n := n, spi := spi } m).outs := hsend
      unfold handleCommit at hs ⊢
      dsimp only at hs ⊢
      split at hs; · cases hs
      split at hs; · cases hs
      split at hs; · cases hs
      split at hs; · cases hs
      rename_i g1 g2 g3 g4
      rw [if_neg g1, if_neg g2, if_neg g3, if_neg g4]
      exact commit_from_tail _ _ _ _ _ rs cm (checkCommitted_commit_sends _ _ _ _) (checkCommitted_ev _ _ _ _) hs (by simp)
    | preprepare m =>
      show ∃ ppm, (handlePrePrepare { n := n, spi := spi } m).n.store.getPP _ _ = some ppm ∧ _
      have hs : Out.send rs (.commit cm) ∈ (handlePrePrepare { n := n, spi := spi } m).outs := hsend
      rcases handlePrePrepare_reaches { n := n, spi := spi } m with hnp | ⟨w1, hr, heq⟩
      · exfalso
        obtain ⟨l, el, pl⟩ := hnp
        rw [el] at hs; simp at hs
        exact benignOnly_not_send _ (pl _ hs) _ _ rfl
      · rw [heq] at hs ⊢
        exact commit_via_adoption w1 m rs cm hr.outs rfl hs
    | newView m =>
      show ∃ ppm, (handleNewView { n := n, spi := spi } m).n.store.getPP _ _ = some ppm ∧ _
      have hs : Out.send rs (.commit cm) ∈ (handleNewView { n := n, spi := spi } m).outs := hsend
      rcases handleNewView_reaches { n := n, spi := spi } m with hnp | ⟨w1, hr, heq, _⟩
      · exfalso
        obtain ⟨l, el, pl⟩ := hnp
        rw [el] at hs; simp at hs
        exact benignOnly_not_send _ (pl _ hs) _ _ rfl
      · rw [heq] at hs ⊢
        exact commit_via_adoption w1 ⟨m.pp, m.block⟩ rs cm hr.outs rfl hs

/-! ## views and VIEW_CHANGE -/



theorem processPreprepare_view (w : Term.W) (ppm : PPMsg) : (processPreprepare w ppm).n.view = w.n.view := by
  by_cases hv : w.n.view = ppm.c.header.view
  · rw [processPreprepare_unfold w ppm hv]
    exact (checkPreparedLocally_view _ _ _ _).1
  · rw [(processPreprepare_sends w ppm).2 hv]

theorem onElected_view (w : Term.W) (view : Nat) (vcs : List VCMsg) :
    w.n.view ≤ (onElectedByViewChange w view vcs).n.view := by
  unfold onElectedByViewChange
  dsimp only
  obtain ⟨_, _, _, _, _, i6, i7⟩ := initView_n { w with n := { w.n with latestNV := view } } view
  generalize initView { w with n := { w.n with latestNV := view } } view = r at i6 i7 ⊢
  obtain ⟨w1, ok⟩ := r
  dsimp only at i6 i7 ⊢
  have hle : w.n.view ≤ w1.n.view := by
    cases ok with
    | true => have := i6 rfl; rw [this.1]; exact this.2
    | false => have := i7 rfl; rw [this]; exact Nat.le_refl _
  split
  · exact hle
  · split
    · exact hle
    · obtain ⟨_, _, p3, _⟩ := askProposal_n w1 w1.n.cfg.height view
      generalize askProposal w1 w1.n.cfg.height view = r2 at p3 ⊢
      obtain ⟨w2, ob⟩ := r2
      dsimp only at p3 ⊢
      split
      · show w.n.view ≤ w2.n.view; rw [p3]; exact hle
      · show w.n.view ≤ w2.n.view; rw [p3]; exact hle

theorem checkElected_view (w : Term.W) (h view : Nat) : w.n.view ≤ (checkElected w h view).n.view := by
  unfold checkElected
  dsimp only
  split; exact Nat.le_refl _
  split; exact Nat.le_refl _
  split; exact Nat.le_refl _
  exact onElected_view w view _

/-- **the view of a node never decreases**, whatever it receives -/
theorem view_never_decreases (n : Node) (e : Event) (spi : List Spi) : n.view ≤ (step n e spi).1.view := by
  cases e with
  | cancelOlder h v => exact Nat.le_refl _
  | start c =>
    show n.view ≤ (startTerm { n := n, spi := spi } c).n.view
    unfold startTerm
    dsimp only
    obtain ⟨_, _, _, _, _, i6, i7⟩ := initView_n { ({ n := n, spi := spi } : Term.W) with n := { n with prepared := none } } 0
    generalize initView { ({ n := n, spi := spi } : Term.W) with n := { n with prepared := none } } 0 = r at i6 i7 ⊢
    obtain ⟨w1, ok⟩ := r
    dsimp only at i6 i7 ⊢
    have hle : n.view ≤ w1.n.view := by
      cases ok with
      | true => have := i6 rfl; rw [this.1]; exact this.2
      | false => have := i7 rfl; rw [this]; exact Nat.le_refl _
    split; exact hle
    split; exact hle
    split; exact hle
    obtain ⟨_, _, p3, _⟩ := askProposal_n w1 w1.n.cfg.height 0
    generalize askProposal w1 w1.n.cfg.height 0 = r2 at p3 ⊢
    obtain ⟨w2, ob⟩ := r2
    dsimp only at p3 ⊢
    split
    · show n.view ≤ w2.n.view; rw [p3]; exact hle
    · show n.view ≤ w2.n.view; rw [p3]; exact hle
  | election h v =>
    show n.view ≤ (election { n := n, spi := spi } h v).n.view
    unfold election
    dsimp only
    split; exact Nat.le_refl _
    obtain ⟨_, _, _, _, _, i6, i7⟩ := initView_n ({ n := n, spi := spi } : Term.W) (wrap64 (n.view + 1))
    generalize initView ({ n := n, spi := spi } : Term.W) (wrap64 (n.view + 1)) = r at i6 i7 ⊢
    obtain ⟨w1, ok⟩ := r
    dsimp only at i6 i7 ⊢
    have hle : n.view ≤ w1.n.view := by
      cases ok with
      | true => have := i6 rfl; rw [this.1]; exact this.2
      | false => have := i7 rfl; rw [this]; exact Nat.le_refl _
    split; exact hle
    split
    · refine Nat.le_trans hle ?_
      generalize hvc : VCMsg.mk _ _ = vc
      exact checkElected_view { w1 with n := { w1.n with store := w1.n.store.storeVC vc } } _ _
    · exact hle
  | deliver m =>
    cases m with
    | prepare m =>
      show n.view ≤ (handlePrepare { n := n, spi := spi } m).n.view
      unfold handlePrepare
      dsimp only
      split; exact Nat.le_refl _
      split; exact Nat.le_refl _
      split; exact Nat.le_refl _
      split; exact Nat.le_refl _
      split; exact Nat.le_refl _
      rw [(checkPreparedLocally_view _ _ _ _).1]; exact Nat.le_refl _
    | commit m =>
      show n.view ≤ (handleCommit { n := n, spi := spi } m).n.view
      unfold handleCommit
      dsimp only
      split; exact Nat.le_refl _
      split; exact Nat.le_refl _
      split; exact Nat.le_refl _
      split; exact Nat.le_refl _
      rw [(checkCommitted_n _ _ _ _).2.2.1]; exact Nat.le_refl _
    | viewChange m =>
      show n.view ≤ (handleViewChange { n := n, spi := spi } m).n.view
      unfold handleViewChange
      dsimp only
      split; exact Nat.le_refl _
      split; exact Nat.le_refl _
      split; exact Nat.le_refl _
      split; exact Nat.le_refl _
      split; exact Nat.le_refl _
      exact checkElected_view { ({ n := n, spi := spi } : Term.W) with n := { n with store := n.store.storeVC m } } _ _
    | preprepare m =>
      show n.view ≤ (handlePrePrepare { n := n, spi := spi } m).n.view
      unfold handlePrePrepare
      by_cases hval : (!validatePreprepare ({ n := n, spi := spi } : Term.W).n m) = true
      · rw [if_pos hval]; exact Nat.le_refl _
      · rw [if_neg hval]
        by_cases hlock : lockConflict ({ n := n, spi := spi } : Term.W).n m = true
        · rw [if_pos hlock]; exact Nat.le_refl _
        · rw [if_neg hlock]
          dsimp only
          obtain ⟨_, _, a3, _⟩ := askValidate_n ({ n := n, spi := spi } : Term.W) m.c.header.height m.c.header.view m.block m.c.header.hash
          generalize askValidate ({ n := n, spi := spi } : Term.W) m.c.header.height m.c.header.view m.block m.c.header.hash = r at a3 ⊢
          obtain ⟨w1, ok⟩ := r
          dsimp only at a3 ⊢
          by_cases hok : (!ok) = true
          · rw [if_pos hok]; show n.view ≤ w1.n.view; rw [a3]; exact Nat.le_refl _
          · rw [if_neg hok, processPreprepare_view]; show n.view ≤ w1.n.view; rw [a3]; exact Nat.le_refl _
    | newView m =>
      show n.view ≤ (handleNewView { n := n, spi := spi } m).n.view
      unfold handleNewView
      dsimp only
      split; exact Nat.le_refl _
      split; exact Nat.le_refl _
      split; exact Nat.le_refl _
      split; exact Nat.le_refl _
      split; exact Nat.le_refl _
      split; exact Nat.le_refl _
      split; exact Nat.le_refl _
      split; exact Nat.le_refl _
      split; exact Nat.le_refl _
      unfold adoptNewView
      dsimp only
      have tail : ∀ (w1 : Term.W) (ok : Bool), w1.n.view = n.view →
          n.view ≤ (if (!ok) = true then w1 else
            if (!validatePreprepare w1.n ⟨m.pp, m.block⟩) = true then w1 else
              if (!(initView { w1 with n := { w1.n with latestNV := m.header.view } } m.header.view).2) = true
              then (initView { w1 with n := { w1.n with latestNV := m.header.view } } m.header.view).1
              else processPreprepare (initView { w1 with n := { w1.n with latestNV := m.header.view } } m.header.view).1 ⟨m.pp, m.block⟩).n.view := by
        intro w1 ok hv
        split
        · rw [hv]; exact Nat.le_refl _
        split
        · rw [hv]; exact Nat.le_refl _
        obtain ⟨_, _, _, _, _, i6, i7⟩ := initView_n { w1 with n := { w1.n with latestNV := m.header.view } } m.header.view
        generalize initView { w1 with n := { w1.n with latestNV := m.header.view } } m.header.view = r2 at i6 i7 ⊢
        obtain ⟨w2, ok2⟩ := r2
        dsimp only at i6 i7 ⊢
        have hle : n.view ≤ w2.n.view := by
          cases ok2 with
          | true => have := i6 rfl; rw [this.1, ← hv]; exact this.2
          | false => have := i7 rfl; rw [this]; show n.view ≤ w1.n.view; rw [hv]; exact Nat.le_refl _
        split
        · exact hle
        · rw [processPreprepare_view]; exact hle
      by_cases hlv : (latestVote m.header.votes).isNone = true
      · simp only [hlv, if_true]
        exact tail _ _ (askValidate_n _ _ _ _ _).2.2.1
      · simp only [hlv]
        exact tail _ true rfl

/-- no VIEW_CHANGE send -/
def NVC (o : Out) : Prop := ∀ rs m, o ≠ .send rs (.viewChange m)

theorem NVC_benign : Benign NVC :=
  ⟨fun _ _ _ _ h => (by cases h), fun _ _ _ h => (by cases h), fun _ _ _ _ _ h => (by cases h), fun _ _ _ h => (by cases h)⟩
theorem NVC_accLead : AccLead NVC := ⟨NVC_benign, fun _ _ _ _ h => (by cases h)⟩

/-- **A VIEW_CHANGE is only ever sent by the election step, for the view the node has just entered,
which is above the view it left.**  With `view_never_decreases` this makes the views of a node's
VIEW_CHANGE messages strictly increasing along any execution. -/
theorem viewchange_is_for_the_new_view (n : Node) (h v : Nat) (spi : List Spi) (rs : List Nat) (vcm : VCMsg)
    (hsend : Out.send rs (.viewChange vcm) ∈ (step n (.election h v) spi).2) :
    vcm.c.header.view = (step n (.election h v) spi).1.view ∧ vcm.c.sender = mySig n.cfg
      ∧ n.view ≤ vcm.c.header.view ∧ vcm.c.header.view = wrap64 (n.view + 1) := by
  have hs : Out.send rs (.viewChange vcm) ∈ (election { n := n, spi := spi } h v).outs := hsend
  show vcm.c.header.view = (election { n := n, spi := spi } h v).n.view ∧ _
  unfold election at hs ⊢
  dsimp only at hs ⊢
  split at hs; · cases hs
  rename_i hcur
  rw [if_neg hcur]
  obtain ⟨i1, _, _, _, _, i6, i7⟩ := initView_n ({ n := n, spi := spi } : Term.W) (wrap64 (n.view + 1))
  have hiv := initView_appends' NVC_benign ({ n := n, spi := spi } : Term.W) (wrap64 (n.view + 1))
  generalize initView ({ n := n, spi := spi } : Term.W) (wrap64 (n.view + 1)) = r at i1 i6 i7 hiv hs ⊢
  obtain ⟨w1, ok⟩ := r
  dsimp only at i1 i6 i7 hiv hs ⊢
  have nov : ∀ w' : Term.W, Appends NVC { n := n, spi := spi } w' → Out.send rs (.viewChange vcm) ∉ w'.outs := by
    intro w' ⟨l, el, pl⟩ hc
    rw [el] at hc; simp at hc
    exact pl _ hc rs vcm rfl
  split at hs
  · exact absurd hs (nov _ hiv)
  · rename_i hok
    rw [if_neg hok]
    have hview := i6 (by simpa using hok)
    split at hs
    · -- the node is the next leader: it stores its vote, and what follows never sends a VIEW_CHANGE
      exfalso
      exact nov _ (Appends.trans (Appends.setN _ hiv) (checkElected_appends' NVC_accLead _ _ _)) hs
    · rename_i hl
      rw [if_neg hl]
      obtain ⟨l, el, pl⟩ := hiv
      simp only [W.emit, el, List.nil_append, List.mem_append, List.mem_singleton] at hs
      rcases hs with hs | hs
      · exact absurd rfl (pl _ hs rs vcm)
      · simp only [Out.send.injEq, Message.viewChange.injEq] at hs
        rw [hs.2]
        exact ⟨hview.1.symm, by rw [i1], hview.2, rfl⟩

/-- **PREPARE only for the proposal accepted from that view's leader, never as the leader**: the
proposal a PREPARE answers is signed by the leader of its view; since the worker's filter drops
every message carrying the node's own id (`C08.filtered_messages_change_nothing`), that leader is
another member, so the node is not the leader of a view in which it sends PREPARE. -/
theorem never_prepare_as_leader (n : Node) (e : Event) (spi : List Spi) (rs : List Nat) (pm : PMsg)
    (hsend : Out.send rs (.prepare pm) ∈ (step n e spi).2)
    (hfilter : ∀ ppm, proposalOf e = some ppm → ppm.c.sender.id ≠ n.cfg.me) :
    isLeader n.cfg n.cfg.me pm.header.view = false := by
  obtain ⟨ppm, hp, hauth, hpm, _, _⟩ := adoption n e spi rs pm hsend
  have hl := hauth.2.2.1
  have hne := hfilter ppm hp
  have hv : pm.header.view = ppm.c.header.view := by rw [hpm]; rfl
  unfold isLeader at hl ⊢
  rw [hv]
  simp only [beq_iff_eq] at hl
  cases hc : (leaderId n.cfg ppm.c.header.view == n.cfg.me) with
  | false => rfl
  | true => simp only [beq_iff_eq] at hc; rw [hc] at hl; exact absurd hl.symm hne

end LeanHelix.C10
