import LeanHelix.Props.C01Local
/-!
# C10 — at most one PREPREPARE / NEW_VIEW / PREPARE per view over whole executions

`C01Local.one_acceptance_per_view`, restated for C10: for every configuration whose weight fits 64
bits, a term that is started and then handles *any* sequence of deliveries, election triggers and
cancellations with *any* SPI answers sends, over the whole execution, at most one message that
accepts a proposal per view — a PREPREPARE (view 0, as leader), a NEW_VIEW (as elected leader) or a
PREPARE (as follower).  Hence the PREPREPARE of view 0 goes out at most once per term, a leader never
also sends a PREPARE for the view it proposed in, and no view sees two PREPAREs or two NEW_VIEWs of one
node.  (That all of a view's acceptances name one hash is `C01Local.one_hash_per_view`; this theorem is
the counting half: there is only one of them.)
-/
namespace LeanHelix.C10
open LeanHelix LeanHelix.Msg LeanHelix.Term LeanHelix.C01Local

/-- the view of a proposal-accepting send (PREPREPARE, PREPARE, NEW_VIEW) -/
def acceptView (o : Out) : Option Nat := (stmtOf o).bind accViewS

theorem at_most_one_accepting_send_per_view (c : Cfg) (hfit : C06.Fits c.members) (first : Bool) (spi0 : List Spi)
    (es : List (Event × List Spi)) (hes : ∀ x ∈ es, EventOK c x.1) :
    ((es.foldl Exec.next (Exec.next (({ cfg := c } : Node), []) (.start first, spi0))).2.filterMap acceptView).Nodup := by
  have := one_acceptance_per_view c hfit first spi0 es hes
  rw [List.filterMap_filterMap] at this
  exact this

/-- non-vacuity: in the example execution of `C01Local` the node accepts exactly one proposal (view 0) -/
example : (exEvents.foldl Exec.next (Exec.next (({ cfg := exCfg } : Node), []) (.start true, []))).2.filterMap acceptView = [0] := by
  decide

end LeanHelix.C10
