import LeanHelix.Model.Contexts
/-!
# C15 (registry part) — laws of the context registry, for every order of For / CancelOlderThan / Shutdown

`Reg.issued` is a ghost log of every (position, context id) ever created.  `done r id` is
`ctx.Err() != nil` of that context.
-/
namespace LeanHelix.C15
open LeanHelix.State (HV)
open LeanHelix.Contexts

theorem olderThan_iff (a b : HV) :
    a.olderThan b = true ↔ (a.height < b.height ∨ (a.height = b.height ∧ a.view < b.view)) := by
  unfold HV.olderThan; simp

theorem olderThan_false_iff (a b : HV) :
    a.olderThan b = false ↔ ¬ (a.height < b.height ∨ (a.height = b.height ∧ a.view < b.view)) := by
  rw [← olderThan_iff]; simp

/-- the position is superseded by the watermark -/
def stale (r : Reg) (hv : HV) : Prop := ∃ w, r.watermark = some w ∧ hv.olderThan w = true

/-- what holds of every reachable registry -/
structure Inv (r : Reg) : Prop where
  live_issued : ∀ p ∈ r.live, p ∈ r.issued
  issued_lt : ∀ p ∈ r.issued, p.2 < r.next
  issued_ids : ∀ p ∈ r.issued, ∀ q ∈ r.issued, p.2 = q.2 → p = q
  live_not_cancelled : ∀ p ∈ r.live, p.2 ∉ r.cancelled
  live_not_stale : ∀ p ∈ r.live, ¬ stale r p.1
  keys_nodup : (r.live.map (·.1)).Nodup
  issued_cases : ∀ p ∈ r.issued, p ∈ r.live ∨ p.2 ∈ r.cancelled
  cancelled_stale : ∀ p ∈ r.issued, p.2 ∈ r.cancelled → stale r p.1
  cancelled_lt : ∀ i ∈ r.cancelled, i < r.next

theorem inv_init : Inv {} :=
  ⟨by simp, by simp, by simp, by simp, by simp, by simp, by simp, by simp, by simp⟩

private theorem lookup_some {l : List (HV × Nat)} {hv : HV} {id : Nat} (h : lookup l hv = some id) :
    (hv, id) ∈ l := by
  unfold lookup at h
  cases hf : l.find? (fun p => p.1 == hv) with
  | none => simp [hf] at h
  | some p =>
    simp [hf] at h
    have hm := List.mem_of_find?_eq_some hf
    have hp := List.find?_some hf
    simp at hp
    have : p = (hv, id) := by cases p; simp_all
    rw [← this]; exact hm

private theorem lookup_none {l : List (HV × Nat)} {hv : HV} (h : lookup l hv = none) :
    hv ∉ l.map (·.1) := by
  unfold lookup at h
  simp at h
  intro hm
  simp at hm
  obtain ⟨b, hb⟩ := hm
  exact h _ _ hb rfl

private theorem nodup_keys_inj {l : List (HV × Nat)} {k : HV} {a b : Nat}
    (hnd : (l.map (·.1)).Nodup) (ha : (k, a) ∈ l) (hb : (k, b) ∈ l) : a = b := by
  induction l with
  | nil => simp at ha
  | cons x xs ih =>
    simp only [List.map_cons, List.nodup_cons] at hnd
    simp only [List.mem_cons] at ha hb
    rcases ha with rfl | ha <;> rcases hb with hb | hb
    · simpa using hb.symm
    · exact absurd (List.mem_map.mpr ⟨(k, b), hb, rfl⟩) hnd.1
    · subst hb; exact absurd (List.mem_map.mpr ⟨(k, a), ha, rfl⟩) hnd.1
    · exact ih hnd.2 ha hb

private theorem lookup_of_mem {l : List (HV × Nat)} {hv : HV} {id : Nat}
    (hnd : (l.map (·.1)).Nodup) (hm : (hv, id) ∈ l) : lookup l hv = some id := by
  cases h : lookup l hv with
  | none => exact absurd (List.mem_map.mpr ⟨(hv, id), hm, rfl⟩) (lookup_none h)
  | some id' =>
    have hm' := lookup_some h
    rw [nodup_keys_inj hnd hm' hm]

/-- the new watermark after `CancelOlderThan hv` -/
def newWm (r : Reg) (hv : HV) : HV :=
  match r.watermark with
  | none => hv
  | some w => if w.olderThan hv then hv else w

theorem cancel_eq (r : Reg) (hv : HV) :
    (step r (.cancelOlderThan hv)).1 =
      { r with live := r.live.filter (fun p => !p.1.olderThan hv),
               cancelled := (r.live.filter (fun p => p.1.olderThan hv)).map (·.2) ++ r.cancelled,
               watermark := some (newWm r hv) } := by
  unfold step newWm; cases r.watermark <;> simp <;> split <;> rfl

theorem stale_mono_cancel (r : Reg) (hv x : HV) (h : stale r x) :
    stale (step r (.cancelOlderThan hv)).1 x := by
  obtain ⟨w, hw, ho⟩ := h
  rw [cancel_eq]; refine ⟨newWm r hv, rfl, ?_⟩
  unfold newWm; rw [hw]; simp only
  by_cases c : w.olderThan hv
  · simp only [c, if_true]; rw [olderThan_iff] at *; omega
  · simp only [c]; exact ho

theorem older_stale_cancel (r : Reg) (hv x : HV) (h : x.olderThan hv = true) :
    stale (step r (.cancelOlderThan hv)).1 x := by
  rw [cancel_eq]; refine ⟨newWm r hv, rfl, ?_⟩
  unfold newWm
  cases hw : r.watermark with
  | none => exact h
  | some w =>
    simp only
    by_cases c : w.olderThan hv
    · simp only [c, if_true]; exact h
    · rw [if_neg c]
      have c' : w.olderThan hv = false := by simpa using c
      rw [olderThan_false_iff] at c'; rw [olderThan_iff] at *; omega

theorem stale_cancel_cases (r : Reg) (hv x : HV)
    (h : stale (step r (.cancelOlderThan hv)).1 x) : stale r x ∨ x.olderThan hv = true := by
  rw [cancel_eq] at h
  obtain ⟨w, hw, ho⟩ := h
  simp only [Option.some.injEq] at hw
  subst hw
  unfold newWm at ho
  cases hw : r.watermark with
  | none => rw [hw] at ho; exact Or.inr ho
  | some w =>
    rw [hw] at ho; simp only at ho
    by_cases c : w.olderThan hv
    · simp only [c, if_true] at ho; exact Or.inr ho
    · simp only [c] at ho; exact Or.inl ⟨w, hw, ho⟩

theorem inv_step (r : Reg) (op : Op) (h : Inv r) : Inv (step r op).1 := by
  cases op with
  | shutdown => exact ⟨h.1, h.2, h.3, h.4, h.5, h.6, h.7, h.8, h.9⟩
  | for_ hv =>
    unfold step
    by_cases hs : r.shutdown
    · simpa [hs] using h
    · simp only [hs, Bool.false_eq_true, if_false]
      by_cases hst : isStale r hv
      · simpa [hst] using h
      · simp only [hst, Bool.false_eq_true, if_false]
        have hns : ¬ stale r hv := by
          intro ⟨w, hw, ho⟩; apply hst; unfold isStale; rw [hw]; exact ho
        cases hl : lookup r.live hv with
        | some id => exact h
        | none =>
          have hfresh : ∀ p ∈ r.issued, p.2 ≠ r.next := fun p hp e => by
            have := h.issued_lt p hp; omega
          refine ⟨?_, ?_, ?_, ?_, ?_, ?_, ?_, ?_, ?_⟩
          · intro p hp; simp at hp ⊢
            rcases hp with rfl | hp
            · exact Or.inl rfl
            · exact Or.inr (h.live_issued p hp)
          · intro p hp; simp at hp
            rcases hp with rfl | hp
            · simp
            · have := h.issued_lt p hp; simp; omega
          · intro p hp q hq e; simp at hp hq
            rcases hp with rfl | hp <;> rcases hq with rfl | hq
            · rfl
            · exact absurd e.symm (hfresh q hq)
            · exact absurd e (hfresh p hp)
            · exact h.issued_ids p hp q hq e
          · intro p hp; simp at hp
            rcases hp with rfl | hp
            · simp; intro hc
              have := h.cancelled_lt _ hc; omega
            · exact h.live_not_cancelled p hp
          · intro p hp; simp at hp
            rcases hp with rfl | hp
            · exact hns
            · exact h.live_not_stale p hp
          · simp; exact ⟨by simpa using lookup_none hl, h.keys_nodup⟩
          · intro p hp; simp at hp ⊢
            rcases hp with rfl | hp
            · exact Or.inl (Or.inl rfl)
            · rcases h.issued_cases p hp with c | c
              · exact Or.inl (Or.inr c)
              · exact Or.inr c
          · intro p hp hc; simp at hp hc
            rcases hp with rfl | hp
            · have := h.cancelled_lt _ hc; simp at this
            · exact h.cancelled_stale p hp hc
          · intro i hi; have := h.cancelled_lt i hi; simp; omega
  | cancelOlderThan hv =>
    rw [cancel_eq]
    refine ⟨?_, ?_, ?_, ?_, ?_, ?_, ?_, ?_, ?_⟩
    · intro p hp; simp at hp; exact h.live_issued p hp.1
    · exact h.issued_lt
    · exact h.issued_ids
    · intro p hp; simp at hp ⊢
      refine ⟨?_, h.live_not_cancelled p hp.1⟩
      intro a hq
      have := h.issued_ids (a, p.2) (h.live_issued _ hq) p (h.live_issued p hp.1) rfl
      rw [← this] at hp; exact hp.2
    · intro p hp hst; simp at hp
      have := stale_cancel_cases r hv p.1 (by rw [cancel_eq]; exact hst)
      rcases this with c | c
      · exact h.live_not_stale p hp.1 c
      · simp [c] at hp
    · have := h.keys_nodup
      exact List.Nodup.sublist (List.Sublist.map _ List.filter_sublist) this
    · intro p hp
      rcases h.issued_cases p hp with c | c
      · by_cases ho : p.1.olderThan hv
        · right; simp; left; exact ⟨p.1, by cases p; exact c, ho⟩
        · left; simp; exact ⟨c, by simpa using ho⟩
      · right; simp; right; exact c
    · intro p hp hc; simp at hc
      have key : stale (step r (.cancelOlderThan hv)).1 p.1 := by
        rcases hc with ⟨a, hq, ho⟩ | hc
        · have := h.issued_ids (a, p.2) (h.live_issued _ hq) p hp rfl
          rw [← this]; exact older_stale_cancel r hv a ho
        · exact stale_mono_cancel r hv p.1 (h.cancelled_stale p hp hc)
      rw [cancel_eq] at key; exact key
    · intro i hi; simp at hi
      rcases hi with ⟨a, hq⟩ | hi
      · exact h.issued_lt _ (h.live_issued _ hq.1)
      · exact h.cancelled_lt i hi

end LeanHelix.C15

namespace LeanHelix.C15
open LeanHelix.State (HV)
open LeanHelix.Contexts

theorem inv_run (ops : List Op) : Inv (run {} ops) := by
  suffices ∀ r, Inv r → Inv (run r ops) from this _ inv_init
  induction ops with
  | nil => intro r h; exact h
  | cons o os ih => intro r h; unfold run; simp only [List.foldl_cons]; exact ih _ (inv_step r o h)

theorem run_append (r : Reg) (xs ys : List Op) : run r (xs ++ ys) = run (run r xs) ys := by
  unfold run; rw [List.foldl_append]

theorem isStale_iff (r : Reg) (hv : HV) : isStale r hv = true ↔ stale r hv := by
  unfold isStale stale
  cases r.watermark with
  | none => simp
  | some w => simp

/-- superseded positions stay superseded whatever happens next -/
theorem stale_step (r : Reg) (op : Op) (x : HV) (h : stale r x) : stale (step r op).1 x := by
  cases op with
  | cancelOlderThan hv => exact stale_mono_cancel r hv x h
  | shutdown => exact h
  | for_ hv =>
    unfold step
    by_cases hs : r.shutdown
    · simpa [hs] using h
    · by_cases hst : isStale r hv
      · simpa [hs, hst] using h
      · simp only [hs, hst, Bool.false_eq_true, if_false]
        cases lookup r.live hv <;> exact h

theorem stale_run (r : Reg) (ops : List Op) (x : HV) (h : stale r x) : stale (run r ops) x := by
  induction ops generalizing r with
  | nil => exact h
  | cons o os ih => unfold run; simp only [List.foldl_cons]; exact ih _ (stale_step r o x h)

/-- **A context is never handed out for a (height, view) that has already been superseded**:
once `CancelOlderThan w` has been called, every later `For hv` with `hv` older than `w` is refused,
whatever was called before, in between and after. -/
theorem for_refuses_superseded (before between : List Op) (w hv : HV) (hold : hv.olderThan w = true) :
    let r := run {} (before ++ [.cancelOlderThan w] ++ between)
    (step r (.for_ hv)).2 = .errStale ∨ (step r (.for_ hv)).2 = .errShutdown := by
  intro r
  have hst : stale r hv := by
    show stale (run {} (before ++ [.cancelOlderThan w] ++ between)) hv
    rw [run_append, run_append]
    apply stale_run
    have : run (run {} before) [.cancelOlderThan w] = (step (run {} before) (.cancelOlderThan w)).1 := rfl
    rw [this]; exact older_stale_cancel _ w hv hold
  unfold step
  by_cases hs : r.shutdown
  · right; simp [hs]
  · left; simp [hs, (isStale_iff r hv).mpr hst]

/-- A context that `For` hands out is live at that moment (not cancelled, registry not shut down),
and is recorded for exactly the requested position. -/
theorem handed_out_is_live (r : Reg) (h : Inv r) (hv : HV) (id : Nat)
    (hres : (step r (.for_ hv)).2 = .ctx id) :
    done (step r (.for_ hv)).1 id = false ∧ (hv, id) ∈ (step r (.for_ hv)).1.live := by
  have h' := inv_step r (.for_ hv) h
  revert hres h'
  unfold step
  by_cases hs : r.shutdown
  · simp [hs]
  · by_cases hst : isStale r hv
    · simp [hs, hst]
    · simp only [hs, hst, Bool.false_eq_true, if_false]
      cases hl : lookup r.live hv with
      | some id' =>
        intro hres h'; simp at hres; subst hres
        have hm := lookup_some hl
        exact ⟨by simp [done, hs]; exact h.live_not_cancelled _ hm, hm⟩
      | none =>
        intro hres h'; simp at hres; subst hres
        refine ⟨?_, by simp⟩
        have := h'.live_not_cancelled (hv, r.next) (by simp)
        simpa [done, hs] using this

/-- **`CancelOlderThan hv` cancels every context ever issued for an older position.** -/
theorem cancel_cancels_all_older (r : Reg) (h : Inv r) (hv : HV) (p : HV × Nat) (hp : p ∈ r.issued)
    (hold : p.1.olderThan hv = true) : done (step r (.cancelOlderThan hv)).1 p.2 = true := by
  rw [cancel_eq]
  unfold done; simp only [Bool.or_eq_true, List.contains_eq_mem, decide_eq_true_eq]
  right
  rcases h.issued_cases p hp with c | c
  · simp; left; exact ⟨p.1, by cases p; exact c, hold⟩
  · simp; right; exact c

/-- **Contexts of current or future positions are not cancelled by events about older ones**:
a context is done only if the registry was shut down or its own position is superseded. -/
theorem done_only_if_superseded_or_shutdown (r : Reg) (h : Inv r) (p : HV × Nat) (hp : p ∈ r.issued)
    (hd : done r p.2 = true) : r.shutdown = true ∨ stale r p.1 := by
  unfold done at hd; simp at hd
  rcases hd with c | c
  · exact Or.inl c
  · exact Or.inr (h.cancelled_stale p hp c)

private theorem watermark_from_cancel_aux (ops : List Op) (w : HV) :
    ∀ r, (run r ops).watermark = some w → r.watermark = some w ∨ Op.cancelOlderThan w ∈ ops := by
  induction ops with
  | nil => intro r h; exact Or.inl h
  | cons o os ih =>
    intro r h
    unfold run at h; simp only [List.foldl_cons] at h
    rcases ih (step r o).1 h with c | c
    · cases o with
      | shutdown => exact Or.inl c
      | for_ hv =>
        left; revert c; unfold step
        by_cases hs : r.shutdown
        · simp [hs]
        · by_cases hst : isStale r hv
          · simp [hs, hst]
          · simp only [hs, hst, Bool.false_eq_true, if_false]
            cases lookup r.live hv <;> exact id
      | cancelOlderThan hv =>
        rw [cancel_eq] at c; simp only [Option.some.injEq] at c
        unfold newWm at c
        cases hwm : r.watermark with
        | none => rw [hwm] at c; right; simp [c]
        | some w0 =>
          rw [hwm] at c; simp only at c
          by_cases cc : w0.olderThan hv
          · rw [if_pos cc] at c; right; simp [c]
          · rw [if_neg cc] at c; left; rw [c]
    · exact Or.inr (List.mem_cons_of_mem _ c)

/-- the watermark is always the argument of some earlier `CancelOlderThan` -/
theorem watermark_from_cancel (ops : List Op) (w : HV) (hw : (run {} ops).watermark = some w) :
    Op.cancelOlderThan w ∈ ops := by
  rcases watermark_from_cancel_aux ops w {} hw with c | c
  · simp at c
  · exact c

/-- `For` is idempotent while the context is live: asking again returns the same context. -/
theorem for_idempotent_while_live (r : Reg) (h : Inv r) (hv : HV) (id : Nat)
    (hlive : (hv, id) ∈ r.live) (hs : r.shutdown = false) : step r (.for_ hv) = (r, .ctx id) := by
  unfold step
  have hst : isStale r hv = false := by
    cases c : isStale r hv with
    | false => rfl
    | true => exact absurd ((isStale_iff r hv).mp c) (h.live_not_stale _ hlive)
  simp [hs, hst, lookup_of_mem h.keys_nodup hlive]

/-- Shutdown is terminal: the flag never resets, every later `For` is refused, every context is done. -/
theorem shutdown_is_terminal (r : Reg) (ops : List Op) (hs : r.shutdown = true) :
    (run r ops).shutdown = true ∧ (∀ hv, (step (run r ops) (.for_ hv)).2 = .errShutdown) ∧
    (∀ id, done (run r ops) id = true) := by
  have key : (run r ops).shutdown = true := by
    induction ops generalizing r with
    | nil => exact hs
    | cons o os ih =>
      unfold run; simp only [List.foldl_cons]; apply ih
      cases o with
      | shutdown => rfl
      | cancelOlderThan hv => rw [cancel_eq]; exact hs
      | for_ hv => unfold step; simp [hs]
  exact ⟨key, fun hv => by unfold step; simp [key], fun id => by unfold done; simp [key]⟩

/-- once done, always done -/
theorem done_monotone (r : Reg) (op : Op) (id : Nat) (hd : done r id = true) : done (step r op).1 id = true := by
  unfold done at *; simp at hd ⊢
  cases op with
  | shutdown => left; rfl
  | cancelOlderThan hv => rw [cancel_eq]; simp; rcases hd with c | c; exact Or.inl c; exact Or.inr (Or.inr c)
  | for_ hv =>
    unfold step
    by_cases hs : r.shutdown
    · simp [hs]
    · by_cases hst : isStale r hv
      · simpa [hs, hst] using hd
      · simp only [hs, hst, Bool.false_eq_true, if_false]
        cases lookup r.live hv <;> simpa [hs] using hd

/-! ## non-vacuity: a concrete history exercising issue, supersede, refuse, survive -/
example :
    let r := run {} [.for_ ⟨1, 0⟩, .for_ ⟨1, 1⟩, .for_ ⟨1, 18446744073709551615⟩, .cancelOlderThan ⟨1, 1⟩]
    (step r (.for_ ⟨1, 0⟩)).2 = .errStale ∧ done r 0 = true ∧ done r 1 = false ∧ done r 2 = false
      ∧ (step r (.for_ ⟨1, 1⟩)).2 = .ctx 1 := by decide

end LeanHelix.C15
