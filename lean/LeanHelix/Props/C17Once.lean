import LeanHelix.Props.C17
/-!
# C17 — no message is delivered twice

For a fixed message id `u`, count its occurrences in the delivery log and among the cached messages
of heights above the node's.  No operation other than receiving a message with id `u` increases that
count (`step_count`), however round starts nest inside deliveries.  Hence, over every sequence of
receive / start-round operations in which the id is received at most once, it is delivered at most
once (`delivered_at_most_once`).
-/
namespace LeanHelix.C17
open LeanHelix.Filter

def cntMsgs (u : Nat) : List FMsg → Nat
  | [] => 0
  | m :: r => (if m.uid = u then 1 else 0) + cntMsgs u r

def cntLog (u : Nat) : List (Nat × FMsg) → Nat
  | [] => 0
  | e :: r => (if e.2.uid = u then 1 else 0) + cntLog u r

/-- occurrences among the cached messages of heights above `sh` -/
def cntCache (u sh : Nat) : List (Nat × List FMsg) → Nat
  | [] => 0
  | p :: r => (if p.1 > sh then cntMsgs u p.2 else 0) + cntCache u sh r

/-- the quantity that never grows except by receiving the id -/
def cnt (u : Nat) (f : Filt) : Nat := cntLog u f.log + cntCache u f.stateHeight f.cache

theorem cntMsgs_append (u : Nat) (a b : List FMsg) : cntMsgs u (a ++ b) = cntMsgs u a + cntMsgs u b := by
  induction a with
  | nil => simp [cntMsgs]
  | cons x xs ih => simp only [List.cons_append, cntMsgs, ih]; omega

theorem cntLog_append (u : Nat) (a b : List (Nat × FMsg)) : cntLog u (a ++ b) = cntLog u a + cntLog u b := by
  induction a with
  | nil => simp [cntLog]
  | cons x xs ih => simp only [List.cons_append, cntLog, ih]; omega

theorem cntCache_append (u sh : Nat) (a b : List (Nat × List FMsg)) :
    cntCache u sh (a ++ b) = cntCache u sh a + cntCache u sh b := by
  induction a with
  | nil => simp [cntCache]
  | cons x xs ih => simp only [List.cons_append, cntCache, ih]; omega

/-- raising the height bound can only lower the count -/
theorem cntCache_mono (u : Nat) (c : List (Nat × List FMsg)) (a b : Nat) (hab : a ≤ b) :
    cntCache u b c ≤ cntCache u a c := by
  induction c with
  | nil => exact Nat.le_refl _
  | cons p r ih =>
    simp only [cntCache]
    by_cases h1 : p.1 > b
    · have h2 : p.1 > a := by omega
      simp only [h1, h2, if_true]; omega
    · simp only [h1, if_false]; omega

theorem cntCache_clearEarlier (u sh h : Nat) (c : List (Nat × List FMsg)) :
    cntCache u sh (clearEarlier c h) ≤ cntCache u sh c := by
  induction c with
  | nil => exact Nat.le_refl _
  | cons p r ih =>
    unfold clearEarlier at ih ⊢
    simp only [List.filter_cons]
    by_cases hk : p.1 < h
    · simp only [hk, decide_true, Bool.not_true, Bool.false_eq_true, if_false, cntCache]; omega
    · simp only [hk, decide_false, Bool.not_false, if_true, cntCache]; omega

theorem cntCache_cacheErase (u sh h : Nat) (c : List (Nat × List FMsg)) :
    cntCache u sh (cacheErase c h) ≤ cntCache u sh c := by
  induction c with
  | nil => exact Nat.le_refl _
  | cons p r ih =>
    unfold cacheErase at ih ⊢
    simp only [List.filter_cons]
    by_cases hk : (p.1 == h) = true
    · simp only [hk, Bool.not_true, Bool.false_eq_true, if_false, cntCache]; omega
    · simp only [hk, Bool.not_false, if_true, cntCache]; omega

/-- starting the round of `h'`: what is drained plus what stays above `h'` was all above the old height -/
theorem cnt_startRound (u sh h' : Nat) (c : List (Nat × List FMsg)) (hlt : sh < h') :
    cntMsgs u (cacheGet (clearEarlier c h') h') + cntCache u h' (clearEarlier c h') ≤ cntCache u sh c := by
  induction c with
  | nil => simp [clearEarlier, cacheGet, cntMsgs, cntCache]
  | cons p r ih =>
    have hrest : cntCache u h' (clearEarlier r h') ≤ cntCache u sh r :=
      Nat.le_trans (cntCache_clearEarlier u h' h' r) (cntCache_mono u r sh h' (Nat.le_of_lt hlt))
    by_cases hk : p.1 < h'
    · -- dropped by clearEarlier
      have e : clearEarlier (p :: r) h' = clearEarlier r h' := by
        unfold clearEarlier; simp [List.filter_cons, hk]
      rw [e]
      simp only [cntCache]; omega
    · have e : clearEarlier (p :: r) h' = p :: clearEarlier r h' := by
        unfold clearEarlier; simp [List.filter_cons, hk]
      rw [e]
      by_cases he : p.1 = h'
      · -- this entry is the one that is drained
        have g : cacheGet (p :: clearEarlier r h') h' = p.2 := by
          have hb : (p.1 == h') = true := by simpa using he
          unfold cacheGet; simp only [List.find?, hb]
        rw [g]
        have h1 : ¬ p.1 > h' := by omega
        have h2 : p.1 > sh := by omega
        simp only [cntCache, h1, h2, if_true, if_false]; omega
      · have g : cacheGet (p :: clearEarlier r h') h' = cacheGet (clearEarlier r h') h' := by
          have hb : (p.1 == h') = false := by simpa using he
          unfold cacheGet; simp only [List.find?, hb]
        rw [g]
        have h1 : p.1 > h' := by omega
        have h2 : p.1 > sh := by omega
        simp only [cntCache, h1, h2, if_true]; omega

/-- the cache is a map: one entry per height -/
def KeysDistinct (c : List (Nat × List FMsg)) : Prop := (c.map (·.1)).Nodup

theorem keysDistinct_filter (c : List (Nat × List FMsg)) (p : Nat × List FMsg → Bool) (h : KeysDistinct c) :
    KeysDistinct (c.filter p) := by
  unfold KeysDistinct at h ⊢
  exact List.Nodup.sublist (List.Sublist.map _ List.filter_sublist) h

private theorem map_noop (h : Nat) (m : FMsg) (r : List (Nat × List FMsg)) (hr : ∀ q ∈ r, q.1 ≠ h) :
    r.map (fun q => if q.1 == h then (q.1, q.2 ++ [m]) else q) = r := by
  induction r with
  | nil => rfl
  | cons q r ih =>
    have hq : (q.1 == h) = false := by simpa using hr q (List.mem_cons_self ..)
    simp only [List.map_cons, hq, Bool.false_eq_true, if_false]
    rw [ih (fun x hx => hr x (List.mem_cons_of_mem _ hx))]

/-- caching one more message adds at most its own occurrence, and keeps the keys distinct -/
theorem cacheAppend_spec (u sh h : Nat) (m : FMsg) (c : List (Nat × List FMsg)) (hd : KeysDistinct c) :
    cntCache u sh (cacheAppend c h m) ≤ cntCache u sh c + (if m.uid = u then 1 else 0)
    ∧ KeysDistinct (cacheAppend c h m) := by
  unfold cacheAppend
  split
  · rename_i hany
    clear hany
    induction c with
    | nil => exact ⟨by simp [cntCache], hd⟩
    | cons p r ih =>
      unfold KeysDistinct at hd
      simp only [List.map_cons, List.nodup_cons] at hd
      by_cases hk : (p.1 == h) = true
      · have hr : ∀ q ∈ r, q.1 ≠ h := by
          intro q hq e
          apply hd.1
          have : p.1 = h := by simpa using hk
          rw [this, ← e]
          exact List.mem_map.mpr ⟨q, hq, rfl⟩
        simp only [List.map_cons, hk, if_true]
        rw [map_noop h m r hr]
        refine ⟨?_, ?_⟩
        · simp only [cntCache, cntMsgs_append, cntMsgs]
          split <;> split <;> omega
        · unfold KeysDistinct
          simp only [List.map_cons, List.nodup_cons]
          exact hd
      · have hk' : (p.1 == h) = false := by simpa using hk
        simp only [List.map_cons, hk', Bool.false_eq_true, if_false]
        obtain ⟨i1, i2⟩ := ih hd.2
        refine ⟨by simp only [cntCache]; omega, ?_⟩
        unfold KeysDistinct at i2 ⊢
        simp only [List.map_cons, List.nodup_cons]
        refine ⟨?_, i2⟩
        intro hmem
        apply hd.1
        obtain ⟨q, hq, e⟩ := List.mem_map.mp hmem
        obtain ⟨q0, hq0, rfl⟩ := List.mem_map.mp hq
        apply List.mem_map.mpr
        refine ⟨q0, hq0, ?_⟩
        rw [← e]
        split <;> rfl
  · rename_i hany
    refine ⟨?_, ?_⟩
    · rw [cntCache_append]
      simp only [cntCache, cntMsgs]
      split <;> split <;> omega
    · unfold KeysDistinct at hd ⊢
      rw [List.map_append, List.nodup_append]
      refine ⟨hd, by simp, ?_⟩
      intro a ha b hb
      simp only [List.map_cons, List.map_nil, List.mem_singleton] at hb
      subst hb
      intro e
      apply hany
      obtain ⟨q, hq, e2⟩ := List.mem_map.mp ha
      rw [List.any_eq_true]
      exact ⟨q, hq, by simp [e2, e]⟩

/-! ## the drain -/

theorem drain_cnt (u : Nat) (fuel : Nat) : ∀ (f : Filt) (height : Nat) (msgs : List FMsg), KeysDistinct f.cache →
    cnt u (drain fuel f height msgs) ≤ cnt u f + cntMsgs u msgs ∧ KeysDistinct (drain fuel f height msgs).cache := by
  induction fuel with
  | zero => intro f height msgs hd; exact ⟨by unfold drain; omega, hd⟩
  | succ fuel ih =>
    intro f height msgs hd
    cases msgs with
    | nil => exact ⟨by unfold drain; omega, hd⟩
    | cons m rest =>
      rw [drain_succ_cons]
      by_cases hne : (f.stateHeight != height) = true
      · simp only [hne, if_true]
        exact ⟨by omega, hd⟩
      · simp only [hne, Bool.false_eq_true, if_false]
        have hm : cntMsgs u (m :: rest) = (if m.uid = u then 1 else 0) + cntMsgs u rest := rfl
        cases hh : f.handler with
        | none =>
          simp only
          obtain ⟨i1, i2⟩ := ih f height rest hd
          exact ⟨by rw [hm]; omega, i2⟩
        | some tc =>
          obtain ⟨t, committed⟩ := tc
          simp only
          -- the delivery itself
          have hlog : cnt u (logDelivery f t m) = cnt u f + (if m.uid = u then 1 else 0) := by
            unfold cnt logDelivery
            simp only [cntLog_append, cntLog]
            omega
          have hdl : KeysDistinct (logDelivery f t m).cache := hd
          by_cases hs : (decide (m.script > 0) && !committed) = true
          · simp only [hs, if_true]
            have hmc : cnt u (markCommitted (logDelivery f t m) t) = cnt u (logDelivery f t m) := rfl
            have hdm : KeysDistinct (markCommitted (logDelivery f t m) t).cache := hd
            by_cases hge : (markCommitted (logDelivery f t m) t).stateHeight ≥ t + m.script
            · simp only [hge, if_true]
              obtain ⟨i1, i2⟩ := ih _ height rest hdm
              exact ⟨by rw [hm]; omega, i2⟩
            · simp only [hge, if_false]
              -- nested round start
              generalize hf2 : markCommitted (logDelivery f t m) t = f2 at hmc hdm hge ⊢
              have hlt : f2.stateHeight < t + m.script := by omega
              have hsr := cnt_startRound u f2.stateHeight (t + m.script) f2.cache hlt
              have hdg : KeysDistinct (startRound f2 (t + m.script)).cache := by
                show KeysDistinct (clearEarlier f2.cache (t + m.script))
                unfold clearEarlier; exact keysDistinct_filter _ _ hdm
              obtain ⟨n1, n2⟩ := ih (startRound f2 (t + m.script)) (t + m.script)
                (cacheGet (startRound f2 (t + m.script)).cache (t + m.script)) hdg
              have hg : cnt u (startRound f2 (t + m.script)) + cntMsgs u (cacheGet (startRound f2 (t + m.script)).cache (t + m.script)) ≤ cnt u f2 := by
                show cntLog u f2.log + cntCache u (t + m.script) (clearEarlier f2.cache (t + m.script))
                  + cntMsgs u (cacheGet (clearEarlier f2.cache (t + m.script)) (t + m.script)) ≤ cntLog u f2.log + cntCache u f2.stateHeight f2.cache
                omega
              generalize drain fuel (startRound f2 (t + m.script)) (t + m.script) (cacheGet (startRound f2 (t + m.script)).cache (t + m.script)) = d at n1 n2 ⊢
              have hfin : cnt u (finishDrain d (t + m.script)) ≤ cnt u d := by
                show cntLog u d.log + cntCache u d.stateHeight (cacheErase d.cache (t + m.script)) ≤ cntLog u d.log + cntCache u d.stateHeight d.cache
                have := cntCache_cacheErase u d.stateHeight (t + m.script) d.cache
                omega
              have hdf : KeysDistinct (finishDrain d (t + m.script)).cache := by
                show KeysDistinct (cacheErase d.cache (t + m.script))
                unfold cacheErase; exact keysDistinct_filter _ _ n2
              obtain ⟨j1, j2⟩ := ih (finishDrain d (t + m.script)) height rest hdf
              exact ⟨by rw [hm]; omega, j2⟩
          · simp only [hs, Bool.false_eq_true, if_false]
            obtain ⟨i1, i2⟩ := ih _ height rest hdl
            exact ⟨by rw [hm]; omega, i2⟩

/-! ## operations and executions -/

/-- what an operation may add to the count of `u` -/
def opAdds (u : Nat) : Op → Nat
  | .recv m => if m.uid = u then 1 else 0
  | .advance _ => 0

theorem step_cnt (u fuel : Nat) (f : Filt) (op : Op) (hd : KeysDistinct f.cache) :
    cnt u (step fuel f op) ≤ cnt u f + opAdds u op ∧ KeysDistinct (step fuel f op).cache := by
  cases op with
  | recv m =>
    show cnt u (recv fuel f m) ≤ cnt u f + (if m.uid = u then 1 else 0) ∧ KeysDistinct (recv fuel f m).cache
    unfold recv
    split
    · exact ⟨by omega, hd⟩
    split
    · exact ⟨by omega, hd⟩
    split
    · exact ⟨by omega, hd⟩
    split
    · -- pushToCache
      unfold pushToCache
      split
      · exact ⟨by omega, hd⟩
      split
      · have hdc : KeysDistinct (clearEarlier f.cache m.height) := by unfold clearEarlier; exact keysDistinct_filter _ _ hd
        obtain ⟨a1, a2⟩ := cacheAppend_spec u f.stateHeight m.height m (clearEarlier f.cache m.height) hdc
        refine ⟨?_, a2⟩
        show cntLog u f.log + cntCache u f.stateHeight (cacheAppend (clearEarlier f.cache m.height) m.height m) ≤ _
        have := cntCache_clearEarlier u f.stateHeight m.height f.cache
        unfold cnt
        omega
      · obtain ⟨a1, a2⟩ := cacheAppend_spec u f.stateHeight m.height m f.cache hd
        refine ⟨?_, a2⟩
        show cntLog u f.log + cntCache u f.stateHeight (cacheAppend f.cache m.height m) ≤ _
        unfold cnt
        omega
    · obtain ⟨i1, i2⟩ := drain_cnt u fuel f m.height [m] hd
      refine ⟨?_, i2⟩
      have : cntMsgs u [m] = (if m.uid = u then 1 else 0) := by simp [cntMsgs]
      omega
  | advance hh =>
    show cnt u (advance fuel f hh) ≤ cnt u f + 0 ∧ KeysDistinct (advance fuel f hh).cache
    unfold advance
    split
    · exact ⟨by omega, hd⟩
    · rename_i hge
      have hlt : f.stateHeight < hh := by omega
      have hsr := cnt_startRound u f.stateHeight hh f.cache hlt
      have hdg : KeysDistinct (startRound f hh).cache := by
        show KeysDistinct (clearEarlier f.cache hh)
        unfold clearEarlier; exact keysDistinct_filter _ _ hd
      obtain ⟨n1, n2⟩ := drain_cnt u fuel (startRound f hh) hh (cacheGet (startRound f hh).cache hh) hdg
      have hg : cnt u (startRound f hh) + cntMsgs u (cacheGet (startRound f hh).cache hh) ≤ cnt u f := by
        show cntLog u f.log + cntCache u hh (clearEarlier f.cache hh) + cntMsgs u (cacheGet (clearEarlier f.cache hh) hh)
          ≤ cntLog u f.log + cntCache u f.stateHeight f.cache
        omega
      dsimp only
      generalize drain fuel (startRound f hh) hh (cacheGet (startRound f hh).cache hh) = d at n1 n2 ⊢
      refine ⟨?_, ?_⟩
      · show cntLog u d.log + cntCache u d.stateHeight (cacheErase d.cache hh) ≤ _
        have := cntCache_cacheErase u d.stateHeight hh d.cache
        unfold cnt at n1 hg ⊢
        omega
      · show KeysDistinct (cacheErase d.cache hh)
        unfold cacheErase; exact keysDistinct_filter _ _ n2

/-- how often the id `u` is received in a sequence of operations -/
def recvCount (u : Nat) : List Op → Nat
  | [] => 0
  | .recv m :: r => (if m.uid = u then 1 else 0) + recvCount u r
  | .advance _ :: r => recvCount u r

theorem run_cnt (u fuel : Nat) (ops : List Op) : ∀ f, KeysDistinct f.cache →
    cnt u (run fuel f ops) ≤ cnt u f + recvCount u ops := by
  induction ops with
  | nil => intro f _; exact Nat.le_refl _
  | cons o os ih =>
    intro f hd
    obtain ⟨s1, s2⟩ := step_cnt u fuel f o hd
    have e : run fuel f (o :: os) = run fuel (step fuel f o) os := rfl
    rw [e]
    have := ih _ s2
    cases o with
    | recv m => simp only [recvCount, opAdds] at *; omega
    | advance h => simp only [recvCount, opAdds] at *; omega

/-- **No message is delivered twice**: over every sequence of receive / start-round operations
(any nesting of round starts inside deliveries), a message id that is received at most once
appears at most once in the delivery log. -/
theorem delivered_at_most_once (fuel me inst : Nat) (ops : List Op) (u : Nat) (h : recvCount u ops ≤ 1) :
    cntLog u (run fuel { me := me, inst := inst } ops).log ≤ 1 := by
  have := run_cnt u fuel ops { me := me, inst := inst } (by unfold KeysDistinct; exact List.nodup_nil)
  unfold cnt at this
  simp only [cntLog, cntCache] at this
  omega

end LeanHelix.C17
