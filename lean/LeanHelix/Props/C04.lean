import LeanHelix.Props.C10
import LeanHelix.Props.C03
/-!
# C04 — External validity: only proposals the consumer validated can be committed

Node-level theorems over the Term model (every state, message, SPI answer):

* `adopted_proposal_is_validated_or_certified`: a node adopts a proposal (stores it and sends
  PREPARE) only if (a) its own consumer's `ValidateBlockProposal` returned nil for exactly that
  (block, hash) in this event — bare PREPREPARE, or NEW_VIEW whose votes carry no proof — or (b) the
  NEW_VIEW's votes carry a prepared proof, the proposal's signed hash is the hash certified by the
  highest-view valid proof among them and the attached block commits to it.
* `committed_block_is_the_stored_proposal`: the block handed to the commit callback is the block of
  the proposal stored for (h, v), whose signed hash is the committed hash; that proposal was signed
  by the leader of v (`stored_proposals_are_from_the_leader`).
* `rejected_everywhere_never_adopted_fresh`: a (block, hash) the consumer rejects is never adopted
  through path (a).

The step from (b) to "some correct member's consumer validated the block" is the quorum argument
of the abstract layer (`Spec/Safety.lean`: a valid prepared certificate contains a correct member
that adopted the same (view, hash); induction on the view): see `C01`/`Spec`.
-/
namespace LeanHelix.C04
open LeanHelix LeanHelix.Msg LeanHelix.Term LeanHelix.C10

/-- the consumer approved (block, hash): the call was made and answered nil with a live context -/
theorem askValidate_true (w : Term.W) (h v : Nat) (b : Option Block) (hash : Nat)
    (hok : (askValidate w h v b hash).2 = true) :
    ∃ cd rest, w.spi = Spi.verdict true cd :: rest
      ∧ Out.callValidate h b hash ∈ (askValidate w h v b hash).1.outs := by
  unfold askValidate at hok ⊢
  dsimp only at hok ⊢
  have hs : (ctxFor w h v).1.spi = w.spi := rfl
  split at hok
  · cases hok
  · split at hok
    · rename_i id _ good cd rest hspi
      simp only [Bool.and_eq_true] at hok
      have hspi' : w.spi = Spi.verdict good cd :: rest := by
        simpa [W.emit, hs] using hspi
      refine ⟨cd, rest, by rw [hspi', hok.1], ?_⟩
      show Out.callValidate h b hash ∈ (cancelMeanwhile _ cd).outs
      rw [cancelMeanwhile_outs]; simp [W.emit]
    · cases hok

/-- **(a) or (b)**: how a proposal can be adopted -/
theorem adopted_proposal_is_validated_or_certified (n : Node) (e : Event) (spi : List Spi) (rs : List Nat) (pm : PMsg)
    (hsend : Out.send rs (.prepare pm) ∈ (step n e spi).2) :
    -- (a) the node's own consumer validated exactly this (block, hash) in this event
    (∃ ppm cd rest, proposalOf e = some ppm ∧ spi = Spi.verdict true cd :: rest
        ∧ Out.callValidate ppm.c.header.height ppm.block ppm.c.header.hash ∈ (step n e spi).2)
    -- (b) or the proposal is the one certified by the highest-view valid proof among the NEW_VIEW's votes
    ∨ (∃ nvm lv, e = .deliver (.newView nvm) ∧ latestVote nvm.header.votes = some lv
        ∧ nvm.pp.header.hash = proofHash lv.header.proof
        ∧ commitmentOk nvm.block nvm.pp.header.hash = true
        ∧ validatePreparedProof n.cfg n.cfg.height nvm.header.view lv.header.proof = true) := by
  have hprop := C07.only_proposals_make_a_node_send_prepare n e spi ⟨_, hsend, rfl⟩
  rcases hprop with ⟨m, rfl⟩ | ⟨m, rfl⟩
  · -- bare PREPREPARE: validation always happens
    left
    have hs : Out.send rs (.prepare pm) ∈ (handlePrePrepare { n := n, spi := spi } m).outs := hsend
    show ∃ ppm cd rest, some m = some ppm ∧ _ ∧ _ ∈ (handlePrePrepare { n := n, spi := spi } m).outs
    unfold handlePrePrepare at hs ⊢
    split at hs
    · cases hs
    · rename_i hval
      rw [if_neg hval]
      split at hs
      · cases hs
      rename_i hlock
      rw [if_neg hlock]
      dsimp only at hs ⊢
      have hap := askValidate_appends' benignOnly_benign ({ n := n, spi := spi } : Term.W) m.c.header.height m.c.header.view m.block m.c.header.hash
      have htrue := askValidate_true ({ n := n, spi := spi } : Term.W) m.c.header.height m.c.header.view m.block m.c.header.hash
      generalize askValidate ({ n := n, spi := spi } : Term.W) m.c.header.height m.c.header.view m.block m.c.header.hash = r at hap htrue hs ⊢
      obtain ⟨w1, ok⟩ := r
      dsimp only at hap htrue hs ⊢
      split at hs
      · exfalso
        obtain ⟨l, el, pl⟩ := hap
        rw [el] at hs; simp at hs
        exact benignOnly_not_send _ (pl _ hs) _ _ rfl
      · rename_i hok
        rw [if_neg hok]
        obtain ⟨cd, rest, hspi, hcall⟩ := htrue (by simpa using hok)
        refine ⟨m, cd, rest, rfl, hspi, ?_⟩
        -- the call stays in the outputs: processPreprepare only appends
        obtain ⟨⟨l2, el2, _⟩, _⟩ := processPreprepare_sends w1 m
        rw [el2]; exact List.mem_append_left _ hcall
  · -- NEW_VIEW
    have hne : handleNewView { n := n, spi := spi } m ≠ { n := n, spi := spi } := by
      intro heq
      have hs : Out.send rs (.prepare pm) ∈ (handleNewView { n := n, spi := spi } m).outs := hsend
      rw [heq] at hs; cases hs
    cases hlv : latestVote m.header.votes with
    | some lv =>
      right
      obtain ⟨_, _, hh, hc, hv⟩ := C07.accepted_newview_reproposes_lock { n := n, spi := spi } m hne lv hlv
      exact ⟨m, lv, rfl, hlv, hh, hc, hv⟩
    | none =>
      left
      have hs : Out.send rs (.prepare pm) ∈ (handleNewView { n := n, spi := spi } m).outs := hsend
      show ∃ ppm cd rest, some (⟨m.pp, m.block⟩ : PPMsg) = some ppm ∧ _ ∧ _ ∈ (handleNewView { n := n, spi := spi } m).outs
      unfold handleNewView at hs ⊢
      dsimp only at hs ⊢
      split at hs; · cases hs
      split at hs; · cases hs
      split at hs; · cases hs
      split at hs; · cases hs
      split at hs; · cases hs
      split at hs; · cases hs
      split at hs; · cases hs
      split at hs; · cases hs
      split at hs; · cases hs
      rename_i g1 g2 g3 g4 g5 g6 g7 g8 g9
      rw [if_neg g1, if_neg g2, if_neg g3, if_neg g4, if_neg g5, if_neg g6, if_neg g7, if_neg g8, if_neg g9]
      unfold adoptNewView at hs ⊢
      dsimp only at hs ⊢
      have hnone : (latestVote m.header.votes).isNone = true := by rw [hlv]; rfl
      simp only [hnone, if_true] at hs ⊢
      have hap := askValidate_appends' benignOnly_benign ({ n := n, spi := spi } : Term.W) m.header.height m.header.view m.block m.pp.header.hash
      have htrue := askValidate_true ({ n := n, spi := spi } : Term.W) m.header.height m.header.view m.block m.pp.header.hash
      generalize askValidate ({ n := n, spi := spi } : Term.W) m.header.height m.header.view m.block m.pp.header.hash = r at hap htrue hs ⊢
      obtain ⟨w1, ok⟩ := r
      dsimp only at hap htrue hs ⊢
      have noprep : ∀ w' : Term.W, Appends BenignOnly { n := n, spi := spi } w' → Out.send rs (.prepare pm) ∉ w'.outs := by
        intro w' ⟨l, el, pl⟩ hc
        rw [el] at hc; simp at hc
        exact benignOnly_not_send _ (pl _ hc) _ _ rfl
      split at hs
      · exact absurd hs (noprep _ hap)
      · rename_i hok
        rw [if_neg hok]
        obtain ⟨cd, rest, hspi, hcall⟩ := htrue (by simpa using hok)
        -- the embedded proposal is for the NEW_VIEW's height: that is what was validated
        have hheight : m.pp.header.height = m.header.height := by simpa using g7
        refine ⟨⟨m.pp, m.block⟩, cd, rest, rfl, hspi, ?_⟩
        show Out.callValidate m.pp.header.height m.block m.pp.header.hash ∈ _
        rw [hheight]
        split at hs
        · exact absurd hs (noprep _ hap)
        · rename_i hv2
          rw [if_neg hv2]
          have hiv := initView_appends' benignOnly_benign { w1 with n := { w1.n with latestNV := m.header.view } } m.header.view
          split at hs
          · exact absurd hs (noprep _ (Appends.trans hap hiv))
          · rename_i hi
            rw [if_neg hi]
            obtain ⟨⟨l2, el2, _⟩, _⟩ := processPreprepare_sends (initView { w1 with n := { w1.n with latestNV := m.header.view } } m.header.view).1 ⟨m.pp, m.block⟩
            obtain ⟨l1, el1, _⟩ := hiv
            rw [el2, el1]
            exact List.mem_append_left _ (List.mem_append_left _ hcall)

/-- **a (block, hash) the consumer rejects is never adopted through a fresh proposal**: with the
verdict `false` a bare PREPREPARE, and a NEW_VIEW whose votes carry no proof, produce no PREPARE -/
theorem rejected_everywhere_never_adopted_fresh (n : Node) (e : Event) (cd : Option Nat) (rest : List Spi)
    (rs : List Nat) (pm : PMsg)
    (hfresh : (∃ m, e = .deliver (.preprepare m)) ∨ (∃ m, e = .deliver (.newView m) ∧ latestVote m.header.votes = none)) :
    Out.send rs (.prepare pm) ∉ (step n e (Spi.verdict false cd :: rest)).2 := by
  intro hsend
  rcases adopted_proposal_is_validated_or_certified n e _ rs pm hsend with ⟨_, _, _, _, hspi, _⟩ | ⟨nvm, lv, he, hlv, _⟩
  · cases hspi
  · rcases hfresh with ⟨m, hm⟩ | ⟨m, hm, hnone⟩
    · rw [hm] at he; cases he
    · rw [hm] at he; injection he with he; injection he with he
      subst he; rw [hnone] at hlv; cases hlv

/-- the block handed to the commit callback is the stored proposal's block, under the committed hash -/
theorem committed_block_is_the_stored_proposal (w : Term.W) (h v hash : Nat) (b : Block) (cs : List CMsg)
    (hin : Out.commit b cs ∈ (checkCommitted w h v hash).outs) (hnot : Out.commit b cs ∉ w.outs) :
    ∃ ppm, w.n.store.getPP h v = some ppm ∧ ppm.block = some b ∧ ppm.c.header.hash = hash :=
  (C03.commit_callback_payload w h v hash b cs hin hnot).2.2

/-- every stored proposal is PREPREPARE-typed and signed (verifying signature) by the leader of its
view, or is the node's own proposal in a view it leads — an invariant over all events -/
def ProposalsOK (n : Node) : Prop :=
  ∀ ppm ∈ n.store.pps, ppm.c.header.mtype = tPP ∧ isLeader n.cfg ppm.c.sender.id ppm.c.header.view = true
    ∧ (ppm.c.sender.ok = true ∨ ppm.c.sender = mySig n.cfg)

theorem storePP_pps (s : Store) (m : PPMsg) : (s.storePP m).pps = s.pps ∨ (s.storePP m).pps = s.pps ++ [m] := by
  unfold Store.storePP; split
  · exact Or.inl rfl
  · exact Or.inr rfl

theorem stored_proposals_are_from_the_leader {a b : Node} (hev : Evolves J a b) (ha : ProposalsOK a) : ProposalsOK b := by
  have gen : ∀ {a b : Node}, Evolves J a b → ProposalsOK a → ProposalsOK b ∧ b.cfg = a.cfg := by
    intro a b h
    induction h with
    | refl n => intro ha; exact ⟨ha, rfl⟩
    | other h => rename_i n n'; intro ha; exact ⟨by unfold ProposalsOK; rw [h.1, h.2]; exact ha, h.1⟩
    | insert op hP =>
      rename_i n
      intro ha
      refine ⟨?_, rfl⟩
      cases op with
      | pp m =>
        intro x hx
        have hx' : x ∈ (n.store.storePP m).pps := hx
        rcases storePP_pps n.store m with e | e
        · rw [e] at hx'; exact ha x hx'
        · rw [e] at hx'; simp at hx'
          rcases hx' with hx' | rfl
          · exact ha x hx'
          · rcases hP with ⟨t, ok, l, _, _⟩ | ⟨sg, t, _, _, _, _, l⟩
            · exact ⟨t, l, Or.inl ok⟩
            · exact ⟨t, by rw [sg]; exact l, Or.inr sg⟩
      | prepare m =>
        intro x hx
        have : ({ n with store := n.store.apply (.prepare m) } : Node).store.pps = n.store.pps := by
          show (n.store.storePrepare m).pps = _; unfold Store.storePrepare; split <;> rfl
        rw [this] at hx; exact ha x hx
      | commit m =>
        intro x hx
        have : ({ n with store := n.store.apply (.commit m) } : Node).store.pps = n.store.pps := by
          show (n.store.storeCommit m).pps = _; unfold Store.storeCommit; split <;> rfl
        rw [this] at hx; exact ha x hx
      | vc m =>
        intro x hx
        have : ({ n with store := n.store.apply (.vc m) } : Node).store.pps = n.store.pps := by
          show (n.store.storeVC m).pps = _; unfold Store.storeVC; split <;> rfl
        rw [this] at hx; exact ha x hx
    | trans _ _ ih1 ih2 =>
      intro ha
      obtain ⟨hb, eb⟩ := ih1 ha
      obtain ⟨hc, ec⟩ := ih2 hb
      exact ⟨hc, by rw [ec, eb]⟩
  exact (gen hev ha).1

end LeanHelix.C04
