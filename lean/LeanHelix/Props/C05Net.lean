import LeanHelix.Props.C05
import LeanHelix.Props.C13Net
import LeanHelix.Props.C11Net
import LeanHelix.Lemmas.TermIndep
import LeanHelix.Props.C05Accept
import LeanHelix.Net.Sent
/-!
# C05 at the network level: one good view decides (composition of the liveness pieces)

`Props/C05.lean` proves the per-node pieces of the liveness argument: a node that accepted the
proposal of view v and is delivered authentic PREPAREs of quorum weight sends its COMMIT
(`good_view_prepares`); delivered authentic COMMITs of quorum weight it commits (`good_view_commits`).
Here they are composed over the network model: from any reachable state in which a set `js` of
correct members of quorum weight has accepted the proposal of view `v` (their PREPAREs are on the
wire), the execution can be continued — delivering only messages that correct members of `js` really
sent, so the extension is an execution of the network model — to a state in which every member of
`js` has invoked its commit callback (`good_view_decides`).  Which deliveries happen is the
scheduler's choice (after stabilisation: all of them, before any timer of view v fires — the timing
side is `C05.catch_up` / `timeout_exceeds_delay`); that they *suffice*, whatever else was delivered
before and whatever the adversary did, is what is proved here.
-/
namespace LeanHelix.C05Net
open LeanHelix LeanHelix.Msg LeanHelix.Term LeanHelix.Spec LeanHelix.Net

variable {C : NetCfg}

/-- one enabled event of a started correct member, with its frame -/
theorem event_step (hwf : WF C) {net : Net} (hr : Reach C net) (i : Nat) (hh : C.honest i = true)
    (hm : ∃ m ∈ C.ms, m.id = i) (hs : net.started i = true) (e : Event) (spi : List Spi)
    (hns : ∀ c, e ≠ .start c) (hg : Gate (C.cfg i) e) (ha : AdmEvent C net.H e) :
    ∃ net', Reach C net' ∧ net'.node i = (step (net.node i) e spi).1
      ∧ net'.outs i = net.outs i ++ (step (net.node i) e spi).2
      ∧ (∀ k, k ≠ i → net'.node k = net.node k ∧ net'.outs k = net.outs k)
      ∧ (∀ k, net'.started k = net.started k)
      ∧ (∀ x ∈ net.H, x ∈ net'.H) := by
  have hinv := reach_inv hwf hr
  obtain ⟨⟨T, hcore, _⟩, _, hvo, hlv, _⟩ := hinv.nodes i hh hm hs
  have hloc : EventLocal (net.node i) e := eventLocal_of_gate _ e (by rw [hcore.cfg]; exact hg) hns
  obtain ⟨w', g, hruns, hst⟩ := step_runs (net.node i) e spi hloc hvo hlv hcore.ginv.leader
  refine ⟨_, .step hr (NStep.event net i e spi w' g hh hm hs hns hg ha hruns hst), ?_, ?_, ?_, ?_, ?_⟩
  · show upd net.node i w'.n i = _
    rw [upd_same, hst]
  · show upd net.outs i (net.outs i ++ w'.outs) i = _
    rw [upd_same, hst]
  · intro k hk
    exact ⟨upd_other _ _ hk, upd_other _ _ hk⟩
  · intro k
    show upd net.started i true k = _
    by_cases hk : k = i
    · subst hk; rw [upd_same, hs]
    · rw [upd_other _ _ hk]
  · intro x hx
    exact List.mem_append_right _ hx

/-- one delivery as a `Term.step` of the node alone (no SPI answers: PREPARE / COMMIT handling asks
the consumer nothing), effects appended -/
def stepW (w : Term.W) (m : Message) : Term.W :=
  { n := (step w.n (.deliver m) []).1, outs := w.outs ++ (step w.n (.deliver m) []).2, spi := [] }

/-- node and effects after a list of deliveries, one `Term.step` each -/
def runW (n : Node) (ms : List Message) : Term.W := ms.foldl stepW { n := n, spi := [] }

theorem foldl_stepW_shift (ms : List Message) : ∀ (w : Term.W),
    (ms.foldl stepW w).n = (runW w.n ms).n ∧ (ms.foldl stepW w).outs = w.outs ++ (runW w.n ms).outs := by
  induction ms with
  | nil => intro w; exact ⟨rfl, by simp [runW]⟩
  | cons m rest ih =>
    intro w
    simp only [List.foldl_cons, runW]
    obtain ⟨a1, a2⟩ := ih (stepW w m)
    obtain ⟨b1, b2⟩ := ih (stepW { n := w.n, spi := [] } m)
    have en : (stepW w m).n = (stepW { n := w.n, spi := [] } m).n := rfl
    refine ⟨by rw [a1, b1, en], ?_⟩
    rw [a2, b2, en]
    show (w.outs ++ _) ++ _ = w.outs ++ (([] ++ _) ++ _)
    simp

/-- **any list of gated, admissible messages can be delivered to a started correct member**: the
result is reachable, the member's node and new effects are those of the fold of `Term.step`, nobody
else changes, nothing stated before is lost -/
theorem deliver_list (hwf : WF C) (j : Nat) (hj : C.honest j = true) (hmj : ∃ m ∈ C.ms, m.id = j) :
    ∀ (ms : List Message) (net : Net), Reach C net → net.started j = true →
      (∀ m ∈ ms, Gate (C.cfg j) (.deliver m)) → (∀ m ∈ ms, AdmMsg C net.H m) →
      ∃ net', Reach C net' ∧ net'.node j = (runW (net.node j) ms).n
        ∧ net'.outs j = net.outs j ++ (runW (net.node j) ms).outs
        ∧ (∀ k, k ≠ j → net'.node k = net.node k ∧ net'.outs k = net.outs k)
        ∧ (∀ k, net'.started k = net.started k)
        ∧ (∀ x ∈ net.H, x ∈ net'.H) := by
  intro ms
  induction ms with
  | nil =>
    intro net hr _ _ _
    exact ⟨net, hr, rfl, by simp [runW], fun _ _ => ⟨rfl, rfl⟩, fun _ => rfl, fun _ h => h⟩
  | cons m rest ih =>
    intro net hr hs hg ha
    obtain ⟨n1, hr1, e1, e2, fr1, st1, h1⟩ := event_step hwf hr j hj hmj hs (.deliver m) []
      (fun _ h => by cases h) (hg m List.mem_cons_self) (ha m List.mem_cons_self)
    obtain ⟨n2, hr2, f1, f2, fr2, st2, h2⟩ := ih n1 hr1 (by rw [st1]; exact hs)
      (fun x hx => hg x (List.mem_cons_of_mem _ hx))
      (fun x hx => AdmEvent.mono (e := .deliver x) h1 (ha x (List.mem_cons_of_mem _ hx)))
    obtain ⟨s1, s2⟩ := foldl_stepW_shift rest (stepW { n := net.node j, spi := [] } m)
    have en : (stepW { n := net.node j, spi := [] } m).n = n1.node j := e1.symm
    refine ⟨n2, hr2, ?_, ?_, ?_, ?_, ?_⟩
    · show _ = (rest.foldl stepW (stepW { n := net.node j, spi := [] } m)).n
      rw [s1, en]; exact f1
    · show _ = _ ++ (rest.foldl stepW (stepW { n := net.node j, spi := [] } m)).outs
      rw [s2, en, f2, e2]
      show _ = net.outs j ++ (([] ++ (step (net.node j) (.deliver m) []).2) ++ _)
      simp
    · intro k hk
      exact ⟨(fr2 k hk).1.trans (fr1 k hk).1, (fr2 k hk).2.trans (fr1 k hk).2⟩
    · intro k; rw [st2, st1]
    · intro x hx; exact h2 x (h1 x hx)

/-! ## the fold-style node theorems of C05, read for `runW` -/

theorem runW_prepares (pms : List PMsg) : ∀ (w w' : Term.W), w'.n = w.n → w'.outs = w.outs →
    ((pms.map Message.prepare).foldl stepW w').n = (pms.foldl handlePrepare w).n
    ∧ ((pms.map Message.prepare).foldl stepW w').outs = (pms.foldl handlePrepare w).outs := by
  induction pms with
  | nil => intro w w' h1 h2; exact ⟨h1, h2⟩
  | cons pm rest ih =>
    intro w w' h1 h2
    simp only [List.map_cons, List.foldl_cons]
    apply ih
    · show (handlePrepare { n := w'.n, spi := [] } pm).n = _
      rw [handlePrepare_fresh w pm, h1]; rfl
    · show w'.outs ++ (handlePrepare { n := w'.n, spi := [] } pm).outs = _
      rw [handlePrepare_outs w pm, h1, h2]; rfl

theorem runW_commits (cms : List CMsg) : ∀ (w w' : Term.W), w'.n = w.n → w'.outs = w.outs →
    ((cms.map Message.commit).foldl stepW w').n = (cms.foldl handleCommit w).n
    ∧ ((cms.map Message.commit).foldl stepW w').outs = (cms.foldl handleCommit w).outs := by
  induction cms with
  | nil => intro w w' h1 h2; exact ⟨h1, h2⟩
  | cons cm rest ih =>
    intro w w' h1 h2
    simp only [List.map_cons, List.foldl_cons]
    apply ih
    · show (handleCommit { n := w'.n, spi := [] } cm).n = _
      rw [handleCommit_fresh w cm, h1]; rfl
    · show w'.outs ++ (handleCommit { n := w'.n, spi := [] } cm).outs = _
      rw [handleCommit_outs w cm, h1, h2]; rfl

/-! ## one member at a time -/

/-- `net'` differs from `net` only at member `j`, whose effects were only extended -/
structure Frame (net net' : Net) (j : Nat) : Prop where
  others : ∀ k, k ≠ j → net'.node k = net.node k ∧ net'.outs k = net.outs k
  started : ∀ k, net'.started k = net.started k
  outs : ∀ o ∈ net.outs j, o ∈ net'.outs j
  hist : ∀ x ∈ net.H, x ∈ net'.H

/-- what has been emitted is never lost -/
def OutsLe (net net' : Net) : Prop := ∀ k, ∀ o ∈ net.outs k, o ∈ net'.outs k

theorem Frame.outsLe {net net' : Net} {j : Nat} (h : Frame net net' j) : OutsLe net net' := by
  intro k o ho
  by_cases hk : k = j
  · subst hk; exact h.outs o ho
  · rw [(h.others k hk).2]; exact ho

/-- **sweep**: if every member of `todo` can take its turn — from any reachable state in which the
side condition (a monotone fact about what has been emitted) and its own precondition hold, reach a
state satisfying its postcondition that differs only at that member — then all turns can be taken
one after the other -/
theorem sweep (Pre Post : Nat → Node → List Out → Prop) (Side : Net → Prop)
    (hside : ∀ net net', Side net → OutsLe net net' → (∀ k, net'.started k = net.started k) → Side net')
    (turn : ∀ (net : Net) (j : Nat), Reach C net → Side net → Pre j (net.node j) (net.outs j) →
      ∃ net', Reach C net' ∧ Post j (net'.node j) (net'.outs j) ∧ Frame net net' j) :
    ∀ (todo : List Nat), todo.Nodup → ∀ (net : Net), Reach C net → Side net →
      (∀ j ∈ todo, Pre j (net.node j) (net.outs j)) →
      ∃ net', Reach C net' ∧ Side net' ∧ (∀ j ∈ todo, Post j (net'.node j) (net'.outs j))
        ∧ (∀ k, k ∉ todo → net'.node k = net.node k ∧ net'.outs k = net.outs k)
        ∧ (∀ k, net'.started k = net.started k) ∧ OutsLe net net' := by
  intro todo
  induction todo with
  | nil =>
    intro _ net hr hs _
    exact ⟨net, hr, hs, (fun _ h => by cases h), (fun _ _ => ⟨rfl, rfl⟩), (fun _ => rfl), (fun _ _ h => h)⟩
  | cons j rest ih =>
    intro hnd net hr hs hpre
    rw [List.nodup_cons] at hnd
    obtain ⟨n1, hr1, hpost, hf⟩ := turn net j hr hs (hpre j List.mem_cons_self)
    have hs1 := hside net n1 hs hf.outsLe hf.started
    obtain ⟨n2, hr2, hs2, hposts, hfr, hst, hle⟩ := ih hnd.2 n1 hr1 hs1 (by
      intro k hk
      have hkj : k ≠ j := by intro e; subst e; exact hnd.1 hk
      rw [(hf.others k hkj).1, (hf.others k hkj).2]
      exact hpre k (List.mem_cons_of_mem _ hk))
    refine ⟨n2, hr2, hs2, ?_, ?_, ?_, ?_⟩
    · intro k hk
      rcases List.mem_cons.mp hk with rfl | hk
      · rw [(hfr k hnd.1).1, (hfr k hnd.1).2]; exact hpost
      · exact hposts k hk
    · intro k hk
      have hkj : k ≠ j := by intro e; subst e; exact hk List.mem_cons_self
      have hkr : k ∉ rest := fun h => hk (List.mem_cons_of_mem _ h)
      exact ⟨(hfr k hkr).1.trans (hf.others k hkj).1, (hfr k hkr).2.trans (hf.others k hkj).2⟩
    · intro k; rw [hst, hf.started]
    · intro k o ho; exact hle k o (hf.outsLe k o ho)

/-! ## the good view -/

/-- the leader of view `v` (the same at every member: only the committee is read) -/
def ldr (C : NetCfg) (v : Nat) : Nat := leaderId (C.cfg 0) v

/-- member `j` holds the proposal of view `v` — hash `hash`, block `b`, signed by the leader — and its term context is live -/
structure Holds (C : NetCfg) (v hash : Nat) (b : Block) (j : Nat) (n : Node) : Prop where
  cfg : n.cfg = C.cfg j
  pp : ∃ ppm, n.store.getPP C.height v = some ppm ∧ ppm.block = some b ∧ ppm.c.header.hash = hash ∧ ppm.c.sender.id = ldr C v
  live : C05.Live n.reg C.height

/-- the member's own COMMIT for the proposal is logged and was sent -/
def CommitSentAt (C : NetCfg) (v hash : Nat) (j : Nat) (n : Node) (outs : List Out) : Prop :=
  C03.ckey (ownCommit (C.cfg j) C.height v hash) ∈ n.store.commits.map C03.ckey
  ∧ ∃ rs, Out.send rs (.commit (ownCommit (C.cfg j) C.height v hash)) ∈ outs

theorem holds_prepares (v hash : Nat) (b : Block) (j : Nat) (pms : List PMsg) : ∀ (w : Term.W),
    Holds C v hash b j w.n → Holds C v hash b j (pms.foldl handlePrepare w).n := by
  induction pms with
  | nil => intro w h; exact h
  | cons pm rest ih =>
    intro w h
    simp only [List.foldl_cons]
    apply ih
    have hev := handlePrepare_ev w pm
    obtain ⟨ppm, hg, r⟩ := h.pp
    exact ⟨by rw [hev.cfg]; exact h.cfg, ⟨ppm, hev.getPP_stable _ _ _ hg, r⟩, C05.Live.of_same (C05.handlePrepare_same w pm) h.live⟩

theorem holds_commits (v hash : Nat) (b : Block) (j : Nat) (cms : List CMsg) : ∀ (w : Term.W),
    Holds C v hash b j w.n → Holds C v hash b j (cms.foldl handleCommit w).n := by
  induction cms with
  | nil => intro w h; exact h
  | cons cm rest ih =>
    intro w h
    simp only [List.foldl_cons]
    apply ih
    have hev := handleCommit_ev w cm
    obtain ⟨ppm, hg, r⟩ := h.pp
    exact ⟨by rw [hev.cfg]; exact h.cfg, ⟨ppm, hev.getPP_stable _ _ _ hg, r⟩, C05.Live.of_same (C05.handleCommit_same w cm) h.live⟩

/-- delivering to `j` a list of messages that correct members have sent: `deliver_list` with the W-fold of the handlers read back -/
theorem deliver_prepares (hwf : WF C) {net : Net} (hr : Reach C net) (j : Nat) (hj : C.honest j = true) (hmj : ∃ m ∈ C.ms, m.id = j)
    (hs : net.started j = true) (pms : List PMsg)
    (hg : ∀ pm ∈ pms, Gate (C.cfg j) (.deliver (.prepare pm))) (ha : ∀ pm ∈ pms, AdmMsg C net.H (.prepare pm)) :
    ∃ net', Reach C net' ∧ Frame net net' j
      ∧ net'.node j = (pms.foldl handlePrepare { n := net.node j, outs := net.outs j, spi := [] }).n
      ∧ net'.outs j = (pms.foldl handlePrepare { n := net.node j, outs := net.outs j, spi := [] }).outs := by
  obtain ⟨net', hr', e1, e2, fr, st, hh⟩ := deliver_list hwf j hj hmj (pms.map Message.prepare) net hr hs
    (by intro m hm; obtain ⟨pm, hpm, rfl⟩ := List.mem_map.mp hm; exact hg pm hpm)
    (by intro m hm; obtain ⟨pm, hpm, rfl⟩ := List.mem_map.mp hm; exact ha pm hpm)
  obtain ⟨s1, s2⟩ := foldl_stepW_shift (pms.map Message.prepare) { n := net.node j, outs := net.outs j, spi := [] }
  obtain ⟨t1, t2⟩ := runW_prepares pms { n := net.node j, outs := net.outs j, spi := [] } { n := net.node j, outs := net.outs j, spi := [] } rfl rfl
  refine ⟨net', hr', ⟨fr, st, ?_, hh⟩, ?_, ?_⟩
  · intro o ho; rw [e2]; exact List.mem_append_left _ ho
  · rw [e1, ← t1, s1]
  · rw [e2, ← t2, s2]

theorem deliver_commits (hwf : WF C) {net : Net} (hr : Reach C net) (j : Nat) (hj : C.honest j = true) (hmj : ∃ m ∈ C.ms, m.id = j)
    (hs : net.started j = true) (cms : List CMsg)
    (hg : ∀ cm ∈ cms, Gate (C.cfg j) (.deliver (.commit cm))) (ha : ∀ cm ∈ cms, AdmMsg C net.H (.commit cm)) :
    ∃ net', Reach C net' ∧ Frame net net' j
      ∧ net'.node j = (cms.foldl handleCommit { n := net.node j, outs := net.outs j, spi := [] }).n
      ∧ net'.outs j = (cms.foldl handleCommit { n := net.node j, outs := net.outs j, spi := [] }).outs := by
  obtain ⟨net', hr', e1, e2, fr, st, hh⟩ := deliver_list hwf j hj hmj (cms.map Message.commit) net hr hs
    (by intro m hm; obtain ⟨cm, hcm, rfl⟩ := List.mem_map.mp hm; exact hg cm hcm)
    (by intro m hm; obtain ⟨cm, hcm, rfl⟩ := List.mem_map.mp hm; exact ha cm hcm)
  obtain ⟨s1, s2⟩ := foldl_stepW_shift (cms.map Message.commit) { n := net.node j, outs := net.outs j, spi := [] }
  obtain ⟨t1, t2⟩ := runW_commits cms { n := net.node j, outs := net.outs j, spi := [] } { n := net.node j, outs := net.outs j, spi := [] } rfl rfl
  refine ⟨net', hr', ⟨fr, st, ?_, hh⟩, ?_, ?_⟩
  · intro o ho; rw [e2]; exact List.mem_append_left _ ho
  · rw [e1, ← t1, s1]
  · rw [e2, ← t2, s2]

/-- the members of the good view: `R` are the correct non-leaders that accepted the proposal, together
with the correct leader they reach quorum weight -/
structure Crew (C : NetCfg) (v : Nat) (R : List Nat) : Prop where
  nodup : R.Nodup
  notLeader : ldr C v ∉ R
  nonempty : R ≠ []
  good : ∀ k ∈ R ++ [ldr C v], C.honest k = true ∧ ∃ m ∈ C.ms, m.id = k
  quorum : isQuorum (C.cfg 0) (R ++ [ldr C v]) = true

/-- delivering once more a COMMIT of a logged quorum makes a node that somehow has not committed commit -/
theorem all_logged_commit (ids : List Nat) (h v hash : Nat) (ppm : PPMsg) (b : Block) (c : Cfg) (hfit : C06.Fits c.members)
    (hq : isQuorum c ids = true) (hb : ppm.block = some b) (hh : ppm.c.header.hash = hash)
    (w : Term.W) (hcfg : w.n.cfg = c) (hpp : w.n.store.getPP h v = some ppm) (hlive : C05.Live w.n.reg h)
    (hall : ∀ id ∈ ids, (h, v, hash, id) ∈ w.n.store.commits.map C03.ckey) (hnc : w.n.committed = none)
    (cm : CMsg) (hca : C08.CommitAuthentic w.n cm) (hk : cm.header.height = h ∧ cm.header.view = v ∧ cm.header.hash = hash) :
    (handleCommit w cm).n.committed.isSome = true := by
  obtain ⟨a0, a1, a2, a3⟩ := hca
  have hunf : handleCommit w cm = checkCommitted { w with n := { w.n with store := w.n.store.storeCommit cm } } cm.header.height cm.header.view cm.header.hash := by
    unfold handleCommit
    dsimp only
    rw [if_neg (by simp [a0]), if_neg (by simp [a1]), if_neg (by simp [a2]), if_neg (by simp [a3])]
  rw [hunf, hk.1, hk.2.1, hk.2.2]
  have hq' : isQuorum ({ w with n := { w.n with store := w.n.store.storeCommit cm } } : Term.W).n.cfg
      ((({ w with n := { w.n with store := w.n.store.storeCommit cm } } : Term.W).n.store.getCommits h v hash).map (·.sender.id)) = true := by
    show isQuorum w.n.cfg (((w.n.store.storeCommit cm).getCommits h v hash).map (·.sender.id)) = true
    rw [hcfg]
    apply C06.isQuorum_mono c.members hfit ids _ _ hq
    intro i hi
    apply C05.mem_getCommits_ids
    obtain ⟨x, hx, hxk⟩ := List.mem_map.mp (hall i hi)
    exact List.mem_map.mpr ⟨x, C05.apply_commits_sub w.n.store (.commit cm) x hx, hxk⟩
  have hppS : ({ w with n := { w.n with store := w.n.store.storeCommit cm } } : Term.W).n.store.getPP h v = some ppm :=
    apply_getPP_stable w.n.store (.commit cm) h v ppm hpp
  have hctx := C05.ctxFor_live ({ w with n := { w.n with store := w.n.store.storeCommit cm } } : Term.W) h hlive
  have := (C05.commits_when_quorum ({ w with n := { w.n with store := w.n.store.storeCommit cm } } : Term.W) h v hash ppm b hnc hppS hb hh hq' hctx).1
  rw [this]; rfl

/-- delivering once more a PREPARE of a logged quorum makes a node that somehow is not prepared become prepared and send its COMMIT -/
theorem all_logged_prepare (R : List Nat) (h v hash : Nat) (ppm : PPMsg) (c : Cfg) (hfit : C06.Fits c.members)
    (hq : isQuorum c (R ++ [ppm.c.sender.id]) = true) (hbk : ppm.block.isSome = true) (hh : ppm.c.header.hash = hash)
    (w : Term.W) (hcfg : w.n.cfg = c) (hpp : w.n.store.getPP h v = some ppm)
    (hall : ∀ id ∈ R, (h, v, hash, id) ∈ w.n.store.prepares.map C11.pkey) (hnp : w.n.prepared ≠ some v)
    (pm : PMsg) (hpa : C08.PrepareAuthentic w.n pm) (hk : pm.header.height = h ∧ pm.header.view = v ∧ pm.header.hash = hash) :
    C05.CommitSent c h v hash (handlePrepare w pm) := by
  obtain ⟨a1, a2, a3, a4, a5⟩ := hpa
  have hunf : handlePrepare w pm = checkPreparedLocally { w with n := { w.n with store := w.n.store.storePrepare pm } } h v hash := by
    unfold handlePrepare
    dsimp only
    rw [if_neg (by simp [a1]), if_neg (by simp [a2]), if_neg (by simp [a3]), if_neg a4, if_neg (by simp [a5]), hk.1, hk.2.1, hk.2.2]
  have hppS : ({ w with n := { w.n with store := w.n.store.storePrepare pm } } : Term.W).n.store.getPP h v = some ppm :=
    apply_getPP_stable w.n.store (.prepare pm) h v ppm hpp
  have hpre : isPreprepared ({ w with n := { w.n with store := w.n.store.storePrepare pm } } : Term.W).n h v hash = true := by
    unfold isPreprepared; rw [hppS]; simp [hbk, hh]
  have hqq : isQuorum ({ w with n := { w.n with store := w.n.store.storePrepare pm } } : Term.W).n.cfg
      ((({ w with n := { w.n with store := w.n.store.storePrepare pm } } : Term.W).n.store.getPrepares h v hash).map (·.sender.id) ++ [ppm.c.sender.id]) = true := by
    show isQuorum w.n.cfg (((w.n.store.storePrepare pm).getPrepares h v hash).map (·.sender.id) ++ [ppm.c.sender.id]) = true
    rw [hcfg]
    apply C06.isQuorum_mono c.members hfit (R ++ [ppm.c.sender.id]) _ _ hq
    intro i hi
    rcases List.mem_append.mp hi with hi | hi
    · apply List.mem_append_left
      apply C05.mem_getPrepares_ids
      obtain ⟨x, hx, hxk⟩ := List.mem_map.mp (hall i hi)
      exact List.mem_map.mpr ⟨x, C05.apply_prepares_sub w.n.store (.prepare pm) x hx, hxk⟩
    · exact List.mem_append_right _ hi
  have hcond : PreparedCond ({ w with n := { w.n with store := w.n.store.storePrepare pm } } : Term.W).n h v hash :=
    ⟨hnp, hpre, ppm, hppS, hqq⟩
  rw [hunf, C05.checkPreparedLocally_of_cond _ _ _ _ hcond]
  obtain ⟨_, e2, e3⟩ := C05.onPreparedLocally_effects ({ w with n := { w.n with store := w.n.store.storePrepare pm } } : Term.W) h v hash
  have hc1 : ({ w with n := { w.n with store := w.n.store.storePrepare pm } } : Term.W).n.cfg = c := hcfg
  rw [hc1] at e2 e3
  exact ⟨e3, e2⟩

theorem committed_fold (cms : List CMsg) : ∀ (w : Term.W), w.n.committed.isSome = true →
    (cms.foldl handleCommit w).n.committed.isSome = true := by
  induction cms with
  | nil => intro w h; exact h
  | cons cm rest ih => intro w h; exact ih _ (C05.committed_stays w cm h)

theorem gate_prepare (j k : Nat) (hkj : k ≠ j) (v hash : Nat) :
    Gate (C.cfg j) (.deliver (.prepare (ownPrepare (C.cfg k) C.height v hash))) := ⟨rfl, rfl, hkj, trivial⟩

theorem gate_commit (j k : Nat) (hkj : k ≠ j) (v hash : Nat) :
    Gate (C.cfg j) (.deliver (.commit (ownCommit (C.cfg k) C.height v hash))) := ⟨rfl, rfl, hkj, trivial⟩

/-- before the PREPARE phase: the member holds the proposal in view `v`, its own PREPARE is logged
(non-leaders) -/
def Pre1 (C : NetCfg) (v hash : Nat) (b : Block) (R : List Nat) (j : Nat) (n : Node) (outs : List Out) : Prop :=
  j ∈ R ++ [ldr C v] ∧ Holds C v hash b j n ∧ n.view = v
  ∧ (j ≠ ldr C v → (C.height, v, hash, j) ∈ n.store.prepares.map C11.pkey)
  -- a follower's position right after it accepted the proposal (`C05.accepted_state`): its COMMIT is out,
  -- or it is prepared, or the PREPARE of some crew member is still missing from its log
  ∧ (j ≠ ldr C v → CommitSentAt C v hash j n outs ∨ n.prepared = some v
      ∨ ∃ id ∈ R, (C.height, v, hash, id) ∉ n.store.prepares.map C11.pkey)

def Post1 (C : NetCfg) (v hash : Nat) (b : Block) (R : List Nat) (j : Nat) (n : Node) (outs : List Out) : Prop :=
  j ∈ R ++ [ldr C v] ∧ Holds C v hash b j n ∧ CommitSentAt C v hash j n outs

def Side1 (C : NetCfg) (v hash : Nat) (R : List Nat) (net : Net) : Prop :=
  (∀ k ∈ R ++ [ldr C v], net.started k = true)
  ∧ (∀ k ∈ R, Out.send (others (C.cfg k)) (.prepare (ownPrepare (C.cfg k) C.height v hash)) ∈ net.outs k)

def Side2 (C : NetCfg) (v hash : Nat) (R : List Nat) (net : Net) : Prop :=
  (∀ k ∈ R ++ [ldr C v], net.started k = true)
  ∧ (∀ k ∈ R ++ [ldr C v], ∃ rs, Out.send rs (.commit (ownCommit (C.cfg k) C.height v hash)) ∈ net.outs k)

section phases
variable (hwf : WF C) (v hash : Nat) (b : Block) (R : List Nat) (crew : Crew C v R)

include hwf crew in
theorem turn1 (net : Net) (j : Nat) (hr : Reach C net) (hside : Side1 C v hash R net) (hpre : Pre1 C v hash b R j (net.node j) (net.outs j)) :
    ∃ net', Reach C net' ∧ Post1 C v hash b R j (net'.node j) (net'.outs j) ∧ Frame net net' j := by
  obtain ⟨hjm, hholds, hview, hown, hsettled⟩ := hpre
  obtain ⟨hhj, hmj⟩ := crew.good j hjm
  obtain ⟨ppm, hg, hb, hh, hsender⟩ := hholds.pp
  -- its COMMIT is out already
  by_cases hcsent : CommitSentAt C v hash j (net.node j) (net.outs j)
  · exact ⟨net, hr, ⟨hjm, hholds, hcsent⟩, ⟨fun _ _ => ⟨rfl, rfl⟩, fun _ => rfl, fun _ h => h, fun _ h => h⟩⟩
  -- already prepared in view v: its COMMIT is logged and sent (`reach_sent`)
  by_cases hprep : (net.node j).prepared = some v
  · obtain ⟨p0, hg0, hk0, rs, hs0⟩ := (reach_sent hr j).prepared v hprep
    rw [hholds.cfg] at hg0 hk0 hs0
    have : p0 = ppm := by
      have e : (net.node j).store.getPP C.height v = some p0 := hg0
      rw [hg] at e; exact (Option.some.inj e).symm
    subst this
    rw [hh] at hk0 hs0
    exact ⟨net, hr, ⟨hjm, hholds, hk0, rs, hs0⟩, ⟨fun _ _ => ⟨rfl, rfl⟩, fun _ => rfl, fun _ h => h, fun _ h => h⟩⟩
  let pms := (R.filter (fun k => k != j)).map (fun k => ownPrepare (C.cfg k) C.height v hash)
  have hmem : ∀ pm ∈ pms, ∃ k ∈ R, k ≠ j ∧ pm = ownPrepare (C.cfg k) C.height v hash := by
    intro pm hpm
    obtain ⟨k, hk, rfl⟩ := List.mem_map.mp hpm
    rw [List.mem_filter] at hk
    exact ⟨k, hk.1, by simpa using hk.2, rfl⟩
  obtain ⟨net', hr', hf, en, eo⟩ := deliver_prepares hwf hr j hhj hmj (hside.1 j hjm) pms
    (by intro pm hpm; obtain ⟨k, _, hkj, rfl⟩ := hmem pm hpm; exact gate_prepare j k hkj v hash)
    (by
      intro pm hpm
      obtain ⟨k, hk, _, rfl⟩ := hmem pm hpm
      obtain ⟨hhk, hmk⟩ := crew.good k (List.mem_append_left _ hk)
      exact C01Net.sent_admissible hwf hr hhk hmk (hside.2 k hk))
  have hfit : C06.Fits (C.cfg j).members := hwf.fit
  have hq : isQuorum (C.cfg j) (R ++ [ppm.c.sender.id]) = true := by rw [hsender]; exact crew.quorum
  have hauth : ∀ id ∈ R, C08.PrepareAuthentic (net.node j) (ownPrepare (C.cfg id) C.height v hash) := by
    intro id hid
    obtain ⟨_, hmid⟩ := crew.good id (List.mem_append_left _ hid)
    refine C11.own_prepare_is_authentic_for_peers { cfg := C.cfg id } (net.node j) C.height v hash
      (by rw [hholds.cfg]; rfl) (isMember_of_mem C id hmid) ?_ (by show (net.node j).view ≤ v; omega)
    show (leaderId (C.cfg id) v == id) = false
    have : leaderId (C.cfg id) v = ldr C v := rfl
    rw [this]
    simp only [beq_eq_false_iff_ne, ne_eq]
    intro e; rw [← e] at hid; exact crew.notLeader hid
  have hR : ∀ (n' : Node), (∀ k, k ∈ (net.node j).store.prepares.map C11.pkey → k ∈ n'.store.prepares.map C11.pkey) →
      (∀ x, C08.PrepareAuthentic (net.node j) x → C08.PrepareAuthentic n' x) → ∀ (l : List PMsg), (∀ x ∈ pms, x ∈ l ∨ C11.pkey x ∈ n'.store.prepares.map C11.pkey) →
      ∀ id ∈ R, (C.height, v, hash, id) ∈ n'.store.prepares.map C11.pkey ∨
        ∃ pm ∈ l, C08.PrepareAuthentic n' pm ∧ C11.pkey pm = (C.height, v, hash, id) := by
    intro n' hkeys hau l hl id hid
    by_cases hij : id = j
    · subst hij
      exact Or.inl (hkeys _ (hown (by intro e; rw [e] at hid; exact crew.notLeader hid)))
    · have hin : ownPrepare (C.cfg id) C.height v hash ∈ pms :=
        List.mem_map.mpr ⟨id, List.mem_filter.mpr ⟨hid, by simpa using hij⟩, rfl⟩
      rcases hl _ hin with h1 | h1
      · exact Or.inr ⟨_, h1, hau _ (hauth id hid), rfl⟩
      · exact Or.inl h1
  have key : C05.CommitSent (C.cfg j) C.height v hash (pms.foldl handlePrepare { n := net.node j, outs := net.outs j, spi := [] }) := by
    by_cases hmiss : ∃ id ∈ R, (C.height, v, hash, id) ∉ (net.node j).store.prepares.map C11.pkey
    · exact C05.good_view_prepares pms C.height v hash ppm R (C.cfg j) hfit hq (by rw [hb]; rfl) hh
        (by intro pm hpm; obtain ⟨k, _, _, rfl⟩ := hmem pm hpm; rfl)
        { n := net.node j, outs := net.outs j, spi := [] } hholds.cfg hview hg
        (hR (net.node j) (fun _ h => h) (fun _ h => h) pms (fun x hx => Or.inl hx))
        (Or.inr ⟨hprep, hmiss⟩)
    · -- every PREPARE of `R` is logged already: the first redelivery makes the node prepared
      have hall : ∀ id ∈ R, (C.height, v, hash, id) ∈ (net.node j).store.prepares.map C11.pkey := by
        intro id hid
        by_cases hk : (C.height, v, hash, id) ∈ (net.node j).store.prepares.map C11.pkey
        · exact hk
        · exact absurd ⟨id, hid, hk⟩ hmiss
      -- there is a member of `R` other than `j`
      obtain ⟨k, hk, hkj⟩ : ∃ k ∈ R, k ≠ j := by
        by_cases hjR : j ∈ R
        · -- a follower with every PREPARE of the crew logged is prepared (or has committed): `Pre1`
          exfalso
          rcases hsettled (fun e => crew.notLeader (e ▸ hjR)) with hcs | hp | ⟨id, hid, hmissing⟩
          · exact hcsent hcs
          · exact hprep hp
          · exact hmissing (hall id hid)
        · obtain ⟨r0, hr0⟩ := List.exists_mem_of_ne_nil R crew.nonempty
          exact ⟨r0, hr0, fun e => hjR (e ▸ hr0)⟩
      have hne : pms ≠ [] := by
        intro e
        have : ownPrepare (C.cfg k) C.height v hash ∈ pms :=
          List.mem_map.mpr ⟨k, List.mem_filter.mpr ⟨hk, by simpa using hkj⟩, rfl⟩
        rw [e] at this; cases this
      cases hc : pms with
      | nil => exact absurd hc hne
      | cons pm rest =>
        obtain ⟨k', hk', _, hpmk⟩ := hmem pm (by rw [hc]; exact List.mem_cons_self ..)
        simp only [List.foldl_cons]
        have hfirst := all_logged_prepare R C.height v hash ppm (C.cfg j) hfit hq (by rw [hb]; rfl) hh
          { n := net.node j, outs := net.outs j, spi := [] } hholds.cfg hg hall hprep pm
          (by rw [hpmk]; exact hauth k' hk') (by rw [hpmk]; exact ⟨rfl, rfl, rfl⟩)
        have hev := handlePrepare_ev { n := net.node j, outs := net.outs j, spi := [] } pm
        exact C05.good_view_prepares rest C.height v hash ppm R (C.cfg j) hfit hq (by rw [hb]; rfl) hh
          (by intro x hx; obtain ⟨k2, _, _, rfl⟩ := hmem x (by rw [hc]; exact List.mem_cons_of_mem _ hx); rfl)
          _ (by rw [hev.cfg]; exact hholds.cfg) (by rw [C05.handlePrepare_view]; exact hview) (hev.getPP_stable _ _ _ hg)
          (by
            intro id hid
            left
            obtain ⟨x, hx, hxk⟩ := List.mem_map.mp (hall id hid)
            exact List.mem_map.mpr ⟨x, C05.evolves_prepares_sub hev x hx, hxk⟩)
          (Or.inl hfirst)
  refine ⟨net', hr', ⟨hjm, ?_, ?_⟩, hf⟩
  · rw [en]; exact holds_prepares v hash b j pms _ hholds
  · unfold CommitSentAt; rw [en, eo]; exact ⟨key.1, _, key.2⟩

include hwf crew in
theorem turn2 (net : Net) (j : Nat) (hr : Reach C net) (hside : Side2 C v hash R net) (hpre : Post1 C v hash b R j (net.node j) (net.outs j)) :
    ∃ net', Reach C net' ∧ (net'.node j).committed.isSome = true ∧ Frame net net' j := by
  obtain ⟨hjm, hholds, hsent⟩ := hpre
  obtain ⟨hhj, hmj⟩ := crew.good j hjm
  let js := R ++ [ldr C v]
  let cms := (js.filter (fun k => k != j)).map (fun k => ownCommit (C.cfg k) C.height v hash)
  have hmem : ∀ cm ∈ cms, ∃ k ∈ js, k ≠ j ∧ cm = ownCommit (C.cfg k) C.height v hash := by
    intro cm hcm
    obtain ⟨k, hk, rfl⟩ := List.mem_map.mp hcm
    rw [List.mem_filter] at hk
    exact ⟨k, hk.1, by simpa using hk.2, rfl⟩
  obtain ⟨net', hr', hf, en, _⟩ := deliver_commits hwf hr j hhj hmj (hside.1 j hjm) cms
    (by intro cm hcm; obtain ⟨k, _, hkj, rfl⟩ := hmem cm hcm; exact gate_commit j k hkj v hash)
    (by
      intro cm hcm
      obtain ⟨k, hk, _, rfl⟩ := hmem cm hcm
      obtain ⟨hhk, hmk⟩ := crew.good k hk
      obtain ⟨rs, hs⟩ := hside.2 k hk
      exact C01Net.sent_admissible hwf hr hhk hmk hs)
  refine ⟨net', hr', ?_, hf⟩
  rw [en]
  obtain ⟨ppm, hg, hb, hh, _⟩ := hholds.pp
  have hfit : C06.Fits (C.cfg j).members := hwf.fit
  have hq : isQuorum (C.cfg j) js = true := crew.quorum
  have hauth : ∀ k ∈ js, C08.CommitAuthentic (net.node j) (ownCommit (C.cfg k) C.height v hash) := by
    intro k hk
    obtain ⟨_, hmk⟩ := crew.good k hk
    exact C11.own_commit_is_authentic_for_peers { cfg := C.cfg k } (net.node j) C.height v hash (by rw [hholds.cfg]; rfl) (isMember_of_mem C k hmk)
  have hR : ∀ id ∈ js, (C.height, v, hash, id) ∈ (net.node j).store.commits.map C03.ckey ∨
      ∃ cm ∈ cms, C08.CommitAuthentic (net.node j) cm ∧ C03.ckey cm = (C.height, v, hash, id) := by
    intro id hid
    by_cases hij : id = j
    · subst hij; exact Or.inl hsent.1
    · exact Or.inr ⟨_, List.mem_map.mpr ⟨id, List.mem_filter.mpr ⟨hid, by simpa using hij⟩, rfl⟩, hauth id hid, rfl⟩
  cases hcm : (net.node j).committed with
  | some x => exact committed_fold cms _ (by show (net.node j).committed.isSome = true; rw [hcm]; rfl)
  | none =>
    by_cases hmiss : ∃ id ∈ js, (C.height, v, hash, id) ∉ (net.node j).store.commits.map C03.ckey
    · exact C05.good_view_commits cms C.height v hash ppm b js (C.cfg j) hfit hq hb hh
        { n := net.node j, outs := net.outs j, spi := [] } hholds.cfg hg hholds.live hR (Or.inr ⟨hcm, hmiss⟩)
    · -- every COMMIT of the crew is logged already: the first redelivery completes the commit
      have hall : ∀ id ∈ js, (C.height, v, hash, id) ∈ (net.node j).store.commits.map C03.ckey := by
        intro id hid
        by_cases hk : (C.height, v, hash, id) ∈ (net.node j).store.commits.map C03.ckey
        · exact hk
        · exact absurd ⟨id, hid, hk⟩ hmiss
      -- there is another member in the crew
      obtain ⟨k, hk, hkj⟩ : ∃ k ∈ js, k ≠ j := by
        obtain ⟨r0, hr0⟩ := List.exists_mem_of_ne_nil R crew.nonempty
        by_cases e : r0 = j
        · refine ⟨ldr C v, List.mem_append_right _ (List.mem_singleton.mpr rfl), ?_⟩
          intro e2; rw [e, ← e2] at hr0; exact crew.notLeader hr0
        · exact ⟨r0, List.mem_append_left _ hr0, e⟩
      have hne : cms ≠ [] := by
        intro e
        have : ownCommit (C.cfg k) C.height v hash ∈ cms :=
          List.mem_map.mpr ⟨k, List.mem_filter.mpr ⟨hk, by simpa using hkj⟩, rfl⟩
        rw [e] at this; cases this
      cases hc : cms with
      | nil => exact absurd hc hne
      | cons cm rest =>
        obtain ⟨k', hk', _, hcmk⟩ := hmem cm (by rw [hc]; exact List.mem_cons_self ..)
        simp only [List.foldl_cons]
        apply committed_fold
        exact all_logged_commit js C.height v hash ppm b (C.cfg j) hfit hq hb hh
          { n := net.node j, outs := net.outs j, spi := [] } hholds.cfg hg hholds.live hall hcm cm
          (by rw [hcmk]; exact hauth k' hk') (by rw [hcmk]; exact ⟨rfl, rfl, rfl⟩)

include hwf crew in
/-- **One good view decides.**  From any reachable state of the network in which a correct leader's
proposal of view `v` has been accepted by correct members `R` that together with the leader hold
quorum weight (`Pre1`: they are in view `v`, hold the proposal with its block, have logged and sent
their PREPAREs, and have not yet seen all PREPAREs of the others), the execution can be continued by
deliveries of messages these members really sent — first their PREPAREs, then their COMMITs — to a
reachable state in which every one of them has invoked its commit callback. Whatever was delivered
before, whatever the Byzantine members did, whatever else is logged. -/
theorem good_view_decides {net : Net} (hr : Reach C net) (hside : Side1 C v hash R net)
    (hpre : ∀ j ∈ R ++ [ldr C v], Pre1 C v hash b R j (net.node j) (net.outs j)) :
    ∃ net', Reach C net' ∧ OutsLe net net'
      ∧ ∀ j ∈ R ++ [ldr C v], ∃ blk cs, Out.commit blk cs ∈ net'.outs j := by
  have hnd : (R ++ [ldr C v]).Nodup := by
    rw [List.nodup_append]
    refine ⟨crew.nodup, by simp, ?_⟩
    intro a ha c hc
    rw [List.mem_singleton] at hc
    intro e; rw [e, hc] at ha; exact crew.notLeader ha
  -- PREPARE phase
  obtain ⟨n1, hr1, hs1, hpost1, _, hst1, hle1⟩ := sweep (C := C) (Pre1 C v hash b R) (Post1 C v hash b R) (Side1 C v hash R)
    (by
      intro a a' hs hle hst
      exact ⟨fun k hk => by rw [hst]; exact hs.1 k hk, fun k hk => hle k _ (hs.2 k hk)⟩)
    (fun net j hr hs hp => turn1 hwf v hash b R crew net j hr hs hp)
    (R ++ [ldr C v]) hnd net hr hside hpre
  -- COMMIT phase
  have hside2 : Side2 C v hash R n1 := ⟨hs1.1, fun k hk => (hpost1 k hk).2.2.2⟩
  obtain ⟨n2, hr2, _, hpost2, _, _, hle2⟩ := sweep (C := C) (Post1 C v hash b R) (fun j n _ => n.committed.isSome = true) (Side2 C v hash R)
    (by
      intro a a' hs hle hst
      exact ⟨fun k hk => by rw [hst]; exact hs.1 k hk, fun k hk => by obtain ⟨rs, h⟩ := hs.2 k hk; exact ⟨rs, hle k _ h⟩⟩)
    (fun net j hr hs hp => turn2 hwf v hash b R crew net j hr hs hp)
    (R ++ [ldr C v]) hnd n1 hr1 hside2 hpost1
  refine ⟨n2, hr2, fun k o ho => hle2 k o (hle1 k o ho), ?_⟩
  intro j hj
  exact C13Net.net_committed_has_callback hr2 j (hpost2 j hj)

end phases

/-! ## the acceptance phase: from the leader's NEW_VIEW to `Pre1` -/

/-- a follower before the NEW_VIEW reaches it: no proposal stored for the view, the NEW_VIEW is a
valid certificate for it (so it is not ahead), its consumer accepts the block if it is a fresh one,
and its term context is still live after the step (no sync or shutdown meanwhile) -/
def Pre0 (C : NetCfg) (v : Nat) (R : List Nat) (nv : NVMsg) (spi : Nat → List Spi) (j : Nat) (n : Node) (_ : List Out) : Prop :=
  j ∈ R ∧ n.cfg = C.cfg j ∧ n.store.getPP C.height v = none ∧ C07.ValidCertificate n nv
  ∧ ((latestVote nv.header.votes).isNone = true →
      (askValidate { n := n, spi := spi j } nv.header.height nv.header.view nv.block nv.pp.header.hash).2 = true)
  ∧ C05.Live (handleNewView { n := n, spi := spi j } nv).n.reg C.height

def Post0 (C : NetCfg) (v : Nat) (b : Block) (R : List Nat) (nv : NVMsg) (j : Nat) (n : Node) (outs : List Out) : Prop :=
  Pre1 C v nv.pp.header.hash b R j n outs
  ∧ Out.send (others (C.cfg j)) (.prepare (ownPrepare (C.cfg j) C.height v nv.pp.header.hash)) ∈ outs

def Side0 (C : NetCfg) (v : Nat) (R : List Nat) (nv : NVMsg) (net : Net) : Prop :=
  (∀ k ∈ R ++ [ldr C v], net.started k = true) ∧ ∃ rs, Out.send rs (.newView nv) ∈ net.outs (ldr C v)

/-- the fields of the NEW_VIEW the argument reads (all of them are what a correct leader of view `v` produces) -/
structure NVShape (C : NetCfg) (v : Nat) (b : Block) (nv : NVMsg) : Prop where
  inst : nv.header.inst = C.inst
  height : nv.header.height = C.height
  view : nv.header.view = v
  block : nv.block = some b
  sender : nv.sender.id = ldr C v
  ppSender : nv.pp.sender = nv.sender
  ppType : nv.pp.header.mtype = tPP

section accept
variable (hwf : WF C) (v : Nat) (b : Block) (R : List Nat) (crew : Crew C v R) (nv : NVMsg) (spi : Nat → List Spi)
  (hshape : NVShape C v b nv)

include hwf crew hshape in
theorem turn0 (net : Net) (j : Nat) (hr : Reach C net) (hside : Side0 C v R nv net) (hpre : Pre0 C v R nv spi j (net.node j) (net.outs j)) :
    ∃ net', Reach C net' ∧ Post0 C v b R nv j (net'.node j) (net'.outs j) ∧ Frame net net' j := by
  obtain ⟨hjR, hcfg, hnone, hcert, hfresh, hlive⟩ := hpre
  have hjm : j ∈ R ++ [ldr C v] := List.mem_append_left _ hjR
  obtain ⟨hhj, hmj⟩ := crew.good j hjm
  obtain ⟨hhL, hmL⟩ := crew.good (ldr C v) (List.mem_append_right _ (List.mem_singleton.mpr rfl))
  have hjL : j ≠ ldr C v := by intro e; rw [e] at hjR; exact crew.notLeader hjR
  obtain ⟨rs, hsent⟩ := hside.2
  have hstarted := hside.1 j hjm
  obtain ⟨net', hr', en, eo, fr, st, hh⟩ := event_step hwf hr j hhj hmj hstarted (.deliver (.newView nv)) (spi j)
    (fun _ h => by cases h)
    ⟨hshape.inst, hshape.height, by show nv.sender.id ≠ j; rw [hshape.sender]; exact fun e => hjL e.symm, trivial⟩
    (C01Net.sent_admissible hwf hr hhL hmL hsent)
  -- the node is not prepared in view v: it holds no proposal for it
  have hprep : (net.node j).prepared ≠ some nv.header.view := by
    rw [hshape.view]
    intro hp
    obtain ⟨⟨T, hcore, _⟩, _⟩ := (reach_inv hwf hr).nodes j hhj hmj hstarted
    obtain ⟨_, ⟨ppm, hg, _⟩, _⟩ := hcore.ginv.prep v hp
    rw [hcfg] at hg
    have : (net.node j).store.getPP C.height v = some ppm := hg
    rw [hnone] at this; cases this
  have hfit : C06.Fits (net.node j).cfg.members := by rw [hcfg]; exact hwf.fit
  have hcert' := hcert
  obtain ⟨_, _, a3, a4, _, _, _, a8, a9, _⟩ := hcert'
  have hauth : C08.PreprepareAuthentic (net.node j) ⟨nv.pp, nv.block⟩ := by
    refine ⟨hshape.ppType, ?_, ?_, ?_⟩
    · show nv.pp.sender.ok = true; rw [hshape.ppSender]; exact a3
    · show isLeader (net.node j).cfg nv.pp.sender.id nv.pp.header.view = true; rw [hshape.ppSender, a8]; exact a4
    · show (net.node j).store.getPP nv.pp.header.height nv.pp.header.view = none
      rw [a9, a8, hshape.height, hshape.view]; exact hnone
  have hq : isQuorum (net.node j).cfg (R ++ [nv.pp.sender.id]) = true := by
    rw [hshape.ppSender, hshape.sender, hcfg]; exact crew.quorum
  obtain ⟨s1, s2, s3, s4, s5, s6⟩ := C05.newview_accepted_state { n := net.node j, spi := spi j } nv b R hfit hcert hauth hfresh hshape.block hprep hq
  simp only [hshape.view, hshape.height] at s2 s3 s4 s5 s6
  have e1 : net'.node j = (handleNewView { n := net.node j, spi := spi j } nv).n := en
  have e2 : net'.outs j = net.outs j ++ (handleNewView { n := net.node j, spi := spi j } nv).outs := eo
  have hsend : Out.send (others (C.cfg j)) (.prepare (ownPrepare (C.cfg j) C.height v nv.pp.header.hash)) ∈ net'.outs j := by
    rw [e2]; apply List.mem_append_right
    have := s5; rw [hcfg] at this; exact this
  refine ⟨net', hr', ⟨⟨hjm, ?_, ?_, ?_, ?_⟩, hsend⟩, ⟨fr, st, by intro o ho; rw [e2]; exact List.mem_append_left _ ho, hh⟩⟩
  · -- Holds
    refine ⟨by rw [e1, s1]; exact hcfg, ⟨⟨nv.pp, nv.block⟩, by rw [e1]; exact s3, hshape.block, rfl, ?_⟩, by rw [e1]; exact hlive⟩
    show nv.pp.sender.id = ldr C v
    rw [hshape.ppSender, hshape.sender]
  · rw [e1]; exact s2
  · intro _
    rw [e1]
    have := s4; rw [hcfg] at this; exact this
  · intro _
    rcases s6 with hcs | ⟨hnp, id, hid, hmiss⟩
    · left
      rw [hcfg] at hcs
      exact ⟨by rw [e1]; exact hcs.1, _, by rw [e2]; exact List.mem_append_right _ hcs.2⟩
    · right; right
      exact ⟨id, hid, by rw [e1]; exact hmiss⟩

include hwf crew hshape in
/-- **From the leader's NEW_VIEW to a decision.**  In any reachable state (schedule so far obeying A2)
in which the correct leader of view `v` has sent its NEW_VIEW, is still in view `v` and keeps its term
context, and correct followers `R` — together with the leader of quorum weight — are not ahead,
hold no proposal for `v`, have consumers that accept the block where they are asked, and keep their
term context: delivering the NEW_VIEW to each of them, then the PREPAREs, then the COMMITs — all of
them messages the crew really sent — leads to a reachable state in which every crew member has invoked
its commit callback. -/
theorem good_view_from_newview {net : Net} (hr : Reach C net) (hA2 : TraceA2 net.trace)
    (hside : Side0 C v R nv net)
    (hfollowers : ∀ j ∈ R, (net.node j).store.getPP C.height v = none ∧ ¬ (net.node j).view > v
      ∧ ((latestVote nv.header.votes).isNone = true →
          (askValidate { n := net.node j, spi := spi j } nv.header.height nv.header.view nv.block nv.pp.header.hash).2 = true)
      ∧ C05.Live (handleNewView { n := net.node j, spi := spi j } nv).n.reg C.height)
    (hlview : (net.node (ldr C v)).view = v) (hllive : C05.Live (net.node (ldr C v)).reg C.height) :
    ∃ net', Reach C net' ∧ OutsLe net net'
      ∧ ∀ j ∈ R ++ [ldr C v], ∃ blk cs, Out.commit blk cs ∈ net'.outs j := by
  obtain ⟨hhL, hmL⟩ := crew.good (ldr C v) (List.mem_append_right _ (List.mem_singleton.mpr rfl))
  obtain ⟨rs, hsent⟩ := hside.2
  -- the leader holds the proposal it sent (`reach_sent`)
  have hleader : Pre1 C v nv.pp.header.hash b R (ldr C v) (net.node (ldr C v)) (net.outs (ldr C v)) := by
    have hcfgL := C11Net.node_cfg hwf hr (ldr C v) hhL hmL
    have hst := (reach_sent hr (ldr C v)).newViews rs nv hsent
    rw [hcfgL, hshape.view] at hst
    refine ⟨List.mem_append_right _ (List.mem_singleton.mpr rfl), ⟨hcfgL, ⟨⟨nv.pp, nv.block⟩, hst, hshape.block, rfl, ?_⟩, hllive⟩, hlview, fun h => absurd rfl h, fun h => absurd rfl h⟩
    show nv.pp.sender.id = ldr C v
    rw [hshape.ppSender, hshape.sender]
  -- the NEW_VIEW is a valid certificate for every follower (C11Net)
  have hpre0 : ∀ j ∈ R, Pre0 C v R nv spi j (net.node j) (net.outs j) := by
    intro j hj
    obtain ⟨hnone, hnv, hfresh, hlive⟩ := hfollowers j hj
    obtain ⟨hhj, hmj⟩ := crew.good j (List.mem_append_left _ hj)
    refine ⟨hj, C11Net.node_cfg hwf hr j hhj hmj, hnone, ?_, hfresh, hlive⟩
    exact C11Net.net_newview_is_valid_certificate hwf hr hA2 hhL hmL hhj hmj rs nv hsent (by rw [hshape.view]; exact hnv)
  obtain ⟨n0, hr0, hs0, hpost0, hsame0, hst0, hle0⟩ := sweep (C := C) (Pre0 C v R nv spi) (Post0 C v b R nv) (Side0 C v R nv)
    (by
      intro a a' hs hle hst
      obtain ⟨rs', hs'⟩ := hs.2
      exact ⟨fun k hk => by rw [hst]; exact hs.1 k hk, rs', hle _ _ hs'⟩)
    (fun net j hr hs hp => turn0 hwf v b R crew nv spi hshape net j hr hs hp)
    R crew.nodup net hr hside hpre0
  -- now the whole crew meets `Pre1`
  have hside1 : Side1 C v nv.pp.header.hash R n0 := ⟨hs0.1, fun k hk => (hpost0 k hk).2⟩
  have hpre1 : ∀ j ∈ R ++ [ldr C v], Pre1 C v nv.pp.header.hash b R j (n0.node j) (n0.outs j) := by
    intro j hj
    rcases List.mem_append.mp hj with hj | hj
    · exact (hpost0 j hj).1
    · rw [List.mem_singleton] at hj
      subst hj
      rw [(hsame0 _ crew.notLeader).1, (hsame0 _ crew.notLeader).2]
      exact hleader
  obtain ⟨n2, hr2, hle2, hc⟩ := good_view_decides hwf v nv.pp.header.hash b R crew hr0 hside1 hpre1
  exact ⟨n2, hr2, fun k o ho => hle2 k o (hle0 k o ho), hc⟩

end accept

/-! ## the acceptance phase for a stand-alone PREPREPARE (view 0, the normal case) -/

def Pre0pp (C : NetCfg) (v : Nat) (R : List Nat) (ppm : PPMsg) (spi : Nat → List Spi) (j : Nat) (n : Node) (_ : List Out) : Prop :=
  j ∈ R ∧ n.cfg = C.cfg j ∧ n.view = v ∧ C08.PreprepareAuthentic n ppm ∧ lockConflict n ppm = false
  ∧ (askValidate { n := n, spi := spi j } ppm.c.header.height ppm.c.header.view ppm.block ppm.c.header.hash).2 = true
  ∧ C05.Live (handlePrePrepare { n := n, spi := spi j } ppm).n.reg C.height

def Side0pp (C : NetCfg) (v : Nat) (R : List Nat) (ppm : PPMsg) (net : Net) : Prop :=
  (∀ k ∈ R ++ [ldr C v], net.started k = true) ∧ ∃ rs, Out.send rs (.preprepare ppm) ∈ net.outs (ldr C v)

structure PPShape (C : NetCfg) (v : Nat) (b : Block) (ppm : PPMsg) : Prop where
  inst : ppm.c.header.inst = C.inst
  height : ppm.c.header.height = C.height
  view : ppm.c.header.view = v
  block : ppm.block = some b
  sender : ppm.c.sender.id = ldr C v

section acceptpp
variable (hwf : WF C) (v : Nat) (b : Block) (R : List Nat) (crew : Crew C v R) (ppm : PPMsg) (spi : Nat → List Spi)
  (hshape : PPShape C v b ppm)

include hwf crew hshape in
theorem turn0pp (net : Net) (j : Nat) (hr : Reach C net) (hside : Side0pp C v R ppm net) (hpre : Pre0pp C v R ppm spi j (net.node j) (net.outs j)) :
    ∃ net', Reach C net'
      ∧ (Pre1 C v ppm.c.header.hash b R j (net'.node j) (net'.outs j)
          ∧ Out.send (others (C.cfg j)) (.prepare (ownPrepare (C.cfg j) C.height v ppm.c.header.hash)) ∈ net'.outs j)
      ∧ Frame net net' j := by
  obtain ⟨hjR, hcfg, hview, hauth, hlock, hok, hlive⟩ := hpre
  have hjm : j ∈ R ++ [ldr C v] := List.mem_append_left _ hjR
  obtain ⟨hhj, hmj⟩ := crew.good j hjm
  obtain ⟨hhL, hmL⟩ := crew.good (ldr C v) (List.mem_append_right _ (List.mem_singleton.mpr rfl))
  have hjL : j ≠ ldr C v := by intro e; rw [e] at hjR; exact crew.notLeader hjR
  obtain ⟨rs, hsent⟩ := hside.2
  have hstarted := hside.1 j hjm
  obtain ⟨net', hr', en, eo, fr, st, hh⟩ := event_step hwf hr j hhj hmj hstarted (.deliver (.preprepare ppm)) (spi j)
    (fun _ h => by cases h)
    ⟨hshape.inst, hshape.height, by show ppm.c.sender.id ≠ j; rw [hshape.sender]; exact fun e => hjL e.symm, trivial⟩
    (C01Net.sent_admissible hwf hr hhL hmL hsent)
  have hnone : (net.node j).store.getPP C.height v = none := by
    have := hauth.2.2.2; rw [hshape.height, hshape.view] at this; exact this
  have hprep : (net.node j).prepared ≠ some ppm.c.header.view := by
    rw [hshape.view]
    intro hp
    obtain ⟨⟨T, hcore, _⟩, _⟩ := (reach_inv hwf hr).nodes j hhj hmj hstarted
    obtain ⟨_, ⟨p0, hg, _⟩, _⟩ := hcore.ginv.prep v hp
    rw [hcfg] at hg
    have : (net.node j).store.getPP C.height v = some p0 := hg
    rw [hnone] at this; cases this
  have hfit : C06.Fits (net.node j).cfg.members := by rw [hcfg]; exact hwf.fit
  have hq : isQuorum (net.node j).cfg (R ++ [ppm.c.sender.id]) = true := by
    rw [hshape.sender, hcfg]; exact crew.quorum
  obtain ⟨s1, s2, s3, s4, s5, s6⟩ := C05.preprepare_accepted_state { n := net.node j, spi := spi j } ppm b R hfit hauth hlock hok
    (by rw [hshape.view]; exact hview) hshape.block hprep hq
  simp only [hshape.view, hshape.height] at s2 s3 s4 s5 s6
  have e1 : net'.node j = (handlePrePrepare { n := net.node j, spi := spi j } ppm).n := en
  have e2 : net'.outs j = net.outs j ++ (handlePrePrepare { n := net.node j, spi := spi j } ppm).outs := eo
  have hsend : Out.send (others (C.cfg j)) (.prepare (ownPrepare (C.cfg j) C.height v ppm.c.header.hash)) ∈ net'.outs j := by
    rw [e2]; apply List.mem_append_right
    have := s5; rw [hcfg] at this; exact this
  refine ⟨net', hr', ⟨⟨hjm, ?_, ?_, ?_, ?_⟩, hsend⟩, ⟨fr, st, by intro o ho; rw [e2]; exact List.mem_append_left _ ho, hh⟩⟩
  · exact ⟨by rw [e1, s1]; exact hcfg, ⟨ppm, by rw [e1]; exact s3, hshape.block, rfl, hshape.sender⟩, by rw [e1]; exact hlive⟩
  · rw [e1]; exact s2
  · intro _
    rw [e1]
    have := s4; rw [hcfg] at this; exact this
  · intro _
    rcases s6 with hcs | ⟨hnp, id, hid, hmiss⟩
    · left
      rw [hcfg] at hcs
      exact ⟨by rw [e1]; exact hcs.1, _, by rw [e2]; exact List.mem_append_right _ hcs.2⟩
    · right; right
      exact ⟨id, hid, by rw [e1]; exact hmiss⟩

include hwf crew hshape in
/-- **From the leader's PREPREPARE to a decision** (the normal case: view 0, or any view in which the
members follow a stand-alone proposal). -/
theorem good_view_from_preprepare {net : Net} (hr : Reach C net) (hside : Side0pp C v R ppm net)
    (hfollowers : ∀ j ∈ R, Pre0pp C v R ppm spi j (net.node j) (net.outs j))
    (hlview : (net.node (ldr C v)).view = v) (hllive : C05.Live (net.node (ldr C v)).reg C.height) :
    ∃ net', Reach C net' ∧ OutsLe net net'
      ∧ ∀ j ∈ R ++ [ldr C v], ∃ blk cs, Out.commit blk cs ∈ net'.outs j := by
  obtain ⟨hhL, hmL⟩ := crew.good (ldr C v) (List.mem_append_right _ (List.mem_singleton.mpr rfl))
  have hleader : Pre1 C v ppm.c.header.hash b R (ldr C v) (net.node (ldr C v)) (net.outs (ldr C v)) := by
    obtain ⟨rs, hsent⟩ := hside.2
    have hcfgL := C11Net.node_cfg hwf hr (ldr C v) hhL hmL
    have hst := (reach_sent hr (ldr C v)).preprepares rs ppm hsent
    rw [hcfgL, hshape.view] at hst
    exact ⟨List.mem_append_right _ (List.mem_singleton.mpr rfl), ⟨hcfgL, ⟨ppm, hst, hshape.block, rfl, hshape.sender⟩, hllive⟩, hlview, fun h => absurd rfl h, fun h => absurd rfl h⟩
  obtain ⟨n0, hr0, hs0, hpost0, hsame0, hst0, hle0⟩ := sweep (C := C) (Pre0pp C v R ppm spi)
    (fun j n outs => Pre1 C v ppm.c.header.hash b R j n outs
      ∧ Out.send (others (C.cfg j)) (.prepare (ownPrepare (C.cfg j) C.height v ppm.c.header.hash)) ∈ outs)
    (Side0pp C v R ppm)
    (by
      intro a a' hs hle hst
      obtain ⟨rs', hs'⟩ := hs.2
      exact ⟨fun k hk => by rw [hst]; exact hs.1 k hk, rs', hle _ _ hs'⟩)
    (fun net j hr hs hp => turn0pp hwf v b R crew ppm spi hshape net j hr hs hp)
    R crew.nodup net hr hside hfollowers
  have hside1 : Side1 C v ppm.c.header.hash R n0 := ⟨hs0.1, fun k hk => (hpost0 k hk).2⟩
  have hpre1 : ∀ j ∈ R ++ [ldr C v], Pre1 C v ppm.c.header.hash b R j (n0.node j) (n0.outs j) := by
    intro j hj
    rcases List.mem_append.mp hj with hj | hj
    · exact (hpost0 j hj).1
    · rw [List.mem_singleton] at hj
      subst hj
      rw [(hsame0 _ crew.notLeader).1, (hsame0 _ crew.notLeader).2]
      exact hleader
  obtain ⟨n2, hr2, hle2, hc⟩ := good_view_decides hwf v ppm.c.header.hash b R crew hr0 hside1 hpre1
  exact ⟨n2, hr2, fun k o ho => hle2 k o (hle0 k o ho), hc⟩

end acceptpp

/-! ## non-vacuity

The committee of `C01Net` (members 1–4, unit weights, member 4 Byzantine).  After the five steps in
which members 1, 2, 3 start and the leader's proposal reaches members 2 and 3, the crew R = [2, 3]
with leader 1 meets every hypothesis of `good_view_decides`; so there is an execution in which all
three commit. -/

open LeanHelix.C01Net (exC exWF exPP exBlock)

def exSched5 : List SStep :=
  [(1, .start true, [.proposal exBlock none]),
   (2, .start true, []),
   (3, .start true, []),
   (2, .deliver (.preprepare exPP), [.verdict true none]),
   (3, .deliver (.preprepare exPP), [.verdict true none])]

theorem exOk5 : simOk exC (SimState.init exC) exSched5 = true := by decide

theorem exCrew : Crew exC 0 [2, 3] where
  nodup := by decide
  notLeader := by decide
  nonempty := by decide
  good := by
    intro k hk
    have : k = 2 ∨ k = 3 ∨ k = 1 := by
      have e : ldr exC 0 = 1 := by decide
      rw [e] at hk; simpa using hk
    rcases this with rfl | rfl | rfl <;> exact ⟨rfl, ⟨_, 1⟩, by decide, rfl⟩
  quorum := by decide

theorem ex_good_view : ∃ net, Reach exC net ∧ ∀ j ∈ [2, 3, 1], ∃ blk cs, Out.commit blk cs ∈ net.outs j := by
  obtain ⟨net, hr, ⟨hn, hs, ho⟩, _⟩ := sim_reach exWF exSched5 (SimState.init exC) (Net.init exC) .init (agrees_init exC) exOk5
  have hl : ldr exC 0 = 1 := by decide
  have hside : Side1 exC 0 99 [2, 3] net := by
    refine ⟨?_, ?_⟩
    · intro k hk
      have : k = 2 ∨ k = 3 ∨ k = 1 := by rw [hl] at hk; simpa using hk
      rw [hs]
      rcases this with rfl | rfl | rfl <;> decide
    · intro k hk
      have : k = 2 ∨ k = 3 := by simpa using hk
      rw [ho]
      rcases this with rfl | rfl <;> exact C11Net.mem_sendsOf (by decide)
  have hpre : ∀ j ∈ [2, 3] ++ [ldr exC 0], Pre1 exC 0 99 exBlock [2, 3] j (net.node j) (net.outs j) := by
    intro j hj
    have hj' : j = 2 ∨ j = 3 ∨ j = 1 := by rw [hl] at hj; simpa using hj
    rw [hn, ho]
    rcases hj' with rfl | rfl | rfl
    · refine ⟨hj, ⟨rfl, ⟨exPP, by decide, rfl, rfl, by decide⟩, ⟨by decide, by decide⟩⟩, by decide, fun _ => by decide,
        fun _ => Or.inr (Or.inr ⟨3, by decide, by decide⟩)⟩
    · refine ⟨hj, ⟨rfl, ⟨exPP, by decide, rfl, rfl, by decide⟩, ⟨by decide, by decide⟩⟩, by decide, fun _ => by decide,
        fun _ => Or.inr (Or.inr ⟨2, by decide, by decide⟩)⟩
    · refine ⟨hj, ⟨rfl, ⟨exPP, by decide, rfl, rfl, by decide⟩, ⟨by decide, by decide⟩⟩, by decide, fun h => absurd hl.symm h, fun h => absurd hl.symm h⟩
  obtain ⟨net', hr', _, hc⟩ := good_view_decides exWF 0 99 exBlock [2, 3] exCrew hr hside hpre
  refine ⟨net', hr', ?_⟩
  intro j hj
  exact hc j (by rw [hl]; simpa using hj)

/-- the same for a view change: in the 8-step execution of `C11Net` (three election timeouts, leader 2
of view 1 elected, NEW_VIEW sent) the crew {2; 1, 3} meets every hypothesis of `good_view_from_newview`
with approving consumers: all three decide in view 1 -/
theorem ex_good_view_after_view_change :
    ∃ net, Reach exC net ∧ ∀ j ∈ [1, 3, 2], ∃ blk cs, Out.commit blk cs ∈ net.outs j := by
  obtain ⟨net, hr, ⟨hn, hs, ho⟩, ht⟩ := sim_reach exWF C11Net.exSchedVC (SimState.init exC) (Net.init exC) .init (agrees_init exC) C11Net.exOkVC
  have hA2 : TraceA2 net.trace := by rw [ht]; exact (List.append_nil _).symm ▸ C11Net.exVC_traceA2
  have hl : ldr exC 1 = 2 := by decide
  have crew : Crew exC 1 [1, 3] := by
    refine ⟨by decide, by decide, by decide, ?_, by decide⟩
    intro k hk
    have : k = 1 ∨ k = 3 ∨ k = 2 := by rw [hl] at hk; simpa using hk
    rcases this with rfl | rfl | rfl <;> exact ⟨rfl, ⟨_, 1⟩, by decide, rfl⟩
  have hshape : NVShape exC 1 C11Net.exBlock2 C11Net.exNV := ⟨rfl, rfl, rfl, rfl, by decide, rfl, rfl⟩
  have hside : Side0 exC 1 [1, 3] C11Net.exNV net := by
    refine ⟨?_, [1, 3, 4], ?_⟩
    · intro k hk
      have : k = 1 ∨ k = 3 ∨ k = 2 := by rw [hl] at hk; simpa using hk
      rw [hs]
      rcases this with rfl | rfl | rfl <;> decide
    · rw [hl, ho]; exact C11Net.mem_sendsOf (by decide)
  obtain ⟨net', hr', _, hc⟩ := good_view_from_newview exWF 1 C11Net.exBlock2 [1, 3] crew C11Net.exNV (fun _ => [.verdict true none]) hshape hr hA2 hside
    (by
      intro j hj
      have : j = 1 ∨ j = 3 := by simpa using hj
      rw [hn]
      rcases this with rfl | rfl
      · exact ⟨by decide, by decide, fun _ => by decide, ⟨by decide, by decide⟩⟩
      · exact ⟨by decide, by decide, fun _ => by decide, ⟨by decide, by decide⟩⟩)
    (by rw [hl, hn]; decide) (by rw [hl, hn]; exact ⟨by decide, by decide⟩)
  refine ⟨net', hr', ?_⟩
  intro j hj
  exact hc j (by rw [hl]; simpa using hj)

/-- the normal case: members 1, 2, 3 have started, leader 1 has proposed; everything else — the
deliveries of the PREPREPARE, the PREPAREs and the COMMITs — is the schedule `good_view_from_preprepare`
constructs: all three decide in view 0 -/
theorem ex_good_view_normal_case :
    ∃ net, Reach exC net ∧ ∀ j ∈ [2, 3, 1], ∃ blk cs, Out.commit blk cs ∈ net.outs j := by
  obtain ⟨net, hr, ⟨hn, hs, ho⟩, _⟩ := sim_reach exWF (exSched5.take 3) (SimState.init exC) (Net.init exC) .init (agrees_init exC) (by decide)
  have hl : ldr exC 0 = 1 := by decide
  have hshape : PPShape exC 0 exBlock exPP := ⟨rfl, rfl, rfl, rfl, by decide⟩
  have hside : Side0pp exC 0 [2, 3] exPP net := by
    refine ⟨?_, [2, 3, 4], ?_⟩
    · intro k hk
      have : k = 2 ∨ k = 3 ∨ k = 1 := by rw [hl] at hk; simpa using hk
      rw [hs]
      rcases this with rfl | rfl | rfl <;> decide
    · rw [hl, ho]; exact C11Net.mem_sendsOf (by decide)
  obtain ⟨net', hr', _, hc⟩ := good_view_from_preprepare exWF 0 exBlock [2, 3] exCrew exPP (fun _ => [.verdict true none]) hshape hr hside
    (by
      intro j hj
      have : j = 2 ∨ j = 3 := by simpa using hj
      rw [hn]
      rcases this with rfl | rfl
      · exact ⟨hj, rfl, by decide, ⟨rfl, rfl, by decide, by decide⟩, by decide, by decide, ⟨by decide, by decide⟩⟩
      · exact ⟨hj, rfl, by decide, ⟨rfl, rfl, by decide, by decide⟩, by decide, by decide, ⟨by decide, by decide⟩⟩)
    (by rw [hl, hn]; decide) (by rw [hl, hn]; exact ⟨by decide, by decide⟩)
  refine ⟨net', hr', ?_⟩
  intro j hj
  exact hc j (by rw [hl]; simpa using hj)

/-! a crew with a single follower: weights (3, 3, 1, 1), `Q = 6`; the leader (member 1) and member 2
alone hold quorum weight.  Member 2 is prepared the moment it accepts the proposal, there is no
PREPARE to deliver to it, and the two COMMITs finish the round for both. -/

def exCw : NetCfg := ⟨7, 5, [⟨1, 3⟩, ⟨2, 3⟩, ⟨3, 1⟩, ⟨4, 1⟩], fun i => i != 4⟩

theorem exWFw : WF exCw := ⟨⟨by decide, by decide⟩, by decide⟩

theorem exCrewW : Crew exCw 0 [2] where
  nodup := by decide
  notLeader := by decide
  nonempty := by decide
  good := by
    intro k hk
    have : k = 2 ∨ k = 1 := by
      have e : ldr exCw 0 = 1 := by decide
      rw [e] at hk; simpa using hk
    rcases this with rfl | rfl <;> exact ⟨rfl, ⟨_, 3⟩, by decide, rfl⟩
  quorum := by decide

theorem ex_good_view_single_follower :
    ∃ net, Reach exCw net ∧ ∀ j ∈ [2, 1], ∃ blk cs, Out.commit blk cs ∈ net.outs j := by
  obtain ⟨net, hr, ⟨hn, hs, ho⟩, _⟩ := sim_reach exWFw (exSched5.take 2) (SimState.init exCw) (Net.init exCw) .init (agrees_init exCw) (by decide)
  have hl : ldr exCw 0 = 1 := by decide
  have hshape : PPShape exCw 0 exBlock exPP := ⟨rfl, rfl, rfl, rfl, by decide⟩
  have hside : Side0pp exCw 0 [2] exPP net := by
    refine ⟨?_, [2, 3, 4], ?_⟩
    · intro k hk
      have : k = 2 ∨ k = 1 := by rw [hl] at hk; simpa using hk
      rw [hs]
      rcases this with rfl | rfl <;> decide
    · rw [hl, ho]; exact C11Net.mem_sendsOf (by decide)
  obtain ⟨net', hr', _, hc⟩ := good_view_from_preprepare exWFw 0 exBlock [2] exCrewW exPP (fun _ => [.verdict true none]) hshape hr hside
    (by
      intro j hj
      have : j = 2 := by simpa using hj
      rw [hn]
      subst this
      exact ⟨hj, rfl, by decide, ⟨rfl, rfl, by decide, by decide⟩, by decide, by decide, ⟨by decide, by decide⟩⟩)
    (by rw [hl, hn]; decide) (by rw [hl, hn]; exact ⟨by decide, by decide⟩)
  refine ⟨net', hr', ?_⟩
  intro j hj
  exact hc j (by rw [hl]; simpa using hj)

end LeanHelix.C05Net
