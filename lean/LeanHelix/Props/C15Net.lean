import LeanHelix.Props.C05Elect
/-!
# C15 — the registry theorems, for every member in every reachable state of the network model

`Props/C15Registry.lean` proves its theorems for every registry that satisfies the invariant `C15.Inv`
(true of the empty registry, kept by every operation).  `Lemmas/TermReg.lean` shows the term applies
nothing but registry operations to the registry inside its state (`Term.step_regRun`, a traversal of every
handler), and `C05Net.reach_reg_inv` lifts the invariant to every member of every reachable state of
the network model.  Read off here:

* `net_handed_out_is_live`: a context the term obtains for an SPI call is live at that moment;
* `net_election_cancels_older`: the registry operation an election trigger performs (`CancelOlderThan`)
  ends every context ever issued for an older (height, view) — the blocked SPI call of an older view is released;
* `net_done_only_if_over`: a context is done only when the registry was shut down or its (height, view)
  has been superseded — events about older positions never end a current or future call.
-/
namespace LeanHelix.C15Net
open LeanHelix LeanHelix.Msg LeanHelix.Term LeanHelix.Net LeanHelix.Contexts

variable {C : NetCfg}

theorem net_handed_out_is_live {net : Net} (hr : Reach C net) (i : Nat) (hv : State.HV) (id : Nat)
    (hres : (Contexts.step (net.node i).reg (.for_ hv)).2 = .ctx id) :
    Contexts.done (Contexts.step (net.node i).reg (.for_ hv)).1 id = false
    ∧ (hv, id) ∈ (Contexts.step (net.node i).reg (.for_ hv)).1.live :=
  C15.handed_out_is_live _ (C05Net.reach_reg_inv hr i) hv id hres

theorem net_election_cancels_older {net : Net} (hr : Reach C net) (i : Nat) (hv : State.HV) (p : State.HV × Nat)
    (hp : p ∈ (net.node i).reg.issued) (hold : p.1.olderThan hv = true) :
    Contexts.done (Contexts.step (net.node i).reg (.cancelOlderThan hv)).1 p.2 = true :=
  C15.cancel_cancels_all_older _ (C05Net.reach_reg_inv hr i) hv p hp hold

theorem net_done_only_if_over {net : Net} (hr : Reach C net) (i : Nat) (p : State.HV × Nat)
    (hp : p ∈ (net.node i).reg.issued) (hd : Contexts.done (net.node i).reg p.2 = true) :
    (net.node i).reg.shutdown = true ∨ C15.stale (net.node i).reg p.1 :=
  C15.done_only_if_superseded_or_shutdown _ (C05Net.reach_reg_inv hr i) p hp hd

end LeanHelix.C15Net
