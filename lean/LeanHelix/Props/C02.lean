import LeanHelix.Model.BlockProof
import LeanHelix.Lemmas.Weights
/-!
# C02 — ValidateBlockConsensus never accepts a block without a genuine commit quorum

`Genuine` is the property's acceptance condition, written independently of the code's control flow.
`validate_ok_iff_genuine`: the model of `ValidateBlockConsensus` returns `ok` **iff** the input is
genuine — for every block, every decoded proof (any signer list, with duplicates, outsiders, bad
signatures in any position), every committee and both modes.  Everything else is one of the error
verdicts (the verdict type has no "panic" or "crash" alternative; unreadable bytes are `none`).
-/
namespace LeanHelix.C02
open LeanHelix LeanHelix.Msg LeanHelix.BlockProof

def isMember (ms : List Member) (id : Nat) : Bool := ms.any (fun m => m.id == id)

/-- the property's condition for acceptance -/
def Genuine (i : VInput) : Prop :=
  i.ctxCancelled = false ∧
  ∃ b p, i.block = some b ∧ i.proof = some p
    ∧ p.ref.mtype = tC                                   -- a COMMIT certificate
    ∧ p.ref.inst = i.inst                                -- for this instance
    ∧ p.ref.height = b.height                            -- for this block's height
    ∧ b.hash = p.ref.hash                                -- over a hash the block satisfies
    ∧ (∀ s ∈ p.nodes, s.ok = true ∧ isMember i.members s.id = true)   -- valid signatures of committee members
    ∧ (p.nodes.map (·.id)).Nodup                         -- pairwise distinct
    ∧ (if i.soft then (Quorum.hasHonest (p.nodes.map (·.id)) i.members).1 = true
       else (Quorum.isQuorum (p.nodes.map (·.id)) i.members).1 = true)
    ∧ p.seedSigEmpty = false ∧ p.seedOk = true           -- random-seed signature present and valid

theorem checkSigners_ok_iff (members : List Member) (nodes : List SSig) (seen : List Nat) (hs : seen.Nodup) :
    (∃ ids, checkSigners members nodes seen = (.ok, ids)) ↔
      ((∀ s ∈ nodes, s.ok = true ∧ isMember members s.id = true) ∧ (seen ++ nodes.map (·.id)).Nodup) := by
  induction nodes generalizing seen with
  | nil => simp [checkSigners, hs]
  | cons s rest ih =>
    unfold checkSigners
    by_cases h1 : s.ok = true
    · by_cases h2 : seen.contains s.id = true
      · simp only [h1, Bool.not_true, Bool.false_eq_true, if_false, h2, if_true]
        constructor
        · rintro ⟨ids, h⟩; cases h
        · rintro ⟨_, hnd⟩
          exfalso
          simp only [List.map_cons] at hnd
          rw [List.nodup_append] at hnd
          exact hnd.2.2 s.id (by simpa using h2) s.id (List.mem_cons_self ..) rfl
      · by_cases h3 : isMember members s.id = true
        · have h3' : members.any (fun m => m.id == s.id) = true := h3
          simp only [h1, Bool.not_true, Bool.false_eq_true, if_false, h2, h3']
          have hs' : (seen ++ [s.id]).Nodup := by
            rw [List.nodup_append]
            refine ⟨hs, by simp, ?_⟩
            intro a ha b hb; simp at hb; subst hb
            intro e; subst e; exact h2 (by simpa using ha)
          rw [ih (seen ++ [s.id]) hs']
          simp only [List.mem_cons, forall_eq_or_imp, List.map_cons, List.append_assoc, List.singleton_append]
          constructor
          · rintro ⟨a, b⟩; exact ⟨⟨⟨h1, h3⟩, a⟩, b⟩
          · rintro ⟨⟨_, a⟩, b⟩; exact ⟨a, b⟩
        · have h3' : members.any (fun m => m.id == s.id) = false := by
            cases hx : members.any (fun m => m.id == s.id) with
            | false => rfl
            | true => exact absurd hx h3
          simp only [h1, Bool.not_true, Bool.false_eq_true, if_false, h2, h3', Bool.not_false, if_true]
          constructor
          · rintro ⟨ids, h⟩; cases h
          · rintro ⟨hall, _⟩
            exact absurd (hall s (List.mem_cons_self ..)).2 h3
    · simp only [h1, Bool.not_false, if_true]
      constructor
      · rintro ⟨ids, h⟩; cases h
      · rintro ⟨hall, _⟩
        exact absurd (hall s (List.mem_cons_self ..)).1 h1

theorem checkSigners_ids (members : List Member) (nodes : List SSig) (seen ids : List Nat)
    (h : checkSigners members nodes seen = (.ok, ids)) : ids = seen ++ nodes.map (·.id) := by
  induction nodes generalizing seen with
  | nil => simp [checkSigners] at h; simp [h]
  | cons s rest ih =>
    unfold checkSigners at h
    split at h
    · cases h
    · split at h
      · cases h
      · split at h
        · cases h
        · have := ih _ h
          simp [this]

/-- **`ValidateBlockConsensus` returns nil exactly for genuine inputs.** -/
theorem validate_ok_iff_genuine (i : VInput) : validate i = .ok ↔ Genuine i := by
  unfold validate Genuine
  cases hc : i.ctxCancelled with
  | true => simp
  | false =>
    simp only [Bool.false_eq_true, if_false, true_and]
    cases hb : i.block with
    | none => simp
    | some b =>
      cases hp : i.proof with
      | none => simp
      | some p =>
        simp only [Option.some.injEq, exists_and_left, exists_eq_left']
        by_cases h1 : p.ref.mtype = tC
        · by_cases h2 : i.inst = p.ref.inst
          · by_cases h3 : b.height = p.ref.height
            · by_cases h4 : b.hash = p.ref.hash
              · have h4' : commitmentOk (some b) p.ref.hash = true := by simp [commitmentOk, h4]
                simp only [h1, bne_self_eq_false, Bool.false_eq_true, if_false, h2, h3, h4', Bool.not_true]
                cases hcs : checkSigners i.members p.nodes [] with
                | mk vd ids =>
                  cases vd with
                  | ok =>
                    have hids := checkSigners_ids _ _ _ _ hcs
                    simp only [List.nil_append] at hids
                    have hsig := (checkSigners_ok_iff i.members p.nodes [] (by simp)).mp ⟨ids, hcs⟩
                    simp only [List.nil_append] at hsig
                    subst hids
                    simp only
                    cases hsoft : i.soft with
                    | true =>
                      simp only [if_true]
                      cases hw : (Quorum.hasHonest (p.nodes.map (·.id)) i.members).1 with
                      | false => simp
                      | true =>
                        simp only [Bool.not_true, Bool.false_eq_true, if_false]
                        cases he : p.seedSigEmpty with
                        | true => simp
                        | false =>
                          cases hk : p.seedOk with
                          | false => simp
                          | true => simp [hsig.2]; exact ⟨h4, hsig.1⟩
                    | false =>
                      simp only [Bool.false_eq_true, if_false]
                      cases hw : (Quorum.isQuorum (p.nodes.map (·.id)) i.members).1 with
                      | false => simp
                      | true =>
                        simp only [Bool.not_true, Bool.false_eq_true, if_false]
                        cases he : p.seedSigEmpty with
                        | true => simp
                        | false =>
                          cases hk : p.seedOk with
                          | false => simp
                          | true => simp [hsig.2]; exact ⟨h4, hsig.1⟩
                  | _ =>
                    simp only
                    constructor
                    · intro h; cases h
                    · rintro ⟨_, _, _, _, hall, hnd, _⟩
                      have := (checkSigners_ok_iff i.members p.nodes [] (by simp)).mpr ⟨hall, by simpa using hnd⟩
                      obtain ⟨ids, hids⟩ := this
                      rw [hcs] at hids; cases hids
              · have h4' : commitmentOk (some b) p.ref.hash = false := by simp [commitmentOk, h4]
                simp [h1, h2, h3, h4', h4]
            · have : ¬ p.ref.height = b.height := fun e => h3 e.symm
              simp [h1, h2, h3, this]
          · have : ¬ p.ref.inst = i.inst := fun e => h2 e.symm
            simp [h1, h2, this]
        · simp [h1]

/-- in weights: an accepted strict proof is signed by members of combined weight at least Q = W - f,
an accepted soft proof by members of combined weight above f -/
theorem accepted_signers_weight (i : VInput) (h : validate i = .ok)
    (hW1 : 1 ≤ W i.members) (hW2 : W i.members < U64) :
    ∃ p, i.proof = some p ∧
      (i.soft = false → Q i.members ≤ wt i.members (fun x => (p.nodes.map (·.id)).contains x)) ∧
      (i.soft = true → F i.members < wt i.members (fun x => (p.nodes.map (·.id)).contains x)) := by
  obtain ⟨_, b, p, _, hp, _, _, _, _, _, _, hw, _⟩ := (validate_ok_iff_genuine i).mp h
  refine ⟨p, hp, ?_, ?_⟩
  · intro hs
    rw [hs] at hw; simp only [Bool.false_eq_true, if_false] at hw
    simp only [Quorum.isQuorum, decide_eq_true_eq, ge_iff_le] at hw
    rw [calcQuorumWeight_eq _ hW1 hW2, subsetWeight_eq _ _ hW2] at hw
    exact hw
  · intro hs
    rw [hs] at hw; simp only [if_true] at hw
    simp only [Quorum.hasHonest, decide_eq_true_eq, gt_iff_lt] at hw
    rw [calcByzMaxWeight_eq _ hW1 hW2, subsetWeight_eq _ _ hW2] at hw
    exact hw

/-! ## non-vacuity -/
def exMembers : List Member := [⟨10, 1⟩, ⟨11, 1⟩, ⟨12, 1⟩, ⟨13, 1⟩]
def exProof : BProof := ⟨⟨tC, 7, 5, 0, 99⟩, [⟨10, true⟩, ⟨12, true⟩, ⟨13, true⟩], false, true⟩
example : validate ⟨false, some ⟨1, 5, 99⟩, some exProof, 7, exMembers, false⟩ = .ok := by decide
example : validate ⟨false, some ⟨1, 5, 99⟩, some { exProof with nodes := [⟨10, true⟩, ⟨10, true⟩, ⟨12, true⟩] }, 7, exMembers, false⟩ = .errDuplicate := by decide
example : validate ⟨false, some ⟨1, 5, 99⟩, some { exProof with nodes := [⟨10, true⟩, ⟨12, true⟩] }, 7, exMembers, false⟩ = .errWeight := by decide
example : validate ⟨false, some ⟨1, 5, 99⟩, some { exProof with nodes := [⟨10, true⟩, ⟨12, true⟩] }, 7, exMembers, true⟩ = .ok := by decide

end LeanHelix.C02
