import LeanHelix.Props.C01Net
/-!
# C11 at the network level: a correct leader's NEW_VIEW is accepted by every correct peer

`Props/C11.lean` and `Props/C11NewView.lean` prove the two halves of C11 about one node: the vote a
correct node builds passes the checks of a peer *given* its log invariants, and the NEW_VIEW the
election path builds is a valid certificate *given* that every counted vote was checked.  Here the
hypotheses are discharged by the network model (`Net/Reach.lean`): in every reachable state of a
network of correct members and an unforgeability-bounded adversary, under the consumer contract A2
(a block the consumer approved commits to the hash it was proposed under),

* `net_newview_is_valid_certificate` — every NEW_VIEW a correct member has ever sent is
  `C07.ValidCertificate` (every check `handleNewView` makes before adopting) at every correct member
  whose view is not above the NEW_VIEW's, whatever Byzantine votes the leader counted;
* `net_newview_is_adopted` — such a member that holds no proposal for that view moves to the
  NEW_VIEW's view and sends its PREPARE for the embedded proposal when the message is delivered
  (when no counted vote carries a proof, provided its consumer accepts the fresh block);
* `net_own_votes_checked` — every vote a correct member logged as its own passes every check a peer
  applies to a received vote.

The invariant behind them (`Net.Body.ownVotes`, `Net.OutsOK`) is part of `Net.reach_blocks`.
-/
namespace LeanHelix.C11Net
open LeanHelix LeanHelix.Msg LeanHelix.Term LeanHelix.Spec LeanHelix.Net

variable {C : NetCfg}

/-- the configuration a member runs with, started or not -/
theorem node_cfg (hwf : WF C) {net : Net} (hr : Reach C net) (j : Nat) (hj : C.honest j = true) (hmj : ∃ m ∈ C.ms, m.id = j) :
    (net.node j).cfg = C.cfg j := by
  have hinv := reach_inv hwf hr
  cases hs : net.started j with
  | false => rw [(hinv.fresh j hs).1]
  | true =>
    obtain ⟨T, hc, _⟩ := (hinv.nodes j hj hmj hs).core
    exact hc.cfg

/-- **every NEW_VIEW a correct leader sends is a valid certificate at every correct member whose
view is not higher** (C11, NEW_VIEW half, for every execution of the network model under A2) -/
theorem net_newview_is_valid_certificate (hwf : WF C) {net : Net} (hr : Reach C net) (hA2 : TraceA2 net.trace)
    {i j : Nat} (hi : C.honest i = true) (hmi : ∃ m ∈ C.ms, m.id = i)
    (hj : C.honest j = true) (hmj : ∃ m ∈ C.ms, m.id = j)
    (rs : List Nat) (nv : NVMsg) (hsent : Out.send rs (.newView nv) ∈ net.outs i)
    (hview : ¬ (net.node j).view > nv.header.view) :
    C07.ValidCertificate (net.node j) nv := by
  obtain ⟨_, _, hgood⟩ := ((reach_blocks hwf hr hA2 i hi hmi).2.2.1 rs nv hsent)
  refine hgood (net.node j) ?_ hview
  rw [node_cfg hwf hr j hj hmj]
  exact ⟨rfl, rfl, rfl⟩

/-- **delivering it makes the peer follow**: a correct member at a view not above the NEW_VIEW's,
holding no proposal for that view, moves to that view and sends its PREPARE for the embedded
proposal (if no counted vote carries a proof: provided its consumer accepts the fresh block) -/
theorem net_newview_is_adopted (hwf : WF C) {net : Net} (hr : Reach C net) (hA2 : TraceA2 net.trace)
    {i j : Nat} (hi : C.honest i = true) (hmi : ∃ m ∈ C.ms, m.id = i)
    (hj : C.honest j = true) (hmj : ∃ m ∈ C.ms, m.id = j)
    (rs : List Nat) (nv : NVMsg) (hsent : Out.send rs (.newView nv) ∈ net.outs i)
    (hview : ¬ (net.node j).view > nv.header.view)
    (hnone : (net.node j).store.getPP nv.pp.header.height nv.pp.header.view = none)
    (spi : List Spi)
    (hfresh : (latestVote nv.header.votes).isNone = true →
        (askValidate { n := net.node j, spi := spi } nv.header.height nv.header.view nv.block nv.pp.header.hash).2 = true) :
    (handleNewView { n := net.node j, spi := spi } nv).n.view = nv.header.view
    ∧ Out.send (others (net.node j).cfg) (.prepare (ownPrepare (net.node j).cfg nv.header.height nv.header.view nv.pp.header.hash))
        ∈ (handleNewView { n := net.node j, spi := spi } nv).outs := by
  have hcert := net_newview_is_valid_certificate hwf hr hA2 hi hmi hj hmj rs nv hsent hview
  obtain ⟨hty, hsig, _⟩ := ((reach_blocks hwf hr hA2 i hi hmi).2.2.1 rs nv hsent)
  have hcert' := hcert
  obtain ⟨_, _, a3, a4, _, _, _, a8, _⟩ := hcert'
  refine C11.valid_newview_is_adopted { n := net.node j, spi := spi } nv hcert ⟨hty, ?_, ?_, hnone⟩ hfresh
  · show nv.pp.sender.ok = true
    rw [hsig]; exact a3
  · show isLeader (net.node j).cfg nv.pp.sender.id nv.pp.header.view = true
    rw [hsig, a8]; exact a4

/-- **own votes pass the peers' checks**: every vote a correct member logged under its own name is
valid for every node of the term (C11, VIEW_CHANGE half) -/
theorem net_own_votes_checked (hwf : WF C) {net : Net} (hr : Reach C net) (hA2 : TraceA2 net.trace)
    {i : Nat} (hi : C.honest i = true) (hmi : ∃ m ∈ C.ms, m.id = i)
    (m : VCMsg) (hm : m ∈ (net.node i).store.vcs) (hown : m.c.sender = mySig (C.cfg i))
    (peer : Node) (hsim : CfgSim peer.cfg (C.cfg i)) :
    isViewChangeValid peer m.c = true
    ∧ ¬ (m.block.isNone = true ∧ m.c.header.proof.isSome = true)
    ∧ (m.block.isSome = true → commitmentOk m.block (proofHash m.c.header.proof) = true) := by
  have hcfg := node_cfg hwf hr i hi hmi
  obtain ⟨h1, h2, h3⟩ := (reach_blocks hwf hr hA2 i hi hmi).1.ownVotes m hm (by rw [hcfg]; exact hown)
  refine ⟨?_, h2, h3⟩
  rw [isViewChangeValid_sim peer (net.node i) (by rw [hcfg]; exact hsim)]
  exact h1

/-- **sent votes pass the peers' checks**: every VIEW_CHANGE a correct member has sent — the vote of a
member that is not the next leader goes out without being logged — passes everything `handleViewChange`
checks before logging it, at every node of the term (C11, VIEW_CHANGE half, for the messages on the wire;
`Net.VoteGood`, fourth conjunct of `Net.OutsOK`) -/
theorem net_sent_votes_checked (hwf : WF C) {net : Net} (hr : Reach C net) (hA2 : TraceA2 net.trace)
    {i : Nat} (hi : C.honest i = true) (hmi : ∃ m ∈ C.ms, m.id = i)
    (rs : List Nat) (vc : VCMsg) (hsent : Out.send rs (.viewChange vc) ∈ net.outs i)
    (peer : Node) (hsim : CfgSim peer.cfg (C.cfg i)) : C11.VoteChecked peer vc :=
  (reach_blocks hwf hr hA2 i hi hmi).2.2.2.2 rs vc hsent peer hsim

/-! ## non-vacuity: a concrete execution with a view change

Committee {1,2,3,4}, member 4 Byzantine (silent here).  Nobody proposes in view 0; the election
timers of 3, 1 and 2 fire; 3 and 1 send their votes to member 2, the leader of view 1, which counts
them with its own, is elected, asks its consumer for a block and sends the NEW_VIEW.  Every step
passes the decidable checks of `Net/Sim.lean`, so the state is reachable; its schedule obeys A2; and
the theorems above apply to the NEW_VIEW member 2 sent, at members 1 and 3. -/

open LeanHelix.C01Net (exC exWF)

def exVC (i : Nat) : VCMsg := ⟨⟨⟨tVC, 7, 5, 1, none⟩, ⟨i, true⟩⟩, none⟩
def exBlock2 : Block := ⟨11, 5, 77⟩
def exNV : NVMsg :=
  ⟨⟨tNV, 7, 5, 1, [(exVC 2).c, (exVC 3).c, (exVC 1).c]⟩, ⟨2, true⟩, ⟨⟨tPP, 7, 5, 1, 77⟩, ⟨2, true⟩⟩, some exBlock2⟩

def exSchedVC : List SStep :=
  [(1, .start false, []),
   (2, .start false, []),
   (3, .start false, []),
   (3, .election 5 0, []),
   (1, .election 5 0, []),
   (2, .election 5 0, []),
   (2, .deliver (.viewChange (exVC 3)), []),
   (2, .deliver (.viewChange (exVC 1)), [.proposal exBlock2 none])]

def sendsOf (outs : List Out) : List (List Nat × Message) :=
  outs.filterMap (fun o => match o with | .send r m => some (r, m) | _ => none)

theorem mem_sendsOf {outs : List Out} {r : List Nat} {m : Message} (h : (r, m) ∈ sendsOf outs) : Out.send r m ∈ outs := by
  unfold sendsOf at h
  rw [List.mem_filterMap] at h
  obtain ⟨o, ho, he⟩ := h
  cases o with
  | send r' m' => simp only [Option.some.injEq, Prod.mk.injEq] at he; obtain ⟨rfl, rfl⟩ := he; exact ho
  | commit _ _ => simp at he
  | registerElection _ _ => simp at he
  | callRequest _ => simp at he
  | callValidate _ _ _ => simp at he
  | goPanic _ => simp at he

theorem exOkVC : simOk exC (SimState.init exC) exSchedVC = true := by decide

theorem exVC_traceA2 : TraceA2 exSchedVC.reverse := by
  intro t ht
  rw [List.mem_reverse] at ht
  simp only [exSchedVC, List.mem_cons, List.not_mem_nil, or_false] at ht
  intro cd rest hspi
  rcases ht with rfl | rfl | rfl | rfl | rfl | rfl | rfl | rfl <;> first | (simp at hspi; done) | trivial

/-- the leader of view 1 sent the NEW_VIEW, and members 1 and 3 (both in view 1, holding no proposal
for it) accept it as a certificate; delivered to member 3 with an approving consumer, member 3 sends
its PREPARE for the new leader's block -/
theorem ex_newview : ∃ net, Reach exC net ∧ TraceA2 net.trace
    ∧ Out.send [1, 3, 4] (.newView exNV) ∈ net.outs 2
    ∧ C07.ValidCertificate (net.node 1) exNV ∧ C07.ValidCertificate (net.node 3) exNV
    ∧ Out.send [1, 2, 4] (.prepare ⟨⟨tP, 7, 5, 1, 77⟩, ⟨3, true⟩⟩)
        ∈ (handleNewView { n := net.node 3, spi := [.verdict true none] } exNV).outs := by
  obtain ⟨net, hr, ⟨hn, _, ho⟩, ht⟩ := sim_reach exWF exSchedVC (SimState.init exC) (Net.init exC) .init (agrees_init exC) exOkVC
  have hA2 : TraceA2 net.trace := by rw [ht]; exact (List.append_nil _).symm ▸ exVC_traceA2
  have hsent : Out.send [1, 3, 4] (.newView exNV) ∈ net.outs 2 := by rw [ho]; exact mem_sendsOf (by decide)
  have mem : ∀ i, i = 1 ∨ i = 2 ∨ i = 3 → ∃ m ∈ exC.ms, m.id = i := by
    intro i hi; rcases hi with rfl | rfl | rfl <;> exact ⟨⟨_, 1⟩, by decide, rfl⟩
  refine ⟨net, hr, hA2, hsent, ?_, ?_, ?_⟩
  · exact net_newview_is_valid_certificate exWF hr hA2 (i := 2) (j := 1) rfl (mem 2 (by simp)) rfl (mem 1 (by simp)) _ _ hsent
      (by rw [hn]; decide)
  · exact net_newview_is_valid_certificate exWF hr hA2 (i := 2) (j := 3) rfl (mem 2 (by simp)) rfl (mem 3 (by simp)) _ _ hsent
      (by rw [hn]; decide)
  · have := (net_newview_is_adopted exWF hr hA2 (i := 2) (j := 3) rfl (mem 2 (by simp)) rfl (mem 3 (by simp)) _ _ hsent
      (by rw [hn]; decide) (by rw [hn]; decide) [.verdict true none] (by intro _; rw [hn]; decide)).2
    rw [hn] at this ⊢
    exact this

end LeanHelix.C11Net
