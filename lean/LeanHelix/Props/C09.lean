import LeanHelix.Model.Worker
import LeanHelix.Lemmas.TermOuts
import LeanHelix.Props.C07
/-!
# C09 — View change carries the lock: the highest prepared block is re-proposed

Theorems about the producer side (`Term.election`, `Term.onElectedByViewChange`,
`Term.handleViewChange`) for every node state.
-/
namespace LeanHelix.C09
open LeanHelix LeanHelix.Msg LeanHelix.Term

/-! ## votes that get counted -/

/-- A VIEW_CHANGE is stored (counted) only if it does not carry a proof without its block, and an
attached block commits to the proven hash.  Hence among counted votes "has a block" and "has a proof"
coincide (`counted_vote_block_iff_proof`). -/
theorem viewchange_counted_only_with_matching_block (w : Term.W) (vcm : VCMsg)
    (h : handleViewChange w vcm ≠ w) :
    ¬ (vcm.block.isNone = true ∧ vcm.c.header.proof.isSome = true)
    ∧ (vcm.block.isSome = true → commitmentOk vcm.block (proofHash vcm.c.header.proof) = true) := by
  constructor
  · intro hc
    exact h (C08.viewchange_ignored_if_block_mismatch w vcm (Or.inl hc))
  · intro hb
    cases hcm : commitmentOk vcm.block (proofHash vcm.c.header.proof) with
    | true => rfl
    | false => exact absurd (C08.viewchange_ignored_if_block_mismatch w vcm (Or.inr ⟨hb, hcm⟩)) h

/-- with the consumer's commitment being injective-enough to reject the empty hash for a real block
(a block never commits to the empty byte string), a counted vote has a block iff it has a proof -/
theorem counted_vote_block_iff_proof (w : Term.W) (vcm : VCMsg) (h : handleViewChange w vcm ≠ w)
    (hempty : ∀ b : Block, vcm.block = some b → b.hash ≠ emptyBytes) :
    vcm.block.isSome = vcm.c.header.proof.isSome := by
  obtain ⟨h1, h2⟩ := viewchange_counted_only_with_matching_block w vcm h
  cases hb : vcm.block with
  | none =>
    cases hp : vcm.c.header.proof with
    | none => rfl
    | some p => exact absurd ⟨by simp [hb], by simp [hp]⟩ h1
  | some b =>
    cases hp : vcm.c.header.proof with
    | some p => rfl
    | none =>
      have := h2 (by simp [hb])
      rw [hb, hp] at this
      simp [commitmentOk, proofHash] at this
      exact absurd this (hempty b hb)

/-! ## the new leader's NEW_VIEW -/

/-- `latestBlockFromVCs` picks the block (and proven hash) of a vote whose proof view is the highest
among the votes that carry a block; it finds none iff no vote carries a block. -/
theorem latestBlockFromVCs_spec (vcs : List VCMsg) :
    (latestBlockFromVCs vcs = none ↔ ∀ m ∈ vcs, m.block = none) ∧
    (∀ b hash, latestBlockFromVCs vcs = some (b, hash) →
      ∃ m ∈ vcs, m.block = some b
        ∧ hash = (match m.c.header.proof with | some p => p.pRef.hash | none => emptyBytes)
        ∧ ∀ m' ∈ vcs, m'.block.isSome = true → proofView m'.c.header.proof ≤ proofView m.c.header.proof) := by
  unfold latestBlockFromVCs
  have sp := C07.maxBy_spec (fun (m : VCMsg) => proofView m.c.header.proof) (vcs.filter (fun m => m.block.isSome))
  constructor
  · constructor
    · intro h
      cases hm : maxBy (fun (m : VCMsg) => proofView m.c.header.proof) (vcs.filter (fun m => m.block.isSome)) with
      | none =>
        have := sp.1.mp hm
        simp only [List.filter_eq_nil_iff, Bool.not_eq_true, Option.isSome_eq_false_iff, Option.isNone_iff_eq_none] at this
        exact this
      | some m =>
        rw [hm] at h
        have hmem := (sp.2 m hm).1
        rw [List.mem_filter] at hmem
        cases hb : m.block with
        | none => simp [hb] at hmem
        | some b => simp [hb] at h
    · intro h
      have : vcs.filter (fun m => m.block.isSome) = [] := by
        simp only [List.filter_eq_nil_iff, Bool.not_eq_true, Option.isSome_eq_false_iff, Option.isNone_iff_eq_none]
        exact h
      rw [this]; rfl
  · intro b hash h
    cases hm : maxBy (fun (m : VCMsg) => proofView m.c.header.proof) (vcs.filter (fun m => m.block.isSome)) with
    | none => rw [hm] at h; cases h
    | some m =>
      rw [hm] at h
      obtain ⟨hmem, hmax⟩ := sp.2 m hm
      rw [List.mem_filter] at hmem
      cases hb : m.block with
      | none => simp [hb] at h
      | some b' =>
        simp only [hb, Option.some.injEq, Prod.mk.injEq] at h
        refine ⟨m, hmem.1, by rw [hb, h.1], h.2.symm, ?_⟩
        intro m' hm' hs
        exact hmax m' (List.mem_filter.mpr ⟨hm', hs⟩)

/-- the shape of every NEW_VIEW the election path can send, given the votes `vcs` it counted -/
def NewViewShape (view : Nat) (vcs : List VCMsg) (o : Out) : Prop :=
  ∀ rs nv, o = .send rs (.newView nv) →
    nv.header.view = view
    ∧ nv.header.votes = vcs.map (·.c)                           -- embeds exactly the counted votes
    ∧ nv.pp.header.view = view
    ∧ (match latestBlockFromVCs vcs with
       | some (b, hash) => nv.block = some b ∧ nv.pp.header.hash = hash   -- re-proposes the highest prepared block
       | none => ∃ b, nv.block = some b ∧ nv.pp.header.hash = b.hash)     -- fresh proposal only if no vote carries one

theorem newViewShape_benign (view : Nat) (vcs : List VCMsg) : Benign (NewViewShape view vcs) :=
  ⟨fun _ _ _ _ h => (by cases h), fun _ _ _ h => (by cases h), fun _ _ _ _ _ h => (by cases h), fun _ _ _ h => (by cases h)⟩

/-- **The NEW_VIEW a node sends on being elected embeds exactly the votes it counted and proposes
the block of the highest-view prepared proof among them, requesting a fresh proposal only if no
vote carries a block.** -/
theorem elected_newview_shape (w : Term.W) (view : Nat) (vcs : List VCMsg) :
    Appends (NewViewShape view vcs) w (onElectedByViewChange w view vcs) := by
  have hB := newViewShape_benign view vcs
  unfold onElectedByViewChange
  dsimp only
  have h0 := initView_appends' hB { w with n := { w.n with latestNV := view } } view
  generalize initView { w with n := { w.n with latestNV := view } } view = r at h0 ⊢
  obtain ⟨w1, ok⟩ := r
  have h0' : Appends (NewViewShape view vcs) w w1 := h0
  dsimp only
  split
  · exact h0'
  · split
    · rename_i b hash hl
      refine Appends.emit_trans _ (Appends.setN _ h0') ?_
      intro rs nv hnv
      simp only [Out.send.injEq, Message.newView.injEq] at hnv
      obtain ⟨_, rfl⟩ := hnv
      refine ⟨rfl, rfl, rfl, ?_⟩
      rw [hl]; exact ⟨rfl, rfl⟩
    · rename_i hl
      have h1 := Appends.trans h0' (askProposal_appends' hB w1 w1.n.cfg.height view)
      generalize askProposal w1 w1.n.cfg.height view = r2 at h1 ⊢
      obtain ⟨w2, ob⟩ := r2
      dsimp only at h1 ⊢
      split
      · rename_i b
        refine Appends.emit_trans _ (Appends.setN _ h1) ?_
        intro rs nv hnv
        simp only [Out.send.injEq, Message.newView.injEq] at hnv
        obtain ⟨_, rfl⟩ := hnv
        refine ⟨rfl, rfl, rfl, ?_⟩
        rw [hl]; exact ⟨b, rfl, rfl⟩
      · exact h1

/-! ## the vote sent on timeout -/

/-- the VIEW_CHANGE a node builds when its timer fires; `n` is the node after it moved to the next view -/
def voteOnTimeout (n : Node) : VCMsg :=
  let pr : Option (Proof × Option Block) := match n.prepared with
    | some pv => extractProof n pv
    | none => none
  ⟨⟨⟨tVC, n.cfg.inst, n.cfg.height, n.view, pr.map (·.1)⟩, mySig n.cfg⟩, pr.bind (·.2)⟩

/-- **On timeout the node moves to the next view, votes for it and sends that vote to the next
view's leader (or counts it itself when it is that leader); the vote carries the proof extracted
for its highest prepared view and the stored proposal's block.** -/
theorem timeout_vote (w : Term.W) (h v : Nat) (hcur : h = w.n.cfg.height ∧ v = w.n.view)
    (hinit : ¬ w.n.view > wrap64 (w.n.view + 1)) :
    let nv := wrap64 (w.n.view + 1)
    let w1 : Term.W := { w with n := { w.n with view := nv } }.emit (.registerElection w.n.cfg.height nv)
    election w h v =
      if isLeader w1.n.cfg w1.n.cfg.me nv then
        checkElected { w1 with n := { w1.n with store := w1.n.store.storeVC (voteOnTimeout w1.n) } } h nv
      else w1.emit (.send [leaderId w1.n.cfg nv] (.viewChange (voteOnTimeout w1.n))) := by
  obtain ⟨rfl, rfl⟩ := hcur
  unfold election
  simp only [bne_self_eq_false, Bool.or_self, Bool.false_eq_true, if_false]
  have hi : initView w (wrap64 (w.n.view + 1)) =
      ({ w with n := { w.n with view := wrap64 (w.n.view + 1) } }.emit (.registerElection w.n.cfg.height (wrap64 (w.n.view + 1))), true) := by
    unfold initView; rw [if_neg hinit]
  rw [hi]
  rfl

/-- the proof inside that vote is for exactly the prepared view, built from the stored proposal of
that view and the stored PREPAREs for its hash, whose senders together with the proposer reach quorum -/
theorem extractProof_spec (n : Node) (pv : Nat) (p : Proof) (b : Option Block)
    (h : extractProof n pv = some (p, b)) :
    ∃ ppm, n.store.getPP n.cfg.height pv = some ppm ∧ b = ppm.block
      ∧ p.ppRef.view = ppm.c.header.view ∧ p.ppRef.hash = ppm.c.header.hash ∧ p.ppSender = ppm.c.sender
      ∧ p.pRef.hash = ppm.c.header.hash
      ∧ p.pSenders = (n.store.getPrepares n.cfg.height pv ppm.c.header.hash).map (·.sender)
      ∧ isQuorum n.cfg (p.pSenders.map (·.id) ++ [p.ppSender.id]) = true := by
  unfold extractProof at h
  cases hpp : n.store.getPP n.cfg.height pv with
  | none => simp [hpp] at h
  | some ppm =>
    simp only [hpp] at h
    split at h
    · cases h
    · rename_i hq
      split at h
      · cases h
      · split at h
        · cases h
        · rename_i p0 ps hps
          simp only [Option.some.injEq, Prod.mk.injEq] at h
          obtain ⟨rfl, rfl⟩ := h
          refine ⟨ppm, rfl, rfl, rfl, rfl, rfl, ?_, by rw [hps], ?_⟩
          · -- the first stored PREPARE for that hash has that hash
            have : p0 ∈ n.store.getPrepares n.cfg.height pv ppm.c.header.hash := by rw [hps]; exact List.mem_cons_self ..
            unfold Store.getPrepares at this
            rw [List.mem_filter] at this
            simp only [Bool.and_eq_true, beq_iff_eq] at this
            exact this.2.2
          · simp only [Bool.not_eq_true] at hq
            have hq' : isQuorum n.cfg ((n.store.getPrepares n.cfg.height pv ppm.c.header.hash).map (·.sender.id) ++ [ppm.c.sender.id]) = true := by
              cases hx : isQuorum n.cfg ((n.store.getPrepares n.cfg.height pv ppm.c.header.hash).map (·.sender.id) ++ [ppm.c.sender.id]) with
              | true => rfl
              | false => simp [hx] at hq
            simpa [hps, List.map_map, Function.comp_def] using hq'

end LeanHelix.C09
