import LeanHelix.Model.Wire
/-!
# C20: round trip of the wire format

`decode (encode x) = some x` for every LeanHelix wire structure (well-formed = everything fits its
size header), tolerance of trailing bytes, the reader hands back exactly the bytes that were signed,
and `encode` is injective on well-formed values.
-/
namespace LeanHelix.C20
open LeanHelix.Wire

/-! ## little endian -/

theorem leN_length (k n : Nat) : (leN k n).length = k := by
  induction k generalizing n with
  | zero => rfl
  | succ k ih => simp [leN, ih]

theorem deLE_leN (k n : Nat) : deLE (leN k n) = n % 256 ^ k := by
  induction k generalizing n with
  | zero => simp [leN, deLE, Nat.mod_one]
  | succ k ih =>
    simp only [leN, deLE, ih]
    rw [Nat.pow_succ', Nat.mod_mul]
    have : (UInt8.ofNat (n % 256)).toNat = n % 256 := by
      rw [UInt8.toNat_ofNat']; omega
    rw [this]

theorem deLE_leN_of_lt {k n : Nat} (h : n < 256 ^ k) : deLE (leN k n) = n := by
  rw [deLE_leN, Nat.mod_eq_of_lt h]

@[simp] theorem le16_length (n : Nat) : (le16 n).length = 2 := leN_length 2 n
@[simp] theorem le32_length (n : Nat) : (le32 n).length = 4 := leN_length 4 n
@[simp] theorem le64_length (n : Nat) : (le64 n).length = 8 := leN_length 8 n
@[simp] theorem zeros_length (n : Nat) : (zeros n).length = n := by simp [zeros]

/-- the LE decoders invert the LE encoders on numbers in range -/
theorem de16_le16 {n : Nat} (h : n < 65536) (t : Bytes) : de16 (le16 n ++ t) = n := by
  unfold de16; rw [List.take_left' (le16_length n)]; exact deLE_leN_of_lt (k := 2) h
theorem de32_le32 {n : Nat} (h : n < 4294967296) (t : Bytes) : de32 (le32 n ++ t) = n := by
  unfold de32; rw [List.take_left' (le32_length n)]; exact deLE_leN_of_lt (k := 4) h
theorem de64_le64 {n : Nat} (h : n < 18446744073709551616) (t : Bytes) : de64 (le64 n ++ t) = n := by
  unfold de64; rw [List.take_left' (le64_length n)]; exact deLE_leN_of_lt (k := 8) h

/-! ## reader primitives against writer primitives -/

theorem skip_zeros (n : Nat) (x : Bytes) : skip n (zeros n ++ x) = some x := by
  unfold skip
  have h : n ≤ (zeros n ++ x).length := by simp
  rw [if_pos h, List.drop_left' (zeros_length n)]

theorem rdLE_leN {k n : Nat} (h : n < 256 ^ k) (x : Bytes) : rdLE k (leN k n ++ x) = some (n, x) := by
  unfold rdLE
  have hl : k ≤ (leN k n ++ x).length := by simp [leN_length]
  rw [if_pos hl, List.take_left' (leN_length k n), List.drop_left' (leN_length k n), deLE_leN_of_lt h]

theorem rdBlob_blob {c : Bytes} (h : c.length < 4294967296) (x : Bytes) :
    rdBlob (le32 c.length ++ (c ++ x)) = some (c, x) := by
  unfold rdBlob le32
  rw [rdLE_leN (k := 4) h]
  simp

/-! ## arrays -/

theorem parseArrF_nil (fuel : Nat) : parseArrF fuel [] = [] := by
  cases fuel <;> simp [parseArrF]

theorem parseArrF_writeArr (cs : List Bytes) :
    ∀ fuel, (∀ c ∈ cs, c.length < 4294967296) → cs.length ≤ fuel → parseArrF fuel (writeArr cs) = cs := by
  induction cs with
  | nil => intro fuel _ _; simp [writeArr, parseArrF_nil]
  | cons c cs ih =>
    intro fuel hc hf
    cases fuel with
    | zero => simp at hf
    | succ fuel =>
      have hc0 : c.length < 4294967296 := hc c (List.mem_cons_self ..)
      cases cs with
      | nil =>
        have e : writeArr [c] = le32 c.length ++ (c ++ []) := by simp [writeArr]
        have hne : (le32 c.length ++ (c ++ [])).isEmpty = false := by
          cases h : le32 c.length with
          | nil => have := le32_length c.length; rw [h] at this; simp at this
          | cons a l => rfl
        rw [e, parseArrF, hne, rdBlob_blob hc0]
        simp [parseArrF_nil]
      | cons c' cs =>
        have e : writeArr (c :: c' :: cs) =
            le32 c.length ++ (c ++ (zeros (padLen 4 c.length) ++ writeArr (c' :: cs))) := by
          simp [writeArr]
        have hne : (le32 c.length ++ (c ++ (zeros (padLen 4 c.length) ++ writeArr (c' :: cs)))).isEmpty = false := by
          cases h : le32 c.length with
          | nil => have := le32_length c.length; rw [h] at this; simp at this
          | cons a l => rfl
        rw [e, parseArrF, hne, rdBlob_blob hc0]
        simp only [Bool.false_eq_true, if_false]
        rw [List.drop_left' (zeros_length _)]
        rw [ih fuel (fun x hx => hc x (List.mem_cons_of_mem _ hx)) (by simpa using hf)]

theorem writeArr_length_ge (cs : List Bytes) : cs.length ≤ (writeArr cs).length := by
  induction cs with
  | nil => simp
  | cons c cs ih =>
    cases cs with
    | nil => simp [writeArr]; omega
    | cons c' cs => simp [writeArr] at ih ⊢; omega

theorem parseArr_writeArr (cs : List Bytes) (h : ∀ c ∈ cs, c.length < 4294967296) :
    parseArr (writeArr cs) = cs :=
  parseArrF_writeArr cs _ h (writeArr_length_ge cs)

/-! ## one field -/

theorem all_lt_of_all {cs : List Bytes}
    (h : cs.all (fun c => decide (c.length < 4294967296)) = true) : ∀ c ∈ cs, c.length < 4294967296 := by
  intro c hc
  have := List.all_eq_true.mp h c hc
  simpa using this

/-- the reader gets back the field the builder wrote, and is left with what followed it -/
theorem read_write (ft : FT) (fv : FV) (off : Nat) (t : Bytes) (h : fv.ok ft = true) :
    ft.read off (fv.write off ++ t) = some (fv, t) := by
  cases ft <;> cases fv <;> simp only [FV.ok, Bool.false_eq_true, Bool.and_eq_true, decide_eq_true_eq] at h
  case u16.u16 n =>
    simp only [FT.read, FV.write, List.append_assoc, skip_zeros]
    unfold le16; rw [rdLE_leN (k := 2) h]
  case u64.u64 n =>
    simp only [FT.read, FV.write, List.append_assoc, skip_zeros]
    unfold le64; rw [rdLE_leN (k := 8) h]
  case bytes.bytes b =>
    simp only [FT.read, FV.write, List.append_assoc, skip_zeros, rdBlob_blob h]
  case msg.msg c =>
    simp only [FT.read, FV.write, List.append_assoc, skip_zeros, rdBlob_blob h]
  case msgArr.msgArr cs =>
    simp only [FT.read, FV.write, List.append_assoc, skip_zeros, rdBlob_blob h.2,
      parseArr_writeArr cs (all_lt_of_all h.1)]
  case union.union k i c =>
    obtain ⟨⟨h1, h2⟩, h3⟩ := h
    simp only [FT.read, FV.write, List.append_assoc, skip_zeros]
    unfold le16; rw [rdLE_leN (k := 2) h2]
    simp only [skip_zeros, rdBlob_blob h3]
    rw [if_neg (by omega)]

theorem write_ne_nil (fv : FV) (off : Nat) : 0 < (fv.write off).length := by
  cases fv <;> simp [FV.write] <;> omega

/-! ## whole messages -/

theorem isEmpty_false_of_pos {l : Bytes} (h : 0 < l.length) : l.isEmpty = false := by
  cases l with
  | nil => simp at h
  | cons a l => rfl

theorem parseFrom_writeFrom (fvs : List FV) :
    ∀ (fts : List FT) (off : Nat) (t : Bytes), fieldsOK fts fvs = true →
      parseFrom off fts (writeFrom off fvs ++ t) = some fvs := by
  induction fvs with
  | nil =>
    intro fts off t h
    cases fts with
    | nil => simp [parseFrom]
    | cons ft fts => simp [fieldsOK] at h
  | cons fv fvs ih =>
    intro fts off t h
    cases fts with
    | nil => simp [fieldsOK] at h
    | cons ft fts =>
      simp only [fieldsOK, Bool.and_eq_true] at h
      have hpos := write_ne_nil fv off
      have hne : (writeFrom off (fv :: fvs) ++ t).isEmpty = false := by
        apply isEmpty_false_of_pos
        simp only [writeFrom, List.length_append]; omega
      rw [parseFrom, hne]
      simp only [Bool.false_eq_true, if_false, writeFrom, List.append_assoc]
      rw [read_write ft fv off _ h.1]
      simp only
      have hoff : off + ((fv.write off ++ (writeFrom (off + (fv.write off).length) fvs ++ t)).length -
          (writeFrom (off + (fv.write off).length) fvs ++ t).length) = off + (fv.write off).length := by
        simp only [List.length_append]; omega
      rw [hoff, ih fts _ t h.2]

/-- The generic round trip: a reader with the scheme of a builder-made message, followed by
arbitrary trailing bytes, sees the same field values. -/
theorem parseMsg_writeFields (fts : List FT) (fvs : List FV) (t : Bytes)
    (h : fieldsOK fts fvs = true) (hne : fvs ≠ []) :
    parseMsg fts (writeFields fvs ++ t) = some fvs := by
  cases fvs with
  | nil => exact absurd rfl hne
  | cons fv fvs =>
    cases fts with
    | nil => simp [fieldsOK] at h
    | cons ft fts =>
      have hpos := write_ne_nil fv 0
      have hne : (writeFields (fv :: fvs) ++ t).isEmpty = false := by
        apply isEmpty_false_of_pos
        simp only [writeFields, writeFrom, List.length_append]; omega
      unfold parseMsg
      rw [hne]
      simp only [List.isEmpty_cons, Bool.or_self, Bool.false_eq_true, if_false]
      exact parseFrom_writeFrom _ _ 0 t h

theorem parseMsg_writeFields' (fts : List FT) (fvs : List FV)
    (h : fieldsOK fts fvs = true) (hne : fvs ≠ []) :
    parseMsg fts (writeFields fvs) = some fvs := by
  have := parseMsg_writeFields fts fvs [] h hne
  simpa using this

theorem writeFields_isEmpty (fv : FV) (fvs : List FV) : (writeFields (fv :: fvs)).isEmpty = false := by
  apply isEmpty_false_of_pos
  have := write_ne_nil fv 0
  simp only [writeFields, writeFrom, List.length_append]; omega

/-! ## lists of nested messages -/

theorem mapOpt_map {α : Type} (enc : α → Bytes) (dec : Bytes → Option α) (xs : List α)
    (h : ∀ x ∈ xs, dec (enc x) = some x) : mapOpt dec (xs.map enc) = some xs := by
  induction xs with
  | nil => rfl
  | cons x xs ih =>
    simp only [List.map_cons, mapOpt, h x (List.mem_cons_self ..),
      ih (fun y hy => h y (List.mem_cons_of_mem _ hy))]

/-! ## BlockRef -/

theorem BlockRef.decode_encode_append (x : BlockRef) (h : x.WF) (t : Bytes) :
    BlockRef.decode (BlockRef.encode x ++ t) = some x := by
  unfold BlockRef.decode BlockRef.encode
  rw [parseMsg_writeFields _ _ t h (by simp [BlockRef.fields])]
  simp only [BlockRef.fields]

theorem BlockRef.decode_encode (x : BlockRef) (h : x.WF) : BlockRef.decode (BlockRef.encode x) = some x := by
  simpa using BlockRef.decode_encode_append x h []

/-! ## SenderSig -/

theorem SenderSig.decode_encode_append (x : SenderSig) (h : x.WF) (t : Bytes) :
    SenderSig.decode (SenderSig.encode x ++ t) = some x := by
  unfold SenderSig.decode SenderSig.encode
  rw [parseMsg_writeFields _ _ t h (by simp [SenderSig.fields])]
  simp only [SenderSig.fields]

theorem SenderSig.decode_encode (x : SenderSig) (h : x.WF) : SenderSig.decode (SenderSig.encode x) = some x := by
  simpa using SenderSig.decode_encode_append x h []

theorem SenderSig.mapOpt_decode_encode (xs : List SenderSig) (h : ∀ s ∈ xs, s.WF) :
    mapOpt SenderSig.decode (xs.map SenderSig.encode) = some xs :=
  mapOpt_map _ _ xs (fun s hs => SenderSig.decode_encode s (h s hs))

/-! ## Proof (PreparedProof) -/

theorem Proof.decode_encode_append (x : Proof) (h : x.WF) (t : Bytes) :
    Proof.decode (Proof.encode x ++ t) = some x := by
  obtain ⟨h1, h2, h3, h4, h5⟩ := h
  unfold Proof.decode Proof.encode
  rw [parseMsg_writeFields _ _ t h5 (by simp [Proof.fields])]
  simp only [Proof.fields, BlockRef.decode_encode _ h1, SenderSig.decode_encode _ h2,
    BlockRef.decode_encode _ h3, SenderSig.mapOpt_decode_encode _ h4]

theorem Proof.decode_encode (x : Proof) (h : x.WF) : Proof.decode (Proof.encode x) = some x := by
  simpa using Proof.decode_encode_append x h []

theorem Proof.encode_isEmpty (x : Proof) : (Proof.encode x).isEmpty = false := by
  unfold Proof.encode Proof.fields; exact writeFields_isEmpty _ _

/-! ## VCHeader (ViewChangeHeader) -/

theorem VCHeader.decode_encode_append (x : VCHeader) (h : x.WF) (t : Bytes) :
    VCHeader.decode (VCHeader.encode x ++ t) = some x := by
  obtain ⟨h1, h2⟩ := h
  unfold VCHeader.decode VCHeader.encode
  rw [parseMsg_writeFields _ _ t h2 (by simp [VCHeader.fields])]
  obtain ⟨m, i, hh, v, p⟩ := x
  cases p with
  | none => simp [VCHeader.fields, VCHeader.proofBytes]
  | some p =>
    have hp : p.WF := h1
    simp [VCHeader.fields, VCHeader.proofBytes, Proof.encode_isEmpty, Proof.decode_encode p hp]

theorem VCHeader.decode_encode (x : VCHeader) (h : x.WF) : VCHeader.decode (VCHeader.encode x) = some x := by
  simpa using VCHeader.decode_encode_append x h []

/-! ## VCContent (ViewChangeMessageContent) -/

theorem VCContent.decode_encode_append (x : VCContent) (h : x.WF) (t : Bytes) :
    VCContent.decode (VCContent.encode x ++ t) = some x := by
  obtain ⟨h1, h2, h3⟩ := h
  unfold VCContent.decode VCContent.encode
  rw [parseMsg_writeFields _ _ t h3 (by simp [VCContent.fields])]
  simp only [VCContent.fields, VCHeader.decode_encode _ h1, SenderSig.decode_encode _ h2]

theorem VCContent.decode_encode (x : VCContent) (h : x.WF) : VCContent.decode (VCContent.encode x) = some x := by
  simpa using VCContent.decode_encode_append x h []

theorem VCContent.mapOpt_decode_encode (xs : List VCContent) (h : ∀ s ∈ xs, s.WF) :
    mapOpt VCContent.decode (xs.map VCContent.encode) = some xs :=
  mapOpt_map _ _ xs (fun s hs => VCContent.decode_encode s (h s hs))

/-! ## NVHeader (NewViewHeader) -/

theorem NVHeader.decode_encode_append (x : NVHeader) (h : x.WF) (t : Bytes) :
    NVHeader.decode (NVHeader.encode x ++ t) = some x := by
  obtain ⟨h1, h2⟩ := h
  unfold NVHeader.decode NVHeader.encode
  rw [parseMsg_writeFields _ _ t h2 (by simp [NVHeader.fields])]
  simp only [NVHeader.fields, VCContent.mapOpt_decode_encode _ h1]

theorem NVHeader.decode_encode (x : NVHeader) (h : x.WF) : NVHeader.decode (NVHeader.encode x) = some x := by
  simpa using NVHeader.decode_encode_append x h []

/-! ## PPContent (PreprepareContent and PrepareContent) -/

theorem PPContent.decode_encode_append (x : PPContent) (h : x.WF) (t : Bytes) :
    PPContent.decode (PPContent.encode x ++ t) = some x := by
  obtain ⟨h1, h2, h3⟩ := h
  unfold PPContent.decode PPContent.encode
  rw [parseMsg_writeFields _ _ t h3 (by simp [PPContent.fields])]
  simp only [PPContent.fields, BlockRef.decode_encode _ h1, SenderSig.decode_encode _ h2]

theorem PPContent.decode_encode (x : PPContent) (h : x.WF) : PPContent.decode (PPContent.encode x) = some x := by
  simpa using PPContent.decode_encode_append x h []

/-! ## CContent (CommitContent) -/

theorem CContent.decode_encode_append (x : CContent) (h : x.WF) (t : Bytes) :
    CContent.decode (CContent.encode x ++ t) = some x := by
  obtain ⟨h1, h2, h3⟩ := h
  unfold CContent.decode CContent.encode
  rw [parseMsg_writeFields _ _ t h3 (by simp [CContent.fields])]
  simp only [CContent.fields, BlockRef.decode_encode _ h1, SenderSig.decode_encode _ h2]

theorem CContent.decode_encode (x : CContent) (h : x.WF) : CContent.decode (CContent.encode x) = some x := by
  simpa using CContent.decode_encode_append x h []

/-! ## NVContent (NewViewMessageContent) -/

theorem NVContent.decode_encode_append (x : NVContent) (h : x.WF) (t : Bytes) :
    NVContent.decode (NVContent.encode x ++ t) = some x := by
  obtain ⟨h1, h2, h3, h4⟩ := h
  unfold NVContent.decode NVContent.encode
  rw [parseMsg_writeFields _ _ t h4 (by simp [NVContent.fields])]
  simp only [NVContent.fields, NVHeader.decode_encode _ h1, SenderSig.decode_encode _ h2,
    PPContent.decode_encode _ h3]

theorem NVContent.decode_encode (x : NVContent) (h : x.WF) : NVContent.decode (NVContent.encode x) = some x := by
  simpa using NVContent.decode_encode_append x h []

/-! ## Content (LeanhelixContent, the top-level union) -/

theorem Content.decode_encode_append (x : Content) (h : x.WF) (t : Bytes) :
    Content.decode (Content.encode x ++ t) = some x := by
  cases x with
  | preprepare c =>
    obtain ⟨h1, h2⟩ := h
    unfold Content.decode Content.encode
    rw [parseMsg_writeFields _ _ t h2 (by simp [Content.fields])]
    simp only [Content.fields, PPContent.decode_encode _ h1, Option.map_some]
  | prepare c =>
    obtain ⟨h1, h2⟩ := h
    unfold Content.decode Content.encode
    rw [parseMsg_writeFields _ _ t h2 (by simp [Content.fields])]
    simp only [Content.fields, PPContent.decode_encode _ h1, Option.map_some]
  | commit c =>
    obtain ⟨h1, h2⟩ := h
    unfold Content.decode Content.encode
    rw [parseMsg_writeFields _ _ t h2 (by simp [Content.fields])]
    simp only [Content.fields, CContent.decode_encode _ h1, Option.map_some]
  | viewChange c =>
    obtain ⟨h1, h2⟩ := h
    unfold Content.decode Content.encode
    rw [parseMsg_writeFields _ _ t h2 (by simp [Content.fields])]
    simp only [Content.fields, VCContent.decode_encode _ h1, Option.map_some]
  | newView c =>
    obtain ⟨h1, h2⟩ := h
    unfold Content.decode Content.encode
    rw [parseMsg_writeFields _ _ t h2 (by simp [Content.fields])]
    simp only [Content.fields, NVContent.decode_encode _ h1, Option.map_some]

theorem Content.decode_encode (x : Content) (h : x.WF) : Content.decode (Content.encode x) = some x := by
  simpa using Content.decode_encode_append x h []

/-! ## BlockProof -/

theorem BlockProof.decode_encode_append (x : BlockProof) (h : x.WF) (t : Bytes) :
    BlockProof.decode (BlockProof.encode x ++ t) = some x := by
  obtain ⟨h1, h2, h3⟩ := h
  unfold BlockProof.decode BlockProof.encode
  rw [parseMsg_writeFields _ _ t h3 (by simp [BlockProof.fields])]
  simp only [BlockProof.fields, BlockRef.decode_encode _ h1, SenderSig.mapOpt_decode_encode _ h2]

theorem BlockProof.decode_encode (x : BlockProof) (h : x.WF) : BlockProof.decode (BlockProof.encode x) = some x := by
  simpa using BlockProof.decode_encode_append x h []

/-! ## signed bytes: the reader hands the verifier exactly the bytes the signer's builder produced

Signing: `signedHeader.Build().Raw()` (= `X.encode header`); verifying: `content.SignedHeader().Raw()`
(= `signedRaw` of the received content). -/

theorem PPContent.signedRaw_encode (c : PPContent) (h : c.WF) (t : Bytes) :
    PPContent.signedRaw (PPContent.encode c ++ t) = some (BlockRef.encode c.header) := by
  unfold PPContent.signedRaw PPContent.encode
  rw [parseMsg_writeFields _ _ t h.2.2 (by simp [PPContent.fields])]
  simp only [PPContent.fields]

theorem CContent.signedRaw_encode (c : CContent) (h : c.WF) (t : Bytes) :
    CContent.signedRaw (CContent.encode c ++ t) = some (BlockRef.encode c.header) := by
  unfold CContent.signedRaw CContent.encode
  rw [parseMsg_writeFields _ _ t h.2.2 (by simp [CContent.fields])]
  simp only [CContent.fields]

theorem VCContent.signedRaw_encode (c : VCContent) (h : c.WF) (t : Bytes) :
    VCContent.signedRaw (VCContent.encode c ++ t) = some (VCHeader.encode c.header) := by
  unfold VCContent.signedRaw VCContent.encode
  rw [parseMsg_writeFields _ _ t h.2.2 (by simp [VCContent.fields])]
  simp only [VCContent.fields]

theorem NVContent.signedRaw_encode (c : NVContent) (h : c.WF) (t : Bytes) :
    NVContent.signedRaw (NVContent.encode c ++ t) = some (NVHeader.encode c.header) := by
  unfold NVContent.signedRaw NVContent.encode
  rw [parseMsg_writeFields _ _ t h.2.2.2 (by simp [NVContent.fields])]
  simp only [NVContent.fields]

/-- top level: whatever the content type, `hdr` of the encoded content = the bytes that were signed -/
theorem Content.signedRaw_encode (c : Content) (h : c.WF) (t : Bytes) :
    Content.signedRaw (Content.encode c ++ t) = some c.headerBytes := by
  cases c with
  | preprepare c =>
    obtain ⟨h1, h2⟩ := h
    unfold Content.signedRaw Content.encode
    rw [parseMsg_writeFields _ _ t h2 (by simp [Content.fields])]
    simpa [Content.fields, Content.headerBytes] using PPContent.signedRaw_encode c h1 []
  | prepare c =>
    obtain ⟨h1, h2⟩ := h
    unfold Content.signedRaw Content.encode
    rw [parseMsg_writeFields _ _ t h2 (by simp [Content.fields])]
    simpa [Content.fields, Content.headerBytes] using PPContent.signedRaw_encode c h1 []
  | commit c =>
    obtain ⟨h1, h2⟩ := h
    unfold Content.signedRaw Content.encode
    rw [parseMsg_writeFields _ _ t h2 (by simp [Content.fields])]
    simpa [Content.fields, Content.headerBytes] using CContent.signedRaw_encode c h1 []
  | viewChange c =>
    obtain ⟨h1, h2⟩ := h
    unfold Content.signedRaw Content.encode
    rw [parseMsg_writeFields _ _ t h2 (by simp [Content.fields])]
    simpa [Content.fields, Content.headerBytes] using VCContent.signedRaw_encode c h1 []
  | newView c =>
    obtain ⟨h1, h2⟩ := h
    unfold Content.signedRaw Content.encode
    rw [parseMsg_writeFields _ _ t h2 (by simp [Content.fields])]
    simpa [Content.fields, Content.headerBytes] using NVContent.signedRaw_encode c h1 []

/-- after the round trip, re-encoding the decoded header gives the raw bytes the reader hands out -/
theorem Content.signed_bytes_roundtrip (c : Content) (h : c.WF) :
    ∃ c', Content.decode (Content.encode c) = some c' ∧
      Content.signedRaw (Content.encode c) = some c'.headerBytes :=
  ⟨c, Content.decode_encode c h, by simpa using Content.signedRaw_encode c h []⟩

/-! ### inside proofs: the raw slices are the builder outputs of the parts -/

theorem Proof.raw_encode (p : Proof) (h : p.WF) (t : Bytes) :
    Proof.raw (Proof.encode p ++ t) =
      some (BlockRef.encode p.ppRef, SenderSig.encode p.ppSender, BlockRef.encode p.pRef,
        p.pSenders.map SenderSig.encode) := by
  unfold Proof.raw Proof.encode
  rw [parseMsg_writeFields _ _ t h.2.2.2.2 (by simp [Proof.fields])]
  simp only [Proof.fields]

/-- decoding an encoded proof and re-encoding its block refs gives the original (signed) bytes -/
theorem Proof.reencode_refs (p : Proof) (h : p.WF) :
    ∃ q, Proof.decode (Proof.encode p) = some q ∧
      Proof.raw (Proof.encode p) =
        some (BlockRef.encode q.ppRef, SenderSig.encode q.ppSender, BlockRef.encode q.pRef,
          q.pSenders.map SenderSig.encode) :=
  ⟨p, Proof.decode_encode p h, by simpa using Proof.raw_encode p h []⟩

theorem VCHeader.proofRaw_encode (x : VCHeader) (h : x.WF) (t : Bytes) :
    VCHeader.proofRaw (VCHeader.encode x ++ t) = some (VCHeader.proofBytes x.proof) := by
  unfold VCHeader.proofRaw VCHeader.encode
  rw [parseMsg_writeFields _ _ t h.2 (by simp [VCHeader.fields])]
  simp only [VCHeader.fields]

/-- the votes inside a NEW_VIEW header come out as the very bytes each voter's content builder made
(so `VCContent.signedRaw_encode` applies to each of them) -/
theorem NVHeader.votesRaw_encode (x : NVHeader) (h : x.WF) (t : Bytes) :
    NVHeader.votesRaw (NVHeader.encode x ++ t) = some (x.votes.map VCContent.encode) := by
  unfold NVHeader.votesRaw NVHeader.encode
  rw [parseMsg_writeFields _ _ t h.2 (by simp [NVHeader.fields])]
  simp only [NVHeader.fields]

theorem BlockProof.refRaw_encode (x : BlockProof) (h : x.WF) (t : Bytes) :
    BlockProof.refRaw (BlockProof.encode x ++ t) = some (BlockRef.encode x.ref) := by
  unfold BlockProof.refRaw BlockProof.encode
  rw [parseMsg_writeFields _ _ t h.2.2 (by simp [BlockProof.fields])]
  simp only [BlockProof.fields]

theorem BlockProof.reencode_ref (x : BlockProof) (h : x.WF) :
    ∃ y, BlockProof.decode (BlockProof.encode x) = some y ∧
      BlockProof.refRaw (BlockProof.encode x) = some (BlockRef.encode y.ref) :=
  ⟨x, BlockProof.decode_encode x h, by simpa using BlockProof.refRaw_encode x h []⟩

/-! ## encode is injective on well-formed values, even up to trailing bytes -/

theorem inj_of_decode_append {α : Type} {enc : α → Bytes} {dec : Bytes → Option α} {P : α → Prop}
    (hd : ∀ x, P x → ∀ t, dec (enc x ++ t) = some x)
    {x y : α} (hx : P x) (hy : P y) {t u : Bytes} (e : enc x ++ t = enc y ++ u) : x = y := by
  have h1 := hd x hx t
  rw [e, hd y hy u] at h1
  exact (Option.some.inj h1).symm

theorem BlockRef.encode_prefix_inj {x y : BlockRef} (hx : x.WF) (hy : y.WF) {t u : Bytes}
    (e : BlockRef.encode x ++ t = BlockRef.encode y ++ u) : x = y :=
  inj_of_decode_append (P := BlockRef.WF) BlockRef.decode_encode_append hx hy e
theorem BlockRef.encode_injective {x y : BlockRef} (hx : x.WF) (hy : y.WF)
    (e : BlockRef.encode x = BlockRef.encode y) : x = y :=
  BlockRef.encode_prefix_inj hx hy (t := []) (u := []) (by rw [e])

theorem SenderSig.encode_injective {x y : SenderSig} (hx : x.WF) (hy : y.WF)
    (e : SenderSig.encode x = SenderSig.encode y) : x = y :=
  inj_of_decode_append (P := SenderSig.WF) SenderSig.decode_encode_append hx hy (t := []) (u := []) (by rw [e])

theorem Proof.encode_injective {x y : Proof} (hx : x.WF) (hy : y.WF)
    (e : Proof.encode x = Proof.encode y) : x = y :=
  inj_of_decode_append (P := Proof.WF) Proof.decode_encode_append hx hy (t := []) (u := []) (by rw [e])

theorem VCHeader.encode_injective {x y : VCHeader} (hx : x.WF) (hy : y.WF)
    (e : VCHeader.encode x = VCHeader.encode y) : x = y :=
  inj_of_decode_append (P := VCHeader.WF) VCHeader.decode_encode_append hx hy (t := []) (u := []) (by rw [e])

theorem VCContent.encode_injective {x y : VCContent} (hx : x.WF) (hy : y.WF)
    (e : VCContent.encode x = VCContent.encode y) : x = y :=
  inj_of_decode_append (P := VCContent.WF) VCContent.decode_encode_append hx hy (t := []) (u := []) (by rw [e])

theorem NVHeader.encode_injective {x y : NVHeader} (hx : x.WF) (hy : y.WF)
    (e : NVHeader.encode x = NVHeader.encode y) : x = y :=
  inj_of_decode_append (P := NVHeader.WF) NVHeader.decode_encode_append hx hy (t := []) (u := []) (by rw [e])

theorem PPContent.encode_injective {x y : PPContent} (hx : x.WF) (hy : y.WF)
    (e : PPContent.encode x = PPContent.encode y) : x = y :=
  inj_of_decode_append (P := PPContent.WF) PPContent.decode_encode_append hx hy (t := []) (u := []) (by rw [e])

theorem CContent.encode_injective {x y : CContent} (hx : x.WF) (hy : y.WF)
    (e : CContent.encode x = CContent.encode y) : x = y :=
  inj_of_decode_append (P := CContent.WF) CContent.decode_encode_append hx hy (t := []) (u := []) (by rw [e])

theorem NVContent.encode_injective {x y : NVContent} (hx : x.WF) (hy : y.WF)
    (e : NVContent.encode x = NVContent.encode y) : x = y :=
  inj_of_decode_append (P := NVContent.WF) NVContent.decode_encode_append hx hy (t := []) (u := []) (by rw [e])

theorem Content.encode_prefix_inj {x y : Content} (hx : x.WF) (hy : y.WF) {t u : Bytes}
    (e : Content.encode x ++ t = Content.encode y ++ u) : x = y :=
  inj_of_decode_append (P := Content.WF) Content.decode_encode_append hx hy e
theorem Content.encode_injective {x y : Content} (hx : x.WF) (hy : y.WF)
    (e : Content.encode x = Content.encode y) : x = y :=
  Content.encode_prefix_inj hx hy (t := []) (u := []) (by rw [e])

theorem BlockProof.encode_injective {x y : BlockProof} (hx : x.WF) (hy : y.WF)
    (e : BlockProof.encode x = BlockProof.encode y) : x = y :=
  inj_of_decode_append (P := BlockProof.WF) BlockProof.decode_encode_append hx hy (t := []) (u := []) (by rw [e])

/-! ## `writeArr` is what `WriteMessageArray` does: `WriteMessage` for each element in turn
(each aligning itself to 4 first), started at an offset that is a multiple of 4 -/

theorem writeFrom_msgs (c : Bytes) (cs : List Bytes) :
    ∀ off, writeFrom off ((c :: cs).map FV.msg) = zeros (padLen 4 off) ++ writeArr (c :: cs) := by
  induction cs generalizing c with
  | nil => intro off; simp [writeFrom, FV.write, writeArr]
  | cons c' cs ih =>
    intro off
    have hlen : ((FV.msg c).write off).length = padLen 4 off + (4 + c.length) := by
      simp [FV.write]
    have hpad : padLen 4 (off + (padLen 4 off + (4 + c.length))) = padLen 4 c.length := by
      unfold padLen; omega
    have e : writeFrom off ((c :: c' :: cs).map FV.msg) =
        (FV.msg c).write off ++ writeFrom (off + ((FV.msg c).write off).length) ((c' :: cs).map FV.msg) := rfl
    rw [e, hlen, ih c', hpad]
    simp [FV.write, writeArr]

theorem writeArr_eq_writeFrom (cs : List Bytes) (off : Nat) (h : off % 4 = 0) :
    writeFrom off (cs.map FV.msg) = writeArr cs := by
  cases cs with
  | nil => rfl
  | cons c cs =>
    rw [writeFrom_msgs]
    have : padLen 4 off = 0 := by unfold padLen; omega
    simp [this, zeros]

/-! ## sanity checks on concrete values -/

example : le16 0x1234 = [0x34, 0x12] := by decide
example : le32 5 = [5, 0, 0, 0] := by decide
example : padLen 4 5 = 3 ∧ padLen 4 8 = 0 ∧ padLen 2 3 = 1 := by decide
example : BlockRef.encode ⟨1, 2, 3, 4, [0xab, 0xcd, 0xef]⟩ =
    [2,0,0,0,0,0,0,0, 1,0, 0,0, 3,0,0,0,0,0,0,0, 4,0,0,0,0,0,0,0, 3,0,0,0, 0xab,0xcd,0xef] := by decide
example : SenderSig.encode ⟨[1], [2, 3]⟩ = [1,0,0,0, 1, 0,0,0, 2,0,0,0, 2,3] := by decide
example : writeArr [[1], [2, 3]] = [1,0,0,0, 1, 0,0,0, 2,0,0,0, 2,3] := by decide
example : parseArr [1,0,0,0, 1, 0,0,0, 2,0,0,0, 2,3] = [[1], [2, 3]] := by decide
example : parseArr [1,0,0,0, 1, 0,0,0, 9,0,0,0, 2,3] = [[1], []] := by decide  -- overrun: one empty element, stop
example : BlockRef.decode [2,0,0,0,0,0,0,0, 1,0] = some ⟨1, 2, 0, 0, []⟩ := by decide -- missing fields read as defaults
example : BlockRef.decode [2,0,0,0,0,0,0,0, 1,0, 0] = none := by decide               -- padding runs into the end
example : BlockRef.decode [] = none := by decide
example : Content.decode (Content.encode (.prepare ⟨⟨2, 7, 8, 9, [1, 2, 3, 4, 5]⟩, ⟨[6], []⟩⟩) ++ [0xff]) =
    some (.prepare ⟨⟨2, 7, 8, 9, [1, 2, 3, 4, 5]⟩, ⟨[6], []⟩⟩) := by decide
example : (Content.prepare ⟨⟨2, 7, 8, 9, [1, 2, 3, 4, 5]⟩, ⟨[6], []⟩⟩).WF := by decide

end LeanHelix.C20
