import LeanHelix.Model.Trigger
/-!
# C19 (trigger part) — one trigger per armed view, carrying exactly that pair; none of a superseded pair

Theorems about the bookkeeping model of `TimerBasedElectionTrigger` for every sequence of
RegisterOnElection / Stop / timer expiry / channel read.  Real time ("not before the timeout"),
`time.Timer` semantics and the select race between a ready reader and a concurrent cancel are
runtime facts outside the model (the worker's and the term's (height, view) equality checks make a
stale trigger harmless; that part is `C19.stale_trigger_ignored` over the Worker model).
-/
namespace LeanHelix.C19
open LeanHelix.Trigger

def live (s : TState) : Prop := s = .pending ∨ s = .sending

structure Inv0 (t : Trig) : Prop where
  ids_lt : ∀ x ∈ t.timers, x.id < t.next
  ids_nodup : (t.timers.map (·.id)).Nodup
  live_is_current : ∀ x ∈ t.timers, live x.st → t.timer = some x.id

structure Inv (t : Trig) : Prop extends Inv0 t where
  current_pair : ∀ id, t.timer = some id → ∃ x ∈ t.timers, x.id = id ∧ x.h = t.h ∧ x.v = t.v
  armed_alive : t.handler = true → ∃ x ∈ t.timers, t.timer = some x.id ∧ x.h = t.h ∧ x.v = t.v
      ∧ (x.st = .pending ∨ x.st = .sending ∨ x.st = .delivered)

theorem inv_init : Inv {} :=
  ⟨⟨by simp, by simp, by simp⟩, by simp, by simp⟩

theorem mem_setSt {ts : List Timer} {id : Nat} {s : TState} {y : Timer} (hy : y ∈ setSt ts id s) :
    ∃ x ∈ ts, y.id = x.id ∧ y.h = x.h ∧ y.v = x.v ∧ ((x.id = id ∧ y.st = s) ∨ (x.id ≠ id ∧ y.st = x.st)) := by
  unfold setSt at hy
  rw [List.mem_map] at hy
  obtain ⟨x, hx, rfl⟩ := hy
  refine ⟨x, hx, ?_⟩
  by_cases h : (x.id == id) = true
  · rw [if_pos h]; exact ⟨rfl, rfl, rfl, Or.inl ⟨by simpa using h, rfl⟩⟩
  · rw [if_neg h]; exact ⟨rfl, rfl, rfl, Or.inr ⟨by simpa using h, rfl⟩⟩

theorem setSt_ids (ts : List Timer) (id : Nat) (s : TState) : (setSt ts id s).map (·.id) = ts.map (·.id) := by
  unfold setSt
  rw [List.map_map]
  apply List.map_congr_left
  intro x _; simp only [Function.comp]; split <;> rfl

theorem mem_setSt_of_mem {ts : List Timer} {id : Nat} {s : TState} {x : Timer} (hx : x ∈ ts) :
    ∃ y ∈ setSt ts id s, y.id = x.id ∧ y.h = x.h ∧ y.v = x.v ∧ (if x.id = id then y.st = s else y.st = x.st) := by
  unfold setSt
  refine ⟨if (x.id == id) = true then { x with st := s } else x, List.mem_map.mpr ⟨x, hx, rfl⟩, ?_⟩
  by_cases h : (x.id == id) = true
  · have : x.id = id := by simpa using h
    rw [if_pos h, if_pos this]; exact ⟨rfl, rfl, rfl, rfl⟩
  · have : x.id ≠ id := by simpa using h
    rw [if_neg h, if_neg this]; exact ⟨rfl, rfl, rfl, rfl⟩

theorem getSt_some {ts : List Timer} {id : Nat} {s : TState} (h : getSt ts id = some s) :
    ∃ x ∈ ts, x.id = id ∧ x.st = s := by
  unfold getSt at h
  cases hf : ts.find? (fun t => t.id == id) with
  | none => simp [hf] at h
  | some x =>
    simp [hf] at h
    exact ⟨x, List.mem_of_find?_eq_some hf, by simpa using List.find?_some hf, h⟩

private theorem uniq {ts : List Timer} (hnd : (ts.map (·.id)).Nodup) {a b : Timer} (ha : a ∈ ts) (hb : b ∈ ts)
    (e : a.id = b.id) : a = b := by
  induction ts with
  | nil => cases ha
  | cons x xs ih =>
    simp only [List.map_cons, List.nodup_cons] at hnd
    simp only [List.mem_cons] at ha hb
    rcases ha with rfl | ha <;> rcases hb with rfl | hb
    · rfl
    · exact absurd (List.mem_map.mpr ⟨b, hb, e.symm⟩) hnd.1
    · exact absurd (List.mem_map.mpr ⟨a, ha, e⟩) hnd.1
    · exact ih hnd.2 ha hb

theorem stoppedTimers_spec (t : Trig) (h : Inv0 t) (id : Nat) (ht : t.timer = some id) :
    ((stoppedTimers t.timers id).map (·.id) = t.timers.map (·.id)) ∧ (∀ x ∈ stoppedTimers t.timers id, x.id < t.next)
    ∧ (∀ x ∈ stoppedTimers t.timers id, ¬ live x.st) := by
  have nl_other : ∀ x ∈ t.timers, x.id ≠ id → ¬ live x.st := by
    intro x hx ne hl
    have := h.live_is_current x hx hl; rw [ht] at this
    exact ne (by injection this with this; exact this.symm)
  have set_case : ∀ s, ¬ live s →
      ((setSt t.timers id s).map (·.id) = t.timers.map (·.id)) ∧ (∀ x ∈ setSt t.timers id s, x.id < t.next)
      ∧ (∀ x ∈ setSt t.timers id s, ¬ live x.st) := by
    intro s hs
    refine ⟨setSt_ids _ _ _, ?_, ?_⟩
    · intro y hy; obtain ⟨x, hx, e, _⟩ := mem_setSt hy; rw [e]; exact h.ids_lt x hx
    · intro y hy hl
      obtain ⟨x, hx, _, _, _, c⟩ := mem_setSt hy
      rcases c with ⟨_, e⟩ | ⟨ne, e⟩
      · rw [e] at hl; exact hs hl
      · rw [e] at hl; exact nl_other x hx ne hl
  unfold stoppedTimers
  cases hg : getSt t.timers id with
  | none =>
    refine ⟨rfl, h.ids_lt, ?_⟩
    intro x hx hl
    by_cases c : x.id = id
    · have : getSt t.timers id ≠ none := by
        unfold getSt
        cases hf : t.timers.find? (fun t => t.id == id) with
        | none => have := List.find?_eq_none.mp hf x hx; simp [c] at this
        | some y => simp
      exact this hg
    · exact nl_other x hx c hl
  | some st =>
    have same : st ≠ .pending → st ≠ .sending →
        (t.timers.map (·.id) = t.timers.map (·.id)) ∧ (∀ x ∈ t.timers, x.id < t.next) ∧ (∀ x ∈ t.timers, ¬ live x.st) := by
      intro n1 n2
      refine ⟨rfl, h.ids_lt, ?_⟩
      intro x hx hl
      by_cases c : x.id = id
      · obtain ⟨z, hz, hzid, hzst⟩ := getSt_some hg
        have : x = z := uniq h.ids_nodup hx hz (by rw [c, hzid])
        subst this
        rcases hl with hl | hl
        · rw [hl] at hzst; exact n1 hzst.symm
        · rw [hl] at hzst; exact n2 hzst.symm
      · exact nl_other x hx c hl
    cases st with
    | pending => exact set_case .stopped (by intro c; rcases c with c | c <;> cases c)
    | sending => exact set_case .cancelled (by intro c; rcases c with c | c <;> cases c)
    | delivered => exact same (by simp) (by simp)
    | stopped => exact same (by simp) (by simp)
    | cancelled => exact same (by simp) (by simp)

theorem stop_none (t : Trig) (h : t.timer = none) : stop t = { t with handler := false } := by
  unfold stop; rw [h]

theorem stop_some (t : Trig) (id : Nat) (h : t.timer = some id) :
    stop t = { t with handler := false, timers := stoppedTimers t.timers id, timer := none } := by
  unfold stop; rw [h]

/-- after `Stop` nothing is armed and no timer is pending or sending -/
theorem stop_inv (t : Trig) (h : Inv0 t) :
    Inv (stop t) ∧ (stop t).handler = false ∧ (stop t).timer = none ∧ (∀ x ∈ (stop t).timers, ¬ live x.st)
    ∧ (stop t).next = t.next ∧ (stop t).h = t.h ∧ (stop t).v = t.v := by
  cases ht : t.timer with
  | none =>
    rw [stop_none t ht]
    have nolive : ∀ x ∈ t.timers, ¬ live x.st := by
      intro x hx hl; have := h.live_is_current x hx hl; rw [ht] at this; cases this
    refine ⟨⟨⟨h.ids_lt, h.ids_nodup, ?_⟩, ?_, ?_⟩, rfl, ht, nolive, rfl, rfl, rfl⟩
    · intro x hx hl; exact absurd hl (nolive x hx)
    · intro id hid; have hid' : t.timer = some id := hid; rw [ht] at hid'; cases hid'
    · intro hh; cases hh
  | some id =>
    rw [stop_some t id ht]
    obtain ⟨e, lt, nl⟩ := stoppedTimers_spec t h id ht
    refine ⟨⟨⟨lt, by rw [e]; exact h.ids_nodup, ?_⟩, ?_, ?_⟩, rfl, rfl, nl, rfl, rfl, rfl⟩
    · intro x hx hl; exact absurd hl (nl x hx)
    · intro i hi; cases hi
    · intro hh; cases hh

/-- **Arming**: after `RegisterOnElection(h, v)` the trigger is armed for exactly (h, v) with a timer
that is pending, sending or delivered — a fresh pending one unless the same pair was already armed. -/
theorem register_inv (t : Trig) (h : Inv t) (hh vv : Nat) :
    Inv (register t hh vv) ∧ (register t hh vv).handler = true ∧ (register t hh vv).h = hh ∧ (register t hh vv).v = vv := by
  unfold register
  by_cases c : (t.handler && t.v == vv && t.h == hh) = true
  · rw [if_pos c]
    simp only [Bool.and_eq_true, beq_iff_eq] at c
    exact ⟨h, c.1.1, c.2, c.1.2⟩
  · rw [if_neg c]
    have h' : Inv0 { t with h := hh, v := vv } := ⟨h.ids_lt, h.ids_nodup, h.live_is_current⟩
    obtain ⟨i1, _, i3, i4, i5, i6, i7⟩ := stop_inv _ h'
    generalize stop { t with h := hh, v := vv } = s at i1 i3 i4 i5 i6 i7
    have i6' : s.h = hh := i6
    have i7' : s.v = vv := i7
    refine ⟨⟨⟨?_, ?_, ?_⟩, ?_, ?_⟩, rfl, i6', i7'⟩
    · intro x hx; simp at hx
      rcases hx with hx | rfl
      · have := i1.ids_lt x hx; simp; omega
      · simp
    · simp only [List.map_append, List.map_cons, List.map_nil]
      rw [List.nodup_append]
      refine ⟨i1.ids_nodup, by simp, ?_⟩
      intro a ha b hb; simp at hb; subst hb
      obtain ⟨x, hx, rfl⟩ := List.mem_map.mp ha
      have := i1.ids_lt x hx; omega
    · intro x hx hl; simp at hx
      rcases hx with hx | rfl
      · exact absurd hl (i4 x hx)
      · rfl
    · intro id hid; simp at hid; subst hid
      exact ⟨⟨s.next, hh, vv, .pending⟩, by simp, rfl, i6'.symm, i7'.symm⟩
    · intro _
      exact ⟨⟨s.next, hh, vv, .pending⟩, by simp, rfl, i6'.symm, i7'.symm, Or.inl rfl⟩

theorem fire_inv (t : Trig) (h : Inv t) (id : Nat) : Inv (fire t id) := by
  unfold fire
  cases hg : getSt t.timers id with
  | none => exact h
  | some st =>
    cases st with
    | pending =>
      simp only
      obtain ⟨z, hz, hzid, hzst⟩ := getSt_some hg
      refine ⟨⟨?_, by rw [setSt_ids]; exact h.ids_nodup, ?_⟩, ?_, ?_⟩
      · intro y hy; obtain ⟨x, hx, e, _⟩ := mem_setSt hy; rw [e]; exact h.ids_lt x hx
      · intro y hy hl
        obtain ⟨x, hx, e, _, _, c⟩ := mem_setSt hy
        rcases c with ⟨e2, _⟩ | ⟨_, e2⟩
        · -- the fired timer was pending, hence current
          have : x = z := uniq h.ids_nodup hx hz (by rw [e2, hzid])
          subst this
          rw [e]; exact h.live_is_current x hx (Or.inl hzst)
        · rw [e2] at hl; rw [e]; exact h.live_is_current x hx hl
      · intro i hi
        obtain ⟨x, hx, e1, e2, e3⟩ := h.current_pair i hi
        obtain ⟨y, hy, f1, f2, f3, _⟩ := mem_setSt_of_mem (id := id) (s := .sending) hx
        exact ⟨y, hy, by rw [f1, e1], by rw [f2, e2], by rw [f3, e3]⟩
      · intro hh
        obtain ⟨x, hx, e0, e2, e3, e4⟩ := h.armed_alive hh
        obtain ⟨y, hy, f1, f2, f3, f4⟩ := mem_setSt_of_mem (id := id) (s := .sending) hx
        refine ⟨y, hy, by rw [f1]; exact e0, by rw [f2, e2], by rw [f3, e3], ?_⟩
        by_cases c : x.id = id
        · simp only [c, if_true] at f4; exact Or.inr (Or.inl f4)
        · simp only [c, if_false] at f4; rw [f4]; exact e4
    | sending => exact h
    | delivered => exact h
    | stopped => exact h
    | cancelled => exact h

/-- **A delivered trigger carries exactly the pair that is armed at that moment**, and delivery uses
up the timer: the same arming never yields a second trigger. -/
theorem recv_inv (t : Trig) (h : Inv t) :
    Inv (recv t).1 ∧ (∀ hv, (recv t).2 = some hv → hv = (t.h, t.v) ∧ ∃ id, t.timer = some id) := by
  unfold recv
  cases hf : t.timers.find? (fun x => x.st == .sending) with
  | none => exact ⟨h, by intro hv c; cases c⟩
  | some z =>
    simp only
    have hz := List.mem_of_find?_eq_some hf
    have hzst : z.st = .sending := by simpa using List.find?_some hf
    have hcur := h.live_is_current z hz (Or.inr hzst)
    obtain ⟨x, hx, e1, e2, e3⟩ := h.current_pair z.id hcur
    have hxz : x = z := uniq h.ids_nodup hx hz e1
    subst hxz
    refine ⟨⟨⟨?_, by rw [setSt_ids]; exact h.ids_nodup, ?_⟩, ?_, ?_⟩, ?_⟩
    · intro y hy; obtain ⟨x', hx', e, _⟩ := mem_setSt hy; rw [e]; exact h.ids_lt x' hx'
    · intro y hy hl
      obtain ⟨x', hx', e, _, _, c⟩ := mem_setSt hy
      rcases c with ⟨_, e2'⟩ | ⟨_, e2'⟩
      · rw [e2'] at hl; rcases hl with hl | hl <;> cases hl
      · rw [e2'] at hl; rw [e]; exact h.live_is_current x' hx' hl
    · intro i hi
      obtain ⟨x', hx', g1, g2, g3⟩ := h.current_pair i hi
      obtain ⟨y, hy, f1, f2, f3, _⟩ := mem_setSt_of_mem (id := x.id) (s := .delivered) hx'
      exact ⟨y, hy, by rw [f1, g1], by rw [f2, g2], by rw [f3, g3]⟩
    · intro hh
      obtain ⟨x', hx', g0, g2, g3, g4⟩ := h.armed_alive hh
      obtain ⟨y, hy, f1, f2, f3, f4⟩ := mem_setSt_of_mem (id := x.id) (s := .delivered) hx'
      refine ⟨y, hy, by rw [f1]; exact g0, by rw [f2, g2], by rw [f3, g3], ?_⟩
      by_cases c : x'.id = x.id
      · simp only [c, if_true] at f4; exact Or.inr (Or.inr f4)
      · simp only [c, if_false] at f4; rw [f4]; exact g4
    · intro hv c
      simp only [Option.some.injEq] at c
      exact ⟨by rw [← c, e2, e3], x.id, hcur⟩

theorem step_inv (t : Trig) (h : Inv t) (op : Op) : Inv (step t op) := by
  cases op with
  | register hh vv => exact (register_inv t h hh vv).1
  | stop => exact (stop_inv t h.toInv0).1
  | fire id => exact fire_inv t h id
  | recv => exact (recv_inv t h).1

def run (t : Trig) (ops : List Op) : Trig := ops.foldl step t

theorem run_inv (ops : List Op) : Inv (run {} ops) := by
  suffices ∀ t, Inv t → Inv (run t ops) from this _ inv_init
  induction ops with
  | nil => intro t h; exact h
  | cons o os ih => intro t h; exact ih _ (step_inv t h o)

/-- **At most one trigger can be in flight**: any two timers that are pending or sending are the same timer. -/
theorem at_most_one_in_flight (ops : List Op) (a b : Timer)
    (ha : a ∈ (run {} ops).timers) (hb : b ∈ (run {} ops).timers) (la : live a.st) (lb : live b.st) : a = b := by
  have h := run_inv ops
  have e1 := h.live_is_current a ha la
  have e2 := h.live_is_current b hb lb
  rw [e1] at e2
  exact uniq h.ids_nodup ha hb (by injection e2)

/-- **Re-arming for another pair or stopping guarantees that no trigger of the old pair is delivered**:
whatever was armed before, right after `Stop` a channel read yields nothing and no expiry changes
anything; after `RegisterOnElection(h, v)` a read can only yield (h, v). -/
theorem after_stop_nothing_fires (ops : List Op) :
    let t := stop (run {} ops)
    (recv t).2 = none ∧ ∀ id, fire t id = t := by
  intro t
  obtain ⟨_, _, _, nl, _⟩ := stop_inv (run {} ops) (run_inv ops).toInv0
  constructor
  · unfold recv
    cases hf : t.timers.find? (fun x => x.st == .sending) with
    | none => rfl
    | some z =>
      exfalso
      exact nl z (List.mem_of_find?_eq_some hf) (Or.inr (by simpa using List.find?_some hf))
  · intro id
    unfold fire
    cases hg : getSt t.timers id with
    | none => rfl
    | some st =>
      cases st with
      | pending =>
        obtain ⟨z, hz, _, hzst⟩ := getSt_some hg
        exact absurd (Or.inl hzst) (nl z hz)
      | _ => rfl

theorem after_register_only_that_pair (ops more : List Op) (hh vv : Nat)
    (hmore : ∀ o ∈ more, (∃ id, o = .fire id) ∨ o = .recv) :
    ∀ hv, (recv (run (register (run {} ops) hh vv) more)).2 = some hv → hv = (hh, vv) := by
  have key : ∀ (l : List Op) (t : Trig), Inv t → (∀ o ∈ l, (∃ id, o = .fire id) ∨ o = .recv) →
      Inv (run t l) ∧ (run t l).h = t.h ∧ (run t l).v = t.v := by
    intro l
    induction l with
    | nil => intro t h _; exact ⟨h, rfl, rfl⟩
    | cons o os ih =>
      intro t h hl
      have ho := hl o (List.mem_cons_self ..)
      have hstep : (step t o).h = t.h ∧ (step t o).v = t.v := by
        rcases ho with ⟨id, rfl⟩ | rfl
        · show (fire t id).h = t.h ∧ (fire t id).v = t.v
          unfold fire; split <;> exact ⟨rfl, rfl⟩
        · show (recv t).1.h = t.h ∧ (recv t).1.v = t.v
          unfold recv; split <;> exact ⟨rfl, rfl⟩
      obtain ⟨a, b, c⟩ := ih (step t o) (step_inv t h o) (fun o' ho' => hl o' (List.mem_cons_of_mem _ ho'))
      exact ⟨a, by rw [show run t (o :: os) = run (step t o) os from rfl, b, hstep.1],
        by rw [show run t (o :: os) = run (step t o) os from rfl, c, hstep.2]⟩
  obtain ⟨r1, _, r3, r4⟩ := register_inv (run {} ops) (run_inv ops) hh vv
  obtain ⟨k1, k2, k3⟩ := key more _ r1 hmore
  intro hv hrecv
  have := ((recv_inv _ k1).2 hv hrecv).1
  rw [this, k2, k3, r3, r4]

/-- **An armed, un-superseded timer delivers its trigger**: while armed for (h, v) the timer of that
pair is pending, sending or already delivered; if pending, its expiry followed by a channel read
delivers exactly (h, v). -/
theorem armed_timer_delivers (ops : List Op) (harmed : (run {} ops).handler = true) :
    let t := run {} ops
    ∃ x ∈ t.timers, t.timer = some x.id ∧ (x.h, x.v) = (t.h, t.v) ∧
      (x.st = .pending → (recv (fire t x.id)).2 = some (t.h, t.v)) ∧
      (x.st = .sending → (recv t).2 = some (t.h, t.v)) ∧
      (x.st = .pending ∨ x.st = .sending ∨ x.st = .delivered) := by
  intro t
  have h := run_inv ops
  obtain ⟨x, hx, e0, e1, e2, e3⟩ := h.armed_alive harmed
  refine ⟨x, hx, e0, by rw [e1, e2], ?_, ?_, e3⟩
  · intro hp
    -- after firing, x is the sending timer; recv returns its pair, which is the current pair
    have hf := fire_inv t h x.id
    have hrecv := recv_inv (fire t x.id) hf
    have hsome : ∃ hv, (recv (fire t x.id)).2 = some hv := by
      unfold recv
      cases hfind : (fire t x.id).timers.find? (fun y => y.st == .sending) with
      | some z => exact ⟨_, rfl⟩
      | none =>
        exfalso
        have hg : getSt t.timers x.id = some .pending := by
          unfold getSt
          cases hf2 : t.timers.find? (fun y => y.id == x.id) with
          | none => have := List.find?_eq_none.mp hf2 x hx; simp at this
          | some y =>
            have := uniq h.ids_nodup (List.mem_of_find?_eq_some hf2) hx (by simpa using List.find?_some hf2)
            simp [this, hp]
        have hfire : (fire t x.id).timers = setSt t.timers x.id .sending := by
          unfold fire; rw [hg]
        obtain ⟨y, hy, _, _, _, f4⟩ := mem_setSt_of_mem (id := x.id) (s := .sending) hx
        simp only [if_true] at f4
        rw [hfire] at hfind
        have := List.find?_eq_none.mp hfind y hy
        simp [f4] at this
    obtain ⟨hv, hhv⟩ := hsome
    have := (hrecv.2 hv hhv).1
    have hh' : (fire t x.id).h = t.h ∧ (fire t x.id).v = t.v := by unfold fire; split <;> exact ⟨rfl, rfl⟩
    rw [hhv, this, hh'.1, hh'.2]
  · intro hs
    have hsome : ∃ hv, (recv t).2 = some hv := by
      unfold recv
      cases hfind : t.timers.find? (fun y => y.st == .sending) with
      | some z => exact ⟨_, rfl⟩
      | none => have := List.find?_eq_none.mp hfind x hx; simp [hs] at this
    obtain ⟨hv, hhv⟩ := hsome
    rw [hhv, ((recv_inv t h).2 hv hhv).1]

/-! ## non-vacuity: arm, expire while nobody reads, re-arm for the next view, read -/
example :
    let t := run {} [.register 5 0, .fire 0, .register 5 1, .fire 1]
    (recv t).2 = some (5, 1) ∧ t.timers.map (·.st) = [.cancelled, .sending] := by decide
example : (run {} [.register 5 0, .stop, .register 5 0]).timer = some 1 := by decide

end LeanHelix.C19
