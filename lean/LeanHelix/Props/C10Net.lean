import LeanHelix.Props.C01Net
/-!
# C10 at the network level: what a correct member signs, over whole executions of the network

`Props/C10.lean`, `C10Leader`, `C10Once` prove single-valuedness per handler call and per term-model
execution of one node.  The network invariant `reach_inv` ties every statement-carrying effect of a
correct member to the valid ghost history, so the same facts hold for *everything a correct member has
ever emitted* in any execution of the network model, with any adversary:

* `net_one_accepted_hash_per_view` — all PREPREPAREs, NEW_VIEW proposals and PREPAREs a correct member
  sent for one view carry one hash (no equivocation as leader, one PREPARE per view, and the PREPARE is
  for the proposal it stored);
* `net_commit_only_with_certificate` — a COMMIT for (v, h) is sent only when a prepared certificate for
  exactly (v, h) exists (a quorum whose correct members accepted h in v) or a commit quorum for (v, h);
* `net_one_commit_hash_per_view` — all COMMITs a correct member sent for one view carry one hash.
-/
namespace LeanHelix.C10Net
open LeanHelix LeanHelix.Msg LeanHelix.Term LeanHelix.Spec LeanHelix.Net

variable {C : NetCfg}

/-- every statement-carrying effect of a correct member is in the ghost history -/
theorem out_in_history (hwf : WF C) {net : Net} (hr : Reach C net) {i : Nat} (hh : C.honest i = true)
    (hm : ∃ m ∈ C.ms, m.id = i) {o : Out} (ho : o ∈ net.outs i) :
    (∀ v h, stmtOf o = some (.acc v h) → Ev.acc i v h ∈ net.H)
    ∧ (∀ v h, stmtOf o = some (.cmt v h) → Ev.com i v h ∈ net.H ∨ Ev.lcom i v h ∈ net.H) := by
  have hinv := reach_inv hwf hr
  cases hst : net.started i with
  | false =>
    have := (hinv.fresh i hst).2.1
    rw [this] at ho; cases ho
  | true => exact stmt_in_history hwf hinv hh hm hst ho

/-- **one hash per view** for proposals and PREPAREs -/
theorem net_one_accepted_hash_per_view (hwf : WF C) {net : Net} (hr : Reach C net) {i : Nat} (hh : C.honest i = true)
    (hm : ∃ m ∈ C.ms, m.id = i) {o1 o2 : Out} (h1 : o1 ∈ net.outs i) (h2 : o2 ∈ net.outs i)
    {v ha hb : Nat} (s1 : stmtOf o1 = some (.acc v ha)) (s2 : stmtOf o2 = some (.acc v hb)) : ha = hb :=
  Spec.acc_unique (setting C hwf) (reach_inv hwf hr).valid
    ((out_in_history hwf hr hh hm h1).1 v ha s1) ((out_in_history hwf hr hh hm h2).1 v hb s2)

/-- the certificate behind a COMMIT -/
theorem net_commit_only_with_certificate (hwf : WF C) {net : Net} (hr : Reach C net) {i : Nat} (hh : C.honest i = true)
    (hm : ∃ m ∈ C.ms, m.id = i) {o : Out} (ho : o ∈ net.outs i) {v h : Nat} (s : stmtOf o = some (.cmt v h)) :
    validCert (setting C hwf) net.H v h ∨ commitQuorum (setting C hwf) net.H v h := by
  have hv := (reach_inv hwf hr).valid
  rcases (out_in_history hwf hr hh hm ho).2 v h s with hc | hc
  · exact Or.inl (Spec.com_cert (setting C hwf) hv hc)
  · obtain ⟨H0, _, hj, hsub, _⟩ := Spec.justified_of_mem (setting C hwf) hv hc
    exact Or.inr (Spec.commitQuorum_mono (setting C hwf) hsub hj)

/-- a commit quorum for (v, h) contains a correct member that holds a prepared certificate for (v, h) -/
theorem cert_of_commitQuorum (hwf : WF C) {H : List Ev} (hv : Valid (setting C hwf) H) {v h : Nat}
    (hq : commitQuorum (setting C hwf) H v h) : validCert (setting C hwf) H v h := by
  obtain ⟨P, hP, hall⟩ := Spec.commitQuorum_prepared (setting C hwf) H.length (Nat.le_refl _) hv hq
  obtain ⟨m, hm, hpm, hhm⟩ := Spec.QH (setting C hwf) P hP
  exact Spec.com_cert (setting C hwf) hv (hall m hm hpm hhm)

/-- **one COMMIT hash per view** -/
theorem net_one_commit_hash_per_view (hwf : WF C) {net : Net} (hr : Reach C net) {i : Nat} (hh : C.honest i = true)
    (hm : ∃ m ∈ C.ms, m.id = i) {o1 o2 : Out} (h1 : o1 ∈ net.outs i) (h2 : o2 ∈ net.outs i)
    {v ha hb : Nat} (s1 : stmtOf o1 = some (.cmt v ha)) (s2 : stmtOf o2 = some (.cmt v hb)) : ha = hb := by
  have hv := (reach_inv hwf hr).valid
  have c1 : validCert (setting C hwf) net.H v ha := by
    rcases net_commit_only_with_certificate hwf hr hh hm h1 s1 with c | c
    · exact c
    · exact cert_of_commitQuorum hwf hv c
  have c2 : validCert (setting C hwf) net.H v hb := by
    rcases net_commit_only_with_certificate hwf hr hh hm h2 s2 with c | c
    · exact c
    · exact cert_of_commitQuorum hwf hv c
  exact Spec.cert_unique (setting C hwf) hv c1 c2

/-! ## order: nothing is accepted below a view the member has voted for -/

theorem localValid_suffix {A B : List LEv} (h : C01Local.LocalValid (A ++ B)) : C01Local.LocalValid B := by
  induction A with
  | nil => exact h
  | cons a A ih =>
    cases h with
    | cons hv _ => exact ih hv

/-- an element of `filterMap f l` that comes before another one comes from an element of `l` that comes before the other's -/
theorem filterMap_order {α β : Type} (f : α → Option β) {l : List α} {A B D : List β} {a b : β}
    (h : l.filterMap f = A ++ a :: (B ++ b :: D)) :
    ∃ l1 x l2 y l3, l = l1 ++ x :: (l2 ++ y :: l3) ∧ f x = some a ∧ f y = some b := by
  obtain ⟨p1, p2, e1, _, h2⟩ := List.filterMap_eq_append_iff.mp h
  obtain ⟨q1, x, q2, e2, _, hx, h3⟩ := List.filterMap_eq_cons_iff.mp h2
  obtain ⟨r1, r2, e3, _, h4⟩ := List.filterMap_eq_append_iff.mp h3
  obtain ⟨s1, y, s2, e4, _, hy, _⟩ := List.filterMap_eq_cons_iff.mp h4
  refine ⟨p1 ++ q1, x, r1 ++ s1, y, s2, ?_, hx, hy⟩
  rw [e1, e2, e3, e4]
  simp [List.append_assoc]

/-- **After a VIEW_CHANGE for view v' has gone out, the member sends no PREPREPARE, NEW_VIEW proposal or PREPARE for a
view below v'** — read off the order of its effects in any execution of the network model. -/
theorem net_no_acceptance_below_sent_vote (hwf : WF C) {net : Net} (hr : Reach C net) {i : Nat} (hh : C.honest i = true)
    (hm : ∃ m ∈ C.ms, m.id = i) {pre mid post : List Out} {o1 o2 : Out}
    (houts : net.outs i = pre ++ o1 :: (mid ++ o2 :: post))
    {v' v h : Nat} {pf : Option (Nat × Nat)}
    (s1 : stmtOf o1 = some (.vote v' pf)) (s2 : stmtOf o2 = some (.acc v h)) : v' ≤ v := by
  have hinv := reach_inv hwf hr
  cases hst : net.started i with
  | false =>
    have := (hinv.fresh i hst).2.1
    rw [this] at houts
    cases pre <;> cases houts
  | true =>
    obtain ⟨⟨T, hcore, herase⟩, _, _, _, _⟩ := hinv.nodes i hh hm hst
    -- the statements in the order of the effects
    have hS : (net.outs i).filterMap stmtOf
        = pre.filterMap stmtOf ++ Stmt.vote v' pf :: (mid.filterMap stmtOf ++ Stmt.acc v h :: post.filterMap stmtOf) := by
      rw [houts]
      simp [List.filterMap_append, List.filterMap_cons, s1, s2]
    rw [herase] at hS
    obtain ⟨l1, x, l2, y, l3, eT, hx, hy⟩ := filterMap_order Term.erase hS
    -- x is the vote, y the acceptance; in `T` (newest first) y stands before x
    have hT : T = l3.reverse ++ y :: (l2.reverse ++ x :: l1.reverse) := by
      have := congrArg List.reverse eT
      rw [List.reverse_reverse] at this
      rw [this]
      simp [List.reverse_append, List.append_assoc]
    have hval : C01Local.LocalValid (y :: (l2.reverse ++ x :: l1.reverse)) :=
      localValid_suffix (A := l3.reverse) (by rw [← hT]; exact hcore.ginv.valid)
    cases hval with
    | cons _ hj =>
      -- shapes of x and y
      cases y with
      | acc vy hy' fy =>
        simp only [Term.erase, Option.some.injEq, Stmt.acc.injEq] at hy
        obtain ⟨rfl, rfl⟩ := hy
        cases x with
        | vote vx pfx sx =>
          cases sx with
          | true =>
            simp only [Term.erase, Option.some.injEq, Stmt.vote.injEq] at hx
            obtain ⟨rfl, rfl⟩ := hx
            exact hj.2.1 vx pfx true (List.mem_append_right _ List.mem_cons_self)
          | false => simp [Term.erase] at hx
        | acc _ _ _ => simp [Term.erase] at hx
        | com _ _ => simp [Term.erase] at hx
        | lcom _ _ => simp [Term.erase] at hx
        | dec _ => simp [Term.erase] at hx
      | com _ _ => simp [Term.erase] at hy
      | lcom _ _ => simp [Term.erase] at hy
      | dec _ => simp [Term.erase] at hy
      | vote _ _ sy => cases sy <;> simp [Term.erase] at hy

end LeanHelix.C10Net
