import LeanHelix.Props.C01Net
/-!
# C10 at the network level: what a correct member signs, over whole executions of the network

`Props/C10.lean`, `C10Leader`, `C10Once` prove single-valuedness per handler call and per term-model
execution of one node.  The network invariant `reach_inv` ties every statement-carrying effect of a
correct member to the valid ghost history, so the same facts hold for *everything a correct member has
ever emitted* in any execution of the network model, with any adversary:

* `net_one_accepted_hash_per_view` — all PREPREPAREs, NEW_VIEW proposals and PREPAREs a correct member
  sent for one view carry one hash (no equivocation as leader, one PREPARE per view, and the PREPARE is
  for the proposal it stored);
* `net_commit_only_with_certificate` — a COMMIT for (v, h) is sent only when a prepared certificate for
  exactly (v, h) exists (a quorum whose correct members accepted h in v) or a commit quorum for (v, h);
* `net_one_commit_hash_per_view` — all COMMITs a correct member sent for one view carry one hash.
-/
namespace LeanHelix.C10Net
open LeanHelix LeanHelix.Msg LeanHelix.Term LeanHelix.Spec LeanHelix.Net

variable {C : NetCfg}

/-- every statement-carrying effect of a correct member is in the ghost history -/
theorem out_in_history (hwf : WF C) {net : Net} (hr : Reach C net) {i : Nat} (hh : C.honest i = true)
    (hm : ∃ m ∈ C.ms, m.id = i) {o : Out} (ho : o ∈ net.outs i) :
    (∀ v h, stmtOf o = some (.acc v h) → Ev.acc i v h ∈ net.H)
    ∧ (∀ v h, stmtOf o = some (.cmt v h) → Ev.com i v h ∈ net.H ∨ Ev.lcom i v h ∈ net.H) := by
  have hinv := reach_inv hwf hr
  cases hst : net.started i with
  | false =>
    have := (hinv.fresh i hst).2.1
    rw [this] at ho; cases ho
  | true => exact stmt_in_history hwf hinv hh hm hst ho

/-- **one hash per view** for proposals and PREPAREs -/
theorem net_one_accepted_hash_per_view (hwf : WF C) {net : Net} (hr : Reach C net) {i : Nat} (hh : C.honest i = true)
    (hm : ∃ m ∈ C.ms, m.id = i) {o1 o2 : Out} (h1 : o1 ∈ net.outs i) (h2 : o2 ∈ net.outs i)
    {v ha hb : Nat} (s1 : stmtOf o1 = some (.acc v ha)) (s2 : stmtOf o2 = some (.acc v hb)) : ha = hb :=
  Spec.acc_unique (setting C hwf) (reach_inv hwf hr).valid
    ((out_in_history hwf hr hh hm h1).1 v ha s1) ((out_in_history hwf hr hh hm h2).1 v hb s2)

/-- the certificate behind a COMMIT -/
theorem net_commit_only_with_certificate (hwf : WF C) {net : Net} (hr : Reach C net) {i : Nat} (hh : C.honest i = true)
    (hm : ∃ m ∈ C.ms, m.id = i) {o : Out} (ho : o ∈ net.outs i) {v h : Nat} (s : stmtOf o = some (.cmt v h)) :
    validCert (setting C hwf) net.H v h ∨ commitQuorum (setting C hwf) net.H v h := by
  have hv := (reach_inv hwf hr).valid
  rcases (out_in_history hwf hr hh hm ho).2 v h s with hc | hc
  · exact Or.inl (Spec.com_cert (setting C hwf) hv hc)
  · obtain ⟨H0, _, hj, hsub, _⟩ := Spec.justified_of_mem (setting C hwf) hv hc
    exact Or.inr (Spec.commitQuorum_mono (setting C hwf) hsub hj)

/-- a commit quorum for (v, h) contains a correct member that holds a prepared certificate for (v, h) -/
theorem cert_of_commitQuorum (hwf : WF C) {H : List Ev} (hv : Valid (setting C hwf) H) {v h : Nat}
    (hq : commitQuorum (setting C hwf) H v h) : validCert (setting C hwf) H v h := by
  obtain ⟨P, hP, hall⟩ := Spec.commitQuorum_prepared (setting C hwf) H.length (Nat.le_refl _) hv hq
  obtain ⟨m, hm, hpm, hhm⟩ := Spec.QH (setting C hwf) P hP
  exact Spec.com_cert (setting C hwf) hv (hall m hm hpm hhm)

/-- **one COMMIT hash per view** -/
theorem net_one_commit_hash_per_view (hwf : WF C) {net : Net} (hr : Reach C net) {i : Nat} (hh : C.honest i = true)
    (hm : ∃ m ∈ C.ms, m.id = i) {o1 o2 : Out} (h1 : o1 ∈ net.outs i) (h2 : o2 ∈ net.outs i)
    {v ha hb : Nat} (s1 : stmtOf o1 = some (.cmt v ha)) (s2 : stmtOf o2 = some (.cmt v hb)) : ha = hb := by
  have hv := (reach_inv hwf hr).valid
  have c1 : validCert (setting C hwf) net.H v ha := by
    rcases net_commit_only_with_certificate hwf hr hh hm h1 s1 with c | c
    · exact c
    · exact cert_of_commitQuorum hwf hv c
  have c2 : validCert (setting C hwf) net.H v hb := by
    rcases net_commit_only_with_certificate hwf hr hh hm h2 s2 with c | c
    · exact c
    · exact cert_of_commitQuorum hwf hv c
  exact Spec.cert_unique (setting C hwf) hv c1 c2

end LeanHelix.C10Net
