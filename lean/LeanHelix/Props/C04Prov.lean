import LeanHelix.Props.C04Net
import LeanHelix.Props.C11Net
import LeanHelix.Net.Sent
/-!
# C04 — provenance of a committed block, for the network of term models, in one statement

`net_committed_block_provenance`: in every reachable state of the network model, a block a correct
member hands to its commit callback

* is the block of a **proposal stored in that member's log**: a PREPREPARE-typed content for this
  instance, the term's height and some view `v`, whose signed hash is the hash of the certificate;
* that proposal is **signed by the legitimate leader of view `v`** (a verifying signature of the
  member `isLeader` names for `v`, or the member's own proposal in a view it leads);
* the certificate handed over is a non-empty list of COMMITs for exactly (height, `v`, that hash);
* and that hash was **approved by the consumer of at least one correct committee member**
  (`C04Net.net_validity`).

`net_committed_block_matches_certificate` adds, under the consumer contract A2 for the schedule
(`TraceA2`), that the block commits to the certified hash.  That the block's *height field* is the
term's height is the height half of A2 (the model never reads a block's height field).
-/
namespace LeanHelix.C04Net
open LeanHelix LeanHelix.Msg LeanHelix.Term LeanHelix.Spec LeanHelix.Net

variable {C : NetCfg}

theorem getPP_mem'' {s : Store} {h v : Nat} {ppm : PPMsg} (hg : s.getPP h v = some ppm) :
    ppm ∈ s.pps ∧ ppm.c.header.height = h ∧ ppm.c.header.view = v := by
  unfold Store.getPP at hg
  have h1 := List.mem_of_find?_eq_some hg
  have h2 := List.find?_some hg
  simp only [Bool.and_eq_true, beq_iff_eq] at h2
  exact ⟨h1, h2.1, h2.2⟩

/-- **C04, network level, provenance.** -/
theorem net_committed_block_provenance (hwf : WF C) {net : Net} (hr : Reach C net) {a : Nat}
    (ha : C.honest a = true) (hma : ∃ m ∈ C.ms, m.id = a) {b : Block} {cs : List CMsg}
    (hc : Out.commit b cs ∈ net.outs a) :
    ∃ v ppm, ppm ∈ (net.node a).store.pps ∧ ppm.block = some b
      ∧ ppm.c.header.mtype = tPP ∧ ppm.c.header.inst = C.inst ∧ ppm.c.header.height = C.height
      ∧ ppm.c.header.view = v ∧ ppm.c.header.hash = commitHash cs
      ∧ isLeader (C.cfg a) ppm.c.sender.id v = true
      ∧ (ppm.c.sender.ok = true ∨ ppm.c.sender = mySig (C.cfg a))
      ∧ cs ≠ [] ∧ (∀ c ∈ cs, c.header.height = C.height ∧ c.header.view = v ∧ c.header.hash = commitHash cs)
      ∧ ∃ m ∈ C.ms, C.honest m.id = true ∧ ApprovedBy net.trace m.id (commitHash cs) := by
  have hinv := reach_inv hwf hr
  have hcfg := C11Net.node_cfg hwf hr a ha hma
  have hstarted : net.started a = true := by
    cases hs : net.started a with
    | true => rfl
    | false =>
      have := (hinv.fresh a hs).2.1
      rw [this] at hc; cases hc
  have hnode := hinv.nodes a ha hma hstarted
  obtain ⟨h, v, ppm, hg, hblk, hhash, hne, hall⟩ := (reach_sent hr a).commits b cs hc
  obtain ⟨hmem, hh, hv⟩ := getPP_mem'' hg
  obtain ⟨htype, hlead, hsig⟩ := hnode.univ.proposals ppm hmem
  obtain ⟨hinst, hheight⟩ := hnode.univ.clean.pps ppm hmem
  rw [hcfg] at hlead hsig hinst hheight
  have hhC : h = C.height := by rw [← hh]; exact hheight
  refine ⟨v, ppm, hmem, hblk, htype, hinst, hheight, hv, hhash, by rw [← hv]; exact hlead, hsig, hne, ?_,
    net_validity hwf hr ha hma hc⟩
  intro c hcm
  obtain ⟨c1, c2, c3⟩ := hall c hcm
  exact ⟨by rw [c1, hhC], c2, c3⟩

/-- under the consumer contract A2 the committed block commits to the hash of its certificate -/
theorem net_committed_block_matches_certificate (hwf : WF C) {net : Net} (hr : Reach C net) (hA2 : TraceA2 net.trace) {a : Nat}
    (ha : C.honest a = true) (hma : ∃ m ∈ C.ms, m.id = a) {b : Block} {cs : List CMsg}
    (hc : Out.commit b cs ∈ net.outs a) : b.hash = commitHash cs :=
  C01Net.net_committed_block_matches hwf hr hA2 ha hma hc

/-! non-vacuity: in the concrete execution of `C01Net` member 2's commit callback is reached -/
example : ∃ net, Reach C01Net.exC net ∧ ∃ b cs, Out.commit b cs ∈ net.outs 2 := by
  obtain ⟨net, hr, ⟨cs, hout, _⟩, _⟩ := C01Net.ex_two_commits
  exact ⟨net, hr, _, cs, hout⟩

end LeanHelix.C04Net
