import LeanHelix.Props.C10Leader
/-!
# C13 (commit part) — a term invokes the commit callback at most once

Over every sequence of Term events and SPI answers: the in-committee commit callback (`.commit`
effect) is emitted only while `committed` is empty, and emitting it fills `committed`, which is never
emptied again; so a term commits at most once (`at_most_one_commit`).  Together with
`C13.round_heights_increase` (terms are created for strictly increasing heights, one per height) no
height is committed twice by the worker.
-/
namespace LeanHelix.C13
open LeanHelix LeanHelix.Msg LeanHelix.Term

def isCb : Out → Bool
  | .commit _ _ => true
  | _ => false

/-- number of commit callbacks among the effects -/
def cbCount (l : List Out) : Nat := (l.filter isCb).length

theorem cbCount_append (a b : List Out) : cbCount (a ++ b) = cbCount a + cbCount b := by
  unfold cbCount; rw [List.filter_append, List.length_append]

/-- "not a commit callback" -/
def NoCb (o : Out) : Prop := isCb o = false

theorem cbCount_noCb (l : List Out) (h : ∀ o ∈ l, NoCb o) : cbCount l = 0 := by
  unfold cbCount
  rw [List.length_eq_zero_iff, List.filter_eq_nil_iff]
  intro o ho
  have := h o ho
  unfold NoCb at this
  simp [this]

theorem noCb_accElect : AccElect NoCb :=
  ⟨⟨⟨fun _ _ => rfl, fun _ => rfl, fun _ _ _ => rfl, fun _ => rfl⟩, fun _ _ => rfl⟩, fun _ _ => rfl, fun _ _ => rfl⟩

/-- what a handler call does with respect to commit callbacks -/
def CbOK (w w' : Term.W) : Prop :=
  ∃ l, w'.outs = w.outs ++ l
    ∧ cbCount l ≤ (if w.n.committed.isSome then 0 else 1)
    ∧ (w.n.committed.isSome = true → w'.n.committed.isSome = true)
    ∧ (cbCount l = 1 → w'.n.committed.isSome = true)
    ∧ (w'.n.committed.isSome = true → w.n.committed.isSome = true ∨ cbCount l = 1)

theorem CbOK.refl (w : Term.W) : CbOK w w := ⟨[], by simp, by unfold cbCount; split <;> simp, fun h => h, by unfold cbCount; simp, fun h => Or.inl h⟩

theorem CbOK.trans {a b c : Term.W} (h1 : CbOK a b) (h2 : CbOK b c) : CbOK a c := by
  obtain ⟨l1, e1, c1, m1, f1, g1⟩ := h1
  obtain ⟨l2, e2, c2, m2, f2, g2⟩ := h2
  have htotal : cbCount (l1 ++ l2) ≤ (if a.n.committed.isSome then 0 else 1) := by
    rw [cbCount_append]
    by_cases ha : a.n.committed.isSome = true
    · have hb := m1 ha
      simp only [ha, hb, if_true] at c1 c2 ⊢
      omega
    · simp only [ha] at c1 ⊢
      by_cases h11 : cbCount l1 = 1
      · have hb := f1 h11
        simp only [hb, if_true] at c2
        simp only [Bool.false_eq_true, if_false] at c1 ⊢
        omega
      · simp only [Bool.false_eq_true, if_false] at c1 ⊢
        have : cbCount l1 = 0 := by omega
        split at c2 <;> omega
  refine ⟨l1 ++ l2, by rw [e2, e1, List.append_assoc], ?_, fun h => m2 (m1 h), ?_, ?_⟩
  rotate_left 2
  · intro hc
    by_cases ha : a.n.committed.isSome = true
    · exact Or.inl ha
    · right
      simp only [ha, Bool.false_eq_true, if_false] at htotal
      rw [cbCount_append] at htotal ⊢
      rcases g2 hc with hb | h2'
      · rcases g1 hb with ha' | h1'
        · exact absurd ha' ha
        · omega
      · omega
  · rw [cbCount_append]
    by_cases ha : a.n.committed.isSome = true
    · have hb := m1 ha
      simp only [ha, hb, if_true] at c1 c2 ⊢
      omega
    · simp only [ha] at c1 ⊢
      by_cases h11 : cbCount l1 = 1
      · have hb := f1 h11
        simp only [hb, if_true] at c2
        simp only [Bool.false_eq_true, if_false] at c1 ⊢
        omega
      · simp only [Bool.false_eq_true, if_false] at c1 ⊢
        have : cbCount l1 = 0 := by omega
        split at c2 <;> omega
  · intro h
    rw [cbCount_append] at h
    by_cases h2' : cbCount l2 = 1
    · exact f2 h2'
    · by_cases h1' : cbCount l1 = 1
      · exact m2 (f1 h1')
      · exfalso
        by_cases ha : a.n.committed.isSome = true
        · simp only [ha, if_true] at c1; omega
        · simp only [ha, Bool.false_eq_true, if_false] at c1
          split at c2 <;> omega

/-- effects without callbacks, `committed` untouched -/
theorem CbOK.quiet {w w' : Term.W} (ha : Appends NoCb w w') (hc : w'.n.committed = w.n.committed) : CbOK w w' := by
  obtain ⟨l, el, pl⟩ := ha
  have h0 := cbCount_noCb l pl
  refine ⟨l, el, (by rw [h0]; exact Nat.zero_le _), (by intro h; rw [hc]; exact h), (by intro h; rw [h0] at h; cases h), (by intro h; rw [hc] at h; exact Or.inl h)⟩

/-- effects without callbacks, then the callback, with `committed` filled -/
theorem CbOK.emitCb {w w1 : Term.W} (ha : Appends NoCb w w1) (hnone : w.n.committed.isSome = false)
    (b : Block) (cs : List CMsg) (n' : Node) (hn' : n'.committed.isSome = true) :
    CbOK w (({ w1 with n := n' } : Term.W).emit (.commit b cs)) := by
  obtain ⟨l0, e0, p0⟩ := ha
  have z0 := cbCount_noCb l0 p0
  refine ⟨l0 ++ [.commit b cs], ?_, ?_, (by intro hh; rw [hnone] at hh; cases hh), fun _ => hn', ?_⟩
  rotate_left 2
  · intro _
    right
    rw [cbCount_append, z0]
    rfl
  · show w1.outs ++ [Out.commit b cs] = w.outs ++ (l0 ++ [Out.commit b cs])
    rw [e0, List.append_assoc]
  · rw [cbCount_append, z0, hnone]
    show 0 + (List.filter isCb [Out.commit b cs]).length ≤ _
    simp only [List.filter_cons, isCb, if_true, List.filter_nil, List.length_cons, List.length_nil, Bool.false_eq_true, if_false]
    omega

/-- the only place that emits the callback -/
theorem checkCommitted_cb (w : Term.W) (h v hash : Nat) : CbOK w (checkCommitted w h v hash) := by
  unfold checkCommitted
  split
  · exact CbOK.refl w
  rename_i hnc
  have hnone : w.n.committed.isSome = false := by simpa using hnc
  split
  · exact CbOK.refl w
  dsimp only
  split
  · exact CbOK.refl w
  split
  · exact CbOK.refl w
  · have h0 : Appends NoCb w (ctxFor w h maxView).1 := Appends.of_outs_eq (ctxFor_outs _ _ _)
    have c0 : (ctxFor w h maxView).1.n.committed = w.n.committed := (ctxFor_n w h maxView).2.2.2.2.1
    split
    · exact CbOK.quiet h0 c0
    · split
      · exact CbOK.quiet h0 c0
      · rename_i b _
        split
        · exact CbOK.emitCb (Appends.setN _ h0) hnone b _ _ rfl
        · exact CbOK.emitCb (Appends.setN _ (Appends.emit_trans (Out.send _ _) h0 rfl)) hnone b _ _ rfl

theorem onPreparedLocally_cb (w : Term.W) (h v hash : Nat) : CbOK w (onPreparedLocally w h v hash) := by
  unfold onPreparedLocally
  dsimp only
  refine CbOK.trans ?_ (checkCommitted_cb _ h v hash)
  exact CbOK.quiet (Appends.emit_trans _ (Appends.setN _ (Appends.setN _ (Appends.refl _ w))) rfl) rfl

theorem checkPreparedLocally_cb (w : Term.W) (h v hash : Nat) : CbOK w (checkPreparedLocally w h v hash) := by
  rcases checkPreparedLocally_cases w h v hash with e | ⟨_, e⟩
  · rw [e]; exact CbOK.refl w
  · rw [e]; exact onPreparedLocally_cb w h v hash

theorem handlePrepare_cb (w : Term.W) (pm : PMsg) : CbOK w (handlePrepare w pm) := by
  unfold handlePrepare
  dsimp only
  split; exact CbOK.refl w
  split; exact CbOK.refl w
  split; exact CbOK.refl w
  split; exact CbOK.refl w
  split; exact CbOK.refl w
  exact CbOK.trans (CbOK.quiet (Appends.setN _ (Appends.refl _ w)) rfl) (checkPreparedLocally_cb _ _ _ _)

theorem handleCommit_cb (w : Term.W) (cm : CMsg) : CbOK w (handleCommit w cm) := by
  unfold handleCommit
  dsimp only
  split; exact CbOK.refl w
  split; exact CbOK.refl w
  split; exact CbOK.refl w
  split; exact CbOK.refl w
  exact CbOK.trans (CbOK.quiet (Appends.setN _ (Appends.refl _ w)) rfl) (checkCommitted_cb _ _ _ _)

theorem processPreprepare_cb (w : Term.W) (ppm : PPMsg) : CbOK w (processPreprepare w ppm) := by
  unfold processPreprepare
  dsimp only
  split
  · exact CbOK.refl w
  · refine CbOK.trans ?_ (checkPreparedLocally_cb _ _ _ _)
    exact CbOK.quiet (Appends.emit_trans _ (Appends.setN _ (Appends.refl _ w)) rfl) rfl

theorem handlePrePrepare_cb (w : Term.W) (ppm : PPMsg) : CbOK w (handlePrePrepare w ppm) := by
  unfold handlePrePrepare
  split
  · exact CbOK.refl w
  split
  · exact CbOK.refl w
  · dsimp only
    have h0 := askValidate_appends' noCb_accElect.toAccLead.toBenign w ppm.c.header.height ppm.c.header.view ppm.block ppm.c.header.hash
    have c0 := (askValidate_n w ppm.c.header.height ppm.c.header.view ppm.block ppm.c.header.hash).2.2.2.2.1
    generalize askValidate w ppm.c.header.height ppm.c.header.view ppm.block ppm.c.header.hash = r at h0 c0 ⊢
    obtain ⟨w1, ok⟩ := r
    dsimp only at h0 c0 ⊢
    split
    · exact CbOK.quiet h0 c0
    · exact CbOK.trans (CbOK.quiet h0 c0) (processPreprepare_cb _ _)

theorem adoptNewView_cb (w : Term.W) (nvm : NVMsg) : CbOK w (adoptNewView w nvm) := by
  unfold adoptNewView
  dsimp only
  have key : ∀ (w1 : Term.W) (ok : Bool), CbOK w w1 →
      CbOK w (if (!ok) = true then w1 else
        if (!validatePreprepare w1.n ⟨nvm.pp, nvm.block⟩) = true then w1 else
          if (!(initView { w1 with n := { w1.n with latestNV := nvm.header.view } } nvm.header.view).2) = true
          then (initView { w1 with n := { w1.n with latestNV := nvm.header.view } } nvm.header.view).1
          else processPreprepare (initView { w1 with n := { w1.n with latestNV := nvm.header.view } } nvm.header.view).1 ⟨nvm.pp, nvm.block⟩) := by
    intro w1 ok h1
    split
    · exact h1
    split
    · exact h1
    have hiv := initView_appends' noCb_accElect.toAccLead.toBenign { w1 with n := { w1.n with latestNV := nvm.header.view } } nvm.header.view
    have civ := (initView_n { w1 with n := { w1.n with latestNV := nvm.header.view } } nvm.header.view).2.2.2.1
    have h2 : CbOK w (initView { w1 with n := { w1.n with latestNV := nvm.header.view } } nvm.header.view).1 :=
      CbOK.trans h1 (CbOK.trans (CbOK.quiet (Appends.setN _ (Appends.refl _ w1)) rfl) (CbOK.quiet hiv civ))
    split
    · exact h2
    · exact CbOK.trans h2 (processPreprepare_cb _ _)
  by_cases hlv : (latestVote nvm.header.votes).isNone = true
  · simp only [hlv, if_true]
    exact key _ _ (CbOK.quiet (askValidate_appends' noCb_accElect.toAccLead.toBenign _ _ _ _ _) (askValidate_n _ _ _ _ _).2.2.2.2.1)
  · simp only [hlv]
    exact key w true (CbOK.refl w)

theorem handleNewView_cb (w : Term.W) (nvm : NVMsg) : CbOK w (handleNewView w nvm) := by
  unfold handleNewView
  dsimp only
  split; exact CbOK.refl w
  split; exact CbOK.refl w
  split; exact CbOK.refl w
  split; exact CbOK.refl w
  split; exact CbOK.refl w
  split; exact CbOK.refl w
  split; exact CbOK.refl w
  split; exact CbOK.refl w
  split; exact CbOK.refl w
  exact adoptNewView_cb w nvm

/-! the election path never touches `committed` and emits no callback -/

theorem onElected_committed (w : Term.W) (view : Nat) (vcs : List VCMsg) :
    (onElectedByViewChange w view vcs).n.committed = w.n.committed := by
  unfold onElectedByViewChange
  dsimp only
  have c0 := (initView_n { w with n := { w.n with latestNV := view } } view).2.2.2.1
  generalize initView { w with n := { w.n with latestNV := view } } view = r at c0 ⊢
  obtain ⟨w1, ok⟩ := r
  have c1 : w1.n.committed = w.n.committed := c0
  dsimp only
  split
  · exact c1
  · split
    · exact c1
    · have c2 := (askProposal_n w1 w1.n.cfg.height view).2.2.2.2.1
      generalize askProposal w1 w1.n.cfg.height view = r2 at c2 ⊢
      obtain ⟨w2, ob⟩ := r2
      dsimp only at c2 ⊢
      split
      · exact c2.trans c1
      · exact c2.trans c1

theorem checkElected_committed (w : Term.W) (h view : Nat) : (checkElected w h view).n.committed = w.n.committed := by
  unfold checkElected
  dsimp only
  split; rfl
  split; rfl
  split; rfl
  exact onElected_committed w view _

theorem handleViewChange_cb (w : Term.W) (vcm : VCMsg) : CbOK w (handleViewChange w vcm) := by
  refine CbOK.quiet (handleViewChange_appends' noCb_accElect.toAccLead w vcm) ?_
  unfold handleViewChange
  dsimp only
  split; rfl
  split; rfl
  split; rfl
  split; rfl
  split; rfl
  rw [checkElected_committed]

theorem election_cb (w : Term.W) (h v : Nat) : CbOK w (election w h v) := by
  refine CbOK.quiet (election_appends' noCb_accElect w h v) ?_
  unfold election
  dsimp only
  split
  · rfl
  have c0 := (initView_n w (wrap64 (w.n.view + 1))).2.2.2.1
  generalize initView w (wrap64 (w.n.view + 1)) = r at c0 ⊢
  obtain ⟨w1, ok⟩ := r
  dsimp only at c0 ⊢
  split
  · exact c0
  · split
    · rw [checkElected_committed]; exact c0
    · exact c0

/-- one event of a started term -/
theorem step_cb (n : Node) (e : Event) (spi : List Spi) (hns : ∀ c, e ≠ .start c) :
    cbCount (step n e spi).2 ≤ (if n.committed.isSome then 0 else 1)
    ∧ (n.committed.isSome = true → (step n e spi).1.committed.isSome = true)
    ∧ (cbCount (step n e spi).2 = 1 → (step n e spi).1.committed.isSome = true) := by
  have key : ∀ (w' : Term.W), CbOK { n := n, spi := spi } w' →
      cbCount w'.outs ≤ (if n.committed.isSome then 0 else 1) ∧ (n.committed.isSome = true → w'.n.committed.isSome = true)
      ∧ (cbCount w'.outs = 1 → w'.n.committed.isSome = true) := by
    intro w' ⟨l, el, c, m, f, _⟩
    have : w'.outs = l := by simpa using el
    rw [this]; exact ⟨c, m, f⟩
  cases e with
  | start c => exact absurd rfl (hns c)
  | election h v => exact key _ (election_cb _ h v)
  | cancelOlder h v => exact key _ (CbOK.quiet (Appends.refl _ _) rfl)
  | deliver m =>
    cases m with
    | preprepare m => exact key _ (handlePrePrepare_cb _ m)
    | prepare m => exact key _ (handlePrepare_cb _ m)
    | commit m => exact key _ (handleCommit_cb _ m)
    | viewChange m => exact key _ (handleViewChange_cb _ m)
    | newView m => exact key _ (handleNewView_cb _ m)

/-- the latch is only ever set together with the callback -/
theorem step_latch (n : Node) (e : Event) (spi : List Spi) (hns : ∀ c, e ≠ .start c)
    (hc : (step n e spi).1.committed.isSome = true) : n.committed.isSome = true ∨ cbCount (step n e spi).2 = 1 := by
  have key : ∀ (w' : Term.W), CbOK { n := n, spi := spi } w' → w'.n.committed.isSome = true →
      n.committed.isSome = true ∨ cbCount w'.outs = 1 := by
    intro w' ⟨l, el, _, _, _, g⟩ hc'
    have : w'.outs = l := by simpa using el
    rw [this]; exact g hc'
  cases e with
  | start c => exact absurd rfl (hns c)
  | election h v => exact key _ (election_cb _ h v) hc
  | cancelOlder h v => exact key _ (CbOK.quiet (Appends.refl _ _) rfl) hc
  | deliver m =>
    cases m with
    | preprepare m => exact key _ (handlePrePrepare_cb _ m) hc
    | prepare m => exact key _ (handlePrepare_cb _ m) hc
    | commit m => exact key _ (handleCommit_cb _ m) hc
    | viewChange m => exact key _ (handleViewChange_cb _ m) hc
    | newView m => exact key _ (handleNewView_cb _ m) hc

/-- **A term invokes the commit callback at most once**, over every sequence of events after its
start, whatever is delivered and whatever the consumer answers. -/
theorem at_most_one_commit (es : List (Event × List Spi)) (hns : ∀ x ∈ es, ∀ c, x.1 ≠ .start c) :
    ∀ (n : Node), cbCount (C10.runOuts n es).2 ≤ (if n.committed.isSome then 0 else 1) := by
  induction es with
  | nil => intro n; unfold C10.runOuts cbCount; split <;> simp
  | cons x rest ih =>
    intro n
    obtain ⟨e, spi⟩ := x
    obtain ⟨c1, m1, f1⟩ := step_cb n e spi (hns (e, spi) (List.mem_cons_self ..))
    have h2 := ih (fun y hy => hns y (List.mem_cons_of_mem _ hy)) (step n e spi).1
    have hr : (C10.runOuts n ((e, spi) :: rest)).2 = (step n e spi).2 ++ (C10.runOuts (step n e spi).1 rest).2 := rfl
    rw [hr, cbCount_append]
    by_cases ha : n.committed.isSome = true
    · have hb := m1 ha
      simp only [ha, hb, if_true] at c1 h2 ⊢
      omega
    · simp only [ha, Bool.false_eq_true, if_false] at c1 ⊢
      by_cases h11 : cbCount (step n e spi).2 = 1
      · have hb := f1 h11
        simp only [hb, if_true] at h2
        omega
      · have : cbCount (step n e spi).2 = 0 := by omega
        split at h2 <;> omega

end LeanHelix.C13
