import LeanHelix.Lemmas.Weights
/-!
# C06 — Quorum arithmetic: quorums intersect in more than f weight and are attainable

All theorems are about the *Go-level* model functions of `Model/Quorum.lean`
(`isQuorum`, `hasHonest`, `subsetWeight`, `calcQuorumWeight`, `calcByzMaxWeight`, all with
64-bit wrap-around), for every committee list `ms`, every weight vector whose total fits in
64 bits, every id list (`A`, `B` may contain duplicates and ids outside the committee).
-/
namespace LeanHelix.C06
open LeanHelix Quorum

/-- the hypothesis of the property: "all weight vectors whose total fits in 64 bits" (and W ≥ 1) -/
structure Fits (ms : List Member) : Prop where
  pos  : 1 ≤ W ms
  fits : W ms < U64

private theorem q_eq {ms} (h : Fits ms) : calcQuorumWeight (getWeights ms) = Q ms :=
  calcQuorumWeight_eq ms h.pos h.fits
private theorem f_eq {ms} (h : Fits ms) : calcByzMaxWeight (getWeights ms) = F ms :=
  calcByzMaxWeight_eq ms h.pos h.fits
private theorem sw_eq {ms} (h : Fits ms) (A : List Nat) :
    subsetWeight A ms = wt ms (fun i => A.contains i) := subsetWeight_eq A ms h.fits

/-- f and Q computed by the code are the f = ⌊(W-1)/3⌋ and Q = W - f of the statement. -/
theorem thresholds (ms : List Member) (h : Fits ms) :
    calcByzMaxWeight (getWeights ms) = (W ms - 1) / 3 ∧
    calcQuorumWeight (getWeights ms) = W ms - (W ms - 1) / 3 := ⟨f_eq h, q_eq h⟩

/-- Any two subsets that pass the quorum test share members whose weight exceeds f. -/
theorem quorum_intersection (ms : List Member) (h : Fits ms) (A B : List Nat)
    (hA : (isQuorum A ms).1 = true) (hB : (isQuorum B ms).1 = true) :
    calcByzMaxWeight (getWeights ms) < subsetWeight (A.filter (fun i => B.contains i)) ms := by
  simp only [isQuorum, decide_eq_true_eq, ge_iff_le, q_eq h, sw_eq h] at hA hB
  rw [f_eq h, sw_eq h]
  have ie := wt_incl_excl ms (fun i => A.contains i) (fun i => B.contains i)
  have le := wt_le_W ms (fun i => A.contains i || B.contains i)
  have tf := three_f_lt ms h.pos
  have e : wt ms (fun i => (A.filter (fun i => B.contains i)).contains i)
         = wt ms (fun i => A.contains i && B.contains i) := by
    apply wt_congr; intro m _
    simp only [List.contains_eq_mem, List.mem_filter]
    by_cases h1 : m.id ∈ A <;> by_cases h2 : m.id ∈ B <;> simp [h1, h2]
  rw [e]; unfold Q at hA hB; omega

/-- Every subset passing the quorum test also passes the has-honest test. -/
theorem quorum_has_honest (ms : List Member) (h : Fits ms) (A : List Nat)
    (hA : (isQuorum A ms).1 = true) : (hasHonest A ms).1 = true := by
  simp only [isQuorum, hasHonest, decide_eq_true_eq, ge_iff_le, gt_iff_lt, q_eq h, f_eq h] at hA ⊢
  have tf := three_f_lt ms h.pos
  unfold Q at hA; omega

/-- The members outside any subset of weight ≤ f still pass the quorum test. -/
theorem complement_of_f_is_quorum (ms : List Member) (h : Fits ms) (B : List Nat)
    (hB : subsetWeight B ms ≤ calcByzMaxWeight (getWeights ms)) :
    (isQuorum ((ms.map (·.id)).filter (fun i => !B.contains i)) ms).1 = true := by
  simp only [isQuorum, decide_eq_true_eq, ge_iff_le, q_eq h, sw_eq h]
  rw [f_eq h, sw_eq h] at hB
  have c := wt_compl ms (fun i => B.contains i)
  have e : wt ms (fun i => ((ms.map (·.id)).filter (fun i => !B.contains i)).contains i)
         = wt ms (fun i => !B.contains i) := by
    apply wt_congr; intro m hm
    simp only [List.contains_eq_mem, List.mem_filter, List.mem_map]
    by_cases h2 : m.id ∈ B
    · simp [h2]
    · have : ∃ a, a ∈ ms ∧ a.id = m.id := ⟨m, hm, rfl⟩
      simp [h2, this]
  rw [e]; unfold Q; omega

/-- Duplicate ids never add weight (no hypothesis on the weights needed). -/
theorem duplicate_adds_nothing (ms : List Member) (A : List Nat) (x : Nat) (hx : x ∈ A) :
    subsetWeight (x :: A) ms = subsetWeight A ms := by
  unfold subsetWeight
  congr 1; funext s m
  have : (x :: A).contains m.id = A.contains m.id := by
    simp only [List.contains_eq_mem, List.mem_cons]
    by_cases h1 : m.id ∈ A
    · simp [h1]
    · have : m.id ≠ x := fun e => h1 (e ▸ hx)
      simp [h1, this]
  rw [this]

/-- Ids outside the committee never add weight. -/
theorem outsider_adds_nothing (ms : List Member) (A : List Nat) (x : Nat)
    (hx : ∀ m ∈ ms, m.id ≠ x) : subsetWeight (x :: A) ms = subsetWeight A ms := by
  unfold subsetWeight
  generalize 0 = acc
  induction ms generalizing acc with
  | nil => rfl
  | cons m ms ih =>
    simp only [List.foldl_cons]
    have hm : m.id ≠ x := hx m (List.mem_cons_self ..)
    have : (x :: A).contains m.id = A.contains m.id := by
      simp [List.contains_eq_mem, List.mem_cons, hm]
    rw [this]
    exact ih (fun m' h' => hx m' (List.mem_cons_of_mem _ h')) _

/-- Zero-weight members never add weight. -/
theorem zero_weight_adds_nothing (ms : List Member) (h : Fits ms) (A : List Nat) (x : Nat)
    (hx : ∀ m ∈ ms, m.id = x → m.weight = 0) : subsetWeight (x :: A) ms = subsetWeight A ms := by
  rw [sw_eq h, sw_eq h]
  have key : ∀ (l : List Member), (∀ m ∈ l, m.id = x → m.weight = 0) →
      wt l (fun i => (x :: A).contains i) = wt l (fun i => A.contains i) := by
    intro l hl
    induction l with
    | nil => rfl
    | cons m l ih =>
      rw [wt_cons, wt_cons, ih (fun m' h' => hl m' (List.mem_cons_of_mem _ h'))]
      by_cases e : m.id = x
      · have w0 := hl m (List.mem_cons_self ..) e
        simp [w0]
      · simp [List.contains_eq_mem, List.mem_cons, e]
  exact key ms hx

/-- The subset weight, hence both tests, are monotone in the subset. -/
theorem subsetWeight_mono (ms : List Member) (h : Fits ms) (A B : List Nat) (hAB : ∀ i ∈ A, i ∈ B) :
    subsetWeight A ms ≤ subsetWeight B ms := by
  rw [sw_eq h, sw_eq h]
  apply wt_mono; intro m _ hm
  simp only [List.contains_eq_mem, decide_eq_true_eq] at hm ⊢
  exact hAB _ hm

theorem isQuorum_mono (ms : List Member) (h : Fits ms) (A B : List Nat) (hAB : ∀ i ∈ A, i ∈ B)
    (hA : (isQuorum A ms).1 = true) : (isQuorum B ms).1 = true := by
  have := subsetWeight_mono ms h A B hAB
  simp only [isQuorum, decide_eq_true_eq, ge_iff_le] at hA ⊢; omega

theorem hasHonest_mono (ms : List Member) (h : Fits ms) (A B : List Nat) (hAB : ∀ i ∈ A, i ∈ B)
    (hA : (hasHonest A ms).1 = true) : (hasHonest B ms).1 = true := by
  have := subsetWeight_mono ms h A B hAB
  simp only [hasHonest, decide_eq_true_eq, gt_iff_lt] at hA ⊢; omega

/-- The tests do not depend on the order or multiplicity of the ids in the subset. -/
theorem subsetWeight_ext (ms : List Member) (A B : List Nat) (hAB : ∀ i, i ∈ A ↔ i ∈ B) :
    subsetWeight A ms = subsetWeight B ms := by
  unfold subsetWeight
  congr 1; funext s m
  have : A.contains m.id = B.contains m.id := by
    simp only [List.contains_eq_mem]; exact decide_eq_decide.mpr (hAB m.id)
  rw [this]

/-- With total weight 0 the code uses Q = 1, so no subset is a quorum (no division by zero, no wrap). -/
theorem zero_total_no_quorum (ms : List Member) (h0 : W ms = 0) (A : List Nat) :
    (isQuorum A ms).1 = false := by
  have hs : sumWeights (getWeights ms) = 0 := by
    rw [sumWeights_eq _ (by rw [← W_eq_sum, h0]; decide), ← W_eq_sum, h0]
  have hw : subsetWeight A ms = 0 := by
    rw [subsetWeight_eq A ms (by rw [h0]; decide)]
    have := wt_le_W ms (fun i => A.contains i); omega
  simp [isQuorum, calcQuorumWeight, hs, hw]

/-! ## non-vacuity: concrete committees meeting every hypothesis, with non-trivial quorums -/

def ex4 : List Member := [⟨10, 1⟩, ⟨11, 2⟩, ⟨12, 3⟩, ⟨13, 4⟩]
example : Fits ex4 := ⟨by decide, by decide⟩
example : (isQuorum [12, 13] ex4).1 = true ∧ (isQuorum [10, 11, 13] ex4).1 = true
    ∧ (isQuorum [10, 11, 12] ex4).1 = false := by decide
example : subsetWeight [12] ex4 ≤ calcByzMaxWeight (getWeights ex4) := by decide
/-- a committee whose total is above 2^53 and one just below 2^64 -/
def exBig : List Member := [⟨1, 9007199254740993⟩, ⟨2, 3⟩, ⟨3, 5⟩, ⟨4, 7⟩]
example : Fits exBig := ⟨by decide, by decide⟩
def exHuge : List Member := [⟨1, 18446744073709551612⟩, ⟨2, 1⟩, ⟨3, 1⟩, ⟨4, 1⟩]
example : Fits exHuge ∧ (isQuorum [1] exHuge).1 = true := ⟨⟨by decide, by decide⟩, by decide⟩

end LeanHelix.C06
