import LeanHelix.Model.Worker
import LeanHelix.Lemmas.Weights
/-!
# C08 — Only authentic, in-committee, role- and height-correct messages change state

For every node state `w` (any storage content, any view, any registry state, any pending SPI
answers) and every message: if the message fails one of the conditions the property lists, the
handler returns `w` itself — nothing is stored, counted, sent, no view changes, no SPI is called.
`sender.ok` is the answer of `VerifyConsensusMessage` for the signed header under the claimed sender.
The instance / height / own-message part is the worker's filter (`Worker.deliver`).
-/
namespace LeanHelix.C08
open LeanHelix LeanHelix.Msg LeanHelix.Term

/-- what makes a PREPARE admissible for a node in state `n` -/
def PrepareAuthentic (n : Node) (pm : PMsg) : Prop :=
  pm.header.mtype = tP ∧ isMember n.cfg pm.sender.id = true ∧ pm.sender.ok = true
  ∧ ¬ pm.header.view < n.view ∧ isLeader n.cfg pm.sender.id pm.header.view = false

theorem prepare_ignored_unless_authentic (w : Term.W) (pm : PMsg) (h : ¬ PrepareAuthentic w.n pm) :
    handlePrepare w pm = w := by
  unfold PrepareAuthentic at h
  unfold handlePrepare
  by_cases h1 : pm.header.mtype = tP
  · by_cases h2 : isMember w.n.cfg pm.sender.id = true
    · by_cases h3 : pm.sender.ok = true
      · by_cases h4 : pm.header.view < w.n.view
        · simp [h1, h2, h3, h4]
        · by_cases h5 : isLeader w.n.cfg pm.sender.id pm.header.view = true
          · simp [h1, h2, h3, h4, h5]
          · exact absurd ⟨h1, h2, h3, h4, by simpa using h5⟩ h
      · simp [h1, h2, h3]
    · simp [h1, h2]
  · simp [h1]

/-- what makes a COMMIT admissible: valid random-seed share, COMMIT-typed header, committee member, valid signature -/
def CommitAuthentic (n : Node) (cm : CMsg) : Prop :=
  cm.shareOk = true ∧ cm.header.mtype = tC ∧ isMember n.cfg cm.sender.id = true ∧ cm.sender.ok = true

theorem commit_ignored_unless_authentic (w : Term.W) (cm : CMsg) (h : ¬ CommitAuthentic w.n cm) :
    handleCommit w cm = w := by
  unfold CommitAuthentic at h
  unfold handleCommit
  by_cases h0 : cm.shareOk = true
  · by_cases h1 : cm.header.mtype = tC
    · by_cases h2 : isMember w.n.cfg cm.sender.id = true
      · by_cases h3 : cm.sender.ok = true
        · exact absurd ⟨h0, h1, h2, h3⟩ h
        · simp [h0, h1, h2, h3]
      · simp [h0, h1, h2]
    · simp [h0, h1]
  · simp [h0]

/-- what makes a PREPREPARE admissible: PREPREPARE-typed, signed by the leader of its view, no proposal accepted for that view yet -/
def PreprepareAuthentic (n : Node) (ppm : PPMsg) : Prop :=
  ppm.c.header.mtype = tPP ∧ ppm.c.sender.ok = true ∧ isLeader n.cfg ppm.c.sender.id ppm.c.header.view = true
  ∧ n.store.getPP ppm.c.header.height ppm.c.header.view = none

theorem validatePreprepare_iff (n : Node) (ppm : PPMsg) :
    validatePreprepare n ppm = true ↔ PreprepareAuthentic n ppm := by
  unfold validatePreprepare PreprepareAuthentic
  simp only [Bool.and_eq_true, Option.isNone_iff_eq_none, beq_iff_eq]
  constructor
  · rintro ⟨⟨⟨a, b⟩, c⟩, d⟩; exact ⟨b, c, d, a⟩
  · rintro ⟨b, c, d, a⟩; exact ⟨⟨⟨a, b⟩, c⟩, d⟩

theorem preprepare_ignored_unless_authentic (w : Term.W) (ppm : PPMsg) (h : ¬ PreprepareAuthentic w.n ppm) :
    handlePrePrepare w ppm = w := by
  unfold handlePrePrepare
  have : validatePreprepare w.n ppm = false := by
    cases hv : validatePreprepare w.n ppm with
    | false => rfl
    | true => exact absurd ((validatePreprepare_iff _ _).mp hv) h
  simp [this]

/-- the sender-side and addressing conditions of a VIEW_CHANGE -/
def ViewChangeAuthentic (n : Node) (vcm : VCMsg) : Prop :=
  isLeader n.cfg n.cfg.me vcm.c.header.view = true                -- addressed to this node as leader of that view
  ∧ ¬ n.view > vcm.c.header.view                                   -- not stale
  ∧ vcm.c.header.mtype = tVC ∧ vcm.c.header.inst = n.cfg.inst
  ∧ isMember n.cfg vcm.c.sender.id = true ∧ vcm.c.sender.ok = true
  ∧ validatePreparedProof n.cfg n.cfg.height vcm.c.header.view vcm.c.header.proof = true

theorem isViewChangeValid_imp (n : Node) (vc : VCContent) (h : isViewChangeValid n vc = true) :
    vc.header.mtype = tVC ∧ vc.header.inst = n.cfg.inst ∧ isMember n.cfg vc.sender.id = true
    ∧ vc.sender.ok = true
    ∧ (∀ p, vc.header.proof = some p → p.ppRef.mtype = tPP ∧ p.pRef.mtype = tP ∧ p.ppRef.inst = n.cfg.inst ∧ p.pRef.inst = n.cfg.inst)
    ∧ validatePreparedProof n.cfg n.cfg.height vc.header.view vc.header.proof = true := by
  unfold isViewChangeValid at h
  simp only [Bool.and_eq_true, beq_iff_eq] at h
  obtain ⟨⟨⟨⟨⟨a, b⟩, c⟩, d⟩, e⟩, f⟩ := h
  refine ⟨a, b, c, d, ?_, f⟩
  intro p hp; rw [hp] at e; simp only [Bool.and_eq_true, beq_iff_eq] at e
  exact ⟨e.1.1.1, e.1.1.2, e.1.2, e.2⟩

theorem viewchange_ignored_unless_authentic (w : Term.W) (vcm : VCMsg) (h : ¬ ViewChangeAuthentic w.n vcm) :
    handleViewChange w vcm = w := by
  unfold handleViewChange
  by_cases h1 : isLeader w.n.cfg w.n.cfg.me vcm.c.header.view = true
  · by_cases h2 : w.n.view > vcm.c.header.view
    · simp [h1, h2]
    · by_cases h3 : isViewChangeValid w.n vcm.c = true
      · obtain ⟨a, b, c, d, _, f⟩ := isViewChangeValid_imp _ _ h3
        exact absurd ⟨h1, h2, a, b, c, d, f⟩ h
      · simp [h1, h2, h3]
  · simp [h1]

/-- a vote whose proof arrives without its block, or with a block that does not match the proven
hash, is ignored as well -/
theorem viewchange_ignored_if_block_mismatch (w : Term.W) (vcm : VCMsg)
    (h : (vcm.block.isNone ∧ vcm.c.header.proof.isSome) ∨
         (vcm.block.isSome ∧ commitmentOk vcm.block (proofHash vcm.c.header.proof) = false)) :
    handleViewChange w vcm = w := by
  unfold handleViewChange
  by_cases h1 : isLeader w.n.cfg w.n.cfg.me vcm.c.header.view = true
  · by_cases h2 : w.n.view > vcm.c.header.view
    · simp [h1, h2]
    · by_cases h3 : isViewChangeValid w.n vcm.c = true
      · rcases h with ⟨a, b⟩ | ⟨a, b⟩
        · simp [h1, h2, h3, a, b]
        · have a' : vcm.block.isNone = false := by cases hb : vcm.block <;> simp_all
          simp [h1, h2, h3, a, a', b]
      · simp [h1, h2, h3]
  · simp [h1]

/-! ## what a prepared proof must show to count -/

/-- **A prepared proof counts only if it shows valid signatures over one (height, earlier view,
hash) by that view's leader and by distinct other committee members together reaching quorum
weight.**  (`isViewChangeValid` adds: PREPREPARE / PREPARE typed refs of this instance.) -/
theorem proof_counts_only_if_valid (c : Cfg) (h v : Nat) (p : Proof)
    (hv : validatePreparedProof c h v (some p) = true) :
    p.ppRef.height = h ∧ p.ppRef.view < v
    ∧ p.pRef.hash = p.ppRef.hash ∧ p.pRef.height = p.ppRef.height ∧ p.pRef.view = p.ppRef.view
    ∧ p.ppSender.ok = true ∧ leaderId c p.ppRef.view = p.ppSender.id
    ∧ (∀ s ∈ p.pSenders, s.ok = true ∧ s.id ≠ p.ppSender.id ∧ isMember c s.id = true)
    ∧ (p.pSenders.map (·.id)).Nodup
    ∧ (Quorum.isQuorum (p.pSenders.map (·.id) ++ [p.ppSender.id]) c.members).1 = true := by
  unfold validatePreparedProof at hv
  simp only [Bool.and_eq_true, beq_iff_eq, decide_eq_true_eq, List.all_eq_true, bne_iff_ne, ne_eq] at hv
  obtain ⟨⟨⟨⟨⟨⟨⟨⟨⟨a, b⟩, q⟩, d⟩, e⟩, f⟩, g⟩, i⟩, j⟩, k⟩ := hv
  refine ⟨a, b, f, g, i, d, e, ?_, by simpa using k, q⟩
  intro s hs; have := j s hs; exact ⟨this.1.1, this.1.2, this.2⟩

/-- in weights: the signers of an accepted proof hold at least the quorum weight Q = W - f -/
theorem proof_signers_reach_quorum (c : Cfg) (h v : Nat) (p : Proof)
    (hW1 : 1 ≤ LeanHelix.W c.members) (hW2 : LeanHelix.W c.members < U64)
    (hv : validatePreparedProof c h v (some p) = true) :
    Q c.members ≤ wt c.members (fun i => (p.pSenders.map (·.id) ++ [p.ppSender.id]).contains i) := by
  have hq := (proof_counts_only_if_valid c h v p hv).2.2.2.2.2.2.2.2.2
  simp only [Quorum.isQuorum, decide_eq_true_eq, ge_iff_le] at hq
  rw [calcQuorumWeight_eq _ hW1 hW2, subsetWeight_eq _ _ hW2] at hq
  exact hq

/-! ## the worker's filter: instance, height, own messages -/

open LeanHelix.Worker in
/-- a message of another instance, of a lower height, or carrying this node's own id as sender never
reaches the term: the worker's state is unchanged and nothing is emitted -/
theorem filtered_messages_change_nothing (fuel : Nat) (w : WW) (m : Message)
    (h : msgSender m = w.n.me ∨ msgHeight m < w.n.height ∨ msgInst m ≠ w.n.inst) :
    deliver fuel w m = w := by
  unfold deliver
  by_cases h1 : (msgSender m == w.n.me) = true
  · simp [h1]
  · by_cases h2 : msgHeight m < w.n.height
    · simp [h1, h2]
    · have h3 : (msgInst m != w.n.inst) = true := by
        rcases h with h | h | h
        · exact absurd (by simpa using h) h1
        · exact absurd h h2
        · simpa using h
      simp [h1, h2, h3]

/-! ## non-vacuity: an authentic PREPARE is stored -/
def exCfg : Cfg := ⟨10, 7, 1, [⟨10, 1⟩, ⟨11, 1⟩, ⟨12, 1⟩, ⟨13, 1⟩]⟩
def exW : Term.W := { n := { cfg := exCfg } }
def exPrepare : PMsg := ⟨⟨tP, 7, 1, 0, 99⟩, ⟨11, true⟩⟩
example : PrepareAuthentic exW.n exPrepare := by unfold PrepareAuthentic; decide
example : (handlePrepare exW exPrepare).n.store.prepares = [exPrepare] := by decide
example : handlePrepare exW { exPrepare with sender := ⟨55, true⟩ } = exW :=
  prepare_ignored_unless_authentic _ _ (by unfold PrepareAuthentic; decide)

end LeanHelix.C08
