import LeanHelix.Props.C01Net
/-!
# C04 — External validity, for the network of term models

`net_validity`: in every reachable state of the network model (`Net/`, same quantification as
`C01Net.net_agreement`), the hash of every block a correct member hands to its commit callback was
**approved by the consumer of at least one correct committee member**: some step of that member in the
schedule either began with a positive `ValidateBlockProposal` verdict while a proposal for exactly that
hash was being delivered (bare PREPREPARE, or the proposal inside a NEW_VIEW), or began with the block
the member's own `RequestNewBlockProposal` returned, whose hash it is.  (That a step whose SPI answers
begin with a verdict actually made the call, for exactly the delivered (block, hash) and under a live
context, is `C04.adopted_proposal_is_validated_or_certified` / `C04.askValidate_true`.)

`rejected_everywhere_never_committed`: a hash that no correct member's consumer approves in the
schedule is never committed by any correct member — whatever Byzantine leaders propose, in view 0 or
inside NEW_VIEWs, with or without (genuine, forged, foreign) proofs.

Proof: the invariant `NetInv.origin` (every hash a correct member accepted was approved by its own
consumer in that step, or was certified in an earlier view — `Net.blk_origin` per atomic block), and
induction over views from the certificate of the deciding view down to a fresh approval.
-/
namespace LeanHelix.C04Net
open LeanHelix LeanHelix.Msg LeanHelix.Term LeanHelix.Spec LeanHelix.Net

variable {C : NetCfg}

/-- a certified hash was approved by the consumer of a correct member (induction over views) -/
theorem cert_approved (hwf : WF C) {net : Net} (hinv : NetInv C hwf net) :
    ∀ (v h : Nat), validCert (setting C hwf) net.H v h →
      ∃ m ∈ C.ms, C.honest m.id = true ∧ ApprovedBy net.trace m.id h := by
  intro v
  induction v using Nat.strongRecOn with
  | _ v ih =>
    intro h hcert
    obtain ⟨m, hm, hh, hacc⟩ := Spec.certified_was_accepted_by_correct (setting C hwf) hcert
    rcases hinv.origin m.id v h hacc with hap | ⟨pv, hlt, hc'⟩
    · exact ⟨m, hm, hh, hap⟩
    · exact ih pv hlt h hc'

/-- a decided hash is certified in the deciding view -/
theorem decided_cert (S : Setting) {H : List Ev} (hv : Valid S H) {n h : Nat} (hd : Ev.dec n h ∈ H) :
    ∃ v, validCert S H v h := by
  obtain ⟨H0, _, ⟨v, q⟩, s0, _, _⟩ := Spec.justified_of_mem S hv hd
  have q' := Spec.commitQuorum_mono S s0 q
  obtain ⟨Cq, hq', hC⟩ := Spec.commitQuorum_prepared S H.length (Nat.le_refl _) hv q'
  obtain ⟨m, hm, hc, hh⟩ := Spec.QH S Cq hq'
  exact ⟨v, Spec.com_cert S hv (hC m hm hc hh)⟩

/-- **C04, network level.** The hash of every block committed by a correct member was approved by the
consumer of at least one correct committee member. -/
theorem net_validity (hwf : WF C) {net : Net} (hr : Reach C net) {a : Nat}
    (ha : C.honest a = true) (hma : ∃ m ∈ C.ms, m.id = a) {b : Block} {cs : List CMsg}
    (hc : Out.commit b cs ∈ net.outs a) :
    ∃ m ∈ C.ms, C.honest m.id = true ∧ ApprovedBy net.trace m.id (commitHash cs) := by
  have hinv := reach_inv hwf hr
  obtain ⟨v, hcert⟩ := decided_cert (setting C hwf) hinv.valid (C01Net.commit_in_history hwf hr ha hma hc)
  exact cert_approved hwf hinv v _ hcert

/-- **a proposal that every correct member's consumer rejects is never committed by a correct member** -/
theorem rejected_everywhere_never_committed (hwf : WF C) {net : Net} (hr : Reach C net) (h : Nat)
    (hrej : ∀ m ∈ C.ms, C.honest m.id = true → ¬ ApprovedBy net.trace m.id h)
    {a : Nat} (ha : C.honest a = true) (hma : ∃ m ∈ C.ms, m.id = a) {b : Block} {cs : List CMsg}
    (hc : Out.commit b cs ∈ net.outs a) : commitHash cs ≠ h := by
  intro he
  obtain ⟨m, hm, hh, hap⟩ := net_validity hwf hr ha hma hc
  rw [he] at hap
  exact hrej m hm hh hap

/-! ## non-vacuity: in the concrete execution of `C01Net` the committed hash was approved by member 1's
own consumer (it proposed the block) and validated by members 2 and 3 -/
example : ∃ net, Reach C01Net.exC net ∧ ApprovedBy net.trace 2 99 ∧ ApprovedBy net.trace 1 99 := by
  obtain ⟨net, hr, htr⟩ := C01Net.ex_trace
  refine ⟨net, hr, ?_, ?_⟩
  · rw [htr]
    exact ⟨(2, .deliver (.preprepare C01Net.exPP), [.verdict true none]), List.mem_reverse.mpr (by simp [C01Net.exSched]), rfl, Or.inl ⟨none, [], rfl, rfl⟩⟩
  · rw [htr]
    exact ⟨(1, .start true, [.proposal C01Net.exBlock none]), List.mem_reverse.mpr (by simp [C01Net.exSched]), rfl, Or.inr ⟨C01Net.exBlock, none, [], rfl, rfl⟩⟩

end LeanHelix.C04Net
