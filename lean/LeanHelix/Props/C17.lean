import LeanHelix.Model.Filter
/-!
# C17 — Height filter and future cache deliver each message to its own height only

Theorems about the model of `RawMessageFilter` + the re-entrant drain (`Model/Filter.lean`), for
every sequence of receive / start-round operations, every nesting of round starts inside
deliveries (`script`), and every amount of fuel.
`f.log` is the ghost list of deliveries `(height of the receiving term, message)`.
-/
namespace LeanHelix.C17
open LeanHelix.Filter

/-- the message is for this instance and not from this node -/
def Admissible (f : Filt) (m : FMsg) : Prop := m.inst = f.inst ∧ m.sender ≠ f.me

structure Inv (f : Filt) : Prop where
  handler_height : ∀ t c, f.handler = some (t, c) → t = f.stateHeight
  cache_ok : ∀ p ∈ f.cache, ∀ m ∈ p.2, m.height = p.1 ∧ Admissible f m
  log_ok : ∀ e ∈ f.log, e.2.height = e.1 ∧ Admissible f e.2

theorem inv_init (me inst : Nat) : Inv { me := me, inst := inst } :=
  ⟨by intro t c h; simp at h, by intro p hp; simp at hp, by intro e he; simp at he⟩

private theorem mem_cacheGet {c : List (Nat × List FMsg)} {h : Nat} {m : FMsg} (hm : m ∈ cacheGet c h) :
    ∃ p ∈ c, p.1 = h ∧ m ∈ p.2 := by
  unfold cacheGet at hm
  cases hf : c.find? (fun p => p.1 == h) with
  | none => simp [hf] at hm
  | some p =>
    simp [hf] at hm
    have h1 := List.mem_of_find?_eq_some hf
    have h2 := List.find?_some hf
    simp at h2
    exact ⟨p, h1, h2, hm⟩

private theorem mem_clearEarlier {c : List (Nat × List FMsg)} {h : Nat} {p : Nat × List FMsg}
    (hp : p ∈ clearEarlier c h) : p ∈ c := by
  unfold clearEarlier at hp; exact (List.mem_filter.mp hp).1

private theorem mem_cacheErase {c : List (Nat × List FMsg)} {h : Nat} {p : Nat × List FMsg}
    (hp : p ∈ cacheErase c h) : p ∈ c := by
  unfold cacheErase at hp; exact (List.mem_filter.mp hp).1

theorem inv_logDelivery (f : Filt) (h : Inv f) (t : Nat) (m : FMsg)
    (ht : m.height = t) (hm : Admissible f m) : Inv (logDelivery f t m) := by
  refine ⟨h.handler_height, h.cache_ok, ?_⟩
  intro e he; unfold logDelivery at he; simp at he
  rcases he with he | he
  · exact h.log_ok e he
  · subst he; exact ⟨ht, hm⟩

theorem inv_markCommitted (f : Filt) (h : Inv f) (t : Nat) (ht : t = f.stateHeight) :
    Inv (markCommitted f t) := by
  refine ⟨?_, h.cache_ok, h.log_ok⟩
  intro t' c' he; unfold markCommitted at he; simp at he; rw [← he.1]; exact ht

theorem inv_startRound (f : Filt) (h : Inv f) (hh : Nat) : Inv (startRound f hh) := by
  refine ⟨?_, ?_, h.log_ok⟩
  · intro t' c' he; unfold startRound at he; simp at he; exact he.1.symm
  · intro p hp; exact h.cache_ok p (mem_clearEarlier hp)

theorem inv_finishDrain (f : Filt) (h : Inv f) (hh : Nat) : Inv (finishDrain f hh) :=
  ⟨h.handler_height, fun p hp => h.cache_ok p (mem_cacheErase hp), h.log_ok⟩

theorem cacheGet_ok (f : Filt) (h : Inv f) (hh : Nat) :
    ∀ x ∈ cacheGet f.cache hh, x.height = hh ∧ Admissible f x := by
  intro x hx
  obtain ⟨p, hp, hp1, hxp⟩ := mem_cacheGet hx
  have := h.cache_ok p hp x hxp
  exact ⟨by rw [this.1, hp1], this.2⟩

theorem drain_succ_cons (fuel : Nat) (f : Filt) (height : Nat) (m : FMsg) (rest : List FMsg) :
    drain (fuel + 1) f height (m :: rest) =
      if f.stateHeight != height then f
      else match f.handler with
        | none => drain fuel f height rest
        | some (t, committed) =>
          if m.script > 0 && !committed then
            if (markCommitted (logDelivery f t m) t).stateHeight ≥ t + m.script then
              drain fuel (markCommitted (logDelivery f t m) t) height rest
            else
              drain fuel (finishDrain (drain fuel (startRound (markCommitted (logDelivery f t m) t) (t + m.script))
                (t + m.script) (cacheGet (startRound (markCommitted (logDelivery f t m) t) (t + m.script)).cache (t + m.script)))
                (t + m.script)) height rest
          else drain fuel (logDelivery f t m) height rest := by
  rfl

/-- the drain never changes who we are, and preserves the invariant -/
theorem drain_inv (fuel : Nat) : ∀ (f : Filt) (height : Nat) (msgs : List FMsg), Inv f →
    (∀ m ∈ msgs, m.height = height ∧ Admissible f m) →
    Inv (drain fuel f height msgs) ∧ (drain fuel f height msgs).me = f.me ∧
      (drain fuel f height msgs).inst = f.inst := by
  induction fuel with
  | zero => intro f height msgs h _; exact ⟨h, rfl, rfl⟩
  | succ fuel ih =>
    intro f height msgs h hm
    cases msgs with
    | nil => exact ⟨h, rfl, rfl⟩
    | cons m rest =>
      have hm0 := hm m (List.mem_cons_self ..)
      have hrest : ∀ x ∈ rest, x.height = height ∧ Admissible f x :=
        fun x hx => hm x (List.mem_cons_of_mem _ hx)
      rw [drain_succ_cons]
      by_cases hne : (f.stateHeight != height) = true
      · simp only [hne, if_true]; first | exact ⟨h, rfl, rfl⟩ | exact ⟨h, trivial, trivial⟩
      · simp only [hne, Bool.false_eq_true, if_false]
        have heq : f.stateHeight = height := by simpa using hne
        cases hh : f.handler with
        | none => simp only; exact ih f height rest h hrest
        | some tc =>
          obtain ⟨t, committed⟩ := tc
          have ht : t = f.stateHeight := h.handler_height t committed hh
          simp only
          have hlog : Inv (logDelivery f t m) := inv_logDelivery f h t m (by omega) hm0.2
          by_cases hs : (decide (m.script > 0) && !committed) = true
          · simp only [hs, if_true]
            have hcom : Inv (markCommitted (logDelivery f t m) t) := inv_markCommitted _ hlog t ht
            by_cases hge : (markCommitted (logDelivery f t m) t).stateHeight ≥ t + m.script
            · simp only [hge, if_true]
              exact ih _ height rest hcom hrest
            · simp only [hge, if_false]
              have hnest := inv_startRound _ hcom (t + m.script)
              obtain ⟨i1, i2, i3⟩ := ih _ (t + m.script) _ hnest (cacheGet_ok _ hnest _)
              generalize drain fuel _ (t + m.script) _ = d at i1 i2 i3
              have herase := inv_finishDrain d i1 (t + m.script)
              have hrest' : ∀ x ∈ rest, x.height = height ∧ Admissible (finishDrain d (t + m.script)) x := by
                intro x hx; have := hrest x hx
                refine ⟨this.1, ?_⟩
                unfold Admissible at *
                have e1 : (finishDrain d (t + m.script)).me = f.me := i2
                have e2 : (finishDrain d (t + m.script)).inst = f.inst := i3
                rw [e1, e2]; exact this.2
              obtain ⟨j1, j2, j3⟩ := ih _ height rest herase hrest'
              exact ⟨j1, by rw [j2]; exact i2, by rw [j3]; exact i3⟩
          · simp only [hs]
            exact ih _ height rest hlog hrest

theorem step_inv (fuel : Nat) (f : Filt) (op : Op) (h : Inv f) :
    Inv (step fuel f op) ∧ (step fuel f op).me = f.me ∧ (step fuel f op).inst = f.inst := by
  cases op with
  | recv m =>
    unfold step recv
    by_cases h1 : (m.sender == f.me) = true
    · simp only [h1, if_true]; first | exact ⟨h, rfl, rfl⟩ | exact ⟨h, trivial, trivial⟩
    · simp only [h1]
      by_cases h2 : m.height < f.stateHeight
      · simp only [h2, if_true]; first | exact ⟨h, rfl, rfl⟩ | exact ⟨h, trivial, trivial⟩
      · simp only [h2, if_false]
        by_cases h3 : (m.inst != f.inst) = true
        · simp only [h3, if_true]; first | exact ⟨h, rfl, rfl⟩ | exact ⟨h, trivial, trivial⟩
        · simp only [h3]
          have hadm : Admissible f m := ⟨by simpa using h3, by simpa using h1⟩
          by_cases h4 : m.height > f.stateHeight
          · simp only [h4, if_true]
            -- pushToCache
            unfold pushToCache
            by_cases h5 : m.height < f.latest
            · simp only [h5, if_true]; first | exact ⟨h, rfl, rfl⟩ | exact ⟨h, trivial, trivial⟩
            · simp only [h5, if_false]
              have key : ∀ (c : List (Nat × List FMsg)), (∀ p ∈ c, ∀ x ∈ p.2, x.height = p.1 ∧ Admissible f x) →
                  ∀ p ∈ cacheAppend c m.height m, ∀ x ∈ p.2, x.height = p.1 ∧ Admissible f x := by
                intro c hc p hp x hx
                unfold cacheAppend at hp
                split at hp
                · simp at hp
                  obtain ⟨a, b, hab, hp⟩ := hp
                  split at hp
                  · rename_i heq
                    subst hp; simp at hx
                    rcases hx with hx | hx
                    · exact hc (a, b) hab x hx
                    · subst hx; exact ⟨by simpa using heq.symm, hadm⟩
                  · subst hp; exact hc (a, b) hab x hx
                · simp at hp
                  rcases hp with hp | hp
                  · exact hc p hp x hx
                  · subst hp; simp at hx; subst hx; exact ⟨rfl, hadm⟩
              by_cases h6 : m.height > f.latest
              · simp only [h6, if_true]
                exact ⟨⟨h.handler_height, key _ (fun p hp => h.cache_ok p (mem_clearEarlier hp)), h.log_ok⟩, rfl, rfl⟩
              · simp only [h6, if_false]
                exact ⟨⟨h.handler_height, key _ h.cache_ok, h.log_ok⟩, rfl, rfl⟩
          · simp only [h4, if_false]
            exact drain_inv fuel f m.height [m] h (by intro x hx; simp at hx; subst hx; exact ⟨rfl, hadm⟩)
  | advance hh =>
    unfold step advance
    by_cases h1 : f.stateHeight ≥ hh
    · simp only [h1, if_true]; first | exact ⟨h, rfl, rfl⟩ | exact ⟨h, trivial, trivial⟩
    · simp only [h1, if_false]
      have hnest := inv_startRound f h hh
      obtain ⟨i1, i2, i3⟩ := drain_inv fuel _ hh _ hnest (cacheGet_ok _ hnest _)
      exact ⟨inv_finishDrain _ i1 hh, i2, i3⟩

def run (fuel : Nat) (f : Filt) (ops : List Op) : Filt := ops.foldl (step fuel) f

theorem run_inv (fuel : Nat) (ops : List Op) : ∀ f, Inv f →
    Inv (run fuel f ops) ∧ (run fuel f ops).me = f.me ∧ (run fuel f ops).inst = f.inst := by
  induction ops with
  | nil => intro f h; exact ⟨h, rfl, rfl⟩
  | cons o os ih =>
    intro f h
    obtain ⟨a, b, c⟩ := step_inv fuel f o h
    obtain ⟨a', b', c'⟩ := ih _ a
    have e : run fuel f (o :: os) = run fuel (step fuel f o) os := rfl
    rw [e]
    exact ⟨a', by rw [b']; exact b, by rw [c']; exact c⟩

/-- **A consensus message reaches the protocol logic of a term only if its height equals that
term's height, its instance id is this instance's and its sender is not this node** — for every
sequence of receive / start-round operations, however deliveries nest. -/
theorem delivered_only_to_own_height (fuel me inst : Nat) (ops : List Op) :
    ∀ e ∈ (run fuel { me := me, inst := inst } ops).log,
      e.2.height = e.1 ∧ e.2.inst = inst ∧ e.2.sender ≠ me := by
  intro e he
  obtain ⟨h, hme, hinst⟩ := run_inv fuel ops _ (inv_init me inst)
  have := h.log_ok e he
  unfold Admissible at this; rw [hme, hinst] at this; exact this

/-- Messages for lower heights, own messages and other instances' messages are dropped: the
filter's state (cache, log, everything) is unchanged. -/
theorem past_own_foreign_dropped (fuel : Nat) (f : Filt) (m : FMsg)
    (h : m.height < f.stateHeight ∨ m.sender = f.me ∨ m.inst ≠ f.inst) : recv fuel f m = f := by
  unfold recv
  by_cases h1 : (m.sender == f.me) = true
  · simp [h1]
  · by_cases h2 : m.height < f.stateHeight
    · simp [h1, h2]
    · have h3 : (m.inst != f.inst) = true := by
        rcases h with h | h | h
        · exact absurd h h2
        · exact absurd (by simpa using h) h1
        · simpa using h
      simp [h1, h2, h3]

/-- A message for a future height is only stored, never delivered at receipt. -/
theorem future_not_delivered_at_receipt (fuel : Nat) (f : Filt) (m : FMsg) (h : m.height > f.stateHeight) :
    (recv fuel f m).log = f.log := by
  unfold recv
  by_cases h1 : (m.sender == f.me) = true
  · simp [h1]
  · by_cases h3 : (m.inst != f.inst) = true
    · simp [h1, h3, show ¬ m.height < f.stateHeight by omega]
    · simp only [h1, h3, show ¬ m.height < f.stateHeight by omega, h, if_true, if_false]
      unfold pushToCache
      by_cases h5 : m.height < f.latest
      · simp [h5]
      · simp only [h5, if_false]; by_cases h6 : m.height > f.latest <;> simp [h6]

/-! ## non-vacuity: the nested drain that used to leak height-1 messages into the term of height 2 -/
example :
    let f := run 100 { me := 1, inst := 7 }
      [.recv ⟨1, 1, 7, 3, 1⟩, .recv ⟨2, 1, 7, 2, 0⟩, .advance 1]
    f.log.map (fun e => (e.1, e.2.uid)) = [(1, 1)] ∧ f.stateHeight = 2 := by decide

end LeanHelix.C17
