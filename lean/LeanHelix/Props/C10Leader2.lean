import LeanHelix.Props.C11Net
import LeanHelix.Net.Sent
/-!
# C10 / C18 at the network level: a correct member's own proposals

Read off `Net.reach_sent` (every NEW_VIEW / PREPREPARE among a member's effects is its stored proposal of that
view; every NEW_VIEW has the shape `onElectedByViewChange` gives it), for every reachable state of the
network model, with no assumption about the adversary or the consumer:

* `net_newview_only_by_leader`: a correct member sends a NEW_VIEW only for a view it leads (the member at
  position `view mod size` of the ordered committee), for this instance and height, signed by itself;
* `net_one_proposal_per_view`: all NEW_VIEWs and PREPREPAREs a correct member ever sends for one view carry
  one and the same proposal (signed content and block) — a correct leader does not equivocate, whatever its
  transport reports and however many late votes reach it.
-/
namespace LeanHelix.C10Net
open LeanHelix LeanHelix.Msg LeanHelix.Term LeanHelix.Net

variable {C : NetCfg}

theorem net_newview_only_by_leader (hwf : WF C) {net : Net} (hr : Reach C net) {i : Nat}
    (hi : C.honest i = true) (hmi : ∃ m ∈ C.ms, m.id = i) (rs : List Nat) (nv : NVMsg)
    (hsent : Out.send rs (.newView nv) ∈ net.outs i) :
    isLeader (C.cfg i) i nv.header.view = true ∧ nv.header.inst = C.inst ∧ nv.header.height = C.height
    ∧ nv.sender = mySig (C.cfg i) ∧ nv.pp.sender = nv.sender ∧ nv.pp.header.view = nv.header.view := by
  have hcfg := C11Net.node_cfg hwf hr i hi hmi
  obtain ⟨_, s2, s3, s4, s5, _, _, _, s9, s10, _⟩ := (reach_sent hr i).nvShape rs nv hsent
  rw [hcfg] at s2 s3 s4 s10
  exact ⟨s10, s2, s3, s4, s5, s9⟩

/-- the proposal a sent message carries, and the view it is for -/
def proposalOf : Message → Option (Nat × PPMsg)
  | .newView nv => some (nv.header.view, ⟨nv.pp, nv.block⟩)
  | .preprepare ppm => some (ppm.c.header.view, ppm)
  | _ => none

theorem net_one_proposal_per_view {net : Net} (hr : Reach C net) (i : Nat)
    (rs1 rs2 : List Nat) (m1 m2 : Message) (v : Nat) (p1 p2 : PPMsg)
    (h1 : Out.send rs1 m1 ∈ net.outs i) (h2 : Out.send rs2 m2 ∈ net.outs i)
    (e1 : proposalOf m1 = some (v, p1)) (e2 : proposalOf m2 = some (v, p2)) : p1 = p2 := by
  have hs := reach_sent hr i
  have key : ∀ (rs : List Nat) (m : Message) (p : PPMsg), Out.send rs m ∈ net.outs i → proposalOf m = some (v, p) →
      (net.node i).store.getPP (net.node i).cfg.height v = some p := by
    intro rs m p hm he
    cases m with
    | newView nv =>
      simp only [proposalOf, Option.some.injEq, Prod.mk.injEq] at he
      have := hs.newViews rs nv hm
      rw [he.1, he.2] at this; exact this
    | preprepare ppm =>
      simp only [proposalOf, Option.some.injEq, Prod.mk.injEq] at he
      have := hs.preprepares rs ppm hm
      rw [he.1, he.2] at this; exact this
    | prepare _ => cases he
    | commit _ => cases he
    | viewChange _ => cases he
  have a := key rs1 m1 p1 h1 e1
  have b := key rs2 m2 p2 h2 e2
  rw [a] at b
  exact Option.some.inj b

end LeanHelix.C10Net
