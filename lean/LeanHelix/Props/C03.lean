import LeanHelix.Model.Worker
import LeanHelix.Model.BlockProof
import LeanHelix.Lemmas.TermStore
import LeanHelix.Props.C02
/-!
# C03 — Every committed (block, proof) pair passes strict ValidateBlockConsensus

Chain of theorems over the Term model:

1. `commits_ok_step`: in every reachable node state, every stored COMMIT is COMMIT-typed, from a
   committee member, with a verifying signature and a valid random-seed share, and no two stored
   COMMITs share (height, view, hash, sender) — for every event and every SPI answer (this is
   where outsiders' and re-wrapped PREPARE signatures are kept out, findings D8 / D9).
2. `commit_callback_payload`: the commit callback gets exactly the stored COMMITs of (h, v, hash),
   whose senders reach the quorum, and the block of the stored proposal of (h, v) whose signed hash
   is `hash`.
3. `committed_proof_validates`: the block proof generated from them passes the model of strict
   `ValidateBlockConsensus` (C02) of any node with the same instance id and committee.

Named hypotheses (consumer SPI contract / filter), not axioms:
* `hinst` — stored COMMITs are for this instance and height (the worker's filter only forwards
  such messages: `C08.filtered_messages_change_nothing`, C17);
* `A2` — the committed block satisfies the commitment of the hash it was accepted under and has
  the height it was proposed for (`ValidateBlockProposal` / `RequestNewBlockProposal` contract);
* `A4` — the aggregate of verified random-seed shares verifies.
-/
namespace LeanHelix.C03
open LeanHelix LeanHelix.Msg LeanHelix.Term

def ckey (cm : CMsg) : Nat × Nat × Nat × Nat := (cm.header.height, cm.header.view, cm.header.hash, cm.sender.id)

structure CommitsOK (n : Node) : Prop where
  auth : ∀ cm ∈ n.store.commits, cm.shareOk = true ∧ cm.header.mtype = tC ∧ isMember n.cfg cm.sender.id = true ∧ cm.sender.ok = true
  keys : (n.store.commits.map ckey).Nodup

theorem commitsOK_init (c : Cfg) : CommitsOK { cfg := c } := ⟨(by intro cm h; cases h), List.nodup_nil⟩

private theorem storeCommit_commits (s : Store) (cm : CMsg) :
    (s.storeCommit cm).commits = s.commits ∨
    ((s.storeCommit cm).commits = s.commits ++ [cm] ∧ ckey cm ∉ s.commits.map ckey) := by
  unfold Store.storeCommit
  split
  · exact Or.inl rfl
  · rename_i h
    right
    refine ⟨rfl, ?_⟩
    intro hm
    apply h
    obtain ⟨x, hx, hk⟩ := List.mem_map.mp hm
    simp only [ckey, Prod.mk.injEq] at hk
    rw [List.any_eq_true]
    exact ⟨x, hx, by simp [hk.1, hk.2.1, hk.2.2.1, hk.2.2.2]⟩

private theorem apply_commits_other (s : Store) (op : StoreOp) (h : ∀ cm, op ≠ .commit cm) :
    (s.apply op).commits = s.commits := by
  cases op with
  | commit cm => exact absurd rfl (h cm)
  | pp m =>
    show (s.storePP m).commits = s.commits
    unfold Store.storePP; split <;> rfl
  | prepare m =>
    show (s.storePrepare m).commits = s.commits
    unfold Store.storePrepare; split <;> rfl
  | vc m =>
    show (s.storeVC m).commits = s.commits
    unfold Store.storeVC; split <;> rfl

/-- every justified insert preserves the invariant (the node's own id is a committee member) -/
theorem commitsOK_evolves {a b : Node} (hme : isMember a.cfg a.cfg.me = true) (h : Evolves J a b)
    (ha : CommitsOK a) : CommitsOK b := by
  have gen : ∀ {a b : Node}, Evolves J a b → isMember a.cfg a.cfg.me = true → CommitsOK a →
      CommitsOK b ∧ b.cfg = a.cfg := by
    intro a b h
    induction h with
    | refl n => intro _ ha; exact ⟨ha, rfl⟩
    | other h => rename_i n n'; intro _ ha; exact ⟨⟨by rw [h.1, h.2]; exact ha.auth, by rw [h.2]; exact ha.keys⟩, h.1⟩
    | insert op hP =>
      rename_i n
      intro hme ha
      refine ⟨?_, rfl⟩
      cases op with
      | commit cm =>
        have hauth : cm.shareOk = true ∧ cm.header.mtype = tC ∧ isMember n.cfg cm.sender.id = true ∧ cm.sender.ok = true := by
          rcases hP with hr | ⟨ho, _⟩
          · exact hr
          · rw [ho]; exact ⟨rfl, rfl, hme, rfl⟩
        rcases storeCommit_commits n.store cm with e | ⟨e, hk⟩
        · exact ⟨by show ∀ x ∈ (n.store.storeCommit cm).commits, _; rw [e]; exact ha.auth,
                 by show ((n.store.storeCommit cm).commits.map ckey).Nodup; rw [e]; exact ha.keys⟩
        · refine ⟨?_, ?_⟩
          · show ∀ x ∈ (n.store.storeCommit cm).commits, _
            rw [e]; intro x hx; simp at hx
            rcases hx with hx | rfl
            · exact ha.auth x hx
            · exact hauth
          · show ((n.store.storeCommit cm).commits.map ckey).Nodup
            rw [e, List.map_append, List.nodup_append]
            refine ⟨ha.keys, by simp, ?_⟩
            intro x hx y hy; simp at hy; subst hy
            intro exy; subst exy; exact hk hx
      | pp m => exact ⟨by rw [show ({ n with store := n.store.apply (.pp m) } : Node).store.commits = n.store.commits from apply_commits_other _ _ (by intro c hc; cases hc)]; exact ha.auth,
                       by rw [show ({ n with store := n.store.apply (.pp m) } : Node).store.commits = n.store.commits from apply_commits_other _ _ (by intro c hc; cases hc)]; exact ha.keys⟩
      | prepare m => exact ⟨by rw [show ({ n with store := n.store.apply (.prepare m) } : Node).store.commits = n.store.commits from apply_commits_other _ _ (by intro c hc; cases hc)]; exact ha.auth,
                            by rw [show ({ n with store := n.store.apply (.prepare m) } : Node).store.commits = n.store.commits from apply_commits_other _ _ (by intro c hc; cases hc)]; exact ha.keys⟩
      | vc m => exact ⟨by rw [show ({ n with store := n.store.apply (.vc m) } : Node).store.commits = n.store.commits from apply_commits_other _ _ (by intro c hc; cases hc)]; exact ha.auth,
                       by rw [show ({ n with store := n.store.apply (.vc m) } : Node).store.commits = n.store.commits from apply_commits_other _ _ (by intro c hc; cases hc)]; exact ha.keys⟩
    | trans _ _ ih1 ih2 =>
      intro hme ha
      obtain ⟨hb, eb⟩ := ih1 hme ha
      obtain ⟨hc, ec⟩ := ih2 (by rw [eb]; exact hme) hb
      exact ⟨hc, by rw [ec, eb]⟩
  exact (gen h hme ha).1

/-- **1. the invariant holds after every event, whatever the message and the SPI answers** -/
theorem commits_ok_step (n : Node) (e : Event) (spi : List Spi) (hme : isMember n.cfg n.cfg.me = true)
    (hstart : ∀ c, e = .start c → n.view = 0) (h : CommitsOK n) : CommitsOK (step n e spi).1 :=
  commitsOK_evolves hme (step_ev n e spi hstart) h

/-- **2. what the commit callback is given** -/
theorem commit_callback_payload (w : Term.W) (h v hash : Nat) (b : Block) (cs : List CMsg)
    (hin : Out.commit b cs ∈ (checkCommitted w h v hash).outs) (hnot : Out.commit b cs ∉ w.outs) :
    cs = w.n.store.getCommits h v hash
    ∧ isQuorum w.n.cfg (cs.map (·.sender.id)) = true
    ∧ ∃ ppm, w.n.store.getPP h v = some ppm ∧ ppm.block = some b ∧ ppm.c.header.hash = hash := by
  unfold checkCommitted at hin
  dsimp only at hin
  split at hin
  · exact absurd hin hnot
  split at hin
  · exact absurd hin hnot
  rename_i hpre
  split at hin
  · exact absurd hin hnot
  rename_i hq
  split at hin
  · exact absurd hin hnot
  rename_i ppm hget
  split at hin
  · exact absurd hin hnot
  split at hin
  · exact absurd hin hnot
  rename_i b' hb
  have hq' : isQuorum w.n.cfg ((w.n.store.getCommits h v hash).map (·.sender.id)) = true := by simpa using hq
  have hmem : Out.commit b cs = Out.commit b' (w.n.store.getCommits h v hash) := by
    simp only [W.emit, List.mem_append, List.mem_singleton] at hin
    rcases hin with hin | hin
    · exfalso
      split at hin
      · exact hnot hin
      · simp only [W.emit, List.mem_append, List.mem_singleton] at hin
        rcases hin with hin | hin
        · exact hnot hin
        · cases hin
    · exact hin
  simp only [Out.commit.injEq] at hmem
  obtain ⟨rfl, rfl⟩ := hmem
  refine ⟨rfl, hq', ppm, hget, hb, ?_⟩
  have hp : isPreprepared w.n h v hash = true := by simpa using hpre
  unfold isPreprepared at hp
  rw [hget] at hp
  simp only [Bool.and_eq_true, beq_iff_eq] at hp
  exact hp.2

private theorem getCommits_ids_nodup (s : Store) (h v hash : Nat) (hk : (s.commits.map ckey).Nodup) :
    ((s.getCommits h v hash).map (·.sender.id)).Nodup := by
  unfold Store.getCommits
  generalize s.commits = l at hk
  induction l with
  | nil => simp
  | cons x xs ih =>
    simp only [List.map_cons, List.nodup_cons] at hk
    by_cases hx : (x.header.height == h && x.header.view == v && x.header.hash == hash) = true
    · simp only [List.filter_cons, hx, if_true, List.map_cons, List.nodup_cons]
      refine ⟨?_, ih hk.2⟩
      intro hm
      obtain ⟨y, hy, hid⟩ := List.mem_map.mp hm
      rw [List.mem_filter] at hy
      apply hk.1
      apply List.mem_map.mpr
      refine ⟨y, hy.1, ?_⟩
      simp only [Bool.and_eq_true, beq_iff_eq] at hx
      have hy2 := hy.2
      simp only [Bool.and_eq_true, beq_iff_eq] at hy2
      simp only [ckey, Prod.mk.injEq]
      exact ⟨by rw [hy2.1.1, hx.1.1], by rw [hy2.1.2, hx.1.2], by rw [hy2.2, hx.2], hid⟩
    · simp only [List.filter_cons, hx]
      exact ih hk.2

private theorem mem_getCommits {s : Store} {h v hash : Nat} {cm : CMsg} (hm : cm ∈ s.getCommits h v hash) :
    cm ∈ s.commits ∧ cm.header.height = h ∧ cm.header.view = v ∧ cm.header.hash = hash := by
  unfold Store.getCommits at hm
  rw [List.mem_filter] at hm
  have h2 := hm.2
  simp only [Bool.and_eq_true, beq_iff_eq] at h2
  exact ⟨hm.1, h2.1.1, h2.1.2, h2.2⟩

/-- **3. the certificate a correct node hands out is accepted by strict ValidateBlockConsensus**
of every node configured with the same instance id and committee. -/
theorem committed_proof_validates (w : Term.W) (h v hash : Nat) (b : Block) (cs : List CMsg)
    (hok : CommitsOK w.n)
    (hin : Out.commit b cs ∈ (checkCommitted w h v hash).outs) (hnot : Out.commit b cs ∉ w.outs)
    (hW1 : 1 ≤ LeanHelix.W w.n.cfg.members) (hW2 : LeanHelix.W w.n.cfg.members < U64)
    (hinst : ∀ cm ∈ w.n.store.commits, cm.header.inst = w.n.cfg.inst)
    (A2 : b.hash = hash ∧ b.height = h) :
    ∃ p, BlockProof.generate cs true = some p ∧
      BlockProof.validate ⟨false, some b, some p, w.n.cfg.inst, w.n.cfg.members, false⟩ = .ok := by
  obtain ⟨hcs, hq, ppm, _, _, _⟩ := commit_callback_payload w h v hash b cs hin hnot
  have hne : cs ≠ [] := by
    intro he
    have : isQuorum w.n.cfg ([] : List Nat) = true := by rw [he] at hq; simpa using hq
    unfold isQuorum Quorum.isQuorum at this
    simp only [decide_eq_true_eq, ge_iff_le] at this
    rw [calcQuorumWeight_eq _ hW1 hW2, subsetWeight_eq _ _ hW2] at this
    have hz : wt w.n.cfg.members (fun i => ([] : List Nat).contains i) = 0 := by
      have : wt w.n.cfg.members (fun i => ([] : List Nat).contains i) = wt w.n.cfg.members (fun _ => false) := by
        apply wt_congr; intro m _; simp
      rw [this, wt_false]
    have := three_f_lt w.n.cfg.members hW1
    unfold Q at *; omega
  cases hcons : cs with
  | nil => exact absurd hcons hne
  | cons c rest =>
    have hc_mem : c ∈ w.n.store.getCommits h v hash := by rw [← hcs, hcons]; exact List.mem_cons_self ..
    obtain ⟨hc_in, hch, hcv, hchash⟩ := mem_getCommits hc_mem
    refine ⟨⟨⟨tC, c.header.inst, c.header.height, c.header.view, c.header.hash⟩, cs.map (·.sender), false, true⟩, by rw [hcons]; rfl, ?_⟩
    rw [C02.validate_ok_iff_genuine]
    refine ⟨rfl, b, _, rfl, rfl, rfl, (hinst c hc_in), by rw [hch]; exact A2.2.symm, by rw [hchash]; exact A2.1, ?_, ?_, ?_, rfl, rfl⟩
    · intro s hs
      obtain ⟨cm, hcm, rfl⟩ := List.mem_map.mp hs
      have hcm' : cm ∈ w.n.store.getCommits h v hash := by rw [← hcs]; exact hcm
      have := hok.auth cm (mem_getCommits hcm').1
      exact ⟨this.2.2.2, this.2.2.1⟩
    · rw [List.map_map]
      have := getCommits_ids_nodup w.n.store h v hash hok.keys
      rw [← hcs] at this
      exact this
    · simp only [Bool.false_eq_true, if_false, List.map_map]
      exact hq

/-- the same for any node state: a logged commit quorum for (h, v, hash) generates a proof that
strict ValidateBlockConsensus accepts together with any block of that hash and height (used by the
network model, `Net/BlockBody.lean`) -/
theorem stored_quorum_validates (n : Node) (h v hash : Nat) (b : Block)
    (hok : CommitsOK n)
    (hq : isQuorum n.cfg ((n.store.getCommits h v hash).map (·.sender.id)) = true)
    (hW1 : 1 ≤ LeanHelix.W n.cfg.members) (hW2 : LeanHelix.W n.cfg.members < U64)
    (hinst : ∀ cm ∈ n.store.commits, cm.header.inst = n.cfg.inst)
    (A2 : b.hash = hash ∧ b.height = h) :
    ∃ p, BlockProof.generate (n.store.getCommits h v hash) true = some p ∧
      BlockProof.validate ⟨false, some b, some p, n.cfg.inst, n.cfg.members, false⟩ = .ok := by
  have hne : n.store.getCommits h v hash ≠ [] := by
    intro he
    have : isQuorum n.cfg ([] : List Nat) = true := by rw [he] at hq; simpa using hq
    unfold isQuorum Quorum.isQuorum at this
    simp only [decide_eq_true_eq, ge_iff_le] at this
    rw [calcQuorumWeight_eq _ hW1 hW2, subsetWeight_eq _ _ hW2] at this
    have hz : wt n.cfg.members (fun i => ([] : List Nat).contains i) = 0 := by
      have : wt n.cfg.members (fun i => ([] : List Nat).contains i) = wt n.cfg.members (fun _ => false) := by
        apply wt_congr; intro m _; simp
      rw [this, wt_false]
    have := three_f_lt n.cfg.members hW1
    unfold Q at *; omega
  cases hcons : n.store.getCommits h v hash with
  | nil => exact absurd hcons hne
  | cons c rest =>
    have hc_mem : c ∈ n.store.getCommits h v hash := by rw [hcons]; exact List.mem_cons_self ..
    obtain ⟨hc_in, hch, hcv, hchash⟩ := mem_getCommits hc_mem
    refine ⟨⟨⟨tC, c.header.inst, c.header.height, c.header.view, c.header.hash⟩, (c :: rest).map (·.sender), false, true⟩, rfl, ?_⟩
    rw [C02.validate_ok_iff_genuine]
    refine ⟨rfl, b, _, rfl, rfl, rfl, (hinst c hc_in), by rw [hch]; exact A2.2.symm, by rw [hchash]; exact A2.1, ?_, ?_, ?_, rfl, rfl⟩
    · intro s hs
      obtain ⟨cm, hcm, rfl⟩ := List.mem_map.mp hs
      have hcm' : cm ∈ n.store.getCommits h v hash := by rw [hcons]; exact hcm
      have := hok.auth cm (mem_getCommits hcm').1
      exact ⟨this.2.2.2, this.2.2.1⟩
    · rw [List.map_map]
      have := getCommits_ids_nodup n.store h v hash hok.keys
      rw [hcons] at this
      exact this
    · simp only [Bool.false_eq_true, if_false, List.map_map]
      rw [hcons] at hq
      exact hq

end LeanHelix.C03
