import LeanHelix.Spec.Safety
import LeanHelix.Props.C10
/-!
# C01 — Agreement: no two correct nodes commit different blocks at one height

**Abstract layer (fully proved, `Spec/Safety.lean`)**: `agreement` — for every committee (any
size, any weights with W ≥ 1), every Byzantine set of weight ≤ f = ⌊(W-1)/3⌋ and every history of
correct nodes' statements built according to the local rules `Justified` (any length, any
interleaving; Byzantine members are unconstrained and appear only through the quorum predicates),
all decisions are equal.

**Local rules, proved for the term model over whole executions (`Props/C01Local.lean`)**:
`C01Local.local_rules_hold` — for every configuration whose weight fits 64 bits and every sequence of
deliveries, election triggers, cancellations and SPI answers, the statements a node makes obey the
node-local part `LocalJ` of every rule; `C01Local.justified_of_local` — `LocalJ` together with the
certificate part (`Cert`) is `Spec.Justified`.

| rule in `Justified`                                         | local part (`LocalJ`, whole executions)  | certificate part: node-level theorem (Term model)       |
|-------------------------------------------------------------|------------------------------------------|---------------------------------------------------------|
| `acc`: one hash per view, not below an own vote             | `local_rules_hold`, `one_hash_per_view`  | —                                                       |
| `acc` in v>0: valid NEW_VIEW certificate …                   | ghost tag `viaNV`                        | `C07.newview_ignored_unless_valid_certificate`, `C07.accepted_newview_reproposes_lock`, `C11NewView.elected_newview_is_valid_certificate` |
| … or a stand-alone proposal not conflicting with the latest lock | `local_rules_hold` (`lockConflict`)  | `bare_preprepare_respects_lock` (below; known finding D5 for C07) |
| `com`: accepted that hash in the current view               | `local_rules_hold`                       | prepared certificate: `Term.PreparedCond`, `C08` (only authentic parts count) |
| `lcom` / `dec`: commit quorum                                | —                                        | `C03.commit_callback_payload`, `Blk.late`               |
| `vote`: carries the proof of the highest prepared view      | `local_rules_hold` (`voteProof_spec`, persistence of the extractable proof) | `C09.timeout_vote`, `C09.extractProof_spec`, `WorkerInvariants.reachable_own_vote_valid` |
| quorum arithmetic                                            |                                          | `C06` (`wt_incl_excl`, `three_f_lt`)                    |

**Not mechanised**: the global composition — interleaving the statement lists of N nodes into one
history and discharging the certificate parts from signature unforgeability (it needs a network
model with an explicit adversary knowledge relation).  The network-level claim is therefore labelled
partial; it is exercised on real nodes by the `node` suite (adversary library, agreement monitor).
-/
namespace LeanHelix.C01
open LeanHelix LeanHelix.Spec LeanHelix.Msg LeanHelix.Term

/-- **Agreement** (abstract layer), restated: any two decisions in a rule-abiding history are equal. -/
theorem agreement (S : Setting) {H : List Ev} (hv : Valid S H) {a b ha hb : Nat}
    (da : Ev.dec a ha ∈ H) (db : Ev.dec b hb ∈ H) : ha = hb :=
  Spec.agreement S hv da db

/-- a decided value was accepted by a correct member, and certified hashes are unique per view -/
theorem decided_value_was_accepted (S : Setting) {H : List Ev} (hv : Valid S H) {n h : Nat}
    (hd : Ev.dec n h ∈ H) : ∃ v, ∃ m ∈ S.ms, S.honest m.id = true ∧ Ev.acc m.id v h ∈ H :=
  Spec.decided_was_accepted_by_correct S hv hd

/-- **node-level counterpart of the stand-alone-proposal rule**: a node that holds a prepared
certificate (prepared in view pv, with the proposal stored for pv) ignores a bare PREPREPARE of a
later view whose hash differs from the hash it is prepared on — completely (nothing stored, sent,
no SPI call). -/
theorem bare_preprepare_respects_lock (w : Term.W) (ppm locked : PPMsg) (pv : Nat)
    (hprep : w.n.prepared = some pv) (hlater : ppm.c.header.view > pv)
    (hlock : w.n.store.getPP ppm.c.header.height pv = some locked)
    (hdiff : locked.c.header.hash ≠ ppm.c.header.hash) :
    handlePrePrepare w ppm = w := by
  unfold handlePrePrepare
  split
  · rfl
  · have : lockConflict w.n ppm = true := by
      unfold lockConflict
      rw [hprep]
      simp only [hlock, Bool.and_eq_true, decide_eq_true_eq, bne_iff_ne, ne_eq]
      exact ⟨hlater, hdiff⟩
    rw [if_pos this]

/-! ## non-vacuity: a rule-abiding history of a 4-member committee in which two members decide -/
def exS : Setting := ⟨[⟨0, 1⟩, ⟨1, 1⟩, ⟨2, 1⟩, ⟨3, 1⟩], fun i => i != 3, by decide, by decide⟩

open Ev in
/-- members 0, 1, 2 accept hash 7 in view 0, become prepared, commit; members 0 and 1 decide (newest first) -/
def exH : List Ev :=
  [dec 1 7, dec 0 7, com 2 0 7, com 1 0 7, com 0 0 7, acc 2 0 7, acc 1 0 7, acc 0 0 7]

private theorem exQ : Q exS.ms ≤ wt exS.ms (fun i => i != 3) := by decide

open Ev in
example : Valid exS exH := by
  have hcert : ∀ H : List Ev, acc 0 0 7 ∈ H → acc 1 0 7 ∈ H → acc 2 0 7 ∈ H → validCert exS H 0 7 := by
    intro H h0 h1 h2
    refine ⟨fun i => i != 3, exQ, ?_⟩
    intro m hm hp _
    simp [exS] at hm
    rcases hm with rfl | rfl | rfl | rfl
    · exact h0
    · exact h1
    · exact h2
    · simp at hp
  have hcq : ∀ H : List Ev, com 0 0 7 ∈ H → com 1 0 7 ∈ H → com 2 0 7 ∈ H → commitQuorum exS H 0 7 := by
    intro H h0 h1 h2
    refine ⟨fun i => i != 3, exQ, ?_⟩
    intro m hm hp _
    simp [exS] at hm
    rcases hm with rfl | rfl | rfl | rfl
    · exact Or.inl h0
    · exact Or.inl h1
    · exact Or.inl h2
    · simp at hp
  unfold exH
  refine .cons (.cons (.cons (.cons (.cons (.cons (.cons (.cons .nil ?a0) ?a1) ?a2) ?c0) ?c1) ?c2) ?d0) ?d1
  case a0 => exact ⟨(by intro h hh; cases hh), (by intro v pf hh; cases hh), (by intro hh; cases hh)⟩
  case a1 => exact ⟨(by intro h hh; simp at hh), (by intro v pf hh; simp at hh), (by intro hh; cases hh)⟩
  case a2 => exact ⟨(by intro h hh; simp at hh), (by intro v pf hh; simp at hh), (by intro hh; cases hh)⟩
  case c0 => exact ⟨(by simp), hcert _ (by simp) (by simp) (by simp), (by intro v pf hh; simp at hh), (by intro v h hh; simp at hh; omega)⟩
  case c1 => exact ⟨(by simp), hcert _ (by simp) (by simp) (by simp), (by intro v pf hh; simp at hh), (by intro v h hh; simp at hh; omega)⟩
  case c2 => exact ⟨(by simp), hcert _ (by simp) (by simp) (by simp), (by intro v pf hh; simp at hh), (by intro v h hh; simp at hh; omega)⟩
  case d0 => exact ⟨0, hcq _ (by simp) (by simp) (by simp)⟩
  case d1 => exact ⟨0, hcq _ (by simp) (by simp) (by simp)⟩

end LeanHelix.C01
