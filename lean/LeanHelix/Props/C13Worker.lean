import LeanHelix.Props.C14
/-!
# C13 at worker level — the heights passed to the new-consensus-round callback strictly increase

Over every sequence of worker events (deliveries, cache drains, commits and round starts nested inside
deliveries, node syncs of older / equal / newer heights, failing commit callbacks): every
new-round callback is for a height above the node's height before it, and sets the node's height to
it (`newRound_rounds` / `drain_rounds`), so over a whole execution the callback heights are
strictly increasing (`round_heights_increase`) and the node's height never decreases.
-/
namespace LeanHelix.C13
open LeanHelix LeanHelix.Msg LeanHelix.Worker

/-- heights of the new-round callbacks among the effects, in order -/
def roundHeights (outs : List WOut) : List Nat :=
  outs.filterMap (fun o => match o with | .newRound h _ => some h | _ => none)

theorem roundHeights_append (a b : List WOut) : roundHeights (a ++ b) = roundHeights a ++ roundHeights b := by
  unfold roundHeights; rw [List.filterMap_append]

/-- the effects added between `w` and `w'` contain new-round callbacks with strictly increasing
heights, all above `w`'s height and at most `w'`'s height -/
def RoundsOK (w w' : WW) : Prop :=
  ∃ l, w'.outs = w.outs ++ l ∧ (roundHeights l).Pairwise (· < ·) ∧
    (∀ h ∈ roundHeights l, w.n.height < h ∧ h ≤ w'.n.height) ∧ w.n.height ≤ w'.n.height

theorem RoundsOK.refl (w : WW) : RoundsOK w w := ⟨[], by simp, List.Pairwise.nil, (by intro h hh; cases hh), Nat.le_refl _⟩

theorem RoundsOK.trans {a b c : WW} (h1 : RoundsOK a b) (h2 : RoundsOK b c) : RoundsOK a c := by
  obtain ⟨l1, e1, p1, b1, m1⟩ := h1
  obtain ⟨l2, e2, p2, b2, m2⟩ := h2
  refine ⟨l1 ++ l2, by rw [e2, e1, List.append_assoc], ?_, ?_, Nat.le_trans m1 m2⟩
  · rw [roundHeights_append, List.pairwise_append]
    refine ⟨p1, p2, ?_⟩
    intro x hx y hy
    have := b1 x hx
    have := b2 y hy
    omega
  · intro h hh
    rw [roundHeights_append] at hh
    rcases List.mem_append.mp hh with hh | hh
    · have := b1 h hh; omega
    · have := b2 h hh; omega

/-- a step that adds no new-round callback and keeps the height -/
theorem RoundsOK.quiet {w w' : WW} (l : List WOut) (ho : w'.outs = w.outs ++ l) (hl : roundHeights l = [])
    (hh : w'.n.height = w.n.height) : RoundsOK w w' :=
  ⟨l, ho, (by rw [hl]; exact List.Pairwise.nil), (by intro h hm; rw [hl] at hm; cases hm), (by rw [hh]; exact Nat.le_refl _)⟩

/-- an extension of the effects without new-round callbacks -/
def Quiet (w w' : WW) : Prop := ∃ l, w'.outs = w.outs ++ l ∧ roundHeights l = []

theorem Quiet.refl (w : WW) : Quiet w w := ⟨[], by simp, rfl⟩
theorem Quiet.trans {a b c : WW} (h1 : Quiet a b) (h2 : Quiet b c) : Quiet a c := by
  obtain ⟨l1, e1, q1⟩ := h1
  obtain ⟨l2, e2, q2⟩ := h2
  exact ⟨l1 ++ l2, by rw [e2, e1, List.append_assoc], by rw [roundHeights_append, q1, q2]; rfl⟩

theorem roundHeights_term (l : List Term.Out) : roundHeights (l.map WOut.term) = [] := by
  induction l with
  | nil => rfl
  | cons x xs ih => unfold roundHeights at ih ⊢; simp only [List.map_cons, List.filterMap_cons]; exact ih

theorem withTerm_quiet (w : WW) (t : Term.Node) (f : Term.W → Term.W) : Quiet w (withTerm w t f).1 :=
  ⟨_, rfl, roundHeights_term _⟩

theorem handInTerm_quiet (w : WW) (t : Term.Node) (m : Message) : Quiet w (handInTerm w t m).1 := by
  unfold handInTerm
  dsimp only
  cases m <;> exact ⟨_, rfl, roundHeights_term _⟩

theorem disposeTerm_quiet (w : WW) : Quiet w (disposeTerm w) := by
  unfold disposeTerm
  dsimp only
  split
  · exact ⟨[.stopTimer], rfl, rfl⟩
  · exact Quiet.refl w

theorem askCommittee_quiet (w : WW) (h : Nat) : Quiet w (askCommittee w h).1 := by
  unfold askCommittee
  dsimp only
  split
  · split <;> exact ⟨[], by simp, rfl⟩
  · exact ⟨[], by simp, rfl⟩

theorem createTerm_quiet (w : WW) (h : Nat) (ms : List Member) (c : Bool) : Quiet w (createTerm w h ms c) := by
  unfold createTerm
  split
  · split
    · exact ⟨[_], rfl, rfl⟩
    · exact ⟨_, rfl, roundHeights_term _⟩
  · exact Quiet.refl w

/-- `installTerm` adds exactly one new-round callback, for `h` -/
theorem installTerm_rounds (w : WW) (h : Nat) (c : Bool) :
    ∃ l, (installTerm w h c).outs = w.outs ++ l ∧ roundHeights l = [h] := by
  unfold installTerm
  dsimp only
  obtain ⟨l1, e1, q1⟩ := disposeTerm_quiet w
  obtain ⟨l2, e2, q2⟩ := askCommittee_quiet (disposeTerm w) h
  obtain ⟨l3, e3, q3⟩ := createTerm_quiet (askCommittee (disposeTerm w) h).1 h (askCommittee (disposeTerm w) h).2 c
  refine ⟨l1 ++ l2 ++ l3 ++ [.newRound h c], ?_, ?_⟩
  · show (createTerm (askCommittee (disposeTerm w) h).1 h (askCommittee (disposeTerm w) h).2 c).outs ++ [WOut.newRound h c] = _
    rw [e3, e2, e1]; simp [List.append_assoc]
  · rw [roundHeights_append, roundHeights_append, roundHeights_append, q1, q2, q3]; rfl

mutual
theorem newRound_rounds : ∀ (fuel : Nat) (w : WW) (prevH : Nat) (c : Bool), RoundsOK w (newRound fuel w prevH c)
  | 0, w, _, _ => by unfold newRound; exact RoundsOK.refl w
  | fuel + 1, w, prevH, c => by
    unfold newRound
    dsimp only
    split
    · split
      · exact ⟨[], by simp, List.Pairwise.nil, (by intro h hh; cases hh), Nat.le_refl _⟩
      · rename_i hge
        have hlt : w.n.height < wrap64 (prevH + 1) := by
          have : ¬ (w.n.height ≥ wrap64 (prevH + 1)) := hge
          omega
        obtain ⟨l, el, ql⟩ := installTerm_rounds
          ({ w with n := { ({ w with n := { w.n with reg := (Contexts.step w.n.reg (.for_ ⟨wrap64 (prevH + 1), 0⟩)).1 } } : WW).n with height := wrap64 (prevH + 1) } } : WW)
          (wrap64 (prevH + 1)) c
        have hh := C14.installTerm_height
          ({ w with n := { ({ w with n := { w.n with reg := (Contexts.step w.n.reg (.for_ ⟨wrap64 (prevH + 1), 0⟩)).1 } } : WW).n with height := wrap64 (prevH + 1) } } : WW)
          (wrap64 (prevH + 1)) c
        generalize installTerm ({ w with n := { ({ w with n := { w.n with reg := (Contexts.step w.n.reg (.for_ ⟨wrap64 (prevH + 1), 0⟩)).1 } } : WW).n with height := wrap64 (prevH + 1) } } : WW) (wrap64 (prevH + 1)) c = w1 at el ql hh ⊢
        have hh1 : w1.n.height = wrap64 (prevH + 1) := hh
        have s1 : RoundsOK w w1 := by
          refine ⟨l, el, by rw [ql]; exact List.pairwise_singleton _ _, ?_, by omega⟩
          intro h hm
          rw [ql] at hm
          simp only [List.mem_singleton] at hm
          omega
        have s2 := drain_rounds fuel w1 (wrap64 (prevH + 1)) (cacheGet w1.n.cache (wrap64 (prevH + 1)))
        generalize drain fuel w1 (wrap64 (prevH + 1)) (cacheGet w1.n.cache (wrap64 (prevH + 1))) = w2 at s2 ⊢
        obtain ⟨l2, e2, p2, b2, m2⟩ := RoundsOK.trans s1 s2
        exact ⟨l2, e2, p2, b2, m2⟩
    · exact ⟨[], by simp, List.Pairwise.nil, (by intro h hh; cases hh), Nat.le_refl _⟩
theorem drain_rounds : ∀ (fuel : Nat) (w : WW) (height : Nat) (ms : List Message), RoundsOK w (drain fuel w height ms)
  | 0, w, _, _ => by unfold drain; exact RoundsOK.refl w
  | _ + 1, w, _, [] => by unfold drain; exact RoundsOK.refl w
  | fuel + 1, w, height, m :: rest => by
    unfold drain
    split
    · exact RoundsOK.refl w
    · split
      · exact drain_rounds fuel w height rest
      · split
        · exact drain_rounds fuel w height rest
        · rename_i t _
          dsimp only
          obtain ⟨l0, e0, q0⟩ := handInTerm_quiet w t m
          have h0 : (handInTerm w t m).1.n.height = w.n.height := rfl
          generalize handInTerm w t m = r at e0 h0 ⊢
          obtain ⟨w1, oc⟩ := r
          dsimp only at e0 h0 ⊢
          have s0 : RoundsOK w w1 := RoundsOK.quiet l0 e0 q0 h0
          cases oc with
          | none => exact RoundsOK.trans s0 (drain_rounds fuel w1 height rest)
          | some bc =>
            obtain ⟨b, cs⟩ := bc
            dsimp only
            have s1 : RoundsOK w (w1.emit (.commitCb b (proofOf cs).1 (proofOf cs).2)) :=
              RoundsOK.trans s0 (RoundsOK.quiet [_] rfl rfl rfl)
            split
            · rename_i sp _
              have s2 : RoundsOK (w1.emit (.commitCb b (proofOf cs).1 (proofOf cs).2)) { (w1.emit (.commitCb b (proofOf cs).1 (proofOf cs).2)) with spi := sp } :=
                RoundsOK.quiet [] (by simp) rfl rfl
              exact RoundsOK.trans (RoundsOK.trans (RoundsOK.trans s1 s2) (newRound_rounds fuel _ b.height true)) (drain_rounds fuel _ height rest)
            · rename_i sp _
              have s2 : RoundsOK (w1.emit (.commitCb b (proofOf cs).1 (proofOf cs).2)) { (w1.emit (.commitCb b (proofOf cs).1 (proofOf cs).2)) with spi := sp } :=
                RoundsOK.quiet [] (by simp) rfl rfl
              exact RoundsOK.trans (RoundsOK.trans s1 s2) (drain_rounds fuel _ height rest)
            · exact RoundsOK.trans s1 (drain_rounds fuel _ height rest)
end

theorem deliver_rounds (fuel : Nat) (w : WW) (m : Message) : RoundsOK w (deliver fuel w m) := by
  unfold deliver
  split
  · exact RoundsOK.refl _
  split
  · exact RoundsOK.refl _
  split
  · exact RoundsOK.refl _
  split
  · refine RoundsOK.quiet [] (by simp) rfl ?_
    show (pushToCache w.n m).height = w.n.height
    unfold pushToCache
    dsimp only
    split
    · rfl
    · split <;> rfl
  · exact drain_rounds fuel _ _ _

theorem election_rounds (w : WW) (h v : Nat) : RoundsOK w (election w h v) := by
  unfold election
  cases ht : w.n.term with
  | none => simp only; split <;> exact RoundsOK.refl _
  | some t =>
    simp only
    split
    · exact RoundsOK.refl _
    · obtain ⟨l, el, ql⟩ := withTerm_quiet w t (fun tw => Term.election tw h v)
      exact RoundsOK.quiet l el ql rfl

theorem updateState_rounds (fuel : Nat) (w : WW) (bh : Nat) : RoundsOK w (updateState fuel w bh) := by
  unfold updateState
  split
  · exact newRound_rounds fuel _ bh false
  · exact RoundsOK.refl _

/-- one worker event -/
theorem step_rounds (fuel : Nat) (n : WNode) (e : WEvent) (spi : List WSpi) :
    (roundHeights (Worker.step fuel n e spi).2).Pairwise (· < ·)
    ∧ (∀ h ∈ roundHeights (Worker.step fuel n e spi).2, n.height < h ∧ h ≤ (Worker.step fuel n e spi).1.height)
    ∧ n.height ≤ (Worker.step fuel n e spi).1.height := by
  have key : ∀ (w' : WW), RoundsOK { n := n, spi := spi } w' →
      (roundHeights w'.outs).Pairwise (· < ·) ∧ (∀ h ∈ roundHeights w'.outs, n.height < h ∧ h ≤ w'.n.height) ∧ n.height ≤ w'.n.height := by
    intro w' ⟨l, el, pl, bl, ml⟩
    have : w'.outs = l := by simpa using el
    rw [this]; exact ⟨pl, bl, ml⟩
  unfold Worker.step
  dsimp only
  cases e with
  | deliver m => exact key _ (deliver_rounds fuel _ m)
  | election h v => exact key _ (election_rounds _ h v)
  | update bh => exact key _ (updateState_rounds fuel _ bh)
  | cancelOlder h v => exact key _ (RoundsOK.quiet [] (by simp) rfl rfl)
  | shutdownCtx => exact key _ (RoundsOK.quiet [] (by simp) rfl rfl)

/-- run a sequence of worker events, collecting all effects -/
def runOuts (fuel : Nat) (n : WNode) : List (WEvent × List WSpi) → WNode × List WOut
  | [] => (n, [])
  | (e, spi) :: rest =>
    let r := Worker.step fuel n e spi
    let r2 := runOuts fuel r.1 rest
    (r2.1, r.2 ++ r2.2)

/-- **Over every execution the heights passed to the new-consensus-round callback are strictly
increasing**, all above the starting height, and the node's height never decreases. -/
theorem round_heights_increase (fuel : Nat) (es : List (WEvent × List WSpi)) :
    ∀ (n : WNode), (roundHeights (runOuts fuel n es).2).Pairwise (· < ·)
      ∧ (∀ h ∈ roundHeights (runOuts fuel n es).2, n.height < h) ∧ n.height ≤ (runOuts fuel n es).1.height := by
  induction es with
  | nil => intro n; exact ⟨List.Pairwise.nil, (by intro h hh; cases hh), Nat.le_refl _⟩
  | cons x rest ih =>
    intro n
    obtain ⟨e, spi⟩ := x
    obtain ⟨p1, b1, m1⟩ := step_rounds fuel n e spi
    obtain ⟨p2, b2, m2⟩ := ih (Worker.step fuel n e spi).1
    have hr : (runOuts fuel n ((e, spi) :: rest)).2 = (Worker.step fuel n e spi).2 ++ (runOuts fuel (Worker.step fuel n e spi).1 rest).2 := rfl
    have hn : (runOuts fuel n ((e, spi) :: rest)).1 = (runOuts fuel (Worker.step fuel n e spi).1 rest).1 := rfl
    rw [hr, hn, roundHeights_append]
    refine ⟨?_, ?_, Nat.le_trans m1 m2⟩
    · rw [List.pairwise_append]
      refine ⟨p1, p2, ?_⟩
      intro a ha b hb
      have := b1 a ha
      have := b2 b hb
      omega
    · intro h hh
      rcases List.mem_append.mp hh with hh | hh
      · exact (b1 h hh).1
      · have := b2 h hh; omega

end LeanHelix.C13
