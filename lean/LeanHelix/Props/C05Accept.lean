import LeanHelix.Props.C05
import LeanHelix.Lemmas.TermRuns
import LeanHelix.Props.C11NewView
/-!
# C05 — the state of a node right after it accepted a proposal

`accepted_state`: after `processPreprepare` on a proposal of the node's current view (none stored for
it yet, block attached, node not prepared in that view) the node holds the proposal, has logged and
sent its PREPARE, its context registry is as before, and either its COMMIT is out as well (the logged
PREPAREs already reached the quorum) or it is not prepared and some PREPARE of `R` is missing — for
any `R` that together with the proposer has quorum weight.  This is the precondition `Pre1` of
`C05Net.good_view_decides`.
-/
namespace LeanHelix.C05
open LeanHelix LeanHelix.Msg LeanHelix.Term

theorem storePP_getPP_new (s : Store) (m : PPMsg) (hn : s.getPP m.c.header.height m.c.header.view = none) :
    (s.storePP m).getPP m.c.header.height m.c.header.view = some m := by
  unfold Store.storePP
  rw [hn]
  unfold Store.getPP at hn ⊢
  simp only [List.find?_append, hn, Option.none_or]
  simp [List.find?]

theorem storePrepare_getPP (s : Store) (pm : PMsg) (h v : Nat) : (s.storePrepare pm).getPP h v = s.getPP h v := by
  unfold Store.getPP; rw [storePrepare_pps]

theorem accepted_state (w : Term.W) (ppm : PPMsg) (b : Block) (c : Cfg) (R : List Nat) (hfit : C06.Fits c.members)
    (hcfg : w.n.cfg = c) (hv : w.n.view = ppm.c.header.view)
    (hnone : w.n.store.getPP ppm.c.header.height ppm.c.header.view = none)
    (hprep : w.n.prepared ≠ some ppm.c.header.view) (hb : ppm.block = some b)
    (hq : isQuorum c (R ++ [ppm.c.sender.id]) = true) :
    (processPreprepare w ppm).n.cfg = c
    ∧ (processPreprepare w ppm).n.view = ppm.c.header.view
    ∧ (processPreprepare w ppm).n.store.getPP ppm.c.header.height ppm.c.header.view = some ppm
    ∧ (ppm.c.header.height, ppm.c.header.view, ppm.c.header.hash, c.me) ∈ (processPreprepare w ppm).n.store.prepares.map C11.pkey
    ∧ Out.send (others c) (.prepare (ownPrepare c ppm.c.header.height ppm.c.header.view ppm.c.header.hash)) ∈ (processPreprepare w ppm).outs
    ∧ RegSame w.n.reg (processPreprepare w ppm).n.reg
    ∧ (CommitSent c ppm.c.header.height ppm.c.header.view ppm.c.header.hash (processPreprepare w ppm)
        ∨ ((processPreprepare w ppm).n.prepared ≠ some ppm.c.header.view
            ∧ ∃ id ∈ R, (ppm.c.header.height, ppm.c.header.view, ppm.c.header.hash, id) ∉ (processPreprepare w ppm).n.store.prepares.map C11.pkey)) := by
  rw [C10.processPreprepare_unfold w ppm hv]
  -- the state after logging the proposal and the own PREPARE
  have hs1 : (C10.adoptState w ppm).n.store = (w.n.store.storePP ppm).storePrepare (ownPrepare w.n.cfg ppm.c.header.height ppm.c.header.view ppm.c.header.hash) := rfl
  have hpp1 : (C10.adoptState w ppm).n.store.getPP ppm.c.header.height ppm.c.header.view = some ppm := by
    rw [hs1, storePrepare_getPP]; exact storePP_getPP_new _ _ hnone
  have hkey1 : (ppm.c.header.height, ppm.c.header.view, ppm.c.header.hash, c.me) ∈ (C10.adoptState w ppm).n.store.prepares.map C11.pkey := by
    rw [hs1]
    have := C11.storePrepare_has_key (w.n.store.storePP ppm) (ownPrepare w.n.cfg ppm.c.header.height ppm.c.header.view ppm.c.header.hash)
    rw [hcfg] at this ⊢
    exact this
  have hout1 : Out.send (others c) (.prepare (ownPrepare c ppm.c.header.height ppm.c.header.view ppm.c.header.hash)) ∈ (C10.adoptState w ppm).outs := by
    unfold C10.adoptState
    simp only [W.emit, List.mem_append, List.mem_singleton]
    right; rw [hcfg]
  have hpre1 : isPreprepared (C10.adoptState w ppm).n ppm.c.header.height ppm.c.header.view ppm.c.header.hash = true := by
    unfold isPreprepared; rw [hpp1]; simp [hb]
  have hprep1 : (C10.adoptState w ppm).n.prepared = w.n.prepared := rfl
  have hcfg1 : (C10.adoptState w ppm).n.cfg = c := hcfg
  have hview1 : (C10.adoptState w ppm).n.view = ppm.c.header.view := hv
  have hsame := checkPreparedLocally_same (C10.adoptState w ppm) ppm.c.header.height ppm.c.header.view ppm.c.header.hash
  have hvc := C10.checkPreparedLocally_view (C10.adoptState w ppm) ppm.c.header.height ppm.c.header.view ppm.c.header.hash
  have hev := checkPreparedLocally_ev (C10.adoptState w ppm) ppm.c.header.height ppm.c.header.view ppm.c.header.hash
  obtain ⟨lapp, eapp, _⟩ := checkPreparedLocally_appends (C10.adoptState w ppm) ppm.c.header.height ppm.c.header.view ppm.c.header.hash
  refine ⟨by rw [hvc.2]; exact hcfg1, by rw [hvc.1]; exact hview1, hev.getPP_stable _ _ _ hpp1, ?_, by rw [eapp]; exact List.mem_append_left _ hout1, hsame, ?_⟩
  · obtain ⟨x, hx, hxk⟩ := List.mem_map.mp hkey1
    exact List.mem_map.mpr ⟨x, evolves_prepares_sub hev x hx, hxk⟩
  · -- the decision of `checkPreparedLocally`
    by_cases hqq : isQuorum (C10.adoptState w ppm).n.cfg
        (((C10.adoptState w ppm).n.store.getPrepares ppm.c.header.height ppm.c.header.view ppm.c.header.hash).map (·.sender.id) ++ [ppm.c.sender.id]) = true
    · left
      have hcond : PreparedCond (C10.adoptState w ppm).n ppm.c.header.height ppm.c.header.view ppm.c.header.hash :=
        ⟨by rw [hprep1]; exact hprep, hpre1, ppm, hpp1, hqq⟩
      rw [checkPreparedLocally_of_cond _ _ _ _ hcond]
      obtain ⟨_, e2, e3⟩ := onPreparedLocally_effects (C10.adoptState w ppm) ppm.c.header.height ppm.c.header.view ppm.c.header.hash
      rw [hcfg1] at e2 e3
      exact ⟨e3, e2⟩
    · right
      have hsameW : checkPreparedLocally (C10.adoptState w ppm) ppm.c.header.height ppm.c.header.view ppm.c.header.hash = C10.adoptState w ppm := by
        unfold checkPreparedLocally
        rw [if_neg (by rw [hprep1]; simpa using hprep), if_neg (by simp [hpre1])]
        simp only [hpp1]
        rw [if_neg hqq]
      rw [hsameW]
      refine ⟨by rw [hprep1]; exact hprep, ?_⟩
      -- otherwise the logged PREPAREs of R together with the proposer would be a quorum
      by_cases hex : ∃ id ∈ R, (ppm.c.header.height, ppm.c.header.view, ppm.c.header.hash, id) ∉ (C10.adoptState w ppm).n.store.prepares.map C11.pkey
      · exact hex
      · exfalso
        apply hqq
        rw [hcfg1]
        apply C06.isQuorum_mono c.members hfit (R ++ [ppm.c.sender.id]) _ _ hq
        intro i hi
        rcases List.mem_append.mp hi with hi | hi
        · apply List.mem_append_left
          apply mem_getPrepares_ids
          by_cases hk : (ppm.c.header.height, ppm.c.header.view, ppm.c.header.hash, i) ∈ (C10.adoptState w ppm).n.store.prepares.map C11.pkey
          · exact hk
          · exact absurd ⟨i, hi, hk⟩ hex
        · exact List.mem_append_right _ hi

/-- **the state right after adopting a valid NEW_VIEW** (same premises as `C11.valid_newview_is_adopted`,
plus: the block is attached, the node is not prepared in that view, `R` and the proposer have quorum weight) -/
theorem newview_accepted_state (w : Term.W) (nvm : NVMsg) (b : Block) (R : List Nat) (hfit : C06.Fits w.n.cfg.members)
    (hv : C07.ValidCertificate w.n nvm)
    (hpp : C08.PreprepareAuthentic w.n ⟨nvm.pp, nvm.block⟩)
    (hfresh : (latestVote nvm.header.votes).isNone = true →
        (askValidate w nvm.header.height nvm.header.view nvm.block nvm.pp.header.hash).2 = true)
    (hb : nvm.block = some b) (hprep : w.n.prepared ≠ some nvm.header.view)
    (hq : isQuorum w.n.cfg (R ++ [nvm.pp.sender.id]) = true) :
    (handleNewView w nvm).n.cfg = w.n.cfg
    ∧ (handleNewView w nvm).n.view = nvm.header.view
    ∧ (handleNewView w nvm).n.store.getPP nvm.header.height nvm.header.view = some ⟨nvm.pp, nvm.block⟩
    ∧ (nvm.header.height, nvm.header.view, nvm.pp.header.hash, w.n.cfg.me) ∈ (handleNewView w nvm).n.store.prepares.map C11.pkey
    ∧ Out.send (others w.n.cfg) (.prepare (ownPrepare w.n.cfg nvm.header.height nvm.header.view nvm.pp.header.hash)) ∈ (handleNewView w nvm).outs
    ∧ (CommitSent w.n.cfg nvm.header.height nvm.header.view nvm.pp.header.hash (handleNewView w nvm)
        ∨ ((handleNewView w nvm).n.prepared ≠ some nvm.header.view
            ∧ ∃ id ∈ R, (nvm.header.height, nvm.header.view, nvm.pp.header.hash, id) ∉ (handleNewView w nvm).n.store.prepares.map C11.pkey)) := by
  have hlock := C11.lockOk_of_valid w.n nvm hv
  obtain ⟨a1, a2, a3, a4, a5, a6, a7, a8, a9, a10, _⟩ := hv
  have hvotes : validateVotes w.n nvm.header.height nvm.header.view nvm.header.votes = true :=
    (C07.validateVotes_iff _ _ _ _).mpr ⟨a5, a6, a7⟩
  unfold handleNewView
  dsimp only
  rw [if_neg (by simp [a1]), if_neg a2, if_neg (by simp [a3]), if_neg (by simp [a4]), if_neg (by simp [hvotes]),
    if_neg (by simp [a8]), if_neg (by simp [a9]), if_neg (by simp [a10]), if_neg (by simp [hlock])]
  unfold adoptNewView
  dsimp only
  have key : ∀ (w1 : Term.W), w1.n.cfg = w.n.cfg → w1.n.store = w.n.store → w1.n.view = w.n.view → w1.n.prepared = w.n.prepared →
      (let r := (if validatePreprepare w1.n ⟨nvm.pp, nvm.block⟩ = false then w1 else
          if (initView { w1 with n := { w1.n with latestNV := nvm.header.view } } nvm.header.view).2 = false
          then (initView { w1 with n := { w1.n with latestNV := nvm.header.view } } nvm.header.view).1
          else processPreprepare (initView { w1 with n := { w1.n with latestNV := nvm.header.view } } nvm.header.view).1 ⟨nvm.pp, nvm.block⟩)
       r.n.cfg = w.n.cfg
       ∧ r.n.view = nvm.header.view
       ∧ r.n.store.getPP nvm.header.height nvm.header.view = some ⟨nvm.pp, nvm.block⟩
       ∧ (nvm.header.height, nvm.header.view, nvm.pp.header.hash, w.n.cfg.me) ∈ r.n.store.prepares.map C11.pkey
       ∧ Out.send (others w.n.cfg) (.prepare (ownPrepare w.n.cfg nvm.header.height nvm.header.view nvm.pp.header.hash)) ∈ r.outs
       ∧ (CommitSent w.n.cfg nvm.header.height nvm.header.view nvm.pp.header.hash r
          ∨ (r.n.prepared ≠ some nvm.header.view
              ∧ ∃ id ∈ R, (nvm.header.height, nvm.header.view, nvm.pp.header.hash, id) ∉ r.n.store.prepares.map C11.pkey))) := by
    intro w1 c1 c2 c3 c4
    have hvp : validatePreprepare w1.n ⟨nvm.pp, nvm.block⟩ = true := by
      apply (C08.validatePreprepare_iff _ _).mpr
      obtain ⟨p1, p2, p3, p4⟩ := hpp
      exact ⟨p1, p2, by rw [c1]; exact p3, by rw [c2]; exact p4⟩
    simp only [hvp, Bool.true_eq_false, if_false]
    have hle : ¬ w1.n.view > nvm.header.view := by rw [c3]; exact a2
    have hiv : initView { w1 with n := { w1.n with latestNV := nvm.header.view } } nvm.header.view
        = (({ w1 with n := { w1.n with latestNV := nvm.header.view, view := nvm.header.view } } : Term.W).emit (.registerElection w1.n.cfg.height nvm.header.view), true) := by
      unfold initView
      rw [if_neg hle]
    rw [hiv]
    simp only [Bool.true_eq_false, if_false]
    have hacc := accepted_state
      (({ w1 with n := { w1.n with latestNV := nvm.header.view, view := nvm.header.view } } : Term.W).emit (.registerElection w1.n.cfg.height nvm.header.view))
      ⟨nvm.pp, nvm.block⟩ b w.n.cfg R hfit c1 a8.symm
      (by
        show w1.n.store.getPP nvm.pp.header.height nvm.pp.header.view = none
        rw [c2]; exact hpp.2.2.2)
      (by
        show w1.n.prepared ≠ some nvm.pp.header.view
        rw [c4, a8]; exact hprep)
      hb hq
    simp only [a8, a9] at hacc
    obtain ⟨h1, h2, h3, h4, h5, _, h7⟩ := hacc
    exact ⟨h1, h2, h3, h4, h5, h7⟩
  cases hlv : latestVote nvm.header.votes with
  | some lv =>
    simp only [Option.isNone_some, Bool.false_eq_true, if_false, Bool.not_true]
    have := key w rfl rfl rfl rfl
    simpa using this
  | none =>
    simp only [Option.isNone_none, if_true]
    have hok := hfresh (by rw [hlv]; rfl)
    obtain ⟨c1, c2, c3, c4, _⟩ := askValidate_n w nvm.header.height nvm.header.view nvm.block nvm.pp.header.hash
    generalize askValidate w nvm.header.height nvm.header.view nvm.block nvm.pp.header.hash = r at hok c1 c2 c3 c4 ⊢
    obtain ⟨w1, ok⟩ := r
    simp only at hok
    subst hok
    have := key w1 c1 c2 c3 c4
    simpa using this

/-- **the state right after accepting a stand-alone PREPREPARE** (authentic, no lock conflict, approved by the consumer, of the node's current view) -/
theorem preprepare_accepted_state (w : Term.W) (ppm : PPMsg) (b : Block) (R : List Nat) (hfit : C06.Fits w.n.cfg.members)
    (hauth : C08.PreprepareAuthentic w.n ppm) (hlock : lockConflict w.n ppm = false)
    (hok : (askValidate w ppm.c.header.height ppm.c.header.view ppm.block ppm.c.header.hash).2 = true)
    (hview : w.n.view = ppm.c.header.view)
    (hb : ppm.block = some b) (hprep : w.n.prepared ≠ some ppm.c.header.view)
    (hq : isQuorum w.n.cfg (R ++ [ppm.c.sender.id]) = true) :
    (handlePrePrepare w ppm).n.cfg = w.n.cfg
    ∧ (handlePrePrepare w ppm).n.view = ppm.c.header.view
    ∧ (handlePrePrepare w ppm).n.store.getPP ppm.c.header.height ppm.c.header.view = some ppm
    ∧ (ppm.c.header.height, ppm.c.header.view, ppm.c.header.hash, w.n.cfg.me) ∈ (handlePrePrepare w ppm).n.store.prepares.map C11.pkey
    ∧ Out.send (others w.n.cfg) (.prepare (ownPrepare w.n.cfg ppm.c.header.height ppm.c.header.view ppm.c.header.hash)) ∈ (handlePrePrepare w ppm).outs
    ∧ (CommitSent w.n.cfg ppm.c.header.height ppm.c.header.view ppm.c.header.hash (handlePrePrepare w ppm)
        ∨ ((handlePrePrepare w ppm).n.prepared ≠ some ppm.c.header.view
            ∧ ∃ id ∈ R, (ppm.c.header.height, ppm.c.header.view, ppm.c.header.hash, id) ∉ (handlePrePrepare w ppm).n.store.prepares.map C11.pkey)) := by
  have hvp : validatePreprepare w.n ppm = true := (C08.validatePreprepare_iff _ _).mpr hauth
  unfold handlePrePrepare
  rw [if_neg (by simp [hvp]), if_neg (by simp [hlock])]
  dsimp only
  obtain ⟨c1, c2, c3, c4, _⟩ := askValidate_n w ppm.c.header.height ppm.c.header.view ppm.block ppm.c.header.hash
  generalize askValidate w ppm.c.header.height ppm.c.header.view ppm.block ppm.c.header.hash = r at hok c1 c2 c3 c4 ⊢
  obtain ⟨w1, ok⟩ := r
  simp only at hok c1 c2 c3 c4 ⊢
  subst hok
  simp only [Bool.not_true, Bool.false_eq_true, if_false]
  have hacc := accepted_state w1 ppm b w.n.cfg R hfit c1 (by rw [c3]; exact hview)
    (by rw [c2]; exact hauth.2.2.2) (by rw [c4]; exact hprep) hb hq
  obtain ⟨h1, h2, h3, h4, h5, _, h7⟩ := hacc
  exact ⟨h1, h2, h3, h4, h5, h7⟩

end LeanHelix.C05
