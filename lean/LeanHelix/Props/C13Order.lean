import LeanHelix.Props.C13Worker
import LeanHelix.Props.C13Commit
import LeanHelix.Props.C08Worker
import LeanHelix.Lemmas.QuorumNil
/-!
# C13 at worker level — the order between commit callbacks and new-round callbacks

Over every sequence of worker events (deliveries, cache drains, commits and round starts nested inside
deliveries, node syncs of older / equal / newer heights, failing commit callbacks), for the *whole*
history of consumer callbacks of one node:

* the heights of the commit callbacks are strictly increasing (no height is committed twice, also not
  after a failed commit callback, whose term stays installed with its latch set);
* the heights of the new-round callbacks are strictly increasing;
* a commit callback for height `h` is only ever followed by rounds for heights above `h`
  (and a round for `h` only by commits at or above `h`).

The height of a commit callback is read off the certificate handed over (`ref.height`, the height in
the COMMIT block reference of the proof); it is shown to be the height of the delivered message, i.e.
of the term, because a commit quorum is never empty (`isQuorum_nil`) and `getCommits` filters by
height.  That the *block* handed over carries the same height is the height half of the consumer
contract (A2), see `commit_block_heights_increase`.
-/
namespace LeanHelix.C13
open LeanHelix LeanHelix.Msg LeanHelix.Worker

/-! ### every certificate handed to the commit callback: non-empty, of height `H` -/

open LeanHelix.Term in
/-- the commit callbacks among the effects added between `w` and `w'` carry non-empty certificates whose
COMMITs are all of height `H` -/
def CsOK (H : Nat) (w w' : Term.W) : Prop :=
  ∃ l, w'.outs = w.outs ++ l ∧ ∀ b cs, Out.commit b cs ∈ l → cs ≠ [] ∧ ∀ c ∈ cs, c.header.height = H

theorem CsOK.refl (H : Nat) (w : Term.W) : CsOK H w w := ⟨[], by simp, by intro b cs h; cases h⟩

theorem CsOK.trans {H : Nat} {a b c : Term.W} (h1 : CsOK H a b) (h2 : CsOK H b c) : CsOK H a c := by
  obtain ⟨l1, e1, p1⟩ := h1
  obtain ⟨l2, e2, p2⟩ := h2
  refine ⟨l1 ++ l2, by rw [e2, e1, List.append_assoc], ?_⟩
  intro b cs hm
  rcases List.mem_append.mp hm with hm | hm
  · exact p1 b cs hm
  · exact p2 b cs hm

theorem CsOK.quiet {H : Nat} {w w' : Term.W} (ha : Term.Appends NoCb w w') : CsOK H w w' := by
  obtain ⟨l, el, pl⟩ := ha
  refine ⟨l, el, ?_⟩
  intro b cs hm
  have := pl _ hm
  cases this

theorem CsOK.emitCb {H : Nat} {w w1 : Term.W} (ha : Term.Appends NoCb w w1) (b : Block) (cs : List CMsg) (n' : Term.Node)
    (hcs : cs ≠ [] ∧ ∀ c ∈ cs, c.header.height = H) :
    CsOK H w (({ w1 with n := n' } : Term.W).emit (.commit b cs)) := by
  obtain ⟨l0, e0, p0⟩ := ha
  refine ⟨l0 ++ [.commit b cs], ?_, ?_⟩
  · show w1.outs ++ [Term.Out.commit b cs] = w.outs ++ (l0 ++ [Term.Out.commit b cs])
    rw [e0, List.append_assoc]
  · intro b' cs' hm
    rcases List.mem_append.mp hm with hm | hm
    · have := p0 _ hm; cases this
    · simp only [List.mem_singleton, Term.Out.commit.injEq] at hm
      rw [hm.2]; exact hcs

open LeanHelix.Term in
theorem checkCommitted_cs (w : Term.W) (h v hash : Nat) : CsOK h w (checkCommitted w h v hash) := by
  unfold checkCommitted
  split
  · exact CsOK.refl _ w
  split
  · exact CsOK.refl _ w
  dsimp only
  split
  · exact CsOK.refl _ w
  rename_i hq
  have hcs : w.n.store.getCommits h v hash ≠ [] ∧ ∀ c ∈ w.n.store.getCommits h v hash, c.header.height = h := by
    refine ⟨?_, fun c hc => Term.mem_getCommits_height hc⟩
    intro he
    rw [he] at hq
    simp [Term.isQuorum_nil] at hq
  split
  · exact CsOK.refl _ w
  · have h0 : Appends NoCb w (ctxFor w h maxView).1 := Appends.of_outs_eq (ctxFor_outs _ _ _)
    split
    · exact CsOK.quiet h0
    · split
      · exact CsOK.quiet h0
      · rename_i b _
        split
        · exact CsOK.emitCb (Appends.setN _ h0) b _ _ hcs
        · exact CsOK.emitCb (Appends.setN _ (Appends.emit_trans (Out.send _ _) h0 rfl)) b _ _ hcs

open LeanHelix.Term in
theorem onPreparedLocally_cs (w : Term.W) (h v hash : Nat) : CsOK h w (onPreparedLocally w h v hash) := by
  unfold onPreparedLocally
  dsimp only
  refine CsOK.trans ?_ (checkCommitted_cs _ h v hash)
  exact CsOK.quiet (Appends.emit_trans _ (Appends.setN _ (Appends.setN _ (Appends.refl _ w))) rfl)

open LeanHelix.Term in
theorem checkPreparedLocally_cs (w : Term.W) (h v hash : Nat) : CsOK h w (checkPreparedLocally w h v hash) := by
  rcases checkPreparedLocally_cases w h v hash with e | ⟨_, e⟩
  · rw [e]; exact CsOK.refl _ w
  · rw [e]; exact onPreparedLocally_cs w h v hash

open LeanHelix.Term in
theorem handlePrepare_cs (w : Term.W) (pm : PMsg) : CsOK pm.header.height w (handlePrepare w pm) := by
  unfold handlePrepare
  dsimp only
  split; exact CsOK.refl _ w
  split; exact CsOK.refl _ w
  split; exact CsOK.refl _ w
  split; exact CsOK.refl _ w
  split; exact CsOK.refl _ w
  exact CsOK.trans (CsOK.quiet (Appends.setN _ (Appends.refl _ w))) (checkPreparedLocally_cs _ _ _ _)

open LeanHelix.Term in
theorem handleCommit_cs (w : Term.W) (cm : CMsg) : CsOK cm.header.height w (handleCommit w cm) := by
  unfold handleCommit
  dsimp only
  split; exact CsOK.refl _ w
  split; exact CsOK.refl _ w
  split; exact CsOK.refl _ w
  split; exact CsOK.refl _ w
  exact CsOK.trans (CsOK.quiet (Appends.setN _ (Appends.refl _ w))) (checkCommitted_cs _ _ _ _)

open LeanHelix.Term in
theorem processPreprepare_cs (w : Term.W) (ppm : PPMsg) : CsOK ppm.c.header.height w (processPreprepare w ppm) := by
  unfold processPreprepare
  dsimp only
  split
  · exact CsOK.refl _ w
  · refine CsOK.trans ?_ (checkPreparedLocally_cs _ _ _ _)
    exact CsOK.quiet (Appends.emit_trans _ (Appends.setN _ (Appends.refl _ w)) rfl)

open LeanHelix.Term in
theorem handlePrePrepare_cs (w : Term.W) (ppm : PPMsg) : CsOK ppm.c.header.height w (handlePrePrepare w ppm) := by
  unfold handlePrePrepare
  split
  · exact CsOK.refl _ w
  split
  · exact CsOK.refl _ w
  · dsimp only
    have h0 := askValidate_appends' noCb_accElect.toAccLead.toBenign w ppm.c.header.height ppm.c.header.view ppm.block ppm.c.header.hash
    generalize askValidate w ppm.c.header.height ppm.c.header.view ppm.block ppm.c.header.hash = r at h0 ⊢
    obtain ⟨w1, ok⟩ := r
    dsimp only at h0 ⊢
    split
    · exact CsOK.quiet h0
    · exact CsOK.trans (CsOK.quiet h0) (processPreprepare_cs _ _)

open LeanHelix.Term in
theorem adoptNewView_cs (w : Term.W) (nvm : NVMsg) : CsOK nvm.pp.header.height w (adoptNewView w nvm) := by
  unfold adoptNewView
  dsimp only
  have key : ∀ (w1 : Term.W) (ok : Bool), CsOK nvm.pp.header.height w w1 →
      CsOK nvm.pp.header.height w (if (!ok) = true then w1 else
        if (!validatePreprepare w1.n ⟨nvm.pp, nvm.block⟩) = true then w1 else
          if (!(initView { w1 with n := { w1.n with latestNV := nvm.header.view } } nvm.header.view).2) = true
          then (initView { w1 with n := { w1.n with latestNV := nvm.header.view } } nvm.header.view).1
          else processPreprepare (initView { w1 with n := { w1.n with latestNV := nvm.header.view } } nvm.header.view).1 ⟨nvm.pp, nvm.block⟩) := by
    intro w1 ok h1
    split
    · exact h1
    split
    · exact h1
    have hiv := initView_appends' noCb_accElect.toAccLead.toBenign { w1 with n := { w1.n with latestNV := nvm.header.view } } nvm.header.view
    have h2 : CsOK nvm.pp.header.height w (initView { w1 with n := { w1.n with latestNV := nvm.header.view } } nvm.header.view).1 :=
      CsOK.trans h1 (CsOK.trans (CsOK.quiet (Appends.setN _ (Appends.refl _ w1))) (CsOK.quiet hiv))
    split
    · exact h2
    · exact CsOK.trans h2 (processPreprepare_cs _ ⟨nvm.pp, nvm.block⟩)
  by_cases hlv : (latestVote nvm.header.votes).isNone = true
  · simp only [hlv, if_true]
    exact key _ _ (CsOK.quiet (askValidate_appends' noCb_accElect.toAccLead.toBenign _ _ _ _ _))
  · simp only [hlv]
    exact key w true (CsOK.refl _ w)

open LeanHelix.Term in
theorem handleNewView_cs (w : Term.W) (nvm : NVMsg) : CsOK nvm.header.height w (handleNewView w nvm) := by
  unfold handleNewView
  dsimp only
  split; exact CsOK.refl _ w
  split; exact CsOK.refl _ w
  split; exact CsOK.refl _ w
  split; exact CsOK.refl _ w
  split; exact CsOK.refl _ w
  split; exact CsOK.refl _ w
  split; exact CsOK.refl _ w
  rename_i hh
  have hh' : nvm.pp.header.height = nvm.header.height := by simpa using hh
  split; exact CsOK.refl _ w
  split; exact CsOK.refl _ w
  rw [← hh']
  exact adoptNewView_cs w nvm

/-- one delivery to the term (the handler the worker calls) -/
theorem handle_cs (tw : Term.W) (m : Message) : CsOK (msgHeight m) tw (C08.handle tw m) := by
  cases m with
  | preprepare m => exact handlePrePrepare_cs tw m
  | prepare m => exact handlePrepare_cs tw m
  | commit m => exact handleCommit_cs tw m
  | viewChange m => exact CsOK.quiet (Term.handleViewChange_appends' noCb_accElect.toAccLead tw m)
  | newView m => exact handleNewView_cs tw m

theorem handle_cb (tw : Term.W) (m : Message) : CbOK tw (C08.handle tw m) := by
  cases m with
  | preprepare m => exact handlePrePrepare_cb tw m
  | prepare m => exact handlePrepare_cb tw m
  | commit m => exact handleCommit_cb tw m
  | viewChange m => exact handleViewChange_cb tw m
  | newView m => exact handleNewView_cb tw m

/-! ### the callback history of a worker -/

/-- the consumer callbacks among the effects, in order: `(true, h)` a commit callback whose certificate
is for height `h`, `(false, h)` a new-round callback for height `h` -/
def cbOf : WOut → Option (Bool × Nat)
  | .commitCb _ ref _ => some (true, ref.height)
  | .newRound h _ => some (false, h)
  | _ => none

def cbEvents (outs : List WOut) : List (Bool × Nat) := outs.filterMap cbOf

theorem filterMap_congr' {α β : Type} {f g : α → Option β} : ∀ {l : List α}, (∀ x ∈ l, f x = g x) → l.filterMap f = l.filterMap g
  | [], _ => rfl
  | a :: l, h => by
    simp only [List.filterMap_cons, h a (List.mem_cons_self ..)]
    rw [filterMap_congr' (fun x hx => h x (List.mem_cons_of_mem _ hx))]

theorem cbEvents_append (a b : List WOut) : cbEvents (a ++ b) = cbEvents a ++ cbEvents b := by
  unfold cbEvents; rw [List.filterMap_append]

theorem cbEvents_term (l : List Term.Out) : cbEvents (l.map WOut.term) = [] := by
  induction l with
  | nil => rfl
  | cons x xs ih => unfold cbEvents at ih ⊢; simp only [List.map_cons, List.filterMap_cons]; exact ih

/-- `x` may come before `y` in the history of callbacks: heights go up, and stay equal only from the
round callback of a height to the commit callback of that height -/
def Before (x y : Bool × Nat) : Prop := x.2 < y.2 ∨ (x.1 = false ∧ y.1 = true ∧ x.2 = y.2)

/-- the invariant: `H` is the history of effects of earlier events, `w.outs` those of the current one -/
structure Ord (H : List WOut) (w : WW) : Prop where
  ordered : (cbEvents (H ++ w.outs)).Pairwise Before
  bound : ∀ x ∈ cbEvents (H ++ w.outs), x.2 ≤ w.n.height
  latch : (true, w.n.height) ∈ cbEvents (H ++ w.outs) → ∃ t, w.n.term = some t ∧ t.committed.isSome = true
  /-- an installed term's round has been reported -/
  termRound : w.n.term.isSome = true → (false, w.n.height) ∈ cbEvents (H ++ w.outs)
  /-- every commit callback's round has been reported -/
  commitRound : ∀ h, (true, h) ∈ cbEvents (H ++ w.outs) → (false, h) ∈ cbEvents (H ++ w.outs)

/-- effects without callbacks, same height, the latch of the installed term kept -/
theorem Ord.quiet {H : List WOut} {w w' : WW} (l : List WOut) (ho : w'.outs = w.outs ++ l) (hl : cbEvents l = [])
    (hh : w'.n.height = w.n.height) (hts : w'.n.term.isSome = w.n.term.isSome)
    (hterm : ∀ t, w.n.term = some t → t.committed.isSome = true → ∃ t', w'.n.term = some t' ∧ t'.committed.isSome = true)
    (h : Ord H w) : Ord H w' := by
  have he : cbEvents (H ++ w'.outs) = cbEvents (H ++ w.outs) := by
    rw [ho, ← List.append_assoc, cbEvents_append, hl, List.append_nil]
  refine ⟨by rw [he]; exact h.ordered, by rw [he, hh]; exact h.bound, ?_, by rw [he, hh, hts]; exact h.termRound, by rw [he]; exact h.commitRound⟩
  rw [he, hh]
  intro hm
  obtain ⟨t, ht, hc⟩ := h.latch hm
  exact hterm t ht hc

/-- a callback for a height above every earlier one -/
theorem pairwise_snoc_above {E : List (Bool × Nat)} {x : Bool × Nat} (hp : E.Pairwise Before)
    (hab : ∀ y ∈ E, y.2 < x.2) : (E ++ [x]).Pairwise Before := by
  rw [List.pairwise_append]
  refine ⟨hp, List.pairwise_singleton _ _, ?_⟩
  intro y hy z hz
  simp only [List.mem_singleton] at hz
  subst hz
  exact Or.inl (hab y hy)

/-- a commit callback for the current height, when none was made for it -/
theorem pairwise_snoc_commit {E : List (Bool × Nat)} {h : Nat} (hp : E.Pairwise Before)
    (hb : ∀ y ∈ E, y.2 ≤ h) (hno : (true, h) ∉ E) : (E ++ [(true, h)]).Pairwise Before := by
  rw [List.pairwise_append]
  refine ⟨hp, List.pairwise_singleton _ _, ?_⟩
  intro y hy z hz
  simp only [List.mem_singleton] at hz
  subst hz
  have hle := hb y hy
  by_cases hlt : y.2 < h
  · exact Or.inl hlt
  · right
    have heq : y.2 = h := by omega
    refine ⟨?_, rfl, heq⟩
    cases hy1 : y.1 with
    | false => rfl
    | true =>
      exfalso
      apply hno
      have : y = (true, h) := by
        cases y; simp only at hy1 heq; rw [hy1, heq]
      rw [← this]; exact hy

/-! ### the small steps -/

/-- an extension of the effects without consumer callbacks -/
def QuietCb (w w' : WW) : Prop := ∃ l, w'.outs = w.outs ++ l ∧ cbEvents l = []

theorem QuietCb.refl (w : WW) : QuietCb w w := ⟨[], by simp, rfl⟩
theorem QuietCb.trans {a b c : WW} (h1 : QuietCb a b) (h2 : QuietCb b c) : QuietCb a c := by
  obtain ⟨l1, e1, q1⟩ := h1
  obtain ⟨l2, e2, q2⟩ := h2
  exact ⟨l1 ++ l2, by rw [e2, e1, List.append_assoc], by rw [cbEvents_append, q1, q2]; rfl⟩

theorem disposeTerm_quietCb (w : WW) : QuietCb w (disposeTerm w) := by
  unfold disposeTerm
  dsimp only
  split
  · exact ⟨[.stopTimer], rfl, rfl⟩
  · exact QuietCb.refl w

theorem askCommittee_quietCb (w : WW) (h : Nat) : QuietCb w (askCommittee w h).1 := by
  unfold askCommittee
  dsimp only
  split
  · split <;> exact ⟨[], by simp, rfl⟩
  · exact ⟨[], by simp, rfl⟩

theorem createTerm_quietCb (w : WW) (h : Nat) (ms : List Member) (c : Bool) : QuietCb w (createTerm w h ms c) := by
  unfold createTerm
  split
  · split
    · exact ⟨[_], rfl, rfl⟩
    · exact ⟨_, rfl, cbEvents_term _⟩
  · exact QuietCb.refl w

/-- `installTerm` adds exactly one consumer callback: the new round for `h` -/
theorem installTerm_cbEvents (w : WW) (h : Nat) (c : Bool) :
    ∃ l, (installTerm w h c).outs = w.outs ++ l ∧ cbEvents l = [(false, h)] := by
  unfold installTerm
  dsimp only
  obtain ⟨l1, e1, q1⟩ := disposeTerm_quietCb w
  obtain ⟨l2, e2, q2⟩ := askCommittee_quietCb (disposeTerm w) h
  obtain ⟨l3, e3, q3⟩ := createTerm_quietCb (askCommittee (disposeTerm w) h).1 h (askCommittee (disposeTerm w) h).2 c
  refine ⟨l1 ++ l2 ++ l3 ++ [.newRound h c], ?_, ?_⟩
  · show (createTerm (askCommittee (disposeTerm w) h).1 h (askCommittee (disposeTerm w) h).2 c).outs ++ [WOut.newRound h c] = _
    rw [e3, e2, e1]; simp [List.append_assoc]
  · rw [cbEvents_append, cbEvents_append, cbEvents_append, q1, q2, q3]; rfl

/-- after `installTerm` at a node whose height was just raised to `h`, above every callback made -/
theorem installTerm_ord {H : List WOut} (w : WW) (h : Nat) (c : Bool)
    (hp : (cbEvents (H ++ w.outs)).Pairwise Before) (hab : ∀ x ∈ cbEvents (H ++ w.outs), x.2 < h) (hh : w.n.height = h)
    (hcr : ∀ h', (true, h') ∈ cbEvents (H ++ w.outs) → (false, h') ∈ cbEvents (H ++ w.outs)) :
    Ord H (installTerm w h c) := by
  obtain ⟨l, el, ql⟩ := installTerm_cbEvents w h c
  have hheight : (installTerm w h c).n.height = h := by rw [C14.installTerm_height]; exact hh
  have he : cbEvents (H ++ (installTerm w h c).outs) = cbEvents (H ++ w.outs) ++ [(false, h)] := by
    rw [el, ← List.append_assoc, cbEvents_append, ql]
  refine ⟨?_, ?_, ?_, ?_, ?_⟩
  · rw [he]; exact pairwise_snoc_above hp hab
  · rw [he, hheight]
    intro x hx
    rcases List.mem_append.mp hx with hx | hx
    · exact Nat.le_of_lt (hab x hx)
    · simp only [List.mem_singleton] at hx; subst hx; exact Nat.le_refl _
  · rw [he, hheight]
    intro hm
    exfalso
    rcases List.mem_append.mp hm with hm | hm
    · exact Nat.lt_irrefl _ (hab _ hm)
    · simp only [List.mem_singleton, Prod.mk.injEq] at hm; cases hm.1
  · rw [he, hheight]
    intro _
    exact List.mem_append_right _ (List.mem_singleton.mpr rfl)
  · rw [he]
    intro h' hm
    rcases List.mem_append.mp hm with hm | hm
    · exact List.mem_append_left _ (hcr h' hm)
    · simp only [List.mem_singleton, Prod.mk.injEq] at hm; cases hm.1

/-- what handing a message to the term does, in terms of the term-level handler -/
theorem handInTerm_outs (w : WW) (t : Term.Node) (m : Message) :
    (handInTerm w t m).1.outs = w.outs ++ (C08.handle { n := { t with reg := w.n.reg }, spi := (termSpis w.spi).1 } m).outs.map WOut.term
    ∧ (handInTerm w t m).2 = findCommit (C08.handle { n := { t with reg := w.n.reg }, spi := (termSpis w.spi).1 } m).outs := by
  have key : ∀ (l : List Term.Out), ((w.outs ++ l.map WOut.term).drop w.outs.length).filterMap
      (fun o => match o with | .term x => some x | _ => none) = l := by
    intro l
    rw [List.drop_left]
    induction l with
    | nil => rfl
    | cons x xs ih => simp only [List.map_cons, List.filterMap_cons]; rw [ih]
  unfold handInTerm
  dsimp only
  cases m <;> exact ⟨rfl, congrArg findCommit (key _)⟩

theorem findCommit_mem {l : List Term.Out} {b : Block} {cs : List CMsg} (h : findCommit l = some (b, cs)) :
    Term.Out.commit b cs ∈ l := by
  induction l with
  | nil => cases h
  | cons x xs ih =>
    cases x with
    | commit b' cs' =>
      simp only [findCommit, Option.some.injEq, Prod.mk.injEq] at h
      rw [h.1, h.2]; exact List.mem_cons_self ..
    | _ => exact List.mem_cons_of_mem _ (ih h)

theorem cbCount_of_mem {l : List Term.Out} {b : Block} {cs : List CMsg} (h : Term.Out.commit b cs ∈ l) : 1 ≤ cbCount l := by
  unfold cbCount
  have : Term.Out.commit b cs ∈ l.filter isCb := List.mem_filter.mpr ⟨h, rfl⟩
  exact List.length_pos_of_mem this

theorem proofOf_height {cs : List CMsg} {h : Nat} (hne : cs ≠ []) (hall : ∀ c ∈ cs, c.header.height = h) :
    (proofOf cs).1.height = h := by
  cases cs with
  | nil => exact absurd rfl hne
  | cons c rest => exact hall c (List.mem_cons_self ..)

/-- the commit callback for the node's height, made when none was made for it before and with the
term's latch now set -/
theorem Ord.commit {H : List WOut} {w : WW} (b : Block) (ref : BlockRef) (signers : List SSig) (ho : Ord H w)
    (href : ref.height = w.n.height) (hno : (true, w.n.height) ∉ cbEvents (H ++ w.outs))
    (hterm : ∃ t, w.n.term = some t ∧ t.committed.isSome = true) : Ord H (w.emit (.commitCb b ref signers)) := by
  have he : cbEvents (H ++ (w.emit (.commitCb b ref signers)).outs) = cbEvents (H ++ w.outs) ++ [(true, w.n.height)] := by
    show cbEvents (H ++ (w.outs ++ [WOut.commitCb b ref signers])) = _
    rw [← List.append_assoc, cbEvents_append, ← href]; rfl
  have hround : (false, w.n.height) ∈ cbEvents (H ++ w.outs) := by
    obtain ⟨t, ht, _⟩ := hterm
    exact ho.termRound (by rw [ht]; rfl)
  refine ⟨?_, ?_, ?_, ?_, ?_⟩
  · rw [he]; exact pairwise_snoc_commit ho.ordered ho.bound hno
  · rw [he]
    intro x hx
    rcases List.mem_append.mp hx with hx | hx
    · exact ho.bound x hx
    · simp only [List.mem_singleton] at hx; subst hx; exact Nat.le_refl _
  · intro _; exact hterm
  · rw [he]
    intro _
    exact List.mem_append_left _ hround
  · rw [he]
    intro h' hm
    rcases List.mem_append.mp hm with hm | hm
    · exact List.mem_append_left _ (ho.commitRound h' hm)
    · simp only [List.mem_singleton, Prod.mk.injEq] at hm
      rw [hm.2]; exact List.mem_append_left _ hround

/-- the worker invariant of `C08` after handing a message of the node's height to the term -/
theorem handInTerm_inv {TI : Term.Node → Prop} (hT : C08.TermInv TI) (w : WW) (t : Term.Node) (m : Message)
    (hi : C08.WInv TI w.n) (ht : w.n.term = some t) (hm0 : C08.MsgOK w.n.me w.n.inst w.n.height m) :
    C08.WInv TI (handInTerm w t m).1.n := by
  obtain ⟨t1, t2, t3, t4⟩ := hi.term t ht
  obtain ⟨s1, s2, s3, s4, s5⟩ := C08.handInTerm_spec w t m
  have hcfg := C08.handle_cfg { n := { t with reg := w.n.reg }, spi := (termSpis w.spi).1 } m
  have hcl : TI (C08.handle { n := { t with reg := w.n.reg }, spi := (termSpis w.spi).1 } m).n :=
    hT.handle { n := { t with reg := w.n.reg }, spi := (termSpis w.spi).1 } m
      (by show msgInst m = t.cfg.inst; rw [t2]; exact hm0.1)
      (by show msgHeight m = t.cfg.height; rw [t3]; exact hm0.2.1)
      (by show msgSender m ≠ t.cfg.me; rw [t1]; exact hm0.2.2)
      (hT.reg t _ t4)
  refine ⟨?_, ?_⟩
  · intro t' ht'
    rw [s5] at ht'
    simp only [Option.some.injEq] at ht'
    subst ht'
    rw [hcfg]
    exact ⟨by rw [s1]; exact t1, by rw [s2]; exact t2, by rw [s3]; exact t3, hcl⟩
  · intro p hp x hx
    rw [s4] at hp
    rw [s1, s2]; exact hi.cache p hp x hx

/-- handing a message of the node's height to the term: the callback history is unchanged, and if the
term asks for the commit callback, none was made for this height before, the term's latch is now set,
and the certificate is for this height -/
theorem handInTerm_ord {H : List WOut} (w : WW) (t : Term.Node) (m : Message) (ho : Ord H w)
    (ht : w.n.term = some t) (hmh : msgHeight m = w.n.height) :
    Ord H (handInTerm w t m).1 ∧
    ∀ b cs, (handInTerm w t m).2 = some (b, cs) →
      (proofOf cs).1.height = (handInTerm w t m).1.n.height
      ∧ (true, (handInTerm w t m).1.n.height) ∉ cbEvents (H ++ (handInTerm w t m).1.outs)
      ∧ ∃ t', (handInTerm w t m).1.n.term = some t' ∧ t'.committed.isSome = true := by
  obtain ⟨_, _, s3, _, s5⟩ := C08.handInTerm_spec w t m
  obtain ⟨o1, o2⟩ := handInTerm_outs w t m
  have hcb := handle_cb { n := { t with reg := w.n.reg }, spi := (termSpis w.spi).1 } m
  have hcs := handle_cs { n := { t with reg := w.n.reg }, spi := (termSpis w.spi).1 } m
  generalize C08.handle { n := { t with reg := w.n.reg }, spi := (termSpis w.spi).1 } m = tw' at s5 o1 o2 hcb hcs
  obtain ⟨l, el, c1, m1, f1, _⟩ := hcb
  obtain ⟨l', el', pl⟩ := hcs
  have hl : tw'.outs = l := by simpa using el
  have hl' : tw'.outs = l' := by simpa using el'
  have he : cbEvents (H ++ (handInTerm w t m).1.outs) = cbEvents (H ++ w.outs) := by
    rw [o1, ← List.append_assoc, cbEvents_append, cbEvents_term, List.append_nil]
  have ho1 : Ord H (handInTerm w t m).1 := by
    refine Ord.quiet _ o1 (cbEvents_term _) s3 (by rw [s5, ht]; rfl) ?_ ho
    intro t0 ht0 hc0
    rw [ht] at ht0
    simp only [Option.some.injEq] at ht0
    subst ht0
    exact ⟨tw'.n, s5, m1 hc0⟩
  refine ⟨ho1, ?_⟩
  intro b cs hoc
  rw [o2] at hoc
  have hmem := findCommit_mem hoc
  have hcnt : 1 ≤ cbCount l := by rw [← hl]; exact cbCount_of_mem hmem
  have hnone : t.committed.isSome = false := by
    cases hc : t.committed.isSome with
    | false => rfl
    | true =>
      have : ({ n := { t with reg := w.n.reg }, spi := (termSpis w.spi).1 } : Term.W).n.committed.isSome = true := hc
      rw [this] at c1
      simp only [if_true] at c1
      omega
  have hone : cbCount l = 1 := by
    have : ({ n := { t with reg := w.n.reg }, spi := (termSpis w.spi).1 } : Term.W).n.committed.isSome = false := hnone
    rw [this] at c1
    simp only [Bool.false_eq_true, if_false] at c1
    omega
  obtain ⟨hne, hall⟩ := pl b cs (by rw [← hl']; exact hmem)
  refine ⟨?_, ?_, tw'.n, s5, f1 hone⟩
  · rw [s3, ← hmh]; exact proofOf_height hne hall
  · rw [he, s3]
    intro hin
    obtain ⟨t1, ht1, hc1⟩ := ho.latch hin
    rw [ht] at ht1
    simp only [Option.some.injEq] at ht1
    subst ht1
    rw [hnone] at hc1
    cases hc1

/-! ### the re-entrant core -/

private theorem mem_cacheErase' {c : List (Nat × List Message)} {h : Nat} {p : Nat × List Message}
    (hp : p ∈ cacheErase c h) : p ∈ c := by
  unfold cacheErase at hp; exact (List.mem_filter.mp hp).1

private theorem mem_cacheGet' {c : List (Nat × List Message)} {h : Nat} {m : Message} (hm : m ∈ cacheGet c h) :
    ∃ p ∈ c, p.1 = h ∧ m ∈ p.2 := by
  unfold cacheGet at hm
  cases hf : c.find? (fun p => p.1 == h) with
  | none => simp [hf] at hm
  | some p =>
    simp [hf] at hm
    have h1 := List.mem_of_find?_eq_some hf
    have h2 := List.find?_some hf
    simp at h2
    exact ⟨p, h1, h2, hm⟩

mutual
theorem newRound_ord {TI : Term.Node → Prop} (hT : C08.TermInv TI) {H : List WOut} :
    ∀ (fuel : Nat) (w : WW) (prevH : Nat) (c : Bool), C08.WInv TI w.n → Ord H w → Ord H (newRound fuel w prevH c)
  | 0, w, _, _, _, ho => by unfold newRound; exact ho
  | fuel + 1, w, prevH, c, hi, ho => by
    unfold newRound
    dsimp only
    split
    · split
      · exact Ord.quiet (w := w) [] (by simp) rfl rfl rfl (fun t ht hc => ⟨t, ht, hc⟩) ho
      · rename_i hge
        have hlt : w.n.height < wrap64 (prevH + 1) := by
          have : ¬ (w.n.height ≥ wrap64 (prevH + 1)) := hge
          omega
        have hab : ∀ x ∈ cbEvents (H ++ w.outs), x.2 < wrap64 (prevH + 1) := fun x hx => Nat.lt_of_le_of_lt (ho.bound x hx) hlt
        have o1 := installTerm_ord (H := H)
          ({ w with n := { ({ w with n := { w.n with reg := (Contexts.step w.n.reg (.for_ ⟨wrap64 (prevH + 1), 0⟩)).1 } } : WW).n with height := wrap64 (prevH + 1) } } : WW)
          (wrap64 (prevH + 1)) c ho.ordered hab rfl ho.commitRound
        obtain ⟨j1, j2, j3, j4⟩ := C08.installTerm_inv hT
          ({ w with n := { ({ w with n := { w.n with reg := (Contexts.step w.n.reg (.for_ ⟨wrap64 (prevH + 1), 0⟩)).1 } } : WW).n with height := wrap64 (prevH + 1) } } : WW)
          (wrap64 (prevH + 1)) c hi.cache rfl
        generalize installTerm ({ w with n := { ({ w with n := { w.n with reg := (Contexts.step w.n.reg (.for_ ⟨wrap64 (prevH + 1), 0⟩)).1 } } : WW).n with height := wrap64 (prevH + 1) } } : WW) (wrap64 (prevH + 1)) c = w1 at o1 j1 j2 j3 j4 ⊢
        have hmsgs : ∀ m ∈ cacheGet w1.n.cache (wrap64 (prevH + 1)), C08.MsgOK w1.n.me w1.n.inst (wrap64 (prevH + 1)) m := by
          intro m hm
          obtain ⟨p, hp, hp1, hmp⟩ := mem_cacheGet' hm
          have := j1.cache p hp m hmp
          rw [hp1] at this; exact this
        have o2 := drain_ord hT fuel w1 (wrap64 (prevH + 1)) _ j1 hmsgs o1
        exact Ord.quiet (w := drain fuel w1 (wrap64 (prevH + 1)) (cacheGet w1.n.cache (wrap64 (prevH + 1)))) [] (by simp) rfl rfl rfl (fun t ht hc => ⟨t, ht, hc⟩) o2
    · exact Ord.quiet (w := w) [] (by simp) rfl rfl rfl (fun t ht hc => ⟨t, ht, hc⟩) ho
theorem drain_ord {TI : Term.Node → Prop} (hT : C08.TermInv TI) {H : List WOut} :
    ∀ (fuel : Nat) (w : WW) (height : Nat) (ms : List Message), C08.WInv TI w.n →
    (∀ m ∈ ms, C08.MsgOK w.n.me w.n.inst height m) → Ord H w → Ord H (drain fuel w height ms)
  | 0, w, _, _, _, _, ho => by unfold drain; exact ho
  | _ + 1, w, _, [], _, _, ho => by unfold drain; exact ho
  | fuel + 1, w, height, m :: rest, hi, hm, ho => by
    have hm0 := hm m (List.mem_cons_self ..)
    have hrest : ∀ x ∈ rest, C08.MsgOK w.n.me w.n.inst height x := fun x hx => hm x (List.mem_cons_of_mem _ hx)
    unfold drain
    split
    · exact ho
    · rename_i hne
      have hheight : w.n.height = height := by simpa using hne
      split
      · exact drain_ord hT fuel w height rest hi hrest ho
      · split
        · exact drain_ord hT fuel w height rest hi hrest ho
        · rename_i t ht
          dsimp only
          obtain ⟨s1, s2, s3, _, _⟩ := C08.handInTerm_spec w t m
          have hi1 := handInTerm_inv hT w t m hi ht (by rw [hheight]; exact hm0)
          obtain ⟨ho1, hcommit⟩ := handInTerm_ord (H := H) w t m ho ht (by rw [hheight]; exact hm0.2.1)
          generalize handInTerm w t m = r at s1 s2 s3 hi1 ho1 hcommit ⊢
          obtain ⟨w1, oc⟩ := r
          dsimp only at s1 s2 s3 hi1 ho1 hcommit ⊢
          have hrest1 : ∀ x ∈ rest, C08.MsgOK w1.n.me w1.n.inst height x := by rw [s1, s2]; exact hrest
          cases oc with
          | none => exact drain_ord hT fuel w1 height rest hi1 hrest1 ho1
          | some bc =>
            obtain ⟨b, cs⟩ := bc
            dsimp only
            obtain ⟨href, hno, hterm⟩ := hcommit b cs rfl
            have hemit : C08.WInv TI (w1.emit (.commitCb b (proofOf cs).1 (proofOf cs).2)).n := hi1
            have oemit : Ord H (w1.emit (.commitCb b (proofOf cs).1 (proofOf cs).2)) := Ord.commit b _ _ ho1 href hno hterm
            split
            · rename_i sp _
              have osp : Ord H { (w1.emit (.commitCb b (proofOf cs).1 (proofOf cs).2)) with spi := sp } :=
                Ord.quiet (w := w1.emit (.commitCb b (proofOf cs).1 (proofOf cs).2)) [] (by simp) rfl rfl rfl (fun t ht hc => ⟨t, ht, hc⟩) oemit
              obtain ⟨n1, n2, n3⟩ := C08.newRound_inv hT fuel { (w1.emit (.commitCb b (proofOf cs).1 (proofOf cs).2)) with spi := sp } b.height true hemit
              have o2 := newRound_ord hT (H := H) fuel { (w1.emit (.commitCb b (proofOf cs).1 (proofOf cs).2)) with spi := sp } b.height true hemit osp
              generalize newRound fuel { (w1.emit (.commitCb b (proofOf cs).1 (proofOf cs).2)) with spi := sp } b.height true = w2 at n1 n2 n3 o2 ⊢
              have e1 : w2.n.me = w.n.me := by rw [n2]; exact s1
              have e2 : w2.n.inst = w.n.inst := by rw [n3]; exact s2
              exact drain_ord hT fuel w2 height rest n1 (by rw [e1, e2]; exact hrest) o2
            · rename_i sp _
              have osp : Ord H { (w1.emit (.commitCb b (proofOf cs).1 (proofOf cs).2)) with spi := sp } :=
                Ord.quiet (w := w1.emit (.commitCb b (proofOf cs).1 (proofOf cs).2)) [] (by simp) rfl rfl rfl (fun t ht hc => ⟨t, ht, hc⟩) oemit
              exact drain_ord hT fuel { (w1.emit (.commitCb b (proofOf cs).1 (proofOf cs).2)) with spi := sp } height rest hemit hrest1 osp
            · exact drain_ord hT fuel (w1.emit (.commitCb b (proofOf cs).1 (proofOf cs).2)) height rest hemit hrest1 oemit
end

/-! ### the four cases of `WorkerLoop.Run` -/

theorem deliver_ord {TI : Term.Node → Prop} (hT : C08.TermInv TI) {H : List WOut} (fuel : Nat) (w : WW) (m : Message)
    (hi : C08.WInv TI w.n) (ho : Ord H w) : Ord H (deliver fuel w m) := by
  unfold deliver
  split
  · exact ho
  · rename_i hs
    split
    · exact ho
    · split
      · exact ho
      · rename_i hin
        have hok : C08.MsgOK w.n.me w.n.inst (msgHeight m) m :=
          ⟨by simpa using hin, rfl, by simpa using hs⟩
        split
        · refine Ord.quiet (w := w) [] (by simp) rfl ?_ ?_ ?_ ho
          · show (pushToCache w.n m).height = w.n.height
            unfold pushToCache
            dsimp only
            split
            · rfl
            · split <;> rfl
          · show (pushToCache w.n m).term.isSome = w.n.term.isSome
            unfold pushToCache
            dsimp only
            split
            · rfl
            · split <;> rfl
          · intro t ht hc
            refine ⟨t, ?_, hc⟩
            show (pushToCache w.n m).term = some t
            unfold pushToCache
            dsimp only
            split
            · exact ht
            · split <;> exact ht
        · refine drain_ord hT fuel w (msgHeight m) [m] hi ?_ ho
          intro x hx
          simp only [List.mem_singleton] at hx
          subst hx; exact hok

theorem election_ord {H : List WOut} (w : WW) (h v : Nat) (ho : Ord H w) : Ord H (election w h v) := by
  unfold election
  cases ht : w.n.term with
  | none => simp only; split <;> exact ho
  | some t =>
    simp only
    split
    · exact ho
    · obtain ⟨_, _, _, m1, _, _⟩ := election_cb { n := { t with reg := w.n.reg }, spi := (termSpis w.spi).1 } h v
      refine Ord.quiet (w := w) _ (show _ = w.outs ++ (Term.election { n := { t with reg := w.n.reg }, spi := (termSpis w.spi).1 } h v).outs.map WOut.term from rfl)
        (cbEvents_term _) rfl (by rw [ht]; rfl) ?_ ho
      intro t0 ht0 hc0
      rw [ht] at ht0
      simp only [Option.some.injEq] at ht0
      subst ht0
      exact ⟨_, rfl, m1 hc0⟩

theorem updateState_ord {TI : Term.Node → Prop} (hT : C08.TermInv TI) {H : List WOut} (fuel : Nat) (w : WW) (bh : Nat)
    (hi : C08.WInv TI w.n) (ho : Ord H w) : Ord H (updateState fuel w bh) := by
  unfold updateState
  split
  · exact newRound_ord hT fuel w bh false hi ho
  · exact ho

/-- one worker event: the invariant holds for the history extended by the event's effects -/
theorem step_ord {TI : Term.Node → Prop} (hT : C08.TermInv TI) {H : List WOut} (fuel : Nat) (n : WNode) (e : WEvent)
    (spi : List WSpi) (hi : C08.WInv TI n) (ho : Ord H { n := n }) :
    Ord (H ++ (Worker.step fuel n e spi).2) { n := (Worker.step fuel n e spi).1 } := by
  have h0 : Ord H { n := n, spi := spi } := ⟨ho.ordered, ho.bound, ho.latch, ho.termRound, ho.commitRound⟩
  have key : ∀ (w' : WW), Ord H w' → Ord (H ++ w'.outs) { n := w'.n } := by
    intro w' h
    have he : cbEvents ((H ++ w'.outs) ++ ({ n := w'.n } : WW).outs) = cbEvents (H ++ w'.outs) := by
      show cbEvents ((H ++ w'.outs) ++ []) = _
      rw [List.append_nil]
    exact ⟨by rw [he]; exact h.ordered, by rw [he]; exact h.bound, by rw [he]; exact h.latch, by rw [he]; exact h.termRound, by rw [he]; exact h.commitRound⟩
  unfold Worker.step
  dsimp only
  cases e with
  | deliver m => exact key _ (deliver_ord hT fuel _ m hi h0)
  | election h v => exact key _ (election_ord _ h v h0)
  | update bh => exact key _ (updateState_ord hT fuel _ bh hi h0)
  | cancelOlder h v => exact key _ (Ord.quiet (w := { n := n, spi := spi }) [] (by simp) rfl rfl rfl (fun t ht hc => ⟨t, ht, hc⟩) h0)
  | shutdownCtx => exact key _ (Ord.quiet (w := { n := n, spi := spi }) [] (by simp) rfl rfl rfl (fun t ht hc => ⟨t, ht, hc⟩) h0)

theorem run_ord {TI : Term.Node → Prop} (hT : C08.TermInv TI) (fuel : Nat) (es : List (WEvent × List WSpi)) :
    ∀ (H : List WOut) (n : WNode), C08.WInv TI n → Ord H { n := n } →
      Ord (H ++ (runOuts fuel n es).2) { n := (runOuts fuel n es).1 } := by
  induction es with
  | nil =>
    intro H n _ ho
    show Ord (H ++ []) { n := n }
    rw [List.append_nil]; exact ho
  | cons x rest ih =>
    intro H n hi ho
    obtain ⟨e, spi⟩ := x
    have h1 := step_ord hT (H := H) fuel n e spi hi ho
    have hi1 := C08.worker_step_inv hT fuel n e spi hi
    have h2 := ih _ _ hi1 h1
    have hr : (runOuts fuel n ((e, spi) :: rest)).2 = (Worker.step fuel n e spi).2 ++ (runOuts fuel (Worker.step fuel n e spi).1 rest).2 := rfl
    have hn : (runOuts fuel n ((e, spi) :: rest)).1 = (runOuts fuel (Worker.step fuel n e spi).1 rest).1 := rfl
    rw [hr, hn, ← List.append_assoc]
    exact h2

/-! ### the property -/

/-- **The consumer callbacks of one node are ordered**, over every execution of the worker from its
initial state — whatever is delivered, cached, synced, and whatever the consumer answers (failing
commit callbacks included): in the history of commit callbacks (`(true, h)`) and new-round callbacks
(`(false, h)`) heights never go down, and two callbacks of the same height are only ever the round
callback of that height followed by its commit callback. -/
theorem callbacks_ordered (fuel me inst : Nat) (es : List (WEvent × List WSpi)) :
    (cbEvents (runOuts fuel ({ me := me, inst := inst } : WNode) es).2).Pairwise Before := by
  have h0 : Ord [] ({ n := { me := me, inst := inst } } : WW) :=
    ⟨List.Pairwise.nil, (by intro x hx; cases hx), (by intro hx; cases hx), (by intro hx; cases hx), (by intro _ hx; cases hx)⟩
  have := (run_ord C08.logClean_termInv fuel es [] _ (C08.winv_init Term.LogClean me inst) h0).ordered
  simpa using this

/-- **Every commit callback is preceded by the new-round callback of its height**: over every execution, a
commit callback for height `h` only happens in a round that was reported to the consumer, and the report
came first. -/
theorem commit_preceded_by_round (fuel me inst : Nat) (es : List (WEvent × List WSpi))
    (pre post : List WOut) (b : Block) (ref : BlockRef) (signers : List SSig)
    (hsplit : (runOuts fuel ({ me := me, inst := inst } : WNode) es).2 = pre ++ WOut.commitCb b ref signers :: post) :
    ∃ c, WOut.newRound ref.height c ∈ pre := by
  have h0 : Ord [] ({ n := { me := me, inst := inst } } : WW) :=
    ⟨List.Pairwise.nil, (by intro x hx; cases hx), (by intro hx; cases hx), (by intro hx; cases hx), (by intro _ hx; cases hx)⟩
  have hord := run_ord C08.logClean_termInv fuel es [] _ (C08.winv_init Term.LogClean me inst) h0
  have hp : (cbEvents (runOuts fuel ({ me := me, inst := inst } : WNode) es).2).Pairwise Before := by simpa using hord.ordered
  have hcr : (false, ref.height) ∈ cbEvents (runOuts fuel ({ me := me, inst := inst } : WNode) es).2 := by
    have := hord.commitRound ref.height (by
      show (true, ref.height) ∈ cbEvents ([] ++ (runOuts fuel ({ me := me, inst := inst } : WNode) es).2 ++ [])
      rw [List.append_nil, List.nil_append, hsplit, cbEvents_append]
      exact List.mem_append_right _ (List.mem_cons_self ..))
    simpa using this
  rw [hsplit, cbEvents_append] at hp hcr
  have hc : cbEvents (WOut.commitCb b ref signers :: post) = (true, ref.height) :: cbEvents post := rfl
  rw [hc] at hp hcr
  rcases List.mem_append.mp hcr with hin | hin
  · -- it is among the callbacks before the commit
    unfold cbEvents at hin
    obtain ⟨o, ho, hk⟩ := List.mem_filterMap.mp hin
    cases o with
    | newRound h' c' =>
      simp only [cbOf, Option.some.injEq, Prod.mk.injEq] at hk
      exact ⟨c', by rw [← hk.2]; exact ho⟩
    | commitCb _ _ _ => simp [cbOf] at hk
    | term _ => simp [cbOf] at hk
    | stopTimer => simp [cbOf] at hk
  · -- it cannot come after the commit of the same height
    exfalso
    rcases List.mem_cons.mp hin with he | hin'
    · cases he
    · have hpw := (List.pairwise_append.mp hp).2.1
      rw [List.pairwise_cons] at hpw
      rcases hpw.1 _ hin' with hlt | ⟨h1, _, _⟩
      · exact Nat.lt_irrefl _ hlt
      · cases h1

/-- heights of the commit callbacks (read off the certificates), in order -/
def commitHeights (outs : List WOut) : List Nat :=
  outs.filterMap (fun o => match o with | .commitCb _ ref _ => some ref.height | _ => none)

theorem commitHeights_eq (outs : List WOut) :
    commitHeights outs = (cbEvents outs).filterMap (fun x => if x.1 then some x.2 else none) := by
  unfold commitHeights cbEvents
  rw [List.filterMap_filterMap]
  apply filterMap_congr'
  intro o _
  cases o <;> rfl

theorem roundHeights_eq (outs : List WOut) :
    roundHeights outs = (cbEvents outs).filterMap (fun x => if x.1 then none else some x.2) := by
  unfold roundHeights cbEvents
  rw [List.filterMap_filterMap]
  apply filterMap_congr'
  intro o _
  cases o <;> rfl

/-- **The heights passed to the commit callback are strictly increasing**: no height is committed
twice by one node, over every execution. -/
theorem commit_heights_increase (fuel me inst : Nat) (es : List (WEvent × List WSpi)) :
    (commitHeights (runOuts fuel ({ me := me, inst := inst } : WNode) es).2).Pairwise (· < ·) := by
  rw [commitHeights_eq]
  refine List.Pairwise.filterMap _ ?_ (callbacks_ordered fuel me inst es)
  intro x y hxy a ha b hb
  cases hx : x.1 <;> simp only [hx, if_true, Bool.false_eq_true, if_false, reduceCtorEq, Option.some.injEq] at ha
  cases hy : y.1 <;> simp only [hy, if_true, Bool.false_eq_true, if_false, reduceCtorEq, Option.some.injEq] at hb
  subst ha; subst hb
  rcases hxy with h | ⟨h1, _, _⟩
  · exact h
  · rw [hx] at h1; cases h1

/-- **A commit callback for height `h` is only ever followed by rounds for heights above `h`** — and by
commit callbacks for heights above `h`. -/
theorem commit_then_only_higher (fuel me inst : Nat) (es : List (WEvent × List WSpi))
    (pre post : List WOut) (b : Block) (ref : BlockRef) (signers : List SSig)
    (hsplit : (runOuts fuel ({ me := me, inst := inst } : WNode) es).2 = pre ++ WOut.commitCb b ref signers :: post) :
    (∀ h c, WOut.newRound h c ∈ post → ref.height < h)
    ∧ (∀ b' ref' s', WOut.commitCb b' ref' s' ∈ post → ref.height < ref'.height) := by
  have hp := callbacks_ordered fuel me inst es
  rw [hsplit, cbEvents_append] at hp
  have hp2 := (List.pairwise_append.mp hp).2.1
  have hc : cbEvents (WOut.commitCb b ref signers :: post) = (true, ref.height) :: cbEvents post := rfl
  rw [hc, List.pairwise_cons] at hp2
  have hmem : ∀ o ∈ post, ∀ x, cbOf o = some x → x ∈ cbEvents post := by
    intro o ho x hx
    unfold cbEvents
    exact List.mem_filterMap.mpr ⟨o, ho, hx⟩
  constructor
  · intro h c hm
    rcases hp2.1 _ (hmem _ hm (false, h) rfl) with hlt | ⟨h1, _, _⟩
    · exact hlt
    · cases h1
  · intro b' ref' s' hm
    rcases hp2.1 _ (hmem _ hm (true, ref'.height) rfl) with hlt | ⟨h1, _, _⟩
    · exact hlt
    · cases h1

/-- a new-round callback for `h` is only followed by commit callbacks at or above `h` and by rounds above `h` -/
theorem round_then_not_lower (fuel me inst : Nat) (es : List (WEvent × List WSpi))
    (pre post : List WOut) (h : Nat) (c : Bool)
    (hsplit : (runOuts fuel ({ me := me, inst := inst } : WNode) es).2 = pre ++ WOut.newRound h c :: post) :
    (∀ h' c', WOut.newRound h' c' ∈ post → h < h')
    ∧ (∀ b' ref' s', WOut.commitCb b' ref' s' ∈ post → h ≤ ref'.height) := by
  have hp := callbacks_ordered fuel me inst es
  rw [hsplit, cbEvents_append] at hp
  have hp2 := (List.pairwise_append.mp hp).2.1
  have hc : cbEvents (WOut.newRound h c :: post) = (false, h) :: cbEvents post := rfl
  rw [hc, List.pairwise_cons] at hp2
  have hmem : ∀ o ∈ post, ∀ x, cbOf o = some x → x ∈ cbEvents post := by
    intro o ho x hx
    unfold cbEvents
    exact List.mem_filterMap.mpr ⟨o, ho, hx⟩
  constructor
  · intro h' c' hm
    rcases hp2.1 _ (hmem _ hm (false, h') rfl) with hlt | ⟨_, h2, _⟩
    · exact hlt
    · cases h2
  · intro b' ref' s' hm
    rcases hp2.1 _ (hmem _ hm (true, ref'.height) rfl) with hlt | ⟨_, _, h3⟩
    · exact Nat.le_of_lt hlt
    · exact Nat.le_of_eq h3

/-- heights of the blocks handed to the commit callback, in order -/
def commitBlockHeights (outs : List WOut) : List Nat :=
  outs.filterMap (fun o => match o with | .commitCb b _ _ => some b.height | _ => none)

/-- the same for the heights of the *blocks* handed over, under the height half of the consumer
contract (A2): a block the consumer proposed or approved for a term carries that term's height, so the
block of every commit callback has the height of its certificate -/
theorem commit_block_heights_increase (fuel me inst : Nat) (es : List (WEvent × List WSpi))
    (A2h : ∀ b ref s, WOut.commitCb b ref s ∈ (runOuts fuel ({ me := me, inst := inst } : WNode) es).2 → b.height = ref.height) :
    (commitBlockHeights (runOuts fuel ({ me := me, inst := inst } : WNode) es).2).Pairwise (· < ·) := by
  have h := commit_heights_increase fuel me inst es
  have he : commitBlockHeights (runOuts fuel ({ me := me, inst := inst } : WNode) es).2
      = commitHeights (runOuts fuel ({ me := me, inst := inst } : WNode) es).2 := by
    unfold commitBlockHeights commitHeights
    apply filterMap_congr'
    intro o ho
    cases o with
    | commitCb b ref s => simp only [A2h b ref s ho]
    | _ => rfl
  rw [he]; exact h

/-! ### the theorems are not vacuous: a run with a failing commit callback, replays and a sync

Committee weights (1,1,1,7): member 3 alone holds quorum weight.  It starts height 1 (sync of the
genesis block), receives the proposal of the leader (member 0) — which completes its round — and its
commit callback fails; the COMMIT of the leader and the proposal once more change nothing (the latch
of the term that stays installed); a sync of block 1 then starts height 2. -/

def exMembers : List Member := [⟨0, 1⟩, ⟨1, 1⟩, ⟨2, 1⟩, ⟨3, 7⟩]
def exBlock1 : Block := ⟨11, 1, 111⟩
def exPP1 : PPMsg := ⟨⟨⟨tPP, 1, 1, 0, 111⟩, ⟨0, true⟩⟩, some exBlock1⟩
def exCommit1 : CMsg := ⟨⟨tC, 1, 1, 0, 111⟩, ⟨0, true⟩, true⟩
def exSchedW : List (WEvent × List WSpi) :=
  [ (.update 0, [.committee exMembers]),
    (.deliver (.preprepare exPP1), [.term (.verdict true none), .commitCb false]),
    (.deliver (.commit exCommit1), []),
    (.deliver (.preprepare exPP1), []),
    (.update 1, [.committee exMembers]) ]

example : cbEvents (runOuts 10 ({ me := 3, inst := 1 } : WNode) exSchedW).2 = [(false, 1), (true, 1), (false, 2)] := by decide
example : commitHeights (runOuts 10 ({ me := 3, inst := 1 } : WNode) exSchedW).2 = [1] := by decide

end LeanHelix.C13
