import LeanHelix.Lemmas.TermRuns
import LeanHelix.Props.C06
import LeanHelix.Props.C09
import LeanHelix.Props.C10Leader
import LeanHelix.Spec.Safety
/-!
# C01 — the node-local rules of the abstract safety argument hold in every execution of the term model

`Spec/Safety.lean` proves agreement from per-node rules (`Spec.Justified`).  Each rule has a part that
only concerns the node's own earlier statements (one hash per view, no acceptance below a vote, the
lock on stand-alone proposals, a vote carries the proof of the highest prepared view, …) and a part
about certificates made of other members' signed messages.  Here the **local part** (`LocalJ`) is
proved for the term model itself, for every execution: any configuration whose total weight fits 64
bits, any sequence of deliveries / election triggers / cancellations, any SPI answers
(`local_rules_hold`).  The statements are the ghost list of the atomic-block decomposition
(`Lemmas/TermRuns.lean`), which erases to exactly the statement-carrying effects the model emits.
`justified_of_local` shows that `LocalJ` plus the certificate part is `Spec.Justified`.
-/
namespace LeanHelix.C01Local
open LeanHelix LeanHelix.Msg LeanHelix.Term

/-! ## the local rules -/

/-- what a node may state next given its own statements so far (newest first): the conjuncts of
`Spec.Justified` that concern only the node's own history -/
def LocalJ (T : List LEv) : LEv → Prop
  | .acc v h f => (∀ h' f', LEv.acc v h' f' ∈ T → h' = h) ∧ (∀ v' pf s, LEv.vote v' pf s ∈ T → v' ≤ v)
      ∧ (0 < v → f = true ∨
          (∀ v0 h0, LEv.com v0 h0 ∈ T → v0 < v ∧ ((∀ v1 h1, LEv.com v1 h1 ∈ T → v1 ≤ v0) → h0 = h)))
  | .com v h => (∃ f, LEv.acc v h f ∈ T) ∧ (∀ v' pf s, LEv.vote v' pf s ∈ T → v' ≤ v)
      ∧ (∀ v' h' f, LEv.acc v' h' f ∈ T → v' ≤ v)
  | .lcom _ _ => True
  | .vote v' pf _ => ∀ v h, LEv.com v h ∈ T → v < v' → ∃ pv hp, pf = some (pv, hp) ∧ v ≤ pv
  | .dec _ => True

inductive LocalValid : List LEv → Prop where
  | nil : LocalValid []
  | cons {T : List LEv} {e : LEv} : LocalValid T → LocalJ T e → LocalValid (e :: T)

theorem com_was_accepted {T : List LEv} (hv : LocalValid T) {v h : Nat} (hc : LEv.com v h ∈ T) : ∃ f, LEv.acc v h f ∈ T := by
  induction hv with
  | nil => cases hc
  | cons hv' hj ih =>
    rcases List.mem_cons.mp hc with rfl | hc'
    · obtain ⟨f, hf⟩ := hj.1
      exact ⟨f, List.mem_cons_of_mem _ hf⟩
    · obtain ⟨f, hf⟩ := ih hc'
      exact ⟨f, List.mem_cons_of_mem _ hf⟩

/-! ## store facts -/

theorem getPP_storePP_none (s : Store) (m : PPMsg) (hn : s.getPP m.c.header.height m.c.header.view = none) :
    (s.storePP m).getPP m.c.header.height m.c.header.view = some m := by
  unfold Store.storePP
  rw [hn]
  unfold Store.getPP at hn ⊢
  simp only [List.find?_append, hn, Option.none_or]
  simp [List.find?]

theorem getPP_storePP_cases (s : Store) (m : PPMsg) (h v : Nat) (q : PPMsg) (hg : (s.storePP m).getPP h v = some q) :
    s.getPP h v = some q ∨ (q = m ∧ m.c.header.height = h ∧ m.c.header.view = v) := by
  unfold Store.storePP at hg
  split at hg
  · exact Or.inl hg
  · unfold Store.getPP at hg ⊢
    simp only [List.find?_append] at hg
    cases hf : List.find? (fun m => m.c.header.height == h && m.c.header.view == v) s.pps with
    | some q' => rw [hf] at hg; simp at hg; left; rw [hg]
    | none =>
      rw [hf] at hg
      simp only [Option.none_or] at hg
      right
      have h1 := List.mem_of_find?_eq_some hg
      have h2 := List.find?_some hg
      simp only [List.mem_singleton] at h1
      simp only [Bool.and_eq_true, beq_iff_eq] at h2
      subst h1
      exact ⟨rfl, h2.1, h2.2⟩

/-- what `extractProof` needs -/
theorem extractProof_cond (n : Node) (pv : Nat) (h : (extractProof n pv).isSome = true) :
    ∃ ppm, n.store.getPP n.cfg.height pv = some ppm
      ∧ isQuorum n.cfg ((n.store.getPrepares n.cfg.height pv ppm.c.header.hash).map (·.sender.id) ++ [ppm.c.sender.id]) = true
      ∧ n.store.getPrepares n.cfg.height pv ppm.c.header.hash ≠ [] := by
  unfold extractProof at h
  cases hpp : n.store.getPP n.cfg.height pv with
  | none => simp [hpp] at h
  | some ppm =>
    simp only [hpp] at h
    split at h
    · cases h
    · rename_i hq
      split at h
      · cases h
      · split at h
        · cases h
        · rename_i p0 ps hps
          refine ⟨ppm, rfl, ?_, by rw [hps]; exact List.cons_ne_nil _ _⟩
          cases hx : isQuorum n.cfg ((n.store.getPrepares n.cfg.height pv ppm.c.header.hash).map (·.sender.id) ++ [ppm.c.sender.id]) with
          | true => rfl
          | false => simp [hx] at hq

/-- the proof stays extractable while the log only grows -/
theorem extractProof_mono {a b : Node} (hfit : C06.Fits a.cfg.members) (hc : b.cfg = a.cfg)
    (hpp : ∀ v q, a.store.getPP a.cfg.height v = some q → b.store.getPP a.cfg.height v = some q)
    (hpre : a.store.prepares <+: b.store.prepares) (pv : Nat)
    (h : (extractProof a pv).isSome = true) : (extractProof b pv).isSome = true := by
  obtain ⟨ppm, hg, hq, hne⟩ := extractProof_cond a pv h
  have hsub : ∀ x ∈ a.store.getPrepares a.cfg.height pv ppm.c.header.hash, x ∈ b.store.getPrepares a.cfg.height pv ppm.c.header.hash := by
    intro x hx
    unfold Store.getPrepares at hx ⊢
    rw [List.mem_filter] at hx ⊢
    exact ⟨hpre.subset hx.1, hx.2⟩
  refine extractProof_isSome b pv ppm (by rw [hc]; exact hpp pv ppm hg) ?_ ?_
  · rw [hc]
    refine C06.isQuorum_mono a.cfg.members hfit _ _ ?_ hq
    intro i hi
    simp only [List.mem_append, List.mem_map, List.mem_singleton] at hi ⊢
    rcases hi with ⟨x, hx, rfl⟩ | rfl
    · exact Or.inl ⟨x, hsub x hx, rfl⟩
    · exact Or.inr rfl
  · rw [hc]
    cases hl : a.store.getPrepares a.cfg.height pv ppm.c.header.hash with
    | nil => exact absurd hl hne
    | cons x rest =>
      intro he
      have := hsub x (by rw [hl]; exact List.mem_cons_self ..)
      rw [he] at this; cases this

/-! ## the invariant tying the statements made so far to the node state -/

structure GInv (T : List LEv) (n : Node) : Prop where
  valid : LocalValid T
  accPP : ∀ v h f, LEv.acc v h f ∈ T → ∃ ppm, n.store.getPP n.cfg.height v = some ppm ∧ ppm.c.header.hash = h
  ppAcc : ∀ v ppm, n.store.getPP n.cfg.height v = some ppm → ∃ f, LEv.acc v ppm.c.header.hash f ∈ T
  accView : ∀ v h f, LEv.acc v h f ∈ T → v ≤ n.view
  voteView : ∀ v pf s, LEv.vote v pf s ∈ T → v ≤ n.view
  comPrep : ∀ v h, LEv.com v h ∈ T → ∃ pv, n.prepared = some pv ∧ v ≤ pv
  prep : ∀ pv, n.prepared = some pv → pv ≤ n.view
    ∧ (∃ ppm, n.store.getPP n.cfg.height pv = some ppm ∧ LEv.com pv ppm.c.header.hash ∈ T)
    ∧ (extractProof n pv).isSome = true
  leader : LeaderPPs n

theorem getPP_quiet {a b : Node} (hq : Quiet a b) (v : Nat) :
    b.store.getPP b.cfg.height v = a.store.getPP a.cfg.height v := getPP_congr hq.cfg hq.pps v

/-- bookkeeping keeps the invariant -/
theorem ginv_quiet {T : List LEv} {a b : Node} (hfit : C06.Fits a.cfg.members) (hq : Quiet a b) (hT : GInv T a) : GInv T b where
  valid := hT.valid
  accPP := by intro v h f hm; rw [getPP_quiet hq]; exact hT.accPP v h f hm
  ppAcc := by intro v ppm hg; rw [getPP_quiet hq] at hg; exact hT.ppAcc v ppm hg
  accView := by intro v h f hm; exact Nat.le_trans (hT.accView v h f hm) hq.view
  voteView := by intro v pf s hm; exact Nat.le_trans (hT.voteView v pf s hm) hq.view
  comPrep := by intro v h hm; rw [hq.prepared]; exact hT.comPrep v h hm
  prep := by
    intro pv hp
    rw [hq.prepared] at hp
    obtain ⟨p1, p2, p3⟩ := hT.prep pv hp
    refine ⟨Nat.le_trans p1 hq.view, by rw [getPP_quiet hq]; exact p2, ?_⟩
    refine extractProof_mono hfit hq.cfg ?_ hq.prepares pv p3
    intro v q hg
    unfold Store.getPP at hg ⊢; rw [hq.pps]; exact hg
  leader := hT.leader.of_same hq.cfg hq.pps hq.lnv

/-- a statement that is not an acceptance, a vote or a prepared-COMMIT does not disturb the invariant -/
theorem ginv_neutral {T : List LEv} {a : Node} {e : LEv} (hT : GInv T a) (hj : LocalJ T e)
    (h1 : ∀ v h f, e ≠ LEv.acc v h f) (h2 : ∀ v pf s, e ≠ LEv.vote v pf s) (h3 : ∀ v h, e ≠ LEv.com v h) : GInv (e :: T) a where
  valid := .cons hT.valid hj
  accPP := by
    intro v h f hm
    rcases List.mem_cons.mp hm with he | hm
    · exact absurd he.symm (h1 v h f)
    · exact hT.accPP v h f hm
  ppAcc := by intro v ppm hg; obtain ⟨f, hf⟩ := hT.ppAcc v ppm hg; exact ⟨f, List.mem_cons_of_mem _ hf⟩
  accView := by
    intro v h f hm
    rcases List.mem_cons.mp hm with he | hm
    · exact absurd he.symm (h1 v h f)
    · exact hT.accView v h f hm
  voteView := by
    intro v pf s hm
    rcases List.mem_cons.mp hm with he | hm
    · exact absurd he.symm (h2 v pf s)
    · exact hT.voteView v pf s hm
  comPrep := by
    intro v h hm
    rcases List.mem_cons.mp hm with he | hm
    · exact absurd he.symm (h3 v h)
    · exact hT.comPrep v h hm
  prep := by
    intro pv hp
    obtain ⟨p1, ⟨ppm, hg, hc⟩, p3⟩ := hT.prep pv hp
    exact ⟨p1, ⟨ppm, hg, List.mem_cons_of_mem _ hc⟩, p3⟩
  leader := hT.leader

/-- storing a proposal of the current view for which none was stored, and stating its acceptance -/
theorem ginv_store_pp {T : List LEv} {a b : Node} (hfit : C06.Fits a.cfg.members) (hT : GInv T a) (ppm : PPMsg) (f : Bool)
    (hh : ppm.c.header.height = a.cfg.height) (hv : ppm.c.header.view = a.view)
    (hnone : a.store.getPP a.cfg.height a.view = none)
    (hlock : 0 < a.view → f = true ∨ lockConflict a ppm = false)
    (hlead : isLeader a.cfg a.cfg.me a.view = true → a.view ≤ a.latestNV)
    (hcfg : b.cfg = a.cfg) (hview : b.view = a.view) (hprep : b.prepared = a.prepared) (hlnv : b.latestNV = a.latestNV)
    (hpps : b.store.pps = (a.store.storePP ppm).pps) (hpre : a.store.prepares <+: b.store.prepares) :
    GInv (LEv.acc ppm.c.header.view ppm.c.header.hash f :: T) b := by
  have hnone' : a.store.getPP ppm.c.header.height ppm.c.header.view = none := by rw [hh, hv]; exact hnone
  have hgb : ∀ v, b.store.getPP b.cfg.height v = (a.store.storePP ppm).getPP a.cfg.height v := by
    intro v; unfold Store.getPP; rw [hpps, hcfg]
  have hstable : ∀ v q, a.store.getPP a.cfg.height v = some q → b.store.getPP b.cfg.height v = some q := by
    intro v q hg; rw [hgb]; exact storePP_getPP_stable _ _ _ _ _ hg
  have hnew : b.store.getPP b.cfg.height ppm.c.header.view = some ppm := by
    rw [hgb, ← hh]; exact getPP_storePP_none _ _ hnone'
  have hcases : ∀ v q, b.store.getPP b.cfg.height v = some q → a.store.getPP a.cfg.height v = some q ∨ (q = ppm ∧ v = ppm.c.header.view) := by
    intro v q hg
    rw [hgb] at hg
    rcases getPP_storePP_cases _ _ _ _ _ hg with h | ⟨h1, _, h3⟩
    · exact Or.inl h
    · exact Or.inr ⟨h1, h3.symm⟩
  refine ⟨.cons hT.valid ⟨?_, ?_, ?_⟩, ?_, ?_, ?_, ?_, ?_, ?_, ?_⟩
  · -- one hash per view: nothing was accepted in this view before
    intro h' f' hm
    obtain ⟨q, hq, _⟩ := hT.accPP _ h' f' hm
    rw [hv, hnone] at hq; cases hq
  · intro v' pf s hm; rw [hv]; exact hT.voteView v' pf s hm
  · -- the lock
    intro hpos
    rw [hv] at hpos
    rcases hlock hpos with hf | hlc
    · exact Or.inl hf
    · right
      intro v0 h0 hc0
      obtain ⟨pv, hpv, hle⟩ := hT.comPrep v0 h0 hc0
      obtain ⟨p1, ⟨lp, hglp, hclp⟩, _⟩ := hT.prep pv hpv
      have hlt : pv < a.view := by
        rcases Nat.lt_or_ge pv a.view with h | h
        · exact h
        · have : pv = a.view := by omega
          rw [this, hnone] at hglp; cases hglp
      refine ⟨by rw [hv]; omega, ?_⟩
      intro hmax
      have hv0 : v0 = pv := by have := hmax pv _ hclp; omega
      subst hv0
      obtain ⟨f0, hacc0⟩ := com_was_accepted hT.valid hc0
      obtain ⟨q, hq, hqh⟩ := hT.accPP _ _ _ hacc0
      rw [hglp] at hq
      have : lp = q := Option.some.inj hq
      subst this
      unfold lockConflict at hlc
      rw [hpv] at hlc
      simp only [hh, hglp, Bool.and_eq_false_iff, decide_eq_false_iff_not, bne_eq_false_iff_eq] at hlc
      rcases hlc with hlc | hlc
      · omega
      · rw [← hqh]; exact hlc
  · -- accPP
    intro v h f' hm
    rcases List.mem_cons.mp hm with he | hm
    · injection he with e1 e2 _
      subst e1 e2
      exact ⟨ppm, hnew, rfl⟩
    · obtain ⟨q, hq, hqh⟩ := hT.accPP v h f' hm
      exact ⟨q, hstable v q hq, hqh⟩
  · -- ppAcc
    intro v q hg
    rcases hcases v q hg with h | ⟨rfl, rfl⟩
    · obtain ⟨f', hf'⟩ := hT.ppAcc v q h; exact ⟨f', List.mem_cons_of_mem _ hf'⟩
    · exact ⟨f, List.mem_cons_self ..⟩
  · intro v h f' hm
    rw [hview]
    rcases List.mem_cons.mp hm with he | hm
    · injection he with e1 _ _; omega
    · exact hT.accView v h f' hm
  · intro v pf s hm
    rw [hview]
    rcases List.mem_cons.mp hm with he | hm
    · cases he
    · exact hT.voteView v pf s hm
  · intro v h hm
    rw [hprep]
    rcases List.mem_cons.mp hm with he | hm
    · cases he
    · exact hT.comPrep v h hm
  · intro pv hp
    rw [hprep] at hp
    obtain ⟨p1, ⟨lp, hglp, hclp⟩, p3⟩ := hT.prep pv hp
    refine ⟨by rw [hview]; exact p1, ⟨lp, hstable pv lp hglp, List.mem_cons_of_mem _ hclp⟩, ?_⟩
    refine extractProof_mono hfit hcfg ?_ hpre pv p3
    intro v q hg
    have := hstable v q hg
    rw [hcfg] at this; exact this
  · intro v q hg hl
    rw [hlnv]
    rw [hcfg] at hl
    rcases hcases v q hg with h | ⟨_, rfl⟩
    · exact hT.leader v q h hl
    · rw [hv] at hl ⊢; exact hlead hl

/-- becoming prepared in the current view -/
theorem ginv_prepared {T : List LEv} {a : Node} (hfit : C06.Fits a.cfg.members) (hT : GInv T a) (v hash : Nat)
    (hv : v = a.view) (hpp : ∃ ppm, a.store.getPP a.cfg.height v = some ppm ∧ ppm.c.header.hash = hash)
    (hproof : (extractProof a v).isSome = true) :
    GInv (LEv.com v hash :: T) (preparedNode a v hash) := by
  have hgb : ∀ v', (preparedNode a v hash).store.getPP (preparedNode a v hash).cfg.height v' = a.store.getPP a.cfg.height v' := by
    intro v'; exact getPP_congr (a := a) (b := preparedNode a v hash) rfl (storeCommit_pps _ _) v'
  obtain ⟨ppm, hg, hhash⟩ := hpp
  have hproof' : ∀ pv, (extractProof a pv).isSome = true → (extractProof (preparedNode a v hash) pv).isSome = true := by
    intro pv h
    refine extractProof_mono (a := a) (b := preparedNode a v hash) hfit rfl ?_ ?_ pv h
    · intro v' q hq; have := hgb v'; rw [hq] at this; exact this
    · show a.store.prepares <+: (a.store.storeCommit _).prepares
      rw [storeCommit_prepares]; exact List.prefix_refl _
  refine ⟨.cons hT.valid ⟨?_, ?_, ?_⟩, ?_, ?_, ?_, ?_, ?_, ?_, ?_⟩
  · obtain ⟨f, hf⟩ := hT.ppAcc v ppm hg
    rw [hhash] at hf; exact ⟨f, hf⟩
  · intro v' pf s hm; rw [hv]; exact hT.voteView v' pf s hm
  · intro v' h' f hm; rw [hv]; exact hT.accView v' h' f hm
  · intro v' h f hm
    rw [hgb]
    rcases List.mem_cons.mp hm with he | hm
    · cases he
    · exact hT.accPP v' h f hm
  · intro v' q hq
    rw [hgb] at hq
    obtain ⟨f, hf⟩ := hT.ppAcc v' q hq
    exact ⟨f, List.mem_cons_of_mem _ hf⟩
  · intro v' h f hm
    rcases List.mem_cons.mp hm with he | hm
    · cases he
    · exact hT.accView v' h f hm
  · intro v' pf s hm
    rcases List.mem_cons.mp hm with he | hm
    · cases he
    · exact hT.voteView v' pf s hm
  · intro v' h hm
    refine ⟨v, rfl, ?_⟩
    rcases List.mem_cons.mp hm with he | hm
    · injection he with e1 _; omega
    · obtain ⟨pv, hpv, hle⟩ := hT.comPrep v' h hm
      have := (hT.prep pv hpv).1
      omega
  · intro pv hp
    have : pv = v := (Option.some.inj hp).symm
    subst this
    refine ⟨by show pv ≤ a.view; omega, ⟨ppm, by rw [hgb]; exact hg, by rw [hhash]; exact List.mem_cons_self ..⟩, hproof' pv hproof⟩
  · exact hT.leader.of_same rfl (storeCommit_pps _ _) (Nat.le_refl _)

/-- the proof a prepared node attaches to its vote is for its prepared view -/
theorem voteProof_spec {T : List LEv} {a : Node} (hT : GInv T a) (pv : Nat) (hp : a.prepared = some pv) :
    ∃ hp', pfOf (voteProof a) = some (pv, hp') := by
  obtain ⟨_, _, p3⟩ := hT.prep pv hp
  unfold voteProof
  rw [hp]
  cases hx : extractProof a pv with
  | none => rw [hx] at p3; cases p3
  | some pb =>
    obtain ⟨p, b⟩ := pb
    obtain ⟨ppm, hg, _, e1, _⟩ := C09.extractProof_spec a pv p b hx
    refine ⟨p.ppRef.hash, ?_⟩
    show pfOf ((extractProof a pv).map (fun (x : Proof × Option Block) => x.1)) = _
    rw [hx]
    show some (p.ppRef.view, p.ppRef.hash) = _
    rw [e1, (getPP_spec hg).2.2]

/-- voting for the current view -/
theorem ginv_vote {T : List LEv} {a b : Node} (hfit : C06.Fits a.cfg.members) (hT : GInv T a) (vc : VCMsg) (s : Bool)
    (hp : vc.c.header.proof = voteProof a) (hq : Quiet a b) (hview : b.view = a.view) :
    GInv (LEv.vote a.view (pfOf vc.c.header.proof) s :: T) b := by
  have hb := ginv_quiet hfit hq hT
  refine ⟨.cons hT.valid ?_, ?_, ?_, ?_, ?_, ?_, ?_, hb.leader⟩
  · intro v h hc hlt
    obtain ⟨pv, hpv, hle⟩ := hT.comPrep v h hc
    obtain ⟨hp', e⟩ := voteProof_spec hT pv hpv
    exact ⟨pv, hp', by rw [hp]; exact e, hle⟩
  · intro v h f hm
    rcases List.mem_cons.mp hm with he | hm
    · cases he
    · exact hb.accPP v h f hm
  · intro v q hg; obtain ⟨f, hf⟩ := hb.ppAcc v q hg; exact ⟨f, List.mem_cons_of_mem _ hf⟩
  · intro v h f hm
    rcases List.mem_cons.mp hm with he | hm
    · cases he
    · exact hb.accView v h f hm
  · intro v pf s' hm
    rcases List.mem_cons.mp hm with he | hm
    · injection he with e1 _ _; omega
    · exact hb.voteView v pf s' hm
  · intro v h hm
    rcases List.mem_cons.mp hm with he | hm
    · cases he
    · exact hb.comPrep v h hm
  · intro pv hpv
    obtain ⟨p1, ⟨ppm, hg, hc⟩, p3⟩ := hb.prep pv hpv
    exact ⟨p1, ⟨ppm, hg, List.mem_cons_of_mem _ hc⟩, p3⟩

/-- logging the delivered PREPARE / COMMIT / VIEW_CHANGE is bookkeeping -/
theorem quiet_of_log {e : Event} {op : StoreOp} (a : Node) (he : evOp e = some op) :
    Quiet a { a with store := a.store.apply op } := by
  cases e with
  | deliver m =>
    cases m with
    | prepare x =>
      simp only [evOp, Option.some.injEq] at he; subst he
      exact ⟨rfl, Nat.le_refl _, Nat.le_refl _, rfl, storePrepare_pps _ _, storePrepare_prefix _ _⟩
    | commit x =>
      simp only [evOp, Option.some.injEq] at he; subst he
      exact ⟨rfl, Nat.le_refl _, Nat.le_refl _, rfl, storeCommit_pps _ _, by
        show a.store.prepares <+: (a.store.storeCommit x).prepares
        rw [storeCommit_prepares]; exact List.prefix_refl _⟩
    | viewChange x =>
      simp only [evOp, Option.some.injEq] at he; subst he
      exact ⟨rfl, Nat.le_refl _, Nat.le_refl _, rfl, storeVC_pps _ _, by
        show a.store.prepares <+: (a.store.storeVC x).prepares
        rw [storeVC_prepares]; exact List.prefix_refl _⟩
    | preprepare x => simp [evOp] at he
    | newView x => simp [evOp] at he
  | start c => simp [evOp] at he
  | election h v => simp [evOp] at he
  | cancelOlder h v => simp [evOp] at he

theorem blk_cfg {e : Event} {spi0 : List Spi} {a b : Node} {l : List Out} {g : List LEv} (h : Blk e spi0 a b l g) : b.cfg = a.cfg := by
  cases h with
  | quiet hq _ _ => exact hq.cfg
  | decide _ _ _ _ _ hq => exact hq.cfg
  | _ => rfl

/-- **every atomic block keeps the invariant, and the statement it makes obeys the local rules** -/
theorem blk_inv {e : Event} {spi0 : List Spi} {T : List LEv} {a b : Node} {l : List Out} {g : List LEv} (hfit : C06.Fits a.cfg.members)
    (hT : GInv T a) (hb : Blk e spi0 a b l g) : GInv (g.reverse ++ T) b := by
  cases hb with
  | quiet hq _ _ => exact ginv_quiet hfit hq hT
  | log op he => exact ginv_quiet hfit (quiet_of_log a he) hT
  | accept ppm f rcpt hh hv hnone hnl hlock hsrc hval =>
    refine ginv_store_pp hfit hT ppm f hh hv hnone ?_ ?_ rfl rfl rfl rfl (storePrepare_pps _ _) ?_
    · intro hpos
      rcases hlock with h | h | h
      · omega
      · exact Or.inl h
      · exact Or.inr h
    · intro hl; rw [hnl] at hl; cases hl
    · show a.store.prepares <+: ((a.store.storePP ppm).storePrepare _).prepares
      have := storePrepare_prefix (a.store.storePP ppm) (ownPrepare a.cfg ppm.c.header.height ppm.c.header.view ppm.c.header.hash)
      rw [storePP_prepares] at this
      exact this
  | prepared v hash rcpt hv hnot hpp hproof =>
    exact ginv_prepared hfit hT v hash hv (by obtain ⟨q, h1, h2, _⟩ := hpp; exact ⟨q, h1, h2⟩) hproof
  | late h v hash rcpt hq =>
    exact ginv_neutral hT trivial (by intro _ _ _ h; cases h) (by intro _ _ _ h; cases h) (by intro _ _ h; cases h)
  | decide blk cs h v hash hq hs hcs hcq hpp =>
    have h1 : GInv (LEv.dec (commitHash cs) :: T) a :=
      ginv_neutral hT trivial (by intro _ _ _ h; cases h) (by intro _ _ _ h; cases h) (by intro _ _ h; cases h)
    exact ginv_quiet hfit hq h1
  | propose ppm f o hh hv hnone hlnv hf ho hown hsrc hreq hblk hmsg =>
    refine ginv_store_pp hfit hT ppm f hh hv hnone ?_ (fun _ => hlnv) rfl rfl rfl rfl rfl ?_
    · intro hpos
      rcases hf with h | h
      · omega
      · exact Or.inl h
    · show a.store.prepares <+: (a.store.storePP ppm).prepares
      rw [storePP_prepares]; exact List.prefix_refl _
  | voteSend vc rcpt hv hp _ _ _ => exact ginv_vote hfit hT vc true hp (Quiet.refl a) rfl
  | voteStore vc hv hp hown _ _ _ =>
    refine ginv_vote hfit hT vc false hp ⟨rfl, Nat.le_refl _, Nat.le_refl _, rfl, storeVC_pps _ _, ?_⟩ rfl
    show a.store.prepares <+: (a.store.storeVC vc).prepares
    rw [storeVC_prepares]; exact List.prefix_refl _

theorem runs_cfg {e : Event} {spi0 : List Spi} {w w' : Term.W} {g : List LEv} (h : Runs e spi0 w w' g) : w'.n.cfg = w.n.cfg := by
  induction h with
  | refl => rfl
  | blk _ hb => exact blk_cfg hb
  | trans _ _ ih1 ih2 => rw [ih2, ih1]

theorem runs_inv {e : Event} {spi0 : List Spi} {w w' : Term.W} {g : List LEv} (h : Runs e spi0 w w' g) :
    ∀ {T : List LEv}, C06.Fits w.n.cfg.members → GInv T w.n → GInv (g.reverse ++ T) w'.n := by
  induction h with
  | refl => intro T _ hT; exact hT
  | blk _ hb => intro T hfit hT; exact blk_inv hfit hT hb
  | trans r1 _ ih1 ih2 =>
    intro T hfit hT
    have h1 := ih1 hfit hT
    have h2 := ih2 (by rw [runs_cfg r1]; exact hfit) h1
    rw [List.reverse_append, List.append_assoc]
    exact h2

/-! ## executions -/

/-- what the worker lets through to the term (established for the worker model in `C08Worker` /
`WorkerInvariants`): messages of this height; proposals and NEW_VIEWs that carry another member's
signature -/
def EventOK (c : Cfg) : Event → Prop
  | .start _ => False
  | .deliver (.preprepare m) => m.c.header.height = c.height ∧ m.c.sender.id ≠ c.me
  | .deliver (.prepare m) => m.header.height = c.height
  | .deliver (.newView m) => m.header.height = c.height ∧ m.sender.id ≠ c.me
  | _ => True

theorem eventLocal_of_ok (n : Node) (e : Event) (h : EventOK n.cfg e) : EventLocal n e := by
  cases e with
  | start c => exact absurd h (by intro h; exact h)
  | election _ _ => trivial
  | cancelOlder _ _ => trivial
  | deliver m => cases m <;> first | exact h | trivial

theorem step_views (n : Node) (e : Event) (spi : List Spi) (hi : ViewsOK n) : ViewsOK (step n e spi).1 := by
  unfold step
  dsimp only
  cases e with
  | start c => exact startTerm_views _ c hi
  | election h v => exact election_views _ h v hi
  | cancelOlder h v => exact hi.of_same rfl rfl (Nat.le_refl _)
  | deliver m =>
    cases m with
    | preprepare x => exact handlePrePrepare_views _ x hi
    | prepare x => exact handlePrepare_views _ x hi
    | commit x => exact handleCommit_views _ x hi
    | viewChange x => exact handleViewChange_views _ x hi
    | newView x => exact handleNewView_views _ x hi

/-- node state and all effects so far -/
abbrev Exec := Node × List Out

def Exec.next (s : Exec) (x : Event × List Spi) : Exec :=
  ((step s.1 x.1 x.2).1, s.2 ++ (step s.1 x.1 x.2).2)

/-- the invariant of executions: there is a list of statements (newest first) that obeys the local
rules, erases to exactly the statement-carrying effects emitted so far, and is tied to the state -/
def RunInv (c : Cfg) (s : Exec) : Prop :=
  s.1.cfg = c ∧ ViewsOK s.1 ∧ C10.LVInv s.1 ∧
  ∃ T, GInv T s.1 ∧ s.2.filterMap stmtOf = T.reverse.filterMap Term.erase

theorem runInv_next (c : Cfg) (hfit : C06.Fits c.members) (s : Exec) (x : Event × List Spi)
    (hi : RunInv c s) (he : EventLocal s.1 x.1) : RunInv c (s.next x) := by
  obtain ⟨hc, hvo, hlv, T, hT, her⟩ := hi
  obtain ⟨w', g, hr, hstep⟩ := step_runs s.1 x.1 x.2 he hvo hlv hT.leader
  have hfit' : C06.Fits ({ n := s.1, spi := x.2 } : Term.W).n.cfg.members := by show C06.Fits s.1.cfg.members; rw [hc]; exact hfit
  have hT' := runs_inv hr hfit' hT
  obtain ⟨l, hl, hle⟩ := hr.erase
  have houts : w'.outs = l := by simpa using hl
  unfold Exec.next
  refine ⟨?_, step_views _ _ _ hvo, (C10.step_nv _ _ _ hlv).2.1, g.reverse ++ T, ?_, ?_⟩
  · rw [hstep]; show w'.n.cfg = c; rw [runs_cfg hr]; exact hc
  · rw [hstep]; exact hT'
  · rw [hstep]
    show (s.2 ++ w'.outs).filterMap stmtOf = _
    rw [List.filterMap_append, her, houts, hle, List.reverse_append, List.reverse_reverse, List.filterMap_append]

theorem ginv_init (c : Cfg) : GInv [] ({ cfg := c } : Node) where
  valid := .nil
  accPP := by intro v h f hm; cases hm
  ppAcc := by intro v ppm hg; cases hg
  accView := by intro v h f hm; cases hm
  voteView := by intro v pf s hm; cases hm
  comPrep := by intro v h hm; cases hm
  prep := by intro pv hp; cases hp
  leader := by intro v ppm hg; cases hg

theorem runInv_init (c : Cfg) : RunInv c (({ cfg := c } : Node), []) :=
  ⟨rfl, viewsOK_init c, C10.lvInv_init c, [], ginv_init c, rfl⟩

/-- **The local rules hold in every execution of the term model.**  For every configuration whose
total weight fits 64 bits, a term that is started and then handles *any* sequence of deliveries,
election triggers and cancellations with *any* SPI answers: there is a list `T` of statements
(newest first) such that (1) every statement obeyed the local rules `LocalJ` with respect to the
statements before it, (2) `T` erases to exactly the PREPREPARE / PREPARE / NEW_VIEW / COMMIT /
VIEW_CHANGE sends and commit callbacks the model emitted, in order, and (3) `T` is tied to the final
state by `GInv`. -/
theorem local_rules_hold (c : Cfg) (hfit : C06.Fits c.members) (first : Bool) (spi0 : List Spi)
    (es : List (Event × List Spi)) (hes : ∀ x ∈ es, EventOK c x.1) :
    ∃ T, LocalValid T
      ∧ (es.foldl Exec.next (Exec.next (({ cfg := c } : Node), []) (.start first, spi0))).2.filterMap stmtOf
          = T.reverse.filterMap Term.erase
      ∧ GInv T (es.foldl Exec.next (Exec.next (({ cfg := c } : Node), []) (.start first, spi0))).1 := by
  have h0 : RunInv c (Exec.next (({ cfg := c } : Node), []) (.start first, spi0)) :=
    runInv_next c hfit _ _ (runInv_init c) ⟨rfl, rfl⟩
  have hrun : ∀ (es : List (Event × List Spi)) (s : Exec), (∀ x ∈ es, EventOK c x.1) → RunInv c s → RunInv c (es.foldl Exec.next s) := by
    intro es
    induction es with
    | nil => intro s _ hs; exact hs
    | cons x rest ih =>
      intro s hes hs
      refine ih _ (fun y hy => hes y (List.mem_cons_of_mem _ hy)) (runInv_next c hfit s x hs ?_)
      exact eventLocal_of_ok s.1 x.1 (by rw [hs.1]; exact hes x List.mem_cons_self)
  obtain ⟨_, _, _, T, hT, her⟩ := hrun es _ hes h0
  exact ⟨T, hT.valid, her, hT⟩

theorem localValid_acc_unique {T : List LEv} (hv : LocalValid T) {v h h' : Nat} {f f' : Bool}
    (h1 : LEv.acc v h f ∈ T) (h2 : LEv.acc v h' f' ∈ T) : h = h' := by
  induction hv with
  | nil => cases h1
  | cons hv' hj ih =>
    rcases List.mem_cons.mp h1 with e1 | h1' <;> rcases List.mem_cons.mp h2 with e2 | h2'
    · rw [← e1] at e2; injection e2 with _ e _; exact e.symm
    · subst e1; exact (hj.1 h' f' h2').symm
    · subst e2; exact (hj.1 h f h1')
    · exact ih h1' h2'

theorem mem_erase_acc {T : List LEv} {v h : Nat} (hm : Stmt.acc v h ∈ T.filterMap Term.erase) : ∃ f, LEv.acc v h f ∈ T := by
  rw [List.mem_filterMap] at hm
  obtain ⟨e, he, hx⟩ := hm
  cases e with
  | acc v' h' f => simp only [Term.erase, Option.some.injEq, Stmt.acc.injEq] at hx; obtain ⟨rfl, rfl⟩ := hx; exact ⟨f, he⟩
  | com v' h' => simp [Term.erase] at hx
  | lcom v' h' => simp [Term.erase] at hx
  | vote v' pf s => cases s <;> simp [Term.erase] at hx
  | dec h' => simp [Term.erase] at hx

/-- **corollary on the wire: in a whole execution a node never accepts two different hashes in one
view** — among all PREPREPAREs, PREPAREs and NEW_VIEWs it ever sends at this height, those of one
view name one block hash. -/
theorem one_hash_per_view (c : Cfg) (hfit : C06.Fits c.members) (first : Bool) (spi0 : List Spi)
    (es : List (Event × List Spi)) (hes : ∀ x ∈ es, EventOK c x.1) (v h h' : Nat)
    (h1 : Stmt.acc v h ∈ (es.foldl Exec.next (Exec.next (({ cfg := c } : Node), []) (.start first, spi0))).2.filterMap stmtOf)
    (h2 : Stmt.acc v h' ∈ (es.foldl Exec.next (Exec.next (({ cfg := c } : Node), []) (.start first, spi0))).2.filterMap stmtOf) :
    h = h' := by
  obtain ⟨T, hv, her, _⟩ := local_rules_hold c hfit first spi0 es hes
  rw [her] at h1 h2
  obtain ⟨f1, m1⟩ := mem_erase_acc h1
  obtain ⟨f2, m2⟩ := mem_erase_acc h2
  exact localValid_acc_unique hv (List.mem_reverse.mp m1) (List.mem_reverse.mp m2)

/-! ## at most one acceptance per view -/

def accView : LEv → Option Nat
  | .acc v _ _ => some v
  | _ => none

/-- the views of the acceptances made so far are pairwise distinct -/
def AccOnce (T : List LEv) : Prop := (T.filterMap accView).Nodup

theorem accOnce_cons_other {T : List LEv} {x : LEv} (h : AccOnce T) (hx : accView x = none) : AccOnce (x :: T) := by
  unfold AccOnce
  rw [List.filterMap_cons, hx]; exact h

theorem accOnce_cons_acc {T : List LEv} {n : Node} (hT : GInv T n) (h : AccOnce T) (v hash : Nat) (f : Bool)
    (hnone : n.store.getPP n.cfg.height v = none) : AccOnce (LEv.acc v hash f :: T) := by
  unfold AccOnce
  rw [List.filterMap_cons]
  simp only [accView, List.nodup_cons]
  refine ⟨?_, h⟩
  intro hm
  rw [List.mem_filterMap] at hm
  obtain ⟨x, hx, hv⟩ := hm
  cases x with
  | acc v' h' f' =>
    simp only [accView, Option.some.injEq] at hv
    subst hv
    obtain ⟨q, hq, _⟩ := hT.accPP _ _ _ hx
    rw [hnone] at hq; cases hq
  | com _ _ => simp [accView] at hv
  | lcom _ _ => simp [accView] at hv
  | vote _ _ _ => simp [accView] at hv
  | dec _ => simp [accView] at hv

/-- every atomic block keeps the acceptances' views distinct -/
theorem blk_accOnce {e : Event} {spi0 : List Spi} {T : List LEv} {a b : Node} {l : List Out} {g : List LEv}
    (hT : GInv T a) (h : AccOnce T) (hb : Blk e spi0 a b l g) : AccOnce (g.reverse ++ T) := by
  cases hb with
  | quiet _ _ _ => exact h
  | log _ _ => exact h
  | accept ppm f rcpt hh hv hnone hnl hlock hsrc hval => exact accOnce_cons_acc hT h _ _ _ (by rw [hv]; exact hnone)
  | prepared _ _ _ _ _ _ _ => exact accOnce_cons_other h rfl
  | late _ _ _ _ _ => exact accOnce_cons_other h rfl
  | decide _ _ _ _ _ _ _ _ _ _ => exact accOnce_cons_other h rfl
  | propose ppm f o hh hv hnone hlnv hf ho hown hsrc hreq hblk hmsg => exact accOnce_cons_acc hT h _ _ _ (by rw [hv]; exact hnone)
  | voteSend _ _ _ _ _ _ _ => exact accOnce_cons_other h rfl
  | voteStore _ _ _ _ _ _ _ => exact accOnce_cons_other h rfl

theorem runs_accOnce {e : Event} {spi0 : List Spi} {w w' : Term.W} {g : List LEv} (hr : Runs e spi0 w w' g) :
    ∀ {T : List LEv}, C06.Fits w.n.cfg.members → GInv T w.n → AccOnce T → AccOnce (g.reverse ++ T) := by
  induction hr with
  | refl => intro T _ _ h; exact h
  | blk _ hb => intro T _ hT h; exact blk_accOnce hT h hb
  | trans r1 _ ih1 ih2 =>
    intro T hfit hT h
    have h1 := ih1 hfit hT h
    have hT1 := runs_inv r1 hfit hT
    have h2 := ih2 (by rw [runs_cfg r1]; exact hfit) hT1 h1
    rw [List.reverse_append, List.append_assoc]
    exact h2

/-- the views of the acceptance statements among the effects -/
def accViewS : Stmt → Option Nat
  | .acc v _ => some v
  | _ => none

theorem accView_erase (T : List LEv) : (T.filterMap Term.erase).filterMap accViewS = T.filterMap accView := by
  induction T with
  | nil => rfl
  | cons x xs ih =>
    cases x with
    | acc v h f => simp [List.filterMap_cons, Term.erase, accViewS, accView, ih]
    | com v h => simp [List.filterMap_cons, Term.erase, accViewS, accView, ih]
    | lcom v h => simp [List.filterMap_cons, Term.erase, accViewS, accView, ih]
    | dec h => simp [List.filterMap_cons, Term.erase, accViewS, accView, ih]
    | vote v pf s => cases s <;> simp [List.filterMap_cons, Term.erase, accViewS, accView, ih]

/-- **at most one acceptance per view, over whole executions**: among all PREPREPAREs, PREPAREs and
NEW_VIEWs a node sends during a term — any events, any SPI answers — no two are for the same view.  In
particular the PREPREPARE of view 0 goes out at most once, a node never sends both a proposal and a
PREPARE for one view, and never two PREPAREs or two NEW_VIEWs for one view. -/
theorem one_acceptance_per_view (c : Cfg) (hfit : C06.Fits c.members) (first : Bool) (spi0 : List Spi)
    (es : List (Event × List Spi)) (hes : ∀ x ∈ es, EventOK c x.1) :
    (((es.foldl Exec.next (Exec.next (({ cfg := c } : Node), []) (.start first, spi0))).2.filterMap stmtOf).filterMap accViewS).Nodup := by
  -- the run invariant, extended with AccOnce
  have key : ∀ (s : Exec) (x : Event × List Spi), EventLocal s.1 x.1 →
      (RunInv c s ∧ ∃ T, GInv T s.1 ∧ s.2.filterMap stmtOf = T.reverse.filterMap Term.erase ∧ AccOnce T) →
      (RunInv c (s.next x) ∧ ∃ T, GInv T (s.next x).1 ∧ (s.next x).2.filterMap stmtOf = T.reverse.filterMap Term.erase ∧ AccOnce T) := by
    intro s x he ⟨hi, T, hT, her, hacc⟩
    refine ⟨runInv_next c hfit s x hi he, ?_⟩
    obtain ⟨hc, hvo, hlv, _⟩ := hi
    obtain ⟨w', g, hr, hstep⟩ := step_runs s.1 x.1 x.2 he hvo hlv hT.leader
    have hfit' : C06.Fits ({ n := s.1, spi := x.2 } : Term.W).n.cfg.members := by show C06.Fits s.1.cfg.members; rw [hc]; exact hfit
    obtain ⟨l, hl, hle⟩ := hr.erase
    have houts : w'.outs = l := by simpa using hl
    refine ⟨g.reverse ++ T, ?_, ?_, runs_accOnce hr hfit' hT hacc⟩
    · unfold Exec.next; rw [hstep]; exact runs_inv hr hfit' hT
    · unfold Exec.next; rw [hstep]
      show (s.2 ++ w'.outs).filterMap stmtOf = _
      rw [List.filterMap_append, her, houts, hle, List.reverse_append, List.reverse_reverse, List.filterMap_append]
  have h0 := key (({ cfg := c } : Node), []) (.start first, spi0) ⟨rfl, rfl⟩
    ⟨runInv_init c, [], ginv_init c, rfl, List.nodup_nil⟩
  have hrun : ∀ (es : List (Event × List Spi)) (s : Exec), (∀ x ∈ es, EventOK c x.1) →
      (RunInv c s ∧ ∃ T, GInv T s.1 ∧ s.2.filterMap stmtOf = T.reverse.filterMap Term.erase ∧ AccOnce T) →
      (RunInv c (es.foldl Exec.next s) ∧ ∃ T, GInv T (es.foldl Exec.next s).1
        ∧ (es.foldl Exec.next s).2.filterMap stmtOf = T.reverse.filterMap Term.erase ∧ AccOnce T) := by
    intro es
    induction es with
    | nil => intro s _ hs; exact hs
    | cons x rest ih =>
      intro s hes hs
      refine ih _ (fun y hy => hes y (List.mem_cons_of_mem _ hy)) (key s x ?_ hs)
      exact eventLocal_of_ok s.1 x.1 (by rw [hs.1.1]; exact hes x List.mem_cons_self)
  obtain ⟨_, T, _, her, hacc⟩ := hrun es _ hes h0
  rw [her, accView_erase]
  unfold AccOnce at hacc
  have : T.reverse.filterMap accView = (T.filterMap accView).reverse := by
    rw [List.filterMap_reverse]
  rw [this]
  rw [List.Nodup] at hacc ⊢
  rw [List.pairwise_reverse]
  exact hacc.imp (fun hne => fun e => hne e.symm)

/-! ## from the local rules to `Spec.Justified` -/

def lift (n : Nat) : LEv → Spec.Ev
  | .acc v h _ => .acc n v h
  | .com v h => .com n v h
  | .lcom v h => .lcom n v h
  | .vote v pf _ => .vote n v pf
  | .dec h => .dec n h

/-- `T` lists the statements of node `n` that occur in the global history `H` -/
structure Sees (n : Nat) (H : List Spec.Ev) (T : List LEv) : Prop where
  acc : ∀ v h, Spec.Ev.acc n v h ∈ H ↔ ∃ f, LEv.acc v h f ∈ T
  vote : ∀ v pf, Spec.Ev.vote n v pf ∈ H → ∃ s, LEv.vote v pf s ∈ T
  com : ∀ v h, Spec.Ev.com n v h ∈ H ↔ LEv.com v h ∈ T

/-- the part of `Spec.Justified` that is about certificates made of other members' statements -/
def Cert (S : Spec.Setting) (H : List Spec.Ev) : LEv → Prop
  | .acc v h f => 0 < v → f = true → Spec.newViewJust S H v h
  | .com v h => Spec.validCert S H v h
  | .lcom v h => Spec.commitQuorum S H v h
  | .vote _ _ _ => True
  | .dec h => ∃ v, Spec.commitQuorum S H v h

/-- **`Spec.Justified` = the local rules + the certificate part.**  If node `n`'s statements in `H`
are those of `T`, a statement that obeys the local rules w.r.t. `T` and whose certificate part holds
in `H` is `Justified` in `H`. -/
theorem justified_of_local (S : Spec.Setting) (n : Nat) (H : List Spec.Ev) (T : List LEv) (e : LEv)
    (hs : Sees n H T) (hl : LocalJ T e) (hc : Cert S H e) : Spec.Justified S H (lift n e) := by
  cases e with
  | acc v h f =>
    refine ⟨?_, ?_, ?_⟩
    · intro h' hm; obtain ⟨f', hf'⟩ := (hs.acc v h').mp hm; exact hl.1 h' f' hf'
    · intro v' pf hm; obtain ⟨s, hs'⟩ := hs.vote v' pf hm; exact hl.2.1 v' pf s hs'
    · intro hpos
      rcases hl.2.2 hpos with hf | hb
      · exact Or.inl (hc hpos hf)
      · right
        intro v0 h0 hm
        obtain ⟨b1, b2⟩ := hb v0 h0 ((hs.com v0 h0).mp hm)
        exact ⟨b1, fun hmax => b2 (fun v1 h1 hm1 => hmax v1 h1 ((hs.com v1 h1).mpr hm1))⟩
  | com v h =>
    refine ⟨?_, hc, ?_, ?_⟩
    · exact (hs.acc v h).mpr hl.1
    · intro v' pf hm; obtain ⟨s, hs'⟩ := hs.vote v' pf hm; exact hl.2.1 v' pf s hs'
    · intro v' h' hm; obtain ⟨f, hf⟩ := (hs.acc v' h').mp hm; exact hl.2.2 v' h' f hf
  | lcom v h => exact hc
  | vote v pf s =>
    intro v0 h0 hm hlt
    exact hl v0 h0 ((hs.com v0 h0).mp hm) hlt
  | dec h => exact hc

/-! ## non-vacuity: a concrete execution in which the rules are exercised

member 3 of a 4-member committee accepts the proposal of view 0, becomes prepared when member 2's
PREPARE arrives (quorum with the proposer and itself), and on timeout votes for view 1 with the
proof of view 0 — the hypotheses of `local_rules_hold` are met and the statements are not empty -/
def exCfg : Cfg := ⟨3, 7, 5, [⟨1, 1⟩, ⟨2, 1⟩, ⟨3, 1⟩, ⟨4, 1⟩]⟩
def exPP : PPMsg := ⟨⟨⟨tPP, 7, 5, 0, 99⟩, ⟨1, true⟩⟩, some ⟨9, 5, 99⟩⟩
def exEvents : List (Event × List Spi) :=
  [(.deliver (.preprepare exPP), [.verdict true none]),
   (.deliver (.prepare ⟨⟨tP, 7, 5, 0, 99⟩, ⟨2, true⟩⟩), []),
   (.election 5 0, [])]

example : C06.Fits exCfg.members := ⟨by decide, by decide⟩
example : ∀ x ∈ exEvents, EventOK exCfg x.1 := by
  intro x hx
  simp only [exEvents, List.mem_cons, List.not_mem_nil, or_false] at hx
  rcases hx with rfl | rfl | rfl
  · exact ⟨rfl, by decide⟩
  · exact rfl
  · trivial
example : (exEvents.foldl Exec.next (Exec.next (({ cfg := exCfg } : Node), []) (.start true, []))).2.filterMap stmtOf
    = [.acc 0 99, .cmt 0 99, .vote 1 (some (0, 99))] := by decide

end LeanHelix.C01Local
