import LeanHelix.Props.C01Net
/-!
# C03 at the network level: what a correct node commits, every correct node's strict validation accepts

`Props/C03.lean` proves, about one node, that the block proof generated at a commit passes the model
of strict `ValidateBlockConsensus` *given* the log invariant `CommitsOK` and that logged COMMITs are of
this instance.  In the network model both are invariants of every reachable state (`Net.Univ`), and the
hash half of the consumer contract A2 is propagated from the approvals (`Net.BlocksOK`).  Hence, for
every execution of the network model under A2 and every commit callback of a correct member:

* `net_committed_proof_validates` — the block proof generated from the COMMITs handed to the callback
  is accepted, together with the committed block, by strict validation with this instance id and
  committee (the same for every correct member: the validator reads nothing else), provided the block
  carries this term's height (`hheight`: the other half of A2 — the consumer proposes / approves only
  blocks of the height asked for; the term model does not read a block's height field).

Not covered here: the aggregated random-seed signature (assumption A4 of `Props/C03.lean`: the
aggregate of verified shares verifies), which the term model does not compute.
-/
namespace LeanHelix.C03Net
open LeanHelix LeanHelix.Msg LeanHelix.Term LeanHelix.Spec LeanHelix.Net

variable {C : NetCfg}

theorem net_committed_proof_validates (hwf : WF C) {net : Net} (hr : Reach C net) (hA2 : TraceA2 net.trace)
    {i : Nat} (hi : C.honest i = true) (hmi : ∃ m ∈ C.ms, m.id = i)
    (blk : Block) (cs : List CMsg) (hcommit : Out.commit blk cs ∈ net.outs i) (hheight : blk.height = C.height) :
    ∃ p, BlockProof.generate cs true = some p ∧
      BlockProof.validate ⟨false, some blk, some p, C.inst, C.ms, false⟩ = .ok :=
  (reach_blocks hwf hr hA2 i hi hmi).2.2.2.1 blk cs hcommit hheight

/-- non-vacuity: in the 13-step execution of `C01Net`, member 2's commit callback got a certificate
that validates -/
example : ∃ net, Reach C01Net.exC net ∧ ∃ cs p, Out.commit C01Net.exBlock cs ∈ net.outs 2
    ∧ BlockProof.generate cs true = some p
    ∧ BlockProof.validate ⟨false, some C01Net.exBlock, some p, C01Net.exC.inst, C01Net.exC.ms, false⟩ = .ok := by
  obtain ⟨net', hr', ⟨_, _, ho⟩, ht'⟩ := sim_reach C01Net.exWF C01Net.exSched (SimState.init C01Net.exC) (Net.init C01Net.exC) .init (agrees_init C01Net.exC) C01Net.exOk
  have hA2 : TraceA2 net'.trace := by rw [ht']; exact (List.append_nil _).symm ▸ C01Net.ex_traceA2
  have hc : Out.commit C01Net.exBlock [C01Net.exCm 2, C01Net.exCm 3, C01Net.exCm 1] ∈ net'.outs 2 := by
    rw [ho]; exact C01Net.mem_commitsOf (by decide)
  obtain ⟨p, hp, hv⟩ := net_committed_proof_validates C01Net.exWF hr' hA2 (i := 2) rfl ⟨⟨2, 1⟩, by decide, rfl⟩ _ _ hc rfl
  exact ⟨net', hr', _, p, hc, hp, hv⟩

end LeanHelix.C03Net
