import LeanHelix.Props.C11
import LeanHelix.Props.C07
import LeanHelix.Props.C10
/-!
# C11 (NEW_VIEW part) — a correct leader's NEW_VIEW is a valid certificate for every correct peer, and a
valid certificate is adopted

* `elected_newview_exact`: the NEW_VIEW the election path sends, field by field.
* `elected_newview_is_valid_certificate`: if the votes the leader counted are for (height, view),
  pairwise distinct, of quorum weight, each passed `isViewChangeValid` (with a block exactly when
  it has a proof, the block matching the proven hash — the conditions `handleViewChange` enforces
  before storing), then for every peer with the same configuration whose view is not higher the
  NEW_VIEW satisfies `C07.ValidCertificate`: **nothing the leader accepted can make correct
  followers reject its NEW_VIEW**.
* `valid_newview_is_adopted`: a follower that receives a valid certificate for a view it has no
  proposal for, whose re-proposed / freshly validated block passes, moves to that view and sends PREPARE.
-/
namespace LeanHelix.C11
open LeanHelix LeanHelix.Msg LeanHelix.Term

/-- the exact NEW_VIEW of `onElectedByViewChange` -/
def NewViewExact (c : Cfg) (view : Nat) (vcs : List VCMsg) (o : Out) : Prop :=
  ∀ rs nv, o = .send rs (.newView nv) →
    ∃ b hash, nv = ⟨⟨tNV, c.inst, c.height, view, vcs.map (·.c)⟩, mySig c, ⟨mkRef c tPP view hash, mySig c⟩, some b⟩
      ∧ (match latestBlockFromVCs vcs with
         | some (b', h') => b = b' ∧ hash = h'
         | none => hash = b.hash)

theorem newViewExact_benign (c : Cfg) (view : Nat) (vcs : List VCMsg) : Benign (NewViewExact c view vcs) :=
  ⟨fun _ _ _ _ h => (by cases h), fun _ _ _ h => (by cases h), fun _ _ _ _ _ h => (by cases h), fun _ _ _ h => (by cases h)⟩

theorem elected_newview_exact (w : Term.W) (view : Nat) (vcs : List VCMsg) :
    Appends (NewViewExact w.n.cfg view vcs) w (onElectedByViewChange w view vcs) := by
  have hB := newViewExact_benign w.n.cfg view vcs
  unfold onElectedByViewChange
  dsimp only
  have h0 := initView_appends' hB { w with n := { w.n with latestNV := view } } view
  have c0 := (initView_n { w with n := { w.n with latestNV := view } } view).1
  generalize initView { w with n := { w.n with latestNV := view } } view = r at h0 c0 ⊢
  obtain ⟨w1, ok⟩ := r
  have h0' : Appends (NewViewExact w.n.cfg view vcs) w w1 := h0
  have c1 : w1.n.cfg = w.n.cfg := c0
  dsimp only
  split
  · exact h0'
  · split
    · rename_i b hash hl
      refine Appends.emit_trans _ (Appends.setN _ h0') ?_
      intro rs nv hnv
      simp only [Out.send.injEq, Message.newView.injEq] at hnv
      obtain ⟨_, rfl⟩ := hnv
      refine ⟨b, hash, ?_, ?_⟩
      · show _ = _
        simp only [c1]
      · rw [hl]; exact ⟨rfl, rfl⟩
    · rename_i hl
      have h1 := Appends.trans h0' (askProposal_appends' hB w1 w1.n.cfg.height view)
      have c2 := (askProposal_n w1 w1.n.cfg.height view).1
      generalize askProposal w1 w1.n.cfg.height view = r2 at h1 c2 ⊢
      obtain ⟨w2, ob⟩ := r2
      dsimp only at h1 c2 ⊢
      have c2' : w2.n.cfg = w.n.cfg := c2.trans c1
      split
      · rename_i b
        refine Appends.emit_trans _ (Appends.setN _ h1) ?_
        intro rs nv hnv
        simp only [Out.send.injEq, Message.newView.injEq] at hnv
        obtain ⟨_, rfl⟩ := hnv
        refine ⟨b, b.hash, ?_, ?_⟩
        · show _ = _
          simp only [c2', c1]
        · rw [hl]
      · exact h1

/-! `maxBy` commutes with `map` -/
theorem maxBy_map {α β} (f : α → β) (key : β → Nat) (l : List α) :
    maxBy key (l.map f) = (maxBy (fun a => key (f a)) l).map f := by
  induction l with
  | nil => rfl
  | cons a as ih =>
    simp only [List.map_cons, maxBy, ih]
    cases maxBy (fun a => key (f a)) as with
    | none => rfl
    | some y =>
      simp only [Option.map_some]
      split <;> rfl

/-- what `handleViewChange` enforces on the block of a vote before storing it -/
def BlockMatches (m : VCMsg) : Prop :=
  (m.block.isSome = m.c.header.proof.isSome) ∧ (m.block.isSome = true → commitmentOk m.block (proofHash m.c.header.proof) = true)

theorem latestVote_of_vcs (vcs : List VCMsg) (hb : ∀ m ∈ vcs, m.block.isSome = m.c.header.proof.isSome) :
    latestVote (vcs.map (·.c)) =
      (maxBy (fun (m : VCMsg) => proofView m.c.header.proof) (vcs.filter (fun m => m.block.isSome))).map (·.c) := by
  unfold latestVote
  have : (vcs.map (·.c)).filter (fun v => v.header.proof.isSome) = (vcs.filter (fun m => m.block.isSome)).map (·.c) := by
    rw [List.filter_map]
    congr 1
    apply List.filter_congr
    intro m hm
    simp only [Function.comp]
    exact (hb m hm).symm
  rw [this, maxBy_map]

/-- **A correct leader's NEW_VIEW is a valid certificate for every correct peer with the same
configuration whose view is not higher.** -/
theorem elected_newview_is_valid_certificate (c : Cfg) (view : Nat) (vcs : List VCMsg) (peer : Node)
    (o : Out) (hex : NewViewExact c view vcs o) (rs : List Nat) (nv : NVMsg) (ho : o = .send rs (.newView nv))
    (hcfg : peer.cfg = c)
    (hview : ¬ peer.view > view)
    (hlead : isLeader c c.me view = true)
    (hq : isQuorum c (vcs.map (·.c.sender.id)) = true)
    (hvalid : ∀ m ∈ vcs, m.c.header.height = c.height ∧ m.c.header.view = view ∧ isViewChangeValid peer m.c = true)
    (hnd : (vcs.map (·.c.sender.id)).Nodup)
    (hblk : ∀ m ∈ vcs, BlockMatches m) :
    C07.ValidCertificate peer nv := by
  obtain ⟨b, hash, rfl, hsel⟩ := hex rs nv ho
  have hids : (vcs.map (·.c)).map (·.sender.id) = vcs.map (·.c.sender.id) := by
    rw [List.map_map]; rfl
  refine ⟨rfl, hview, rfl, by rw [hcfg]; exact hlead, by rw [hcfg]; show isQuorum c ((vcs.map (·.c)).map (·.sender.id)) = true; rw [hids]; exact hq,
    ?_, by show ((vcs.map (·.c)).map (·.sender.id)).Nodup; rw [hids]; exact hnd, rfl, rfl, by rw [hcfg]; rfl, ?_⟩
  · intro vc hvc
    obtain ⟨m, hm, rfl⟩ := List.mem_map.mp hvc
    exact hvalid m hm
  · intro lv hlv
    have hlv' : latestVote (vcs.map (·.c)) = some lv := hlv
    rw [latestVote_of_vcs vcs (fun m hm => (hblk m hm).1)] at hlv'
    cases hmx : maxBy (fun (m : VCMsg) => proofView m.c.header.proof) (vcs.filter (fun m => m.block.isSome)) with
    | none => rw [hmx] at hlv'; cases hlv'
    | some m =>
      rw [hmx] at hlv'
      simp only [Option.map_some, Option.some.injEq] at hlv'
      subst hlv'
      have hmem := ((C07.maxBy_spec _ _).2 m hmx).1
      rw [List.mem_filter] at hmem
      obtain ⟨hmv, hmb⟩ := hmem
      have hbm := hblk m hmv
      -- the vote's proof is valid: its PREPARE reference and PREPREPARE reference carry the same hash
      have hvv := (hvalid m hmv).2.2
      obtain ⟨_, _, _, _, _, hvp⟩ := C08.isViewChangeValid_imp peer m.c hvv
      cases hbk : m.block with
      | none => rw [hbk] at hmb; cases hmb
      | some b' =>
        have hsome : m.c.header.proof.isSome = true := by rw [← hbm.1, hbk]; rfl
        cases hpf : m.c.header.proof with
        | none => rw [hpf] at hsome; cases hsome
        | some p =>
          have heq : p.pRef.hash = p.ppRef.hash := by
            rw [hpf] at hvp
            unfold validatePreparedProof at hvp
            simp only [Bool.and_eq_true, beq_iff_eq] at hvp
            exact hvp.1.1.1.1.2
          have hl : latestBlockFromVCs vcs = some (b', p.pRef.hash) := by
            unfold latestBlockFromVCs
            rw [hmx]
            simp only [hbk, hpf]
          rw [hl] at hsel
          obtain ⟨rfl, rfl⟩ := hsel
          have hcm := hbm.2 (by rw [hbk]; rfl)
          rw [hbk, hpf] at hcm
          refine ⟨?_, ?_⟩
          · show commitmentOk (some b) (proofHash (some p)) = true
            exact hcm
          · show p.pRef.hash = proofHash (some p)
            exact heq

/-! ## follower side -/

theorem lockOk_of_valid (n : Node) (nvm : NVMsg) (hv : C07.ValidCertificate n nvm) : lockOk n nvm = true := by
  obtain ⟨_, _, _, _, _, vv, _, _, _, _, hl⟩ := hv
  unfold lockOk
  cases hlv : latestVote nvm.header.votes with
  | none => rfl
  | some lv =>
    obtain ⟨hmem, _⟩ := (C07.latestVote_is_highest nvm.header.votes).2 lv hlv
    obtain ⟨c1, c2⟩ := hl lv hlv
    simp only [(vv lv hmem).2.2, c1, c2, beq_self_eq_true, Bool.and_self]

/-- **A valid certificate is adopted.**  A follower (any state) that receives a NEW_VIEW which is a
valid certificate for it, whose embedded proposal is authentic for it (PREPREPARE-typed, signed by
the leader of the view, no proposal stored for that view yet) and — when no vote carries a proof —
whose fresh block the consumer accepts under a live context, moves to the NEW_VIEW's view and sends
its PREPARE for the embedded proposal to all other members. -/
theorem valid_newview_is_adopted (w : Term.W) (nvm : NVMsg)
    (hv : C07.ValidCertificate w.n nvm)
    (hpp : C08.PreprepareAuthentic w.n ⟨nvm.pp, nvm.block⟩)
    (hfresh : (latestVote nvm.header.votes).isNone = true →
        (askValidate w nvm.header.height nvm.header.view nvm.block nvm.pp.header.hash).2 = true) :
    (handleNewView w nvm).n.view = nvm.header.view
    ∧ Out.send (others w.n.cfg) (.prepare (ownPrepare w.n.cfg nvm.header.height nvm.header.view nvm.pp.header.hash))
        ∈ (handleNewView w nvm).outs := by
  have hlock := lockOk_of_valid w.n nvm hv
  obtain ⟨a1, a2, a3, a4, a5, a6, a7, a8, a9, a10, _⟩ := hv
  have hvotes : validateVotes w.n nvm.header.height nvm.header.view nvm.header.votes = true :=
    (C07.validateVotes_iff _ _ _ _).mpr ⟨a5, a6, a7⟩
  unfold handleNewView
  dsimp only
  rw [if_neg (by simp [a1]), if_neg a2, if_neg (by simp [a3]), if_neg (by simp [a4]), if_neg (by simp [hvotes]),
    if_neg (by simp [a8]), if_neg (by simp [a9]), if_neg (by simp [a10]), if_neg (by simp [hlock])]
  -- adoptNewView
  unfold adoptNewView
  dsimp only
  -- the state after the (possible) consumer validation: same log, view and configuration
  have key : ∀ (w1 : Term.W), w1.n.cfg = w.n.cfg → w1.n.store = w.n.store → w1.n.view = w.n.view →
      (let r := (if validatePreprepare w1.n ⟨nvm.pp, nvm.block⟩ = false then w1 else
          if (initView { w1 with n := { w1.n with latestNV := nvm.header.view } } nvm.header.view).2 = false
          then (initView { w1 with n := { w1.n with latestNV := nvm.header.view } } nvm.header.view).1
          else processPreprepare (initView { w1 with n := { w1.n with latestNV := nvm.header.view } } nvm.header.view).1 ⟨nvm.pp, nvm.block⟩)
       r.n.view = nvm.header.view
       ∧ Out.send (others w.n.cfg) (.prepare (ownPrepare w.n.cfg nvm.header.height nvm.header.view nvm.pp.header.hash)) ∈ r.outs) := by
    intro w1 c1 c2 c3
    have hvp : validatePreprepare w1.n ⟨nvm.pp, nvm.block⟩ = true := by
      apply (C08.validatePreprepare_iff _ _).mpr
      obtain ⟨p1, p2, p3, p4⟩ := hpp
      exact ⟨p1, p2, by rw [c1]; exact p3, by rw [c2]; exact p4⟩
    simp only [hvp, Bool.true_eq_false, if_false]
    have hle : ¬ w1.n.view > nvm.header.view := by rw [c3]; exact a2
    have hiv : initView { w1 with n := { w1.n with latestNV := nvm.header.view } } nvm.header.view
        = (({ w1 with n := { w1.n with latestNV := nvm.header.view, view := nvm.header.view } } : Term.W).emit (.registerElection w1.n.cfg.height nvm.header.view), true) := by
      unfold initView
      rw [if_neg hle]
    rw [hiv]
    simp only [Bool.true_eq_false, if_false]
    have hview : (({ w1 with n := { w1.n with latestNV := nvm.header.view, view := nvm.header.view } } : Term.W).emit (.registerElection w1.n.cfg.height nvm.header.view)).n.view
        = (⟨nvm.pp, nvm.block⟩ : PPMsg).c.header.view := a8.symm
    rw [C10.processPreprepare_unfold _ _ hview]
    refine ⟨?_, ?_⟩
    · rw [(C10.checkPreparedLocally_view _ _ _ _).1]; rfl
    · obtain ⟨l, el, _⟩ := checkPreparedLocally_appends (C10.adoptState (({ w1 with n := { w1.n with latestNV := nvm.header.view, view := nvm.header.view } } : Term.W).emit (.registerElection w1.n.cfg.height nvm.header.view)) ⟨nvm.pp, nvm.block⟩) nvm.pp.header.height nvm.pp.header.view nvm.pp.header.hash
      rw [el]
      apply List.mem_append_left
      unfold C10.adoptState
      simp only [W.emit, List.mem_append, List.mem_singleton]
      right
      show _ = _
      simp only [c1, a8, a9]
  cases hlv : latestVote nvm.header.votes with
  | some lv =>
    simp only [Option.isNone_some, Bool.false_eq_true, if_false, Bool.not_true]
    have := key w rfl rfl rfl
    simpa using this
  | none =>
    simp only [Option.isNone_none, if_true]
    have hok := hfresh (by rw [hlv]; rfl)
    obtain ⟨c1, c2, c3, _⟩ := askValidate_n w nvm.header.height nvm.header.view nvm.block nvm.pp.header.hash
    generalize askValidate w nvm.header.height nvm.header.view nvm.block nvm.pp.header.hash = r at hok c1 c2 c3 ⊢
    obtain ⟨w1, ok⟩ := r
    simp only at hok
    subst hok
    have := key w1 c1 c2 c3
    simpa using this

/-! ## the log of votes stays clean, so the leader's NEW_VIEW is always a valid certificate -/

def vkey (m : VCMsg) : Nat × Nat × Nat := (m.c.header.height, m.c.header.view, m.c.sender.id)

/-- what `handleViewChange` checked before it stored a received vote -/
def VoteChecked (n : Node) (m : VCMsg) : Prop :=
  isViewChangeValid n m.c = true
  ∧ ¬ (m.block.isNone = true ∧ m.c.header.proof.isSome = true)
  ∧ (m.block.isSome = true → commitmentOk m.block (proofHash m.c.header.proof) = true)

structure VCsOK (n : Node) : Prop where
  auth : ∀ m ∈ n.store.vcs, VoteChecked n m ∨ m.c.sender = mySig n.cfg
  keys : (n.store.vcs.map vkey).Nodup

theorem vcsOK_init (c : Cfg) : VCsOK { cfg := c } := ⟨(by intro m h; cases h), List.nodup_nil⟩

private theorem storeVC_vcs (s : Store) (m : VCMsg) :
    (s.storeVC m).vcs = s.vcs ∨ ((s.storeVC m).vcs = s.vcs ++ [m] ∧ vkey m ∉ s.vcs.map vkey) := by
  unfold Store.storeVC
  split
  · exact Or.inl rfl
  · rename_i h
    right
    refine ⟨rfl, ?_⟩
    intro hm
    apply h
    obtain ⟨x, hx, hk⟩ := List.mem_map.mp hm
    simp only [vkey, Prod.mk.injEq] at hk
    rw [List.any_eq_true]
    exact ⟨x, hx, by simp [hk.1, hk.2.1, hk.2.2]⟩

private theorem apply_vcs_other (s : Store) (op : StoreOp) (h : ∀ m, op ≠ .vc m) : (s.apply op).vcs = s.vcs := by
  cases op with
  | vc m => exact absurd rfl (h m)
  | pp m =>
    show (s.storePP m).vcs = s.vcs
    unfold Store.storePP; split <;> rfl
  | commit m =>
    show (s.storeCommit m).vcs = s.vcs
    unfold Store.storeCommit; split <;> rfl
  | prepare m =>
    show (s.storePrepare m).vcs = s.vcs
    unfold Store.storePrepare; split <;> rfl

theorem isViewChangeValid_cfg (a b : Node) (h : a.cfg = b.cfg) (vc : VCContent) :
    isViewChangeValid a vc = isViewChangeValid b vc := by
  unfold isViewChangeValid; rw [h]

theorem vcsOK_evolves {a b : Node} (h : Evolves J a b) (ha : VCsOK a) : VCsOK b := by
  have gen : ∀ {a b : Node}, Evolves J a b → VCsOK a → VCsOK b ∧ b.cfg = a.cfg := by
    intro a b h
    induction h with
    | refl n => intro ha; exact ⟨ha, rfl⟩
    | other h =>
      rename_i n n'
      intro ha
      refine ⟨⟨?_, by rw [h.2]; exact ha.keys⟩, h.1⟩
      intro m hm
      rw [h.2] at hm
      rcases ha.auth m hm with c | c
      · left; unfold VoteChecked at c ⊢; rw [isViewChangeValid_cfg n' n h.1]; exact c
      · right; rw [h.1]; exact c
    | insert op hP =>
      rename_i n
      intro ha
      refine ⟨?_, rfl⟩
      cases op with
      | vc m =>
        have hauth : VoteChecked n m ∨ m.c.sender = mySig n.cfg := by
          rcases hP with ⟨_, _, v, b1, b2⟩ | ⟨o, _⟩
          · exact Or.inl ⟨v, b1, b2⟩
          · exact Or.inr o
        have hcfgv : ∀ x, VoteChecked ({ n with store := n.store.apply (.vc m) } : Node) x ↔ VoteChecked n x := fun _ => Iff.rfl
        rcases storeVC_vcs n.store m with e | ⟨e, hk⟩
        · exact ⟨by show ∀ x ∈ (n.store.storeVC m).vcs, _; rw [e]; exact ha.auth,
                 by show ((n.store.storeVC m).vcs.map vkey).Nodup; rw [e]; exact ha.keys⟩
        · refine ⟨?_, ?_⟩
          · show ∀ x ∈ (n.store.storeVC m).vcs, _
            rw [e]; intro x hx; simp at hx
            rcases hx with hx | rfl
            · exact ha.auth x hx
            · exact hauth
          · show ((n.store.storeVC m).vcs.map vkey).Nodup
            rw [e, List.map_append, List.nodup_append]
            refine ⟨ha.keys, by simp, ?_⟩
            intro x hx y hy; simp at hy; subst hy
            intro exy; subst exy; exact hk hx
      | pp m =>
        have e : ({ n with store := n.store.apply (.pp m) } : Node).store.vcs = n.store.vcs :=
          apply_vcs_other _ _ (by intro c hc; cases hc)
        exact ⟨by rw [e]; exact ha.auth, by rw [e]; exact ha.keys⟩
      | commit m =>
        have e : ({ n with store := n.store.apply (.commit m) } : Node).store.vcs = n.store.vcs :=
          apply_vcs_other _ _ (by intro c hc; cases hc)
        exact ⟨by rw [e]; exact ha.auth, by rw [e]; exact ha.keys⟩
      | prepare m =>
        have e : ({ n with store := n.store.apply (.prepare m) } : Node).store.vcs = n.store.vcs :=
          apply_vcs_other _ _ (by intro c hc; cases hc)
        exact ⟨by rw [e]; exact ha.auth, by rw [e]; exact ha.keys⟩
    | trans _ _ ih1 ih2 =>
      intro ha
      obtain ⟨hb, eb⟩ := ih1 ha
      obtain ⟨hc, ec⟩ := ih2 hb
      exact ⟨hc, by rw [ec, eb]⟩
  exact (gen h ha).1

/-- **the invariant holds after every event, whatever was received** -/
theorem vcs_ok_step (n : Node) (e : Event) (spi : List Spi)
    (hstart : ∀ c, e = .start c → n.view = 0) (h : VCsOK n) : VCsOK (step n e spi).1 :=
  vcsOK_evolves (step_ev n e spi hstart) h

private theorem getVCs_ids_nodup (s : Store) (h v : Nat) (hk : (s.vcs.map vkey).Nodup) :
    ((s.getVCs h v).map (·.c.sender.id)).Nodup := by
  unfold Store.getVCs
  generalize s.vcs = l at hk
  induction l with
  | nil => simp
  | cons x xs ih =>
    simp only [List.map_cons, List.nodup_cons] at hk
    by_cases hx : (x.c.header.height == h && x.c.header.view == v) = true
    · simp only [List.filter_cons, hx, if_true, List.map_cons, List.nodup_cons]
      refine ⟨?_, ih hk.2⟩
      intro hm
      obtain ⟨y, hy, hid⟩ := List.mem_map.mp hm
      rw [List.mem_filter] at hy
      apply hk.1
      apply List.mem_map.mpr
      refine ⟨y, hy.1, ?_⟩
      simp only [Bool.and_eq_true, beq_iff_eq] at hx
      have hy2 := hy.2
      simp only [Bool.and_eq_true, beq_iff_eq] at hy2
      simp only [vkey, Prod.mk.injEq]
      exact ⟨by rw [hy2.1, hx.1], by rw [hy2.2, hx.2], hid⟩
    · simp only [List.filter_cons, hx]
      exact ih hk.2

/-- **End to end.**  Whenever the election path fires (`checkElected`: quorum of stored votes for
(height, view), the node leads that view), every NEW_VIEW it sends is a valid certificate for every
peer with the same configuration whose view is not higher — provided the log invariant `VCsOK` holds
(it does in every reachable state, `vcs_ok_step`), the leader's own stored vote is valid
(`own_vote_is_valid_for_peers`) and no stored vote's block has the empty hash. -/
theorem checkElected_newview_valid (w : Term.W) (view : Nat) (peer : Node)
    (hcfg : peer.cfg = w.n.cfg) (hview : ¬ peer.view > view)
    (hlead : isLeader w.n.cfg w.n.cfg.me view = true)
    (hok : VCsOK w.n)
    (hown : ∀ m ∈ w.n.store.getVCs w.n.cfg.height view, m.c.sender = mySig w.n.cfg → VoteChecked w.n m)
    (hne : ∀ m ∈ w.n.store.getVCs w.n.cfg.height view, ∀ b, m.block = some b → b.hash ≠ emptyBytes) :
    ∃ l, (checkElected w w.n.cfg.height view).outs = w.outs ++ l ∧
      ∀ o ∈ l, ∀ rs nv, o = .send rs (.newView nv) → C07.ValidCertificate peer nv := by
  unfold checkElected
  split
  · exact ⟨[], by simp, by simp⟩
  dsimp only
  split
  · exact ⟨[], by simp, by simp⟩
  split
  · exact ⟨[], by simp, by simp⟩
  rename_i _ _ hq
  obtain ⟨l, el, pl⟩ := elected_newview_exact w view (w.n.store.getVCs w.n.cfg.height view)
  refine ⟨l, el, ?_⟩
  intro o ho rs nv hnv
  have hq' : isQuorum w.n.cfg ((w.n.store.getVCs w.n.cfg.height view).map (·.c.sender.id)) = true := by
    simpa using hq
  have hchk : ∀ m ∈ w.n.store.getVCs w.n.cfg.height view, VoteChecked w.n m := by
    intro m hm
    have hm' : m ∈ w.n.store.vcs := by unfold Store.getVCs at hm; exact (List.mem_filter.mp hm).1
    rcases hok.auth m hm' with c | c
    · exact c
    · exact hown m hm c
  refine elected_newview_is_valid_certificate w.n.cfg view _ peer o (pl o ho) rs nv hnv hcfg hview hlead hq' ?_
    (getVCs_ids_nodup _ _ _ hok.keys) ?_
  · intro m hm
    have hf := hm
    unfold Store.getVCs at hf
    have h2 := (List.mem_filter.mp hf).2
    simp only [Bool.and_eq_true, beq_iff_eq] at h2
    refine ⟨h2.1, h2.2, ?_⟩
    rw [isViewChangeValid_cfg peer w.n hcfg]
    exact (hchk m hm).1
  · intro m hm
    obtain ⟨_, b1, b2⟩ := hchk m hm
    refine ⟨?_, ?_⟩
    · cases hb : m.block with
      | none =>
        cases hp : m.c.header.proof with
        | none => rfl
        | some p => exact absurd ⟨by rw [hb]; rfl, by rw [hp]; rfl⟩ b1
      | some b =>
        cases hp : m.c.header.proof with
        | some p => rfl
        | none =>
          have := b2 (by rw [hb]; rfl)
          rw [hb, hp] at this
          simp only [commitmentOk, proofHash, beq_iff_eq] at this
          exact absurd this (hne m hm b hb)
    · exact b2

end LeanHelix.C11
