import LeanHelix.Props.C01Net
/-!
# C07 at the network level: what a correct member acts upon in a view above 0

`Props/C07.lean` shows, per handler call, that a NEW_VIEW which is not a valid certificate is ignored and
that only a proposal can make a node send PREPARE.  Over every execution of the network model the same is a
fact about the ghost history (`reach_inv`): whenever a correct member accepted hash `h` in a view `v > 0`
(sent PREPARE, or proposed as leader), then at that moment

* either a NEW_VIEW certificate for (v, h) was visible — a quorum of votes for `v` whose correct voters
  really cast them, every proof among them a prepared certificate of an earlier view, and `h` the hash of
  a highest proof (or no vote carrying a proof) — `Spec.newViewJust`;
* or (the stand-alone PREPREPARE the code also follows: known finding D5, with the repaired lock check)
  the member's own latest prepared hash, if it has one, is `h`.

`net_acceptance_above_view0`.
-/
namespace LeanHelix.C07Net
open LeanHelix LeanHelix.Msg LeanHelix.Term LeanHelix.Spec LeanHelix.Net

variable {C : NetCfg}

theorem newViewJust_mono (S : Setting) {H H' : List Ev} (hsub : ∀ e ∈ H, e ∈ H') {v h : Nat}
    (hj : newViewJust S H v h) : newViewJust S H' v h := by
  obtain ⟨V, pf, hq, hvotes, hproofs, hsel⟩ := hj
  refine ⟨V, pf, hq, fun m hm hv hh => hsub _ (hvotes m hm hv hh), ?_, hsel⟩
  intro m hm hv pv hp hpf
  obtain ⟨a, b⟩ := hproofs m hm hv pv hp hpf
  exact ⟨a, validCert_mono S hsub b⟩

theorem net_acceptance_above_view0 (hwf : WF C) {net : Net} (hr : Reach C net) {i v h : Nat}
    (hacc : Ev.acc i v h ∈ net.H) (hv : 0 < v) :
    newViewJust (setting C hwf) net.H v h
    ∨ ∃ H0 : List Ev, (∀ x ∈ H0, x ∈ net.H) ∧
        ∀ v0 h0, Ev.com i v0 h0 ∈ H0 → v0 < v ∧ ((∀ v1 h1, Ev.com i v1 h1 ∈ H0 → v1 ≤ v0) → h0 = h) := by
  obtain ⟨H0, _, hj, hsub, _⟩ := Spec.justified_of_mem (setting C hwf) (reach_inv hwf hr).valid hacc
  rcases hj.2.2 hv with hnv | hlock
  · exact Or.inl (newViewJust_mono _ hsub hnv)
  · exact Or.inr ⟨H0, hsub, hlock⟩

end LeanHelix.C07Net
