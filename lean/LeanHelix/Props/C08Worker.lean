import LeanHelix.Model.Worker
import LeanHelix.Lemmas.TermClean
/-!
# C08 / C17 at worker level — what reaches a term's log is of this instance, of the term's height, and not from this node

`WInv` is an invariant of `Worker.step` over every event sequence, every nesting of commits and
round starts inside deliveries (fuel-indexed mutual recursion `newRound` / `drain`) and every SPI
answer:
* the installed term is this node's (`cfg.me`, `cfg.inst`) and its height is the node's height;
* every message in its log carries this instance id and that height (`Term.LogClean`);
* every cached message carries this instance id, is stored under its own height and is not from this node.
This discharges, for executions of the whole worker, the hypotheses "logged messages carry the
node's instance id / the term's height" that the Term-level theorems of C03 and C11 name.
-/
namespace LeanHelix.C08
open LeanHelix LeanHelix.Msg LeanHelix.Worker

def MsgOK (me inst h : Nat) (m : Message) : Prop := msgInst m = inst ∧ msgHeight m = h ∧ msgSender m ≠ me

/-- the worker invariant, for any invariant `TI` of the installed term -/
structure WInv (TI : Term.Node → Prop) (n : WNode) : Prop where
  term : ∀ t, n.term = some t → t.cfg.me = n.me ∧ t.cfg.inst = n.inst ∧ t.cfg.height = n.height ∧ TI t
  cache : ∀ p ∈ n.cache, ∀ m ∈ p.2, MsgOK n.me n.inst p.1 m

theorem winv_init (TI : Term.Node → Prop) (me inst : Nat) : WInv TI { me := me, inst := inst } :=
  ⟨(by intro t h; cases h), (by intro p h; cases h)⟩

theorem msgInst_eq (m : Message) : msgInst m = Term.msgInstT m := by cases m <;> rfl
theorem msgHeight_eq (m : Message) : msgHeight m = Term.msgHeightT m := by cases m <;> rfl

/-- the handler call of `handInTerm` as a Term-level step -/
def handle (tw : Term.W) : Message → Term.W
  | .preprepare x => Term.handlePrePrepare tw x
  | .prepare x => Term.handlePrepare tw x
  | .commit x => Term.handleCommit tw x
  | .viewChange x => Term.handleViewChange tw x
  | .newView x => Term.handleNewView tw x

theorem handle_clean (tw : Term.W) (m : Message) (hm : msgInst m = tw.n.cfg.inst ∧ msgHeight m = tw.n.cfg.height)
    (h : Term.LogClean tw.n) : Term.LogClean (handle tw m).n ∧ (handle tw m).n.cfg = tw.n.cfg := by
  have hev : Term.Evolves Term.Clean tw.n (handle tw m).n := by
    cases m with
    | preprepare x => exact Term.handlePrePrepare_evC tw x hm
    | prepare x => exact Term.handlePrepare_evC tw x hm
    | commit x => exact Term.handleCommit_evC tw x hm
    | viewChange x => exact Term.handleViewChange_evC tw x hm
    | newView x => exact Term.handleNewView_evC tw x hm.2
  exact ⟨Term.logClean_evolves hev h, hev.cfg⟩

theorem logClean_reg (t : Term.Node) (r : Contexts.Reg) (h : Term.LogClean t) : Term.LogClean { t with reg := r } :=
  ⟨h.pps, h.prepares, h.commits, h.vcs⟩

/-- what a predicate on term states must satisfy to be an invariant of every term the worker runs:
insensitive to the registry, preserved by the handling of any message the worker's filter lets
through (this instance, the term's height, not from this node), by the election step, and true
after `startTerm` of a fresh term of a committee (of at least four) that contains this node -/
structure TermInv (TI : Term.Node → Prop) : Prop where
  reg : ∀ (t : Term.Node) (r : Contexts.Reg), TI t → TI { t with reg := r }
  handle : ∀ (tw : Term.W) (m : Message), msgInst m = tw.n.cfg.inst → msgHeight m = tw.n.cfg.height →
    msgSender m ≠ tw.n.cfg.me → TI tw.n → TI (handle tw m).n
  election : ∀ (tw : Term.W) (h v : Nat), TI tw.n → TI (Term.election tw h v).n
  start : ∀ (cfg : Term.Cfg) (r : Contexts.Reg) (spi : List Term.Spi) (c : Bool),
    cfg.members.any (fun m => m.id == cfg.me) = true → ¬ cfg.members.length < 4 →
    TI (Term.startTerm { n := { ({ cfg := cfg } : Term.Node) with reg := r }, spi := spi } c).n

theorem handle_cfg (tw : Term.W) (m : Message) : (handle tw m).n.cfg = tw.n.cfg := by
  cases m with
  | preprepare x => exact (Term.handlePrePrepare_ev tw x).cfg
  | prepare x => exact (Term.handlePrepare_ev tw x).cfg
  | commit x => exact (Term.handleCommit_ev tw x).cfg
  | viewChange x => exact (Term.handleViewChange_ev tw x).cfg
  | newView x => exact (Term.handleNewView_ev tw x).cfg

/-- the clean-log invariant is one -/
theorem logClean_termInv : TermInv Term.LogClean where
  reg := fun t r h => logClean_reg t r h
  handle := fun tw m h1 h2 _ h => (handle_clean tw m ⟨h1, h2⟩ h).1
  election := fun tw h v hl => Term.logClean_evolves (Term.election_evC tw h v) hl
  start := fun cfg r spi c _ _ =>
    Term.logClean_evolves (Term.startTerm_evC _ c) (logClean_reg _ _ (Term.logClean_init cfg))

/-- two invariants together are one -/
theorem TermInv.and {A B : Term.Node → Prop} (ha : TermInv A) (hb : TermInv B) : TermInv (fun t => A t ∧ B t) where
  reg := fun t r h => ⟨ha.reg t r h.1, hb.reg t r h.2⟩
  handle := fun tw m h1 h2 h3 h => ⟨ha.handle tw m h1 h2 h3 h.1, hb.handle tw m h1 h2 h3 h.2⟩
  election := fun tw h v hh => ⟨ha.election tw h v hh.1, hb.election tw h v hh.2⟩
  start := fun cfg r spi c h1 h2 => ⟨ha.start cfg r spi c h1 h2, hb.start cfg r spi c h1 h2⟩

/-! ### the small steps of the worker leave identity, height and cache alone -/

theorem withTerm_n (w : WW) (t : Term.Node) (f : Term.W → Term.W) :
    (withTerm w t f).1.n.me = w.n.me ∧ (withTerm w t f).1.n.inst = w.n.inst ∧ (withTerm w t f).1.n.height = w.n.height
    ∧ (withTerm w t f).1.n.cache = w.n.cache ∧ (withTerm w t f).1.n.term = w.n.term
    ∧ (withTerm w t f).2 = (f { n := { t with reg := w.n.reg }, spi := (termSpis w.spi).1 }).n := ⟨rfl, rfl, rfl, rfl, rfl, rfl⟩

theorem handInTerm_spec (w : WW) (t : Term.Node) (m : Message) :
    (handInTerm w t m).1.n.me = w.n.me ∧ (handInTerm w t m).1.n.inst = w.n.inst ∧ (handInTerm w t m).1.n.height = w.n.height
    ∧ (handInTerm w t m).1.n.cache = w.n.cache
    ∧ (handInTerm w t m).1.n.term = some (handle { n := { t with reg := w.n.reg }, spi := (termSpis w.spi).1 } m).n := by
  refine ⟨rfl, rfl, rfl, rfl, ?_⟩
  unfold handInTerm
  dsimp only
  cases m <;> rfl

theorem disposeTerm_spec (w : WW) : (disposeTerm w).n.me = w.n.me ∧ (disposeTerm w).n.inst = w.n.inst
    ∧ (disposeTerm w).n.height = w.n.height ∧ (disposeTerm w).n.cache = w.n.cache ∧ (disposeTerm w).n.term = none := by
  unfold disposeTerm; dsimp only; split <;> exact ⟨rfl, rfl, rfl, rfl, rfl⟩

theorem askCommittee_spec (w : WW) (h : Nat) : (askCommittee w h).1.n.me = w.n.me ∧ (askCommittee w h).1.n.inst = w.n.inst
    ∧ (askCommittee w h).1.n.height = w.n.height ∧ (askCommittee w h).1.n.cache = w.n.cache
    ∧ (askCommittee w h).1.n.term = w.n.term := by
  unfold askCommittee; dsimp only; split
  · split <;> exact ⟨rfl, rfl, rfl, rfl, rfl⟩
  · exact ⟨rfl, rfl, rfl, rfl, rfl⟩

theorem createTerm_spec {TI : Term.Node → Prop} (hT : TermInv TI) (w : WW) (h : Nat) (ms : List Member) (c : Bool) (hnone : w.n.term = none) :
    (createTerm w h ms c).n.me = w.n.me ∧ (createTerm w h ms c).n.inst = w.n.inst
    ∧ (createTerm w h ms c).n.height = w.n.height ∧ (createTerm w h ms c).n.cache = w.n.cache
    ∧ (∀ t, (createTerm w h ms c).n.term = some t →
        t.cfg.me = w.n.me ∧ t.cfg.inst = w.n.inst ∧ t.cfg.height = h ∧ TI t) := by
  unfold createTerm
  split
  · rename_i hmem
    split
    · exact ⟨rfl, rfl, rfl, rfl, by intro t ht; rw [show (w.emit _).n.term = w.n.term from rfl, hnone] at ht; cases ht⟩
    · rename_i hlen
      dsimp only
      refine ⟨rfl, rfl, rfl, rfl, ?_⟩
      intro t ht
      simp only [Option.some.injEq] at ht
      subst ht
      have key : ∀ (tw : Term.W), tw.n.cfg = ⟨w.n.me, w.n.inst, h, ms⟩ → TI (Term.startTerm tw c).n →
          (Term.startTerm tw c).n.cfg.me = w.n.me ∧ (Term.startTerm tw c).n.cfg.inst = w.n.inst
          ∧ (Term.startTerm tw c).n.cfg.height = h ∧ TI (Term.startTerm tw c).n := by
        intro tw hcfg hl
        have hc := (Term.startTerm_evC tw c).cfg
        exact ⟨by rw [hc, hcfg], by rw [hc, hcfg], by rw [hc, hcfg], hl⟩
      exact key { n := { ({ cfg := ⟨w.n.me, w.n.inst, h, ms⟩ } : Term.Node) with reg := w.n.reg }, spi := (termSpis w.spi).1 } rfl
        (hT.start ⟨w.n.me, w.n.inst, h, ms⟩ w.n.reg (termSpis w.spi).1 c hmem hlen)
  · exact ⟨rfl, rfl, rfl, rfl, by intro t ht; rw [hnone] at ht; cases ht⟩

private theorem mem_clearEarlier {c : List (Nat × List Message)} {h : Nat} {p : Nat × List Message}
    (hp : p ∈ clearEarlier c h) : p ∈ c := by
  unfold clearEarlier at hp; exact (List.mem_filter.mp hp).1

private theorem mem_cacheErase {c : List (Nat × List Message)} {h : Nat} {p : Nat × List Message}
    (hp : p ∈ cacheErase c h) : p ∈ c := by
  unfold cacheErase at hp; exact (List.mem_filter.mp hp).1

private theorem mem_cacheGet {c : List (Nat × List Message)} {h : Nat} {m : Message} (hm : m ∈ cacheGet c h) :
    ∃ p ∈ c, p.1 = h ∧ m ∈ p.2 := by
  unfold cacheGet at hm
  cases hf : c.find? (fun p => p.1 == h) with
  | none => simp [hf] at hm
  | some p =>
    simp [hf] at hm
    have h1 := List.mem_of_find?_eq_some hf
    have h2 := List.find?_some hf
    simp at h2
    exact ⟨p, h1, h2, hm⟩

/-- after `installTerm` at a node whose height was just set to `h` -/
theorem installTerm_inv {TI : Term.Node → Prop} (hT : TermInv TI) (w : WW) (h : Nat) (c : Bool)
    (hcache : ∀ p ∈ w.n.cache, ∀ m ∈ p.2, MsgOK w.n.me w.n.inst p.1 m) (hh : w.n.height = h) :
    WInv TI (installTerm w h c).n ∧ (installTerm w h c).n.me = w.n.me ∧ (installTerm w h c).n.inst = w.n.inst
    ∧ (installTerm w h c).n.height = h := by
  unfold installTerm
  dsimp only
  obtain ⟨d1, d2, d3, d4, d5⟩ := disposeTerm_spec w
  obtain ⟨a1, a2, a3, a4, a5⟩ := askCommittee_spec (disposeTerm w) h
  have hnone : (askCommittee (disposeTerm w) h).1.n.term = none := by rw [a5]; exact d5
  obtain ⟨c1, c2, c3, c4, c5⟩ := createTerm_spec hT (askCommittee (disposeTerm w) h).1 h (askCommittee (disposeTerm w) h).2 c hnone
  generalize createTerm (askCommittee (disposeTerm w) h).1 h (askCommittee (disposeTerm w) h).2 c = w3 at c1 c2 c3 c4 c5
  have e1 : w3.n.me = w.n.me := by rw [c1, a1, d1]
  have e2 : w3.n.inst = w.n.inst := by rw [c2, a2, d2]
  have e3 : w3.n.height = h := by rw [c3, a3, d3, hh]
  have e4 : w3.n.cache = w.n.cache := by rw [c4, a4, d4]
  refine ⟨⟨?_, ?_⟩, e1, e2, e3⟩
  · intro t ht
    obtain ⟨t1, t2, t3, t4⟩ := c5 t ht
    exact ⟨(by show t.cfg.me = w3.n.me; rw [t1, c1]), (by show t.cfg.inst = w3.n.inst; rw [t2, c2]), (by show t.cfg.height = w3.n.height; rw [t3, e3]), t4⟩
  · intro p hp m hm
    have hp' : p ∈ w.n.cache := by
      have : p ∈ clearEarlier w3.n.cache h := hp
      rw [e4] at this
      exact mem_clearEarlier this
    have := hcache p hp' m hm
    show MsgOK w3.n.me w3.n.inst p.1 m
    rw [e1, e2]; exact this

/-! ### the re-entrant core -/

mutual
theorem newRound_inv {TI : Term.Node → Prop} (hT : TermInv TI) : ∀ (fuel : Nat) (w : WW) (prevH : Nat) (c : Bool), WInv TI w.n →
    WInv TI (newRound fuel w prevH c).n ∧ (newRound fuel w prevH c).n.me = w.n.me ∧ (newRound fuel w prevH c).n.inst = w.n.inst
  | 0, w, _, _, hi => by unfold newRound; exact ⟨hi, rfl, rfl⟩
  | fuel + 1, w, prevH, c, hi => by
    unfold newRound
    dsimp only
    split
    · split
      · exact ⟨⟨hi.term, hi.cache⟩, rfl, rfl⟩
      · obtain ⟨j1, j2, j3, j4⟩ := installTerm_inv hT
          ({ w with n := { ({ w with n := { w.n with reg := (Contexts.step w.n.reg (.for_ ⟨wrap64 (prevH + 1), 0⟩)).1 } } : WW).n with height := wrap64 (prevH + 1) } } : WW)
          (wrap64 (prevH + 1)) c hi.cache rfl
        generalize installTerm ({ w with n := { ({ w with n := { w.n with reg := (Contexts.step w.n.reg (.for_ ⟨wrap64 (prevH + 1), 0⟩)).1 } } : WW).n with height := wrap64 (prevH + 1) } } : WW) (wrap64 (prevH + 1)) c = w1 at j1 j2 j3 j4 ⊢
        have hmsgs : ∀ m ∈ cacheGet w1.n.cache (wrap64 (prevH + 1)), MsgOK w1.n.me w1.n.inst (wrap64 (prevH + 1)) m := by
          intro m hm
          obtain ⟨p, hp, hp1, hmp⟩ := mem_cacheGet hm
          have := j1.cache p hp m hmp
          rw [hp1] at this; exact this
        obtain ⟨d1, d2, d3⟩ := drain_inv hT fuel w1 (wrap64 (prevH + 1)) _ j1 hmsgs
        generalize drain fuel w1 (wrap64 (prevH + 1)) (cacheGet w1.n.cache (wrap64 (prevH + 1))) = w2 at d1 d2 d3 ⊢
        refine ⟨⟨d1.term, ?_⟩, by rw [d2, j2], by rw [d3, j3]⟩
        intro p hp m hm
        exact d1.cache p (mem_cacheErase hp) m hm
    · exact ⟨⟨hi.term, hi.cache⟩, rfl, rfl⟩
theorem drain_inv {TI : Term.Node → Prop} (hT : TermInv TI) : ∀ (fuel : Nat) (w : WW) (height : Nat) (ms : List Message), WInv TI w.n →
    (∀ m ∈ ms, MsgOK w.n.me w.n.inst height m) →
    WInv TI (drain fuel w height ms).n ∧ (drain fuel w height ms).n.me = w.n.me ∧ (drain fuel w height ms).n.inst = w.n.inst
  | 0, w, _, _, hi, _ => by unfold drain; exact ⟨hi, rfl, rfl⟩
  | _ + 1, w, _, [], hi, _ => by unfold drain; exact ⟨hi, rfl, rfl⟩
  | fuel + 1, w, height, m :: rest, hi, hm => by
    have hm0 := hm m (List.mem_cons_self ..)
    have hrest : ∀ x ∈ rest, MsgOK w.n.me w.n.inst height x := fun x hx => hm x (List.mem_cons_of_mem _ hx)
    unfold drain
    split
    · exact ⟨hi, rfl, rfl⟩
    · rename_i hne
      have hheight : w.n.height = height := by simpa using hne
      split
      · exact drain_inv hT fuel w height rest hi hrest
      · split
        · exact drain_inv hT fuel w height rest hi hrest
        · rename_i t ht
          dsimp only
          obtain ⟨t1, t2, t3, t4⟩ := hi.term t ht
          obtain ⟨s1, s2, s3, s4, s5⟩ := handInTerm_spec w t m
          -- the term after the handler: same configuration, clean log
          have hcfg := handle_cfg { n := { t with reg := w.n.reg }, spi := (termSpis w.spi).1 } m
          have hcl : TI (handle { n := { t with reg := w.n.reg }, spi := (termSpis w.spi).1 } m).n :=
            hT.handle { n := { t with reg := w.n.reg }, spi := (termSpis w.spi).1 } m
              (by show msgInst m = t.cfg.inst; rw [t2]; exact hm0.1)
              (by show msgHeight m = t.cfg.height; rw [t3, hheight]; exact hm0.2.1)
              (by show msgSender m ≠ t.cfg.me; rw [t1]; exact hm0.2.2)
              (hT.reg t _ t4)
          have hi1 : WInv TI (handInTerm w t m).1.n := by
            refine ⟨?_, ?_⟩
            · intro t' ht'
              rw [s5] at ht'
              simp only [Option.some.injEq] at ht'
              subst ht'
              rw [hcfg]
              exact ⟨by rw [s1]; exact t1, by rw [s2]; exact t2, by rw [s3]; exact t3, hcl⟩
            · intro p hp x hx
              rw [s4] at hp
              rw [s1, s2]; exact hi.cache p hp x hx
          generalize handInTerm w t m = r at s1 s2 s3 s4 hi1 ⊢
          obtain ⟨w1, oc⟩ := r
          dsimp only at s1 s2 s3 s4 hi1 ⊢
          have hrest1 : ∀ x ∈ rest, MsgOK w1.n.me w1.n.inst height x := by rw [s1, s2]; exact hrest
          cases oc with
          | none =>
            obtain ⟨d1, d2, d3⟩ := drain_inv hT fuel w1 height rest hi1 hrest1
            exact ⟨d1, by rw [d2, s1], by rw [d3, s2]⟩
          | some bc =>
            obtain ⟨b, cs⟩ := bc
            dsimp only
            have hemit : WInv TI (w1.emit (.commitCb b (proofOf cs).1 (proofOf cs).2)).n := hi1
            split
            · rename_i sp _
              obtain ⟨n1, n2, n3⟩ := newRound_inv hT fuel { (w1.emit (.commitCb b (proofOf cs).1 (proofOf cs).2)) with spi := sp } b.height true hemit
              generalize newRound fuel { (w1.emit (.commitCb b (proofOf cs).1 (proofOf cs).2)) with spi := sp } b.height true = w2 at n1 n2 n3 ⊢
              have e1 : w2.n.me = w.n.me := by rw [n2]; exact s1
              have e2 : w2.n.inst = w.n.inst := by rw [n3]; exact s2
              obtain ⟨d1, d2, d3⟩ := drain_inv hT fuel w2 height rest n1 (by rw [e1, e2]; exact hrest)
              exact ⟨d1, by rw [d2, e1], by rw [d3, e2]⟩
            · rename_i sp _
              obtain ⟨d1, d2, d3⟩ := drain_inv hT fuel { (w1.emit (.commitCb b (proofOf cs).1 (proofOf cs).2)) with spi := sp } height rest hemit hrest1
              exact ⟨d1, by rw [d2]; exact s1, by rw [d3]; exact s2⟩
            · obtain ⟨d1, d2, d3⟩ := drain_inv hT fuel (w1.emit (.commitCb b (proofOf cs).1 (proofOf cs).2)) height rest hemit hrest1
              exact ⟨d1, by rw [d2]; exact s1, by rw [d3]; exact s2⟩
end

/-! ### the four cases of `WorkerLoop.Run` -/

private theorem mem_cacheAppend {c : List (Nat × List Message)} {h : Nat} {m : Message} {p : Nat × List Message}
    (hp : p ∈ cacheAppend c h m) : (p ∈ c) ∨ (p.1 = h ∧ ∀ x ∈ p.2, x = m ∨ ∃ q ∈ c, q.1 = h ∧ x ∈ q.2) := by
  unfold cacheAppend at hp
  split at hp
  · obtain ⟨q, hq, rfl⟩ := List.mem_map.mp hp
    by_cases hk : (q.1 == h) = true
    · right
      simp only [hk, if_true]
      refine ⟨by simpa using hk, ?_⟩
      intro x hx
      simp only [List.mem_append, List.mem_singleton] at hx
      rcases hx with hx | hx
      · exact Or.inr ⟨q, hq, by simpa using hk, hx⟩
      · exact Or.inl hx
    · left
      simp only [hk]
      exact hq
  · simp only [List.mem_append, List.mem_singleton] at hp
    rcases hp with hp | rfl
    · exact Or.inl hp
    · right
      refine ⟨rfl, ?_⟩
      intro x hx
      simp only [List.mem_singleton] at hx
      exact Or.inl hx

theorem pushToCache_inv {TI : Term.Node → Prop} (n : WNode) (m : Message) (hi : WInv TI n) (hm : MsgOK n.me n.inst (msgHeight m) m) :
    WInv TI (pushToCache n m) ∧ (pushToCache n m).me = n.me ∧ (pushToCache n m).inst = n.inst := by
  unfold pushToCache
  dsimp only
  have hcase : ∀ (c : List (Nat × List Message)), (∀ p ∈ c, ∀ x ∈ p.2, MsgOK n.me n.inst p.1 x) →
      ∀ p ∈ cacheAppend c (msgHeight m) m, ∀ x ∈ p.2, MsgOK n.me n.inst p.1 x := by
    intro c hc p hp x hx
    rcases mem_cacheAppend hp with hp | ⟨hk, hall⟩
    · exact hc p hp x hx
    · rcases hall x hx with rfl | ⟨q, hq, hq1, hxq⟩
      · rw [hk]; exact hm
      · rw [hk, ← hq1]; exact hc q hq x hxq
  split
  · exact ⟨hi, rfl, rfl⟩
  · split
    · refine ⟨⟨hi.term, ?_⟩, rfl, rfl⟩
      exact hcase _ (fun p hp x hx => hi.cache p (mem_clearEarlier hp) x hx)
    · refine ⟨⟨hi.term, ?_⟩, rfl, rfl⟩
      exact hcase _ hi.cache

theorem deliver_inv {TI : Term.Node → Prop} (hT : TermInv TI) (fuel : Nat) (w : WW) (m : Message) (hi : WInv TI w.n) :
    WInv TI (deliver fuel w m).n ∧ (deliver fuel w m).n.me = w.n.me ∧ (deliver fuel w m).n.inst = w.n.inst := by
  unfold deliver
  split
  · exact ⟨hi, rfl, rfl⟩
  · rename_i hs
    split
    · exact ⟨hi, rfl, rfl⟩
    · split
      · exact ⟨hi, rfl, rfl⟩
      · rename_i hin
        have hok : MsgOK w.n.me w.n.inst (msgHeight m) m :=
          ⟨by simpa using hin, rfl, by simpa using hs⟩
        split
        · exact pushToCache_inv w.n m hi hok
        · refine drain_inv hT fuel w (msgHeight m) [m] hi ?_
          intro x hx
          simp only [List.mem_singleton] at hx
          subst hx; exact hok

theorem election_inv {TI : Term.Node → Prop} (hT : TermInv TI) (w : WW) (h v : Nat) (hi : WInv TI w.n) :
    WInv TI (election w h v).n ∧ (election w h v).n.me = w.n.me ∧ (election w h v).n.inst = w.n.inst := by
  unfold election
  cases ht : w.n.term with
  | none =>
    simp only
    split <;> exact ⟨hi, rfl, rfl⟩
  | some t =>
    simp only
    split
    · exact ⟨hi, rfl, rfl⟩
    · obtain ⟨t1, t2, t3, t4⟩ := hi.term t ht
      have hev := Term.election_evC { n := { t with reg := w.n.reg }, spi := (termSpis w.spi).1 } h v
      refine ⟨⟨?_, hi.cache⟩, rfl, rfl⟩
      intro t' ht'
      have : t' = (Term.election { n := { t with reg := w.n.reg }, spi := (termSpis w.spi).1 } h v).n := by
        have := ht'
        simp only [Option.some.injEq] at this
        exact this.symm
      subst this
      rw [hev.cfg]
      exact ⟨t1, t2, t3, hT.election _ h v (hT.reg t _ t4)⟩

theorem updateState_inv {TI : Term.Node → Prop} (hT : TermInv TI) (fuel : Nat) (w : WW) (bh : Nat) (hi : WInv TI w.n) :
    WInv TI (updateState fuel w bh).n ∧ (updateState fuel w bh).n.me = w.n.me ∧ (updateState fuel w bh).n.inst = w.n.inst := by
  unfold updateState
  split
  · exact newRound_inv hT fuel w bh false hi
  · exact ⟨hi, rfl, rfl⟩

/-- **The worker invariant holds after every event**: the installed term is this node's and of the
node's height, its log and the future cache hold only messages of this instance, of the right
height, and the cache none from this node. -/
theorem worker_step_inv {TI : Term.Node → Prop} (hT : TermInv TI) (fuel : Nat) (n : WNode) (e : WEvent) (spi : List WSpi) (hi : WInv TI n) :
    WInv TI (Worker.step fuel n e spi).1 := by
  unfold Worker.step
  dsimp only
  cases e with
  | deliver m => exact (deliver_inv hT fuel { n := n, spi := spi } m hi).1
  | election h v => exact (election_inv hT { n := n, spi := spi } h v hi).1
  | update bh => exact (updateState_inv hT fuel { n := n, spi := spi } bh hi).1
  | cancelOlder h v => exact ⟨hi.term, hi.cache⟩
  | shutdownCtx => exact ⟨hi.term, hi.cache⟩

/-- over every execution from the initial state -/
theorem worker_run_inv {TI : Term.Node → Prop} (hT : TermInv TI) (fuel : Nat) (es : List (WEvent × List WSpi)) :
    ∀ n, WInv TI n → WInv TI (es.foldl (fun n x => (Worker.step fuel n x.1 x.2).1) n) := by
  induction es with
  | nil => intro n h; exact h
  | cons x rest ih => intro n h; exact ih _ (worker_step_inv hT fuel n x.1 x.2 h)

/-- in the words of the Term-level hypotheses (C03 `hinst`, C11 `hinstPP` / `hinstP`): in every
reachable worker state, every logged message of the installed term carries the term's instance id and height -/
theorem reachable_term_log_is_clean (fuel : Nat) (me inst : Nat) (es : List (WEvent × List WSpi)) (t : Term.Node)
    (ht : (es.foldl (fun n x => (Worker.step fuel n x.1 x.2).1) ({ me := me, inst := inst } : WNode)).term = some t) :
    (∀ m ∈ t.store.pps, m.c.header.inst = t.cfg.inst ∧ m.c.header.height = t.cfg.height)
    ∧ (∀ m ∈ t.store.prepares, m.header.inst = t.cfg.inst ∧ m.header.height = t.cfg.height)
    ∧ (∀ m ∈ t.store.commits, m.header.inst = t.cfg.inst ∧ m.header.height = t.cfg.height)
    ∧ (∀ m ∈ t.store.vcs, m.c.header.inst = t.cfg.inst ∧ m.c.header.height = t.cfg.height) := by
  have hi := worker_run_inv logClean_termInv fuel es _ (winv_init Term.LogClean me inst)
  obtain ⟨_, _, _, hl⟩ := hi.term t ht
  exact ⟨hl.pps, hl.prepares, hl.commits, hl.vcs⟩

end LeanHelix.C08
