import LeanHelix.Props.C08Worker
import LeanHelix.Props.C03
import LeanHelix.Props.C04
import LeanHelix.Props.C11NewView
import LeanHelix.Props.C10Leader
/-!
# All log invariants of the term hold in every reachable state of the worker

The Term-level theorems of C03, C04, C10 and C11 are stated for node states that satisfy log
invariants (`CommitsOK`, `PreparesOK`, `ProposalsOK`, `VCsOK`, `LVInv`, `LogClean`) and for events
that the worker's filter lets through.  Here they are shown to hold for **every term the worker ever
runs, in every state reachable by any sequence of worker events** (deliveries incl. the future
cache, elections, node syncs, commits and round starts nested inside deliveries, any SPI answers):
`reachable_term_invariants`.  The hypotheses those theorems name ("the node is a committee member",
"logged messages carry this instance id and height", "the log invariant holds") are thereby
discharged for executions of the whole worker.
-/
namespace LeanHelix.WorkerInvariants
open LeanHelix LeanHelix.Msg LeanHelix.Term LeanHelix.Worker

/-- every invariant of the term's log and bookkeeping used by the property theorems -/
structure AllInv (t : Term.Node) : Prop where
  member : isMember t.cfg t.cfg.me = true
  commits : C03.CommitsOK t
  prepares : C11.PreparesOK t
  proposals : C04.ProposalsOK t
  votes : C11.VCsOK t
  bookkeeping : C10.LVInv t
  clean : Term.LogClean t

theorem handle_evJ (tw : Term.W) (m : Message) : Evolves J tw.n (C08.handle tw m).n := by
  cases m with
  | preprepare x => exact handlePrePrepare_ev tw x
  | prepare x => exact handlePrepare_ev tw x
  | commit x => exact handleCommit_ev tw x
  | viewChange x => exact handleViewChange_ev tw x
  | newView x => exact handleNewView_ev tw x

theorem handle_lv (tw : Term.W) (m : Message) (h : C10.LVInv tw.n) : C10.LVInv (C08.handle tw m).n := by
  cases m with
  | preprepare x => exact (C10.handlePrePrepare_stepW tw x h).2.1
  | prepare x => exact (C10.handlePrepare_stepW tw x h).2.1
  | commit x => exact (C10.handleCommit_stepW tw x h).2.1
  | viewChange x => exact (C10.handleViewChange_stepW tw x h).2.1
  | newView x => exact (C10.handleNewView_stepW tw x h).2.1

private theorem all_of_evolves {a b : Term.Node} (hev : Evolves J a b) (hevC : Evolves Clean a b)
    (hlv : C10.LVInv b) (ha : AllInv a) : AllInv b :=
  ⟨by rw [hev.cfg]; exact ha.member,
   C03.commitsOK_evolves ha.member hev ha.commits,
   C11.preparesOK_evolves ha.member hev ha.prepares,
   C04.stored_proposals_are_from_the_leader hev ha.proposals,
   C11.vcsOK_evolves hev ha.votes,
   hlv,
   logClean_evolves hevC ha.clean⟩

theorem allInv_termInv : C08.TermInv AllInv where
  reg := fun t r h =>
    ⟨h.member, ⟨h.commits.auth, h.commits.keys⟩, ⟨h.prepares.auth, h.prepares.keys⟩, h.proposals,
     ⟨h.votes.auth, h.votes.keys⟩, h.bookkeeping, C08.logClean_reg t r h.clean⟩
  handle := fun tw m h1 h2 _ h => by
    have hevC : Evolves Clean tw.n (C08.handle tw m).n := by
      cases m with
      | preprepare x => exact handlePrePrepare_evC tw x ⟨h1, h2⟩
      | prepare x => exact handlePrepare_evC tw x ⟨h1, h2⟩
      | commit x => exact handleCommit_evC tw x ⟨h1, h2⟩
      | viewChange x => exact handleViewChange_evC tw x ⟨h1, h2⟩
      | newView x => exact handleNewView_evC tw x h2
    exact all_of_evolves (handle_evJ tw m) hevC (handle_lv tw m h.bookkeeping) h
  election := fun tw hh v h =>
    all_of_evolves (election_ev tw hh v) (election_evC tw hh v) ((C10.election_stepW tw hh v h.bookkeeping).2.1) h
  start := fun cfg r spi c hmem _ => by
    have h0 : AllInv ({ ({ cfg := cfg } : Term.Node) with reg := r }) :=
      ⟨hmem, C03.commitsOK_init cfg |> fun x => ⟨x.auth, x.keys⟩, C11.preparesOK_init cfg |> fun x => ⟨x.auth, x.keys⟩,
       (by intro ppm hp; cases hp), C11.vcsOK_init cfg |> fun x => ⟨x.auth, x.keys⟩, Nat.le_refl 0,
       C08.logClean_reg _ _ (logClean_init cfg)⟩
    exact all_of_evolves (startTerm_ev _ c rfl) (startTerm_evC _ c)
      ((C10.startTerm_stepW { n := { ({ cfg := cfg } : Term.Node) with reg := r }, spi := spi } c h0.bookkeeping).2.1) h0

/-- **In every reachable state of the worker, the installed term — whatever was delivered to it,
directly or through the future cache, and whatever rounds were started inside deliveries — satisfies
every log invariant**, is this node's, and decides the node's height. -/
theorem reachable_term_invariants (fuel : Nat) (me inst : Nat) (es : List (WEvent × List WSpi)) (t : Term.Node)
    (ht : (es.foldl (fun n x => (Worker.step fuel n x.1 x.2).1) ({ me := me, inst := inst } : WNode)).term = some t) :
    t.cfg.me = me ∧ t.cfg.inst = inst ∧ AllInv t := by
  have hrun : ∀ (es : List (WEvent × List WSpi)) (n : WNode), n.me = me → n.inst = inst → C08.WInv AllInv n →
      let n' := es.foldl (fun n x => (Worker.step fuel n x.1 x.2).1) n
      n'.me = me ∧ n'.inst = inst ∧ C08.WInv AllInv n' := by
    intro es
    induction es with
    | nil => intro n h1 h2 h3; exact ⟨h1, h2, h3⟩
    | cons x rest ih =>
      intro n h1 h2 h3
      have hs := C08.worker_step_inv allInv_termInv fuel n x.1 x.2 h3
      have hid : (Worker.step fuel n x.1 x.2).1.me = n.me ∧ (Worker.step fuel n x.1 x.2).1.inst = n.inst := by
        unfold Worker.step
        dsimp only
        cases x.1 with
        | deliver m => exact ⟨(C08.deliver_inv allInv_termInv fuel { n := n, spi := x.2 } m h3).2.1, (C08.deliver_inv allInv_termInv fuel { n := n, spi := x.2 } m h3).2.2⟩
        | election h v => exact ⟨(C08.election_inv allInv_termInv { n := n, spi := x.2 } h v h3).2.1, (C08.election_inv allInv_termInv { n := n, spi := x.2 } h v h3).2.2⟩
        | update bh => exact ⟨(C08.updateState_inv allInv_termInv fuel { n := n, spi := x.2 } bh h3).2.1, (C08.updateState_inv allInv_termInv fuel { n := n, spi := x.2 } bh h3).2.2⟩
        | cancelOlder h v => exact ⟨rfl, rfl⟩
        | shutdownCtx => exact ⟨rfl, rfl⟩
      exact ih _ (by rw [hid.1]; exact h1) (by rw [hid.2]; exact h2) hs
  obtain ⟨e1, e2, hi⟩ := hrun es { me := me, inst := inst } rfl rfl (C08.winv_init AllInv me inst)
  obtain ⟨t1, t2, _, t4⟩ := hi.term t ht
  exact ⟨by rw [t1]; exact e1, by rw [t2]; exact e2, t4⟩

end LeanHelix.WorkerInvariants
