import LeanHelix.Props.C08Worker
import LeanHelix.Props.C03
import LeanHelix.Props.C04
import LeanHelix.Props.C11NewView
import LeanHelix.Props.C10Leader
import LeanHelix.Lemmas.TermViews
/-!
# All log invariants of the term hold in every reachable state of the worker

The Term-level theorems of C03, C04, C10 and C11 are stated for node states that satisfy log
invariants (`CommitsOK`, `PreparesOK`, `ProposalsOK`, `VCsOK`, `LVInv`, `LogClean`) and for events
that the worker's filter lets through.  Here they are shown to hold for **every term the worker ever
runs, in every state reachable by any sequence of worker events** (deliveries incl. the future
cache, elections, node syncs, commits and round starts nested inside deliveries, any SPI answers):
`reachable_term_invariants`.  The hypotheses those theorems name ("the node is a committee member",
"logged messages carry this instance id and height", "the log invariant holds") are thereby
discharged for executions of the whole worker.
-/
namespace LeanHelix.WorkerInvariants
open LeanHelix LeanHelix.Msg LeanHelix.Term LeanHelix.Worker

/-- every invariant of the term's log and bookkeeping used by the property theorems -/
structure AllInv (t : Term.Node) : Prop where
  member : isMember t.cfg t.cfg.me = true
  commits : C03.CommitsOK t
  prepares : C11.PreparesOK t
  proposals : C04.ProposalsOK t
  votes : C11.VCsOK t
  bookkeeping : C10.LVInv t
  clean : Term.LogClean t
  ownNL : Term.OwnPreparesNL t
  views : Term.ViewsOK t

theorem handle_evJ (tw : Term.W) (m : Message) : Evolves J tw.n (C08.handle tw m).n := by
  cases m with
  | preprepare x => exact handlePrePrepare_ev tw x
  | prepare x => exact handlePrepare_ev tw x
  | commit x => exact handleCommit_ev tw x
  | viewChange x => exact handleViewChange_ev tw x
  | newView x => exact handleNewView_ev tw x

theorem handle_lv (tw : Term.W) (m : Message) (h : C10.LVInv tw.n) : C10.LVInv (C08.handle tw m).n := by
  cases m with
  | preprepare x => exact (C10.handlePrePrepare_stepW tw x h).2.1
  | prepare x => exact (C10.handlePrepare_stepW tw x h).2.1
  | commit x => exact (C10.handleCommit_stepW tw x h).2.1
  | viewChange x => exact (C10.handleViewChange_stepW tw x h).2.1
  | newView x => exact (C10.handleNewView_stepW tw x h).2.1

private theorem all_of_evolves {a b : Term.Node} (hev : Evolves J a b) (hevC : Evolves Clean a b)
    (hevN : Evolves OwnNL a b) (hvw : ViewsOK b)
    (hlv : C10.LVInv b) (ha : AllInv a) : AllInv b :=
  ⟨by rw [hev.cfg]; exact ha.member,
   C03.commitsOK_evolves ha.member hev ha.commits,
   C11.preparesOK_evolves ha.member hev ha.prepares,
   C04.stored_proposals_are_from_the_leader hev ha.proposals,
   C11.vcsOK_evolves hev ha.votes,
   hlv,
   logClean_evolves hevC ha.clean,
   ownPreparesNL_evolves hevN ha.ownNL,
   hvw⟩

theorem allInv_termInv : C08.TermInv AllInv where
  reg := fun t r h =>
    ⟨h.member, ⟨h.commits.auth, h.commits.keys⟩, ⟨h.prepares.auth, h.prepares.keys⟩, h.proposals,
     ⟨h.votes.auth, h.votes.keys⟩, h.bookkeeping, C08.logClean_reg t r h.clean, h.ownNL, ⟨h.views.pp, h.views.prep⟩⟩
  handle := fun tw m h1 h2 h3 h => by
    have hevN : Evolves OwnNL tw.n (C08.handle tw m).n := by
      cases m with
      | preprepare x => exact handlePrePrepare_evN tw x h3
      | prepare x => exact handlePrepare_evN tw x h3
      | commit x => exact handleCommit_evN tw x
      | viewChange x => exact handleViewChange_evN tw x
      | newView x => exact handleNewView_evN tw x h3
    have hvw : ViewsOK (C08.handle tw m).n := by
      cases m with
      | preprepare x => exact handlePrePrepare_views tw x h.views
      | prepare x => exact handlePrepare_views tw x h.views
      | commit x => exact handleCommit_views tw x h.views
      | viewChange x => exact handleViewChange_views tw x h.views
      | newView x => exact handleNewView_views tw x h.views
    have hevC : Evolves Clean tw.n (C08.handle tw m).n := by
      cases m with
      | preprepare x => exact handlePrePrepare_evC tw x ⟨h1, h2⟩
      | prepare x => exact handlePrepare_evC tw x ⟨h1, h2⟩
      | commit x => exact handleCommit_evC tw x ⟨h1, h2⟩
      | viewChange x => exact handleViewChange_evC tw x ⟨h1, h2⟩
      | newView x => exact handleNewView_evC tw x h2
    exact all_of_evolves (handle_evJ tw m) hevC hevN hvw (handle_lv tw m h.bookkeeping) h
  election := fun tw hh v h =>
    all_of_evolves (election_ev tw hh v) (election_evC tw hh v) (election_evN tw hh v) (election_views tw hh v h.views)
      ((C10.election_stepW tw hh v h.bookkeeping).2.1) h
  start := fun cfg r spi c hmem _ => by
    have h0 : AllInv ({ ({ cfg := cfg } : Term.Node) with reg := r }) :=
      ⟨hmem, C03.commitsOK_init cfg |> fun x => ⟨x.auth, x.keys⟩, C11.preparesOK_init cfg |> fun x => ⟨x.auth, x.keys⟩,
       (by intro ppm hp; cases hp), C11.vcsOK_init cfg |> fun x => ⟨x.auth, x.keys⟩, Nat.le_refl 0,
       C08.logClean_reg _ _ (logClean_init cfg), ownPreparesNL_init cfg, ⟨(viewsOK_init cfg).pp, (viewsOK_init cfg).prep⟩⟩
    exact all_of_evolves (startTerm_ev _ c rfl) (startTerm_evC _ c) (startTerm_evN _ c) (startTerm_views _ c h0.views)
      ((C10.startTerm_stepW { n := { ({ cfg := cfg } : Term.Node) with reg := r }, spi := spi } c h0.bookkeeping).2.1) h0

/-- **In every reachable state of the worker, the installed term — whatever was delivered to it,
directly or through the future cache, and whatever rounds were started inside deliveries — satisfies
every log invariant**, is this node's, and decides the node's height. -/
theorem reachable_term_invariants (fuel : Nat) (me inst : Nat) (es : List (WEvent × List WSpi)) (t : Term.Node)
    (ht : (es.foldl (fun n x => (Worker.step fuel n x.1 x.2).1) ({ me := me, inst := inst } : WNode)).term = some t) :
    t.cfg.me = me ∧ t.cfg.inst = inst ∧ AllInv t := by
  have hrun : ∀ (es : List (WEvent × List WSpi)) (n : WNode), n.me = me → n.inst = inst → C08.WInv AllInv n →
      let n' := es.foldl (fun n x => (Worker.step fuel n x.1 x.2).1) n
      n'.me = me ∧ n'.inst = inst ∧ C08.WInv AllInv n' := by
    intro es
    induction es with
    | nil => intro n h1 h2 h3; exact ⟨h1, h2, h3⟩
    | cons x rest ih =>
      intro n h1 h2 h3
      have hs := C08.worker_step_inv allInv_termInv fuel n x.1 x.2 h3
      have hid : (Worker.step fuel n x.1 x.2).1.me = n.me ∧ (Worker.step fuel n x.1 x.2).1.inst = n.inst := by
        unfold Worker.step
        dsimp only
        cases x.1 with
        | deliver m => exact ⟨(C08.deliver_inv allInv_termInv fuel { n := n, spi := x.2 } m h3).2.1, (C08.deliver_inv allInv_termInv fuel { n := n, spi := x.2 } m h3).2.2⟩
        | election h v => exact ⟨(C08.election_inv allInv_termInv { n := n, spi := x.2 } h v h3).2.1, (C08.election_inv allInv_termInv { n := n, spi := x.2 } h v h3).2.2⟩
        | update bh => exact ⟨(C08.updateState_inv allInv_termInv fuel { n := n, spi := x.2 } bh h3).2.1, (C08.updateState_inv allInv_termInv fuel { n := n, spi := x.2 } bh h3).2.2⟩
        | cancelOlder h v => exact ⟨rfl, rfl⟩
        | shutdownCtx => exact ⟨rfl, rfl⟩
      exact ih _ (by rw [hid.1]; exact h1) (by rw [hid.2]; exact h2) hs
  obtain ⟨e1, e2, hi⟩ := hrun es { me := me, inst := inst } rfl rfl (C08.winv_init AllInv me inst)
  obtain ⟨t1, t2, _, t4⟩ := hi.term t ht
  exact ⟨by rw [t1]; exact e1, by rw [t2]; exact e2, t4⟩

/-- **C03 without the instance-id hypothesis**: for a term in a state that satisfies the reachable
invariants (`reachable_term_invariants`), the certificate handed to the commit callback passes
strict `ValidateBlockConsensus` — only the consumer contract for the block (`A2`) and "the total
weight fits 64 bits" remain as hypotheses. -/
theorem reachable_committed_proof_validates (w : Term.W) (hall : AllInv w.n) (h v hash : Nat) (b : Block) (cs : List CMsg)
    (hin : Out.commit b cs ∈ (checkCommitted w h v hash).outs) (hnot : Out.commit b cs ∉ w.outs)
    (hW1 : 1 ≤ LeanHelix.W w.n.cfg.members) (hW2 : LeanHelix.W w.n.cfg.members < U64)
    (A2 : b.hash = hash ∧ b.height = h) :
    ∃ p, BlockProof.generate cs true = some p ∧
      BlockProof.validate ⟨false, some b, some p, w.n.cfg.inst, w.n.cfg.members, false⟩ = .ok :=
  C03.committed_proof_validates w h v hash b cs hall.commits hin hnot hW1 hW2
    (fun cm hcm => (hall.clean.commits cm hcm).1) A2

/-- **C11, closed for VIEW_CHANGE**: in a state that satisfies the reachable invariants, when the
election timer of the current view fires, the VIEW_CHANGE the node builds is valid at every correct
node with the same configuration — whatever PREPAREs, proposals and COMMITs Byzantine members and
outsiders made it accept before.  No hypothesis about the log remains. -/
theorem reachable_own_vote_valid (n peer : Term.Node) (hall : AllInv n) (hcfg : peer.cfg = n.cfg)
    (hnw : ¬ n.view > wrap64 (n.view + 1)) (hne : wrap64 (n.view + 1) ≠ n.view) :
    isViewChangeValid peer (C09.voteOnTimeout { n with view := wrap64 (n.view + 1) }).c = true := by
  have hgt : n.view < wrap64 (n.view + 1) := by omega
  refine C11.own_vote_is_valid_for_peers { n with view := wrap64 (n.view + 1) } peer hcfg hall.member
    ⟨hall.prepares.auth, hall.prepares.keys⟩ hall.proposals ?_ (fun ppm hp => (hall.clean.pps ppm hp).1)
    (fun pm hp => (hall.clean.prepares pm hp).1)
  intro pv hpv
  have hle : pv ≤ n.view := hall.views.prep pv hpv
  refine ⟨by show pv < wrap64 (n.view + 1); omega, ?_⟩
  intro pm hpm hvw hsig
  have := hall.ownNL pm hpm hsig
  rw [hvw] at this
  exact this

end LeanHelix.WorkerInvariants
