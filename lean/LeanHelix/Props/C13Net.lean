import LeanHelix.Props.C13Commit
import LeanHelix.Props.C01Net
/-!
# C13 (commit part) at the network level: one commit callback per correct member and height

`C13.at_most_one_commit` is about one term after its start.  Here the same is read off every reachable
state of the network model, start step included: in any execution, with any adversary, a correct
member's commit callback has been invoked at most once for the term's height, and only a member whose
`committed` latch is set has invoked it (`net_at_most_one_commit`).  With `C01Net.net_agreement` all
such callbacks, of all correct members, are for one certified hash.
-/
namespace LeanHelix.C13Net
open LeanHelix LeanHelix.Msg LeanHelix.Term LeanHelix.Net LeanHelix.C13

variable {C : NetCfg}

theorem noCb_benign : Benign NoCb := ⟨fun _ _ => rfl, fun _ => rfl, fun _ _ _ => rfl, fun _ => rfl⟩

/-- starting the term invokes no commit callback and leaves the latch alone -/
theorem startTerm_cb (w : Term.W) (c : Bool) : CbOK w (startTerm w c) := by
  have hB := noCb_benign
  unfold startTerm
  dsimp only
  have h0 := initView_appends' hB { w with n := { w.n with prepared := none } } 0
  obtain ⟨_, _, _, i4, _⟩ := initView_n { w with n := { w.n with prepared := none } } 0
  generalize initView { w with n := { w.n with prepared := none } } 0 = r at h0 i4 ⊢
  obtain ⟨w1, ok⟩ := r
  have h0' : Appends NoCb w w1 := h0
  have c1 : w1.n.committed = w.n.committed := i4
  dsimp only
  split
  · exact CbOK.quiet h0' c1
  split
  · exact CbOK.quiet h0' c1
  split
  · exact CbOK.quiet h0' c1
  · have h1 := Appends.trans h0' (askProposal_appends' hB w1 w1.n.cfg.height 0)
    obtain ⟨_, _, _, _, p5, _⟩ := askProposal_n w1 w1.n.cfg.height 0
    generalize askProposal w1 w1.n.cfg.height 0 = r2 at h1 p5 ⊢
    obtain ⟨w2, ob⟩ := r2
    dsimp only at h1 p5 ⊢
    have c2 : w2.n.committed = w.n.committed := p5.trans c1
    split
    · exact CbOK.quiet h1 c2
    · exact CbOK.quiet (Appends.emit_trans _ (Appends.setN _ h1) rfl) c2

/-- one event of the term model, start included -/
theorem step_cb' (n : Node) (e : Event) (spi : List Spi) :
    cbCount (step n e spi).2 ≤ (if n.committed.isSome then 0 else 1)
    ∧ (n.committed.isSome = true → (step n e spi).1.committed.isSome = true)
    ∧ (cbCount (step n e spi).2 = 1 → (step n e spi).1.committed.isSome = true) := by
  cases e with
  | start c =>
    obtain ⟨l, el, cc, m, f, _⟩ := startTerm_cb { n := n, spi := spi } c
    have : (startTerm { n := n, spi := spi } c).outs = l := by simpa using el
    have e2 : (step n (.start c) spi).2 = l := this
    have e1 : (step n (.start c) spi).1 = (startTerm { n := n, spi := spi } c).n := rfl
    rw [e2, e1]; exact ⟨cc, m, f⟩
  | election h v => exact step_cb n _ spi (fun _ h => by cases h)
  | cancelOlder h v => exact step_cb n _ spi (fun _ h => by cases h)
  | deliver m => exact step_cb n _ spi (fun _ h => by cases h)

/-- **at most one commit callback per correct member**, in every reachable state of the network -/
theorem net_at_most_one_commit {net : Net} (hr : Reach C net) (i : Nat) :
    cbCount (net.outs i) ≤ (if (net.node i).committed.isSome then 1 else 0) := by
  induction hr with
  | init => show cbCount [] ≤ _; unfold cbCount; simp
  | @step net _ _ hs ih =>
    have common : ∀ (j : Nat) (e : Event) (spi : List Spi) (w' : Term.W),
        step (net.node j) e spi = (w'.n, w'.outs) →
        cbCount (upd net.outs j (net.outs j ++ w'.outs) i) ≤ (if (upd net.node j w'.n i).committed.isSome then 1 else 0) := by
      intro j e spi w' hst
      by_cases hij : i = j
      · subst hij
        rw [upd_same, upd_same, cbCount_append]
        obtain ⟨c1, m1, f1⟩ := step_cb' (net.node i) e spi
        rw [hst] at c1 m1 f1
        simp only at c1 m1 f1
        by_cases ha : (net.node i).committed.isSome = true
        · have hb := m1 ha
          simp only [ha, hb, if_true] at ih c1 ⊢
          omega
        · simp only [ha, Bool.false_eq_true, if_false] at ih c1
          by_cases h11 : cbCount w'.outs = 1
          · simp only [f1 h11, if_true]; omega
          · have : cbCount w'.outs = 0 := by omega
            split <;> omega
      · rw [upd_other _ _ hij, upd_other _ _ hij]; exact ih
    cases hs with
    | start j first spi w' g hh hm hs hr hst => exact common j (.start first) spi w' hst
    | event j e spi w' g hh hm hs hns hg ha hr hst => exact common j e spi w' hst

theorem step_latch' (n : Node) (e : Event) (spi : List Spi)
    (hc : (step n e spi).1.committed.isSome = true) : n.committed.isSome = true ∨ cbCount (step n e spi).2 = 1 := by
  cases e with
  | start c =>
    obtain ⟨l, el, _, _, _, g⟩ := startTerm_cb { n := n, spi := spi } c
    have : (startTerm { n := n, spi := spi } c).outs = l := by simpa using el
    have e2 : (step n (.start c) spi).2 = l := this
    rw [e2]; exact g hc
  | election h v => exact step_latch n _ spi (fun _ h => by cases h) hc
  | cancelOlder h v => exact step_latch n _ spi (fun _ h => by cases h) hc
  | deliver m => exact step_latch n _ spi (fun _ h => by cases h) hc

theorem cbCount_pos {l : List Out} (h : 1 ≤ cbCount l) : ∃ b cs, Out.commit b cs ∈ l := by
  unfold cbCount at h
  cases hf : l.filter isCb with
  | nil => rw [hf] at h; simp at h
  | cons o rest =>
    have hm : o ∈ l.filter isCb := by rw [hf]; exact List.mem_cons_self ..
    rw [List.mem_filter] at hm
    cases o with
    | commit b cs => exact ⟨b, cs, hm.1⟩
    | send _ _ => simp [isCb] at hm
    | registerElection _ _ => simp [isCb] at hm
    | callRequest _ => simp [isCb] at hm
    | callValidate _ _ _ => simp [isCb] at hm
    | goPanic _ => simp [isCb] at hm

/-- **the latch and the callback go together**: a correct member whose term is marked committed has
invoked its commit callback (exactly once, by `net_at_most_one_commit`) -/
theorem net_committed_has_callback {net : Net} (hr : Reach C net) (i : Nat)
    (hc : (net.node i).committed.isSome = true) : ∃ b cs, Out.commit b cs ∈ net.outs i := by
  suffices h : (net.node i).committed.isSome = true → 1 ≤ cbCount (net.outs i) from cbCount_pos (h hc)
  clear hc
  induction hr with
  | init => intro h; cases h
  | @step net _ _ hs ih =>
    have common : ∀ (j : Nat) (e : Event) (spi : List Spi) (w' : Term.W),
        step (net.node j) e spi = (w'.n, w'.outs) →
        (upd net.node j w'.n i).committed.isSome = true → 1 ≤ cbCount (upd net.outs j (net.outs j ++ w'.outs) i) := by
      intro j e spi w' hst
      by_cases hij : i = j
      · subst hij
        rw [upd_same, upd_same, cbCount_append]
        intro hc
        have := step_latch' (net.node i) e spi (by rw [hst]; exact hc)
        rw [hst] at this
        rcases this with h1 | h1
        · have := ih h1; omega
        · simp only at h1; omega
      · rw [upd_other _ _ hij, upd_other _ _ hij]; exact ih
    cases hs with
    | start j first spi w' g hh hm hs hr hst => exact common j (.start first) spi w' hst
    | event j e spi w' g hh hm hs hns hg ha hr hst => exact common j e spi w' hst

end LeanHelix.C13Net
