import LeanHelix.Net.Reach
import LeanHelix.Net.Sim
/-!
# C01 — Agreement, for the network of term models under an unforgeability adversary

`Net/` composes N correct members, each running the term model (`Model/Term.lean`, the model that
the `node` correspondence suite ties to the Go code), with an adversary that may deliver *any*
message to *any* correct member at *any* time, as long as the worker's filter would let it through
(`Gate`) and every verifying signature of a correct member over a statement of this instance and
height inside it matches a statement that member made (`AdmEvent`, unforgeability).

`net_agreement`: for every committee and weight vector whose total fits 64 bits, every set of correct
members whose complement weighs at most f, and every reachable state of that network — any number of
steps, any interleaving, any SPI answers, any election triggers and cancellations — any two commit
callbacks of correct members are for the same certified hash.  The committed block is the block of
the stored proposal signed over that hash (`Blk.decide`, `C03.commit_callback_payload`); that this
block commits to the hash is the consumer contract A2 (C03).

The proof is the composition the earlier rounds left open: the global history of correct members'
statements is `Spec.Valid` (`reach_inv`), by the node-local rules (`C01Local`) and the certificate
parts derived from the checks of the term model plus unforgeability (`Net/Certs.lean`); agreement is
then `Spec.agreement`.
-/
namespace LeanHelix.C01Net
open LeanHelix LeanHelix.Msg LeanHelix.Term LeanHelix.Spec LeanHelix.Net
open LeanHelix.C01Local (lift)

variable {C : NetCfg}

theorem mem_erase_dec {T : List LEv} {h : Nat} (hm : Stmt.dec h ∈ T.filterMap Term.erase) : LEv.dec h ∈ T := by
  rw [List.mem_filterMap] at hm
  obtain ⟨e, he, hx⟩ := hm
  cases e with
  | dec h' => simp only [Term.erase, Option.some.injEq, Stmt.dec.injEq] at hx; subst hx; exact he
  | acc v' h' f => simp [Term.erase] at hx
  | com v' h' => simp [Term.erase] at hx
  | lcom v' h' => simp [Term.erase] at hx
  | vote v' pf s => cases s <;> simp [Term.erase] at hx

/-- a commit callback of a correct member is a decision in the global history -/
theorem commit_in_history (hwf : WF C) {net : Net} (hr : Reach C net) {i : Nat} (hh : C.honest i = true)
    (hm : ∃ m ∈ C.ms, m.id = i) {b : Block} {cs : List CMsg} (hc : Out.commit b cs ∈ net.outs i) :
    Ev.dec i (commitHash cs) ∈ net.H := by
  have hinv := reach_inv hwf hr
  cases hs : net.started i with
  | false =>
    have := (hinv.fresh i hs).2.1
    rw [this] at hc; cases hc
  | true =>
    obtain ⟨⟨T, hcore, herase⟩, _, _, _, _⟩ := hinv.nodes i hh hm hs
    have h1 : Stmt.dec (commitHash cs) ∈ (net.outs i).filterMap stmtOf :=
      List.mem_filterMap.mpr ⟨_, hc, rfl⟩
    rw [herase] at h1
    have h2 := mem_erase_dec h1
    exact mem_H_of_T hcore.sees (List.mem_reverse.mp h2)

/-- **C01, network level.** In every reachable state of the network of term models — any committee
and weights with 1 ≤ W < 2^64, Byzantine weight ≤ f, any schedule, any admissible adversarial
deliveries — two commit callbacks at correct members are for the same certified block hash. -/
theorem net_agreement (hwf : WF C) {net : Net} (hr : Reach C net) {a b : Nat}
    (ha : C.honest a = true) (hb : C.honest b = true)
    (hma : ∃ m ∈ C.ms, m.id = a) (hmb : ∃ m ∈ C.ms, m.id = b)
    {ba bb : Block} {ca cb : List CMsg}
    (h1 : Out.commit ba ca ∈ net.outs a) (h2 : Out.commit bb cb ∈ net.outs b) :
    commitHash ca = commitHash cb :=
  Spec.agreement (setting C hwf) (reach_inv hwf hr).valid
    (commit_in_history hwf hr ha hma h1) (commit_in_history hwf hr hb hmb h2)

/-- **C01 for blocks.** If every consumer obeys contract A2 in the schedule (a positive
`ValidateBlockProposal` verdict is only given for a block that commits to the proposed hash:
`TraceA2`), the blocks two correct members hand to their commit callbacks commit to the same hash;
with a collision-free commitment (A1, here as a hypothesis about the two blocks) they are the same block. -/
theorem net_agreement_blocks (hwf : WF C) {net : Net} (hr : Reach C net) (hA2 : TraceA2 net.trace) {a b : Nat}
    (ha : C.honest a = true) (hb : C.honest b = true)
    (hma : ∃ m ∈ C.ms, m.id = a) (hmb : ∃ m ∈ C.ms, m.id = b)
    {ba bb : Block} {ca cb : List CMsg}
    (h1 : Out.commit ba ca ∈ net.outs a) (h2 : Out.commit bb cb ∈ net.outs b) :
    ba.hash = bb.hash ∧ ((ba.hash = bb.hash → ba = bb) → ba = bb) := by
  have hbody := reach_blocks hwf hr hA2
  have e1 := (hbody a ha hma).2.1 ba ca h1
  have e2 := (hbody b hb hmb).2.1 bb cb h2
  have := net_agreement hwf hr ha hb hma hmb h1 h2
  have hh : ba.hash = bb.hash := by rw [e1, e2, this]
  exact ⟨hh, fun hinj => hinj hh⟩

/-- under A2 the block a correct member commits is the one certified: it commits to the hash of the
COMMITs in its certificate (the hash `ValidateBlockConsensus` checks the block against, C03) -/
theorem net_committed_block_matches (hwf : WF C) {net : Net} (hr : Reach C net) (hA2 : TraceA2 net.trace) {a : Nat}
    (ha : C.honest a = true) (hma : ∃ m ∈ C.ms, m.id = a) {ba : Block} {ca : List CMsg}
    (h1 : Out.commit ba ca ∈ net.outs a) : ba.hash = commitHash ca :=
  (reach_blocks hwf hr hA2 a ha hma).2.1 ba ca h1

/-- the certified hash was accepted (PREPARE sent, or proposed as leader) by a correct member -/
theorem net_decided_was_accepted (hwf : WF C) {net : Net} (hr : Reach C net) {a : Nat}
    (ha : C.honest a = true) (hma : ∃ m ∈ C.ms, m.id = a) {ba : Block} {ca : List CMsg}
    (h1 : Out.commit ba ca ∈ net.outs a) :
    ∃ v, ∃ m ∈ C.ms, C.honest m.id = true ∧ Ev.acc m.id v (commitHash ca) ∈ net.H :=
  Spec.decided_was_accepted_by_correct (setting C hwf) (reach_inv hwf hr).valid (commit_in_history hwf hr ha hma h1)

/-- **whatever a correct member sends may be delivered to any correct member**: every message in a
correct member's output is admissible with respect to the current history (its own signatures cover
statements it made; the signatures it relays were admissible when it logged them).  Together with
`event_enabled` this shows that the unforgeability constraint never blocks honest traffic. -/
theorem sent_admissible (hwf : WF C) {net : Net} (hr : Reach C net) {i : Nat} (hh : C.honest i = true)
    (hm : ∃ m ∈ C.ms, m.id = i) {rcpt : List Nat} {m : Message} (hs : Out.send rcpt m ∈ net.outs i) :
    AdmMsg C net.H m := by
  have hinv := reach_inv hwf hr
  cases hst : net.started i with
  | false =>
    have := (hinv.fresh i hst).2.1
    rw [this] at hs; cases hs
  | true => exact (hinv.nodes i hh hm hst).sends rcpt m hs

/-! ## the step relation does not restrict the term model: every filtered, admissible event can be taken -/

theorem event_enabled (hwf : WF C) {net : Net} (hr : Reach C net) (i : Nat) (hh : C.honest i = true)
    (hm : ∃ m ∈ C.ms, m.id = i) (hs : net.started i = true) (e : Event) (spi : List Spi)
    (hns : ∀ c, e ≠ .start c) (hg : Gate (C.cfg i) e) (ha : AdmEvent C net.H e) :
    ∃ net', NStep C net net' ∧ net'.node i = (step (net.node i) e spi).1
      ∧ net'.outs i = net.outs i ++ (step (net.node i) e spi).2 := by
  have hinv := reach_inv hwf hr
  obtain ⟨⟨T, hcore, _⟩, _, hvo, hlv, _⟩ := hinv.nodes i hh hm hs
  have hloc : EventLocal (net.node i) e := eventLocal_of_gate _ e (by rw [hcore.cfg]; exact hg) hns
  obtain ⟨w', g, hruns, hst⟩ := step_runs (net.node i) e spi hloc hvo hlv hcore.ginv.leader
  refine ⟨_, NStep.event net i e spi w' g hh hm hs hns hg ha hruns hst, ?_, ?_⟩
  · show upd net.node i w'.n i = _
    rw [upd_same, hst]
  · show upd net.outs i (net.outs i ++ w'.outs) i = _
    rw [upd_same, hst]

theorem start_enabled (hwf : WF C) {net : Net} (hr : Reach C net) (i : Nat) (hh : C.honest i = true)
    (hm : ∃ m ∈ C.ms, m.id = i) (hs : net.started i = false) (first : Bool) (spi : List Spi) :
    ∃ net', NStep C net net' ∧ net'.node i = (step { cfg := C.cfg i } (.start first) spi).1
      ∧ net'.outs i = (step { cfg := C.cfg i } (.start first) spi).2 ∧ net'.started i = true := by
  have hinv := reach_inv hwf hr
  obtain ⟨f1, f2, _⟩ := hinv.fresh i hs
  obtain ⟨w', g, hruns, hst⟩ := step_runs (net.node i) (.start first) spi (by rw [f1]; exact ⟨rfl, rfl⟩)
    (by rw [f1]; exact viewsOK_init _) (by rw [f1]; exact C10.lvInv_init _) (by rw [f1]; exact (C01Local.ginv_init _).leader)
  refine ⟨_, NStep.start net i first spi w' g hh hm hs hruns hst, ?_, ?_, ?_⟩
  · show upd net.node i w'.n i = _
    rw [upd_same, ← f1, hst]
  · show upd net.outs i (net.outs i ++ w'.outs) i = _
    rw [upd_same, f2, ← f1, hst]; rfl
  · show upd net.started i true i = true
    rw [upd_same]

/-! ## non-vacuity: a concrete execution of the network model in which two correct members commit

committee of four unit-weight members (ids 1–4), member 4 Byzantine (weight 1 = f); member 1 leads
view 0, proposes block 9 with hash 99; members 2 and 3 validate it and send PREPARE; the PREPAREs and
COMMITs are delivered; members 2 and 3 both hand block 9 to their commit callbacks.  Every step
passes the decidable filter / unforgeability checks of `Net/Sim.lean`, so the final state is
reachable (`sim_reach`) and the hypotheses of `net_agreement` are met by it. -/

def exC : NetCfg := ⟨7, 5, [⟨1, 1⟩, ⟨2, 1⟩, ⟨3, 1⟩, ⟨4, 1⟩], fun i => i != 4⟩

theorem exWF : WF exC := ⟨⟨by decide, by decide⟩, by decide⟩

def exBlock : Block := ⟨9, 5, 99⟩
def exPP : PPMsg := ⟨⟨⟨tPP, 7, 5, 0, 99⟩, ⟨1, true⟩⟩, some exBlock⟩
def exP (i : Nat) : PMsg := ⟨⟨tP, 7, 5, 0, 99⟩, ⟨i, true⟩⟩
def exCm (i : Nat) : CMsg := ⟨⟨tC, 7, 5, 0, 99⟩, ⟨i, true⟩, true⟩

def exSched : List SStep :=
  [(1, .start true, [.proposal exBlock none]),
   (2, .start true, []),
   (3, .start true, []),
   (2, .deliver (.preprepare exPP), [.verdict true none]),
   (3, .deliver (.preprepare exPP), [.verdict true none]),
   (3, .deliver (.prepare (exP 2)), []),
   (2, .deliver (.prepare (exP 3)), []),
   (1, .deliver (.prepare (exP 2)), []),
   (1, .deliver (.prepare (exP 3)), []),
   (2, .deliver (.commit (exCm 3)), []),
   (2, .deliver (.commit (exCm 1)), []),
   (3, .deliver (.commit (exCm 2)), []),
   (3, .deliver (.commit (exCm 1)), [])]

theorem exOk : simOk exC (SimState.init exC) exSched = true := by decide

def commitsOf (outs : List Out) : List (Block × List CMsg) :=
  outs.filterMap (fun o => match o with | .commit b cs => some (b, cs) | _ => none)

theorem mem_commitsOf {outs : List Out} {b : Block} {cs : List CMsg} (h : (b, cs) ∈ commitsOf outs) :
    Out.commit b cs ∈ outs := by
  unfold commitsOf at h
  rw [List.mem_filterMap] at h
  obtain ⟨o, ho, he⟩ := h
  cases o with
  | commit b' cs' => simp only [Option.some.injEq, Prod.mk.injEq] at he; obtain ⟨rfl, rfl⟩ := he; exact ho
  | send _ _ => simp at he
  | registerElection _ _ => simp at he
  | callRequest _ => simp at he
  | callValidate _ _ _ => simp at he
  | goPanic _ => simp at he

theorem ex_two_commits : ∃ net, Reach exC net
    ∧ (∃ cs, Out.commit exBlock cs ∈ net.outs 2 ∧ commitHash cs = 99)
    ∧ (∃ cs, Out.commit exBlock cs ∈ net.outs 3 ∧ commitHash cs = 99) := by
  obtain ⟨net, hr, ⟨_, _, ho⟩, _⟩ := sim_reach exWF exSched (SimState.init exC) (Net.init exC) .init (agrees_init exC) exOk
  refine ⟨net, hr, ?_, ?_⟩
  · rw [ho]
    exact ⟨[exCm 2, exCm 3, exCm 1], mem_commitsOf (by decide), rfl⟩
  · rw [ho]
    exact ⟨[exCm 3, exCm 2, exCm 1], mem_commitsOf (by decide), rfl⟩

/-- the schedule of the example obeys A2 (the delivered proposal's block commits to its hash) -/
theorem ex_traceA2 : TraceA2 exSched.reverse := by
  intro t ht
  rw [List.mem_reverse] at ht
  simp only [exSched, List.mem_cons, List.not_mem_nil, or_false] at ht
  intro cd rest hspi
  rcases ht with rfl | rfl | rfl | rfl | rfl | rfl | rfl | rfl | rfl | rfl | rfl | rfl | rfl <;>
    first
    | (simp at hspi; done)
    | (show commitmentOk exPP.block exPP.c.header.hash = true; decide)
    | trivial

/-- the same execution, with its schedule -/
theorem ex_trace : ∃ net, Reach exC net ∧ net.trace = exSched.reverse := by
  obtain ⟨net, hr, _, ht⟩ := sim_reach exWF exSched (SimState.init exC) (Net.init exC) .init (agrees_init exC) exOk
  exact ⟨net, hr, by rw [ht]; exact List.append_nil _⟩

end LeanHelix.C01Net
