import LeanHelix.Props.C10
/-!
# C10 (leader part) — a node sends at most one NEW_VIEW per view

Over arbitrary event sequences of the Term model: the election path (`checkElected`) is guarded by
`latestNV < view`, sets `latestNV := view` and is the only sender of NEW_VIEW; `latestNV` never
decreases (it is also raised by adopting a NEW_VIEW) and never exceeds the node's view.  Hence no
two NEW_VIEWs for the same view are ever sent by one node, whatever it receives
(`one_newview_per_view`).  The PREPREPARE of view 0 is sent by `startTerm` only, which runs once per term.
-/
namespace LeanHelix.C10
open LeanHelix LeanHelix.Msg LeanHelix.Term

def isNV : Out → Bool
  | .send _ (.newView _) => true
  | _ => false

/-- "not a NEW_VIEW send" -/
def NoNV (o : Out) : Prop := isNV o = false

/-- predicates that hold of everything a follower path can emit -/
structure AccFollow (P : Out → Prop) : Prop extends Benign P where
  pr : ∀ rs m, P (.send rs (.prepare m))
  cm : ∀ rs m, P (.send rs (.commit m))
  vc : ∀ rs m, P (.send rs (.viewChange m))
  pp : ∀ rs m, P (.send rs (.preprepare m))
  cb : ∀ b cs, P (.commit b cs)

theorem noNV_follow : AccFollow NoNV :=
  ⟨⟨fun _ _ => rfl, fun _ => rfl, fun _ _ _ => rfl, fun _ => rfl⟩, fun _ _ => rfl, fun _ _ => rfl, fun _ _ => rfl, fun _ _ => rfl, fun _ _ => rfl⟩

theorem checkCommitted_appendsF {P} (hP : AccFollow P) (w : Term.W) (h v hash : Nat) : Appends P w (checkCommitted w h v hash) := by
  unfold checkCommitted
  dsimp only
  split
  · exact Appends.refl _ _
  split
  · exact Appends.refl _ _
  split
  · exact Appends.refl _ _
  split
  · exact Appends.refl _ _
  · rename_i ppm _
    have h0 : Appends P w (ctxFor w h maxView).1 := Appends.of_outs_eq (ctxFor_outs _ _ _)
    split
    · exact h0
    · split
      · exact h0
      · rename_i b _
        split
        · exact Appends.emit_trans _ (Appends.setN _ h0) (hP.cb _ _)
        · exact Appends.emit_trans _ (Appends.setN _ (Appends.emit_trans _ h0 (hP.cm _ _))) (hP.cb _ _)

theorem onPreparedLocally_appendsF {P} (hP : AccFollow P) (w : Term.W) (h v hash : Nat) : Appends P w (onPreparedLocally w h v hash) := by
  unfold onPreparedLocally
  dsimp only
  refine Appends.trans ?_ (checkCommitted_appendsF hP _ h v hash)
  exact Appends.emit_trans _ (Appends.setN _ (Appends.setN _ (Appends.refl _ w))) (hP.cm _ _)

theorem checkPreparedLocally_appendsF {P} (hP : AccFollow P) (w : Term.W) (h v hash : Nat) : Appends P w (checkPreparedLocally w h v hash) := by
  rcases checkPreparedLocally_cases w h v hash with e | ⟨_, e⟩
  · rw [e]; exact Appends.refl _ _
  · rw [e]; exact onPreparedLocally_appendsF hP w h v hash

theorem handlePrepare_appendsF {P} (hP : AccFollow P) (w : Term.W) (pm : PMsg) : Appends P w (handlePrepare w pm) := by
  unfold handlePrepare
  dsimp only
  split; exact Appends.refl _ _
  split; exact Appends.refl _ _
  split; exact Appends.refl _ _
  split; exact Appends.refl _ _
  split; exact Appends.refl _ _
  exact checkPreparedLocally_appendsF hP _ _ _ _

theorem handleCommit_appendsF {P} (hP : AccFollow P) (w : Term.W) (cm : CMsg) : Appends P w (handleCommit w cm) := by
  unfold handleCommit
  dsimp only
  split; exact Appends.refl _ _
  split; exact Appends.refl _ _
  split; exact Appends.refl _ _
  split; exact Appends.refl _ _
  exact checkCommitted_appendsF hP _ _ _ _

theorem processPreprepare_appendsF {P} (hP : AccFollow P) (w : Term.W) (ppm : PPMsg) : Appends P w (processPreprepare w ppm) := by
  unfold processPreprepare
  dsimp only
  split
  · exact Appends.refl _ _
  · refine Appends.trans ?_ (checkPreparedLocally_appendsF hP _ _ _ _)
    exact Appends.emit_trans _ (Appends.setN _ (Appends.refl _ w)) (hP.pr _ _)

theorem handlePrePrepare_appendsF {P} (hP : AccFollow P) (w : Term.W) (ppm : PPMsg) : Appends P w (handlePrePrepare w ppm) := by
  unfold handlePrePrepare
  split
  · exact Appends.refl _ _
  split
  · exact Appends.refl _ _
  · dsimp only
    have h0 := askValidate_appends' hP.toBenign w ppm.c.header.height ppm.c.header.view ppm.block ppm.c.header.hash
    generalize askValidate w ppm.c.header.height ppm.c.header.view ppm.block ppm.c.header.hash = r at h0 ⊢
    obtain ⟨w1, ok⟩ := r
    dsimp only at h0 ⊢
    split
    · exact h0
    · exact Appends.trans h0 (processPreprepare_appendsF hP _ _)

theorem adoptNewView_appendsF {P} (hP : AccFollow P) (w : Term.W) (nvm : NVMsg) : Appends P w (adoptNewView w nvm) := by
  unfold adoptNewView
  dsimp only
  have key : ∀ (w1 : Term.W) (ok : Bool), Appends P w w1 →
      Appends P w (if (!ok) = true then w1 else
        if (!validatePreprepare w1.n ⟨nvm.pp, nvm.block⟩) = true then w1 else
          if (!(initView { w1 with n := { w1.n with latestNV := nvm.header.view } } nvm.header.view).2) = true
          then (initView { w1 with n := { w1.n with latestNV := nvm.header.view } } nvm.header.view).1
          else processPreprepare (initView { w1 with n := { w1.n with latestNV := nvm.header.view } } nvm.header.view).1 ⟨nvm.pp, nvm.block⟩) := by
    intro w1 ok h1
    split
    · exact h1
    split
    · exact h1
    have hiv := initView_appends' hP.toBenign { w1 with n := { w1.n with latestNV := nvm.header.view } } nvm.header.view
    have h2 : Appends P w (initView { w1 with n := { w1.n with latestNV := nvm.header.view } } nvm.header.view).1 :=
      Appends.trans (Appends.setN _ h1) hiv
    split
    · exact h2
    · exact Appends.trans h2 (processPreprepare_appendsF hP _ _)
  by_cases hlv : (latestVote nvm.header.votes).isNone = true
  · simp only [hlv, if_true]
    exact key _ _ (askValidate_appends' hP.toBenign _ _ _ _ _)
  · simp only [hlv]
    exact key w true (Appends.refl _ _)

theorem handleNewView_appendsF {P} (hP : AccFollow P) (w : Term.W) (nvm : NVMsg) : Appends P w (handleNewView w nvm) := by
  unfold handleNewView
  dsimp only
  split; exact Appends.refl _ _
  split; exact Appends.refl _ _
  split; exact Appends.refl _ _
  split; exact Appends.refl _ _
  split; exact Appends.refl _ _
  split; exact Appends.refl _ _
  split; exact Appends.refl _ _
  split; exact Appends.refl _ _
  split; exact Appends.refl _ _
  exact adoptNewView_appendsF hP w nvm

/-! ## the election path: at most one NEW_VIEW, for the elected view, and the bookkeeping -/

/-- what an event adds: no NEW_VIEW at all, or effects without NEW_VIEW followed by exactly one NEW_VIEW for view `v` -/
def OneNV (v : Nat) (w w' : Term.W) : Prop :=
  Appends NoNV w w' ∨
  ∃ l rs nv, w'.outs = w.outs ++ l ++ [.send rs (.newView nv)] ∧ (∀ o ∈ l, NoNV o) ∧ nv.header.view = v

theorem onElected_oneNV (w : Term.W) (view : Nat) (vcs : List VCMsg) :
    OneNV view w (onElectedByViewChange w view vcs) ∧ (onElectedByViewChange w view vcs).n.latestNV = view
    ∧ view ≤ (onElectedByViewChange w view vcs).n.view := by
  have hB : Benign NoNV := noNV_follow.toBenign
  unfold onElectedByViewChange
  dsimp only
  have h0 := initView_appends' hB { w with n := { w.n with latestNV := view } } view
  have c0 := (initView_n { w with n := { w.n with latestNV := view } } view).2.2.2.2.1
  have cv : view ≤ (initView { w with n := { w.n with latestNV := view } } view).1.n.view := by
    unfold initView
    split
    · rename_i hgt; show view ≤ w.n.view; exact Nat.le_of_lt hgt
    · exact Nat.le_refl _
  generalize initView { w with n := { w.n with latestNV := view } } view = r at h0 c0 cv ⊢
  obtain ⟨w1, ok⟩ := r
  have h0' : Appends NoNV w w1 := h0
  have c1 : w1.n.latestNV = view := c0
  have cv1 : view ≤ w1.n.view := cv
  dsimp only
  split
  · exact ⟨Or.inl h0', c1, cv1⟩
  · split
    · refine ⟨Or.inr ?_, c1, cv1⟩
      obtain ⟨l, el, pl⟩ := h0'
      exact ⟨l, _, _, by simp only [W.emit, el]; rfl, pl, rfl⟩
    · have h1 := Appends.trans h0' (askProposal_appends' hB w1 w1.n.cfg.height view)
      have c2 := (askProposal_n w1 w1.n.cfg.height view).2.2.2.2.2
      have c3 := (askProposal_n w1 w1.n.cfg.height view).2.2.1
      generalize askProposal w1 w1.n.cfg.height view = r2 at h1 c2 c3 ⊢
      obtain ⟨w2, ob⟩ := r2
      dsimp only at h1 c2 c3 ⊢
      have c2' : w2.n.latestNV = view := c2.trans c1
      have c3' : view ≤ w2.n.view := by rw [c3]; exact cv1
      split
      · refine ⟨Or.inr ?_, c2', c3'⟩
        obtain ⟨l, el, pl⟩ := h1
        exact ⟨l, _, _, by simp only [W.emit, el]; rfl, pl, rfl⟩
      · exact ⟨Or.inl h1, c2', c3'⟩

/-- `checkElected`: either nothing happens, or the guard `latestNV < view` held and afterwards `latestNV = view` -/
theorem checkElected_oneNV (w : Term.W) (h view : Nat) :
    (checkElected w h view = w) ∨
    (w.n.latestNV < view ∧ OneNV view w (checkElected w h view) ∧ (checkElected w h view).n.latestNV = view
      ∧ view ≤ (checkElected w h view).n.view) := by
  unfold checkElected
  split
  · exact Or.inl rfl
  · rename_i hg
    dsimp only
    split
    · exact Or.inl rfl
    split
    · exact Or.inl rfl
    · right
      obtain ⟨a, b, c⟩ := onElected_oneNV w view (w.n.store.getVCs h view)
      exact ⟨by omega, a, b, c⟩

/-- bookkeeping invariant: the last view for which the node was elected or adopted a NEW_VIEW never exceeds its view -/
def LVInv (n : Node) : Prop := n.latestNV ≤ n.view

/-- what one handler call does with respect to NEW_VIEWs and the bookkeeping, from a state that satisfies the invariant -/
def StepW (w w' : Term.W) : Prop :=
  LVInv w.n →
  (w.n.latestNV ≤ w'.n.latestNV ∧ LVInv w'.n ∧
  (Appends NoNV w w' ∨
    ∃ l rs nv, w'.outs = w.outs ++ l ++ [.send rs (.newView nv)] ∧ (∀ o ∈ l, NoNV o)
      ∧ w.n.latestNV < nv.header.view ∧ nv.header.view ≤ w'.n.latestNV))

theorem stepW_same {w w' : Term.W} (hv : w'.n.view = w.n.view) (hl : w'.n.latestNV = w.n.latestNV)
    (ha : Appends NoNV w w') : StepW w w' := by
  intro hi
  exact ⟨by rw [hl]; exact Nat.le_refl _, by unfold LVInv at hi ⊢; rw [hv, hl]; exact hi, Or.inl ha⟩

/-- a handler that first emits NEW_VIEW-free effects and moves the view forward, then continues -/
theorem stepW_prefix {w w1 w' : Term.W} (p : List Out) (ho : w1.outs = w.outs ++ p) (hp : ∀ o ∈ p, NoNV o)
    (hl : w1.n.latestNV = w.n.latestNV) (hv : w.n.view ≤ w1.n.view) (h : StepW w1 w') : StepW w w' := by
  intro hi
  have hi1 : LVInv w1.n := by unfold LVInv at hi ⊢; rw [hl]; omega
  obtain ⟨s1, s2, s3⟩ := h hi1
  refine ⟨by rw [← hl]; exact s1, s2, ?_⟩
  rcases s3 with ⟨l, el, pl⟩ | ⟨l, rs, nv, eo, pl, e1, e2⟩
  · left
    refine ⟨p ++ l, by rw [el, ho, List.append_assoc], ?_⟩
    intro o hmem
    rcases List.mem_append.mp hmem with hm | hm
    · exact hp o hm
    · exact pl o hm
  · right
    refine ⟨p ++ l, rs, nv, by rw [eo, ho]; simp [List.append_assoc], ?_, by rw [← hl]; exact e1, e2⟩
    intro o hmem
    rcases List.mem_append.mp hmem with hm | hm
    · exact hp o hm
    · exact pl o hm

theorem checkPreparedLocally_lv (w : Term.W) (h v hash : Nat) :
    (checkPreparedLocally w h v hash).n.view = w.n.view ∧ (checkPreparedLocally w h v hash).n.latestNV = w.n.latestNV := by
  rcases checkPreparedLocally_cases w h v hash with e | ⟨_, e⟩
  · rw [e]; exact ⟨rfl, rfl⟩
  · rw [e]; obtain ⟨_, _, c3, _, c5⟩ := onPreparedLocally_n w h v hash; exact ⟨c3, c5⟩

theorem handlePrepare_stepW (w : Term.W) (pm : PMsg) : StepW w (handlePrepare w pm) := by
  refine stepW_same ?_ ?_ (handlePrepare_appendsF noNV_follow w pm)
  all_goals
    unfold handlePrepare
    dsimp only
    split; rfl
    split; rfl
    split; rfl
    split; rfl
    split; rfl
  · exact (checkPreparedLocally_lv _ _ _ _).1
  · exact (checkPreparedLocally_lv _ _ _ _).2

theorem handleCommit_stepW (w : Term.W) (cm : CMsg) : StepW w (handleCommit w cm) := by
  refine stepW_same ?_ ?_ (handleCommit_appendsF noNV_follow w cm)
  all_goals
    unfold handleCommit
    dsimp only
    split; rfl
    split; rfl
    split; rfl
    split; rfl
  · exact (checkCommitted_n _ _ _ _).2.2.1
  · exact (checkCommitted_n _ _ _ _).2.2.2.2

theorem processPreprepare_lv (w : Term.W) (ppm : PPMsg) :
    (processPreprepare w ppm).n.view = w.n.view ∧ (processPreprepare w ppm).n.latestNV = w.n.latestNV := by
  unfold processPreprepare
  dsimp only
  split
  · exact ⟨rfl, rfl⟩
  · exact checkPreparedLocally_lv _ _ _ _

theorem handlePrePrepare_stepW (w : Term.W) (ppm : PPMsg) : StepW w (handlePrePrepare w ppm) := by
  refine stepW_same ?_ ?_ (handlePrePrepare_appendsF noNV_follow w ppm)
  all_goals
    unfold handlePrePrepare
    split; rfl
    split; rfl
    dsimp only
    obtain ⟨_, _, a3, _, _, a6⟩ := askValidate_n w ppm.c.header.height ppm.c.header.view ppm.block ppm.c.header.hash
    generalize askValidate w ppm.c.header.height ppm.c.header.view ppm.block ppm.c.header.hash = r at a3 a6 ⊢
    obtain ⟨w1, ok⟩ := r
    dsimp only at a3 a6 ⊢
    split
  · exact a3
  · rw [(processPreprepare_lv _ _).1]; exact a3
  · exact a6
  · rw [(processPreprepare_lv _ _).2]; exact a6

theorem handleNewView_stepW (w : Term.W) (nvm : NVMsg) : StepW w (handleNewView w nvm) := by
  have ha := handleNewView_appendsF noNV_follow w nvm
  -- view and bookkeeping: unchanged, or both become the NEW_VIEW's view (which is not below the node's view)
  have hlv : ((handleNewView w nvm).n.view = w.n.view ∧ (handleNewView w nvm).n.latestNV = w.n.latestNV) ∨
      ((handleNewView w nvm).n.view = nvm.header.view ∧ (handleNewView w nvm).n.latestNV = nvm.header.view ∧ w.n.view ≤ nvm.header.view) := by
    unfold handleNewView
    dsimp only
    split; exact Or.inl ⟨rfl, rfl⟩
    split; exact Or.inl ⟨rfl, rfl⟩
    rename_i hgt
    split; exact Or.inl ⟨rfl, rfl⟩
    split; exact Or.inl ⟨rfl, rfl⟩
    split; exact Or.inl ⟨rfl, rfl⟩
    split; exact Or.inl ⟨rfl, rfl⟩
    split; exact Or.inl ⟨rfl, rfl⟩
    split; exact Or.inl ⟨rfl, rfl⟩
    split; exact Or.inl ⟨rfl, rfl⟩
    unfold adoptNewView
    dsimp only
    have key : ∀ (w1 : Term.W) (ok : Bool), w1.n.view = w.n.view → w1.n.latestNV = w.n.latestNV →
        (let r := (if (!ok) = true then w1 else
          if (!validatePreprepare w1.n ⟨nvm.pp, nvm.block⟩) = true then w1 else
            if (!(initView { w1 with n := { w1.n with latestNV := nvm.header.view } } nvm.header.view).2) = true
            then (initView { w1 with n := { w1.n with latestNV := nvm.header.view } } nvm.header.view).1
            else processPreprepare (initView { w1 with n := { w1.n with latestNV := nvm.header.view } } nvm.header.view).1 ⟨nvm.pp, nvm.block⟩)
         (r.n.view = w.n.view ∧ r.n.latestNV = w.n.latestNV) ∨
         (r.n.view = nvm.header.view ∧ r.n.latestNV = nvm.header.view ∧ w.n.view ≤ nvm.header.view)) := by
      intro w1 ok hv hl
      dsimp only
      split
      · exact Or.inl ⟨hv, hl⟩
      split
      · exact Or.inl ⟨hv, hl⟩
      have hle : ¬ w1.n.view > nvm.header.view := by rw [hv]; exact hgt
      have hiv : initView { w1 with n := { w1.n with latestNV := nvm.header.view } } nvm.header.view
          = (({ w1 with n := { w1.n with latestNV := nvm.header.view, view := nvm.header.view } } : Term.W).emit (.registerElection w1.n.cfg.height nvm.header.view), true) := by
        unfold initView
        rw [if_neg hle]
      rw [hiv]
      simp only [Bool.not_true, Bool.false_eq_true, if_false]
      right
      obtain ⟨p1, p2⟩ := processPreprepare_lv (({ w1 with n := { w1.n with latestNV := nvm.header.view, view := nvm.header.view } } : Term.W).emit (.registerElection w1.n.cfg.height nvm.header.view)) ⟨nvm.pp, nvm.block⟩
      exact ⟨p1, p2, by omega⟩
    by_cases hlvn : (latestVote nvm.header.votes).isNone = true
    · simp only [hlvn, if_true]
      obtain ⟨_, _, a3, _, _, a6⟩ := askValidate_n w nvm.header.height nvm.header.view nvm.block nvm.pp.header.hash
      exact key _ _ a3 a6
    · simp only [hlvn]
      exact key w true rfl rfl
  rcases hlv with ⟨hv, hl⟩ | ⟨hv, hl, hle⟩
  · exact stepW_same hv hl ha
  · intro hi
    refine ⟨?_, ?_, Or.inl ha⟩
    · rw [hl]; unfold LVInv at hi; omega
    · unfold LVInv; rw [hv, hl]; exact Nat.le_refl _

/-- `checkElected` from a state whose log was just extended -/
theorem checkElected_stepW (w : Term.W) (h view : Nat) : StepW w (checkElected w h view) := by
  intro hi
  rcases checkElected_oneNV w h view with e | ⟨hlt, hone, hlv, hvw⟩
  · rw [e]
    exact ⟨Nat.le_refl _, hi, Or.inl (Appends.refl _ _)⟩
  · refine ⟨by rw [hlv]; omega, by unfold LVInv; rw [hlv]; exact hvw, ?_⟩
    rcases hone with ha | ⟨l, rs, nv, eo, pl, evw⟩
    · exact Or.inl ha
    · exact Or.inr ⟨l, rs, nv, eo, pl, by rw [evw]; exact hlt, by rw [evw, hlv]; exact Nat.le_refl _⟩

theorem handleViewChange_stepW (w : Term.W) (vcm : VCMsg) : StepW w (handleViewChange w vcm) := by
  unfold handleViewChange
  dsimp only
  have hrefl : StepW w w := stepW_same rfl rfl (Appends.refl _ _)
  split; exact hrefl
  split; exact hrefl
  split; exact hrefl
  split; exact hrefl
  split; exact hrefl
  refine stepW_prefix (h := checkElected_stepW _ _ _) [] ?_ ?_ ?_ ?_
  · simp
  · simp
  · rfl
  · exact Nat.le_refl _

theorem election_stepW (w : Term.W) (h v : Nat) : StepW w (election w h v) := by
  unfold election
  dsimp only
  have hrefl : StepW w w := stepW_same rfl rfl (Appends.refl _ _)
  split
  · exact hrefl
  · -- initView to the next view
    by_cases hgt : w.n.view > wrap64 (w.n.view + 1)
    · have : initView w (wrap64 (w.n.view + 1)) = (w, false) := by unfold initView; rw [if_pos hgt]
      rw [this]; exact hrefl
    · have hiv : initView w (wrap64 (w.n.view + 1)) =
          (({ w with n := { w.n with view := wrap64 (w.n.view + 1) } } : Term.W).emit (.registerElection w.n.cfg.height (wrap64 (w.n.view + 1))), true) := by
        unfold initView; rw [if_neg hgt]
      rw [hiv]
      simp only [Bool.not_true, Bool.false_eq_true, if_false]
      have hle : w.n.view ≤ wrap64 (w.n.view + 1) := by omega
      split
      · -- this node leads the next view: it counts its own vote and may be elected
        refine stepW_prefix (h := checkElected_stepW _ _ _) [.registerElection w.n.cfg.height (wrap64 (w.n.view + 1))] ?_ ?_ ?_ ?_
        · simp [W.emit]
        · intro o ho
          simp only [List.mem_singleton] at ho
          subst ho; rfl
        · rfl
        · exact hle
      · intro hi
        refine ⟨Nat.le_refl _, ?_, Or.inl ?_⟩
        · unfold LVInv at hi ⊢; show w.n.latestNV ≤ wrap64 (w.n.view + 1); omega
        · exact Appends.emit_trans _ (Appends.emit_trans _ (Appends.setN _ (Appends.refl _ w)) rfl) rfl

theorem startTerm_stepW (w : Term.W) (c : Bool) : StepW w (startTerm w c) := by
  have hview : (startTerm w c).n.view = w.n.view ∧ (startTerm w c).n.latestNV = w.n.latestNV ∧ Appends NoNV w (startTerm w c) := by
    unfold startTerm
    dsimp only
    by_cases hgt : w.n.view > 0
    · have : initView { w with n := { w.n with prepared := none } } 0 = ({ w with n := { w.n with prepared := none } }, false) := by
        unfold initView; rw [if_pos hgt]
      rw [this]
      exact ⟨rfl, rfl, Appends.setN _ (Appends.refl _ w)⟩
    · have hz : w.n.view = 0 := by omega
      have hiv : initView { w with n := { w.n with prepared := none } } 0 =
          (({ w with n := { w.n with prepared := none, view := 0 } } : Term.W).emit (.registerElection w.n.cfg.height 0), true) := by
        unfold initView; rw [if_neg hgt]
      rw [hiv]
      simp only [Bool.not_true, Bool.false_eq_true, if_false]
      have h1 : Appends NoNV w (({ w with n := { w.n with prepared := none, view := 0 } } : Term.W).emit (.registerElection w.n.cfg.height 0)) :=
        Appends.emit_trans _ (Appends.setN _ (Appends.refl _ w)) rfl
      split
      · exact ⟨hz.symm, rfl, h1⟩
      split
      · exact ⟨hz.symm, rfl, h1⟩
      · have ha := askProposal_appends' noNV_follow.toBenign (({ w with n := { w.n with prepared := none, view := 0 } } : Term.W).emit (.registerElection w.n.cfg.height 0)) (({ w with n := { w.n with prepared := none, view := 0 } } : Term.W).emit (.registerElection w.n.cfg.height 0)).n.cfg.height 0
        obtain ⟨_, _, a3, _, _, a6⟩ := askProposal_n (({ w with n := { w.n with prepared := none, view := 0 } } : Term.W).emit (.registerElection w.n.cfg.height 0)) (({ w with n := { w.n with prepared := none, view := 0 } } : Term.W).emit (.registerElection w.n.cfg.height 0)).n.cfg.height 0
        generalize askProposal (({ w with n := { w.n with prepared := none, view := 0 } } : Term.W).emit (.registerElection w.n.cfg.height 0)) (({ w with n := { w.n with prepared := none, view := 0 } } : Term.W).emit (.registerElection w.n.cfg.height 0)).n.cfg.height 0 = r at ha a3 a6 ⊢
        obtain ⟨w2, ob⟩ := r
        dsimp only at ha a3 a6 ⊢
        have hv2 : w2.n.view = w.n.view := by rw [a3]; exact hz.symm
        have hl2 : w2.n.latestNV = w.n.latestNV := a6
        split
        · exact ⟨hv2, hl2, Appends.trans h1 ha⟩
        · exact ⟨hv2, hl2, Appends.emit_trans _ (Appends.setN _ (Appends.trans h1 ha)) rfl⟩
  exact stepW_same hview.1 hview.2.1 hview.2.2

/-! ## executions -/

/-- views of the NEW_VIEWs among the effects, in order -/
def nvViews (outs : List Out) : List Nat :=
  outs.filterMap (fun o => match o with | .send _ (.newView nv) => some nv.header.view | _ => none)

theorem nvViews_noNV (l : List Out) (h : ∀ o ∈ l, NoNV o) : nvViews l = [] := by
  induction l with
  | nil => rfl
  | cons o l ih =>
    have ho := h o (List.mem_cons_self ..)
    have := ih (fun x hx => h x (List.mem_cons_of_mem _ hx))
    unfold nvViews at this ⊢
    rw [List.filterMap_cons]
    cases o with
    | send rs m =>
      cases m with
      | newView nv => exact absurd ho (by simp [NoNV, isNV])
      | _ => simpa using this
    | _ => simpa using this

theorem nvViews_append (a b : List Out) : nvViews (a ++ b) = nvViews a ++ nvViews b := by
  unfold nvViews; rw [List.filterMap_append]

/-- **one event**: from a state satisfying the invariant, an event sends no NEW_VIEW or exactly one,
for a view above the bookkeeping value, which it raises to at least that view -/
theorem step_nv (n : Node) (e : Event) (spi : List Spi) (hi : LVInv n) :
    n.latestNV ≤ (step n e spi).1.latestNV ∧ LVInv (step n e spi).1 ∧
    (nvViews (step n e spi).2 = [] ∨
      ∃ v, nvViews (step n e spi).2 = [v] ∧ n.latestNV < v ∧ v ≤ (step n e spi).1.latestNV) := by
  have key : ∀ (w' : Term.W), StepW { n := n, spi := spi } w' →
      n.latestNV ≤ w'.n.latestNV ∧ LVInv w'.n ∧
      (nvViews w'.outs = [] ∨ ∃ v, nvViews w'.outs = [v] ∧ n.latestNV < v ∧ v ≤ w'.n.latestNV) := by
    intro w' hs
    obtain ⟨s1, s2, s3⟩ := hs hi
    refine ⟨s1, s2, ?_⟩
    rcases s3 with ⟨l, el, pl⟩ | ⟨l, rs, nv, eo, pl, e1, e2⟩
    · left
      have : w'.outs = l := by simpa using el
      rw [this]; exact nvViews_noNV l pl
    · right
      refine ⟨nv.header.view, ?_, e1, e2⟩
      have : w'.outs = l ++ [.send rs (.newView nv)] := by simpa using eo
      rw [this, nvViews_append, nvViews_noNV l pl]
      rfl
  cases e with
  | start c => exact key _ (startTerm_stepW _ c)
  | election h v => exact key _ (election_stepW _ h v)
  | cancelOlder h v =>
    exact ⟨Nat.le_refl _, hi, Or.inl rfl⟩
  | deliver m =>
    cases m with
    | preprepare m => exact key _ (handlePrePrepare_stepW _ m)
    | prepare m => exact key _ (handlePrepare_stepW _ m)
    | commit m => exact key _ (handleCommit_stepW _ m)
    | viewChange m => exact key _ (handleViewChange_stepW _ m)
    | newView m => exact key _ (handleNewView_stepW _ m)

/-- run a sequence of events (each with its SPI answers), collecting all effects -/
def runOuts (n : Node) : List (Event × List Spi) → Node × List Out
  | [] => (n, [])
  | (e, spi) :: rest =>
    let r := step n e spi
    let r2 := runOuts r.1 rest
    (r2.1, r.2 ++ r2.2)

/-- **Over every execution, the views of the NEW_VIEWs a node sends are strictly increasing** (so it
never sends two NEW_VIEWs for one view, whatever it receives), and all lie above the initial
bookkeeping value. -/
theorem newview_views_increase (es : List (Event × List Spi)) :
    ∀ (n : Node), LVInv n →
      (nvViews (runOuts n es).2).Pairwise (· < ·) ∧ (∀ v ∈ nvViews (runOuts n es).2, n.latestNV < v) := by
  induction es with
  | nil => intro n _; exact ⟨List.Pairwise.nil, by intro v hv; cases hv⟩
  | cons x rest ih =>
    intro n hi
    obtain ⟨e, spi⟩ := x
    obtain ⟨m1, i1, nvs⟩ := step_nv n e spi hi
    obtain ⟨p2, b2⟩ := ih (step n e spi).1 i1
    have hr : (runOuts n ((e, spi) :: rest)).2 = (step n e spi).2 ++ (runOuts (step n e spi).1 rest).2 := rfl
    rw [hr, nvViews_append]
    rcases nvs with e0 | ⟨v, ev, lo, hi2⟩
    · rw [e0, List.nil_append]
      exact ⟨p2, fun v hv => Nat.lt_of_le_of_lt m1 (b2 v hv)⟩
    · rw [ev]
      refine ⟨?_, ?_⟩
      · rw [List.singleton_append, List.pairwise_cons]
        exact ⟨fun a ha => Nat.lt_of_le_of_lt hi2 (b2 a ha), p2⟩
      · intro a ha
        rw [List.singleton_append] at ha
        rcases List.mem_cons.mp ha with rfl | ha
        · exact lo
        · exact Nat.lt_of_le_of_lt m1 (b2 a ha)

/-- corollary in the words of the property: at most one NEW_VIEW per view -/
theorem one_newview_per_view (n : Node) (hi : LVInv n) (es : List (Event × List Spi)) :
    (nvViews (runOuts n es).2).Nodup := by
  have h := (newview_views_increase es n hi).1
  exact h.imp (fun hlt => Nat.ne_of_lt hlt)

/-- the invariant holds initially -/
theorem lvInv_init (c : Cfg) : LVInv { cfg := c } := Nat.le_refl 0

end LeanHelix.C10
