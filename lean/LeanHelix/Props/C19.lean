import LeanHelix.Model.Timeout
/-!
# C19 — Election timer (formula part): exponential, monotone, saturating timeout

Theorems about `Timeout.calcTimeout base view` (model of `CalcTimeout`, `time.Duration` = int64 ns)
for every positive base that fits an int64 and every view (any `Nat`).
The trigger discipline (arm / stop / expire / deliver) is in `Props/C19b` (Trigger machine).
-/
namespace LeanHelix.C19
open LeanHelix.Timeout

private theorem two_pow_pos (v : Nat) : (0 : Int) < 2 ^ v := Int.pow_pos (by decide)

private theorem pow_ge_of_ge {v : Nat} (h : 63 ≤ v) : (2:Int) ^ 63 ≤ 2 ^ v := by
  obtain ⟨k, rfl⟩ : ∃ k, v = 63 + k := ⟨v - 63, by omega⟩
  rw [Int.pow_add]
  have := two_pow_pos k
  have h63 : (0:Int) < 2 ^ 63 := two_pow_pos 63
  calc (2:Int)^63 = 2^63 * 1 := by omega
    _ ≤ 2^63 * 2^k := Int.mul_le_mul_of_nonneg_left (by omega) (by omega)

/-- exact value whenever `base * 2^view` fits a Duration -/
theorem timeout_exact_when_fits (base : Int) (view : Nat) (hb : 0 < base)
    (hfit : base * 2 ^ view ≤ maxInt64) : calcTimeout base view = base * 2 ^ view := by
  unfold calcTimeout
  rw [if_neg (by omega)]
  by_cases hv : view ≥ 63
  · exfalso
    have h1 := pow_ge_of_ge hv
    have h2 : (1:Int) * 2 ^ view ≤ base * 2 ^ view :=
      Int.mul_le_mul_of_nonneg_right (by omega) (by have := two_pow_pos view; omega)
    have : (2:Int)^63 = 9223372036854775808 := by decide
    unfold maxInt64 at hfit; omega
  · rw [if_neg hv]
    have hle : ¬ ((2:Int) ^ view > maxInt64 / base) := by
      intro hgt
      have : maxInt64 < 2 ^ view * base := (Int.ediv_lt_iff_lt_mul hb).mp hgt
      rw [Int.mul_comm] at this; omega
    simp only [hle, if_false]; exact Int.mul_comm _ _

/-- saturation instead of wrap-around -/
theorem timeout_saturates (base : Int) (view : Nat) (hb : 0 < base)
    (hbig : maxInt64 < base * 2 ^ view) : calcTimeout base view = maxInt64 := by
  unfold calcTimeout
  rw [if_neg (by omega)]
  by_cases hv : view ≥ 63
  · rw [if_pos hv]
  · rw [if_neg hv]
    have hgt : (2:Int) ^ view > maxInt64 / base := by
      apply (Int.ediv_lt_iff_lt_mul hb).mpr
      rw [Int.mul_comm]; exact hbig
    simp only [hgt, if_true]

/-- the timeout is `min (base * 2^view) MaxInt64` -/
theorem timeout_eq_min (base : Int) (view : Nat) (hb : 0 < base) :
    calcTimeout base view = min (base * 2 ^ view) maxInt64 := by
  by_cases h : base * 2 ^ view ≤ maxInt64
  · rw [timeout_exact_when_fits base view hb h, Int.min_eq_left h]
  · rw [timeout_saturates base view hb (by omega), Int.min_eq_right (by omega)]

/-- never negative or zero -/
theorem timeout_pos (base : Int) (view : Nat) (hb : 0 < base) : 0 < calcTimeout base view := by
  rw [timeout_eq_min base view hb]
  have : 0 < base * 2 ^ view := Int.mul_pos hb (two_pow_pos view)
  have : (0:Int) < maxInt64 := by decide
  omega

/-- never smaller than the timeout of a lower view -/
theorem timeout_mono (base : Int) (v v' : Nat) (hb : 0 < base) (hvv : v ≤ v') :
    calcTimeout base v ≤ calcTimeout base v' := by
  rw [timeout_eq_min base v hb, timeout_eq_min base v' hb]
  obtain ⟨k, rfl⟩ : ∃ k, v' = v + k := ⟨v' - v, by omega⟩
  have hk := two_pow_pos k
  have hv := two_pow_pos v
  have : base * 2 ^ v ≤ base * 2 ^ (v + k) := by
    rw [Int.pow_add, ← Int.mul_assoc]
    have hp : 0 < base * 2 ^ v := Int.mul_pos hb hv
    calc base * 2 ^ v = base * 2 ^ v * 1 := by omega
      _ ≤ base * 2 ^ v * 2 ^ k := Int.mul_le_mul_of_nonneg_left (by omega) (by omega)
  omega

/-- doubling: while it fits, the timeout of view v+1 is twice that of view v -/
theorem timeout_doubles (base : Int) (v : Nat) (hb : 0 < base)
    (hfit : base * 2 ^ (v + 1) ≤ maxInt64) : calcTimeout base (v + 1) = 2 * calcTimeout base v := by
  have h2 : base * 2 ^ v ≤ maxInt64 := by
    have : base * 2 ^ (v + 1) = base * 2 ^ v * 2 := by rw [Int.pow_succ, Int.mul_assoc]
    have hp : 0 < base * 2 ^ v := Int.mul_pos hb (two_pow_pos v)
    omega
  rw [timeout_exact_when_fits base (v + 1) hb hfit, timeout_exact_when_fits base v hb h2,
    Int.pow_succ, ← Int.mul_assoc]; omega

/-! ## non-vacuity (base = 4 s in ns; the views at which the unrepaired code went negative / zero) -/
example : calcTimeout 4000000000 0 = 4000000000 := by decide
example : calcTimeout 4000000000 31 = 8589934592000000000 := by decide
example : calcTimeout 4000000000 32 = maxInt64 := by decide
example : calcTimeout 4000000000 62 = maxInt64 ∧ calcTimeout 4000000000 18446744073709551615 = maxInt64 := by decide

end LeanHelix.C19
