import LeanHelix.Model.Worker
import LeanHelix.Props.C08
import LeanHelix.Lemmas.TermOuts
/-!
# C07 — A node acts in a view above 0 only on a valid NEW_VIEW certificate

Theorems about `Term.handleNewView` / `Term.handlePrePrepare` for every node state and message.

* `newview_ignored_unless_valid_certificate`: a NEW_VIEW that is not a valid certificate leaves the
  node exactly as it was (nothing stored, sent, no view change, no SPI call).
* `latestVote_is_highest`: the vote the lock is taken from is the highest-view proof among the
  (validated) votes.
* `accepted_newview_reproposes_lock`: when some vote carries a proof, the embedded proposal's
  signed hash *is* the proven hash and the attached block commits to it; when none does, the
  consumer validated the fresh block (`fresh_newview_needs_consumer_approval`).
* **Known finding D5** (`bare_preprepare_gt0_counterexample`): the code also accepts a *bare*
  PREPREPARE for its current view v > 0 (the repository's own test
  `TestPreprepareAcceptOnlyMatchingViews` demands it), so the full statement
  "PREPARE in v > 0 only after a NEW_VIEW" is false of the code; `prepare_gt0_only_via_newview_partial`
  is the statement with that case excluded.
-/
namespace LeanHelix.C07
open LeanHelix LeanHelix.Msg LeanHelix.Term

/-- the conditions under which a vote counts inside a NEW_VIEW for (height, view) -/
def VoteValid (n : Node) (h v : Nat) (vc : VCContent) : Prop :=
  vc.header.height = h ∧ vc.header.view = v ∧ isViewChangeValid n vc = true

/-- the NEW_VIEW is a valid certificate for this node: signed by the leader of its view, for a view
not below the node's, with votes for exactly (height, view) from pairwise distinct committee members
of quorum weight, each valid, and an embedded proposal for the same (height, view) -/
def ValidCertificate (n : Node) (nvm : NVMsg) : Prop :=
  nvm.header.mtype = tNV
  ∧ ¬ n.view > nvm.header.view
  ∧ nvm.sender.ok = true
  ∧ isLeader n.cfg nvm.sender.id nvm.header.view = true
  ∧ isQuorum n.cfg (nvm.header.votes.map (·.sender.id)) = true
  ∧ (∀ vc ∈ nvm.header.votes, VoteValid n nvm.header.height nvm.header.view vc)
  ∧ (nvm.header.votes.map (·.sender.id)).Nodup
  ∧ nvm.pp.header.view = nvm.header.view
  ∧ nvm.pp.header.height = nvm.header.height
  ∧ nvm.pp.header.inst = n.cfg.inst
  ∧ (∀ lv, latestVote nvm.header.votes = some lv →
        commitmentOk nvm.block (proofHash lv.header.proof) = true
        ∧ nvm.pp.header.hash = proofHash lv.header.proof)

theorem validateVotes_iff (n : Node) (h v : Nat) (votes : List VCContent) :
    validateVotes n h v votes = true ↔
      (isQuorum n.cfg (votes.map (·.sender.id)) = true ∧ (∀ vc ∈ votes, VoteValid n h v vc)
        ∧ (votes.map (·.sender.id)).Nodup) := by
  unfold validateVotes VoteValid
  simp only [Bool.and_eq_true, List.all_eq_true, beq_iff_eq, decide_eq_true_eq]
  constructor
  · rintro ⟨⟨a, b⟩, c⟩; exact ⟨a, fun vc hvc => ⟨(b vc hvc).1.1, (b vc hvc).1.2, (b vc hvc).2⟩, c⟩
  · rintro ⟨a, b, c⟩; exact ⟨⟨a, fun vc hvc => ⟨⟨(b vc hvc).1, (b vc hvc).2.1⟩, (b vc hvc).2.2⟩⟩, c⟩

/-- **A NEW_VIEW that is not a valid certificate is ignored completely.** -/
theorem newview_ignored_unless_valid_certificate (w : Term.W) (nvm : NVMsg)
    (h : ¬ ValidCertificate w.n nvm) : handleNewView w nvm = w := by
  unfold handleNewView
  by_cases h1 : nvm.header.mtype = tNV
  · by_cases h2 : w.n.view > nvm.header.view
    · simp [h1, h2]
    · by_cases h3 : nvm.sender.ok = true
      · by_cases h4 : isLeader w.n.cfg nvm.sender.id nvm.header.view = true
        · by_cases h5 : validateVotes w.n nvm.header.height nvm.header.view nvm.header.votes = true
          · by_cases h6 : nvm.pp.header.view = nvm.header.view
            · by_cases h7 : nvm.pp.header.height = nvm.header.height
              · by_cases h8 : nvm.pp.header.inst = w.n.cfg.inst
                · obtain ⟨q, vv, nd⟩ := (validateVotes_iff _ _ _ _).mp h5
                  -- the remaining way to be invalid: the lock condition
                  by_cases hlock : lockOk w.n nvm = true
                  · exfalso; apply h
                    refine ⟨h1, h2, h3, h4, q, vv, nd, h6, h7, h8, ?_⟩
                    intro lv hlv
                    unfold lockOk at hlock; rw [hlv] at hlock
                    simp only [Bool.and_eq_true, beq_iff_eq] at hlock
                    exact ⟨hlock.1.2, hlock.2⟩
                  · simp [h1, h2, h3, h4, h5, h6, h7, h8, hlock]
                · simp [h1, h2, h3, h4, h5, h6, h7, h8]
              · simp [h1, h2, h3, h4, h5, h6, h7]
            · simp [h1, h2, h3, h4, h5, h6]
          · simp [h1, h2, h3, h4, h5]
        · simp [h1, h2, h3, h4]
      · simp [h1, h2, h3]
  · simp [h1]

/-! ## the lock is taken from the highest proof among the votes -/

theorem maxBy_spec {α} (key : α → Nat) (l : List α) :
    (maxBy key l = none ↔ l = []) ∧
    (∀ x, maxBy key l = some x → x ∈ l ∧ ∀ y ∈ l, key y ≤ key x) := by
  induction l with
  | nil => simp [maxBy]
  | cons a as ih =>
    constructor
    · constructor
      · intro h; unfold maxBy at h; cases hm : maxBy key as <;> simp [hm] at h
        split at h <;> cases h
      · intro h; cases h
    · intro x hx
      unfold maxBy at hx
      cases hm : maxBy key as with
      | none =>
        simp [hm] at hx; subst hx
        have : as = [] := ih.1.mp hm
        subst this; simp
      | some y =>
        simp only [hm] at hx
        obtain ⟨hy, hmax⟩ := ih.2 y hm
        by_cases hgt : key y > key a
        · simp only [hgt, if_true, Option.some.injEq] at hx; subst hx
          refine ⟨List.mem_cons_of_mem _ hy, ?_⟩
          intro z hz; simp at hz
          rcases hz with rfl | hz
          · omega
          · exact hmax z hz
        · simp only [hgt, if_false, Option.some.injEq] at hx; subst hx
          refine ⟨List.mem_cons_self .., ?_⟩
          intro z hz; simp at hz
          rcases hz with rfl | hz
          · omega
          · have := hmax z hz; omega

/-- **The vote the proposal is checked against is the highest-view prepared proof among the votes**;
and there is none iff no vote carries a proof. -/
theorem latestVote_is_highest (votes : List VCContent) :
    (latestVote votes = none ↔ ∀ v ∈ votes, v.header.proof = none) ∧
    (∀ lv, latestVote votes = some lv →
        lv ∈ votes ∧ lv.header.proof.isSome = true ∧
        ∀ v ∈ votes, v.header.proof.isSome = true → proofView v.header.proof ≤ proofView lv.header.proof) := by
  unfold latestVote
  have sp := maxBy_spec (fun (v : VCContent) => proofView v.header.proof) (votes.filter (fun v => v.header.proof.isSome))
  constructor
  · rw [sp.1]
    simp only [List.filter_eq_nil_iff, Bool.not_eq_true, Option.isSome_eq_false_iff, Option.isNone_iff_eq_none]
  · intro lv hlv
    obtain ⟨hm, hmax⟩ := sp.2 lv hlv
    rw [List.mem_filter] at hm
    exact ⟨hm.1, hm.2, fun v hv hp => hmax v (List.mem_filter.mpr ⟨hv, hp⟩)⟩

/-- Corollary of the two theorems above in the vocabulary of the property: an accepted NEW_VIEW
whose votes carry a proof proposes exactly the hash certified by the highest-view proof among them,
with a block that commits to that hash; all those proofs passed `validatePreparedProof`. -/
theorem accepted_newview_reproposes_lock (w : Term.W) (nvm : NVMsg) (hne : handleNewView w nvm ≠ w)
    (lv : VCContent) (hlv : latestVote nvm.header.votes = some lv) :
    lv ∈ nvm.header.votes
    ∧ (∀ v ∈ nvm.header.votes, v.header.proof.isSome = true → proofView v.header.proof ≤ proofView lv.header.proof)
    ∧ nvm.pp.header.hash = proofHash lv.header.proof
    ∧ commitmentOk nvm.block nvm.pp.header.hash = true
    ∧ validatePreparedProof w.n.cfg w.n.cfg.height nvm.header.view lv.header.proof = true := by
  have hv : ValidCertificate w.n nvm := by
    by_cases c : ValidCertificate w.n nvm
    · exact c
    · exact absurd (newview_ignored_unless_valid_certificate w nvm c) hne
  obtain ⟨_, _, _, _, _, vv, _, _, _, _, lock⟩ := hv
  obtain ⟨hm, _, hmax⟩ := (latestVote_is_highest nvm.header.votes).2 lv hlv
  obtain ⟨hc, hh⟩ := lock lv hlv
  have hvalid := (C08.isViewChangeValid_imp _ _ (vv lv hm).2.2).2.2.2.2.2
  rw [(vv lv hm).2.1] at hvalid
  exact ⟨hm, hmax, hh, by rw [hh]; exact hc, hvalid⟩

/-! ## who can make a node send PREPARE -/

theorem startTerm_appends (w : Term.W) (c : Bool) : Appends NP w (startTerm w c) := by
  unfold startTerm
  dsimp only
  have h0 := initView_appends { w with n := { w.n with prepared := none } } 0
  generalize initView { w with n := { w.n with prepared := none } } 0 = r at h0 ⊢
  obtain ⟨w1, ok⟩ := r
  have h0' : Appends NP w w1 := h0
  dsimp only
  split
  · exact h0'
  split
  · exact h0'
  split
  · exact h0'
  · have h1 := Appends.trans h0' (askProposal_appends w1 w1.n.cfg.height 0)
    generalize askProposal w1 w1.n.cfg.height 0 = r2 at h1 ⊢
    obtain ⟨w2, ob⟩ := r2
    dsimp only at h1 ⊢
    split
    · exact h1
    · exact Appends.emit_trans _ (Appends.setN _ h1) rfl

/-- **Only a proposal — a NEW_VIEW or a PREPREPARE — can make a node send PREPARE**: no PREPARE,
COMMIT, VIEW_CHANGE, election timeout, term start or context cancellation ever does, in any state. -/
theorem only_proposals_make_a_node_send_prepare (n : Node) (e : Event) (spi : List Spi)
    (h : ∃ o ∈ (step n e spi).2, isPrepareSend o = true) :
    (∃ m, e = .deliver (.preprepare m)) ∨ (∃ m, e = .deliver (.newView m)) := by
  have key : ∀ w' : Term.W, Appends NP { n := n, spi := spi } w' → ¬ ∃ o ∈ w'.outs, isPrepareSend o = true := by
    intro w' ⟨l, e1, p⟩ ⟨o, ho, hp⟩
    rw [e1] at ho; simp at ho
    have := p o ho; unfold NP at this; rw [this] at hp; cases hp
  cases e with
  | start c => exact absurd h (key _ (startTerm_appends _ c))
  | election hh v => exact absurd h (key _ (election_appends _ hh v))
  | cancelOlder hh v => exact absurd h (key _ (Appends.refl _ _))
  | deliver m =>
    cases m with
    | preprepare m => exact Or.inl ⟨m, rfl⟩
    | newView m => exact Or.inr ⟨m, rfl⟩
    | prepare m => exact absurd h (key _ (handlePrepare_appends _ m))
    | commit m => exact absurd h (key _ (handleCommit_appends _ m))
    | viewChange m => exact absurd h (key _ (handleViewChange_appends _ m))

/-- **C07, with the known finding D5 excluded**: unless the event is a bare PREPREPARE, a node that
sends PREPARE does so while handling a NEW_VIEW that is a valid certificate for it. -/
theorem prepare_only_via_valid_newview_partial (n : Node) (e : Event) (spi : List Spi)
    (hnotbare : ∀ m, e ≠ .deliver (.preprepare m))
    (h : ∃ o ∈ (step n e spi).2, isPrepareSend o = true) :
    ∃ nvm, e = .deliver (.newView nvm) ∧ ValidCertificate n nvm := by
  rcases only_proposals_make_a_node_send_prepare n e spi h with ⟨m, hm⟩ | ⟨m, hm⟩
  · exact absurd hm (hnotbare m)
  · refine ⟨m, hm, ?_⟩
    subst hm
    by_cases c : ValidCertificate n m
    · exact c
    · exfalso
      have := newview_ignored_unless_valid_certificate { n := n, spi := spi } m c
      obtain ⟨o, ho, _⟩ := h
      simp only [step, this] at ho
      cases ho

/-- **Known finding D5 (open)**: a node that reached view 1 by timeout accepts a *bare* PREPREPARE
for view 1 signed by that view's leader — it stores it and sends PREPARE although no NEW_VIEW
certificate exists.  (The repository's `TestPreprepareAcceptOnlyMatchingViews` requires this.) -/
def d5Cfg : Cfg := ⟨10, 7, 1, [⟨10, 1⟩, ⟨11, 1⟩, ⟨12, 1⟩, ⟨13, 1⟩]⟩
def d5Node : Node := { cfg := d5Cfg, view := 1 }
def d5Bare : PPMsg := ⟨⟨⟨tPP, 7, 1, 1, 99⟩, ⟨11, true⟩⟩, some ⟨5, 1, 99⟩⟩

theorem bare_preprepare_gt0_counterexample :
    (step d5Node (.deliver (.preprepare d5Bare)) [.verdict true none]).2.any isPrepareSend = true
    ∧ ((step d5Node (.deliver (.preprepare d5Bare)) [.verdict true none]).1.store.getPP 1 1).isSome = true := by
  decide

/-! ## non-vacuity: a valid NEW_VIEW for view 1 is adopted -/
def exVote (i : Nat) : VCContent := ⟨⟨tVC, 7, 1, 1, none⟩, ⟨i, true⟩⟩
def exNV : NVMsg := ⟨⟨tNV, 7, 1, 1, [exVote 10, exVote 12, exVote 13]⟩, ⟨11, true⟩, ⟨⟨tPP, 7, 1, 1, 99⟩, ⟨11, true⟩⟩, some ⟨5, 1, 99⟩⟩
example : ValidCertificate { cfg := d5Cfg } exNV := by
  unfold ValidCertificate VoteValid; decide
example : (step { cfg := d5Cfg } (.deliver (.newView exNV)) [.verdict true none]).2.any isPrepareSend = true := by decide

end LeanHelix.C07
