import LeanHelix.Model.State
/-!
# C13 (state part) — the observable (height, view) never decreases lexicographically

Every mutation of `state.State` by non-test code goes through `SetHeightAndResetView` or
`SetView`, each atomic under the mutex; so any concurrent history is some sequence of `step`s and
every observation (`Height()`, `View()`, `HeightView()`) returns the state between two steps.
The theorems hold for every sequence of calls with arbitrary arguments.
-/
namespace LeanHelix.C13
open LeanHelix.State

/-- lexicographic order on (height, view) -/
def lexLe (a b : HV) : Prop := a.height < b.height ∨ (a.height = b.height ∧ a.view ≤ b.view)

theorem lexLe_refl (a : HV) : lexLe a a := Or.inr ⟨rfl, Nat.le_refl _⟩

theorem lexLe_trans {a b c : HV} (h1 : lexLe a b) (h2 : lexLe b c) : lexLe a c := by
  unfold lexLe at *; omega

theorem step_monotone (s : HV) (op : Op) : lexLe s (step s op).1 := by
  cases op with
  | setHeightAndResetView h =>
    unfold step lexLe; by_cases hh : s.height ≥ h <;> simp [hh] <;> omega
  | setView v =>
    unfold step lexLe; by_cases hv : s.view > v <;> simp [hv] <;> omega

/-- successive observations never decrease, for every call sequence -/
theorem run_monotone (s : HV) (ops : List Op) : lexLe s (run s ops) := by
  induction ops generalizing s with
  | nil => exact lexLe_refl s
  | cons o os ih =>
    have h1 := step_monotone s o
    have h2 := ih (step s o).1
    unfold run at *; simp only [List.foldl_cons]
    exact lexLe_trans h1 h2

theorem observations_monotone (s : HV) (xs ys : List Op) : lexLe (run s xs) (run s (xs ++ ys)) := by
  have : run s (xs ++ ys) = run (run s xs) ys := by unfold run; rw [List.foldl_append]
  rw [this]; exact run_monotone _ _

/-- the view is reset to 0 exactly when the height increases; `SetView` never changes the height -/
theorem view_reset_on_height_increase (s : HV) (op : Op) (h : s.height < (step s op).1.height) :
    (step s op).1.view = 0 := by
  cases op with
  | setHeightAndResetView hh =>
    unfold step at *; by_cases c : s.height ≥ hh <;> simp [c] at h ⊢
  | setView v =>
    unfold step at h; by_cases c : s.view > v <;> simp [c] at h

theorem height_unchanged_keeps_view_monotone (s : HV) (op : Op) (h : (step s op).1.height = s.height) :
    s.view ≤ (step s op).1.view := by
  have := step_monotone s op; unfold lexLe at this; omega

/-- a refused call (error result) changes nothing; an accepted one yields exactly the requested position -/
theorem refused_changes_nothing (s : HV) (op : Op) (h : (step s op).2.2 = false) : (step s op).1 = s := by
  cases op with
  | setHeightAndResetView hh => unfold step at *; by_cases c : s.height ≥ hh <;> simp [c] at h ⊢
  | setView v => unfold step at *; by_cases c : s.view > v <;> simp [c] at h ⊢

theorem accepted_height (s : HV) (h : Nat) (hacc : (step s (.setHeightAndResetView h)).2.2 = true) :
    (step s (.setHeightAndResetView h)).1 = ⟨h, 0⟩ ∧ s.height < h := by
  unfold step at *; by_cases c : s.height ≥ h <;> simp [c] at hacc ⊢; omega

/-! ## non-vacuity -/
example : run init [.setHeightAndResetView 1, .setView 3, .setView 2, .setHeightAndResetView 1, .setHeightAndResetView 5]
    = ⟨5, 0⟩ := by decide

end LeanHelix.C13
