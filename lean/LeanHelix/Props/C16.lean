import LeanHelix.Model.Loops
import LeanHelix.Lemmas.TermOuts
import LeanHelix.Props.C15Registry
/-!
# C16 — Shutdown is complete: loops end, nothing fires afterwards, nothing leaks

What Lean carries: the *logic* of shutdown.
* `cancel_effects`: cancelling shuts the context registry down for good, stops the election timer
  (iff a term exists), drops the term; afterwards every event is a no-op in the model.
* the race window — the worker may still be handling a queued item while the main loop has already
  exited and shut the registry down: `shutdown_blocks_proposals`, `shutdown_blocks_adoption`,
  `shutdown_blocks_commit`: with a shut-down registry no context is issued, hence no proposal is
  requested or broadcast, no proposal is adopted (no PREPARE), and no commit callback is invoked.
Goroutine exit, the latency of `WaitUntilShutdown`, leaks and "API calls return promptly" are
runtime facts; the `loops` suite measures them on the real runtime (serialised and stress phases).
-/
namespace LeanHelix.C16
open LeanHelix LeanHelix.Msg LeanHelix.Term LeanHelix.Contexts

theorem ctxFor_shutdown (w : Term.W) (h v : Nat) (hs : w.n.reg.shutdown = true) :
    (ctxFor w h v).2 = none ∧ (ctxFor w h v).1 = w := by
  unfold ctxFor Contexts.step
  simp [hs]

/-- with the registry shut down no block is requested from the consumer and none is proposed -/
theorem shutdown_blocks_proposals (w : Term.W) (h v : Nat) (hs : w.n.reg.shutdown = true) :
    askProposal w h v = (w, none) := by
  unfold askProposal
  have := ctxFor_shutdown w h v hs
  rw [show ctxFor w h v = ((ctxFor w h v).1, (ctxFor w h v).2) from rfl, this.1, this.2]

/-- with the registry shut down no proposal is validated, hence none is adopted: no PREPARE, nothing stored -/
theorem shutdown_blocks_adoption (w : Term.W) (ppm : PPMsg) (hs : w.n.reg.shutdown = true) :
    handlePrePrepare w ppm = w := by
  unfold handlePrePrepare
  split
  · rfl
  split
  · rfl
  · have hv : askValidate w ppm.c.header.height ppm.c.header.view ppm.block ppm.c.header.hash = (w, false) := by
      unfold askValidate
      have := ctxFor_shutdown w ppm.c.header.height ppm.c.header.view hs
      rw [show ctxFor w ppm.c.header.height ppm.c.header.view = ((ctxFor w ppm.c.header.height ppm.c.header.view).1, (ctxFor w ppm.c.header.height ppm.c.header.view).2) from rfl, this.1, this.2]
    simp [hv]

/-- with the registry shut down the commit callback is never invoked -/
theorem shutdown_blocks_commit (w : Term.W) (h v hash : Nat) (hs : w.n.reg.shutdown = true) :
    checkCommitted w h v hash = w := by
  unfold checkCommitted
  dsimp only
  split; rfl
  split; rfl
  split; rfl
  split; rfl
  have := ctxFor_shutdown w h maxView hs
  rw [show ctxFor w h maxView = ((ctxFor w h maxView).1, (ctxFor w h maxView).2) from rfl, this.1, this.2]
  rfl

open LeanHelix.Loops in
/-- what cancellation does, and that nothing happens afterwards -/
theorem cancel_effects (fuel : Nat) (n : LNode) (spi : List Worker.WSpi) (hup : n.down = false) :
    let r := Loops.step fuel n .cancel spi
    r.1.down = true ∧ r.1.w.reg.shutdown = true ∧ r.1.w.term = none
    ∧ r.2 = (if n.w.term.isSome then [Worker.WOut.stopTimer] else [])
    ∧ ∀ e spi', Loops.step fuel r.1 e spi' = (r.1, []) := by
  intro r
  have hr : r = cancelStep (gc n) := by
    show Loops.step fuel n .cancel spi = _
    unfold Loops.step
    simp only [hup, Bool.false_eq_true, if_false]
  rw [hr]
  unfold cancelStep
  refine ⟨rfl, ?_, rfl, rfl, ?_⟩
  · show (Contexts.step (gc n).w.reg .shutdown).1.shutdown = true
    unfold Contexts.step; rfl
  · intro e spi'
    unfold Loops.step
    simp

/-- once shut down, the registry stays shut down whatever else is asked of it (C15) -/
theorem registry_stays_down (r : Reg) (ops : List Contexts.Op) (hs : r.shutdown = true) :
    (Contexts.run r ops).shutdown = true := (C15.shutdown_is_terminal r ops hs).1

end LeanHelix.C16
