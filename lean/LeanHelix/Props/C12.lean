import LeanHelix.Model.Worker
import LeanHelix.Props.C18
import LeanHelix.Lemmas.Weights
/-!
# C12 — No received bytes can crash, wedge or permanently disable a node

What Lean carries of this property: the places where the Go code indexes or divides using values
taken from unauthenticated messages, and the places where it indexes `[0]` of a list derived from
stored messages, are shown to be safe in the model for *every* message and state:

* the leader index (`view mod size`) is in range for every 64-bit view and every non-empty
  committee, so `leaderId` never hits its fallback branch;
* the commit path hands a *non-empty* commit list to the block-proof generator (`commitMessages[0]`);
* unreadable content is dropped before it reaches any state: the gate itself (a Go `recover` around
  one full read of the content) is runtime, not Lean; it is exercised by the `bytes` suite, where
  every outcome must be "dropped" (the model's `garbage` event: nothing changes) or "handled"
  exactly as the model handles the decoded message, never a panic, and the running two-loop node
  must still obtain contexts and take an UpdateState afterwards.
The handlers themselves are total Lean functions that the correspondence suites compare with the
real code on mutated and extreme-valued messages.
-/
namespace LeanHelix.C12
open LeanHelix LeanHelix.Msg LeanHelix.Term

/-- for a non-empty committee the leader of any view exists: the model's fallback is unreachable -/
theorem leaderId_total (c : Cfg) (hne : c.members ≠ []) (v : Nat) :
    Leader.leaderOf v c.members = .ok (leaderId c v) ∧ ∃ m ∈ c.members, m.id = leaderId c v := by
  obtain ⟨hlt, h⟩ := C18.leader_total v c.members hne
  refine ⟨?_, ⟨c.members[v % c.members.length], List.getElem_mem _, ?_⟩⟩
  · unfold leaderId; rw [h]
  · unfold leaderId; rw [h]

/-- a quorum is never empty when the committee has positive total weight (Q ≥ 1) -/
theorem quorum_nonempty (c : Cfg) (h1 : 1 ≤ LeanHelix.W c.members) (h2 : LeanHelix.W c.members < U64)
    (ids : List Nat) (hq : isQuorum c ids = true) : ids ≠ [] := by
  intro he; subst he
  unfold isQuorum Quorum.isQuorum at hq
  simp only [decide_eq_true_eq, ge_iff_le] at hq
  rw [calcQuorumWeight_eq _ h1 h2, subsetWeight_eq _ _ h2] at hq
  have hz : wt c.members (fun i => ([] : List Nat).contains i) = 0 := by
    have : wt c.members (fun i => ([] : List Nat).contains i) = wt c.members (fun _ => false) := by
      apply wt_congr; intro m _; simp
    rw [this, wt_false]
  have := three_f_lt c.members h1
  unfold Q at hq; omega

/-- **the block-proof generator never sees an empty commit list**: whenever the term invokes the
commit callback, the commit messages it passes form a quorum, hence are non-empty -/
theorem commit_callback_has_commits (w : Term.W) (h v hash : Nat)
    (h1 : 1 ≤ LeanHelix.W w.n.cfg.members) (h2 : LeanHelix.W w.n.cfg.members < U64) :
    ∀ b cs, Out.commit b cs ∈ (checkCommitted w h v hash).outs → Out.commit b cs ∉ w.outs → cs ≠ [] := by
  intro b cs hin hnot
  unfold checkCommitted at hin
  dsimp only at hin
  split at hin
  · exact absurd hin hnot
  split at hin
  · exact absurd hin hnot
  split at hin
  · exact absurd hin hnot
  · rename_i hq
    split at hin
    · exact absurd hin hnot
    · split at hin
      · exact absurd hin hnot
      · split at hin
        · exact absurd hin hnot
        · -- the only place a commit is emitted
          have hq' : isQuorum w.n.cfg ((w.n.store.getCommits h v hash).map (·.sender.id)) = true := by
            simpa using hq
          have hne := quorum_nonempty w.n.cfg h1 h2 _ hq'
          have hcs : cs = w.n.store.getCommits h v hash := by
            simp only [W.emit, List.mem_append, List.mem_singleton, Out.commit.injEq] at hin
            rcases hin with hin | hin
            · exfalso
              split at hin
              · exact hnot hin
              · simp only [W.emit, List.mem_append, List.mem_singleton] at hin
                rcases hin with hin | hin
                · exact hnot hin
                · cases hin
            · exact hin.2
          rw [hcs]; intro he; apply hne; rw [he]; rfl

end LeanHelix.C12
