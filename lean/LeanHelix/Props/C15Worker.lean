import LeanHelix.Lemmas.TermReg
import LeanHelix.Props.C13Worker
/-!
# C15 — the registry invariant in every reachable state of the worker model

The worker (`Model/Worker.lean`) applies nothing but registry operations to its context registry: its own
`For` calls (the round-level and term-level contexts of `onNewConsensusRound`), the main loop's
`CancelOlderThan` / `Shutdown`, and whatever the installed term does (`Term.step_regRun`; the registry is
threaded through `withTerm`).  Hence `C15.Inv` — and every theorem of `Props/C15Registry.lean` — holds of
the registry in every state the worker reaches from its initial state, over every sequence of worker
events (deliveries, cache drains, commits and round starts nested in deliveries, syncs, elections).
-/
namespace LeanHelix.C15W
open LeanHelix LeanHelix.Msg LeanHelix.Worker LeanHelix.Term LeanHelix.Contexts

def WR (w w' : WW) : Prop := RegRun w.n.reg w'.n.reg

theorem WR.refl (w : WW) : WR w w := RegRun.refl _
theorem WR.trans {a b c : WW} (h1 : WR a b) (h2 : WR b c) : WR a c := RegRun.trans h1 h2
theorem WR.of_eq {w w' : WW} (h : w'.n.reg = w.n.reg) : WR w w' := by unfold WR; rw [h]; exact RegRun.refl _

/-- running a term-level function that only applies registry operations -/
theorem withTerm_wr (w : WW) (t : Term.Node) (f : Term.W → Term.W) (hf : ∀ tw, RR tw (f tw)) : WR w (withTerm w t f).1 := by
  show RegRun w.n.reg (f { n := { t with reg := w.n.reg }, spi := (termSpis w.spi).1 }).n.reg
  exact hf { n := { t with reg := w.n.reg }, spi := (termSpis w.spi).1 }

theorem handInTerm_wr (w : WW) (t : Term.Node) (m : Message) : WR w (handInTerm w t m).1 := by
  unfold handInTerm
  dsimp only
  cases m with
  | preprepare x => exact withTerm_wr w t _ (fun tw => handlePrePrepare_rr tw x)
  | prepare x => exact withTerm_wr w t _ (fun tw => handlePrepare_rr tw x)
  | commit x => exact withTerm_wr w t _ (fun tw => handleCommit_rr tw x)
  | viewChange x => exact withTerm_wr w t _ (fun tw => handleViewChange_rr tw x)
  | newView x => exact withTerm_wr w t _ (fun tw => handleNewView_rr tw x)

theorem disposeTerm_wr (w : WW) : WR w (disposeTerm w) := by
  unfold disposeTerm; dsimp only; split <;> exact WR.of_eq rfl

theorem askCommittee_wr (w : WW) (h : Nat) : WR w (askCommittee w h).1 := by
  unfold askCommittee
  dsimp only
  have h0 : RegRun w.n.reg (Contexts.step w.n.reg (.for_ ⟨h, Term.maxView⟩)).1 := RegRun.one _ _
  split
  · split <;> exact h0
  · exact h0

theorem createTerm_wr (w : WW) (h : Nat) (ms : List Member) (c : Bool) : WR w (createTerm w h ms c) := by
  unfold createTerm
  split
  · split
    · exact WR.of_eq rfl
    · dsimp only
      exact withTerm_wr w _ _ (fun tw => startTerm_rr tw c)
  · exact WR.refl w

theorem installTerm_wr (w : WW) (h : Nat) (c : Bool) : WR w (installTerm w h c) := by
  unfold installTerm
  dsimp only
  exact WR.trans (disposeTerm_wr w) (WR.trans (askCommittee_wr _ h) (WR.trans (createTerm_wr _ h _ c) (WR.of_eq rfl)))

mutual
theorem newRound_wr : ∀ (fuel : Nat) (w : WW) (prevH : Nat) (c : Bool), WR w (newRound fuel w prevH c)
  | 0, w, _, _ => by unfold newRound; exact WR.refl w
  | fuel + 1, w, prevH, c => by
    unfold newRound
    dsimp only
    have h0 : RegRun w.n.reg (Contexts.step w.n.reg (.for_ ⟨wrap64 (prevH + 1), 0⟩)).1 := RegRun.one _ _
    split
    · split
      · exact h0
      · have h1 := installTerm_wr
          ({ w with n := { ({ w with n := { w.n with reg := (Contexts.step w.n.reg (.for_ ⟨wrap64 (prevH + 1), 0⟩)).1 } } : WW).n with height := wrap64 (prevH + 1) } } : WW)
          (wrap64 (prevH + 1)) c
        generalize installTerm ({ w with n := { ({ w with n := { w.n with reg := (Contexts.step w.n.reg (.for_ ⟨wrap64 (prevH + 1), 0⟩)).1 } } : WW).n with height := wrap64 (prevH + 1) } } : WW) (wrap64 (prevH + 1)) c = w1 at h1 ⊢
        have h2 := drain_wr fuel w1 (wrap64 (prevH + 1)) (cacheGet w1.n.cache (wrap64 (prevH + 1)))
        exact RegRun.trans h0 (RegRun.trans h1 h2)
    · exact h0
theorem drain_wr : ∀ (fuel : Nat) (w : WW) (height : Nat) (ms : List Message), WR w (drain fuel w height ms)
  | 0, w, _, _ => by unfold drain; exact WR.refl w
  | _ + 1, w, _, [] => by unfold drain; exact WR.refl w
  | fuel + 1, w, height, m :: rest => by
    unfold drain
    split
    · exact WR.refl w
    · split
      · exact drain_wr fuel w height rest
      · split
        · exact drain_wr fuel w height rest
        · rename_i t _
          dsimp only
          have h0 := handInTerm_wr w t m
          generalize handInTerm w t m = r at h0 ⊢
          obtain ⟨w1, oc⟩ := r
          dsimp only at h0 ⊢
          cases oc with
          | none => exact WR.trans h0 (drain_wr fuel w1 height rest)
          | some bc =>
            obtain ⟨b, cs⟩ := bc
            dsimp only
            have h1 : WR w (w1.emit (.commitCb b (proofOf cs).1 (proofOf cs).2)) := WR.trans h0 (WR.of_eq rfl)
            split
            · rename_i sp _
              have h2 : WR w ({ (w1.emit (.commitCb b (proofOf cs).1 (proofOf cs).2)) with spi := sp } : WW) := h1
              exact WR.trans (WR.trans h2 (newRound_wr fuel { (w1.emit (.commitCb b (proofOf cs).1 (proofOf cs).2)) with spi := sp } b.height true)) (drain_wr fuel _ height rest)
            · rename_i sp _
              have h2 : WR w ({ (w1.emit (.commitCb b (proofOf cs).1 (proofOf cs).2)) with spi := sp } : WW) := h1
              exact WR.trans h2 (drain_wr fuel _ height rest)
            · exact WR.trans h1 (drain_wr fuel _ height rest)
end

theorem deliver_wr (fuel : Nat) (w : WW) (m : Message) : WR w (deliver fuel w m) := by
  unfold deliver
  split; exact WR.refl _
  split; exact WR.refl _
  split; exact WR.refl _
  split
  · refine WR.of_eq ?_
    show (pushToCache w.n m).reg = w.n.reg
    unfold pushToCache
    dsimp only
    split
    · rfl
    · split <;> rfl
  · exact drain_wr fuel _ _ _

theorem election_wr (w : WW) (h v : Nat) : WR w (Worker.election w h v) := by
  unfold Worker.election
  cases ht : w.n.term with
  | none => simp only; split <;> exact WR.refl _
  | some t =>
    simp only
    split
    · exact WR.refl _
    · exact withTerm_wr w t _ (fun tw => election_rr tw h v)

theorem updateState_wr (fuel : Nat) (w : WW) (bh : Nat) : WR w (updateState fuel w bh) := by
  unfold updateState
  split
  · exact newRound_wr fuel _ bh false
  · exact WR.refl _

/-- **one worker event changes the registry by registry operations only** -/
theorem wstep_regRun (fuel : Nat) (n : WNode) (e : WEvent) (spi : List WSpi) : RegRun n.reg (Worker.step fuel n e spi).1.reg := by
  unfold Worker.step
  dsimp only
  cases e with
  | deliver m => exact deliver_wr fuel { n := n, spi := spi } m
  | election h v => exact election_wr { n := n, spi := spi } h v
  | update bh => exact updateState_wr fuel { n := n, spi := spi } bh
  | cancelOlder h v => exact RegRun.one _ _
  | shutdownCtx => exact RegRun.one _ _

/-- **the registry invariant of C15 holds in every state the worker reaches** -/
theorem worker_reg_inv (fuel me inst : Nat) (es : List (WEvent × List WSpi)) :
    C15.Inv (es.foldl (fun n x => (Worker.step fuel n x.1 x.2).1) ({ me := me, inst := inst } : WNode)).reg := by
  suffices ∀ (n : WNode), C15.Inv n.reg → C15.Inv (es.foldl (fun n x => (Worker.step fuel n x.1 x.2).1) n).reg from
    this _ C15.inv_init
  induction es with
  | nil => intro n h; exact h
  | cons x rest ih => intro n h; exact ih _ ((wstep_regRun fuel n x.1 x.2).inv h)

/-- read off: whenever the worker — in any reachable state — obtains a context from its registry, that
context is live at that moment -/
theorem worker_handed_out_is_live (fuel me inst : Nat) (es : List (WEvent × List WSpi)) (hv : State.HV) (id : Nat)
    (hres : (Contexts.step (es.foldl (fun n x => (Worker.step fuel n x.1 x.2).1) ({ me := me, inst := inst } : WNode)).reg (.for_ hv)).2 = .ctx id) :
    Contexts.done (Contexts.step (es.foldl (fun n x => (Worker.step fuel n x.1 x.2).1) ({ me := me, inst := inst } : WNode)).reg (.for_ hv)).1 id = false :=
  (C15.handed_out_is_live _ (worker_reg_inv fuel me inst es) hv id hres).1

end LeanHelix.C15W
