import LeanHelix.Props.C05Net
import LeanHelix.Props.C14
import LeanHelix.Props.C15Registry
import LeanHelix.Lemmas.TermReg
/-!
# C05 at the network level, the election phase: from the election timeouts to the leader's NEW_VIEW

`Props/C05Net.lean` composes a good view from the moment its leader has sent its proposal.  This file
adds the phase before that, for a view `v = u + 1` entered by timeout:

* `turnE` / `timeouts_send_votes`: when the election timers of the followers `R` fire in view `u`, each
  of them moves to view `v`, holds no proposal for `v`, keeps its term context, and has sent — to the
  leader of `v` only — a VIEW_CHANGE for (height, `v`) that passes every check `handleViewChange`
  makes at any node of the term (`Net.VoteGood`, C11).
-/
namespace LeanHelix.C05Net
open LeanHelix LeanHelix.Msg LeanHelix.Term LeanHelix.Spec LeanHelix.Net

variable {C : NetCfg}

theorem getPP_none_above {n : Node} (hv : ViewsOK n) {h v : Nat} (hlt : n.view < v) : n.store.getPP h v = none := by
  cases hg : n.store.getPP h v with
  | none => rfl
  | some ppm =>
    exfalso
    unfold Store.getPP at hg
    have h1 := List.mem_of_find?_eq_some hg
    have h2 := List.find?_some hg
    simp only [Bool.and_eq_true, beq_iff_eq] at h2
    have := hv.pp ppm h1
    omega

/-! ## the leader side: a quorum of logged votes makes the leader send its NEW_VIEW -/

/-- the registry hands out a context for `(h, v)` that is not done: what `RequestNewBlockProposal` needs
(true of every registry that is not shut down and whose watermark is not above `(h, v)`:
`C15.handed_out_is_live`, `C14.for_result`) -/
def CtxOK (r : Contexts.Reg) (h v : Nat) : Prop :=
  ∃ id, (Contexts.step r (.for_ ⟨h, v⟩)).2 = .ctx id ∧ Contexts.done (Contexts.step r (.for_ ⟨h, v⟩)).1 id = false

theorem ctxOK_of_inv (r : Contexts.Reg) (h v : Nat) (hinv : C15.Inv r) (hs : r.shutdown = false) (hst : ¬ C15.stale r ⟨h, v⟩) :
    CtxOK r h v := by
  obtain ⟨id, hid⟩ := (C14.for_result r ⟨h, v⟩).2.2 hs hst
  exact ⟨id, hid, (C15.handed_out_is_live r hinv ⟨h, v⟩ id hid).1⟩

/-- **elected, the leader sends its NEW_VIEW**: with a view not above `v`, a consumer that answers
`RequestNewBlockProposal` (when no vote carries a block) and a live context -/
theorem onElected_sends (w : Term.W) (v : Nat) (vcs : List VCMsg) (b : Block) (rest : List Spi)
    (hview : ¬ w.n.view > v) (hspi : w.spi = .proposal b none :: rest) (hctx : CtxOK w.n.reg w.n.cfg.height v) :
    (∃ rs nv, Out.send rs (.newView nv) ∈ (onElectedByViewChange w v vcs).outs ∧ nv.header.view = v)
    ∧ (onElectedByViewChange w v vcs).n.view = v ∧ (onElectedByViewChange w v vcs).n.cfg = w.n.cfg
    ∧ C05.RegSame w.n.reg (onElectedByViewChange w v vcs).n.reg := by
  obtain ⟨id, hid, hdone⟩ := hctx
  unfold onElectedByViewChange
  dsimp only
  have hi : initView { w with n := { w.n with latestNV := v } } v
      = (({ w with n := { w.n with latestNV := v, view := v } } : Term.W).emit (.registerElection w.n.cfg.height v), true) := by
    unfold initView
    rw [if_neg hview]
  rw [hi]
  simp only [Bool.not_true, Bool.false_eq_true, if_false]
  cases hl : latestBlockFromVCs vcs with
  | some p =>
    obtain ⟨b', hash⟩ := p
    exact ⟨⟨_, _, List.mem_append_right _ List.mem_cons_self, rfl⟩, rfl, rfl, C05.RegSame.refl _⟩
  | none =>
    simp only
    unfold askProposal ctxFor
    simp only [W.emit]
    rw [hid]
    simp only [hspi, cancelMeanwhile]
    unfold ctxDone
    simp only [hdone, Bool.false_eq_true, if_false]
    exact ⟨⟨_, _, List.mem_append_right _ List.mem_cons_self, by first | rfl | trivial⟩, by first | rfl | trivial, by first | rfl | trivial,
      C05.for_same _ _⟩

theorem vkey_stored (s : Store) (m : VCMsg) : C11.vkey m ∈ (s.storeVC m).vcs.map C11.vkey := by
  unfold Store.storeVC
  split
  · rename_i h
    obtain ⟨x, hx, hk⟩ := List.any_eq_true.mp h
    simp only [Bool.and_eq_true, beq_iff_eq] at hk
    refine List.mem_map.mpr ⟨x, hx, ?_⟩
    simp only [C11.vkey, Prod.mk.injEq]
    exact ⟨hk.1.1, hk.1.2, hk.2⟩
  · exact List.mem_map.mpr ⟨m, by simp, rfl⟩

theorem vkeys_kept (s : Store) (m : VCMsg) {k : Nat × Nat × Nat} (hk : k ∈ s.vcs.map C11.vkey) :
    k ∈ (s.storeVC m).vcs.map C11.vkey := by
  obtain ⟨x, hx, rfl⟩ := List.mem_map.mp hk
  exact List.mem_map.mpr ⟨x, (storeVC_prefix s m).subset hx, rfl⟩

theorem mem_getVCs_ids (s : Store) (h v id : Nat) (hk : (h, v, id) ∈ s.vcs.map C11.vkey) :
    id ∈ (s.getVCs h v).map (·.c.sender.id) := by
  obtain ⟨x, hx, e⟩ := List.mem_map.mp hk
  simp only [C11.vkey, Prod.mk.injEq] at e
  refine List.mem_map.mpr ⟨x, ?_, e.2.2⟩
  unfold Store.getVCs
  rw [List.mem_filter]
  exact ⟨hx, by simp [e.1, e.2.1]⟩

/-- `checkElected` with the leader bookkeeping below `v`: either the logged votes for `(height, v)` are a
quorum and the NEW_VIEW goes out, or they are not and nothing happens -/
theorem checkElected_cases (w : Term.W) (v : Nat) (b : Block) (rest : List Spi)
    (hview : ¬ w.n.view > v) (hlnv : w.n.latestNV < v) (hspi : w.spi = .proposal b none :: rest)
    (hctx : CtxOK w.n.reg w.n.cfg.height v) :
    ((∃ rs nv, Out.send rs (.newView nv) ∈ (checkElected w w.n.cfg.height v).outs ∧ nv.header.view = v)
      ∧ (checkElected w w.n.cfg.height v).n.view = v ∧ (checkElected w w.n.cfg.height v).n.cfg = w.n.cfg
      ∧ C05.RegSame w.n.reg (checkElected w w.n.cfg.height v).n.reg)
    ∨ (checkElected w w.n.cfg.height v = w
        ∧ isQuorum w.n.cfg ((w.n.store.getVCs w.n.cfg.height v).map (·.c.sender.id)) = false) := by
  unfold checkElected
  dsimp only
  rw [if_neg (by omega)]
  cases hq : isQuorum w.n.cfg ((w.n.store.getVCs w.n.cfg.height v).map (·.c.sender.id)) with
  | false =>
    right
    refine ⟨?_, rfl⟩
    split
    · rfl
    · simp
  | true =>
    left
    have hne : (w.n.store.getVCs w.n.cfg.height v).isEmpty = false := by
      cases he : w.n.store.getVCs w.n.cfg.height v with
      | nil => rw [he] at hq; simp [isQuorum_nil] at hq
      | cons _ _ => rfl
    rw [if_neg (by rw [hne]; simp)]
    simp only [Bool.not_true, Bool.false_eq_true, if_false]
    exact onElected_sends w v _ b rest hview hspi hctx

/-- a vote that passes the leader's checks is logged, and then `checkElected` runs -/
theorem handleViewChange_checked (w : Term.W) (vcm : VCMsg) (hchk : C11.VoteChecked w.n vcm)
    (hlead : isLeader w.n.cfg w.n.cfg.me vcm.c.header.view = true) (hview : ¬ w.n.view > vcm.c.header.view) :
    handleViewChange w vcm
      = checkElected { w with n := { w.n with store := w.n.store.storeVC vcm } } vcm.c.header.height vcm.c.header.view := by
  obtain ⟨c1, c2, c3⟩ := hchk
  unfold handleViewChange
  dsimp only
  rw [if_neg (by simp [hlead]), if_neg hview, if_neg (by simp [c1])]
  have h4 : ¬ ((vcm.block.isNone && vcm.c.header.proof.isSome) = true) := by
    intro h
    simp only [Bool.and_eq_true] at h
    exact c2 h
  rw [if_neg h4]
  have h5 : ¬ ((vcm.block.isSome && !commitmentOk vcm.block (proofHash vcm.c.header.proof)) = true) := by
    intro h
    simp only [Bool.and_eq_true, Bool.not_eq_true'] at h
    have := c3 h.1
    rw [this] at h
    cases h.2
  rw [if_neg h5]

/-- `event_step` together with the schedule entry it adds: the consumer contract A2 is kept by every step
whose SPI answers obey it (in particular by every step without a positive verdict) -/
theorem event_step_tr (hwf : WF C) {net : Net} (hr : Reach C net) (i : Nat) (hh : C.honest i = true)
    (hm : ∃ m ∈ C.ms, m.id = i) (hs : net.started i = true) (e : Event) (spi : List Spi)
    (hns : ∀ c, e ≠ .start c) (hg : Gate (C.cfg i) e) (ha : AdmEvent C net.H e) :
    ∃ net', Reach C net' ∧ net'.node i = (step (net.node i) e spi).1
      ∧ net'.outs i = net.outs i ++ (step (net.node i) e spi).2
      ∧ (∀ k, k ≠ i → net'.node k = net.node k ∧ net'.outs k = net.outs k)
      ∧ (∀ k, net'.started k = net.started k)
      ∧ (∀ x ∈ net.H, x ∈ net'.H)
      ∧ (TraceA2 net.trace → SpiA2 e spi → TraceA2 net'.trace) := by
  have hinv := reach_inv hwf hr
  obtain ⟨⟨T, hcore, _⟩, _, hvo, hlv, _⟩ := hinv.nodes i hh hm hs
  have hloc : EventLocal (net.node i) e := eventLocal_of_gate _ e (by rw [hcore.cfg]; exact hg) hns
  obtain ⟨w', g, hruns, hst⟩ := step_runs (net.node i) e spi hloc hvo hlv hcore.ginv.leader
  refine ⟨_, .step hr (NStep.event net i e spi w' g hh hm hs hns hg ha hruns hst), ?_, ?_, ?_, ?_, ?_, ?_⟩
  · show upd net.node i w'.n i = _
    rw [upd_same, hst]
  · show upd net.outs i (net.outs i ++ w'.outs) i = _
    rw [upd_same, hst]
  · intro k hk
    exact ⟨upd_other _ _ hk, upd_other _ _ hk⟩
  · intro k
    show upd net.started i true k = _
    by_cases hk : k = i
    · subst hk; rw [upd_same, hs]
    · rw [upd_other _ _ hk]
  · intro x hx
    exact List.mem_append_right _ hx
  · intro h1 h2 t ht
    show SpiA2 t.2.1 t.2.2
    have ht' : t ∈ (i, e, spi) :: net.trace := ht
    rcases List.mem_cons.mp ht' with rfl | ht''
    · exact h2
    · exact h1 t ht''

theorem spiA2_nil (e : Event) : SpiA2 e [] := by intro cd rest h; cases h
theorem spiA2_proposal (e : Event) (b : Block) (cd : Option Nat) (rest : List Spi) : SpiA2 e (.proposal b cd :: rest) := by
  intro cd' rest' h; cases h

/-- before its timer fires: the follower is in view `u` -/
def PreE (C : NetCfg) (u : Nat) (R : List Nat) (j : Nat) (n : Node) (_ : List Out) : Prop :=
  j ∈ R ∧ n.view = u

def SideE (C : NetCfg) (v : Nat) (R : List Nat) (net : Net) : Prop :=
  ∀ k ∈ R ++ [ldr C v], net.started k = true

section elect
variable (hwf : WF C) (u v : Nat) (R : List Nat) (crew : Crew C v R) (hv : wrap64 (u + 1) = v) (huv : u < v)

include hwf crew hv huv in
theorem turnE (net : Net) (j : Nat) (hr : Reach C net) (hA2 : TraceA2 net.trace) (hside : SideE C v R net)
    (hpre : PreE C u R j (net.node j) (net.outs j)) :
    ∃ net', Reach C net' ∧ TraceA2 net'.trace
      ∧ (j ∈ R ∧ net'.node j = { net.node j with view := v } ∧ (net'.node j).cfg = C.cfg j
          ∧ (net'.node j).store.getPP C.height v = none
          ∧ Out.send [ldr C v] (.viewChange (ownVote (net'.node j))) ∈ net'.outs j
          ∧ VoteGood (C.cfg j) (ownVote (net'.node j)))
      ∧ Frame net net' j := by
  obtain ⟨hjR, hview⟩ := hpre
  have hjm : j ∈ R ++ [ldr C v] := List.mem_append_left _ hjR
  obtain ⟨hhj, hmj⟩ := crew.good j hjm
  have hjL : j ≠ ldr C v := by intro e; rw [e] at hjR; exact crew.notLeader hjR
  have hstarted := hside j hjm
  have hcfg := C11Net.node_cfg hwf hr j hhj hmj
  obtain ⟨net', hr', en, eo, fr, st, hh, ha2⟩ := event_step_tr hwf hr j hhj hmj hstarted (.election C.height u) []
    (fun _ h => by cases h) trivial trivial
  have hA2' : TraceA2 net'.trace := ha2 hA2 (spiA2_nil _)
  have hvo := ((reach_inv hwf hr).nodes j hhj hmj hstarted).views
  -- what the election step does
  have hstep : election { n := net.node j, spi := [] } C.height u
      = (({ n := { net.node j with view := v }, spi := [] } : Term.W).emit (.registerElection (net.node j).cfg.height v)).emit
          (.send [leaderId (net.node j).cfg v] (.viewChange (C09.voteOnTimeout { net.node j with view := v }))) := by
    have := C09.timeout_vote { n := net.node j, spi := [] } C.height u ⟨by rw [hcfg]; rfl, hview.symm⟩
      (by show ¬ (net.node j).view > wrap64 ((net.node j).view + 1); rw [hview, hv]; omega)
    simp only at this
    rw [this]
    have hview' : ({ n := net.node j, spi := [] } : Term.W).n.view = u := hview
    rw [hview', hv]
    have hnl : isLeader (net.node j).cfg (net.node j).cfg.me v = false := by
      rw [hcfg]
      show (leaderId (C.cfg j) v == j) = false
      have : leaderId (C.cfg j) v = ldr C v := rfl
      rw [this]
      simp only [beq_eq_false_iff_ne, ne_eq]
      exact fun e => hjL e.symm
    rw [if_neg (by show ¬ isLeader (net.node j).cfg (net.node j).cfg.me v = true; rw [hnl]; simp)]
    rfl
  have e1 : net'.node j = { net.node j with view := v } := by
    rw [en]
    show (election { n := net.node j, spi := [] } C.height u).n = _
    rw [hstep]; rfl
  have e2 : net'.outs j = net.outs j ++ [.registerElection (net.node j).cfg.height v,
      .send [leaderId (net.node j).cfg v] (.viewChange (C09.voteOnTimeout { net.node j with view := v }))] := by
    rw [eo]
    show net.outs j ++ (election { n := net.node j, spi := [] } C.height u).outs = _
    rw [hstep]; rfl
  have hsent : Out.send [ldr C v] (.viewChange (ownVote (net'.node j))) ∈ net'.outs j := by
    rw [e2, e1, ownVote_eq]
    apply List.mem_append_right
    have hl : leaderId (net.node j).cfg v = ldr C v := by rw [hcfg]; rfl
    rw [hl]
    exact List.mem_cons_of_mem _ List.mem_cons_self
  refine ⟨net', hr', hA2', ⟨hjR, e1, by rw [e1]; exact hcfg, ?_, hsent, ?_⟩, ⟨fr, st, by intro o ho; rw [e2]; exact List.mem_append_left _ ho, hh⟩⟩
  · rw [e1]
    have : ({ net.node j with view := v } : Node).store.getPP C.height v = (net.node j).store.getPP C.height v := rfl
    rw [this]
    exact getPP_none_above hvo (by rw [hview]; exact huv)
  · exact (reach_blocks hwf hr' hA2' j hhj hmj).2.2.2.2 _ _ hsent

/-- what a follower has done after its timer fired -/
def Voted (C : NetCfg) (v : Nat) (j : Nat) (n : Node) (outs : List Out) : Prop :=
  n.cfg = C.cfg j ∧ n.view = v ∧ n.store.getPP C.height v = none
  ∧ Out.send [ldr C v] (.viewChange (ownVote n)) ∈ outs ∧ VoteGood (C.cfg j) (ownVote n)

include hwf crew hv huv in
/-- **the election timeouts of the followers**: every follower whose timer fires in view `u` moves to
view `v`, holds no proposal for it and has sent a vote every node of the term accepts -/
theorem timeouts_send_votes : ∀ (todo : List Nat), todo.Nodup → (∀ j ∈ todo, j ∈ R) → ∀ (net : Net), Reach C net →
    TraceA2 net.trace → SideE C v R net → (∀ j ∈ todo, (net.node j).view = u) →
    ∃ net', Reach C net' ∧ TraceA2 net'.trace ∧ SideE C v R net'
      ∧ (∀ j ∈ todo, Voted C v j (net'.node j) (net'.outs j) ∧ net'.node j = { net.node j with view := v })
      ∧ (∀ k, k ∉ todo → net'.node k = net.node k ∧ net'.outs k = net.outs k)
      ∧ OutsLe net net' := by
  intro todo
  induction todo with
  | nil =>
    intro _ _ net hr hA2 hs _
    exact ⟨net, hr, hA2, hs, (fun _ h => by cases h), (fun _ _ => ⟨rfl, rfl⟩), (fun _ _ h => h)⟩
  | cons j rest ih =>
    intro hnd hsub net hr hA2 hs hpre
    rw [List.nodup_cons] at hnd
    obtain ⟨n1, hr1, hA21, ⟨_, e1, c1, g1, s1, v1⟩, hf⟩ := turnE hwf u v R crew hv huv net j hr hA2 hs
      ⟨hsub j List.mem_cons_self, hpre j List.mem_cons_self⟩
    have hs1 : SideE C v R n1 := fun k hk => by rw [hf.started]; exact hs k hk
    obtain ⟨n2, hr2, hA22, hs2, hposts, hfr, hle⟩ := ih hnd.2 (fun k hk => hsub k (List.mem_cons_of_mem _ hk)) n1 hr1 hA21 hs1 (by
      intro k hk
      have hkj : k ≠ j := by intro e; subst e; exact hnd.1 hk
      rw [(hf.others k hkj).1]; exact hpre k (List.mem_cons_of_mem _ hk))
    refine ⟨n2, hr2, hA22, hs2, ?_, ?_, fun k o ho => hle k o (hf.outsLe k o ho)⟩
    · intro k hk
      rcases List.mem_cons.mp hk with rfl | hk'
      · have hnot : k ∉ rest := hnd.1
        obtain ⟨en, eo⟩ := hfr k hnot
        refine ⟨⟨by rw [en]; exact c1, by rw [en, e1], by rw [en]; exact g1, ?_, by rw [en]; exact v1⟩, by rw [en]; exact e1⟩
        rw [en, eo]; exact s1
      · have hkj : k ≠ j := by intro e; subst e; exact hnd.1 hk'
        obtain ⟨p1, p2⟩ := hposts k hk'
        exact ⟨p1, by rw [p2, (hf.others k hkj).1]⟩
    · intro k hk
      have hkj : k ≠ j := fun e => hk (e ▸ List.mem_cons_self)
      have hkr : k ∉ rest := fun h => hk (List.mem_cons_of_mem _ h)
      exact ⟨(hfr k hkr).1.trans (hf.others k hkj).1, (hfr k hkr).2.trans (hf.others k hkj).2⟩

/-! ### the leader -/

/-- the leader-to-be right after its timer moved it to `v` and its own vote was logged (before `checkElected`) -/
def afterTimerL (n : Node) (v : Nat) (spi : List Spi) : Term.W :=
  let n1 : Node := { n with view := v }
  { n := { n1 with store := n1.store.storeVC (C09.voteOnTimeout n1) }, outs := [.registerElection n.cfg.height v], spi := spi }

/-- the leader of `v` is in view `v`, not elected yet: bookkeeping below `v`, a live context for its
proposal, and the votes of `S` logged -/
def PreL (C : NetCfg) (v : Nat) (S : List Nat) (n : Node) : Prop :=
  n.cfg = C.cfg (ldr C v) ∧ n.view = v ∧ n.latestNV < v ∧ CtxOK n.reg C.height v ∧ C05.Live n.reg C.height
  ∧ (∀ id ∈ S, (C.height, v, id) ∈ n.store.vcs.map C11.vkey)
  ∧ isQuorum (C.cfg (ldr C v)) ((n.store.getVCs C.height v).map (·.c.sender.id)) = false

/-- the leader of `v` has sent its NEW_VIEW for `v` -/
def ElectedL (C : NetCfg) (v : Nat) (n : Node) (outs : List Out) : Prop :=
  (∃ rs nv, Out.send rs (.newView nv) ∈ outs ∧ nv.header.view = v) ∧ n.view = v ∧ C05.Live n.reg C.height

include hwf crew hv huv in
/-- the leader's own timer: it moves to `v`, logs its own vote, and is elected at once if that vote
alone is a quorum -/
theorem turnL (net : Net) (hr : Reach C net) (hA2 : TraceA2 net.trace) (hside : SideE C v R net) (b : Block)
    (hview : (net.node (ldr C v)).view = u) (hctx : CtxOK (net.node (ldr C v)).reg C.height v)
    (hlive : C05.Live (net.node (ldr C v)).reg C.height) :
    ∃ net', Reach C net' ∧ TraceA2 net'.trace ∧ Frame net net' (ldr C v)
      ∧ (ElectedL C v (net'.node (ldr C v)) (net'.outs (ldr C v)) ∨ PreL C v [ldr C v] (net'.node (ldr C v))) := by
  have hLm : ldr C v ∈ R ++ [ldr C v] := List.mem_append_right _ (List.mem_singleton.mpr rfl)
  obtain ⟨hhL, hmL⟩ := crew.good (ldr C v) hLm
  have hstarted := hside _ hLm
  have hcfg := C11Net.node_cfg hwf hr (ldr C v) hhL hmL
  obtain ⟨net', hr', en, eo, fr, st, hh, ha2⟩ := event_step_tr hwf hr (ldr C v) hhL hmL hstarted (.election C.height u) [.proposal b none]
    (fun _ h => by cases h) trivial trivial
  have hA2' : TraceA2 net'.trace := ha2 hA2 (spiA2_proposal _ _ _ _)
  have hlvinv := ((reach_inv hwf hr).nodes _ hhL hmL hstarted).lv
  have hlnv : (net.node (ldr C v)).latestNV ≤ (net.node (ldr C v)).view := hlvinv
  -- the election step of the leader-to-be
  let w2 : Term.W := afterTimerL (net.node (ldr C v)) v [.proposal b none]
  have hstep : election { n := net.node (ldr C v), spi := [.proposal b none] } C.height u = checkElected w2 w2.n.cfg.height v := by
    have := C09.timeout_vote { n := net.node (ldr C v), spi := [.proposal b none] } C.height u ⟨by rw [hcfg]; rfl, hview.symm⟩
      (by show ¬ (net.node (ldr C v)).view > wrap64 ((net.node (ldr C v)).view + 1); rw [hview, hv]; omega)
    simp only at this
    rw [this]
    have hview' : ({ n := net.node (ldr C v), spi := [.proposal b none] } : Term.W).n.view = u := hview
    rw [hview', hv]
    have hl : isLeader (net.node (ldr C v)).cfg (net.node (ldr C v)).cfg.me v = true := by
      rw [hcfg]
      show (leaderId (C.cfg (ldr C v)) v == ldr C v) = true
      have : leaderId (C.cfg (ldr C v)) v = ldr C v := rfl
      rw [this]; simp
    rw [if_pos (by show isLeader (net.node (ldr C v)).cfg (net.node (ldr C v)).cfg.me v = true; exact hl)]
    have hh' : C.height = w2.n.cfg.height := by show C.height = (net.node (ldr C v)).cfg.height; rw [hcfg]; rfl
    rw [hh']
    rfl
  have e1 : net'.node (ldr C v) = (checkElected w2 w2.n.cfg.height v).n := by
    rw [en]
    show (election { n := net.node (ldr C v), spi := [.proposal b none] } C.height u).n = _
    rw [hstep]
  have e2 : net'.outs (ldr C v) = net.outs (ldr C v) ++ (checkElected w2 w2.n.cfg.height v).outs := by
    rw [eo]
    show net.outs (ldr C v) ++ (election { n := net.node (ldr C v), spi := [.proposal b none] } C.height u).outs = _
    rw [hstep]
  have hframe : Frame net net' (ldr C v) := ⟨fr, st, by intro o ho; rw [e2]; exact List.mem_append_left _ ho, hh⟩
  have hw2cfg : w2.n.cfg = C.cfg (ldr C v) := hcfg
  rcases checkElected_cases w2 v b [] (by show ¬ v > v; omega) (by show (net.node (ldr C v)).latestNV < v; omega) rfl
      (by show CtxOK (net.node (ldr C v)).reg (net.node (ldr C v)).cfg.height v; rw [hcfg]; exact hctx)
    with ⟨⟨rs, nv, hs, hnv⟩, hvw, _, hsame⟩ | ⟨hw, hnq⟩
  · refine ⟨net', hr', hA2', hframe, Or.inl ⟨⟨rs, nv, by rw [e2]; exact List.mem_append_right _ hs, hnv⟩, by rw [e1]; exact hvw, ?_⟩⟩
    rw [e1]; exact C05.Live.of_same hsame hlive
  · refine ⟨net', hr', hA2', hframe, Or.inr ?_⟩
    rw [e1, hw]
    refine ⟨hcfg, rfl, by show (net.node (ldr C v)).latestNV < v; omega, hctx, hlive, ?_, by rw [hw2cfg] at hnq; exact hnq⟩
    intro id hid
    simp only [List.mem_singleton] at hid
    subst hid
    have := vkey_stored (net.node (ldr C v)).store (C09.voteOnTimeout ({ (net.node (ldr C v)) with view := v } : Node))
    have hk : C11.vkey (C09.voteOnTimeout ({ (net.node (ldr C v)) with view := v } : Node)) = (C.height, v, ldr C v) := by
      show ((net.node (ldr C v)).cfg.height, v, (net.node (ldr C v)).cfg.me) = _
      rw [hcfg]; rfl
    rw [hk] at this
    exact this

include hwf crew in
/-- one follower's vote reaches the leader: it is logged; the leader is elected now, or the logged votes
are still short of a quorum -/
theorem turnV (net : Net) (hr : Reach C net) (hA2 : TraceA2 net.trace) (hside : SideE C v R net) (b : Block)
    (S : List Nat) (k : Nat) (hkR : k ∈ R) (hvoted : Voted C v k (net.node k) (net.outs k))
    (hne : ∀ blk, (ownVote (net.node k)).block = some blk → blk.hash ≠ emptyBytes)
    (hpre : PreL C v S (net.node (ldr C v))) :
    ∃ net', Reach C net' ∧ TraceA2 net'.trace ∧ Frame net net' (ldr C v)
      ∧ (ElectedL C v (net'.node (ldr C v)) (net'.outs (ldr C v)) ∨ PreL C v (k :: S) (net'.node (ldr C v))) := by
  have hLm : ldr C v ∈ R ++ [ldr C v] := List.mem_append_right _ (List.mem_singleton.mpr rfl)
  obtain ⟨hhL, hmL⟩ := crew.good (ldr C v) hLm
  obtain ⟨hhk, hmk⟩ := crew.good k (List.mem_append_left _ hkR)
  have hkL : k ≠ ldr C v := by intro e; rw [e] at hkR; exact crew.notLeader hkR
  have hstarted := hside _ hLm
  obtain ⟨kcfg, kview, _, ksent, kgood⟩ := hvoted
  obtain ⟨lcfg, lview, llnv, lctx, llive, lkeys, _⟩ := hpre
  -- the fields of the vote
  have hvh : (ownVote (net.node k)).c.header.height = C.height := by show (net.node k).cfg.height = _; rw [kcfg]; rfl
  have hvv : (ownVote (net.node k)).c.header.view = v := kview
  have hvi : (ownVote (net.node k)).c.header.inst = C.inst := by show (net.node k).cfg.inst = _; rw [kcfg]; rfl
  have hvs : (ownVote (net.node k)).c.sender.id = k := by show (net.node k).cfg.me = _; rw [kcfg]; rfl
  obtain ⟨net', hr', en, eo, fr, st, hh, ha2⟩ := event_step_tr hwf hr (ldr C v) hhL hmL hstarted
    (.deliver (.viewChange (ownVote (net.node k)))) [.proposal b none]
    (fun _ h => by cases h) ⟨hvi, hvh, by show (ownVote (net.node k)).c.sender.id ≠ ldr C v; rw [hvs]; exact hkL, hne⟩
    (C01Net.sent_admissible hwf hr hhk hmk ksent)
  have hA2' : TraceA2 net'.trace := ha2 hA2 (spiA2_proposal _ _ _ _)
  have hchk : C11.VoteChecked (net.node (ldr C v)) (ownVote (net.node k)) :=
    kgood (net.node (ldr C v)) (by rw [lcfg]; exact ⟨rfl, rfl, rfl⟩)
  have hlead : isLeader (net.node (ldr C v)).cfg (net.node (ldr C v)).cfg.me (ownVote (net.node k)).c.header.view = true := by
    rw [hvv, lcfg]
    show (leaderId (C.cfg (ldr C v)) v == ldr C v) = true
    have : leaderId (C.cfg (ldr C v)) v = ldr C v := rfl
    rw [this]; simp
  let w3 : Term.W := { n := { (net.node (ldr C v)) with store := (net.node (ldr C v)).store.storeVC (ownVote (net.node k)) }, spi := [.proposal b none] }
  have hstep : handleViewChange { n := net.node (ldr C v), spi := [.proposal b none] } (ownVote (net.node k))
      = checkElected w3 w3.n.cfg.height v := by
    rw [handleViewChange_checked _ _ hchk hlead (by rw [hvv]; show ¬ (net.node (ldr C v)).view > v; omega)]
    rw [hvh, hvv]
    have : C.height = w3.n.cfg.height := by show C.height = (net.node (ldr C v)).cfg.height; rw [lcfg]; rfl
    rw [this]
  have e1 : net'.node (ldr C v) = (checkElected w3 w3.n.cfg.height v).n := by
    rw [en]
    show (handleViewChange { n := net.node (ldr C v), spi := [.proposal b none] } (ownVote (net.node k))).n = _
    rw [hstep]
  have e2 : net'.outs (ldr C v) = net.outs (ldr C v) ++ (checkElected w3 w3.n.cfg.height v).outs := by
    rw [eo]
    show net.outs (ldr C v) ++ (handleViewChange { n := net.node (ldr C v), spi := [.proposal b none] } (ownVote (net.node k))).outs = _
    rw [hstep]
  have hframe : Frame net net' (ldr C v) := ⟨fr, st, by intro o ho; rw [e2]; exact List.mem_append_left _ ho, hh⟩
  have hw3cfg : w3.n.cfg = C.cfg (ldr C v) := lcfg
  rcases checkElected_cases w3 v b [] (by show ¬ (net.node (ldr C v)).view > v; omega) llnv rfl
      (by show CtxOK (net.node (ldr C v)).reg (net.node (ldr C v)).cfg.height v; rw [lcfg]; exact lctx)
    with ⟨⟨rs, nv, hs, hnv⟩, hvw, _, hsame⟩ | ⟨hw, hnq⟩
  · refine ⟨net', hr', hA2', hframe, Or.inl ⟨⟨rs, nv, by rw [e2]; exact List.mem_append_right _ hs, hnv⟩, by rw [e1]; exact hvw, ?_⟩⟩
    rw [e1]; exact C05.Live.of_same hsame llive
  · refine ⟨net', hr', hA2', hframe, Or.inr ?_⟩
    rw [e1, hw]
    refine ⟨lcfg, lview, llnv, lctx, llive, ?_, by rw [hw3cfg] at hnq; exact hnq⟩
    intro id hid
    rcases List.mem_cons.mp hid with rfl | hid'
    · have := vkey_stored (net.node (ldr C v)).store (ownVote (net.node id))
      have hk : C11.vkey (ownVote (net.node id)) = (C.height, v, id) := by
        show ((ownVote (net.node id)).c.header.height, (ownVote (net.node id)).c.header.view, (ownVote (net.node id)).c.sender.id) = _
        rw [hvh, hvv, hvs]
      rw [hk] at this
      exact this
    · exact vkeys_kept _ _ (lkeys id hid')

include hwf crew in
/-- the votes of the followers reach the leader one after the other, until it is elected -/
theorem votes_reach_leader (b : Block) : ∀ (todo : List Nat) (S : List Nat) (net : Net), Reach C net → TraceA2 net.trace →
    SideE C v R net →
    (∀ k ∈ todo, k ∈ R ∧ Voted C v k (net.node k) (net.outs k)
      ∧ ∀ blk, (ownVote (net.node k)).block = some blk → blk.hash ≠ emptyBytes) →
    (ElectedL C v (net.node (ldr C v)) (net.outs (ldr C v)) ∨ PreL C v S (net.node (ldr C v))) →
    ∃ net', Reach C net' ∧ TraceA2 net'.trace
      ∧ (∀ k, k ≠ ldr C v → net'.node k = net.node k ∧ net'.outs k = net.outs k)
      ∧ (∀ k, net'.started k = net.started k) ∧ OutsLe net net'
      ∧ (ElectedL C v (net'.node (ldr C v)) (net'.outs (ldr C v)) ∨ PreL C v (todo.reverse ++ S) (net'.node (ldr C v))) := by
  intro todo
  induction todo with
  | nil =>
    intro S net hr hA2 _ _ hst
    exact ⟨net, hr, hA2, fun _ _ => ⟨rfl, rfl⟩, fun _ => rfl, fun _ _ h => h, by simpa using hst⟩
  | cons k rest ih =>
    intro S net hr hA2 hside htodo hst
    rcases hst with hel | hpre
    · exact ⟨net, hr, hA2, fun _ _ => ⟨rfl, rfl⟩, fun _ => rfl, fun _ _ h => h, Or.inl hel⟩
    · obtain ⟨hkR, hvoted, hne⟩ := htodo k List.mem_cons_self
      obtain ⟨n1, hr1, hA21, hf, hout⟩ := turnV hwf v R crew net hr hA2 hside b S k hkR hvoted hne hpre
      have hs1 : SideE C v R n1 := fun j hj => by rw [hf.started]; exact hside j hj
      obtain ⟨n2, hr2, hA22, hoth, hst2, hle, hfin⟩ := ih (k :: S) n1 hr1 hA21 hs1 (by
        intro j hj
        obtain ⟨hjR, hjv, hjne⟩ := htodo j (List.mem_cons_of_mem _ hj)
        have hjL : j ≠ ldr C v := by intro e; rw [e] at hjR; exact crew.notLeader hjR
        rw [(hf.others j hjL).1, (hf.others j hjL).2]
        exact ⟨hjR, hjv, hjne⟩) hout
      refine ⟨n2, hr2, hA22, ?_, fun j => by rw [hst2, hf.started], fun j o ho => hle j o (hf.outsLe j o ho), ?_⟩
      · intro j hj
        exact ⟨(hoth j hj).1.trans (hf.others j hj).1, (hoth j hj).2.trans (hf.others j hj).2⟩
      · rcases hfin with h | h
        · exact Or.inl h
        · right
          have : (k :: rest).reverse ++ S = rest.reverse ++ (k :: S) := by simp
          rw [this]; exact h

include hwf crew hv huv in
/-- **From the election timeouts to a decision.**  In any reachable state (schedule so far obeying A2) in
which the crew of view `v = u + 1` — its correct leader and correct followers `R`, together of quorum
weight — is in view `u`, started, the leader can still get a context for its proposal and keeps its
term context, no follower's vote carries a block that commits to the empty hash, and the followers'
consumers approve the block of the leader's NEW_VIEW where they are asked and keep their term context:
letting the election timers of the crew fire, delivering the followers' votes to the leader until it is
elected, and then the NEW_VIEW, the PREPAREs and the COMMITs (`good_view_from_newview`) — all of them
messages the crew really sent — leads to a reachable state in which every crew member has invoked its
commit callback. -/
theorem good_view_from_timeouts {net : Net} (hr : Reach C net) (hA2 : TraceA2 net.trace) (b : Block) (spi : Nat → List Spi)
    (hstarted : ∀ k ∈ R ++ [ldr C v], net.started k = true)
    (hviews : ∀ k ∈ R ++ [ldr C v], (net.node k).view = u)
    (hctx : CtxOK (net.node (ldr C v)).reg C.height v) (hllive : C05.Live (net.node (ldr C v)).reg C.height)
    (hne : ∀ j ∈ R, ∀ blk, voteBlock (net.node j) = some blk → blk.hash ≠ emptyBytes)
    (hval : ∀ j ∈ R, ∀ nv : NVMsg, nv.header.height = C.height → nv.header.view = v → (latestVote nv.header.votes).isNone = true →
      (askValidate { n := { (net.node j) with view := v }, spi := spi j } nv.header.height nv.header.view nv.block nv.pp.header.hash).2 = true)
    (hliveF : ∀ j ∈ R, ∀ nv : NVMsg, nv.header.height = C.height → nv.header.view = v →
      C05.Live (handleNewView { n := { (net.node j) with view := v }, spi := spi j } nv).n.reg C.height) :
    ∃ net', Reach C net' ∧ OutsLe net net'
      ∧ ∀ j ∈ R ++ [ldr C v], ∃ blk cs, Out.commit blk cs ∈ net'.outs j := by
  have hLm : ldr C v ∈ R ++ [ldr C v] := List.mem_append_right _ (List.mem_singleton.mpr rfl)
  obtain ⟨hhL, hmL⟩ := crew.good (ldr C v) hLm
  -- 1. the followers' timers
  obtain ⟨n1, hr1, hA21, hs1, hpost1, hsame1, hle1⟩ := timeouts_send_votes hwf u v R crew hv huv R crew.nodup (fun _ h => h) net hr hA2
    hstarted (fun j hj => hviews j (List.mem_append_left _ hj))
  -- 2. the leader's timer
  obtain ⟨n2, hr2, hA22, hf2, hst2⟩ := turnL hwf u v R crew hv huv n1 hr1 hA21 hs1 b
    (by rw [(hsame1 _ crew.notLeader).1]; exact hviews _ hLm)
    (by rw [(hsame1 _ crew.notLeader).1]; exact hctx) (by rw [(hsame1 _ crew.notLeader).1]; exact hllive)
  have hs2 : SideE C v R n2 := fun k hk => by rw [hf2.started]; exact hs1 k hk
  have hfol2 : ∀ j ∈ R, n2.node j = n1.node j ∧ n2.outs j = n1.outs j := by
    intro j hj
    exact hf2.others j (by intro e; rw [e] at hj; exact crew.notLeader hj)
  -- 3. the votes
  obtain ⟨n3, hr3, hA23, hoth3, hstart3, hle3, hfin⟩ := votes_reach_leader hwf v R crew b R [ldr C v] n2 hr2 hA22 hs2 (by
      intro k hk
      obtain ⟨e1, e2⟩ := hfol2 k hk
      obtain ⟨hvoted, hnode⟩ := hpost1 k hk
      rw [e1, e2]
      refine ⟨hk, hvoted, ?_⟩
      intro blk hblk
      rw [hnode] at hblk
      exact hne k hk blk hblk) hst2
  have hel : ElectedL C v (n3.node (ldr C v)) (n3.outs (ldr C v)) := by
    rcases hfin with h | ⟨_, _, _, _, _, hkeys, hnq⟩
    · exact h
    · exfalso
      have hq : isQuorum (C.cfg (ldr C v)) (((n3.node (ldr C v)).store.getVCs C.height v).map (·.c.sender.id)) = true := by
        apply C06.isQuorum_mono (C.cfg (ldr C v)).members hwf.fit (R ++ [ldr C v]) _ _ crew.quorum
        intro i hi
        apply mem_getVCs_ids
        apply hkeys
        rcases List.mem_append.mp hi with hi | hi
        · exact List.mem_append_left _ (List.mem_reverse.mpr hi)
        · exact List.mem_append_right _ hi
      rw [hq] at hnq; cases hnq
  obtain ⟨⟨rs, nv, hsent, hnvv⟩, hlview, hllive3⟩ := hel
  -- 4. the shape of the NEW_VIEW
  have hcfgL := C11Net.node_cfg hwf hr3 (ldr C v) hhL hmL
  obtain ⟨_, s2, s3, s4, s5, s6, _, _, _, _, b', hb'⟩ := (reach_sent hr3 (ldr C v)).nvShape rs nv hsent
  rw [hcfgL] at s2 s3 s4
  have hshape : NVShape C v b' nv := ⟨s2, s3, hnvv, hb', by rw [s4]; rfl, s5, s6⟩
  -- 5. the good view
  have hfol3 : ∀ j ∈ R, n3.node j = { (net.node j) with view := v } ∧ (n3.node j).store.getPP C.height v = none := by
    intro j hj
    have hjL : j ≠ ldr C v := by intro e; rw [e] at hj; exact crew.notLeader hj
    obtain ⟨hvoted, hnode⟩ := hpost1 j hj
    have e : n3.node j = n1.node j := (hoth3 j hjL).1.trans (hfol2 j hj).1
    exact ⟨by rw [e, hnode], by rw [e]; exact hvoted.2.2.1⟩
  obtain ⟨n4, hr4, hle4, hc⟩ := good_view_from_newview hwf v b' R crew nv spi hshape hr3 hA23
    ⟨fun k hk => by rw [hstart3]; exact hs2 k hk, rs, hsent⟩
    (by
      intro j hj
      obtain ⟨e, hnone⟩ := hfol3 j hj
      refine ⟨hnone, by rw [e]; show ¬ v > v; omega, ?_, ?_⟩
      · intro hfresh
        rw [e]
        exact hval j hj nv hshape.height hshape.view hfresh
      · rw [e]
        exact hliveF j hj nv hshape.height hshape.view)
    hlview hllive3
  exact ⟨n4, hr4, fun k o ho => hle4 k o (hle3 k o (hf2.outsLe k o (hle1 k o ho))), hc⟩

end elect

/-! ## the registry invariant of C15 in every reachable state of the network -/

/-- **the context registry of every member, in every reachable state, satisfies the registry invariant of
C15** (the term applies nothing but registry operations to it: `Term.step_regRun`) -/
theorem reach_reg_inv {net : Net} (hr : Reach C net) (i : Nat) : C15.Inv (net.node i).reg := by
  induction hr with
  | init => exact C15.inv_init
  | @step net _ _ hs ih =>
    have common : ∀ (j : Nat) (e : Event) (spi : List Spi) (w' : Term.W),
        step (net.node j) e spi = (w'.n, w'.outs) → C15.Inv (upd net.node j w'.n i).reg := by
      intro j e spi w' hst
      by_cases hij : i = j
      · subst hij
        rw [upd_same]
        have := Term.step_regInv (net.node i) e spi ih
        rw [hst] at this; exact this
      · rw [upd_other _ _ hij]; exact ih
    cases hs with
    | start j first spi w' g hh hm hs hr hst => exact common j _ spi w' hst
    | event j e spi w' g hh hm hs hns hg ha hr hst => exact common j e spi w' hst

/-- in a reachable state a registry that is not shut down and whose watermark is not above `(h, v)` hands
out a live context for `(h, v)` -/
theorem ctxOK_reach {net : Net} (hr : Reach C net) (i h v : Nat) (hs : (net.node i).reg.shutdown = false)
    (hst : Contexts.isStale (net.node i).reg ⟨h, v⟩ = false) : CtxOK (net.node i).reg h v :=
  ctxOK_of_inv _ h v (reach_reg_inv hr i) hs (by intro hc; rw [(C15.isStale_iff _ _).mpr hc] at hst; cases hst)

/-! ## discharging the consumer-side hypotheses: an approving consumer that never cancels meanwhile -/

/-- with a context for `(h, v)` that is handed out and not done, and a consumer that approves without a
cancellation arriving meanwhile, `ValidateBlockProposal` succeeds -/
theorem askValidate_ok (w : Term.W) (h v : Nat) (blk : Option Block) (hash : Nat) (rest : List Spi)
    (hspi : w.spi = .verdict true none :: rest) (hctx : CtxOK w.n.reg h v) : (askValidate w h v blk hash).2 = true := by
  obtain ⟨id, hid, hdone⟩ := hctx
  unfold askValidate ctxFor
  simp only [W.emit]
  rw [hid]
  simp only [hspi, cancelMeanwhile]
  unfold ctxDone
  simp only [hdone, Bool.not_false, Bool.and_self]

/-- no SPI answer of this step carries a cancellation that arrives during the call -/
def NoCancel (spi : List Spi) : Prop := ∀ g cd rest, spi = Spi.verdict g cd :: rest → cd = none

theorem askValidate_same (w : Term.W) (h v : Nat) (blk : Option Block) (hash : Nat) (hspi : NoCancel w.spi) :
    C05.RegSame w.n.reg (askValidate w h v blk hash).1.n.reg := by
  unfold askValidate
  dsimp only
  have h0 := C05.ctxFor_same w h v
  have hs : (ctxFor w h v).1.spi = w.spi := rfl
  generalize ctxFor w h v = r at h0 hs ⊢
  obtain ⟨w1, ctx⟩ := r
  dsimp only at h0 hs ⊢
  cases ctx with
  | none => exact h0
  | some id =>
    dsimp only
    cases hsp : (w1.emit (Out.callValidate h blk hash)).spi with
    | nil => exact h0
    | cons a rest =>
      cases a with
      | proposal _ _ => exact h0
      | verdict g cd =>
        have : cd = none := hspi g cd rest (by rw [← hs]; exact hsp)
        subst this
        exact h0

theorem processPreprepare_same (w : Term.W) (ppm : PPMsg) : C05.RegSame w.n.reg (processPreprepare w ppm).n.reg := by
  unfold processPreprepare
  dsimp only
  split
  · exact C05.RegSame.refl _
  · exact C05.checkPreparedLocally_same _ _ _ _

theorem handleNewView_same (w : Term.W) (nv : NVMsg) (hspi : NoCancel w.spi) :
    C05.RegSame w.n.reg (handleNewView w nv).n.reg := by
  unfold handleNewView
  dsimp only
  split; exact C05.RegSame.refl _
  split; exact C05.RegSame.refl _
  split; exact C05.RegSame.refl _
  split; exact C05.RegSame.refl _
  split; exact C05.RegSame.refl _
  split; exact C05.RegSame.refl _
  split; exact C05.RegSame.refl _
  split; exact C05.RegSame.refl _
  split; exact C05.RegSame.refl _
  unfold adoptNewView
  dsimp only
  have key : ∀ (w1 : Term.W) (ok : Bool), C05.RegSame w.n.reg w1.n.reg →
      C05.RegSame w.n.reg (if (!ok) = true then w1 else
        if (!validatePreprepare w1.n ⟨nv.pp, nv.block⟩) = true then w1 else
          if (!(initView { w1 with n := { w1.n with latestNV := nv.header.view } } nv.header.view).2) = true
          then (initView { w1 with n := { w1.n with latestNV := nv.header.view } } nv.header.view).1
          else processPreprepare (initView { w1 with n := { w1.n with latestNV := nv.header.view } } nv.header.view).1 ⟨nv.pp, nv.block⟩).n.reg := by
    intro w1 ok h1
    split
    · exact h1
    split
    · exact h1
    have hiv : (initView { w1 with n := { w1.n with latestNV := nv.header.view } } nv.header.view).1.n.reg = w1.n.reg := by
      unfold initView; split <;> rfl
    split
    · rw [hiv]; exact h1
    · refine C05.RegSame.trans h1 ?_
      have := processPreprepare_same (initView { w1 with n := { w1.n with latestNV := nv.header.view } } nv.header.view).1 ⟨nv.pp, nv.block⟩
      rw [hiv] at this; exact this
  by_cases hlv : (latestVote nv.header.votes).isNone = true
  · simp only [hlv, if_true]
    exact key _ _ (askValidate_same w _ _ _ _ hspi)
  · simp only [hlv]
    exact key w true (C05.RegSame.refl _)

/-- **From the election timeouts to a decision, with approving consumers** — every hypothesis a primitive
fact about the state: the crew of view `v = u + 1` is started and in view `u`; no crew member's registry is
shut down or has a watermark above `(height, v)`; no follower's vote would carry a block committing to the
empty hash; the consumers approve what they are asked to validate, the leader's consumer hands over `b`
when asked, and no cancellation arrives during those calls.  (`CtxOK` and the consumer-side hypotheses of
`good_view_from_timeouts` are discharged by the registry invariant `reach_reg_inv`, `askValidate_ok` and
`handleNewView_same`.) -/
theorem good_view_from_timeouts_approving (hwf : WF C) (u v : Nat) (R : List Nat) (crew : Crew C v R)
    (hv : wrap64 (u + 1) = v) (huv : u < v) {net : Net} (hr : Reach C net) (hA2 : TraceA2 net.trace) (b : Block)
    (hstarted : ∀ k ∈ R ++ [ldr C v], net.started k = true)
    (hviews : ∀ k ∈ R ++ [ldr C v], (net.node k).view = u)
    (hregs : ∀ k ∈ R ++ [ldr C v], (net.node k).reg.shutdown = false
      ∧ Contexts.isStale (net.node k).reg ⟨C.height, v⟩ = false ∧ Contexts.isStale (net.node k).reg ⟨C.height, maxView⟩ = false)
    (hne : ∀ j ∈ R, ∀ blk, voteBlock (net.node j) = some blk → blk.hash ≠ emptyBytes) :
    ∃ net', Reach C net' ∧ OutsLe net net'
      ∧ ∀ j ∈ R ++ [ldr C v], ∃ blk cs, Out.commit blk cs ∈ net'.outs j := by
  have hLm : ldr C v ∈ R ++ [ldr C v] := List.mem_append_right _ (List.mem_singleton.mpr rfl)
  have hnc : NoCancel [Spi.verdict true none] := by
    intro g cd rest h
    simp only [List.cons.injEq, Spi.verdict.injEq] at h
    exact h.1.2.symm
  obtain ⟨l1, l2, l3⟩ := hregs _ hLm
  refine good_view_from_timeouts hwf u v R crew hv huv hr hA2 b (fun _ => [.verdict true none]) hstarted hviews
    (ctxOK_reach hr _ _ _ l1 l2) ⟨l1, l3⟩ hne ?_ ?_
  · intro j hj nv hh hvv _
    obtain ⟨f1, f2, _⟩ := hregs j (List.mem_append_left _ hj)
    rw [hh, hvv]
    exact askValidate_ok _ _ _ _ _ [] rfl (ctxOK_reach hr j _ _ f1 f2)
  · intro j hj nv _ _
    obtain ⟨f1, _, f3⟩ := hregs j (List.mem_append_left _ hj)
    exact C05.Live.of_same (handleNewView_same _ nv hnc) ⟨f1, f3⟩

/-! ## non-vacuity: from three started members in view 0 to three decisions in view 1

Members 1, 2, 3 of `exC` have started (member 1, the leader of view 0, has proposed; nothing was
delivered).  The crew of view 1 is its leader 2 and the followers 1 and 3.  Everything else — the
three election timeouts, the two votes, the NEW_VIEW of member 2 with a fresh block, the PREPAREs and
the COMMITs — is the schedule `good_view_from_timeouts` constructs. -/
open LeanHelix.C01Net in
theorem ex_good_view_from_timeouts :
    ∃ net, Reach exC net ∧ ∀ j ∈ [1, 3, 2], ∃ blk cs, Out.commit blk cs ∈ net.outs j := by
  obtain ⟨net, hr, ⟨hn, hs, ho⟩, ht⟩ := sim_reach exWF (exSched5.take 3) (SimState.init exC) (Net.init exC) .init (agrees_init exC) (by decide)
  have hA2 : TraceA2 net.trace := by
    have htr : net.trace = (exSched5.take 3).reverse := by rw [ht]; exact List.append_nil _
    rw [htr]
    intro t ht'
    have : t ∈ (exSched5.take 3).reverse := ht'
    intro cd rest hspi
    have hcases : t = (3, .start true, []) ∨ t = (2, .start true, []) ∨ t = (1, .start true, [.proposal exBlock none]) := by
      simpa [exSched5] using this
    rcases hcases with rfl | rfl | rfl <;> cases hspi
  have hl : ldr exC 1 = 2 := by decide
  have crew : Crew exC 1 [1, 3] := by
    refine ⟨by decide, by decide, by decide, ?_, by decide⟩
    intro k hk
    have : k = 1 ∨ k = 3 ∨ k = 2 := by rw [hl] at hk; simpa using hk
    rcases this with rfl | rfl | rfl <;> exact ⟨rfl, ⟨_, 1⟩, by decide, rfl⟩
  obtain ⟨net', hr', _, hc⟩ := good_view_from_timeouts exWF 0 1 [1, 3] crew (by decide) (by decide) hr hA2 ⟨77, 5, 4242⟩
    (fun _ => [.verdict true none])
    (by
      intro k hk
      have : k = 1 ∨ k = 3 ∨ k = 2 := by rw [hl] at hk; simpa using hk
      rw [hs]
      rcases this with rfl | rfl | rfl <;> decide)
    (by
      intro k hk
      have : k = 1 ∨ k = 3 ∨ k = 2 := by rw [hl] at hk; simpa using hk
      rw [hn]
      rcases this with rfl | rfl | rfl <;> decide)
    (by rw [hl, hn]; exact ⟨0, by decide, by decide⟩)
    (by rw [hl, hn]; exact ⟨by decide, by decide⟩)
    (by
      intro j hj blk hblk
      have : j = 1 ∨ j = 3 := by simpa using hj
      rw [hn] at hblk
      rcases this with rfl | rfl
      · have hz : voteBlock ((sim (SimState.init exC) (exSched5.take 3)).node 1) = none := by decide
        rw [hz] at hblk; cases hblk
      · have hz : voteBlock ((sim (SimState.init exC) (exSched5.take 3)).node 3) = none := by decide
        rw [hz] at hblk; cases hblk)
    (by
      intro j hj nv hh hv _
      have : j = 1 ∨ j = 3 := by simpa using hj
      rw [hh, hv, hn]
      rcases this with rfl | rfl
      · exact askValidate_ok _ _ _ _ _ [] rfl ⟨1, by decide, by decide⟩
      · exact askValidate_ok _ _ _ _ _ [] rfl ⟨0, by decide, by decide⟩)
    (by
      intro j hj nv _ _
      have : j = 1 ∨ j = 3 := by simpa using hj
      have hnc : NoCancel [Spi.verdict true none] := by
        intro g cd rest h
        simp only [List.cons.injEq, Spi.verdict.injEq] at h
        exact h.1.2.symm
      rw [hn]
      rcases this with rfl | rfl
      · exact C05.Live.of_same (handleNewView_same _ nv hnc) ⟨by decide, by decide⟩
      · exact C05.Live.of_same (handleNewView_same _ nv hnc) ⟨by decide, by decide⟩)
  refine ⟨net', hr', ?_⟩
  intro j hj
  exact hc j (by rw [hl]; simpa using hj)

end LeanHelix.C05Net
