import LeanHelix.Props.C10Leader
import LeanHelix.Props.C15Registry
/-!
# C15 (term part) — a result produced under a cancelled or refused context is never broadcast

* `askProposal_some_live`: `RequestNewBlockProposal`'s block is used only if its context was handed
  out and is still live when the call returns (whatever the main loop cancelled meanwhile).
* `no_newview_without_live_proposal`: when the elected leader needs a fresh block and the proposal
  request yields nothing (context refused, or cancelled during the call), the election path sends no
  NEW_VIEW and stores no proposal.
* `start_no_proposal_without_live_context`: likewise for the PREPREPARE of view 0.
* `validation_under_dead_context_rejects`: a proposal validated under a context that is done when
  the consumer returns is treated as rejected, whatever the consumer answered.
-/
namespace LeanHelix.C15
open LeanHelix LeanHelix.Msg LeanHelix.Term

/-- the block is handed on only if the context was issued and is live after the call -/
theorem askProposal_some_live (w : Term.W) (h v : Nat) (b : Block) (hb : (askProposal w h v).2 = some b) :
    ∃ id cd rest, (ctxFor w h v).2 = some id ∧ ((ctxFor w h v).1.emit (.callRequest h)).spi = .proposal b cd :: rest
      ∧ ctxDone (askProposal w h v).1 id = false := by
  unfold askProposal at hb ⊢
  dsimp only at hb ⊢
  cases hc : (ctxFor w h v).2 with
  | none => simp only [hc] at hb; cases hb
  | some id =>
    simp only [hc] at hb ⊢
    split at hb
    · rename_i b' cd rest hspi
      simp only at hb
      split at hb
      · cases hb
      · rename_i hnd
        simp only [Option.some.injEq] at hb
        subst hb
        refine ⟨id, cd, rest, rfl, hspi, ?_⟩
        simp only [hspi]
        simpa using hnd
    · cases hb

/-- effects that are neither a NEW_VIEW nor a PREPREPARE send -/
def NoProposal (o : Out) : Prop :=
  match o with
  | .send _ (.newView _) => False
  | .send _ (.preprepare _) => False
  | _ => True

theorem noProposal_benign : Benign NoProposal := ⟨fun _ _ => trivial, fun _ => trivial, fun _ _ _ => trivial, fun _ => trivial⟩

/-- **Elected, no vote carries a block, and the proposal request yields nothing (its context was
refused or cancelled during the call): nothing is proposed** — no NEW_VIEW is sent, the log is unchanged. -/
theorem no_newview_without_live_proposal (w : Term.W) (view : Nat) (vcs : List VCMsg)
    (hnb : latestBlockFromVCs vcs = none)
    (hnone : ∀ w1 : Term.W, w1.n.reg = (initView { w with n := { w.n with latestNV := view } } view).1.n.reg →
      w1.spi = (initView { w with n := { w.n with latestNV := view } } view).1.spi → w1.n.cfg = w.n.cfg →
      (askProposal w1 w1.n.cfg.height view).2 = none) :
    Appends NoProposal w (onElectedByViewChange w view vcs)
    ∧ (onElectedByViewChange w view vcs).n.store = w.n.store := by
  unfold onElectedByViewChange
  dsimp only
  have h0 := initView_appends' noProposal_benign { w with n := { w.n with latestNV := view } } view
  obtain ⟨i1, i2, _⟩ := initView_n { w with n := { w.n with latestNV := view } } view
  have hq := hnone (initView { w with n := { w.n with latestNV := view } } view).1 rfl rfl i1
  generalize initView { w with n := { w.n with latestNV := view } } view = r at h0 i1 i2 hq ⊢
  obtain ⟨w1, ok⟩ := r
  dsimp only at h0 i1 i2 hq ⊢
  have h0' : Appends NoProposal w w1 := h0
  split
  · exact ⟨h0', i2⟩
  · rw [hnb]
    dsimp only
    have h1 := Appends.trans h0' (askProposal_appends' noProposal_benign w1 w1.n.cfg.height view)
    obtain ⟨_, p2, _⟩ := askProposal_n w1 w1.n.cfg.height view
    generalize askProposal w1 w1.n.cfg.height view = r2 at h1 p2 hq ⊢
    obtain ⟨w2, ob⟩ := r2
    dsimp only at h1 p2 hq ⊢
    subst hq
    exact ⟨h1, by rw [p2]; exact i2⟩

/-- **View 0: when the proposal request yields nothing, no PREPREPARE is sent.** -/
theorem start_no_proposal_without_live_context (w : Term.W) (c : Bool)
    (hnone : ∀ w1 : Term.W, w1.n.reg = (initView { w with n := { w.n with prepared := none } } 0).1.n.reg →
      w1.spi = (initView { w with n := { w.n with prepared := none } } 0).1.spi → w1.n.cfg = w.n.cfg →
      (askProposal w1 w1.n.cfg.height 0).2 = none) :
    Appends NoProposal w (startTerm w c) ∧ (startTerm w c).n.store = w.n.store := by
  unfold startTerm
  dsimp only
  have h0 := initView_appends' noProposal_benign { w with n := { w.n with prepared := none } } 0
  obtain ⟨i1, i2, _⟩ := initView_n { w with n := { w.n with prepared := none } } 0
  have hq := hnone (initView { w with n := { w.n with prepared := none } } 0).1 rfl rfl i1
  generalize initView { w with n := { w.n with prepared := none } } 0 = r at h0 i1 i2 hq ⊢
  obtain ⟨w1, ok⟩ := r
  dsimp only at h0 i1 i2 hq ⊢
  have h0' : Appends NoProposal w w1 := h0
  split
  · exact ⟨h0', i2⟩
  split
  · exact ⟨h0', i2⟩
  split
  · exact ⟨h0', i2⟩
  · have h1 := Appends.trans h0' (askProposal_appends' noProposal_benign w1 w1.n.cfg.height 0)
    obtain ⟨_, p2, _⟩ := askProposal_n w1 w1.n.cfg.height 0
    generalize askProposal w1 w1.n.cfg.height 0 = r2 at h1 p2 hq ⊢
    obtain ⟨w2, ob⟩ := r2
    dsimp only at h1 p2 hq ⊢
    subst hq
    exact ⟨h1, by rw [p2]; exact i2⟩

/-- **A validation whose context is done when the consumer returns counts as a rejection**, whatever
the consumer answered; so does one whose context was refused. -/
theorem validation_under_dead_context_rejects (w : Term.W) (h v : Nat) (b : Option Block) (hash : Nat)
    (hok : (askValidate w h v b hash).2 = true) :
    ∃ id, (ctxFor w h v).2 = some id ∧ ctxDone (askValidate w h v b hash).1 id = false := by
  unfold askValidate at hok ⊢
  dsimp only at hok ⊢
  cases hc : (ctxFor w h v).2 with
  | none => simp only [hc] at hok; cases hok
  | some id =>
    simp only [hc] at hok ⊢
    split at hok
    · rename_i good cd rest hspi
      simp only [Bool.and_eq_true, Bool.not_eq_true'] at hok
      refine ⟨id, rfl, ?_⟩
      simp only [hspi]
      exact hok.2
    · cases hok

end LeanHelix.C15
