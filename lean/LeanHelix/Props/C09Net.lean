import LeanHelix.Props.C01Net
/-!
# C09 at the network level: every vote a correct member sends carries its lock

`Props/C09.lean` proves what one call of the election handler puts into the VIEW_CHANGE; the local
rule "a vote cast after preparing in view v carries a proof of a view ≥ v" is part of `Spec.Justified`
and so holds along every execution of the network model (`reach_inv`).  Read off the reachable state:

* `net_vote_carries_lock` — if a correct member is prepared in view `pv` (its `prepared` field), then
  every VIEW_CHANGE it has sent for a view above `pv` carries a prepared proof of a view ≥ `pv`
  (`pf` is the (view, hash) pair of the proof, `pfOf`);
* `net_prepared_has_certificate` — and the (view, hash) it is prepared on is certified: a quorum whose
  correct members accepted exactly that hash in that view.
-/
namespace LeanHelix.C09Net
open LeanHelix LeanHelix.Msg LeanHelix.Term LeanHelix.Spec LeanHelix.Net

variable {C : NetCfg}

theorem mem_erase_vote {T : List LEv} {v : Nat} {pf : Option (Nat × Nat)} (hm : Stmt.vote v pf ∈ T.filterMap Term.erase) :
    LEv.vote v pf true ∈ T := by
  rw [List.mem_filterMap] at hm
  obtain ⟨e, he, hx⟩ := hm
  cases e with
  | acc v' h' f => simp [Term.erase] at hx
  | com v' h' => simp [Term.erase] at hx
  | lcom v' h' => simp [Term.erase] at hx
  | dec h' => simp [Term.erase] at hx
  | vote v' pf' s =>
    cases s with
    | false => simp [Term.erase] at hx
    | true => simp only [Term.erase, Option.some.injEq, Stmt.vote.injEq] at hx; obtain ⟨rfl, rfl⟩ := hx; exact he

theorem net_vote_carries_lock (hwf : WF C) {net : Net} (hr : Reach C net) {i : Nat} (hh : C.honest i = true)
    (hm : ∃ m ∈ C.ms, m.id = i) {pv : Nat} (hprep : (net.node i).prepared = some pv)
    {o : Out} (ho : o ∈ net.outs i) {v' : Nat} {pf : Option (Nat × Nat)} (s : stmtOf o = some (.vote v' pf))
    (hlt : pv < v') : ∃ pv' hp, pf = some (pv', hp) ∧ pv ≤ pv' := by
  have hinv := reach_inv hwf hr
  cases hst : net.started i with
  | false =>
    have := (hinv.fresh i hst).2.1
    rw [this] at ho; cases ho
  | true =>
    obtain ⟨⟨T, hcore, herase⟩, _, _, _, _⟩ := hinv.nodes i hh hm hst
    have h1 : Stmt.vote v' pf ∈ (net.outs i).filterMap stmtOf := List.mem_filterMap.mpr ⟨_, ho, s⟩
    rw [herase] at h1
    have hvote : Ev.vote i v' pf ∈ net.H := mem_H_of_T hcore.sees (List.mem_reverse.mp (mem_erase_vote h1))
    obtain ⟨_, ⟨ppm, _, hcom⟩, _⟩ := hcore.ginv.prep pv hprep
    have hcom' : Ev.com i pv ppm.c.header.hash ∈ net.H := mem_H_of_T hcore.sees hcom
    exact Spec.lock_carried (setting C hwf) hinv.valid hcom' hvote hlt

theorem net_prepared_has_certificate (hwf : WF C) {net : Net} (hr : Reach C net) {i : Nat} (hh : C.honest i = true)
    (hm : ∃ m ∈ C.ms, m.id = i) {pv : Nat} (hprep : (net.node i).prepared = some pv) :
    ∃ ppm, (net.node i).store.getPP (net.node i).cfg.height pv = some ppm
      ∧ validCert (setting C hwf) net.H pv ppm.c.header.hash := by
  have hinv := reach_inv hwf hr
  cases hst : net.started i with
  | false =>
    have := (hinv.fresh i hst).1
    rw [this] at hprep; cases hprep
  | true =>
    obtain ⟨⟨T, hcore, _⟩, _, _, _, _⟩ := hinv.nodes i hh hm hst
    obtain ⟨_, ⟨ppm, hg, hcom⟩, _⟩ := hcore.ginv.prep pv hprep
    exact ⟨ppm, hg, Spec.com_cert (setting C hwf) hinv.valid (mem_H_of_T hcore.sees hcom)⟩

end LeanHelix.C09Net
