import LeanHelix.Model.Basic
/-! Token-level parsing for the line protocol between the Go harness and the model driver. -/
namespace LeanHelix.Parse
open LeanHelix

def hexDigit (c : Char) : Option Nat :=
  if '0' ≤ c ∧ c ≤ '9' then some (c.toNat - '0'.toNat)
  else if 'a' ≤ c ∧ c ≤ 'f' then some (c.toNat - 'a'.toNat + 10)
  else none

/-- ids travel as `x<hex>`; the injective map to `Nat` reads the hex digits after a leading `1`
(so leading zero bytes and the empty id stay distinct). -/
def idOfTok (s : String) : Option Nat :=
  match s.toList with
  | 'x' :: ds => ds.foldlM (fun acc c => (hexDigit c).map (fun d => acc * 16 + d)) 1
  | _ => none

def listOf {α} (f : String → Option α) (s : String) : Option (List α) :=
  if s = "-" then some [] else (s.splitOn ",").mapM f

def natOf (s : String) : Option Nat := s.toNat?

def boolOf (s : String) : Option Bool :=
  if s = "true" then some true else if s = "false" then some false else none

def memberOf (s : String) : Option Member :=
  match s.splitOn ":" with
  | [i, w] => do let i ← idOfTok i; let w ← natOf w; pure ⟨i, w⟩
  | _ => none

def showBool (b : Bool) : String := if b then "true" else "false"

end LeanHelix.Parse

namespace LeanHelix.Parse
def hexChar (d : Nat) : Char := if d < 10 then Char.ofNat (48 + d) else Char.ofNat (87 + d)

/-- inverse of `idOfTok` on its range -/
def tokOfId (n : Nat) : String :=
  let ds := (Nat.toDigits 16 n)
  "x" ++ String.ofList (ds.drop 1)
end LeanHelix.Parse
