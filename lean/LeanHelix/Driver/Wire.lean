import LeanHelix.Model.Wire
/-!
Line protocol around the wire model, used to compare it with the Go builders/readers.

  enc <TERM>     -> lowercase hex of `Content.encode`
  dec <hex>      -> TERM or `invalid`
  encbp <BPTERM> -> hex of `BlockProof.encode`
  decbp <hex>    -> BPTERM or `invalid`
  hdr <hex>      -> hex of the signed header's raw bytes of a content, or `invalid`

TERM notation (no spaces): R(mtype;inst;height;view;xHASH)  S(xID;xSIG)  P(R;S;R;[S,S…]) or `-`
V(mtype;inst;height;view;P-or--;S)  PP(R;S) PR(R;S) CM(R;S;xSHARE) VC(V)
NV(mtype;inst;height;view;[V,V…];S;PPC(R;S))  BP(R;[S…];xSEED)
-/
namespace LeanHelix.WireDriver
open LeanHelix.Wire

/-! ## hex -/

def hexDigit (n : Nat) : Char :=
  if n < 10 then Char.ofNat (48 + n) else Char.ofNat (87 + n)

def hexOfBytes (b : Bytes) : String :=
  String.ofList (b.flatMap (fun x => [hexDigit (x.toNat / 16), hexDigit (x.toNat % 16)]))

def hexVal (c : Char) : Option Nat :=
  if '0' ≤ c ∧ c ≤ '9' then some (c.toNat - 48)
  else if 'a' ≤ c ∧ c ≤ 'f' then some (c.toNat - 87)
  else none

def bytesOfHexChars : List Char → Option Bytes
  | [] => some []
  | [_] => none
  | a :: b :: r =>
    match hexVal a, hexVal b, bytesOfHexChars r with
    | some x, some y, some bs => some (UInt8.ofNat (16 * x + y) :: bs)
    | _, _, _ => none

def bytesOfHex (s : String) : Option Bytes := bytesOfHexChars s.toList

/-! ## printing -/

def showX (b : Bytes) : String := "x" ++ hexOfBytes b
def showList (l : List String) : String := "[" ++ ",".intercalate l ++ "]"

def showR (r : BlockRef) : String :=
  s!"R({r.mtype};{r.inst};{r.height};{r.view};{showX r.hash})"
def showS (s : SenderSig) : String := s!"S({showX s.id};{showX s.sig})"
def showP : Option Proof → String
  | none => "-"
  | some p => s!"P({showR p.ppRef};{showS p.ppSender};{showR p.pRef};{showList (p.pSenders.map showS)})"
def showVH (h : VCHeader) (s : SenderSig) : String :=
  s!"V({h.mtype};{h.inst};{h.height};{h.view};{showP h.proof};{showS s})"
def showV (v : VCContent) : String := showVH v.header v.sender
def showContent : Content → String
  | .preprepare c => s!"PP({showR c.header};{showS c.sender})"
  | .prepare c => s!"PR({showR c.header};{showS c.sender})"
  | .commit c => s!"CM({showR c.header};{showS c.sender};{showX c.share})"
  | .viewChange c => s!"VC({showV c})"
  | .newView c =>
    let h := c.header
    s!"NV({h.mtype};{h.inst};{h.height};{h.view};{showList (h.votes.map showV)};{showS c.sender};PPC({showR c.pp.header};{showS c.pp.sender}))"
def showBP (p : BlockProof) : String :=
  s!"BP({showR p.ref};{showList (p.nodes.map showS)};{showX p.seed})"

/-! ## parsing -/

abbrev P (α : Type) := List Char → Option (α × List Char)

def lit (s : String) : P Unit := fun cs =>
  let l := s.toList
  if cs.take l.length = l then some ((), cs.drop l.length) else none

def pNat : P Nat := fun cs =>
  let ds := cs.takeWhile Char.isDigit
  if ds.isEmpty then none else
  some (ds.foldl (fun n c => 10 * n + (c.toNat - 48)) 0, cs.drop ds.length)

def pX : P Bytes := fun cs =>
  match cs with
  | 'x' :: r =>
    let hs := r.takeWhile (fun c => (hexVal c).isSome)
    match bytesOfHexChars hs with
    | some b => some (b, r.drop hs.length)
    | none => none
  | _ => none

/-- `[` item `,` item … `]` (possibly empty); `fuel` bounds the number of items -/
def pItems {α : Type} (item : P α) : Nat → P (List α)
  | 0, _ => none
  | fuel + 1, cs =>
    match item cs with
    | none => none
    | some (a, r) =>
      match r with
      | ',' :: r' =>
        match pItems item fuel r' with
        | some (as, r'') => some (a :: as, r'')
        | none => none
      | ']' :: r' => some ([a], r')
      | _ => none

def pList {α : Type} (item : P α) : P (List α) := fun cs =>
  match cs with
  | '[' :: ']' :: r => some ([], r)
  | '[' :: r => pItems item r.length r
  | _ => none

def pR : P BlockRef := fun cs => do
  let (_, cs) ← lit "R(" cs
  let (m, cs) ← pNat cs
  let (_, cs) ← lit ";" cs
  let (i, cs) ← pNat cs
  let (_, cs) ← lit ";" cs
  let (h, cs) ← pNat cs
  let (_, cs) ← lit ";" cs
  let (v, cs) ← pNat cs
  let (_, cs) ← lit ";" cs
  let (x, cs) ← pX cs
  let (_, cs) ← lit ")" cs
  some (⟨m, i, h, v, x⟩, cs)

def pS : P SenderSig := fun cs => do
  let (_, cs) ← lit "S(" cs
  let (i, cs) ← pX cs
  let (_, cs) ← lit ";" cs
  let (s, cs) ← pX cs
  let (_, cs) ← lit ")" cs
  some (⟨i, s⟩, cs)

def pP : P (Option Proof) := fun cs =>
  match cs with
  | '-' :: r => some (none, r)
  | _ => do
    let (_, cs) ← lit "P(" cs
    let (r1, cs) ← pR cs
    let (_, cs) ← lit ";" cs
    let (s1, cs) ← pS cs
    let (_, cs) ← lit ";" cs
    let (r2, cs) ← pR cs
    let (_, cs) ← lit ";" cs
    let (ss, cs) ← pList pS cs
    let (_, cs) ← lit ")" cs
    some (some ⟨r1, s1, r2, ss⟩, cs)

def pV : P VCContent := fun cs => do
  let (_, cs) ← lit "V(" cs
  let (m, cs) ← pNat cs
  let (_, cs) ← lit ";" cs
  let (i, cs) ← pNat cs
  let (_, cs) ← lit ";" cs
  let (h, cs) ← pNat cs
  let (_, cs) ← lit ";" cs
  let (v, cs) ← pNat cs
  let (_, cs) ← lit ";" cs
  let (p, cs) ← pP cs
  let (_, cs) ← lit ";" cs
  let (s, cs) ← pS cs
  let (_, cs) ← lit ")" cs
  some (⟨⟨m, i, h, v, p⟩, s⟩, cs)

def pRS (tag : String) : P PPContent := fun cs => do
  let (_, cs) ← lit tag cs
  let (r, cs) ← pR cs
  let (_, cs) ← lit ";" cs
  let (s, cs) ← pS cs
  let (_, cs) ← lit ")" cs
  some (⟨r, s⟩, cs)

def pCM : P CContent := fun cs => do
  let (_, cs) ← lit "CM(" cs
  let (r, cs) ← pR cs
  let (_, cs) ← lit ";" cs
  let (s, cs) ← pS cs
  let (_, cs) ← lit ";" cs
  let (x, cs) ← pX cs
  let (_, cs) ← lit ")" cs
  some (⟨r, s, x⟩, cs)

def pNV : P NVContent := fun cs => do
  let (_, cs) ← lit "NV(" cs
  let (m, cs) ← pNat cs
  let (_, cs) ← lit ";" cs
  let (i, cs) ← pNat cs
  let (_, cs) ← lit ";" cs
  let (h, cs) ← pNat cs
  let (_, cs) ← lit ";" cs
  let (v, cs) ← pNat cs
  let (_, cs) ← lit ";" cs
  let (vs, cs) ← pList pV cs
  let (_, cs) ← lit ";" cs
  let (s, cs) ← pS cs
  let (_, cs) ← lit ";" cs
  let (pp, cs) ← pRS "PPC(" cs
  let (_, cs) ← lit ")" cs
  some (⟨⟨m, i, h, v, vs⟩, s, pp⟩, cs)

def pContent : P Content := fun cs =>
  match cs with
  | 'P' :: 'P' :: '(' :: _ => (pRS "PP(" cs).map (fun (c, r) => (.preprepare c, r))
  | 'P' :: 'R' :: '(' :: _ => (pRS "PR(" cs).map (fun (c, r) => (.prepare c, r))
  | 'C' :: 'M' :: '(' :: _ => (pCM cs).map (fun (c, r) => (.commit c, r))
  | 'V' :: 'C' :: '(' :: r => do
    let (v, cs) ← pV r
    let (_, cs) ← lit ")" cs
    some (.viewChange v, cs)
  | 'N' :: 'V' :: '(' :: _ => (pNV cs).map (fun (c, r) => (.newView c, r))
  | _ => none

def pBP : P BlockProof := fun cs => do
  let (_, cs) ← lit "BP(" cs
  let (r, cs) ← pR cs
  let (_, cs) ← lit ";" cs
  let (ns, cs) ← pList pS cs
  let (_, cs) ← lit ";" cs
  let (x, cs) ← pX cs
  let (_, cs) ← lit ")" cs
  some (⟨r, ns, x⟩, cs)

def parseAll {α : Type} (p : P α) (s : String) : Option α :=
  match p s.toList with
  | some (a, []) => some a
  | _ => none

def parseContent (s : String) : Option Content := parseAll pContent s
def parseBP (s : String) : Option BlockProof := parseAll pBP s

/-! ## the line protocol -/

def splitCmd (line : String) : String × String :=
  let cs := line.toList
  let cmd := cs.takeWhile (· ≠ ' ')
  let rest := (cs.drop cmd.length).dropWhile (· = ' ')
  let rest := (rest.reverse.dropWhile (fun c => c = ' ' ∨ c = '\n' ∨ c = '\r')).reverse
  (String.ofList cmd, String.ofList rest)

def wireLine (line : String) : String :=
  let (cmd, arg) := splitCmd line
  match cmd with
  | "enc" =>
    match parseContent arg with
    | some c => hexOfBytes c.encode
    | none => "error: bad term"
  | "dec" =>
    match bytesOfHex arg with
    | none => "error: bad hex"
    | some b => match Content.decode b with
      | some c => showContent c
      | none => "invalid"
  | "encbp" =>
    match parseBP arg with
    | some p => hexOfBytes p.encode
    | none => "error: bad term"
  | "decbp" =>
    match bytesOfHex arg with
    | none => "error: bad hex"
    | some b => match BlockProof.decode b with
      | some p => showBP p
      | none => "invalid"
  | "hdr" =>
    match bytesOfHex arg with
    | none => "error: bad hex"
    | some b => match Content.signedRaw b with
      | some h => hexOfBytes h
      | none => "invalid"
  | _ => "error: unknown command"

end LeanHelix.WireDriver
