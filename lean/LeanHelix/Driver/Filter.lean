import LeanHelix.Driver.Parse
import LeanHelix.Model.Filter
namespace LeanHelix.Driver
open LeanHelix Parse Filter

def showFilt (f : Filt) (from_ : Nat) : String :=
  let dl := (f.log.drop from_).map (fun p => s!"{p.1}:{p.2.uid}")
  let d := if dl.isEmpty then "-" else ",".intercalate dl
  let cs := (f.cache.filter (fun p => !p.2.isEmpty)).map (fun p => (p.1, p.2.length))
  -- sort by height (insertion)
  let cs := cs.foldl (fun acc x => let (a, b) := acc.span (fun y => y.1 < x.1); a ++ [x] ++ b) []
  let c := if cs.isEmpty then "-" else ",".intercalate (cs.map (fun p => s!"{p.1}:{p.2}"))
  s!"deliver={d} h={f.stateHeight} latest={f.latest} cache={c}"

def filterStep (f : Filt) (toks : List String) : Option (Filt × String) :=
  match toks with
  | ["reset", me, inst] => do
      let me ← natOf me; let inst ← natOf inst
      pure ({ me := me, inst := inst }, "reset")
  | ["recv", uid, h, inst, sender, script, _viewBump] => do   -- a view change inside a delivery does not concern the filter
      let m : FMsg := ⟨← natOf uid, ← natOf h, ← natOf inst, ← natOf sender, ← natOf script⟩
      let n := f.log.length
      let f' := recv 1000000 f m
      pure (f', showFilt f' n)
  | ["advance", h] => do
      let h ← natOf h
      let n := f.log.length
      let f' := advance 1000000 f h
      pure (f', showFilt f' n)
  | _ => none

end LeanHelix.Driver
