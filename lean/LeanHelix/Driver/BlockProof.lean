import LeanHelix.Driver.Node
import LeanHelix.Model.BlockProof
namespace LeanHelix.Driver
open LeanHelix Parse Msg BlockProof

def tBProof : T → Option (Option BProof)
  | .atom "-" => some none
  | .node "BP" [r, .list ss, e, k] => do pure (some ⟨← tRef r, ← ss.mapM tSig, ← tBool e, ← tBool k⟩)
  | _ => none

def showVerdict : Verdict → String
  | .ok => "ok" | .errCtx => "errCtx" | .errNilBlock => "errNilBlock" | .errNilProof => "errNilProof"
  | .errType => "errType" | .errInstance => "errInstance" | .errHeight => "errHeight"
  | .errCommitment => "errCommitment" | .errSignature => "errSignature" | .errDuplicate => "errDuplicate"
  | .errNotMember => "errNotMember" | .errWeight => "errWeight" | .errNoSeed => "errNoSeed" | .errSeed => "errSeed"

def blockProofStep (toks : List String) : Option String :=
  match toks with
  | ["validate", ctx, blk, proof, inst, ms, soft] => do
      let i : VInput := ⟨← boolOf ctx, ← tBlock (← parseTok blk), ← tBProof (← parseTok proof), ← natOf inst,
        ← listOf memberOf ms, ← boolOf soft⟩
      pure (showVerdict (validate i))
  | ["unreadable"] => some "rejected"     -- bytes with an unreadable field: `proof = none` in the model, always an error
  | _ => none

end LeanHelix.Driver
