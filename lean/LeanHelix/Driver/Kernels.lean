import LeanHelix.Driver.Parse
import LeanHelix.Model.Leader
import LeanHelix.Model.Timeout
import LeanHelix.Model.State
import LeanHelix.Model.Contexts
import LeanHelix.Model.Trigger
namespace LeanHelix.Driver
open LeanHelix Parse

def leaderStep (toks : List String) : Option String :=
  match toks with
  | ["leader", v, ms] => do
      let v ← natOf v; let ms ← listOf memberOf ms
      match Leader.leaderOf v ms with
      | .ok i => pure s!"ok {tokOfId i}"
      | _ => pure "panic"
  | _ => none

def intOf (s : String) : Option Int := s.toInt?

def timeoutStep (toks : List String) : Option String :=
  match toks with
  | ["timeout", b, v] => do
      let b ← intOf b; let v ← natOf v
      pure (toString (Timeout.calcTimeout b v))
  | _ => none

def stateStep (s : State.HV) (toks : List String) : Option (State.HV × String) :=
  let res (r : State.HV × State.HV × Bool) : State.HV × String :=
    (r.1, s!"{if r.2.2 then "ok" else "err"} {r.2.1.height} {r.2.1.view}")
  match toks with
  | ["reset"] => some (State.init, "reset")
  | ["sh", h] => do let h ← natOf h; pure (res (State.step s (.setHeightAndResetView h)))
  | ["sv", v] => do let v ← natOf v; pure (res (State.step s (.setView v)))
  | ["get"] => some (s, s!"{s.height} {s.view}")
  | _ => none

def showHV (hv : State.HV) : String := s!"{hv.height}/{hv.view}"

/-- insertion sort of the live keys (the Go snapshot sorts by OlderThan) -/
def sortHVs (l : List State.HV) : List State.HV :=
  l.foldl (fun acc x =>
    let (a, b) := acc.span (fun y => y.olderThan x)
    a ++ [x] ++ b) []

def contextsStep (r : Contexts.Reg) (toks : List String) : Option (Contexts.Reg × String) :=
  let showRes : Contexts.Res → String
    | .ctx i => s!"ctx {i}"
    | .errShutdown => "err-shutdown"
    | .errStale => "err-stale"
    | .unit => "unit"
  match toks with
  | ["reset"] => some ({}, "reset")
  | ["for", h, v] => do
      let h ← natOf h; let v ← natOf v
      let (r', o) := Contexts.step r (.for_ ⟨h, v⟩); pure (r', showRes o)
  | ["cancel", h, v] => do
      let h ← natOf h; let v ← natOf v
      let (r', o) := Contexts.step r (.cancelOlderThan ⟨h, v⟩); pure (r', showRes o)
  | ["shutdown"] => let (r', o) := Contexts.step r .shutdown; some (r', showRes o)
  | ["status"] =>
      let bits := (List.range r.next).map (fun i => if Contexts.done r i then '1' else '0')
      some (r, "done=" ++ String.ofList bits)
  | ["snap"] =>
      let wm := match r.watermark with | none => "none" | some w => showHV w
      let live := sortHVs (r.live.map (·.1))
      let ls := if live.isEmpty then "-" else ",".intercalate (live.map showHV)
      some (r, s!"wm={wm} live={ls} shutdown={showBool r.shutdown}")
  | _ => none

end LeanHelix.Driver

namespace LeanHelix.Driver
open LeanHelix Parse

def fireCurrent (t : Trigger.Trig) : Trigger.Trig :=
  match t.timer with
  | some id => Trigger.fire t id
  | none => t

def triggerStep (t : Trigger.Trig) (toks : List String) : Option (Trigger.Trig × String) :=
  match toks with
  | ["reset"] => some ({}, "reset")
  | ["register", h, v] => do pure (Trigger.register t (← natOf h) (← natOf v), "ok")
  | ["stop"] => some (Trigger.stop t, "ok")
  | ["settle"] => some (fireCurrent t, "ok")        -- real time passes: a pending timer expires
  | ["await"] =>
      let (t', r) := Trigger.recv (fireCurrent t)
      some (t', match r with | some (h, v) => s!"trigger {h} {v}" | none => "none")
  | _ => none

end LeanHelix.Driver
