import LeanHelix.Driver.Node
/-!
`lhdriver netadm`: replays the operations of the `node` suite through the worker model (like `node`) and,
for every message delivered to a correct node, decides whether the delivery is **admissible in the network
model** (`Net/Adm.lean`): every verifying signature attributed to a correct node of the same instance must
cover a statement that node has made (here: that the *model* of that node has sent, at any height).  One
output line per operation: `ok`, or `INADMISSIBLE <signer> <claim>`.  This ties the assumptions of the
network-level theorems (C01Net, C04Net) to the executions the harness actually produces: the adversary
library must stay inside the adversary class the theorems quantify over, and everything correct nodes send
must be deliverable.
-/
namespace LeanHelix.Driver
open LeanHelix Parse Msg

/-- a signed statement: (instance, height, kind, view, hash-or-proof-view, proof-hash); kind 0 = accept, 1 = commit, 2 = vote -/
structure Claim where
  inst : Nat
  height : Nat
  kind : Nat
  view : Nat
  a : Nat
  b : Nat
deriving DecidableEq, Repr

def refClaims (r : BlockRef) (s : SSig) : List (SSig × Claim) :=
  if r.mtype == Msg.tPP || r.mtype == Msg.tP then [(s, ⟨r.inst, r.height, 0, r.view, r.hash, 0⟩)]
  else if r.mtype == Msg.tC then [(s, ⟨r.inst, r.height, 1, r.view, r.hash, 0⟩)]
  else []

def proofClaims (p : Proof) : List (SSig × Claim) :=
  refClaims p.ppRef p.ppSender ++ p.pSenders.flatMap (fun s => refClaims p.pRef s)

def vcClaims (c : VCContent) : List (SSig × Claim) :=
  let (pv, ph) := match c.header.proof with | some p => (p.ppRef.view + 1, p.ppRef.hash) | none => (0, 0)
  (if c.header.mtype == Msg.tVC then [(c.sender, (⟨c.header.inst, c.header.height, 2, c.header.view, pv, ph⟩ : Claim))] else [])
  ++ (match c.header.proof with | some p => proofClaims p | none => [])

/-- every (signature, claim) pair a message exhibits -/
def msgClaims : Message → List (SSig × Claim)
  | .preprepare m => refClaims m.c.header m.c.sender
  | .prepare m => refClaims m.header m.sender
  | .commit m => refClaims m.header m.sender
  | .viewChange m => vcClaims m.c
  | .newView m => refClaims m.pp.header m.pp.sender ++ m.header.votes.flatMap vcClaims

structure AdmState where
  nodes : Nodes := []
  honest : List (Nat × Nat) := []          -- (member id, instance) of the correct nodes of the current scenario
  said : List (Nat × Claim) := []          -- (member id, claim) made by the models of the correct nodes

/-- the first inadmissible (signer, claim) of a delivery, if any -/
def inadmissible (st : AdmState) (m : Message) : Option (Nat × Claim) :=
  ((msgClaims m).find? (fun (s, c) => s.ok && st.honest.contains (s.id, c.inst) && !st.said.contains (s.id, c))).map
    (fun (s, c) => (s.id, c))

def ownClaims (me : Nat) (outs : List Worker.WOut) : List (Nat × Claim) :=
  outs.flatMap (fun o => match o with
    | .term (.send _ m) => ((msgClaims m).filter (fun (s, _) => s.id == me && s.ok)).map (fun (s, c) => (s.id, c))
    | _ => [])

def admStep (st : AdmState) (toks : List String) : Option (AdmState × String) :=
  match toks with
  | [i, "init", me, inst] => do
      let i ← natOf i
      let me' ← idOfTok me
      let inst' ← natOf inst
      let n : Worker.WNode := { me := me', inst := inst' }
      -- a new scenario starts with node 0
      let st := if i == 0 then ({} : AdmState) else st
      pure ({ st with nodes := setNode st.nodes i n, honest := st.honest ++ [(me', inst')] }, "ok")
  | [_, "garbage"] => pure (st, "ok")
  | _ :: "deliver-nc" :: _ => pure (st, "ok")
  | i :: ev :: rest => do
      let i ← natOf i
      let n ← getNode st.nodes i
      let (e, spiToks, verdict) : Worker.WEvent × List String × String ← (match ev, rest with
        | "deliver", m :: sp => do
            let msg ← tMsg (← parseTok m)
            let v := match inadmissible st msg with
              | none => "ok"
              | some (id, c) => s!"INADMISSIBLE signer={tokOfId id} inst={c.inst} height={c.height} kind={c.kind} view={c.view} a={c.a} b={c.b}"
            pure (.deliver msg, sp, v)
        | "election", h :: v :: sp => do pure (.election (← natOf h) (← natOf v), sp, "ok")
        | "update", h :: sp => do pure (.update (← natOf h), sp, "ok")
        | "cancel", h :: v :: sp => do pure (.cancelOlder (← natOf h) (← natOf v), sp, "ok")
        | "shutdownctx", sp => pure (.shutdownCtx, sp, "ok")
        | _, _ => none)
      let spi ← spiToks.mapM (fun s => do tSpi (← parseTok s))
      let (n', outs) := Worker.step 100000 n e spi
      pure ({ st with nodes := setNode st.nodes i n', said := st.said ++ ownClaims n.me outs }, verdict)
  | _ => none

end LeanHelix.Driver
