import LeanHelix.Driver.Parse
import LeanHelix.Model.Worker
import LeanHelix.Model.Loops
/-!
Driver for the `node` suite: every line is `<nodeIndex> <event> <args…>`; the driver keeps one
`Worker.WNode` per index, runs `Worker.step`, and prints the node's observable reaction in a
canonical form (prepare senders, votes and proof signers sorted by id).
-/
namespace LeanHelix.Driver
open LeanHelix Parse Msg

/-- generic syntax tree of the message notation: `Name(a;b;…)`, `[x,y,…]`, atoms -/
inductive T where
  | atom (s : String)
  | node (name : String) (args : List T)
  | list (items : List T)
deriving Repr, Inhabited

partial def parseT (cs : List Char) : Option (T × List Char) :=
  let isStop (c : Char) := c == '(' || c == ')' || c == '[' || c == ']' || c == ';' || c == ','
  match cs with
  | '[' :: rest =>
    match rest with
    | ']' :: r => some (.list [], r)
    | _ =>
      let rec items (cs : List Char) (acc : List T) : Option (List T × List Char) :=
        match parseT cs with
        | none => none
        | some (t, ',' :: r) => items r (acc ++ [t])
        | some (t, ']' :: r) => some (acc ++ [t], r)
        | _ => none
      (items rest []).map (fun (l, r) => (.list l, r))
  | _ =>
    let name := cs.takeWhile (fun c => !isStop c)
    let rest := cs.drop name.length
    match rest with
    | '(' :: r =>
      match r with
      | ')' :: r2 => some (.node (String.ofList name) [], r2)
      | _ =>
        let rec args (cs : List Char) (acc : List T) : Option (List T × List Char) :=
          match parseT cs with
          | none => none
          | some (t, ';' :: r) => args r (acc ++ [t])
          | some (t, ')' :: r) => some (acc ++ [t], r)
          | _ => none
        (args r []).map (fun (l, r2) => (.node (String.ofList name) l, r2))
    | _ => some (.atom (String.ofList name), rest)

def parseTok (s : String) : Option T :=
  match parseT s.toList with
  | some (t, []) => some t
  | _ => none

def tNat : T → Option Nat
  | .atom s => s.toNat?
  | _ => none
def tId : T → Option Nat
  | .atom s => idOfTok s
  | _ => none
def tBool : T → Option Bool
  | .atom "1" => some true
  | .atom "0" => some false
  | _ => none

def tRef : T → Option BlockRef
  | .node "R" [a, b, c, d, e] => do pure ⟨← tNat a, ← tNat b, ← tNat c, ← tNat d, ← tId e⟩
  | _ => none
def tSig : T → Option SSig
  | .node "S" [a, b] => do pure ⟨← tId a, ← tBool b⟩
  | _ => none
def tBlock : T → Option (Option Block)
  | .atom "-" => some none
  | .node "B" [a, b, c] => do pure (some ⟨← tNat a, ← tNat b, ← tId c⟩)
  | _ => none
def tProof : T → Option (Option Proof)
  | .atom "-" => some none
  | .node "P" [a, b, c, .list ss] => do pure (some ⟨← tRef a, ← tSig b, ← tRef c, ← ss.mapM tSig⟩)
  | _ => none
def tVC : T → Option VCContent
  | .node "V" [a, b, c, d, p, s] => do pure ⟨⟨← tNat a, ← tNat b, ← tNat c, ← tNat d, ← tProof p⟩, ← tSig s⟩
  | _ => none
def tPPC : T → Option PPContent
  | .node "C" [r, s] => do pure ⟨← tRef r, ← tSig s⟩
  | _ => none
def tMsg : T → Option Message
  | .node "PP" [c, b] => do pure (.preprepare ⟨← tPPC c, ← tBlock b⟩)
  | .node "PR" [r, s] => do pure (.prepare ⟨← tRef r, ← tSig s⟩)
  | .node "CM" [r, s, k] => do pure (.commit ⟨← tRef r, ← tSig s, ← tBool k⟩)
  | .node "VC" [v, b] => do pure (.viewChange ⟨← tVC v, ← tBlock b⟩)
  | .node "NV" [a, b, c, d, .list vs, s, p, blk] => do
      pure (.newView ⟨⟨← tNat a, ← tNat b, ← tNat c, ← tNat d, ← vs.mapM tVC⟩, ← tSig s, ← tPPC p, ← tBlock blk⟩)
  | _ => none

/-! printing (canonical) -/
def b01 (b : Bool) : String := if b then "1" else "0"
def sortBy {α} (key : α → Nat) (l : List α) : List α :=
  l.foldl (fun acc x => let (a, b) := acc.span (fun y => key y ≤ key x); a ++ [x] ++ b) []
def pRef (r : BlockRef) : String := s!"R({r.mtype};{r.inst};{r.height};{r.view};{tokOfId r.hash})"
def pSig (s : SSig) : String := s!"S({tokOfId s.id};{b01 s.ok})"
def pBlock : Option Block → String
  | none => "-"
  | some b => s!"B({b.id};{b.height};{tokOfId b.hash})"
def pList (xs : List String) : String := "[" ++ ",".intercalate xs ++ "]"
def pProof : Option Proof → String
  | none => "-"
  | some p => s!"P({pRef p.ppRef};{pSig p.ppSender};{pRef p.pRef};{pList ((sortBy (·.id) p.pSenders).map pSig)})"
def pVC (v : VCContent) : String :=
  s!"V({v.header.mtype};{v.header.inst};{v.header.height};{v.header.view};{pProof v.header.proof};{pSig v.sender})"
def pPPC (c : PPContent) : String := s!"C({pRef c.header};{pSig c.sender})"
def pMsg : Message → String
  | .preprepare m => s!"PP({pPPC m.c};{pBlock m.block})"
  | .prepare m => s!"PR({pRef m.header};{pSig m.sender})"
  | .commit m => s!"CM({pRef m.header};{pSig m.sender};{b01 m.shareOk})"
  | .viewChange m => s!"VC({pVC m.c};{pBlock m.block})"
  | .newView m =>
    s!"NV({m.header.mtype};{m.header.inst};{m.header.height};{m.header.view};{pList ((sortBy (·.sender.id) m.header.votes).map pVC)};{pSig m.sender};{pPPC m.pp};{pBlock m.block})"

def pIds (ids : List Nat) : String := pList ((sortBy id ids).map tokOfId)

def pTermOut : Term.Out → String
  | .send rs m => s!"send:{pIds rs}:{pMsg m}"
  | .commit b cs => s!"tcommit:{pBlock (some b)}:{pIds (cs.map (·.sender.id))}"
  | .registerElection h v => s!"reg:{h}:{v}"
  | .callRequest h => s!"req:{h}"
  | .callValidate h b hash => s!"val:{h}:{pBlock b}:{tokOfId hash}"
  | .goPanic _ => "panic"

def pWOut : Worker.WOut → String
  | .term o => pTermOut o
  | .commitCb b r ss => s!"commit:{pBlock (some b)}:{pRef r}:{pList ((sortBy (·.id) ss).map pSig)}"
  | .newRound h c => s!"round:{h}:{b01 c}"
  | .stopTimer => "stop"

def tCancelAt : T → Option (Option Nat)
  | .atom "-" => some none
  | .atom s => s.toNat?.map some
  | _ => none

def tSpi : T → Option Worker.WSpi
  | .node "prop" [b, c] => do
      match ← tBlock b with
      | some blk => pure (.term (.proposal blk (← tCancelAt c)))
      | none => none
  | .node "verd" [a, c] => do pure (.term (.verdict (← tBool a) (← tCancelAt c)))
  | .node "ccb" [a] => do pure (.commitCb (← tBool a))
  | .node "cmt" [.list ms] => do
      pure (.committee (← ms.mapM (fun t => match t with
        | .node "M" [i, w] => do pure (⟨← tId i, ← tNat w⟩ : Member)
        | _ => none)))
  | _ => none

def pNode (n : Worker.WNode) (outs : List Worker.WOut) : String :=
  let (view, prep, nv, com) := match n.term with
    | some t => (toString t.view, (match t.prepared with | some v => toString v | none => "-"), toString t.latestNV, b01 t.committed.isSome)
    | none => ("0", "-", "0", "0")
  let cs := (n.cache.filter (fun p => !p.2.isEmpty)).map (fun p => (p.1, p.2.length))
  let cs := sortBy (·.1) cs
  let c := if cs.isEmpty then "-" else ",".intercalate (cs.map (fun p => s!"{p.1}:{p.2}"))
  -- the in-committee commit callback is internal (observed as the consumer's commit callback)
  let outs := outs.filter (fun o => match o with | .term (.commit _ _) => false | _ => true)
  let os := if outs.isEmpty then "-" else "|".intercalate (outs.map pWOut)
  s!"h={n.height} v={view} prep={prep} nv={nv} com={com} in={b01 n.term.isSome} cache={c} outs={os}"

abbrev LNodes := List (Nat × Loops.LNode)

def loopsStep (ns : LNodes) (toks : List String) : Option (LNodes × String) :=
  let get (i : Nat) : Option Loops.LNode := (ns.find? (fun p => p.1 == i)).map (·.2)
  let set (i : Nat) (n : Loops.LNode) : LNodes :=
    if ns.any (fun p => p.1 == i) then ns.map (fun p => if p.1 == i then (i, n) else p) else ns ++ [(i, n)]
  match toks with
  | [i, "linit", me, inst] => do
      let i ← natOf i
      pure (set i { w := { me := ← idOfTok me, inst := ← natOf inst } }, "init")
  | i :: ev :: rest => do
      let i ← natOf i
      let n ← get i
      let (e, spiToks) : Loops.LEvent × List String ← (match ev, rest with
        | "lmsg", "-" :: sp => pure (.msg none, sp)
        | "lmsg", m :: sp =>
          -- "NC:<msg>": signed content that reads as <msg> but is not in canonical encoding: dropped at the gate
          if m.startsWith "NC:" then pure (.msg none, sp)
          else do pure (.msg (some (← tMsg (← parseTok m))), sp)
        | "ltrigger", h :: v :: sp => do pure (.trigger (← natOf h) (← natOf v), sp)
        | "lsync", "-" :: sp => pure (.sync none, sp)
        | "lsync", h :: sp => do pure (.sync (some (← natOf h)), sp)
        | "lcancel", sp => pure (.cancel, sp)
        | _, _ => none)
      let spi ← spiToks.mapM (fun s => do tSpi (← parseTok s))
      let (n', outs) := Loops.step 100000 n e spi
      let wm := match n'.w.reg.watermark with | none => "none" | some w => s!"{w.height}/{w.view}"
      pure (set i n', s!"{pNode n'.w outs} shut={b01 n'.w.reg.shutdown} down={b01 n'.down}")
  | _ => none

abbrev Nodes := List (Nat × Worker.WNode)

def getNode (ns : Nodes) (i : Nat) : Option Worker.WNode := (ns.find? (fun p => p.1 == i)).map (·.2)
def setNode (ns : Nodes) (i : Nat) (n : Worker.WNode) : Nodes :=
  if ns.any (fun p => p.1 == i) then ns.map (fun p => if p.1 == i then (i, n) else p) else ns ++ [(i, n)]

def nodeStep (ns : Nodes) (toks : List String) : Option (Nodes × String) :=
  match toks with
  | [i, "init", me, inst] => do
      let i ← natOf i
      let n : Worker.WNode := { me := ← idOfTok me, inst := ← natOf inst }
      pure (setNode ns i n, "init")
  | [i, "garbage"] => do     -- unreadable content: both loops drop it before anything else happens
      let i ← natOf i
      let n ← getNode ns i
      pure (ns, pNode n [])
  | i :: "deliver-nc" :: _ => do     -- readable content whose signed part is not in canonical encoding: dropped the same way
      let i ← natOf i
      let n ← getNode ns i
      pure (ns, pNode n [])
  | i :: ev :: rest => do
      let i ← natOf i
      let n ← getNode ns i
      let (e, spiToks) : Worker.WEvent × List String ← (match ev, rest with
        | "deliver", m :: sp => do pure (.deliver (← tMsg (← parseTok m)), sp)
        | "election", h :: v :: sp => do pure (.election (← natOf h) (← natOf v), sp)
        | "update", h :: sp => do pure (.update (← natOf h), sp)
        | "cancel", h :: v :: sp => do pure (.cancelOlder (← natOf h) (← natOf v), sp)
        | "shutdownctx", sp => pure (.shutdownCtx, sp)
        | _, _ => none)
      let spi ← spiToks.mapM (fun s => do tSpi (← parseTok s))
      let (n', outs) := Worker.step 100000 n e spi
      pure (setNode ns i n', pNode n' outs)
  | _ => none

end LeanHelix.Driver

namespace LeanHelix.Driver
/-- the `loops` suite mixes nodes driven through the public API of a running MainLoop (`l…` events)
with nodes driven at worker level (the `node` protocol) -/
def mixedStep (st : LNodes × Nodes) (toks : List String) : Option ((LNodes × Nodes) × String) :=
  match toks with
  | _ :: ev :: _ =>
    if ev.startsWith "l" then (loopsStep st.1 toks).map (fun (a, o) => ((a, st.2), o))
    else (nodeStep st.2 toks).map (fun (b, o) => ((st.1, b), o))
  | _ => none
end LeanHelix.Driver
