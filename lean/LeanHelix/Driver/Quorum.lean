import LeanHelix.Driver.Parse
import LeanHelix.Model.Quorum
namespace LeanHelix.Driver
open LeanHelix Parse Quorum

def quorumStep (toks : List String) : Option String :=
  match toks with
  | ["calcq", ws] => do let ws ← listOf natOf ws; pure (toString (calcQuorumWeight ws))
  | ["calcb", ws] => do let ws ← listOf natOf ws; pure (toString (calcByzMaxWeight ws))
  | ["isq", ids, ms] => do
      let ids ← listOf idOfTok ids; let ms ← listOf memberOf ms
      let (b, w, q) := isQuorum ids ms
      pure s!"{showBool b} {w} {q}"
  | ["hon", ids, ms] => do
      let ids ← listOf idOfTok ids; let ms ← listOf memberOf ms
      let (b, w, q) := hasHonest ids ms
      pure s!"{showBool b} {w} {q}"
  | _ => none

end LeanHelix.Driver
