import LeanHelix.Model.Term
/-!
# Which effects each part of the term can produce (helper lemmas)

`Appends P w w'`: `w'` has the outputs of `w` followed by outputs that all satisfy `P`.
Instantiated with `NP` ("is not a PREPARE send") this shows that only `processPreprepare` makes a
node send PREPARE.
-/
namespace LeanHelix.Term
open LeanHelix LeanHelix.Msg

def Appends (P : Out → Prop) (w w' : W) : Prop := ∃ l, w'.outs = w.outs ++ l ∧ ∀ o ∈ l, P o

theorem Appends.refl (P) (w : W) : Appends P w w := ⟨[], by simp, by simp⟩

theorem Appends.of_outs_eq {P} {w w' : W} (h : w'.outs = w.outs) : Appends P w w' := ⟨[], by simp [h], by simp⟩

theorem Appends.trans {P} {a b c : W} (h1 : Appends P a b) (h2 : Appends P b c) : Appends P a c := by
  obtain ⟨l1, e1, p1⟩ := h1
  obtain ⟨l2, e2, p2⟩ := h2
  refine ⟨l1 ++ l2, by rw [e2, e1, List.append_assoc], ?_⟩
  intro o ho; simp at ho; rcases ho with ho | ho
  · exact p1 o ho
  · exact p2 o ho

theorem Appends.emit {P} (w : W) (o : Out) (h : P o) : Appends P w (w.emit o) :=
  ⟨[o], rfl, by intro x hx; simp at hx; subst hx; exact h⟩

theorem Appends.emit_trans {P} {a b : W} (o : Out) (h1 : Appends P a b) (h : P o) : Appends P a (b.emit o) :=
  Appends.trans h1 (Appends.emit b o h)

theorem Appends.setN {P} {a b : W} (x : Node) (h : Appends P a b) : Appends P a { b with n := x } := by
  obtain ⟨l, e, p⟩ := h; exact ⟨l, e, p⟩

theorem Appends.setSpi {P} {a b : W} (x : List Spi) (h : Appends P a b) : Appends P a { b with spi := x } := by
  obtain ⟨l, e, p⟩ := h; exact ⟨l, e, p⟩

def isPrepareSend : Out → Bool
  | .send _ (.prepare _) => true
  | _ => false

/-- "not a PREPARE send" -/
def NP (o : Out) : Prop := isPrepareSend o = false

/-- a predicate on effects that holds of everything that is not a send or a commit -/
structure Benign (P : Out → Prop) : Prop where
  reg : ∀ h v, P (.registerElection h v)
  req : ∀ h, P (.callRequest h)
  val : ∀ h b x, P (.callValidate h b x)
  pan : ∀ s, P (.goPanic s)

theorem NP_benign : Benign NP := ⟨fun _ _ => rfl, fun _ => rfl, fun _ _ _ => rfl, fun _ => rfl⟩

theorem ctxFor_outs (w : W) (h v : Nat) : (ctxFor w h v).1.outs = w.outs := rfl

theorem cancelMeanwhile_outs (w : W) (c : Option Nat) : (cancelMeanwhile w c).outs = w.outs := by
  unfold cancelMeanwhile; split <;> rfl

theorem initView_appends' {P} (hP : Benign P) (w : W) (v : Nat) : Appends P w (initView w v).1 := by
  unfold initView
  split
  · exact Appends.refl _ _
  · exact ⟨[.registerElection w.n.cfg.height v], rfl, by intro o ho; simp at ho; subst ho; exact hP.reg _ _⟩

theorem initView_appends (w : W) (v : Nat) : Appends NP w (initView w v).1 := initView_appends' NP_benign w v

theorem checkCommitted_appends (w : W) (h v hash : Nat) : Appends NP w (checkCommitted w h v hash) := by
  unfold checkCommitted
  dsimp only
  split
  · exact Appends.refl _ _
  split
  · exact Appends.refl _ _
  split
  · exact Appends.refl _ _
  split
  · exact Appends.refl _ _
  · rename_i ppm _
    have h0 : Appends NP w (ctxFor w h maxView).1 := Appends.of_outs_eq (ctxFor_outs _ _ _)
    split
    · exact h0
    · split
      · exact h0
      · rename_i b _
        split
        · exact Appends.emit_trans _ (Appends.setN _ h0) rfl
        · exact Appends.emit_trans _ (Appends.setN _ (Appends.emit_trans _ h0 rfl)) rfl

theorem onPreparedLocally_appends (w : W) (h v hash : Nat) : Appends NP w (onPreparedLocally w h v hash) := by
  unfold onPreparedLocally
  dsimp only
  refine Appends.trans ?_ (checkCommitted_appends _ h v hash)
  exact Appends.emit_trans _ (Appends.setN _ (Appends.setN _ (Appends.refl _ w))) rfl

theorem checkPreparedLocally_appends (w : W) (h v hash : Nat) : Appends NP w (checkPreparedLocally w h v hash) := by
  unfold checkPreparedLocally
  dsimp only
  split
  · exact Appends.refl _ _
  split
  · exact Appends.refl _ _
  split
  · exact Appends.refl _ _
  · split
    · exact onPreparedLocally_appends _ _ _ _
    · exact Appends.refl _ _

theorem handlePrepare_appends (w : W) (pm : PMsg) : Appends NP w (handlePrepare w pm) := by
  unfold handlePrepare
  dsimp only
  split; exact Appends.refl _ _
  split; exact Appends.refl _ _
  split; exact Appends.refl _ _
  split; exact Appends.refl _ _
  split; exact Appends.refl _ _
  exact checkPreparedLocally_appends _ _ _ _

theorem handleCommit_appends (w : W) (cm : CMsg) : Appends NP w (handleCommit w cm) := by
  unfold handleCommit
  dsimp only
  split; exact Appends.refl _ _
  split; exact Appends.refl _ _
  split; exact Appends.refl _ _
  split; exact Appends.refl _ _
  exact checkCommitted_appends _ _ _ _

theorem askProposal_appends' {P} (hP : Benign P) (w : W) (h v : Nat) : Appends P w (askProposal w h v).1 := by
  unfold askProposal
  dsimp only
  have h1 : Appends P w (ctxFor w h v).1 := Appends.of_outs_eq (ctxFor_outs _ _ _)
  split
  · exact h1
  · have h2 := Appends.emit_trans (Out.callRequest h) h1 (hP.req _)
    split
    · exact Appends.trans (Appends.setSpi _ h2) (Appends.of_outs_eq (cancelMeanwhile_outs _ _))
    · exact Appends.emit_trans _ h2 (hP.pan _)

theorem askProposal_appends (w : W) (h v : Nat) : Appends NP w (askProposal w h v).1 :=
  askProposal_appends' NP_benign w h v

theorem askValidate_appends' {P} (hP : Benign P) (w : W) (h v : Nat) (b : Option Block) (hash : Nat) :
    Appends P w (askValidate w h v b hash).1 := by
  unfold askValidate
  dsimp only
  have h1 : Appends P w (ctxFor w h v).1 := Appends.of_outs_eq (ctxFor_outs _ _ _)
  split
  · exact h1
  · have h2 := Appends.emit_trans (Out.callValidate h b hash) h1 (hP.val _ _ _)
    split
    · exact Appends.trans (Appends.setSpi _ h2) (Appends.of_outs_eq (cancelMeanwhile_outs _ _))
    · exact Appends.emit_trans _ h2 (hP.pan _)

theorem askValidate_appends (w : W) (h v : Nat) (b : Option Block) (hash : Nat) :
    Appends NP w (askValidate w h v b hash).1 := askValidate_appends' NP_benign w h v b hash

/-- predicates that hold of everything a node emits on being elected (it never sends a VIEW_CHANGE then) -/
structure AccLead (P : Out → Prop) : Prop extends Benign P where
  nv : ∀ rs m, P (.send rs (.newView m))

/-- predicates that hold of everything the election path can emit -/
structure AccElect (P : Out → Prop) : Prop extends AccLead P where
  vc : ∀ rs m, P (.send rs (.viewChange m))
  pp : ∀ rs m, P (.send rs (.preprepare m))

theorem NP_accElect : AccElect NP := ⟨⟨NP_benign, fun _ _ => rfl⟩, fun _ _ => rfl, fun _ _ => rfl⟩

theorem onElectedByViewChange_appends' {P} (hP : AccLead P) (w : W) (view : Nat) (vcs : List VCMsg) :
    Appends P w (onElectedByViewChange w view vcs) := by
  unfold onElectedByViewChange
  dsimp only
  have h0 := initView_appends' hP.toBenign { w with n := { w.n with latestNV := view } } view
  generalize initView { w with n := { w.n with latestNV := view } } view = r at h0 ⊢
  obtain ⟨w1, ok⟩ := r
  have h0' : Appends P w w1 := h0
  dsimp only
  split
  · exact h0'
  · split
    · exact Appends.emit_trans _ (Appends.setN _ h0') (hP.nv _ _)
    · have h1 := Appends.trans h0' (askProposal_appends' hP.toBenign w1 w1.n.cfg.height view)
      generalize askProposal w1 w1.n.cfg.height view = r2 at h1 ⊢
      obtain ⟨w2, ob⟩ := r2
      dsimp only at h1 ⊢
      split
      · exact Appends.emit_trans _ (Appends.setN _ h1) (hP.nv _ _)
      · exact h1

theorem onElectedByViewChange_appends (w : W) (view : Nat) (vcs : List VCMsg) :
    Appends NP w (onElectedByViewChange w view vcs) := onElectedByViewChange_appends' NP_accElect.toAccLead w view vcs

theorem checkElected_appends' {P} (hP : AccLead P) (w : W) (h view : Nat) : Appends P w (checkElected w h view) := by
  unfold checkElected
  dsimp only
  split
  · exact Appends.refl _ _
  split
  · exact Appends.refl _ _
  split
  · exact Appends.refl _ _
  · exact onElectedByViewChange_appends' hP _ _ _

theorem checkElected_appends (w : W) (h view : Nat) : Appends NP w (checkElected w h view) :=
  checkElected_appends' NP_accElect.toAccLead w h view

theorem handleViewChange_appends' {P} (hP : AccLead P) (w : W) (vcm : VCMsg) : Appends P w (handleViewChange w vcm) := by
  unfold handleViewChange
  dsimp only
  split; exact Appends.refl _ _
  split; exact Appends.refl _ _
  split; exact Appends.refl _ _
  split; exact Appends.refl _ _
  split; exact Appends.refl _ _
  exact checkElected_appends' hP _ _ _

theorem handleViewChange_appends (w : W) (vcm : VCMsg) : Appends NP w (handleViewChange w vcm) :=
  handleViewChange_appends' NP_accElect.toAccLead w vcm

theorem election_appends' {P} (hP : AccElect P) (w : W) (h v : Nat) : Appends P w (election w h v) := by
  unfold election
  dsimp only
  split
  · exact Appends.refl _ _
  have h0 := initView_appends' hP.toBenign w (wrap64 (w.n.view + 1))
  generalize initView w (wrap64 (w.n.view + 1)) = r at h0 ⊢
  obtain ⟨w1, ok⟩ := r
  dsimp only at h0 ⊢
  split
  · exact h0
  · split
    · exact Appends.trans (Appends.setN _ h0) (checkElected_appends' hP.toAccLead _ _ _)
    · exact Appends.emit_trans _ h0 (hP.vc _ _)

theorem election_appends (w : W) (h v : Nat) : Appends NP w (election w h v) := election_appends' NP_accElect w h v

end LeanHelix.Term
