import LeanHelix.Lemmas.TermViews
import LeanHelix.Lemmas.TermOuts
/-!
# The term's code as a sequence of atomic blocks that make statements

The abstract safety argument (`Spec/Safety.lean`) is about the *statements* a correct node makes:
"I accept (v,h)" (`acc`: a PREPARE, or the leader's own PREPREPARE / NEW_VIEW), "I am prepared on
(v,h)" (`com`: the COMMIT sent on becoming prepared), "I saw a commit quorum for (v,h)" (`lcom`: the
COMMIT sent by `sendCommitIfNotAlreadySent`), "I vote for view v with proof pf" (`vote`) and "I
deliver h" (`dec`).  This file cuts every handler of the term model into **atomic blocks** (`Blk`):
a block changes the node, appends effects, and makes a (possibly empty) list of statements; each kind
of block records the facts about the node state *at that moment* that the code has checked.
`Runs w w' g`: `w'` is reached from `w` by a sequence of blocks that make the statements `g`.

The handler pass below (`*_runs`) shows that every handler is such a sequence, and `Runs.erase`
that the statements made are exactly the statement-carrying effects the handler emits
(`stmtOf`), in order — the ghost list adds only the tag com/lcom, the tag "accepted through a
NEW_VIEW", and the leader's own vote (which is stored, not sent).
-/
namespace LeanHelix.Term
open LeanHelix LeanHelix.Msg

/-- statements of one node (ghost events) -/
inductive LEv where
  | acc (v h : Nat) (viaNV : Bool)
  | com (v h : Nat)
  | lcom (v h : Nat)
  | vote (v : Nat) (pf : Option (Nat × Nat)) (sent : Bool)
  | dec (h : Nat)
deriving Repr, DecidableEq

/-- what a statement-carrying effect says -/
inductive Stmt where
  | acc (v h : Nat)
  | cmt (v h : Nat)
  | vote (v : Nat) (pf : Option (Nat × Nat))
  | dec (h : Nat)
deriving Repr, DecidableEq

/-- the (view, hash) a prepared proof certifies -/
def pfOf (p : Option Proof) : Option (Nat × Nat) := p.map (fun p => (p.ppRef.view, p.ppRef.hash))

/-- the hash a commit callback's COMMIT list certifies (the callback gets the logged COMMITs of one
(height, view, hash), never an empty list) -/
def commitHash : List CMsg → Nat
  | c :: _ => c.header.hash
  | [] => 0

def stmtOf : Out → Option Stmt
  | .send _ (.preprepare m) => some (.acc m.c.header.view m.c.header.hash)
  | .send _ (.prepare m) => some (.acc m.header.view m.header.hash)
  | .send _ (.newView m) => some (.acc m.pp.header.view m.pp.header.hash)
  | .send _ (.commit m) => some (.cmt m.header.view m.header.hash)
  | .send _ (.viewChange m) => some (.vote m.c.header.view (pfOf m.c.header.proof))
  | .commit _ cs => some (.dec (commitHash cs))
  | _ => none

def erase : LEv → Option Stmt
  | .acc v h _ => some (.acc v h)
  | .com v h => some (.cmt v h)
  | .lcom v h => some (.cmt v h)
  | .vote v pf true => some (.vote v pf)
  | .vote _ _ false => none
  | .dec h => some (.dec h)

/-- the proof a node attaches to its vote: the one extracted for its prepared view -/
def voteProof (n : Node) : Option Proof :=
  match n.prepared with
  | some pv => (extractProof n pv).map (fun (x : Proof × Option Block) => x.1)
  | none => none

/-- the block a node attaches to its vote: the block of the proposal it is prepared on -/
def voteBlock (n : Node) : Option Block :=
  match n.prepared with
  | some pv => (extractProof n pv).bind (fun (x : Proof × Option Block) => x.2)
  | none => none

/-- the VIEW_CHANGE a node builds when the election timer of its view fires (`moveToNextLeaderByElection`) -/
def ownVote (n : Node) : VCMsg :=
  ⟨⟨⟨tVC, n.cfg.inst, n.cfg.height, n.view, voteProof n⟩, mySig n.cfg⟩, voteBlock n⟩

/-- bookkeeping that makes no statement: the view and `latestNV` may go up, other members' PREPAREs,
COMMITs and votes may be logged; stored proposals and the prepared view stay -/
structure Quiet (a b : Node) : Prop where
  cfg : b.cfg = a.cfg
  view : a.view ≤ b.view
  lnv : a.latestNV ≤ b.latestNV
  prepared : b.prepared = a.prepared
  pps : b.store.pps = a.store.pps
  prepares : a.store.prepares <+: b.store.prepares

theorem Quiet.refl (a : Node) : Quiet a a := ⟨rfl, Nat.le_refl _, Nat.le_refl _, rfl, rfl, List.prefix_refl _⟩

theorem Quiet.trans {a b c : Node} (h1 : Quiet a b) (h2 : Quiet b c) : Quiet a c :=
  ⟨h2.cfg.trans h1.cfg, Nat.le_trans h1.view h2.view, Nat.le_trans h1.lnv h2.lnv, h2.prepared.trans h1.prepared,
   h2.pps.trans h1.pps, List.IsPrefix.trans h1.prepares h2.prepares⟩

theorem Quiet.of_eqs {a b : Node} (h1 : b.cfg = a.cfg) (h2 : b.store = a.store) (h3 : b.view = a.view)
    (h4 : b.prepared = a.prepared) (h5 : b.latestNV = a.latestNV) : Quiet a b :=
  ⟨h1, by omega, by omega, h4, by rw [h2], by rw [h2]; exact List.prefix_refl _⟩

/-- the node after `processPreprepare` stored the proposal and the own PREPARE -/
def acceptNode (a : Node) (ppm : PPMsg) : Node :=
  { a with store := (a.store.storePP ppm).storePrepare (ownPrepare a.cfg ppm.c.header.height ppm.c.header.view ppm.c.header.hash) }

/-- the node after `onPreparedLocally` set the prepared view and logged the own COMMIT -/
def preparedNode (a : Node) (v hash : Nat) : Node :=
  { a with prepared := some v, store := a.store.storeCommit (ownCommit a.cfg a.cfg.height v hash) }

/-- the message an event logs as it is (PREPARE, COMMIT and VIEW_CHANGE deliveries) -/
def evOp : Event → Option StoreOp
  | .deliver (.prepare m) => some (.prepare m)
  | .deliver (.commit m) => some (.commit m)
  | .deliver (.viewChange m) => some (.vc m)
  | _ => none

/-- what `handleNewView` has checked before it adopts the embedded proposal: the votes are a quorum of
valid votes of pairwise distinct members for exactly (height, view), the embedded proposal is for the
same (instance, height, view), and it is bound to the highest-view proof among the votes -/
def NVChecked (c : Cfg) (nvm : NVMsg) : Prop :=
  validateVotes { cfg := c } nvm.header.height nvm.header.view nvm.header.votes = true
  ∧ nvm.pp.header.view = nvm.header.view ∧ nvm.pp.header.height = nvm.header.height
  ∧ nvm.pp.header.inst = c.inst
  ∧ lockOk { cfg := c } nvm = true

/-- where an adopted proposal came from: the delivered PREPREPARE itself, or the proposal embedded in
the delivered NEW_VIEW after the certificate checks -/
def PPSrc (e : Event) (c : Cfg) (ppm : PPMsg) (f : Bool) : Prop :=
  (e = .deliver (.preprepare ppm) ∧ f = false) ∨
  (∃ nvm : NVMsg, e = .deliver (.newView nvm) ∧ ppm = ⟨nvm.pp, nvm.block⟩ ∧ f = true ∧ NVChecked c nvm)

/-- what `checkElected` / `onElectedByViewChange` have established when the leader proposes `hash` in its
NEW_VIEW: the logged votes for the node's (new) view reach quorum, and `hash` is the hash certified by
a highest-view proof among the votes that carry a block — or no vote carries a block -/
def ElectedBy (spi0 : List Spi) (a : Node) (hash : Nat) : Prop :=
  ∃ h, isQuorum a.cfg ((a.store.getVCs h a.view).map (·.c.sender.id)) = true
    ∧ ((∃ b, latestBlockFromVCs (a.store.getVCs h a.view) = some (b, hash))
        ∨ (latestBlockFromVCs (a.store.getVCs h a.view) = none
            ∧ ∃ b cd rest, spi0 = Spi.proposal b cd :: rest ∧ hash = b.hash))

/-- the atomic blocks of the handling of event `e` with the SPI answers `spi0` -/
inductive Blk (e : Event) (spi0 : List Spi) : Node → Node → List Out → List LEv → Prop where
  /-- bookkeeping; effects that carry no statement; the log is untouched -/
  | quiet {a b : Node} {l : List Out} (hq : Quiet a b) (hs : b.store = a.store) (hl : ∀ o ∈ l, stmtOf o = none) : Blk e spi0 a b l []
  /-- the delivered PREPARE / COMMIT / VIEW_CHANGE is logged as it is -/
  | log {a : Node} (op : StoreOp) (he : evOp e = some op) : Blk e spi0 a { a with store := a.store.apply op } [] []
  /-- `processPreprepare`: a proposal of the current view is stored together with the own PREPARE,
  which is sent.  No proposal was stored for this view; the node is not this view's leader; and in a
  view > 0 the proposal came in a NEW_VIEW or does not conflict with the node's lock. -/
  | accept {a : Node} (ppm : PPMsg) (f : Bool) (rcpt : List Nat)
      (hh : ppm.c.header.height = a.cfg.height) (hv : ppm.c.header.view = a.view)
      (hnone : a.store.getPP a.cfg.height a.view = none)
      (hnl : isLeader a.cfg a.cfg.me a.view = false)
      (hlock : a.view = 0 ∨ f = true ∨ lockConflict a ppm = false)
      (hsrc : PPSrc e a.cfg ppm f)
      (hval : (f = false ∨ ∃ nvm : NVMsg, e = .deliver (.newView nvm) ∧ latestVote nvm.header.votes = none) →
          ∃ cd rest, spi0 = Spi.verdict true cd :: rest) :
      Blk e spi0 a (acceptNode a ppm)
        [.send rcpt (.prepare (ownPrepare a.cfg ppm.c.header.height ppm.c.header.view ppm.c.header.hash))]
        [.acc ppm.c.header.view ppm.c.header.hash f]
  /-- `onPreparedLocally`, first half: the node becomes prepared in its current view on the stored
  proposal's hash, logs and sends its COMMIT; a prepared proof can be extracted for that view -/
  | prepared {a : Node} (v hash : Nat) (rcpt : List Nat)
      (hv : v = a.view) (hnot : a.prepared ≠ some v)
      (hpp : ∃ ppm, a.store.getPP a.cfg.height v = some ppm ∧ ppm.c.header.hash = hash ∧ ppm.block.isSome = true)
      (hproof : (extractProof a v).isSome = true) :
      Blk e spi0 a (preparedNode a v hash)
        [.send rcpt (.commit (ownCommit a.cfg a.cfg.height v hash))]
        [.com v hash]
  /-- `sendCommitIfNotAlreadySent` inside `checkCommitted`: a commit quorum for (v, hash) is logged -/
  | late {a : Node} (h v hash : Nat) (rcpt : List Nat)
      (hq : isQuorum a.cfg ((a.store.getCommits h v hash).map (·.sender.id)) = true) :
      Blk e spi0 a a [.send rcpt (.commit (ownCommit a.cfg h v hash))] [.lcom v hash]
  /-- the commit callback: a commit quorum for (h, v, hash) is logged and handed over together with the
  block of the stored proposal of (h, v), whose signed hash is `hash` -/
  | decide {a b : Node} (blk : Block) (cs : List CMsg) (h v hash : Nat) (hq : Quiet a b) (hs : b.store = a.store)
      (hcs : cs = a.store.getCommits h v hash)
      (hcq : isQuorum a.cfg (cs.map (·.sender.id)) = true)
      (hpp : ∃ ppm, a.store.getPP h v = some ppm ∧ ppm.block = some blk ∧ ppm.c.header.hash = hash) :
      Blk e spi0 a b [.commit blk cs] [.dec (commitHash cs)]
  /-- the leader's own proposal (PREPREPARE of view 0, or NEW_VIEW after being elected): stored and
  sent; no proposal was stored for this view, and the view is one the leader bookkeeping covers -/
  | propose {a : Node} (ppm : PPMsg) (f : Bool) (o : Out)
      (hh : ppm.c.header.height = a.cfg.height) (hv : ppm.c.header.view = a.view)
      (hnone : a.store.getPP a.cfg.height a.view = none)
      (hlnv : a.view ≤ a.latestNV)
      (hf : a.view = 0 ∨ f = true)
      (ho : stmtOf o = some (.acc ppm.c.header.view ppm.c.header.hash))
      (hown : ppm.c.sender = mySig a.cfg ∧ ppm.c.header.inst = a.cfg.inst ∧ ppm.c.header.mtype = tPP)
      (hsrc : f = true → ElectedBy spi0 a ppm.c.header.hash)
      (hreq : f = false → ∃ b cd rest, spi0 = Spi.proposal b cd :: rest ∧ ppm.c.header.hash = b.hash)
      (hblk : ∃ b, ppm.block = some b ∧ (b.hash = ppm.c.header.hash
          ∨ ∃ h, latestBlockFromVCs (a.store.getVCs h a.view) = some (b, ppm.c.header.hash)))
      (hmsg : (∃ rcpt, o = .send rcpt (.preprepare ppm))
        ∨ (∃ rcpt nvm h, o = .send rcpt (.newView nvm) ∧ nvm.pp = ppm.c ∧ nvm.header.votes = (a.store.getVCs h a.view).map (·.c)
            ∧ nvm = ⟨⟨tNV, a.cfg.inst, a.cfg.height, a.view, (a.store.getVCs h a.view).map (·.c)⟩, mySig a.cfg, ppm.c, ppm.block⟩
            ∧ isLeader a.cfg a.cfg.me a.view = true
            ∧ isQuorum a.cfg ((a.store.getVCs h a.view).map (·.c.sender.id)) = true
            ∧ (match latestBlockFromVCs (a.store.getVCs h a.view) with
               | some (b', h') => ppm.block = some b' ∧ ppm.c.header.hash = h'
               | none => ∀ b, ppm.block = some b → ppm.c.header.hash = b.hash))) :
      Blk e spi0 a { a with store := a.store.storePP ppm } [o] [.acc ppm.c.header.view ppm.c.header.hash f]
  /-- the vote of a node that is not the next leader: sent -/
  | voteSend {a : Node} (vc : VCMsg) (rcpt : List Nat)
      (hv : vc.c.header.view = a.view) (hp : vc.c.header.proof = voteProof a)
      (hpv : ∀ pv, a.prepared = some pv → pv < a.view)
      (hown : vc.c.sender = mySig a.cfg ∧ vc.c.header.inst = a.cfg.inst ∧ vc.c.header.height = a.cfg.height ∧ vc.c.header.mtype = tVC)
      (hvc : vc = ownVote a) :
      Blk e spi0 a a [.send rcpt (.viewChange vc)] [.vote a.view (pfOf vc.c.header.proof) true]
  /-- the vote of the next leader: logged (it goes out inside the NEW_VIEW) -/
  | voteStore {a : Node} (vc : VCMsg)
      (hv : vc.c.header.view = a.view) (hp : vc.c.header.proof = voteProof a)
      (hown : vc.c.sender = mySig a.cfg ∧ vc.c.header.inst = a.cfg.inst ∧ vc.c.header.height = a.cfg.height ∧ vc.c.header.mtype = tVC)
      (hpv : ∀ pv, a.prepared = some pv → pv < a.view) (hb : vc.block = voteBlock a)
      (hvc : vc = ownVote a) :
      Blk e spi0 a { a with store := a.store.storeVC vc } [] [.vote a.view (pfOf vc.c.header.proof) false]

/-- `w'` is reached from `w` by blocks that make the statements `g` (oldest first) -/
inductive Runs (e : Event) (spi0 : List Spi) : W → W → List LEv → Prop where
  | refl (w : W) : Runs e spi0 w w []
  | blk {w w' : W} {l : List Out} {g : List LEv} (ho : w'.outs = w.outs ++ l) (hb : Blk e spi0 w.n w'.n l g) : Runs e spi0 w w' g
  | trans {a b c : W} {g1 g2 : List LEv} : Runs e spi0 a b g1 → Runs e spi0 b c g2 → Runs e spi0 a c (g1 ++ g2)

variable {e : Event} {spi0 : List Spi}

/-- the statements made are the statement-carrying effects emitted, in order -/
theorem Blk.erase {a b : Node} {l : List Out} {g : List LEv} (h : Blk e spi0 a b l g) :
    l.filterMap stmtOf = g.filterMap erase := by
  cases h with
  | quiet hq hs hl =>
    simp only [List.filterMap_nil, List.filterMap_eq_nil_iff]
    exact hl
  | log op he => rfl
  | accept ppm f rcpt => rfl
  | prepared v hash rcpt => rfl
  | late h v hash rcpt => rfl
  | decide blk cs => rfl
  | propose ppm f o hh hv hnone hlnv hf ho => simp only [List.filterMap, ho]; rfl
  | voteSend vc rcpt hv hp _ _ _ => simp only [List.filterMap, stmtOf, hv]; rfl
  | voteStore vc => rfl

theorem Runs.erase {w w' : W} {g : List LEv} (h : Runs e spi0 w w' g) :
    ∃ l, w'.outs = w.outs ++ l ∧ l.filterMap stmtOf = g.filterMap erase := by
  induction h with
  | refl w => exact ⟨[], by simp, rfl⟩
  | blk ho hb => exact ⟨_, ho, hb.erase⟩
  | trans _ _ ih1 ih2 =>
    obtain ⟨l1, e1, f1⟩ := ih1
    obtain ⟨l2, e2, f2⟩ := ih2
    exact ⟨l1 ++ l2, by rw [e2, e1, List.append_assoc], by rw [List.filterMap_append, List.filterMap_append, f1, f2]⟩

/-- existential form used by the handler pass -/
def RunsE (e : Event) (spi0 : List Spi) (w w' : W) : Prop := ∃ g, Runs e spi0 w w' g

theorem RunsE.refl (w : W) : RunsE e spi0 w w := ⟨[], .refl w⟩
theorem RunsE.trans {a b c : W} (h1 : RunsE e spi0 a b) (h2 : RunsE e spi0 b c) : RunsE e spi0 a c := by
  obtain ⟨g1, r1⟩ := h1
  obtain ⟨g2, r2⟩ := h2
  exact ⟨g1 ++ g2, .trans r1 r2⟩
theorem RunsE.blk {w w' : W} {l : List Out} {g : List LEv} (ho : w'.outs = w.outs ++ l) (hb : Blk e spi0 w.n w'.n l g) : RunsE e spi0 w w' :=
  ⟨g, .blk ho hb⟩

/-- a step that appends only statement-free effects and is `Quiet` on the node -/
theorem RunsE.quiet {w w' : W} (hq : Quiet w.n w'.n) (hs : w'.n.store = w.n.store)
    (ha : Appends (fun o => stmtOf o = none) w w') : RunsE e spi0 w w' := by
  obtain ⟨l, e', p⟩ := ha
  exact RunsE.blk e' (.quiet hq hs p)

/-- statement-free effects -/
def NS (o : Out) : Prop := stmtOf o = none
theorem NS_benign : Benign NS := ⟨fun _ _ => rfl, fun _ => rfl, fun _ _ _ => rfl, fun _ => rfl⟩

theorem RunsE.of_eq {w w' : W} (h : w' = w) : RunsE e spi0 w w' := by rw [h]; exact RunsE.refl w

/-! ## store facts -/

theorem getPP_spec {s : Store} {h v : Nat} {ppm : PPMsg} (hg : s.getPP h v = some ppm) :
    ppm ∈ s.pps ∧ ppm.c.header.height = h ∧ ppm.c.header.view = v := by
  unfold Store.getPP at hg
  have h1 := List.mem_of_find?_eq_some hg
  have h2 := List.find?_some hg
  simp only [Bool.and_eq_true, beq_iff_eq] at h2
  exact ⟨h1, h2.1, h2.2⟩

theorem storePrepare_prefix (s : Store) (m : PMsg) : s.prepares <+: (s.storePrepare m).prepares := by
  unfold Store.storePrepare; split
  · exact List.prefix_refl _
  · exact List.prefix_append _ _

theorem storePrepare_pps (s : Store) (m : PMsg) : (s.storePrepare m).pps = s.pps := by
  unfold Store.storePrepare; split <;> rfl
theorem storeCommit_pps (s : Store) (m : CMsg) : (s.storeCommit m).pps = s.pps := by
  unfold Store.storeCommit; split <;> rfl
theorem storeCommit_prepares (s : Store) (m : CMsg) : (s.storeCommit m).prepares = s.prepares := by
  unfold Store.storeCommit; split <;> rfl
theorem storeVC_pps (s : Store) (m : VCMsg) : (s.storeVC m).pps = s.pps := by
  unfold Store.storeVC; split <;> rfl
theorem storeVC_prepares (s : Store) (m : VCMsg) : (s.storeVC m).prepares = s.prepares := by
  unfold Store.storeVC; split <;> rfl
theorem storePP_prepares (s : Store) (m : PPMsg) : (s.storePP m).prepares = s.prepares := by
  unfold Store.storePP; split <;> rfl

/-- after storing a PREPARE, some PREPARE with its (height, view, hash) is logged -/
theorem getPrepares_storePrepare_ne (s : Store) (m : PMsg) :
    (s.storePrepare m).getPrepares m.header.height m.header.view m.header.hash ≠ [] := by
  unfold Store.storePrepare
  split
  · rename_i hany
    rw [List.any_eq_true] at hany
    obtain ⟨x, hx, hk⟩ := hany
    simp only [Bool.and_eq_true, beq_iff_eq] at hk
    intro he
    have : x ∈ s.getPrepares m.header.height m.header.view m.header.hash := by
      unfold Store.getPrepares
      rw [List.mem_filter]
      exact ⟨hx, by simp [hk.1.1.1, hk.1.1.2, hk.1.2]⟩
    rw [he] at this; cases this
  · intro he
    have : m ∈ ({ s with prepares := s.prepares ++ [m] } : Store).getPrepares m.header.height m.header.view m.header.hash := by
      unfold Store.getPrepares
      rw [List.mem_filter]
      exact ⟨by simp, by simp⟩
    rw [he] at this; cases this

/-- the proof can be extracted when the proposal is stored, a PREPARE for its hash is logged and the
PREPAREs' senders together with the proposer reach quorum -/
theorem extractProof_isSome (n : Node) (pv : Nat) (ppm : PPMsg)
    (hg : n.store.getPP n.cfg.height pv = some ppm)
    (hq : isQuorum n.cfg ((n.store.getPrepares n.cfg.height pv ppm.c.header.hash).map (·.sender.id) ++ [ppm.c.sender.id]) = true)
    (hne : n.store.getPrepares n.cfg.height pv ppm.c.header.hash ≠ []) :
    (extractProof n pv).isSome = true := by
  unfold extractProof
  simp only [hg, hq, Bool.not_true, Bool.false_eq_true, if_false]
  have hpv : n.store.hasPrepareView n.cfg.height pv = true := by
    cases hl : n.store.getPrepares n.cfg.height pv ppm.c.header.hash with
    | nil => exact absurd hl hne
    | cons p0 rest =>
      have : p0 ∈ n.store.getPrepares n.cfg.height pv ppm.c.header.hash := by rw [hl]; exact List.mem_cons_self ..
      unfold Store.getPrepares at this
      rw [List.mem_filter] at this
      unfold Store.hasPrepareView
      rw [List.any_eq_true]
      simp only [Bool.and_eq_true, beq_iff_eq] at this
      exact ⟨p0, this.1, by simp [this.2.1.1, this.2.1.2]⟩
  simp only [hpv, Bool.not_true, Bool.false_eq_true, if_false]
  cases hl : n.store.getPrepares n.cfg.height pv ppm.c.header.hash with
  | nil => exact absurd hl hne
  | cons p0 rest => rfl

/-! ## the handler pass: the commit and prepare paths -/

theorem ctxFor_runs (w : W) (h v : Nat) : RunsE e spi0 w (ctxFor w h v).1 := by
  obtain ⟨c1, c2, c3, c4, _, c6⟩ := ctxFor_n w h v
  exact RunsE.quiet (Quiet.of_eqs c1 c2 c3 c4 c6) c2 (Appends.of_outs_eq (ctxFor_outs _ _ _))

theorem checkCommitted_runs (w : W) (h v hash : Nat) : RunsE e spi0 w (checkCommitted w h v hash) := by
  unfold checkCommitted
  dsimp only
  split
  · exact RunsE.refl _
  split
  · exact RunsE.refl _
  split
  · exact RunsE.refl _
  rename_i hpre hq
  split
  · exact RunsE.refl _
  · rename_i ppm hget
    have h0 : RunsE e spi0 w (ctxFor w h maxView).1 := ctxFor_runs w h maxView
    obtain ⟨c1, c2, _, _, _, _⟩ := ctxFor_n w h maxView
    have hq' : isQuorum w.n.cfg ((w.n.store.getCommits h v hash).map (·.sender.id)) = true := by simpa using hq
    have hhash : ppm.c.header.hash = hash := by
      have hpre' : isPreprepared w.n h v hash = true := by simpa using hpre
      unfold isPreprepared at hpre'
      rw [hget] at hpre'
      simp only [Bool.and_eq_true, beq_iff_eq] at hpre'
      exact hpre'.2
    split
    · exact h0
    · split
      · exact h0
      · rename_i b hb
        have hdec : ∀ (a : Node), a.cfg = w.n.cfg → a.store = w.n.store →
            Blk e spi0 a { a with committed := some b } [.commit b (w.n.store.getCommits h v hash)]
              [.dec (commitHash (w.n.store.getCommits h v hash))] := by
          intro a ha1 ha2
          refine .decide b _ h v hash (Quiet.of_eqs rfl rfl rfl rfl rfl) rfl (by rw [ha2]) (by rw [ha1]; exact hq') ?_
          rw [ha2]
          exact ⟨ppm, hget, hb, hhash⟩
        split
        · exact h0.trans (RunsE.blk (l := [.commit b _]) rfl (hdec _ c1 c2))
        · have h1 : RunsE e spi0 (ctxFor w h maxView).1 ((ctxFor w h maxView).1.emit
              (.send (others (ctxFor w h maxView).1.n.cfg) (.commit (ownCommit (ctxFor w h maxView).1.n.cfg h v hash)))) := by
            refine RunsE.blk (l := [_]) rfl (.late h v hash _ ?_)
            rw [c1, c2]
            exact hq'
          exact (h0.trans h1).trans (RunsE.blk (l := [.commit b _]) rfl (hdec _ c1 c2))

theorem onPreparedLocally_runs (w : W) (h v hash : Nat) (hh : h = w.n.cfg.height) (hv : v = w.n.view)
    (hnot : w.n.prepared ≠ some v)
    (hpp : ∃ ppm, w.n.store.getPP w.n.cfg.height v = some ppm ∧ ppm.c.header.hash = hash ∧ ppm.block.isSome = true)
    (hproof : (extractProof w.n v).isSome = true) :
    RunsE e spi0 w (onPreparedLocally w h v hash) := by
  subst hh
  unfold onPreparedLocally
  dsimp only
  refine RunsE.trans (RunsE.blk (l := [_]) ?_ (.prepared v hash (others w.n.cfg) hv hnot hpp hproof)) (checkCommitted_runs _ _ _ _)
  rfl

theorem checkPreparedLocally_runs (w : W) (h v hash : Nat) (hh : h = w.n.cfg.height) (hv : w.n.view ≤ v)
    (hvo : ViewsOK w.n) (hne : w.n.store.getPrepares h v hash ≠ []) :
    RunsE e spi0 w (checkPreparedLocally w h v hash) := by
  rcases checkPreparedLocally_cases w h v hash with e | ⟨⟨hnot, hpre, ppm, hg, hq⟩, e⟩
  · rw [e]; exact RunsE.refl _
  · rw [e]
    subst hh
    obtain ⟨hm, _, hvv⟩ := getPP_spec hg
    have hle : v ≤ w.n.view := by rw [← hvv]; exact hvo.pp ppm hm
    have hpre' := hpre
    unfold isPreprepared at hpre'
    rw [hg] at hpre'
    simp only [Bool.and_eq_true, beq_iff_eq] at hpre'
    have hhash : ppm.c.header.hash = hash := hpre'.2
    subst hhash
    exact onPreparedLocally_runs w _ v _ rfl (by omega) hnot ⟨ppm, hg, rfl, hpre'.1⟩ (extractProof_isSome w.n v ppm hg hq hne)

theorem handlePrepare_runs (w : W) (pm : PMsg) (hh : pm.header.height = w.n.cfg.height) (hvo : ViewsOK w.n) :
    RunsE (.deliver (.prepare pm)) spi0 w (handlePrepare w pm) := by
  unfold handlePrepare
  dsimp only
  split; exact RunsE.refl _
  split; exact RunsE.refl _
  split; exact RunsE.refl _
  split; exact RunsE.refl _
  rename_i hvw
  split; exact RunsE.refl _
  have hlog : RunsE (.deliver (.prepare pm)) spi0 w ({ w with n := { w.n with store := w.n.store.storePrepare pm } } : W) :=
    RunsE.blk (l := []) (by simp) (.log (.prepare pm) rfl)
  refine RunsE.trans hlog ?_
  refine checkPreparedLocally_runs _ _ _ _ hh (by show w.n.view ≤ pm.header.view; omega) ?_ (getPrepares_storePrepare_ne _ _)
  exact hvo.of_same (storePrepare_pps _ _) rfl (Nat.le_refl _)

theorem handleCommit_runs (w : W) (cm : CMsg) : RunsE (.deliver (.commit cm)) spi0 w (handleCommit w cm) := by
  unfold handleCommit
  dsimp only
  split; exact RunsE.refl _
  split; exact RunsE.refl _
  split; exact RunsE.refl _
  split; exact RunsE.refl _
  have hlog : RunsE (.deliver (.commit cm)) spi0 w ({ w with n := { w.n with store := w.n.store.storeCommit cm } } : W) :=
    RunsE.blk (l := []) (by simp) (.log (.commit cm) rfl)
  exact RunsE.trans hlog (checkCommitted_runs _ _ _ _)

/-! ## quiet helpers -/

theorem askValidate_runs (w : W) (h v : Nat) (b : Option Block) (hash : Nat) : RunsE e spi0 w (askValidate w h v b hash).1 := by
  obtain ⟨c1, c2, c3, c4, _, c6⟩ := askValidate_n w h v b hash
  exact RunsE.quiet (Quiet.of_eqs c1 c2 c3 c4 c6) c2 (askValidate_appends' NS_benign w h v b hash)

theorem askProposal_runs (w : W) (h v : Nat) : RunsE e spi0 w (askProposal w h v).1 := by
  obtain ⟨c1, c2, c3, c4, _, c6⟩ := askProposal_n w h v
  exact RunsE.quiet (Quiet.of_eqs c1 c2 c3 c4 c6) c2 (askProposal_appends' NS_benign w h v)

theorem initView_quiet (w : W) (v : Nat) : Quiet w.n (initView w v).1.n := by
  obtain ⟨c1, c2, c4, _, c6, i6, i7⟩ := initView_n w v
  cases hok : (initView w v).2 with
  | true => exact ⟨c1, by rw [(i6 hok).1]; exact (i6 hok).2, by rw [c6]; exact Nat.le_refl _, c4, by rw [c2], by rw [c2]; exact List.prefix_refl _⟩
  | false => rw [i7 hok]; exact Quiet.refl _

theorem initView_runs (w : W) (v : Nat) : RunsE e spi0 w (initView w v).1 :=
  RunsE.quiet (initView_quiet w v) (initView_n w v).2.1 (initView_appends' NS_benign w v)

/-- proposals this node would lead are covered by the leader bookkeeping: a stored proposal of a view
this node leads is for a view ≤ `latestNV` (so a newly elected leader has not proposed yet) -/
def LeaderPPs (n : Node) : Prop :=
  ∀ v ppm, n.store.getPP n.cfg.height v = some ppm → isLeader n.cfg n.cfg.me v = true → v ≤ n.latestNV

theorem LeaderPPs.of_same {a b : Node} (h : LeaderPPs a) (hc : b.cfg = a.cfg) (hp : b.store.pps = a.store.pps)
    (hl : a.latestNV ≤ b.latestNV) : LeaderPPs b := by
  intro v ppm hg hlead
  have : a.store.getPP a.cfg.height v = some ppm := by
    unfold Store.getPP at hg ⊢; rw [hp, hc] at hg; exact hg
  have := h v ppm this (by rw [← hc]; exact hlead)
  omega

theorem viewsOK_acceptNode (a : Node) (ppm : PPMsg) (hvo : ViewsOK a) (hv : ppm.c.header.view = a.view) :
    ViewsOK (acceptNode a ppm) := by
  refine ⟨?_, hvo.prep⟩
  intro p hp
  have hp' : p ∈ (a.store.storePP ppm).pps := by
    have : (acceptNode a ppm).store.pps = (a.store.storePP ppm).pps := storePrepare_pps _ _
    rw [this] at hp; exact hp
  rcases mem_storePP hp' with hp | rfl
  · exact hvo.pp p hp
  · show p.c.header.view ≤ a.view
    omega

/-! ## the handler pass: proposals -/

theorem initView_spi (w : W) (v : Nat) : (initView w v).1.spi = w.spi := by
  unfold initView; split <;> rfl

/-- a positive validation result means the next SPI answer was a positive verdict -/
theorem askValidate_ok_spi (w : W) (h v : Nat) (b : Option Block) (hash : Nat)
    (hok : (askValidate w h v b hash).2 = true) : ∃ cd rest, w.spi = Spi.verdict true cd :: rest := by
  unfold askValidate at hok
  dsimp only at hok
  have hs : (ctxFor w h v).1.spi = w.spi := rfl
  split at hok
  · cases hok
  · split at hok
    · rename_i id _ good cd rest hspi
      simp only [Bool.and_eq_true] at hok
      have hspi' : w.spi = Spi.verdict good cd :: rest := by simpa [W.emit, hs] using hspi
      exact ⟨cd, rest, by rw [hspi', hok.1]⟩
    · cases hok

/-- a block obtained from `askProposal` is the next SPI answer -/
theorem askProposal_some_spi (w : W) (h v : Nat) (b : Block) (hsome : (askProposal w h v).2 = some b) :
    ∃ cd rest, w.spi = Spi.proposal b cd :: rest := by
  unfold askProposal at hsome
  dsimp only at hsome
  have hs : (ctxFor w h v).1.spi = w.spi := rfl
  split at hsome
  · cases hsome
  · split at hsome
    · rename_i id _ b' cd rest hspi
      have hspi' : w.spi = Spi.proposal b' cd :: rest := by simpa [W.emit, hs] using hspi
      split at hsome
      · cases hsome
      · have : b' = b := Option.some.inj hsome
        subst this
        exact ⟨cd, rest, hspi'⟩
    · cases hsome

theorem processPreprepare_runs (w : W) (ppm : PPMsg) (f : Bool)
    (hh : ppm.c.header.height = w.n.cfg.height)
    (hnone : w.n.store.getPP w.n.cfg.height ppm.c.header.view = none)
    (hnl : isLeader w.n.cfg w.n.cfg.me ppm.c.header.view = false)
    (hlock : w.n.view = 0 ∨ f = true ∨ lockConflict w.n ppm = false)
    (hsrc : PPSrc e w.n.cfg ppm f)
    (hval : (f = false ∨ ∃ nvm : NVMsg, e = .deliver (.newView nvm) ∧ latestVote nvm.header.votes = none) →
        ∃ cd rest, spi0 = Spi.verdict true cd :: rest)
    (hvo : ViewsOK w.n) : RunsE e spi0 w (processPreprepare w ppm) := by
  unfold processPreprepare
  dsimp only
  split
  · exact RunsE.refl _
  · rename_i hvw
    have hv : ppm.c.header.view = w.n.view := by
      have : ¬ (w.n.view ≠ ppm.c.header.view) := by simpa using hvw
      omega
    have h1 : RunsE e spi0 w (({ w with n := acceptNode w.n ppm } : W).emit
        (.send (others w.n.cfg) (.prepare (ownPrepare w.n.cfg ppm.c.header.height ppm.c.header.view ppm.c.header.hash)))) :=
      RunsE.blk (l := [_]) rfl (.accept ppm f (others w.n.cfg) hh hv (by rw [← hv]; exact hnone) (by rw [← hv]; exact hnl) hlock hsrc hval)
    refine h1.trans ?_
    refine checkPreparedLocally_runs _ _ _ _ hh (by show w.n.view ≤ _; omega) (viewsOK_acceptNode _ _ hvo hv) ?_
    exact getPrepares_storePrepare_ne (w.n.store.storePP ppm) (ownPrepare w.n.cfg ppm.c.header.height ppm.c.header.view ppm.c.header.hash)

theorem validated_none (n : Node) (ppm : PPMsg) (hv : validatePreprepare n ppm = true) :
    n.store.getPP ppm.c.header.height ppm.c.header.view = none := by
  unfold validatePreprepare at hv
  simp only [Bool.and_eq_true, Option.isNone_iff_eq_none] at hv
  exact hv.1.1.1

theorem lockConflict_congr {a b : Node} (hp : b.prepared = a.prepared) (hs : b.store = a.store) (ppm : PPMsg) :
    lockConflict b ppm = lockConflict a ppm := by
  unfold lockConflict; rw [hp, hs]

theorem validatePreprepare_congr {a b : Node} (hc : b.cfg = a.cfg) (hs : b.store = a.store) (ppm : PPMsg) :
    validatePreprepare b ppm = validatePreprepare a ppm := by
  unfold validatePreprepare; rw [hc, hs]

theorem handlePrePrepare_runs (w : W) (ppm : PPMsg) (hh : ppm.c.header.height = w.n.cfg.height)
    (hs : ppm.c.sender.id ≠ w.n.cfg.me) (hvo : ViewsOK w.n) (hspi : w.spi = spi0) :
    RunsE (.deliver (.preprepare ppm)) spi0 w (handlePrePrepare w ppm) := by
  unfold handlePrePrepare
  split
  · exact RunsE.refl _
  rename_i hval
  split
  · exact RunsE.refl _
  rename_i hlc
  dsimp only
  have hval' : validatePreprepare w.n ppm = true := by simpa using hval
  have hlc' : lockConflict w.n ppm = false := by simpa using hlc
  have h0 : RunsE (.deliver (.preprepare ppm)) spi0 w _ := askValidate_runs w ppm.c.header.height ppm.c.header.view ppm.block ppm.c.header.hash
  obtain ⟨a1, a2, a3, a4, _⟩ := askValidate_n w ppm.c.header.height ppm.c.header.view ppm.block ppm.c.header.hash
  have hsv := askValidate_ok_spi w ppm.c.header.height ppm.c.header.view ppm.block ppm.c.header.hash
  generalize askValidate w ppm.c.header.height ppm.c.header.view ppm.block ppm.c.header.hash = r at h0 a1 a2 a3 a4 hsv ⊢
  obtain ⟨w1, ok⟩ := r
  dsimp only at h0 a1 a2 a3 a4 hsv ⊢
  split
  · exact h0
  · rename_i hok
    have hval : (false = false ∨ ∃ nvm : NVMsg, Event.deliver (.preprepare ppm) = .deliver (.newView nvm) ∧ latestVote nvm.header.votes = none) →
        ∃ cd rest, spi0 = Spi.verdict true cd :: rest := by
      intro _
      rw [← hspi]; exact hsv (by simpa using hok)
    refine h0.trans (processPreprepare_runs w1 ppm false (by rw [a1]; exact hh) ?_ ?_ ?_ (Or.inl ⟨rfl, rfl⟩) hval (hvo.of_same (by rw [a2]) a4 (by rw [a3]; exact Nat.le_refl _)))
    · rw [a1, a2, ← hh]; exact validated_none w.n ppm hval'
    · rw [a1]; exact not_leader_of_validated w.n ppm hval' hs
    · exact Or.inr (Or.inr (by rw [lockConflict_congr a4 a2]; exact hlc'))

theorem validateVotes_cfg {a b : Node} (h : a.cfg = b.cfg) (th tv : Nat) (votes : List VCContent) :
    validateVotes a th tv votes = validateVotes b th tv votes := by
  unfold validateVotes isViewChangeValid; rw [h]

theorem lockOk_cfg {a b : Node} (h : a.cfg = b.cfg) (nvm : NVMsg) : lockOk a nvm = lockOk b nvm := by
  unfold lockOk isViewChangeValid; rw [h]

theorem adoptNewView_runs (w : W) (nvm : NVMsg) (hh : nvm.pp.header.height = w.n.cfg.height)
    (hnl : isLeader w.n.cfg w.n.cfg.me nvm.header.view = false) (hlv : w.n.latestNV ≤ nvm.header.view)
    (hchk : NVChecked w.n.cfg nvm)
    (hvo : ViewsOK w.n) (hspi : w.spi = spi0) : RunsE (.deliver (.newView nvm)) spi0 w (adoptNewView w nvm) := by
  have tail : ∀ (w1 : W) (ok : Bool), w1.n.cfg = w.n.cfg → w1.n.latestNV = w.n.latestNV → ViewsOK w1.n →
      (latestVote nvm.header.votes = none → ok = true → ∃ cd rest, spi0 = Spi.verdict true cd :: rest) →
      RunsE (.deliver (.newView nvm)) spi0 w1 (if (!ok) = true then w1 else
        if (!validatePreprepare w1.n ⟨nvm.pp, nvm.block⟩) = true then w1 else
          if (!(initView { w1 with n := { w1.n with latestNV := nvm.header.view } } nvm.header.view).2) = true
          then (initView { w1 with n := { w1.n with latestNV := nvm.header.view } } nvm.header.view).1
          else processPreprepare (initView { w1 with n := { w1.n with latestNV := nvm.header.view } } nvm.header.view).1 ⟨nvm.pp, nvm.block⟩) := by
    intro w1 ok hc hl h1 hvl
    split
    · exact RunsE.refl _
    rename_i hokk
    split
    · exact RunsE.refl _
    rename_i hval
    have hval' : validatePreprepare w1.n ⟨nvm.pp, nvm.block⟩ = true := by simpa using hval
    have hq1 : Quiet w1.n ({ w1 with n := { w1.n with latestNV := nvm.header.view } } : W).n :=
      ⟨rfl, Nat.le_refl _, by show w1.n.latestNV ≤ nvm.header.view; omega, rfl, rfl, List.prefix_refl _⟩
    have h2 : RunsE (.deliver (.newView nvm)) spi0 w1 (initView { w1 with n := { w1.n with latestNV := nvm.header.view } } nvm.header.view).1 :=
      (RunsE.quiet hq1 rfl (Appends.of_outs_eq rfl)).trans (initView_runs _ _)
    obtain ⟨i1, i2, i3, _, _, _, _⟩ := initView_n { w1 with n := { w1.n with latestNV := nvm.header.view } } nvm.header.view
    have hv2 : ViewsOK (initView { w1 with n := { w1.n with latestNV := nvm.header.view } } nvm.header.view).1.n :=
      initView_views _ _ (h1.of_same rfl rfl (Nat.le_refl _))
    split
    · exact h2
    · refine h2.trans (processPreprepare_runs _ ⟨nvm.pp, nvm.block⟩ true ?_ ?_ ?_ (Or.inr (Or.inl rfl))
        (Or.inr ⟨nvm, rfl, rfl, rfl, by rw [i1]; show NVChecked w1.n.cfg nvm; rw [hc]; exact hchk⟩) ?_ hv2)
      · rw [i1]; show nvm.pp.header.height = w1.n.cfg.height; rw [hc]; exact hh
      · rw [i1, i2]
        show w1.n.store.getPP w1.n.cfg.height nvm.pp.header.view = none
        have := validated_none w1.n ⟨nvm.pp, nvm.block⟩ hval'
        rw [hc, ← hh]; exact this
      · rw [i1]
        show isLeader w1.n.cfg w1.n.cfg.me nvm.pp.header.view = false
        rw [hc, hchk.2.1]; exact hnl
      · intro hpre
        rcases hpre with hf | ⟨nvm', he, hnone⟩
        · cases hf
        · have : nvm' = nvm := by injection he with he; injection he with he; exact he.symm
          subst this
          exact hvl hnone (by simpa using hokk)
  unfold adoptNewView
  by_cases hlvn : (latestVote nvm.header.votes).isNone = true
  · simp only [hlvn, if_true]
    have h0 : RunsE (.deliver (.newView nvm)) spi0 w _ := askValidate_runs w nvm.header.height nvm.header.view nvm.block nvm.pp.header.hash
    obtain ⟨a1, a2, a3, a4, _, a6⟩ := askValidate_n w nvm.header.height nvm.header.view nvm.block nvm.pp.header.hash
    have hsv := askValidate_ok_spi w nvm.header.height nvm.header.view nvm.block nvm.pp.header.hash
    exact h0.trans (tail _ _ a1 a6 (hvo.of_same (by rw [a2]) a4 (by rw [a3]; exact Nat.le_refl _))
      (fun _ hok => by rw [← hspi]; exact hsv hok))
  · simp only [hlvn]
    refine tail w true rfl rfl hvo ?_
    intro hnone _
    rw [hnone] at hlvn
    exact absurd rfl hlvn

theorem handleNewView_runs (w : W) (nvm : NVMsg) (hh : nvm.header.height = w.n.cfg.height)
    (hs : nvm.sender.id ≠ w.n.cfg.me) (hlv : w.n.latestNV ≤ w.n.view)
    (hvo : ViewsOK w.n) (hspi : w.spi = spi0) : RunsE (.deliver (.newView nvm)) spi0 w (handleNewView w nvm) := by
  unfold handleNewView
  dsimp only
  split; exact RunsE.refl _
  split; exact RunsE.refl _
  split; exact RunsE.refl _
  split; exact RunsE.refl _
  split; exact RunsE.refl _
  split; exact RunsE.refl _
  split; exact RunsE.refl _
  split; exact RunsE.refl _
  split; exact RunsE.refl _
  rename_i _ hvw _ hld hvotes hpv hph hpi hlock
  have hnl : isLeader w.n.cfg w.n.cfg.me nvm.header.view = false := by
    have hl : isLeader w.n.cfg nvm.sender.id nvm.header.view = true := by simpa using hld
    unfold isLeader at hl ⊢
    simp only [beq_iff_eq] at hl
    simp only [beq_eq_false_iff_ne, ne_eq]
    rw [hl]; exact hs
  have hph' : nvm.pp.header.height = nvm.header.height := by
    have : ¬ (nvm.pp.header.height ≠ nvm.header.height) := by simpa using hph
    omega
  have hpv' : nvm.pp.header.view = nvm.header.view := by
    have : ¬ (nvm.pp.header.view ≠ nvm.header.view) := by simpa using hpv
    omega
  have hpi' : nvm.pp.header.inst = w.n.cfg.inst := by
    have : ¬ (nvm.pp.header.inst ≠ w.n.cfg.inst) := by simpa using hpi
    omega
  have hchk : NVChecked w.n.cfg nvm := by
    refine ⟨?_, hpv', hph', hpi', ?_⟩
    · rw [validateVotes_cfg (a := { cfg := w.n.cfg }) (b := w.n) rfl]; simpa using hvotes
    · rw [lockOk_cfg (a := { cfg := w.n.cfg }) (b := w.n) rfl]; simpa using hlock
  exact adoptNewView_runs w nvm (by rw [hph']; exact hh) hnl (by omega) hchk hvo hspi

/-! ## the handler pass: elections -/

theorem getPP_congr {a b : Node} (hc : b.cfg = a.cfg) (hp : b.store.pps = a.store.pps) (v : Nat) :
    b.store.getPP b.cfg.height v = a.store.getPP a.cfg.height v := by
  unfold Store.getPP; rw [hp, hc]

theorem onElectedByViewChange_runs (w : W) (view : Nat) (vcs : List VCMsg)
    (hlead : isLeader w.n.cfg w.n.cfg.me view = true) (hlt : w.n.latestNV < view) (hK : LeaderPPs w.n)
    (h' : Nat) (hvcs : vcs = w.n.store.getVCs h' view) (hqv : isQuorum w.n.cfg (vcs.map (·.c.sender.id)) = true)
    (hspi : w.spi = spi0) :
    RunsE e spi0 w (onElectedByViewChange w view vcs) := by
  unfold onElectedByViewChange
  dsimp only
  have hq0 : Quiet w.n ({ w with n := { w.n with latestNV := view } } : W).n :=
    ⟨rfl, Nat.le_refl _, by show w.n.latestNV ≤ view; omega, rfl, rfl, List.prefix_refl _⟩
  have h0 : RunsE e spi0 w (initView { w with n := { w.n with latestNV := view } } view).1 :=
    (RunsE.quiet hq0 rfl (Appends.of_outs_eq rfl)).trans (initView_runs _ _)
  have helect : ∀ hash, ((∃ b, latestBlockFromVCs vcs = some (b, hash)) ∨
        (latestBlockFromVCs vcs = none ∧ ∃ b cd rest, spi0 = Spi.proposal b cd :: rest ∧ hash = b.hash)) →
      ∀ w' : W, w'.n.cfg = w.n.cfg → w'.n.store = w.n.store → w'.n.view = view → ElectedBy spi0 w'.n hash := by
    intro hash hl w' e1 e2 e3
    refine ⟨h', ?_, ?_⟩
    · rw [e1, e2, e3, ← hvcs]; exact hqv
    · rw [e2, e3, ← hvcs]; exact hl
  obtain ⟨i1, i2, _, _, i5, i6, _⟩ := initView_n { w with n := { w.n with latestNV := view } } view
  have i8 : (initView { w with n := { w.n with latestNV := view } } view).1.spi = w.spi := initView_spi _ _
  generalize initView { w with n := { w.n with latestNV := view } } view = r at h0 i1 i2 i5 i6 i8 ⊢
  obtain ⟨w1, ok⟩ := r
  dsimp only at h0 i1 i2 i5 i6 i8 ⊢
  split
  · exact h0
  · rename_i hok
    have hview : w1.n.view = view := (i6 (by simpa using hok)).1
    have hnone1 : w1.n.store.getPP w1.n.cfg.height view = none := by
      rw [getPP_congr (a := w.n) i1 (by rw [i2]) view]
      cases hg : w.n.store.getPP w.n.cfg.height view with
      | none => rfl
      | some ppm => have := hK view ppm hg hlead; omega
    -- storing and sending the own proposal of view `view`
    have store : ∀ (w' : W) (b : Block) (hash : Nat) (nvm : NVMsg), nvm.pp = ⟨mkRef w'.n.cfg tPP view hash, mySig w'.n.cfg⟩ →
        w'.n.view = view → w'.n.latestNV = view →
        w'.n.store.getPP w'.n.cfg.height view = none → ElectedBy spi0 w'.n hash →
        nvm.header.votes = (w'.n.store.getVCs h' w'.n.view).map (·.c) →
        nvm = ⟨⟨tNV, w'.n.cfg.inst, w'.n.cfg.height, w'.n.view, (w'.n.store.getVCs h' w'.n.view).map (·.c)⟩, mySig w'.n.cfg,
                ⟨mkRef w'.n.cfg tPP view hash, mySig w'.n.cfg⟩, some b⟩ →
        (b.hash = hash ∨ ∃ h, latestBlockFromVCs (w'.n.store.getVCs h w'.n.view) = some (b, hash)) →
        w'.n.cfg = w.n.cfg → w'.n.store = w.n.store →
        (match latestBlockFromVCs vcs with
          | some (b', h'') => b = b' ∧ hash = h''
          | none => hash = b.hash) →
        RunsE e spi0 w' (({ w' with n := { w'.n with store := w'.n.store.storePP ⟨⟨mkRef w'.n.cfg tPP view hash, mySig w'.n.cfg⟩, some b⟩ } } : W).emit
          (.send (others w'.n.cfg) (.newView nvm))) := by
      intro w' b hash nvm hnv hv' hl' hn' hel hvotes hexact hbk hc' hs' hsel
      have hsel' : (match latestBlockFromVCs (w'.n.store.getVCs h' w'.n.view) with
               | some (b', h'') => (some b : Option Block) = some b' ∧ hash = h''
               | none => ∀ b0, (some b : Option Block) = some b0 → hash = b0.hash) := by
        rw [hs', hv', ← hvcs]
        split
        · rename_i b' h'' heq
          rw [heq] at hsel
          exact ⟨by rw [hsel.1], hsel.2⟩
        · rename_i heq
          rw [heq] at hsel
          intro b0 hb0
          rw [← Option.some.inj hb0]; exact hsel
      refine RunsE.blk (l := [_]) rfl (.propose ⟨⟨mkRef w'.n.cfg tPP view hash, mySig w'.n.cfg⟩, some b⟩ true _ rfl ?_ ?_ ?_ (Or.inr rfl) ?_ ⟨rfl, rfl, rfl⟩ (fun _ => hel) (by intro h; cases h)
        ⟨b, rfl, hbk⟩ (Or.inr ⟨_, nvm, h', rfl, hnv, hvotes, hexact, by rw [hc', hv']; exact hlead,
          by rw [hc', hs', hv', ← hvcs]; exact hqv, hsel'⟩))
      · show view = w'.n.view; omega
      · rw [hv']; exact hn'
      · omega
      · show some (Stmt.acc nvm.pp.header.view nvm.pp.header.hash) = _
        rw [hnv]
    split
    · rename_i b hash heq
      exact h0.trans (store w1 b hash _ rfl hview i5 hnone1 (helect hash (Or.inl ⟨b, heq⟩) w1 i1 i2 hview)
        (by show vcs.map (·.c) = _; rw [i2, hview, hvcs])
        (by rw [i2, hview, ← hvcs])
        (Or.inr ⟨h', by rw [i2, hview, ← hvcs]; exact heq⟩) i1 i2 (by rw [heq]; exact ⟨rfl, rfl⟩))
    · rename_i hnone
      have h1 : RunsE e spi0 w1 _ := askProposal_runs w1 w1.n.cfg.height view
      obtain ⟨p1, p2, p3, _, _, p6⟩ := askProposal_n w1 w1.n.cfg.height view
      have hps := askProposal_some_spi w1 w1.n.cfg.height view
      generalize askProposal w1 w1.n.cfg.height view = r2 at h1 p1 p2 p3 p6 hps ⊢
      obtain ⟨w2, ob⟩ := r2
      dsimp only at h1 p1 p2 p3 p6 hps ⊢
      split
      · rename_i b
        obtain ⟨cd, rest, hsp⟩ := hps b rfl
        have hsp' : spi0 = Spi.proposal b cd :: rest := by rw [← hspi, ← i8]; exact hsp
        refine (h0.trans h1).trans (store w2 b b.hash _ rfl (by rw [p3]; exact hview) (by rw [p6]; exact i5) ?_
          (helect b.hash (Or.inr ⟨hnone, b, cd, rest, hsp', rfl⟩) w2 (by rw [p1]; exact i1) (by rw [p2]; exact i2) (by rw [p3]; exact hview))
          (by show vcs.map (·.c) = _; rw [p2, i2, p3, hview, hvcs])
          (by rw [p2, i2, p3, hview, ← hvcs, p1]) (Or.inl rfl) (by rw [p1]; exact i1) (by rw [p2]; exact i2) (by rw [hnone]))
        rw [getPP_congr p1 (by rw [p2]) view]; exact hnone1
      · exact h0.trans h1

theorem checkElected_runs (w : W) (h view : Nat) (hlead : isLeader w.n.cfg w.n.cfg.me view = true) (hK : LeaderPPs w.n)
    (hspi : w.spi = spi0) :
    RunsE e spi0 w (checkElected w h view) := by
  unfold checkElected
  dsimp only
  split; exact RunsE.refl _
  rename_i hge
  split; exact RunsE.refl _
  split; exact RunsE.refl _
  rename_i hqv
  exact onElectedByViewChange_runs w view _ hlead (by omega) hK h rfl (by simpa using hqv) hspi

theorem handleViewChange_runs (w : W) (vcm : VCMsg) (hK : LeaderPPs w.n) (hspi : w.spi = spi0) :
    RunsE (.deliver (.viewChange vcm)) spi0 w (handleViewChange w vcm) := by
  unfold handleViewChange
  dsimp only
  split; exact RunsE.refl _
  rename_i hl
  split; exact RunsE.refl _
  split; exact RunsE.refl _
  split; exact RunsE.refl _
  split; exact RunsE.refl _
  have hlog : RunsE (.deliver (.viewChange vcm)) spi0 w ({ w with n := { w.n with store := w.n.store.storeVC vcm } } : W) :=
    RunsE.blk (l := []) (by simp) (.log (.vc vcm) rfl)
  refine hlog.trans (checkElected_runs _ _ _ (by simpa using hl) ?_ hspi)
  exact hK.of_same rfl (storeVC_pps _ _) (Nat.le_refl _)

theorem voteProof_eq (n : Node) :
    (match n.prepared with
      | some pv => extractProof n pv
      | none => none).map (fun (x : Proof × Option Block) => x.1) = voteProof n := by
  unfold voteProof
  cases n.prepared <;> rfl

theorem vote_runs (w1 : W) (vc : VCMsg) (h nv : Nat) (hv : vc.c.header.view = w1.n.view) (hnv : nv = w1.n.view)
    (hp : vc.c.header.proof = voteProof w1.n) (hK1 : LeaderPPs w1.n)
    (hown : vc.c.sender = mySig w1.n.cfg ∧ vc.c.header.inst = w1.n.cfg.inst ∧ vc.c.header.height = w1.n.cfg.height ∧ vc.c.header.mtype = tVC)
    (hpv : ∀ pv, w1.n.prepared = some pv → pv < w1.n.view) (hb : vc.block = voteBlock w1.n)
    (hvc : vc = ownVote w1.n)
    (hspi : w1.spi = spi0) :
    RunsE e spi0 w1 (if isLeader w1.n.cfg w1.n.cfg.me nv = true then
        checkElected { w1 with n := { w1.n with store := w1.n.store.storeVC vc } } h nv
      else w1.emit (.send [leaderId w1.n.cfg nv] (.viewChange vc))) := by
  split
  · rename_i hl
    have h1 : RunsE e spi0 w1 ({ w1 with n := { w1.n with store := w1.n.store.storeVC vc } } : W) :=
      RunsE.blk (l := []) (by simp) (.voteStore vc hv hp hown hpv hb hvc)
    exact h1.trans (checkElected_runs _ _ _ hl (hK1.of_same rfl (storeVC_pps _ _) (Nat.le_refl _)) hspi)
  · exact RunsE.blk (l := [_]) rfl (.voteSend vc _ hv hp hpv hown hvc)

theorem voteBlock_eq (n : Node) :
    (match n.prepared with
      | some pv => extractProof n pv
      | none => none).bind (fun (x : Proof × Option Block) => x.2) = voteBlock n := by
  unfold voteBlock
  cases n.prepared <;> rfl

theorem election_runs (w : W) (h v : Nat) (hK : LeaderPPs w.n) (hvo : ViewsOK w.n) (hspi : w.spi = spi0) :
    RunsE e spi0 w (election w h v) := by
  unfold election
  dsimp only
  split
  · exact RunsE.refl _
  rename_i hhv
  have hh : h = w.n.cfg.height := by
    simp only [Bool.or_eq_true, bne_iff_ne, ne_eq, not_or, Decidable.not_not] at hhv
    exact hhv.1
  have h0 : RunsE e spi0 w _ := initView_runs w (wrap64 (w.n.view + 1))
  obtain ⟨i1, i2, i3, _, i5, i6, _⟩ := initView_n w (wrap64 (w.n.view + 1))
  have i8 : (initView w (wrap64 (w.n.view + 1))).1.spi = w.spi := initView_spi _ _
  generalize initView w (wrap64 (w.n.view + 1)) = r at h0 i1 i2 i3 i5 i6 i8 ⊢
  obtain ⟨w1, ok⟩ := r
  dsimp only at h0 i1 i2 i3 i5 i6 i8 ⊢
  split
  · exact h0
  · rename_i hok
    have hview : w1.n.view = wrap64 (w.n.view + 1) := (i6 (by simpa using hok)).1
    have hK1 : LeaderPPs w1.n := hK.of_same i1 (by rw [i2]) (by rw [i5]; exact Nat.le_refl _)
    generalize hvc : VCMsg.mk _ _ = vc
    have hlt : w.n.view < w1.n.view := by
      have hle := (i6 (by simpa using hok)).2
      rw [hview]
      unfold wrap64 U64 at hle ⊢
      omega
    refine h0.trans (vote_runs w1 vc h _ ?_ hview.symm ?_ hK1 ?_ ?_ ?_ ?_ (by rw [i8]; exact hspi))
    · rw [← hvc]; exact hview.symm
    · rw [← hvc]; exact voteProof_eq w1.n
    · rw [← hvc]; exact ⟨rfl, rfl, by show h = w1.n.cfg.height; rw [i1]; exact hh, rfl⟩
    · intro pv hp
      rw [i3] at hp
      have := hvo.prep pv hp
      omega
    · rw [← hvc]; exact voteBlock_eq w1.n
    · rw [← hvc]
      unfold ownVote
      have e1 := voteProof_eq w1.n
      have e2 := voteBlock_eq w1.n
      have eh : h = w1.n.cfg.height := by rw [i1]; exact hh
      rw [← e1, ← e2, eh, hview]
      rfl

theorem startTerm_runs (w : W) (c : Bool) (hpps : w.n.store.pps = []) (hprep : w.n.prepared = none) (hspi : w.spi = spi0) :
    RunsE e spi0 w (startTerm w c) := by
  unfold startTerm
  dsimp only
  have hq0 : Quiet w.n ({ w with n := { w.n with prepared := none } } : W).n :=
    ⟨rfl, Nat.le_refl _, Nat.le_refl _, hprep.symm, rfl, List.prefix_refl _⟩
  have h0 : RunsE e spi0 w (initView { w with n := { w.n with prepared := none } } 0).1 :=
    (RunsE.quiet hq0 rfl (Appends.of_outs_eq rfl)).trans (initView_runs _ _)
  obtain ⟨_, i2, _, _, _, i6, _⟩ := initView_n { w with n := { w.n with prepared := none } } 0
  have i8 : (initView { w with n := { w.n with prepared := none } } 0).1.spi = w.spi := initView_spi _ _
  generalize initView { w with n := { w.n with prepared := none } } 0 = r at h0 i2 i6 i8 ⊢
  obtain ⟨w1, ok⟩ := r
  dsimp only at h0 i2 i6 i8 ⊢
  split
  · exact h0
  rename_i hok
  have hview : w1.n.view = 0 := (i6 (by simpa using hok)).1
  split
  · exact h0
  split
  · exact h0
  · have h1 : RunsE e spi0 w1 _ := askProposal_runs w1 w1.n.cfg.height 0
    obtain ⟨_, p2, p3, _⟩ := askProposal_n w1 w1.n.cfg.height 0
    have hps := askProposal_some_spi w1 w1.n.cfg.height 0
    generalize askProposal w1 w1.n.cfg.height 0 = r2 at h1 p2 p3 hps ⊢
    obtain ⟨w2, ob⟩ := r2
    dsimp only at h1 p2 p3 hps ⊢
    split
    · exact h0.trans h1
    · rename_i b
      obtain ⟨cd, rest, hsp⟩ := hps b rfl
      have hsp' : spi0 = Spi.proposal b cd :: rest := by rw [← hspi, ← i8]; exact hsp
      refine (h0.trans h1).trans (RunsE.blk (l := [_]) rfl
        (.propose ⟨⟨mkRef w2.n.cfg tPP 0 b.hash, mySig w2.n.cfg⟩, some b⟩ false _ rfl ?_ ?_ (Nat.zero_le _ |> fun h => by rw [p3, hview]; exact h) (Or.inl (by rw [p3]; exact hview)) rfl ⟨rfl, rfl, rfl⟩ (by intro h; cases h) (fun _ => ⟨b, cd, rest, hsp', rfl⟩) ⟨b, rfl, Or.inl rfl⟩ (Or.inl ⟨_, rfl⟩)))
      · show 0 = w2.n.view; rw [p3]; exact hview.symm
      · unfold Store.getPP; rw [p2, i2]; show List.find? _ w.n.store.pps = none; rw [hpps]; rfl

/-- **every event of the term model is a sequence of atomic blocks** (for events the worker lets
through: messages of this height that other members signed) -/
def EventLocal (n : Node) : Event → Prop
  | .start _ => n.store.pps = [] ∧ n.prepared = none
  | .deliver (.preprepare m) => m.c.header.height = n.cfg.height ∧ m.c.sender.id ≠ n.cfg.me
  | .deliver (.prepare m) => m.header.height = n.cfg.height
  | .deliver (.newView m) => m.header.height = n.cfg.height ∧ m.sender.id ≠ n.cfg.me
  | _ => True

theorem step_runs (n : Node) (e : Event) (spi : List Spi) (he : EventLocal n e)
    (hvo : ViewsOK n) (hlv : n.latestNV ≤ n.view) (hK : LeaderPPs n) :
    ∃ w' g, Runs e spi { n := n, spi := spi } w' g ∧ step n e spi = (w'.n, w'.outs) := by
  unfold step
  dsimp only
  cases e with
  | start c => obtain ⟨g, r⟩ := startTerm_runs { n := n, spi := spi } c he.1 he.2 rfl; exact ⟨_, g, r, rfl⟩
  | election h v => obtain ⟨g, r⟩ := election_runs { n := n, spi := spi } h v hK hvo rfl; exact ⟨_, g, r, rfl⟩
  | cancelOlder h v =>
    refine ⟨{ n := { n with reg := (Contexts.step n.reg (.cancelOlderThan ⟨h, v⟩)).1 }, spi := spi }, [],
      .blk (l := []) (by simp) (.quiet (Quiet.of_eqs rfl rfl rfl rfl rfl) rfl (by simp)), rfl⟩
  | deliver m =>
    cases m with
    | preprepare x => obtain ⟨g, r⟩ := handlePrePrepare_runs { n := n, spi := spi } x he.1 he.2 hvo rfl; exact ⟨_, g, r, rfl⟩
    | prepare x => obtain ⟨g, r⟩ := handlePrepare_runs { n := n, spi := spi } x he hvo; exact ⟨_, g, r, rfl⟩
    | commit x => obtain ⟨g, r⟩ := handleCommit_runs { n := n, spi := spi } x; exact ⟨_, g, r, rfl⟩
    | viewChange x => obtain ⟨g, r⟩ := handleViewChange_runs { n := n, spi := spi } x hK rfl; exact ⟨_, g, r, rfl⟩
    | newView x => obtain ⟨g, r⟩ := handleNewView_runs { n := n, spi := spi } x he.1 he.2 hlv hvo rfl; exact ⟨_, g, r, rfl⟩

end LeanHelix.Term
