import LeanHelix.Lemmas.TermStore
/-!
# Every logged message carries the node's instance id and the term's height

`Clean n op`: the message inserted by `op` is for the node's instance and the term's height.
Each handler only inserts the message it was given (or the proposal embedded in a NEW_VIEW, whose
instance id and height the handler checks) and messages it creates itself, so if the delivered
message is clean (the worker's filter guarantees that) the log stays clean (`LogClean`).
-/
namespace LeanHelix.Term
open LeanHelix LeanHelix.Msg

def opInst : StoreOp → Nat
  | .pp m => m.c.header.inst
  | .prepare m => m.header.inst
  | .commit m => m.header.inst
  | .vc m => m.c.header.inst

def opHeight : StoreOp → Nat
  | .pp m => m.c.header.height
  | .prepare m => m.header.height
  | .commit m => m.header.height
  | .vc m => m.c.header.height

/-- the inserted message is for this instance and this term's height -/
def Clean (n : Node) (op : StoreOp) : Prop := opInst op = n.cfg.inst ∧ opHeight op = n.cfg.height

structure LogClean (n : Node) : Prop where
  pps : ∀ m ∈ n.store.pps, m.c.header.inst = n.cfg.inst ∧ m.c.header.height = n.cfg.height
  prepares : ∀ m ∈ n.store.prepares, m.header.inst = n.cfg.inst ∧ m.header.height = n.cfg.height
  commits : ∀ m ∈ n.store.commits, m.header.inst = n.cfg.inst ∧ m.header.height = n.cfg.height
  vcs : ∀ m ∈ n.store.vcs, m.c.header.inst = n.cfg.inst ∧ m.c.header.height = n.cfg.height

theorem logClean_init (c : Cfg) : LogClean { cfg := c } :=
  ⟨(by intro m h; cases h), (by intro m h; cases h), (by intro m h; cases h), (by intro m h; cases h)⟩

theorem mem_storePP {s : Store} {m x : PPMsg} (h : x ∈ (s.storePP m).pps) : x ∈ s.pps ∨ x = m := by
  unfold Store.storePP at h
  split at h
  · exact Or.inl h
  · simp only [List.mem_append, List.mem_singleton] at h; exact h

theorem mem_storePrepare {s : Store} {m x : PMsg} (h : x ∈ (s.storePrepare m).prepares) : x ∈ s.prepares ∨ x = m := by
  unfold Store.storePrepare at h
  split at h
  · exact Or.inl h
  · simp only [List.mem_append, List.mem_singleton] at h; exact h

theorem mem_storeCommit {s : Store} {m x : CMsg} (h : x ∈ (s.storeCommit m).commits) : x ∈ s.commits ∨ x = m := by
  unfold Store.storeCommit at h
  split at h
  · exact Or.inl h
  · simp only [List.mem_append, List.mem_singleton] at h; exact h

theorem mem_storeVC {s : Store} {m x : VCMsg} (h : x ∈ (s.storeVC m).vcs) : x ∈ s.vcs ∨ x = m := by
  unfold Store.storeVC at h
  split at h
  · exact Or.inl h
  · simp only [List.mem_append, List.mem_singleton] at h; exact h

private theorem storePP_others (s : Store) (m : PPMsg) :
    (s.storePP m).prepares = s.prepares ∧ (s.storePP m).commits = s.commits ∧ (s.storePP m).vcs = s.vcs := by
  unfold Store.storePP; split <;> exact ⟨rfl, rfl, rfl⟩
private theorem storePrepare_others (s : Store) (m : PMsg) :
    (s.storePrepare m).pps = s.pps ∧ (s.storePrepare m).commits = s.commits ∧ (s.storePrepare m).vcs = s.vcs := by
  unfold Store.storePrepare; split <;> exact ⟨rfl, rfl, rfl⟩
private theorem storeCommit_others (s : Store) (m : CMsg) :
    (s.storeCommit m).pps = s.pps ∧ (s.storeCommit m).prepares = s.prepares ∧ (s.storeCommit m).vcs = s.vcs := by
  unfold Store.storeCommit; split <;> exact ⟨rfl, rfl, rfl⟩
private theorem storeVC_others (s : Store) (m : VCMsg) :
    (s.storeVC m).pps = s.pps ∧ (s.storeVC m).prepares = s.prepares ∧ (s.storeVC m).commits = s.commits := by
  unfold Store.storeVC; split <;> exact ⟨rfl, rfl, rfl⟩

theorem logClean_apply (n : Node) (op : StoreOp) (h : LogClean n) (hop : Clean n op) :
    LogClean { n with store := n.store.apply op } := by
  cases op with
  | pp m =>
    obtain ⟨e1, e2, e3⟩ := storePP_others n.store m
    refine ⟨?_, by show ∀ x ∈ (n.store.storePP m).prepares, _; rw [e1]; exact h.prepares,
      by show ∀ x ∈ (n.store.storePP m).commits, _; rw [e2]; exact h.commits,
      by show ∀ x ∈ (n.store.storePP m).vcs, _; rw [e3]; exact h.vcs⟩
    intro x hx
    rcases mem_storePP (show x ∈ (n.store.storePP m).pps from hx) with hx | rfl
    · exact h.pps x hx
    · exact hop
  | prepare m =>
    obtain ⟨e1, e2, e3⟩ := storePrepare_others n.store m
    refine ⟨by show ∀ x ∈ (n.store.storePrepare m).pps, _; rw [e1]; exact h.pps, ?_,
      by show ∀ x ∈ (n.store.storePrepare m).commits, _; rw [e2]; exact h.commits,
      by show ∀ x ∈ (n.store.storePrepare m).vcs, _; rw [e3]; exact h.vcs⟩
    intro x hx
    rcases mem_storePrepare (show x ∈ (n.store.storePrepare m).prepares from hx) with hx | rfl
    · exact h.prepares x hx
    · exact hop
  | commit m =>
    obtain ⟨e1, e2, e3⟩ := storeCommit_others n.store m
    refine ⟨by show ∀ x ∈ (n.store.storeCommit m).pps, _; rw [e1]; exact h.pps,
      by show ∀ x ∈ (n.store.storeCommit m).prepares, _; rw [e2]; exact h.prepares, ?_,
      by show ∀ x ∈ (n.store.storeCommit m).vcs, _; rw [e3]; exact h.vcs⟩
    intro x hx
    rcases mem_storeCommit (show x ∈ (n.store.storeCommit m).commits from hx) with hx | rfl
    · exact h.commits x hx
    · exact hop
  | vc m =>
    obtain ⟨e1, e2, e3⟩ := storeVC_others n.store m
    refine ⟨by show ∀ x ∈ (n.store.storeVC m).pps, _; rw [e1]; exact h.pps,
      by show ∀ x ∈ (n.store.storeVC m).prepares, _; rw [e2]; exact h.prepares,
      by show ∀ x ∈ (n.store.storeVC m).commits, _; rw [e3]; exact h.commits, ?_⟩
    intro x hx
    rcases mem_storeVC (show x ∈ (n.store.storeVC m).vcs from hx) with hx | rfl
    · exact h.vcs x hx
    · exact hop

/-- clean inserts keep the log clean -/
theorem logClean_evolves {a b : Node} (h : Evolves Clean a b) (ha : LogClean a) : LogClean b := by
  refine Evolves.preserves LogClean ?_ (fun n op hi hp => logClean_apply n op hi hp) h ha
  intro n n' hh hi
  exact ⟨by rw [hh.1, hh.2]; exact hi.pps, by rw [hh.1, hh.2]; exact hi.prepares,
    by rw [hh.1, hh.2]; exact hi.commits, by rw [hh.1, hh.2]; exact hi.vcs⟩

/-! ## every handler inserts only the message it was given and messages it creates for this term -/

theorem checkCommitted_evC (w : W) (h v hash : Nat) : Evolves Clean w.n (checkCommitted w h v hash).n := by
  obtain ⟨c1, c2, _⟩ := checkCommitted_n w h v hash
  exact ev_other c1 c2

theorem onPreparedLocally_evC (w : W) (h v hash : Nat) (hh : h = w.n.cfg.height) :
    Evolves Clean w.n (onPreparedLocally w h v hash).n := by
  obtain ⟨c1, c2, _⟩ := onPreparedLocally_n w h v hash
  have step1 : Evolves Clean w.n { w.n with store := w.n.store.apply (.commit (ownCommit w.n.cfg h v hash)) } :=
    .insert (.commit (ownCommit w.n.cfg h v hash)) ⟨rfl, hh⟩
  exact .trans step1 (ev_other c1 c2)

theorem checkPreparedLocally_evC (w : W) (h v hash : Nat) (hh : h = w.n.cfg.height) :
    Evolves Clean w.n (checkPreparedLocally w h v hash).n := by
  rcases checkPreparedLocally_cases w h v hash with e | ⟨_, e⟩
  · rw [e]; exact .refl _
  · rw [e]; exact onPreparedLocally_evC w h v hash hh

theorem handleCommit_evC (w : W) (cm : CMsg) (hc : Clean w.n (.commit cm)) : Evolves Clean w.n (handleCommit w cm).n := by
  unfold handleCommit
  dsimp only
  split; exact .refl _
  split; exact .refl _
  split; exact .refl _
  split; exact .refl _
  refine .trans (.insert (.commit cm) hc) ?_
  exact checkCommitted_evC { w with n := { w.n with store := w.n.store.storeCommit cm } } _ _ _

theorem handlePrepare_evC (w : W) (pm : PMsg) (hc : Clean w.n (.prepare pm)) : Evolves Clean w.n (handlePrepare w pm).n := by
  unfold handlePrepare
  dsimp only
  split; exact .refl _
  split; exact .refl _
  split; exact .refl _
  split; exact .refl _
  split; exact .refl _
  refine .trans (.insert (.prepare pm) hc) ?_
  exact checkPreparedLocally_evC { w with n := { w.n with store := w.n.store.storePrepare pm } } _ _ _ hc.2

theorem processPreprepare_evC (w : W) (ppm : PPMsg) (hc : Clean w.n (.pp ppm)) :
    Evolves Clean w.n (processPreprepare w ppm).n := by
  unfold processPreprepare
  dsimp only
  split
  · exact .refl _
  · let n1 : Node := { w.n with store := w.n.store.apply (.pp ppm) }
    have s1 : Evolves Clean w.n n1 := .insert (.pp ppm) hc
    have s2 : Evolves Clean n1 { n1 with store := n1.store.apply (.prepare (ownPrepare w.n.cfg ppm.c.header.height ppm.c.header.view ppm.c.header.hash)) } :=
      .insert _ ⟨rfl, hc.2⟩
    refine .trans (.trans s1 s2) ?_
    let st2 := (w.n.store.storePP ppm).storePrepare (ownPrepare w.n.cfg ppm.c.header.height ppm.c.header.view ppm.c.header.hash)
    exact checkPreparedLocally_evC (({ w with n := { w.n with store := st2 } } : W).emit _) _ _ _ hc.2

theorem handlePrePrepare_evC (w : W) (ppm : PPMsg) (hc : Clean w.n (.pp ppm)) :
    Evolves Clean w.n (handlePrePrepare w ppm).n := by
  unfold handlePrePrepare
  split
  · exact .refl _
  split
  · exact .refl _
  dsimp only
  obtain ⟨a1, a2, _⟩ := askValidate_n w ppm.c.header.height ppm.c.header.view ppm.block ppm.c.header.hash
  generalize askValidate w ppm.c.header.height ppm.c.header.view ppm.block ppm.c.header.hash = r at a1 a2 ⊢
  obtain ⟨w1, ok⟩ := r
  dsimp only at a1 a2 ⊢
  split
  · exact ev_other a1 a2
  · refine .trans (ev_other a1 a2) (processPreprepare_evC w1 ppm ?_)
    unfold Clean at hc ⊢; rw [a1]; exact hc

theorem adoptNewView_evC (w : W) (nvm : NVMsg) (hc : Clean w.n (.pp ⟨nvm.pp, nvm.block⟩)) :
    Evolves Clean w.n (adoptNewView w nvm).n := by
  have tail : ∀ (w1 : W) (ok : Bool), w1.n.cfg = w.n.cfg → w1.n.store = w.n.store →
      Evolves Clean w.n (if (!ok) = true then w1 else
        if (!validatePreprepare w1.n ⟨nvm.pp, nvm.block⟩) = true then w1 else
          if (!(initView { w1 with n := { w1.n with latestNV := nvm.header.view } } nvm.header.view).2) = true
          then (initView { w1 with n := { w1.n with latestNV := nvm.header.view } } nvm.header.view).1
          else processPreprepare (initView { w1 with n := { w1.n with latestNV := nvm.header.view } } nvm.header.view).1 ⟨nvm.pp, nvm.block⟩).n := by
    intro w1 ok a1 a2
    split
    · exact ev_other a1 a2
    · split
      · exact ev_other a1 a2
      · obtain ⟨i1, i2, _⟩ := initView_n { w1 with n := { w1.n with latestNV := nvm.header.view } } nvm.header.view
        generalize initView { w1 with n := { w1.n with latestNV := nvm.header.view } } nvm.header.view = r2 at i1 i2 ⊢
        obtain ⟨w2, ok2⟩ := r2
        dsimp only at i1 i2 ⊢
        have e1 : w2.n.cfg = w.n.cfg := by rw [i1]; exact a1
        have e2 : w2.n.store = w.n.store := by rw [i2]; exact a2
        split
        · exact ev_other e1 e2
        · refine .trans (ev_other e1 e2) (processPreprepare_evC w2 ⟨nvm.pp, nvm.block⟩ ?_)
          unfold Clean at hc ⊢; rw [e1]; exact hc
  unfold adoptNewView
  by_cases hlv : (latestVote nvm.header.votes).isNone = true
  · simp only [hlv, if_true]
    obtain ⟨a1, a2, _⟩ := askValidate_n w nvm.header.height nvm.header.view nvm.block nvm.pp.header.hash
    exact tail _ _ a1 a2
  · simp only [hlv]
    exact tail w true rfl rfl

/-- NEW_VIEW: the handler itself checks that the embedded proposal is of this instance and of the
NEW_VIEW's height; the NEW_VIEW's own height is the term's by the worker's filter -/
theorem handleNewView_evC (w : W) (nvm : NVMsg) (hh : nvm.header.height = w.n.cfg.height) :
    Evolves Clean w.n (handleNewView w nvm).n := by
  unfold handleNewView
  dsimp only
  split; exact .refl _
  split; exact .refl _
  split; exact .refl _
  split; exact .refl _
  split; exact .refl _
  split; exact .refl _
  split; exact .refl _
  split; exact .refl _
  split; exact .refl _
  rename_i _ _ _ _ _ _ g7 g8 _
  refine adoptNewView_evC w nvm ⟨(by show nvm.pp.header.inst = w.n.cfg.inst; simpa using g8), ?_⟩
  show nvm.pp.header.height = w.n.cfg.height
  have : nvm.pp.header.height = nvm.header.height := by simpa using g7
  rw [this, hh]

theorem onElectedByViewChange_evC (w : W) (view : Nat) (vcs : List VCMsg) :
    Evolves Clean w.n (onElectedByViewChange w view vcs).n := by
  unfold onElectedByViewChange
  dsimp only
  obtain ⟨i1, i2, _⟩ := initView_n { w with n := { w.n with latestNV := view } } view
  generalize initView { w with n := { w.n with latestNV := view } } view = r at i1 i2 ⊢
  obtain ⟨w1, ok⟩ := r
  dsimp only at i1 i2 ⊢
  have e1 : w1.n.cfg = w.n.cfg := i1
  have e2 : w1.n.store = w.n.store := i2
  split
  · exact ev_other e1 e2
  · split
    · rename_i b hash _
      refine .trans (ev_other e1 e2) ?_
      exact .insert (.pp ⟨⟨mkRef w1.n.cfg tPP view hash, mySig w1.n.cfg⟩, some b⟩) ⟨rfl, rfl⟩
    · obtain ⟨p1, p2, _⟩ := askProposal_n w1 w1.n.cfg.height view
      generalize askProposal w1 w1.n.cfg.height view = r2 at p1 p2 ⊢
      obtain ⟨w2, ob⟩ := r2
      dsimp only at p1 p2 ⊢
      have f1 : w2.n.cfg = w.n.cfg := by rw [p1]; exact e1
      have f2 : w2.n.store = w.n.store := by rw [p2]; exact e2
      split
      · rename_i b
        refine .trans (ev_other f1 f2) ?_
        exact .insert (.pp ⟨⟨mkRef w2.n.cfg tPP view b.hash, mySig w2.n.cfg⟩, some b⟩) ⟨rfl, rfl⟩
      · exact ev_other f1 f2

theorem checkElected_evC (w : W) (h view : Nat) : Evolves Clean w.n (checkElected w h view).n := by
  unfold checkElected
  dsimp only
  split; exact .refl _
  split; exact .refl _
  split; exact .refl _
  exact onElectedByViewChange_evC w view _

theorem handleViewChange_evC (w : W) (vcm : VCMsg) (hc : Clean w.n (.vc vcm)) :
    Evolves Clean w.n (handleViewChange w vcm).n := by
  unfold handleViewChange
  dsimp only
  split; exact .refl _
  split; exact .refl _
  split; exact .refl _
  split; exact .refl _
  split; exact .refl _
  refine .trans (.insert (.vc vcm) hc) ?_
  exact checkElected_evC { w with n := { w.n with store := w.n.store.storeVC vcm } } _ _

theorem election_evC (w : W) (h v : Nat) : Evolves Clean w.n (election w h v).n := by
  unfold election
  dsimp only
  split
  · exact .refl _
  rename_i hg
  have hh : h = w.n.cfg.height := by
    simp only [Bool.or_eq_true, bne_iff_ne, ne_eq, not_or, Decidable.not_not] at hg
    exact hg.1
  obtain ⟨i1, i2, _⟩ := initView_n w (wrap64 (w.n.view + 1))
  generalize initView w (wrap64 (w.n.view + 1)) = r at i1 i2 ⊢
  obtain ⟨w1, ok⟩ := r
  dsimp only at i1 i2 ⊢
  split
  · exact ev_other i1 i2
  · generalize hvc : VCMsg.mk _ _ = vc
    have hvc1 : vc.c.header.inst = w1.n.cfg.inst := by rw [← hvc]
    have hvc2 : vc.c.header.height = h := by rw [← hvc]
    split
    · refine .trans (ev_other i1 i2) (.trans (.insert (.vc vc) ⟨hvc1, by show vc.c.header.height = w1.n.cfg.height; rw [hvc2, hh, i1]⟩) ?_)
      exact checkElected_evC { w1 with n := { w1.n with store := w1.n.store.storeVC vc } } _ _
    · exact ev_other i1 i2

theorem startTerm_evC (w : W) (c : Bool) : Evolves Clean w.n (startTerm w c).n := by
  unfold startTerm
  dsimp only
  obtain ⟨i1, i2, _⟩ := initView_n { w with n := { w.n with prepared := none } } 0
  generalize initView { w with n := { w.n with prepared := none } } 0 = r at i1 i2 ⊢
  obtain ⟨w1, ok⟩ := r
  dsimp only at i1 i2 ⊢
  have e1 : w1.n.cfg = w.n.cfg := i1
  have e2 : w1.n.store = w.n.store := i2
  split
  · exact ev_other e1 e2
  split
  · exact ev_other e1 e2
  split
  · exact ev_other e1 e2
  · obtain ⟨p1, p2, _⟩ := askProposal_n w1 w1.n.cfg.height 0
    generalize askProposal w1 w1.n.cfg.height 0 = r2 at p1 p2 ⊢
    obtain ⟨w2, ob⟩ := r2
    dsimp only at p1 p2 ⊢
    have f1 : w2.n.cfg = w.n.cfg := by rw [p1]; exact e1
    have f2 : w2.n.store = w.n.store := by rw [p2]; exact e2
    split
    · exact ev_other f1 f2
    · rename_i b
      refine .trans (ev_other f1 f2) ?_
      exact .insert (.pp ⟨⟨mkRef w2.n.cfg tPP 0 b.hash, mySig w2.n.cfg⟩, some b⟩) ⟨rfl, rfl⟩

/-- instance id and height of a delivered message (`ConsensusMessage.InstanceId / BlockHeight`) -/
def msgInstT : Message → Nat
  | .preprepare m => m.c.header.inst
  | .prepare m => m.header.inst
  | .commit m => m.header.inst
  | .viewChange m => m.c.header.inst
  | .newView m => m.header.inst

def msgHeightT : Message → Nat
  | .preprepare m => m.c.header.height
  | .prepare m => m.header.height
  | .commit m => m.header.height
  | .viewChange m => m.c.header.height
  | .newView m => m.header.height

/-- the event is one the worker's filter lets through: a delivered message is of this instance and of the term's height -/
def EventClean (n : Node) : Event → Prop
  | .deliver m => msgInstT m = n.cfg.inst ∧ msgHeightT m = n.cfg.height
  | _ => True

/-- **every event of a filtered stream keeps the log clean** -/
theorem step_clean (n : Node) (e : Event) (spi : List Spi) (he : EventClean n e) (h : LogClean n) :
    LogClean (step n e spi).1 := by
  refine logClean_evolves ?_ h
  cases e with
  | start c => exact startTerm_evC { n := n, spi := spi } c
  | election hh v => exact election_evC { n := n, spi := spi } hh v
  | cancelOlder hh v => exact ev_other rfl rfl
  | deliver m =>
    cases m with
    | preprepare m => exact handlePrePrepare_evC { n := n, spi := spi } m he
    | prepare m => exact handlePrepare_evC { n := n, spi := spi } m he
    | commit m => exact handleCommit_evC { n := n, spi := spi } m he
    | viewChange m => exact handleViewChange_evC { n := n, spi := spi } m he
    | newView m => exact handleNewView_evC { n := n, spi := spi } m he.2

end LeanHelix.Term
