import LeanHelix.Model.Quorum
/-!
# Weighted-set lemmas (helper lemmas; the property theorems are in `Props/`)

`wt ms p` is the mathematical weight of the committee members whose id satisfies `p`.
The Go functions are related to it under the no-overflow hypothesis the properties state
("the total weight fits in 64 bits").
-/
namespace LeanHelix
open Quorum

abbrev Pred := Nat → Bool

def wt (ms : List Member) (p : Pred) : Nat := ((ms.filter (fun m => p m.id)).map (·.weight)).sum

theorem wt_nil (p : Pred) : wt [] p = 0 := rfl

theorem wt_cons (m : Member) (ms : List Member) (p : Pred) :
    wt (m :: ms) p = (if p m.id then m.weight else 0) + wt ms p := by
  unfold wt; by_cases h : p m.id <;> simp [h]

theorem wt_incl_excl (ms : List Member) (p q : Pred) :
    wt ms p + wt ms q = wt ms (fun i => p i || q i) + wt ms (fun i => p i && q i) := by
  induction ms with
  | nil => simp [wt]
  | cons m ms ih =>
    simp only [wt_cons]
    by_cases hp : p m.id <;> by_cases hq : q m.id <;> simp [hp, hq] <;> omega

theorem wt_mono (ms : List Member) (p q : Pred) (h : ∀ m ∈ ms, p m.id = true → q m.id = true) :
    wt ms p ≤ wt ms q := by
  induction ms with
  | nil => simp [wt]
  | cons m ms ih =>
    simp only [wt_cons]
    have ih' := ih (fun x hx => h x (List.mem_cons_of_mem _ hx))
    by_cases hp : p m.id
    · have hq := h m (List.mem_cons_self ..) hp
      simp [hp, hq]; omega
    · by_cases hq : q m.id <;> simp [hp, hq] <;> omega

theorem wt_congr (ms : List Member) (p q : Pred) (h : ∀ m ∈ ms, p m.id = q m.id) :
    wt ms p = wt ms q :=
  Nat.le_antisymm (wt_mono ms p q (fun m hm hp => by rw [← h m hm]; exact hp))
    (wt_mono ms q p (fun m hm hq => by rw [h m hm]; exact hq))

theorem wt_pos_exists (ms : List Member) (p : Pred) (h : 0 < wt ms p) : ∃ m ∈ ms, p m.id = true := by
  induction ms with
  | nil => simp [wt] at h
  | cons m ms ih =>
    simp only [wt_cons] at h
    by_cases hp : p m.id
    · exact ⟨m, List.mem_cons_self .., hp⟩
    · simp [hp] at h
      obtain ⟨x, hx, hpx⟩ := ih h
      exact ⟨x, List.mem_cons_of_mem _ hx, hpx⟩

/-- total weight -/
def W (ms : List Member) : Nat := wt ms (fun _ => true)
/-- the Byzantine bound f = ⌊(W-1)/3⌋ -/
def F (ms : List Member) : Nat := (W ms - 1) / 3
/-- the quorum weight Q = W - f -/
def Q (ms : List Member) : Nat := W ms - F ms

theorem W_eq_sum (ms : List Member) : W ms = (getWeights ms).sum := by
  unfold W getWeights
  induction ms with
  | nil => rfl
  | cons m ms ih => rw [wt_cons]; simp [ih]

theorem wt_le_W (ms : List Member) (p : Pred) : wt ms p ≤ W ms := wt_mono ms p _ (fun _ _ _ => rfl)

theorem three_f_lt (ms : List Member) (hW : 1 ≤ W ms) : 3 * F ms + 1 ≤ W ms := by
  unfold F; omega

theorem wt_false (ms : List Member) : wt ms (fun _ => false) = 0 := by
  induction ms with
  | nil => rfl
  | cons m ms ih => rw [wt_cons]; simp [ih]

theorem wt_compl (ms : List Member) (p : Pred) : wt ms p + wt ms (fun i => !p i) = W ms := by
  have h := wt_incl_excl ms p (fun i => !p i)
  have h1 : wt ms (fun i => p i || !p i) = W ms := by
    apply wt_congr; intro m _; cases p m.id <;> rfl
  have h2 : wt ms (fun i => p i && !p i) = 0 := by
    have : wt ms (fun i => p i && !p i) = wt ms (fun _ => false) := by
      apply wt_congr; intro m _; cases p m.id <;> rfl
    rw [this, wt_false]
  omega

/-! ## the Go folds equal the mathematical sums when nothing overflows -/

theorem foldl_sum_noovf (ws : List Nat) (acc : Nat) (h : acc + ws.sum < U64) :
    ws.foldl (fun s w => wrap64 (s + w)) acc = acc + ws.sum := by
  induction ws generalizing acc with
  | nil => simp
  | cons w ws ih =>
    simp only [List.foldl_cons, List.sum_cons] at h ⊢
    have h1 : wrap64 (acc + w) = acc + w := wrap64_of_lt (by omega)
    rw [h1, ih (acc + w) (by omega)]; omega

theorem sumWeights_eq (ws : List Nat) (h : ws.sum < U64) : sumWeights ws = ws.sum := by
  unfold sumWeights; rw [foldl_sum_noovf ws 0 (by omega)]; omega

theorem foldl_subset_noovf (ms : List Member) (p : Pred) (acc : Nat) (h : acc + wt ms p < U64) :
    ms.foldl (fun s m => if p m.id then wrap64 (s + m.weight) else s) acc = acc + wt ms p := by
  induction ms generalizing acc with
  | nil => simp [wt]
  | cons m ms ih =>
    simp only [List.foldl_cons]
    rw [wt_cons] at h ⊢
    by_cases hp : p m.id
    · simp only [hp, if_true] at h ⊢
      have h1 : wrap64 (acc + m.weight) = acc + m.weight := wrap64_of_lt (by omega)
      rw [h1, ih (acc + m.weight) (by omega)]; omega
    · simp only [hp] at h ⊢
      simp only [Bool.false_eq_true, if_false] at h ⊢
      rw [ih acc (by omega)]; omega

theorem subsetWeight_eq (subset : List Nat) (ms : List Member) (h : W ms < U64) :
    subsetWeight subset ms = wt ms (fun i => subset.contains i) := by
  unfold subsetWeight
  have hle := wt_le_W ms (fun i => subset.contains i)
  rw [foldl_subset_noovf ms (fun i => subset.contains i) 0 (by omega)]; omega

theorem calcF_eq (total : Nat) (h1 : 1 ≤ total) (h2 : total < U64) : calcF total = (total - 1) / 3 := by
  unfold calcF
  have : total + U64 - 1 = (total - 1) + U64 := by omega
  rw [this]; unfold wrap64; rw [Nat.add_mod_right, Nat.mod_eq_of_lt (by omega)]

theorem calcQuorumWeight_eq (ms : List Member) (h1 : 1 ≤ W ms) (h2 : W ms < U64) :
    calcQuorumWeight (getWeights ms) = Q ms := by
  unfold calcQuorumWeight
  have hs : sumWeights (getWeights ms) = W ms := by
    rw [sumWeights_eq _ (by rw [← W_eq_sum]; exact h2), W_eq_sum]
  simp only [hs]
  rw [if_neg (by omega), calcF_eq _ h1 h2]; rfl

theorem calcByzMaxWeight_eq (ms : List Member) (h1 : 1 ≤ W ms) (h2 : W ms < U64) :
    calcByzMaxWeight (getWeights ms) = F ms := by
  unfold calcByzMaxWeight
  have hs : sumWeights (getWeights ms) = W ms := by
    rw [sumWeights_eq _ (by rw [← W_eq_sum]; exact h2), W_eq_sum]
  simp only [hs]
  rw [if_neg (by omega), calcF_eq _ h1 h2]; rfl

end LeanHelix
