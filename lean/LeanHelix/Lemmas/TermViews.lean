import LeanHelix.Lemmas.TermOwn
/-!
# Stored proposals and the prepared view never lie above the node's view

`ViewsOK n`: every stored proposal is for a view ≤ `n.view` and the prepared view (if any) is ≤ `n.view`.
Proposals are stored only for the node's current view, the node becomes prepared only in a view
it holds a proposal for, and the view never decreases.
-/
namespace LeanHelix.Term
open LeanHelix LeanHelix.Msg

structure ViewsOK (n : Node) : Prop where
  pp : ∀ ppm ∈ n.store.pps, ppm.c.header.view ≤ n.view
  prep : ∀ pv, n.prepared = some pv → pv ≤ n.view

theorem viewsOK_init (c : Cfg) : ViewsOK { cfg := c } := ⟨(by intro p h; cases h), (by intro pv h; cases h)⟩

/-- same proposals, same prepared view, a view that is not lower -/
theorem ViewsOK.of_same {a b : Node} (h : ViewsOK a) (hpps : b.store.pps = a.store.pps) (hprep : b.prepared = a.prepared)
    (hview : a.view ≤ b.view) : ViewsOK b :=
  ⟨by intro p hp; rw [hpps] at hp; exact Nat.le_trans (h.pp p hp) hview,
   by intro pv hpv; rw [hprep] at hpv; exact Nat.le_trans (h.prep pv hpv) hview⟩

private theorem getPP_mem' {s : Store} {h v : Nat} {ppm : PPMsg} (hg : s.getPP h v = some ppm) :
    ppm ∈ s.pps ∧ ppm.c.header.view = v := by
  unfold Store.getPP at hg
  have h1 := List.mem_of_find?_eq_some hg
  have h2 := List.find?_some hg
  simp only [Bool.and_eq_true, beq_iff_eq] at h2
  exact ⟨h1, h2.2⟩

theorem checkCommitted_views (w : W) (h v hash : Nat) (hi : ViewsOK w.n) : ViewsOK (checkCommitted w h v hash).n := by
  obtain ⟨_, c2, c3, c4, _⟩ := checkCommitted_n w h v hash
  exact hi.of_same (by rw [c2]) c4 (by rw [c3]; exact Nat.le_refl _)

theorem onPreparedLocally_views (w : W) (h v hash : Nat) (hi : ViewsOK w.n) (hv : v ≤ w.n.view) :
    ViewsOK (onPreparedLocally w h v hash).n := by
  obtain ⟨_, c2, c3, c4, _⟩ := onPreparedLocally_n w h v hash
  refine ⟨?_, ?_⟩
  · intro p hp
    rw [c2] at hp
    have : (w.n.store.storeCommit (ownCommit w.n.cfg h v hash)).pps = w.n.store.pps := by
      unfold Store.storeCommit; split <;> rfl
    rw [this] at hp
    rw [c3]; exact hi.pp p hp
  · intro pv hpv
    rw [c4] at hpv
    rw [c3]
    have : pv = v := (Option.some.inj hpv).symm
    omega

theorem checkPreparedLocally_views (w : W) (h v hash : Nat) (hi : ViewsOK w.n) : ViewsOK (checkPreparedLocally w h v hash).n := by
  rcases checkPreparedLocally_cases w h v hash with e | ⟨⟨_, _, ppm, hg, _⟩, e⟩
  · rw [e]; exact hi
  · rw [e]
    obtain ⟨hm, hvv⟩ := getPP_mem' hg
    exact onPreparedLocally_views w h v hash hi (by rw [← hvv]; exact hi.pp ppm hm)

theorem handlePrepare_views (w : W) (pm : PMsg) (hi : ViewsOK w.n) : ViewsOK (handlePrepare w pm).n := by
  unfold handlePrepare
  dsimp only
  split; exact hi
  split; exact hi
  split; exact hi
  split; exact hi
  split; exact hi
  refine checkPreparedLocally_views _ _ _ _ (hi.of_same ?_ rfl (Nat.le_refl _))
  show (w.n.store.storePrepare pm).pps = w.n.store.pps
  unfold Store.storePrepare; split <;> rfl

theorem handleCommit_views (w : W) (cm : CMsg) (hi : ViewsOK w.n) : ViewsOK (handleCommit w cm).n := by
  unfold handleCommit
  dsimp only
  split; exact hi
  split; exact hi
  split; exact hi
  split; exact hi
  refine checkCommitted_views _ _ _ _ (hi.of_same ?_ rfl (Nat.le_refl _))
  show (w.n.store.storeCommit cm).pps = w.n.store.pps
  unfold Store.storeCommit; split <;> rfl

theorem processPreprepare_views (w : W) (ppm : PPMsg) (hi : ViewsOK w.n) : ViewsOK (processPreprepare w ppm).n := by
  unfold processPreprepare
  dsimp only
  split
  · exact hi
  · rename_i hv
    have hv' : w.n.view = ppm.c.header.view := by simpa using hv
    refine checkPreparedLocally_views _ _ _ _ ⟨?_, hi.prep⟩
    intro p hp
    have hp' : p ∈ ((w.n.store.storePP ppm).storePrepare (ownPrepare w.n.cfg ppm.c.header.height ppm.c.header.view ppm.c.header.hash)).pps := hp
    have e1 : ((w.n.store.storePP ppm).storePrepare (ownPrepare w.n.cfg ppm.c.header.height ppm.c.header.view ppm.c.header.hash)).pps = (w.n.store.storePP ppm).pps := by
      unfold Store.storePrepare; split <;> rfl
    rw [e1] at hp'
    rcases mem_storePP hp' with hp' | rfl
    · exact hi.pp p hp'
    · show p.c.header.view ≤ w.n.view
      rw [hv']; exact Nat.le_refl _

theorem initView_views (w : W) (v : Nat) (hi : ViewsOK w.n) : ViewsOK (initView w v).1.n := by
  unfold initView
  split
  · exact hi
  · rename_i hgt
    exact hi.of_same rfl rfl (by show w.n.view ≤ v; omega)

theorem handlePrePrepare_views (w : W) (ppm : PPMsg) (hi : ViewsOK w.n) : ViewsOK (handlePrePrepare w ppm).n := by
  unfold handlePrePrepare
  split
  · exact hi
  split
  · exact hi
  dsimp only
  obtain ⟨_, a2, a3, a4, _⟩ := askValidate_n w ppm.c.header.height ppm.c.header.view ppm.block ppm.c.header.hash
  generalize askValidate w ppm.c.header.height ppm.c.header.view ppm.block ppm.c.header.hash = r at a2 a3 a4 ⊢
  obtain ⟨w1, ok⟩ := r
  dsimp only at a2 a3 a4 ⊢
  have h1 : ViewsOK w1.n := hi.of_same (by rw [a2]) a4 (by rw [a3]; exact Nat.le_refl _)
  split
  · exact h1
  · exact processPreprepare_views w1 ppm h1

theorem adoptNewView_views (w : W) (nvm : NVMsg) (hi : ViewsOK w.n) : ViewsOK (adoptNewView w nvm).n := by
  have tail : ∀ (w1 : W) (ok : Bool), ViewsOK w1.n →
      ViewsOK (if (!ok) = true then w1 else
        if (!validatePreprepare w1.n ⟨nvm.pp, nvm.block⟩) = true then w1 else
          if (!(initView { w1 with n := { w1.n with latestNV := nvm.header.view } } nvm.header.view).2) = true
          then (initView { w1 with n := { w1.n with latestNV := nvm.header.view } } nvm.header.view).1
          else processPreprepare (initView { w1 with n := { w1.n with latestNV := nvm.header.view } } nvm.header.view).1 ⟨nvm.pp, nvm.block⟩).n := by
    intro w1 ok h1
    split
    · exact h1
    split
    · exact h1
    have h2 : ViewsOK (initView { w1 with n := { w1.n with latestNV := nvm.header.view } } nvm.header.view).1.n :=
      initView_views _ _ (h1.of_same rfl rfl (Nat.le_refl _))
    split
    · exact h2
    · exact processPreprepare_views _ _ h2
  unfold adoptNewView
  by_cases hlv : (latestVote nvm.header.votes).isNone = true
  · simp only [hlv, if_true]
    obtain ⟨_, a2, a3, a4, _⟩ := askValidate_n w nvm.header.height nvm.header.view nvm.block nvm.pp.header.hash
    exact tail _ _ (hi.of_same (by rw [a2]) a4 (by rw [a3]; exact Nat.le_refl _))
  · simp only [hlv]
    exact tail w true hi

theorem handleNewView_views (w : W) (nvm : NVMsg) (hi : ViewsOK w.n) : ViewsOK (handleNewView w nvm).n := by
  unfold handleNewView
  dsimp only
  split; exact hi
  split; exact hi
  split; exact hi
  split; exact hi
  split; exact hi
  split; exact hi
  split; exact hi
  split; exact hi
  split; exact hi
  exact adoptNewView_views w nvm hi

theorem onElectedByViewChange_views (w : W) (view : Nat) (vcs : List VCMsg) (hi : ViewsOK w.n) :
    ViewsOK (onElectedByViewChange w view vcs).n := by
  unfold onElectedByViewChange
  dsimp only
  have h0 : ViewsOK (initView { w with n := { w.n with latestNV := view } } view).1.n :=
    initView_views _ _ (hi.of_same rfl rfl (Nat.le_refl _))
  obtain ⟨_, _, _, _, _, i6, _⟩ := initView_n { w with n := { w.n with latestNV := view } } view
  generalize initView { w with n := { w.n with latestNV := view } } view = r at h0 i6 ⊢
  obtain ⟨w1, ok⟩ := r
  dsimp only at h0 i6 ⊢
  split
  · exact h0
  · rename_i hok
    have hview : w1.n.view = view := (i6 (by simpa using hok)).1
    -- storing the own proposal of view `view` in a state whose view is `view`
    have store : ∀ (w' : W) (b : Block) (hash : Nat), ViewsOK w'.n → w'.n.view = view →
        ViewsOK ((({ w' with n := { w'.n with store := w'.n.store.storePP ⟨⟨mkRef w'.n.cfg tPP view hash, mySig w'.n.cfg⟩, some b⟩ } } : W).emit
          (.send (others w'.n.cfg) (.newView ⟨⟨tNV, w'.n.cfg.inst, w'.n.cfg.height, view, vcs.map (·.c)⟩, mySig w'.n.cfg, ⟨mkRef w'.n.cfg tPP view hash, mySig w'.n.cfg⟩, some b⟩))).n) := by
      intro w' b hash h' hv'
      refine ⟨?_, h'.prep⟩
      intro p hp
      rcases mem_storePP (show p ∈ (w'.n.store.storePP _).pps from hp) with hp | rfl
      · exact h'.pp p hp
      · show view ≤ w'.n.view
        rw [hv']; exact Nat.le_refl _
    split
    · rename_i b hash _
      exact store w1 b hash h0 hview
    · obtain ⟨_, p2, p3, p4, _⟩ := askProposal_n w1 w1.n.cfg.height view
      generalize askProposal w1 w1.n.cfg.height view = r2 at p2 p3 p4 ⊢
      obtain ⟨w2, ob⟩ := r2
      dsimp only at p2 p3 p4 ⊢
      have h2 : ViewsOK w2.n := h0.of_same (by rw [p2]) p4 (by rw [p3]; exact Nat.le_refl _)
      split
      · rename_i b
        exact store w2 b b.hash h2 (by rw [p3]; exact hview)
      · exact h2

theorem checkElected_views (w : W) (h view : Nat) (hi : ViewsOK w.n) : ViewsOK (checkElected w h view).n := by
  unfold checkElected
  dsimp only
  split; exact hi
  split; exact hi
  split; exact hi
  exact onElectedByViewChange_views w view _ hi

theorem handleViewChange_views (w : W) (vcm : VCMsg) (hi : ViewsOK w.n) : ViewsOK (handleViewChange w vcm).n := by
  unfold handleViewChange
  dsimp only
  split; exact hi
  split; exact hi
  split; exact hi
  split; exact hi
  split; exact hi
  refine checkElected_views _ _ _ (hi.of_same ?_ rfl (Nat.le_refl _))
  show (w.n.store.storeVC vcm).pps = w.n.store.pps
  unfold Store.storeVC; split <;> rfl

theorem election_views (w : W) (h v : Nat) (hi : ViewsOK w.n) : ViewsOK (election w h v).n := by
  unfold election
  dsimp only
  split
  · exact hi
  have h0 : ViewsOK (initView w (wrap64 (w.n.view + 1))).1.n := initView_views _ _ hi
  generalize initView w (wrap64 (w.n.view + 1)) = r at h0 ⊢
  obtain ⟨w1, ok⟩ := r
  dsimp only at h0 ⊢
  split
  · exact h0
  · generalize VCMsg.mk _ _ = vc
    split
    · refine checkElected_views _ _ _ (h0.of_same ?_ rfl (Nat.le_refl _))
      show (w1.n.store.storeVC vc).pps = w1.n.store.pps
      unfold Store.storeVC; split <;> rfl
    · exact h0

theorem startTerm_views (w : W) (c : Bool) (hi : ViewsOK w.n) : ViewsOK (startTerm w c).n := by
  unfold startTerm
  dsimp only
  have hp : ViewsOK ({ w with n := { w.n with prepared := none } } : W).n := ⟨hi.pp, by intro pv h; cases h⟩
  have h0 : ViewsOK (initView { w with n := { w.n with prepared := none } } 0).1.n := initView_views _ _ hp
  obtain ⟨_, _, _, _, _, i6, _⟩ := initView_n { w with n := { w.n with prepared := none } } 0
  generalize initView { w with n := { w.n with prepared := none } } 0 = r at h0 i6 ⊢
  obtain ⟨w1, ok⟩ := r
  dsimp only at h0 i6 ⊢
  split
  · exact h0
  rename_i hok
  have hview : w1.n.view = 0 := (i6 (by simpa using hok)).1
  split
  · exact h0
  split
  · exact h0
  · obtain ⟨_, p2, p3, p4, _⟩ := askProposal_n w1 w1.n.cfg.height 0
    generalize askProposal w1 w1.n.cfg.height 0 = r2 at p2 p3 p4 ⊢
    obtain ⟨w2, ob⟩ := r2
    dsimp only at p2 p3 p4 ⊢
    have h2 : ViewsOK w2.n := h0.of_same (by rw [p2]) p4 (by rw [p3]; exact Nat.le_refl _)
    split
    · exact h2
    · rename_i b
      refine ⟨?_, h2.prep⟩
      intro p hp
      rcases mem_storePP (show p ∈ (w2.n.store.storePP _).pps from hp) with hp | rfl
      · exact h2.pp p hp
      · show 0 ≤ _
        exact Nat.zero_le _

end LeanHelix.Term
