import LeanHelix.Model.Term
/-!
# How each part of the term changes the node (helper lemmas)

Every mutation of the message log goes through `storePP / storePrepare / storeCommit / storeVC`.
`Evolves P w w'` says: `w'` has the same configuration as `w` and its log is obtained from `w`'s by
a sequence of such inserts, each of which satisfies `P` (a predicate that may look at the node
state at the moment of the insert).
-/
namespace LeanHelix.Term
open LeanHelix LeanHelix.Msg

inductive StoreOp where
  | pp (m : PPMsg)
  | prepare (m : PMsg)
  | commit (m : CMsg)
  | vc (m : VCMsg)
deriving Repr

def Store.apply (s : Store) : StoreOp → Store
  | .pp m => s.storePP m
  | .prepare m => s.storePrepare m
  | .commit m => s.storeCommit m
  | .vc m => s.storeVC m

/-- `w'` is reachable from `w` by inserts that all satisfy `P` (evaluated on the node before the
insert); the configuration never changes -/
inductive Evolves (P : Node → StoreOp → Prop) : Node → Node → Prop where
  | refl (n : Node) : Evolves P n n
  | other {n n' : Node} (h : n'.cfg = n.cfg ∧ n'.store = n.store) : Evolves P n n'
  | insert {n : Node} (op : StoreOp) (hP : P n op) : Evolves P n { n with store := n.store.apply op }
  | trans {a b c : Node} : Evolves P a b → Evolves P b c → Evolves P a c

theorem Evolves.cfg {P} {a b : Node} (h : Evolves P a b) : b.cfg = a.cfg := by
  induction h with
  | refl => rfl
  | other h => exact h.1
  | insert => rfl
  | trans _ _ ih1 ih2 => rw [ih2, ih1]

theorem Evolves.mono {P Q : Node → StoreOp → Prop} (hPQ : ∀ n op, P n op → Q n op) {a b : Node}
    (h : Evolves P a b) : Evolves Q a b := by
  induction h with
  | refl => exact .refl _
  | other h => exact .other h
  | insert op hP => exact .insert op (hPQ _ _ hP)
  | trans _ _ ih1 ih2 => exact .trans ih1 ih2

/-- an invariant of the log that every justified insert preserves is preserved by `Evolves` -/
theorem Evolves.preserves {P} (I : Node → Prop)
    (hother : ∀ n n' : Node, n'.cfg = n.cfg ∧ n'.store = n.store → I n → I n')
    (hins : ∀ n op, I n → P n op → I { n with store := n.store.apply op })
    {a b : Node} (h : Evolves P a b) (ha : I a) : I b := by
  induction h with
  | refl => exact ha
  | other h => exact hother _ _ h ha
  | insert op hP => exact hins _ op ha hP
  | trans _ _ ih1 ih2 => exact ih2 (ih1 ha)

/-! ### basic projections -/

theorem emit_n (w : W) (o : Out) : (w.emit o).n = w.n := rfl
theorem ctxFor_n (w : W) (h v : Nat) : (ctxFor w h v).1.n.cfg = w.n.cfg ∧ (ctxFor w h v).1.n.store = w.n.store
    ∧ (ctxFor w h v).1.n.view = w.n.view ∧ (ctxFor w h v).1.n.prepared = w.n.prepared
    ∧ (ctxFor w h v).1.n.committed = w.n.committed ∧ (ctxFor w h v).1.n.latestNV = w.n.latestNV := by
  unfold ctxFor; exact ⟨rfl, rfl, rfl, rfl, rfl, rfl⟩

theorem cancelMeanwhile_n (w : W) (c : Option Nat) : (cancelMeanwhile w c).n.cfg = w.n.cfg ∧ (cancelMeanwhile w c).n.store = w.n.store
    ∧ (cancelMeanwhile w c).n.view = w.n.view ∧ (cancelMeanwhile w c).n.prepared = w.n.prepared
    ∧ (cancelMeanwhile w c).n.committed = w.n.committed ∧ (cancelMeanwhile w c).n.latestNV = w.n.latestNV := by
  unfold cancelMeanwhile; split <;> exact ⟨rfl, rfl, rfl, rfl, rfl, rfl⟩

theorem initView_n (w : W) (v : Nat) : (initView w v).1.n.cfg = w.n.cfg ∧ (initView w v).1.n.store = w.n.store
    ∧ (initView w v).1.n.prepared = w.n.prepared ∧ (initView w v).1.n.committed = w.n.committed
    ∧ (initView w v).1.n.latestNV = w.n.latestNV
    ∧ ((initView w v).2 = true → (initView w v).1.n.view = v ∧ w.n.view ≤ v)
    ∧ ((initView w v).2 = false → (initView w v).1 = w) := by
  unfold initView
  split
  · exact ⟨rfl, rfl, rfl, rfl, rfl, (by intro h; cases h), (by intro _; rfl)⟩
  · rename_i h
    exact ⟨rfl, rfl, rfl, rfl, rfl, (by intro _; exact ⟨rfl, by omega⟩), (by intro h; cases h)⟩

theorem askValidate_n (w : W) (h v : Nat) (b : Option Block) (hash : Nat) :
    (askValidate w h v b hash).1.n.cfg = w.n.cfg ∧ (askValidate w h v b hash).1.n.store = w.n.store
    ∧ (askValidate w h v b hash).1.n.view = w.n.view ∧ (askValidate w h v b hash).1.n.prepared = w.n.prepared
    ∧ (askValidate w h v b hash).1.n.committed = w.n.committed ∧ (askValidate w h v b hash).1.n.latestNV = w.n.latestNV := by
  unfold askValidate
  dsimp only
  obtain ⟨c1, c2, c3, c4, c5, c6⟩ := ctxFor_n w h v
  split
  · exact ⟨c1, c2, c3, c4, c5, c6⟩
  · split
    · rename_i good cd rest _
      obtain ⟨d1, d2, d3, d4, d5, d6⟩ := cancelMeanwhile_n { ((ctxFor w h v).1.emit (Out.callValidate h b hash)) with spi := rest } cd
      exact ⟨d1.trans c1, d2.trans c2, d3.trans c3, d4.trans c4, d5.trans c5, d6.trans c6⟩
    · exact ⟨c1, c2, c3, c4, c5, c6⟩

theorem askProposal_n (w : W) (h v : Nat) :
    (askProposal w h v).1.n.cfg = w.n.cfg ∧ (askProposal w h v).1.n.store = w.n.store
    ∧ (askProposal w h v).1.n.view = w.n.view ∧ (askProposal w h v).1.n.prepared = w.n.prepared
    ∧ (askProposal w h v).1.n.committed = w.n.committed ∧ (askProposal w h v).1.n.latestNV = w.n.latestNV := by
  unfold askProposal
  dsimp only
  obtain ⟨c1, c2, c3, c4, c5, c6⟩ := ctxFor_n w h v
  split
  · exact ⟨c1, c2, c3, c4, c5, c6⟩
  · split
    · rename_i b cd rest _
      obtain ⟨d1, d2, d3, d4, d5, d6⟩ := cancelMeanwhile_n { ((ctxFor w h v).1.emit (Out.callRequest h)) with spi := rest } cd
      exact ⟨d1.trans c1, d2.trans c2, d3.trans c3, d4.trans c4, d5.trans c5, d6.trans c6⟩
    · exact ⟨c1, c2, c3, c4, c5, c6⟩

/-! ### the commit and prepare paths -/

/-- `checkCommitted` never touches the log, the view or the prepared flag -/
theorem checkCommitted_n (w : W) (h v hash : Nat) :
    (checkCommitted w h v hash).n.cfg = w.n.cfg ∧ (checkCommitted w h v hash).n.store = w.n.store
    ∧ (checkCommitted w h v hash).n.view = w.n.view ∧ (checkCommitted w h v hash).n.prepared = w.n.prepared
    ∧ (checkCommitted w h v hash).n.latestNV = w.n.latestNV := by
  unfold checkCommitted
  dsimp only
  split
  · exact ⟨rfl, rfl, rfl, rfl, rfl⟩
  split
  · exact ⟨rfl, rfl, rfl, rfl, rfl⟩
  split
  · exact ⟨rfl, rfl, rfl, rfl, rfl⟩
  split
  · exact ⟨rfl, rfl, rfl, rfl, rfl⟩
  · obtain ⟨c1, c2, c3, c4, _, c6⟩ := ctxFor_n w h maxView
    split
    · exact ⟨c1, c2, c3, c4, c6⟩
    · split
      · exact ⟨c1, c2, c3, c4, c6⟩
      · split <;> exact ⟨c1, c2, c3, c4, c6⟩


theorem onPreparedLocally_n (w : W) (h v hash : Nat) :
    (onPreparedLocally w h v hash).n.cfg = w.n.cfg
    ∧ (onPreparedLocally w h v hash).n.store = w.n.store.storeCommit (ownCommit w.n.cfg h v hash)
    ∧ (onPreparedLocally w h v hash).n.view = w.n.view ∧ (onPreparedLocally w h v hash).n.prepared = some v
    ∧ (onPreparedLocally w h v hash).n.latestNV = w.n.latestNV := by
  unfold onPreparedLocally
  dsimp only
  obtain ⟨c1, c2, c3, c4, c5⟩ := checkCommitted_n
    (({ w with n := { ({ w with n := { w.n with prepared := some v } } : W).n with
        store := w.n.store.storeCommit ⟨⟨tC, w.n.cfg.inst, h, v, hash⟩, mySig w.n.cfg, true⟩ } } : W).emit
      (.send (others w.n.cfg) (.commit ⟨⟨tC, w.n.cfg.inst, h, v, hash⟩, mySig w.n.cfg, true⟩))) h v hash
  exact ⟨c1, c2, c3, c4, c5⟩

/-- the conditions under which a node becomes prepared for (h, v, hash) -/
def PreparedCond (n : Node) (h v hash : Nat) : Prop :=
  n.prepared ≠ some v ∧ isPreprepared n h v hash = true ∧
  ∃ ppm, n.store.getPP h v = some ppm ∧
    isQuorum n.cfg ((n.store.getPrepares h v hash).map (·.sender.id) ++ [ppm.c.sender.id]) = true

theorem checkPreparedLocally_cases (w : W) (h v hash : Nat) :
    ((checkPreparedLocally w h v hash) = w) ∨
    (PreparedCond w.n h v hash ∧ checkPreparedLocally w h v hash = onPreparedLocally w h v hash) := by
  unfold checkPreparedLocally
  dsimp only
  split
  · exact Or.inl rfl
  · rename_i hp
    split
    · exact Or.inl rfl
    · rename_i hpp
      split
      · exact Or.inl rfl
      · rename_i ppm hget
        split
        · rename_i hq
          right
          refine ⟨⟨?_, by simpa using hpp, ppm, hget, hq⟩, rfl⟩
          intro e; rw [e] at hp; simp at hp
        · exact Or.inl rfl

end LeanHelix.Term

namespace LeanHelix.Term
open LeanHelix LeanHelix.Msg

/-- what justifies each insert into the message log -/
def J (n : Node) : StoreOp → Prop
  | .commit cm =>
      -- a received COMMIT that passed every check, or the node's own COMMIT on becoming prepared
      (cm.shareOk = true ∧ cm.header.mtype = tC ∧ isMember n.cfg cm.sender.id = true ∧ cm.sender.ok = true)
      ∨ (cm = ownCommit n.cfg cm.header.height cm.header.view cm.header.hash
          ∧ isPreprepared n cm.header.height cm.header.view cm.header.hash = true
          ∧ ∃ ppm, n.store.getPP cm.header.height cm.header.view = some ppm ∧
              isQuorum n.cfg ((n.store.getPrepares cm.header.height cm.header.view cm.header.hash).map (·.sender.id) ++ [ppm.c.sender.id]) = true)
  | .prepare pm =>
      (pm.header.mtype = tP ∧ isMember n.cfg pm.sender.id = true ∧ pm.sender.ok = true
          ∧ isLeader n.cfg pm.sender.id pm.header.view = false ∧ n.view ≤ pm.header.view)
      ∨ (pm = ownPrepare n.cfg pm.header.height pm.header.view pm.header.hash ∧ n.view = pm.header.view
          ∧ ∃ ppm, n.store.getPP pm.header.height pm.header.view = some ppm ∧ ppm.c.header.hash = pm.header.hash)
  | .pp ppm =>
      -- a received proposal (bare or inside a NEW_VIEW) that passed validatePreprepare in the node's current view
      (ppm.c.header.mtype = tPP ∧ ppm.c.sender.ok = true ∧ isLeader n.cfg ppm.c.sender.id ppm.c.header.view = true
          ∧ n.store.getPP ppm.c.header.height ppm.c.header.view = none ∧ n.view = ppm.c.header.view)
      -- or the node's own proposal as leader
      ∨ (ppm.c.sender = mySig n.cfg ∧ ppm.c.header.mtype = tPP ∧ ppm.c.header.inst = n.cfg.inst
          ∧ ppm.c.header.height = n.cfg.height ∧ ppm.block.isSome = true ∧ n.view = ppm.c.header.view
          ∧ isLeader n.cfg n.cfg.me ppm.c.header.view = true)
  | .vc vcm =>
      (isLeader n.cfg n.cfg.me vcm.c.header.view = true ∧ n.view ≤ vcm.c.header.view ∧ isViewChangeValid n vcm.c = true
          ∧ ¬ (vcm.block.isNone = true ∧ vcm.c.header.proof.isSome = true)
          ∧ (vcm.block.isSome = true → commitmentOk vcm.block (proofHash vcm.c.header.proof) = true))
      ∨ (vcm.c.sender = mySig n.cfg ∧ vcm.c.header.view = n.view ∧ isLeader n.cfg n.cfg.me n.view = true)

theorem ev_other {P} {a b : Node} (h1 : b.cfg = a.cfg) (h2 : b.store = a.store) : Evolves P a b := .other ⟨h1, h2⟩

theorem checkCommitted_ev (w : W) (h v hash : Nat) : Evolves J w.n (checkCommitted w h v hash).n := by
  obtain ⟨c1, c2, _⟩ := checkCommitted_n w h v hash
  exact ev_other c1 c2

theorem onPreparedLocally_ev (w : W) (h v hash : Nat)
    (hpre : isPreprepared w.n h v hash = true)
    (hq : ∃ ppm, w.n.store.getPP h v = some ppm ∧ isQuorum w.n.cfg ((w.n.store.getPrepares h v hash).map (·.sender.id) ++ [ppm.c.sender.id]) = true) :
    Evolves J w.n (onPreparedLocally w h v hash).n := by
  obtain ⟨c1, c2, _⟩ := onPreparedLocally_n w h v hash
  have step1 : Evolves J w.n { w.n with store := w.n.store.apply (.commit (ownCommit w.n.cfg h v hash)) } :=
    .insert (.commit (ownCommit w.n.cfg h v hash)) (Or.inr ⟨rfl, hpre, hq⟩)
  exact .trans step1 (ev_other c1 c2)

theorem checkPreparedLocally_ev (w : W) (h v hash : Nat) : Evolves J w.n (checkPreparedLocally w h v hash).n := by
  rcases checkPreparedLocally_cases w h v hash with e | ⟨⟨_, hpre, hq⟩, e⟩
  · rw [e]; exact .refl _
  · rw [e]; exact onPreparedLocally_ev w h v hash hpre hq

theorem handleCommit_ev (w : W) (cm : CMsg) : Evolves J w.n (handleCommit w cm).n := by
  unfold handleCommit
  dsimp only
  split; exact .refl _
  split; exact .refl _
  split; exact .refl _
  split; exact .refl _
  rename_i h0 h1 h2 h3
  refine .trans (.insert (.commit cm) (Or.inl ⟨by simpa using h0, by simpa using h1, by simpa using h2, by simpa using h3⟩)) ?_
  exact checkCommitted_ev { w with n := { w.n with store := w.n.store.storeCommit cm } } _ _ _

theorem handlePrepare_ev (w : W) (pm : PMsg) : Evolves J w.n (handlePrepare w pm).n := by
  unfold handlePrepare
  dsimp only
  split; exact .refl _
  split; exact .refl _
  split; exact .refl _
  split; exact .refl _
  split; exact .refl _
  rename_i h1 h2 h3 h4 h5
  refine .trans (.insert (.prepare pm) (Or.inl ⟨by simpa using h1, by simpa using h2, by simpa using h3, by simpa using h5, by omega⟩)) ?_
  exact checkPreparedLocally_ev { w with n := { w.n with store := w.n.store.storePrepare pm } } _ _ _

/-- adopting a proposal: the proposal and the node's own PREPARE are inserted, then the prepared check runs -/
theorem processPreprepare_ev (w : W) (ppm : PPMsg)
    (hj : w.n.view = ppm.c.header.view → J w.n (.pp ppm))
    (hnone : w.n.store.getPP ppm.c.header.height ppm.c.header.view = none) :
    Evolves J w.n (processPreprepare w ppm).n := by
  unfold processPreprepare
  dsimp only
  split
  · exact .refl _
  · rename_i hv
    have hv' : w.n.view = ppm.c.header.view := by simpa using hv
    let n1 : Node := { w.n with store := w.n.store.apply (.pp ppm) }
    have s1 : Evolves J w.n n1 := .insert (.pp ppm) (hj hv')
    have hget : n1.store.getPP ppm.c.header.height ppm.c.header.view = some ppm := by
      show (w.n.store.storePP ppm).getPP _ _ = some ppm
      unfold Store.storePP; rw [hnone]
      unfold Store.getPP at hnone ⊢
      simp only [List.find?_append, hnone, Option.none_or]
      simp
    have s2 : Evolves J n1 { n1 with store := n1.store.apply (.prepare (ownPrepare w.n.cfg ppm.c.header.height ppm.c.header.view ppm.c.header.hash)) } :=
      .insert _ (Or.inr ⟨rfl, hv', ppm, hget, rfl⟩)
    refine .trans (.trans s1 s2) ?_
    let st2 := (w.n.store.storePP ppm).storePrepare (ownPrepare w.n.cfg ppm.c.header.height ppm.c.header.view ppm.c.header.hash)
    exact checkPreparedLocally_ev (({ w with n := { w.n with store := st2 } } : W).emit _) _ _ _

theorem handlePrePrepare_ev (w : W) (ppm : PPMsg) : Evolves J w.n (handlePrePrepare w ppm).n := by
  unfold handlePrePrepare
  split
  · exact .refl _
  · rename_i hval
    have hval' : validatePreprepare w.n ppm = true := by simpa using hval
    unfold validatePreprepare at hval'
    simp only [Bool.and_eq_true, Option.isNone_iff_eq_none, beq_iff_eq] at hval'
    obtain ⟨⟨⟨hnone, ht⟩, hok⟩, hl⟩ := hval'
    split
    · exact .refl _
    dsimp only
    obtain ⟨a1, a2, a3, _⟩ := askValidate_n w ppm.c.header.height ppm.c.header.view ppm.block ppm.c.header.hash
    generalize askValidate w ppm.c.header.height ppm.c.header.view ppm.block ppm.c.header.hash = r at a1 a2 a3 ⊢
    obtain ⟨w1, ok⟩ := r
    dsimp only at a1 a2 a3 ⊢
    split
    · exact ev_other a1 a2
    · refine .trans (ev_other a1 a2) (processPreprepare_ev w1 ppm ?_ (by rw [a2]; exact hnone))
      intro hv
      exact Or.inl ⟨ht, hok, by rw [a1]; exact hl, by rw [a2]; exact hnone, hv⟩

end LeanHelix.Term

namespace LeanHelix.Term
open LeanHelix LeanHelix.Msg

theorem adoptNewView_ev (w : W) (nvm : NVMsg) : Evolves J w.n (adoptNewView w nvm).n := by
  have tail : ∀ (w1 : W) (ok : Bool), w1.n.cfg = w.n.cfg → w1.n.store = w.n.store →
      Evolves J w.n (if (!ok) = true then w1 else
        if (!validatePreprepare w1.n ⟨nvm.pp, nvm.block⟩) = true then w1 else
          if (!(initView { w1 with n := { w1.n with latestNV := nvm.header.view } } nvm.header.view).2) = true
          then (initView { w1 with n := { w1.n with latestNV := nvm.header.view } } nvm.header.view).1
          else processPreprepare (initView { w1 with n := { w1.n with latestNV := nvm.header.view } } nvm.header.view).1 ⟨nvm.pp, nvm.block⟩).n := by
    intro w1 ok a1 a2
    split
    · exact ev_other a1 a2
    · split
      · exact ev_other a1 a2
      · rename_i hval
        have hval' : validatePreprepare w1.n ⟨nvm.pp, nvm.block⟩ = true := by simpa using hval
        unfold validatePreprepare at hval'
        simp only [Bool.and_eq_true, Option.isNone_iff_eq_none, beq_iff_eq] at hval'
        obtain ⟨⟨⟨hnone, ht⟩, hok⟩, hl⟩ := hval'
        obtain ⟨i1, i2, _, _, _, i6, i7⟩ := initView_n { w1 with n := { w1.n with latestNV := nvm.header.view } } nvm.header.view
        generalize initView { w1 with n := { w1.n with latestNV := nvm.header.view } } nvm.header.view = r2 at i1 i2 i6 i7 ⊢
        obtain ⟨w2, ok2⟩ := r2
        dsimp only at i1 i2 i6 i7 ⊢
        have e1 : w2.n.cfg = w.n.cfg := by rw [i1]; exact a1
        have e2 : w2.n.store = w.n.store := by rw [i2]; exact a2
        split
        · exact ev_other e1 e2
        · refine .trans (ev_other e1 e2) (processPreprepare_ev w2 ⟨nvm.pp, nvm.block⟩ ?_ (by rw [i2]; exact hnone))
          intro hv
          exact Or.inl ⟨ht, hok, by rw [i1]; exact hl, by rw [i2]; exact hnone, hv⟩
  unfold adoptNewView
  by_cases hlv : (latestVote nvm.header.votes).isNone = true
  · simp only [hlv, if_true]
    obtain ⟨a1, a2, _⟩ := askValidate_n w nvm.header.height nvm.header.view nvm.block nvm.pp.header.hash
    exact tail _ _ a1 a2
  · simp only [hlv]
    exact tail w true rfl rfl

theorem handleNewView_ev (w : W) (nvm : NVMsg) : Evolves J w.n (handleNewView w nvm).n := by
  unfold handleNewView
  dsimp only
  split; exact .refl _
  split; exact .refl _
  split; exact .refl _
  split; exact .refl _
  split; exact .refl _
  split; exact .refl _
  split; exact .refl _
  split; exact .refl _
  split; exact .refl _
  exact adoptNewView_ev w nvm

theorem onElectedByViewChange_ev (w : W) (view : Nat) (vcs : List VCMsg)
    (hlead : isLeader w.n.cfg w.n.cfg.me view = true) :
    Evolves J w.n (onElectedByViewChange w view vcs).n := by
  unfold onElectedByViewChange
  dsimp only
  obtain ⟨i1, i2, _, _, _, i6, i7⟩ := initView_n { w with n := { w.n with latestNV := view } } view
  generalize initView { w with n := { w.n with latestNV := view } } view = r at i1 i2 i6 i7 ⊢
  obtain ⟨w1, ok⟩ := r
  dsimp only at i1 i2 i6 i7 ⊢
  have e1 : w1.n.cfg = w.n.cfg := i1
  have e2 : w1.n.store = w.n.store := i2
  split
  · exact ev_other e1 e2
  · rename_i hok
    have hview : w1.n.view = view := (i6 (by simpa using hok)).1
    have own : ∀ (w' : W) (b : Block) (hash : Nat), w'.n.cfg = w.n.cfg → w'.n.view = view →
        J w'.n (.pp ⟨⟨mkRef w'.n.cfg tPP view hash, mySig w'.n.cfg⟩, some b⟩) := by
      intro w' b hash hc hv
      exact Or.inr ⟨rfl, rfl, rfl, rfl, rfl, hv, by rw [hc]; exact hlead⟩
    split
    · rename_i b hash _
      refine .trans (ev_other e1 e2) ?_
      exact .insert (.pp ⟨⟨mkRef w1.n.cfg tPP view hash, mySig w1.n.cfg⟩, some b⟩) (own w1 b hash e1 hview)
    · obtain ⟨p1, p2, p3, _⟩ := askProposal_n w1 w1.n.cfg.height view
      generalize askProposal w1 w1.n.cfg.height view = r2 at p1 p2 p3 ⊢
      obtain ⟨w2, ob⟩ := r2
      dsimp only at p1 p2 p3 ⊢
      have f1 : w2.n.cfg = w.n.cfg := by rw [p1]; exact e1
      have f2 : w2.n.store = w.n.store := by rw [p2]; exact e2
      split
      · rename_i b
        refine .trans (ev_other f1 f2) ?_
        exact .insert (.pp ⟨⟨mkRef w2.n.cfg tPP view b.hash, mySig w2.n.cfg⟩, some b⟩) (own w2 b b.hash f1 (by rw [p3]; exact hview))
      · exact ev_other f1 f2

theorem checkElected_ev (w : W) (h view : Nat) (hlead : isLeader w.n.cfg w.n.cfg.me view = true) :
    Evolves J w.n (checkElected w h view).n := by
  unfold checkElected
  dsimp only
  split; exact .refl _
  split; exact .refl _
  split; exact .refl _
  exact onElectedByViewChange_ev w view _ hlead

theorem handleViewChange_ev (w : W) (vcm : VCMsg) : Evolves J w.n (handleViewChange w vcm).n := by
  unfold handleViewChange
  dsimp only
  split; exact .refl _
  split; exact .refl _
  split; exact .refl _
  split; exact .refl _
  split; exact .refl _
  rename_i h1 h2 h3 h4 h5
  have h1' : isLeader w.n.cfg w.n.cfg.me vcm.c.header.view = true := by simpa using h1
  refine .trans (.insert (.vc vcm) (Or.inl ⟨h1', by omega, by simpa using h3, ?_, ?_⟩)) ?_
  · intro hc; simp [hc.1, hc.2] at h4
  · intro hs
    cases hcm : commitmentOk vcm.block (proofHash vcm.c.header.proof) with
    | true => rfl
    | false => simp [hs, hcm] at h5
  · exact checkElected_ev { w with n := { w.n with store := w.n.store.storeVC vcm } } _ _ h1'

theorem election_ev (w : W) (h v : Nat) : Evolves J w.n (election w h v).n := by
  unfold election
  dsimp only
  split
  · exact .refl _
  obtain ⟨i1, i2, _, _, _, i6, i7⟩ := initView_n w (wrap64 (w.n.view + 1))
  generalize initView w (wrap64 (w.n.view + 1)) = r at i1 i2 i6 i7 ⊢
  obtain ⟨w1, ok⟩ := r
  dsimp only at i1 i2 i6 i7 ⊢
  split
  · exact ev_other i1 i2
  · rename_i hok
    have hview : w1.n.view = wrap64 (w.n.view + 1) := (i6 (by simpa using hok)).1
    generalize hvc : VCMsg.mk _ _ = vc
    have hvc1 : vc.c.sender = mySig w1.n.cfg := by rw [← hvc]
    have hvc2 : vc.c.header.view = w1.n.view := by rw [← hvc]; exact hview.symm
    split
    · rename_i hl
      refine .trans (ev_other i1 i2) (.trans (.insert (.vc vc) (Or.inr ⟨hvc1, hvc2, by rw [hview]; exact hl⟩)) ?_)
      exact checkElected_ev { w1 with n := { w1.n with store := w1.n.store.storeVC vc } } _ _ hl
    · exact ev_other i1 i2

theorem startTerm_ev (w : W) (c : Bool) (_hv0 : w.n.view = 0) : Evolves J w.n (startTerm w c).n := by
  unfold startTerm
  dsimp only
  obtain ⟨i1, i2, _, _, _, i6, i7⟩ := initView_n { w with n := { w.n with prepared := none } } 0
  generalize initView { w with n := { w.n with prepared := none } } 0 = r at i1 i2 i6 i7 ⊢
  obtain ⟨w1, ok⟩ := r
  dsimp only at i1 i2 i6 i7 ⊢
  have e1 : w1.n.cfg = w.n.cfg := i1
  have e2 : w1.n.store = w.n.store := i2
  split
  · exact ev_other e1 e2
  rename_i hok
  have hview : w1.n.view = 0 := (i6 (by simpa using hok)).1
  split
  · exact ev_other e1 e2
  split
  · exact ev_other e1 e2
  · rename_i hl
    have hl' : isLeader w1.n.cfg w1.n.cfg.me 0 = true := by simpa using hl
    obtain ⟨p1, p2, p3, _⟩ := askProposal_n w1 w1.n.cfg.height 0
    generalize askProposal w1 w1.n.cfg.height 0 = r2 at p1 p2 p3 ⊢
    obtain ⟨w2, ob⟩ := r2
    dsimp only at p1 p2 p3 ⊢
    have f1 : w2.n.cfg = w.n.cfg := by rw [p1]; exact e1
    have f2 : w2.n.store = w.n.store := by rw [p2]; exact e2
    split
    · exact ev_other f1 f2
    · rename_i b
      refine .trans (ev_other f1 f2) ?_
      exact .insert (.pp ⟨⟨mkRef w2.n.cfg tPP 0 b.hash, mySig w2.n.cfg⟩, some b⟩)
        (Or.inr ⟨rfl, rfl, rfl, rfl, rfl, by rw [p3]; exact hview, by rw [p1]; exact hl'⟩)

/-- **every event changes the message log only by justified inserts, and never changes the configuration** -/
theorem step_ev (n : Node) (e : Event) (spi : List Spi) (hstart : ∀ c, e = .start c → n.view = 0) :
    Evolves J n (step n e spi).1 := by
  cases e with
  | start c => exact startTerm_ev { n := n, spi := spi } c (hstart c rfl)
  | election h v => exact election_ev { n := n, spi := spi } h v
  | cancelOlder h v => exact ev_other rfl rfl
  | deliver m =>
    cases m with
    | preprepare m => exact handlePrePrepare_ev { n := n, spi := spi } m
    | prepare m => exact handlePrepare_ev { n := n, spi := spi } m
    | commit m => exact handleCommit_ev { n := n, spi := spi } m
    | viewChange m => exact handleViewChange_ev { n := n, spi := spi } m
    | newView m => exact handleNewView_ev { n := n, spi := spi } m

end LeanHelix.Term

namespace LeanHelix.Term
open LeanHelix LeanHelix.Msg

theorem storePP_getPP_stable (s : Store) (m : PPMsg) (h v : Nat) (p : PPMsg) (hp : s.getPP h v = some p) :
    (s.storePP m).getPP h v = some p := by
  unfold Store.storePP
  split
  · exact hp
  · unfold Store.getPP at hp ⊢
    simp only [List.find?_append, hp, Option.some_or]

theorem apply_getPP_stable (s : Store) (op : StoreOp) (h v : Nat) (p : PPMsg) (hp : s.getPP h v = some p) :
    (s.apply op).getPP h v = some p := by
  cases op with
  | pp m => exact storePP_getPP_stable s m h v p hp
  | prepare m =>
    show (s.storePrepare m).getPP h v = some p
    unfold Store.storePrepare; split <;> exact hp
  | commit m =>
    show (s.storeCommit m).getPP h v = some p
    unfold Store.storeCommit; split <;> exact hp
  | vc m =>
    show (s.storeVC m).getPP h v = some p
    unfold Store.storeVC; split <;> exact hp

/-- **first-wins**: once a proposal is stored for (height, view) it is the stored proposal forever -/
theorem Evolves.getPP_stable {P} {a b : Node} (hev : Evolves P a b) (h v : Nat) (p : PPMsg)
    (hp : a.store.getPP h v = some p) : b.store.getPP h v = some p := by
  induction hev with
  | refl => exact hp
  | other hh => rw [hh.2]; exact hp
  | insert op _ => exact apply_getPP_stable _ op h v p hp
  | trans _ _ ih1 ih2 => exact ih2 (ih1 hp)

end LeanHelix.Term
