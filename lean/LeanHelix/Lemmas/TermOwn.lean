import LeanHelix.Lemmas.TermClean
/-!
# A node's own PREPAREs are only for views it does not lead

`OwnNL n op`: if `op` inserts a PREPARE signed by this node, this node is not the leader of that
PREPARE's view.  Received PREPAREs are never this node's own (the worker drops its own messages);
the node creates a PREPARE only when adopting a proposal signed by the leader of its view, who is
not this node (again because own messages are dropped).  Hence the invariant `OwnPreparesNL`.
-/
namespace LeanHelix.Term
open LeanHelix LeanHelix.Msg

def OwnNL (n : Node) : StoreOp → Prop
  | .prepare pm => pm.sender = mySig n.cfg → isLeader n.cfg n.cfg.me pm.header.view = false
  | _ => True

/-- every own PREPARE in the log is for a view this node does not lead -/
def OwnPreparesNL (n : Node) : Prop :=
  ∀ pm ∈ n.store.prepares, pm.sender = mySig n.cfg → isLeader n.cfg n.cfg.me pm.header.view = false

theorem ownPreparesNL_init (c : Cfg) : OwnPreparesNL { cfg := c } := by intro pm h; cases h

theorem ownPreparesNL_evolves {a b : Node} (h : Evolves OwnNL a b) (ha : OwnPreparesNL a) : OwnPreparesNL b := by
  refine Evolves.preserves OwnPreparesNL ?_ ?_ h ha
  · intro n n' hh hi
    unfold OwnPreparesNL; rw [hh.1, hh.2]; exact hi
  · intro n op hi hp
    cases op with
    | prepare m =>
      intro x hx
      rcases mem_storePrepare (show x ∈ (n.store.storePrepare m).prepares from hx) with hx | rfl
      · exact hi x hx
      · exact hp
    | pp m =>
      intro x hx
      have : (n.store.storePP m).prepares = n.store.prepares := by unfold Store.storePP; split <;> rfl
      exact hi x (by rw [← this]; exact hx)
    | commit m =>
      intro x hx
      have : (n.store.storeCommit m).prepares = n.store.prepares := by unfold Store.storeCommit; split <;> rfl
      exact hi x (by rw [← this]; exact hx)
    | vc m =>
      intro x hx
      have : (n.store.storeVC m).prepares = n.store.prepares := by unfold Store.storeVC; split <;> rfl
      exact hi x (by rw [← this]; exact hx)

/-! ## every handler inserts received PREPAREs (never this node's own) and own PREPAREs only when it adopts another member's proposal -/

theorem checkCommitted_evN (w : W) (h v hash : Nat) : Evolves OwnNL w.n (checkCommitted w h v hash).n := by
  obtain ⟨c1, c2, _⟩ := checkCommitted_n w h v hash
  exact ev_other c1 c2

theorem onPreparedLocally_evN (w : W) (h v hash : Nat) : Evolves OwnNL w.n (onPreparedLocally w h v hash).n := by
  obtain ⟨c1, c2, _⟩ := onPreparedLocally_n w h v hash
  have step1 : Evolves OwnNL w.n { w.n with store := w.n.store.apply (.commit (ownCommit w.n.cfg h v hash)) } :=
    .insert (.commit (ownCommit w.n.cfg h v hash)) trivial
  exact .trans step1 (ev_other c1 c2)

theorem checkPreparedLocally_evN (w : W) (h v hash : Nat) : Evolves OwnNL w.n (checkPreparedLocally w h v hash).n := by
  rcases checkPreparedLocally_cases w h v hash with e | ⟨_, e⟩
  · rw [e]; exact .refl _
  · rw [e]; exact onPreparedLocally_evN w h v hash

theorem handleCommit_evN (w : W) (cm : CMsg) : Evolves OwnNL w.n (handleCommit w cm).n := by
  unfold handleCommit
  dsimp only
  split; exact .refl _
  split; exact .refl _
  split; exact .refl _
  split; exact .refl _
  refine .trans (.insert (.commit cm) trivial) ?_
  exact checkCommitted_evN { w with n := { w.n with store := w.n.store.storeCommit cm } } _ _ _

/-- a received PREPARE is not from this node (the worker drops the node's own messages) -/
theorem handlePrepare_evN (w : W) (pm : PMsg) (hs : pm.sender.id ≠ w.n.cfg.me) : Evolves OwnNL w.n (handlePrepare w pm).n := by
  unfold handlePrepare
  dsimp only
  split; exact .refl _
  split; exact .refl _
  split; exact .refl _
  split; exact .refl _
  split; exact .refl _
  refine .trans (.insert (.prepare pm) ?_) ?_
  · intro he
    exfalso; apply hs
    rw [he]; rfl
  · exact checkPreparedLocally_evN { w with n := { w.n with store := w.n.store.storePrepare pm } } _ _ _

/-- adopting a proposal of a view this node does not lead -/
theorem processPreprepare_evN (w : W) (ppm : PPMsg) (hnl : isLeader w.n.cfg w.n.cfg.me ppm.c.header.view = false) :
    Evolves OwnNL w.n (processPreprepare w ppm).n := by
  unfold processPreprepare
  dsimp only
  split
  · exact .refl _
  · let n1 : Node := { w.n with store := w.n.store.apply (.pp ppm) }
    have s1 : Evolves OwnNL w.n n1 := .insert (.pp ppm) trivial
    have s2 : Evolves OwnNL n1 { n1 with store := n1.store.apply (.prepare (ownPrepare w.n.cfg ppm.c.header.height ppm.c.header.view ppm.c.header.hash)) } :=
      .insert _ (fun _ => hnl)
    refine .trans (.trans s1 s2) ?_
    let st2 := (w.n.store.storePP ppm).storePrepare (ownPrepare w.n.cfg ppm.c.header.height ppm.c.header.view ppm.c.header.hash)
    exact checkPreparedLocally_evN (({ w with n := { w.n with store := st2 } } : W).emit _) _ _ _

/-- a proposal that passes `validatePreprepare` is signed by the leader of its view; if that is not this node, this node does not lead the view -/
theorem not_leader_of_validated (n : Node) (ppm : PPMsg) (hv : validatePreprepare n ppm = true) (hs : ppm.c.sender.id ≠ n.cfg.me) :
    isLeader n.cfg n.cfg.me ppm.c.header.view = false := by
  unfold validatePreprepare at hv
  simp only [Bool.and_eq_true, beq_iff_eq] at hv
  have hl := hv.2
  unfold isLeader at hl ⊢
  simp only [beq_iff_eq] at hl
  cases hb : (leaderId n.cfg ppm.c.header.view == n.cfg.me) with
  | false => rfl
  | true =>
    exfalso; apply hs
    have : leaderId n.cfg ppm.c.header.view = n.cfg.me := by simpa using hb
    rw [← hl, this]

theorem handlePrePrepare_evN (w : W) (ppm : PPMsg) (hs : ppm.c.sender.id ≠ w.n.cfg.me) :
    Evolves OwnNL w.n (handlePrePrepare w ppm).n := by
  unfold handlePrePrepare
  split
  · exact .refl _
  rename_i hval
  have hval' : validatePreprepare w.n ppm = true := by simpa using hval
  have hnl := not_leader_of_validated w.n ppm hval' hs
  split
  · exact .refl _
  dsimp only
  obtain ⟨a1, a2, _⟩ := askValidate_n w ppm.c.header.height ppm.c.header.view ppm.block ppm.c.header.hash
  generalize askValidate w ppm.c.header.height ppm.c.header.view ppm.block ppm.c.header.hash = r at a1 a2 ⊢
  obtain ⟨w1, ok⟩ := r
  dsimp only at a1 a2 ⊢
  split
  · exact ev_other a1 a2
  · exact .trans (ev_other a1 a2) (processPreprepare_evN w1 ppm (by rw [a1]; exact hnl))

theorem adoptNewView_evN (w : W) (nvm : NVMsg) (hs : nvm.pp.sender.id ≠ w.n.cfg.me) :
    Evolves OwnNL w.n (adoptNewView w nvm).n := by
  have tail : ∀ (w1 : W) (ok : Bool), w1.n.cfg = w.n.cfg → w1.n.store = w.n.store →
      Evolves OwnNL w.n (if (!ok) = true then w1 else
        if (!validatePreprepare w1.n ⟨nvm.pp, nvm.block⟩) = true then w1 else
          if (!(initView { w1 with n := { w1.n with latestNV := nvm.header.view } } nvm.header.view).2) = true
          then (initView { w1 with n := { w1.n with latestNV := nvm.header.view } } nvm.header.view).1
          else processPreprepare (initView { w1 with n := { w1.n with latestNV := nvm.header.view } } nvm.header.view).1 ⟨nvm.pp, nvm.block⟩).n := by
    intro w1 ok a1 a2
    split
    · exact ev_other a1 a2
    · split
      · exact ev_other a1 a2
      · rename_i hval
        have hval' : validatePreprepare w1.n ⟨nvm.pp, nvm.block⟩ = true := by simpa using hval
        have hnl := not_leader_of_validated w1.n ⟨nvm.pp, nvm.block⟩ hval' (by rw [a1]; exact hs)
        obtain ⟨i1, i2, _⟩ := initView_n { w1 with n := { w1.n with latestNV := nvm.header.view } } nvm.header.view
        generalize initView { w1 with n := { w1.n with latestNV := nvm.header.view } } nvm.header.view = r2 at i1 i2 ⊢
        obtain ⟨w2, ok2⟩ := r2
        dsimp only at i1 i2 ⊢
        have e1 : w2.n.cfg = w.n.cfg := by rw [i1]; exact a1
        have e2 : w2.n.store = w.n.store := by rw [i2]; exact a2
        split
        · exact ev_other e1 e2
        · refine .trans (ev_other e1 e2) (processPreprepare_evN w2 ⟨nvm.pp, nvm.block⟩ ?_)
          rw [e1, ← a1]; exact hnl
  unfold adoptNewView
  by_cases hlv : (latestVote nvm.header.votes).isNone = true
  · simp only [hlv, if_true]
    obtain ⟨a1, a2, _⟩ := askValidate_n w nvm.header.height nvm.header.view nvm.block nvm.pp.header.hash
    exact tail _ _ a1 a2
  · simp only [hlv]
    exact tail w true rfl rfl

/-- NEW_VIEW: its sender is the leader of its view (checked) and is not this node (worker filter), so this node does not lead that view -/
theorem handleNewView_evN (w : W) (nvm : NVMsg) (hs : nvm.sender.id ≠ w.n.cfg.me) :
    Evolves OwnNL w.n (handleNewView w nvm).n := by
  unfold handleNewView
  dsimp only
  split; exact .refl _
  split; exact .refl _
  split; exact .refl _
  split; exact .refl _
  split; exact .refl _
  split; exact .refl _
  split; exact .refl _
  split; exact .refl _
  split; exact .refl _
  rename_i _ _ _ g4 _ g6 _ _ _
  -- the embedded proposal, if it validates, is signed by the leader of the NEW_VIEW's view = the NEW_VIEW's sender
  have hlead : isLeader w.n.cfg nvm.sender.id nvm.header.view = true := by simpa using g4
  have hview : nvm.pp.header.view = nvm.header.view := by simpa using g6
  by_cases hpp : nvm.pp.sender.id = w.n.cfg.me
  · -- then the proposal cannot validate (its signer would have to be the leader, which is the NEW_VIEW's sender, not this node)
    have hfail : ∀ (n : Node), n.cfg = w.n.cfg → validatePreprepare n ⟨nvm.pp, nvm.block⟩ = false := by
      intro n hc
      cases hv : validatePreprepare n ⟨nvm.pp, nvm.block⟩ with
      | false => rfl
      | true =>
        exfalso
        unfold validatePreprepare at hv
        simp only [Bool.and_eq_true, beq_iff_eq] at hv
        have hl := hv.2
        unfold isLeader at hl hlead
        simp only [beq_iff_eq] at hl hlead
        apply hs
        have h1 : leaderId w.n.cfg nvm.header.view = nvm.pp.sender.id := by
          rw [← hview, ← hc]; exact hl
        rw [← hlead, h1, hpp]
    -- so adoptNewView stops before adopting
    unfold adoptNewView
    dsimp only
    have tail : ∀ (w1 : W) (ok : Bool), w1.n.cfg = w.n.cfg → w1.n.store = w.n.store →
        Evolves OwnNL w.n (if (!ok) = true then w1 else
          if (!validatePreprepare w1.n ⟨nvm.pp, nvm.block⟩) = true then w1 else
            if (!(initView { w1 with n := { w1.n with latestNV := nvm.header.view } } nvm.header.view).2) = true
            then (initView { w1 with n := { w1.n with latestNV := nvm.header.view } } nvm.header.view).1
            else processPreprepare (initView { w1 with n := { w1.n with latestNV := nvm.header.view } } nvm.header.view).1 ⟨nvm.pp, nvm.block⟩).n := by
      intro w1 ok a1 a2
      split
      · exact ev_other a1 a2
      · rw [hfail w1.n a1]
        simp only [Bool.not_false, if_true]
        exact ev_other a1 a2
    by_cases hlv : (latestVote nvm.header.votes).isNone = true
    · simp only [hlv, if_true]
      obtain ⟨a1, a2, _⟩ := askValidate_n w nvm.header.height nvm.header.view nvm.block nvm.pp.header.hash
      exact tail _ _ a1 a2
    · simp only [hlv]
      exact tail w true rfl rfl
  · exact adoptNewView_evN w nvm hpp

theorem onElectedByViewChange_evN (w : W) (view : Nat) (vcs : List VCMsg) :
    Evolves OwnNL w.n (onElectedByViewChange w view vcs).n := by
  unfold onElectedByViewChange
  dsimp only
  obtain ⟨i1, i2, _⟩ := initView_n { w with n := { w.n with latestNV := view } } view
  generalize initView { w with n := { w.n with latestNV := view } } view = r at i1 i2 ⊢
  obtain ⟨w1, ok⟩ := r
  dsimp only at i1 i2 ⊢
  have e1 : w1.n.cfg = w.n.cfg := i1
  have e2 : w1.n.store = w.n.store := i2
  split
  · exact ev_other e1 e2
  · split
    · rename_i b hash _
      refine .trans (ev_other e1 e2) ?_
      exact .insert (.pp ⟨⟨mkRef w1.n.cfg tPP view hash, mySig w1.n.cfg⟩, some b⟩) trivial
    · obtain ⟨p1, p2, _⟩ := askProposal_n w1 w1.n.cfg.height view
      generalize askProposal w1 w1.n.cfg.height view = r2 at p1 p2 ⊢
      obtain ⟨w2, ob⟩ := r2
      dsimp only at p1 p2 ⊢
      have f1 : w2.n.cfg = w.n.cfg := by rw [p1]; exact e1
      have f2 : w2.n.store = w.n.store := by rw [p2]; exact e2
      split
      · rename_i b
        refine .trans (ev_other f1 f2) ?_
        exact .insert (.pp ⟨⟨mkRef w2.n.cfg tPP view b.hash, mySig w2.n.cfg⟩, some b⟩) trivial
      · exact ev_other f1 f2

theorem checkElected_evN (w : W) (h view : Nat) : Evolves OwnNL w.n (checkElected w h view).n := by
  unfold checkElected
  dsimp only
  split; exact .refl _
  split; exact .refl _
  split; exact .refl _
  exact onElectedByViewChange_evN w view _

theorem handleViewChange_evN (w : W) (vcm : VCMsg) : Evolves OwnNL w.n (handleViewChange w vcm).n := by
  unfold handleViewChange
  dsimp only
  split; exact .refl _
  split; exact .refl _
  split; exact .refl _
  split; exact .refl _
  split; exact .refl _
  refine .trans (.insert (.vc vcm) trivial) ?_
  exact checkElected_evN { w with n := { w.n with store := w.n.store.storeVC vcm } } _ _

theorem election_evN (w : W) (h v : Nat) : Evolves OwnNL w.n (election w h v).n := by
  unfold election
  dsimp only
  split
  · exact .refl _
  obtain ⟨i1, i2, _⟩ := initView_n w (wrap64 (w.n.view + 1))
  generalize initView w (wrap64 (w.n.view + 1)) = r at i1 i2 ⊢
  obtain ⟨w1, ok⟩ := r
  dsimp only at i1 i2 ⊢
  split
  · exact ev_other i1 i2
  · generalize VCMsg.mk _ _ = vc
    split
    · refine .trans (ev_other i1 i2) (.trans (.insert (.vc vc) trivial) ?_)
      exact checkElected_evN { w1 with n := { w1.n with store := w1.n.store.storeVC vc } } _ _
    · exact ev_other i1 i2

theorem startTerm_evN (w : W) (c : Bool) : Evolves OwnNL w.n (startTerm w c).n := by
  unfold startTerm
  dsimp only
  obtain ⟨i1, i2, _⟩ := initView_n { w with n := { w.n with prepared := none } } 0
  generalize initView { w with n := { w.n with prepared := none } } 0 = r at i1 i2 ⊢
  obtain ⟨w1, ok⟩ := r
  dsimp only at i1 i2 ⊢
  have e1 : w1.n.cfg = w.n.cfg := i1
  have e2 : w1.n.store = w.n.store := i2
  split
  · exact ev_other e1 e2
  split
  · exact ev_other e1 e2
  split
  · exact ev_other e1 e2
  · obtain ⟨p1, p2, _⟩ := askProposal_n w1 w1.n.cfg.height 0
    generalize askProposal w1 w1.n.cfg.height 0 = r2 at p1 p2 ⊢
    obtain ⟨w2, ob⟩ := r2
    dsimp only at p1 p2 ⊢
    have f1 : w2.n.cfg = w.n.cfg := by rw [p1]; exact e1
    have f2 : w2.n.store = w.n.store := by rw [p2]; exact e2
    split
    · exact ev_other f1 f2
    · rename_i b
      refine .trans (ev_other f1 f2) ?_
      exact .insert (.pp ⟨⟨mkRef w2.n.cfg tPP 0 b.hash, mySig w2.n.cfg⟩, some b⟩) trivial

end LeanHelix.Term
