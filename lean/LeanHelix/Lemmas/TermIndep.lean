import LeanHelix.Model.Term
/-!
# The node part of the PREPARE / COMMIT handlers does not depend on the effects emitted so far

`handlePrepare` and `handleCommit` read nothing but the node (`w.n`): neither the SPI answers nor the
effect list.  So a handler applied to an accumulated `W` (as in the fold-style theorems of C05) and
`Term.step` applied to the node alone (as in the network model) reach the same node state.
-/
namespace LeanHelix.Term
open LeanHelix LeanHelix.Msg

/-- the same node, no effects yet, no SPI answers -/
def fresh (w : W) : W := { n := w.n, spi := [], outs := [] }

theorem checkCommitted_fresh (w : W) (h v hash : Nat) :
    (checkCommitted w h v hash).n = (checkCommitted (fresh w) h v hash).n := by
  unfold checkCommitted fresh
  dsimp only
  by_cases c1 : w.n.committed.isSome = true
  · simp only [c1, if_true]
  simp only [c1, Bool.false_eq_true, if_false]
  by_cases c2 : (!isPreprepared w.n h v hash) = true
  · simp only [c2, if_true]
  simp only [c2, Bool.false_eq_true, if_false]
  by_cases c3 : (!isQuorum w.n.cfg ((w.n.store.getCommits h v hash).map (·.sender.id))) = true
  · simp only [c3, if_true]
  simp only [c3, Bool.false_eq_true, if_false]
  cases hg : w.n.store.getPP h v with
  | none => rfl
  | some ppm =>
    dsimp only
    unfold ctxFor
    dsimp only
    split
    · rfl
    · cases hb : ppm.block with
      | none => rfl
      | some b =>
        dsimp only
        split <;> rfl

theorem onPreparedLocally_fresh (w : W) (h v hash : Nat) :
    (onPreparedLocally w h v hash).n = (onPreparedLocally (fresh w) h v hash).n := by
  unfold onPreparedLocally
  dsimp only
  rw [checkCommitted_fresh]
  conv => rhs; rw [checkCommitted_fresh]
  rfl

theorem checkPreparedLocally_fresh (w : W) (h v hash : Nat) :
    (checkPreparedLocally w h v hash).n = (checkPreparedLocally (fresh w) h v hash).n := by
  unfold checkPreparedLocally
  show _ = (if (fresh w).n.prepared == some v then _ else _ : W).n
  have e : (fresh w).n = w.n := rfl
  simp only [e]
  split
  · rfl
  split
  · rfl
  cases hg : w.n.store.getPP h v with
  | none => rfl
  | some ppm =>
    dsimp only
    split
    · exact onPreparedLocally_fresh w h v hash
    · rfl

theorem handlePrepare_fresh (w : W) (pm : PMsg) : (handlePrepare w pm).n = (handlePrepare (fresh w) pm).n := by
  unfold handlePrepare
  have e : (fresh w).n = w.n := rfl
  simp only [e]
  split; rfl
  split; rfl
  split; rfl
  split; rfl
  split; rfl
  rw [checkPreparedLocally_fresh]
  conv => rhs; rw [checkPreparedLocally_fresh]
  rfl

theorem handleCommit_fresh (w : W) (cm : CMsg) : (handleCommit w cm).n = (handleCommit (fresh w) cm).n := by
  unfold handleCommit
  have e : (fresh w).n = w.n := rfl
  simp only [e]
  split; rfl
  split; rfl
  split; rfl
  split; rfl
  rw [checkCommitted_fresh]
  conv => rhs; rw [checkCommitted_fresh]
  rfl

/-- the node after delivering a list of PREPAREs one `Term.step` at a time (each with its own SPI answers) -/
theorem foldl_handlePrepare_fresh (pms : List PMsg) : ∀ (w : W),
    (pms.foldl handlePrepare w).n = pms.foldl (fun n pm => (handlePrepare { n := n, spi := [] } pm).n) w.n := by
  induction pms with
  | nil => intro w; rfl
  | cons pm rest ih =>
    intro w
    simp only [List.foldl_cons]
    rw [ih (handlePrepare w pm), handlePrepare_fresh]
    rfl

theorem foldl_handleCommit_fresh (cms : List CMsg) : ∀ (w : W),
    (cms.foldl handleCommit w).n = cms.foldl (fun n cm => (handleCommit { n := n, spi := [] } cm).n) w.n := by
  induction cms with
  | nil => intro w; rfl
  | cons cm rest ih =>
    intro w
    simp only [List.foldl_cons]
    rw [ih (handleCommit w cm), handleCommit_fresh]
    rfl

/-- SPI answers are not read either -/
theorem handlePrepare_spi (n : Node) (spi : List Spi) (pm : PMsg) :
    (handlePrepare { n := n, spi := spi } pm).n = (handlePrepare { n := n, spi := [] } pm).n := by
  rw [handlePrepare_fresh]; rfl

theorem handleCommit_spi (n : Node) (spi : List Spi) (cm : CMsg) :
    (handleCommit { n := n, spi := spi } cm).n = (handleCommit { n := n, spi := [] } cm).n := by
  rw [handleCommit_fresh]; rfl

/-! ## and the effects of a call are appended to those before it -/

theorem checkCommitted_outs (w : W) (h v hash : Nat) :
    (checkCommitted w h v hash).outs = w.outs ++ (checkCommitted (fresh w) h v hash).outs := by
  unfold checkCommitted fresh
  dsimp only
  by_cases c1 : w.n.committed.isSome = true
  · simp only [c1, if_true, List.append_nil]
  simp only [c1, Bool.false_eq_true, if_false]
  by_cases c2 : (!isPreprepared w.n h v hash) = true
  · simp only [c2, if_true, List.append_nil]
  simp only [c2, Bool.false_eq_true, if_false]
  by_cases c3 : (!isQuorum w.n.cfg ((w.n.store.getCommits h v hash).map (·.sender.id))) = true
  · simp only [c3, if_true, List.append_nil]
  simp only [c3, Bool.false_eq_true, if_false]
  cases hg : w.n.store.getPP h v with
  | none => simp
  | some ppm =>
    dsimp only
    unfold ctxFor
    dsimp only
    split
    · simp
    · cases hb : ppm.block with
      | none => simp
      | some b =>
        dsimp only
        split <;> simp [W.emit]

theorem onPreparedLocally_outs (w : W) (h v hash : Nat) :
    (onPreparedLocally w h v hash).outs = w.outs ++ (onPreparedLocally (fresh w) h v hash).outs := by
  unfold onPreparedLocally
  dsimp only
  rw [checkCommitted_outs]
  conv => rhs; rw [checkCommitted_outs]
  simp [W.emit, fresh]

theorem checkPreparedLocally_outs (w : W) (h v hash : Nat) :
    (checkPreparedLocally w h v hash).outs = w.outs ++ (checkPreparedLocally (fresh w) h v hash).outs := by
  unfold checkPreparedLocally
  show _ = w.outs ++ (if (fresh w).n.prepared == some v then _ else _ : W).outs
  have e : (fresh w).n = w.n := rfl
  simp only [e]
  split
  · simp [fresh]
  split
  · simp [fresh]
  cases hg : w.n.store.getPP h v with
  | none => simp [fresh]
  | some ppm =>
    dsimp only
    split
    · exact onPreparedLocally_outs w h v hash
    · simp [fresh]

theorem handlePrepare_outs (w : W) (pm : PMsg) :
    (handlePrepare w pm).outs = w.outs ++ (handlePrepare (fresh w) pm).outs := by
  unfold handlePrepare
  have e : (fresh w).n = w.n := rfl
  simp only [e]
  split; simp [fresh]
  split; simp [fresh]
  split; simp [fresh]
  split; simp [fresh]
  split; simp [fresh]
  rw [checkPreparedLocally_outs]
  conv => rhs; rw [checkPreparedLocally_outs]
  simp [fresh]

theorem handleCommit_outs (w : W) (cm : CMsg) :
    (handleCommit w cm).outs = w.outs ++ (handleCommit (fresh w) cm).outs := by
  unfold handleCommit
  have e : (fresh w).n = w.n := rfl
  simp only [e]
  split; simp [fresh]
  split; simp [fresh]
  split; simp [fresh]
  split; simp [fresh]
  rw [checkCommitted_outs]
  conv => rhs; rw [checkCommitted_outs]
  simp [fresh]

end LeanHelix.Term
