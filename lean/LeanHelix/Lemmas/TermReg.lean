import LeanHelix.Model.Term
import LeanHelix.Props.C15Registry
/-!
# The term only ever applies registry operations to its context registry

`RegRun a b`: `b` is `a` after some list of `Contexts` operations (`For`, `CancelOlderThan`).  Every
handler of the term model relates its node's registry before and after in this way (`step_regRun`), so
the registry invariant of C15 (`C15.Inv`: live contexts are issued, not cancelled and not stale; ids are
fresh; …) — proved there for every sequence of operations — holds of the registry inside every
reachable term state, and with it the theorems of `Props/C15Registry.lean` (a context handed out is
live, …).
-/
namespace LeanHelix.Term
open LeanHelix LeanHelix.Msg LeanHelix.Contexts

def RegRun (a b : Reg) : Prop := ∃ ops, b = Contexts.run a ops

theorem RegRun.refl (a : Reg) : RegRun a a := ⟨[], rfl⟩

theorem RegRun.trans {a b c : Reg} (h1 : RegRun a b) (h2 : RegRun b c) : RegRun a c := by
  obtain ⟨o1, rfl⟩ := h1
  obtain ⟨o2, rfl⟩ := h2
  exact ⟨o1 ++ o2, (C15.run_append a o1 o2).symm⟩

theorem RegRun.one (a : Reg) (op : Op) : RegRun a (Contexts.step a op).1 := ⟨[op], rfl⟩

theorem RegRun.inv {a b : Reg} (h : RegRun a b) (ha : C15.Inv a) : C15.Inv b := by
  obtain ⟨ops, rfl⟩ := h
  induction ops generalizing a with
  | nil => exact ha
  | cons o os ih =>
    show C15.Inv (Contexts.run (Contexts.step a o).1 os)
    exact ih (C15.inv_step a o ha)

/-- the relation on worlds -/
def RR (w w' : W) : Prop := RegRun w.n.reg w'.n.reg

theorem RR.refl (w : W) : RR w w := RegRun.refl _
theorem RR.trans {a b c : W} (h1 : RR a b) (h2 : RR b c) : RR a c := RegRun.trans h1 h2
theorem RR.of_eq {w w' : W} (h : w'.n.reg = w.n.reg) : RR w w' := by unfold RR; rw [h]; exact RegRun.refl _

theorem ctxFor_rr (w : W) (h v : Nat) : RR w (ctxFor w h v).1 := by
  show RegRun w.n.reg (Contexts.step w.n.reg (.for_ ⟨h, v⟩)).1
  exact RegRun.one _ _

theorem cancelMeanwhile_rr (w : W) (cd : Option Nat) : RR w (cancelMeanwhile w cd) := by
  unfold cancelMeanwhile
  cases cd with
  | none => exact RR.refl w
  | some v =>
    show RegRun w.n.reg (Contexts.step w.n.reg (.cancelOlderThan ⟨w.n.cfg.height, v⟩)).1
    exact RegRun.one _ _

theorem askValidate_rr (w : W) (h v : Nat) (blk : Option Block) (hash : Nat) : RR w (askValidate w h v blk hash).1 := by
  unfold askValidate
  dsimp only
  have h0 := ctxFor_rr w h v
  generalize ctxFor w h v = r at h0 ⊢
  obtain ⟨w1, ctx⟩ := r
  dsimp only at h0 ⊢
  cases ctx with
  | none => exact h0
  | some id =>
    dsimp only
    cases hsp : (w1.emit (Out.callValidate h blk hash)).spi with
    | nil => exact h0
    | cons a rest =>
      cases a with
      | proposal _ _ => exact h0
      | verdict g cd => exact RR.trans h0 (cancelMeanwhile_rr _ cd)

theorem askProposal_rr (w : W) (h v : Nat) : RR w (askProposal w h v).1 := by
  unfold askProposal
  dsimp only
  have h0 := ctxFor_rr w h v
  generalize ctxFor w h v = r at h0 ⊢
  obtain ⟨w1, ctx⟩ := r
  dsimp only at h0 ⊢
  cases ctx with
  | none => exact h0
  | some id =>
    dsimp only
    cases hsp : (w1.emit (Out.callRequest h)).spi with
    | nil => exact h0
    | cons a rest =>
      cases a with
      | verdict _ _ => exact h0
      | proposal b cd => exact RR.trans h0 (cancelMeanwhile_rr _ cd)

theorem initView_rr (w : W) (v : Nat) : RR w (initView w v).1 := by
  unfold initView; split <;> exact RR.refl _

theorem checkCommitted_rr (w : W) (h v hash : Nat) : RR w (checkCommitted w h v hash) := by
  unfold checkCommitted
  split; exact RR.refl w
  split; exact RR.refl w
  dsimp only
  split; exact RR.refl w
  split
  · exact RR.refl w
  · have h0 := ctxFor_rr w h maxView
    generalize ctxFor w h maxView = r at h0 ⊢
    obtain ⟨w1, ctx⟩ := r
    dsimp only at h0 ⊢
    split
    · exact h0
    · split
      · exact h0
      · split <;> exact h0

theorem onPreparedLocally_rr (w : W) (h v hash : Nat) : RR w (onPreparedLocally w h v hash) := by
  unfold onPreparedLocally
  dsimp only
  exact RR.trans (RR.of_eq rfl) (checkCommitted_rr _ h v hash)

theorem checkPreparedLocally_rr (w : W) (h v hash : Nat) : RR w (checkPreparedLocally w h v hash) := by
  unfold checkPreparedLocally
  split; exact RR.refl w
  split; exact RR.refl w
  split
  · exact RR.refl w
  · dsimp only
    split
    · exact onPreparedLocally_rr w h v hash
    · exact RR.refl w

theorem processPreprepare_rr (w : W) (ppm : PPMsg) : RR w (processPreprepare w ppm) := by
  unfold processPreprepare
  dsimp only
  split
  · exact RR.refl w
  · exact RR.trans (RR.of_eq rfl) (checkPreparedLocally_rr _ _ _ _)

theorem handlePrePrepare_rr (w : W) (ppm : PPMsg) : RR w (handlePrePrepare w ppm) := by
  unfold handlePrePrepare
  split; exact RR.refl w
  split; exact RR.refl w
  dsimp only
  have h0 := askValidate_rr w ppm.c.header.height ppm.c.header.view ppm.block ppm.c.header.hash
  generalize askValidate w ppm.c.header.height ppm.c.header.view ppm.block ppm.c.header.hash = r at h0 ⊢
  obtain ⟨w1, ok⟩ := r
  dsimp only at h0 ⊢
  split
  · exact h0
  · exact RR.trans h0 (processPreprepare_rr _ _)

theorem handlePrepare_rr (w : W) (pm : PMsg) : RR w (handlePrepare w pm) := by
  unfold handlePrepare
  dsimp only
  split; exact RR.refl w
  split; exact RR.refl w
  split; exact RR.refl w
  split; exact RR.refl w
  split; exact RR.refl w
  exact RR.trans (RR.of_eq rfl) (checkPreparedLocally_rr _ _ _ _)

theorem handleCommit_rr (w : W) (cm : CMsg) : RR w (handleCommit w cm) := by
  unfold handleCommit
  dsimp only
  split; exact RR.refl w
  split; exact RR.refl w
  split; exact RR.refl w
  split; exact RR.refl w
  exact RR.trans (RR.of_eq rfl) (checkCommitted_rr _ _ _ _)

theorem onElected_rr (w : W) (view : Nat) (vcs : List VCMsg) : RR w (onElectedByViewChange w view vcs) := by
  unfold onElectedByViewChange
  dsimp only
  have h0 : RR w (initView { w with n := { w.n with latestNV := view } } view).1 :=
    RR.trans (RR.of_eq rfl) (initView_rr _ view)
  generalize initView { w with n := { w.n with latestNV := view } } view = r at h0 ⊢
  obtain ⟨w1, ok⟩ := r
  dsimp only at h0 ⊢
  split
  · exact h0
  · split
    · exact RR.trans h0 (RR.of_eq rfl)
    · have h1 := askProposal_rr w1 w1.n.cfg.height view
      generalize askProposal w1 w1.n.cfg.height view = r2 at h1 ⊢
      obtain ⟨w2, ob⟩ := r2
      dsimp only at h1 ⊢
      split
      · exact RR.trans h0 (RR.trans h1 (RR.of_eq rfl))
      · exact RR.trans h0 h1

theorem checkElected_rr (w : W) (h view : Nat) : RR w (checkElected w h view) := by
  unfold checkElected
  dsimp only
  split; exact RR.refl w
  split; exact RR.refl w
  split; exact RR.refl w
  exact onElected_rr w view _

theorem handleViewChange_rr (w : W) (vcm : VCMsg) : RR w (handleViewChange w vcm) := by
  unfold handleViewChange
  dsimp only
  split; exact RR.refl w
  split; exact RR.refl w
  split; exact RR.refl w
  split; exact RR.refl w
  split; exact RR.refl w
  exact RR.trans (RR.of_eq rfl) (checkElected_rr _ _ _)

theorem election_rr (w : W) (h v : Nat) : RR w (election w h v) := by
  unfold election
  dsimp only
  split
  · exact RR.refl w
  have h0 := initView_rr w (wrap64 (w.n.view + 1))
  generalize initView w (wrap64 (w.n.view + 1)) = r at h0 ⊢
  obtain ⟨w1, ok⟩ := r
  dsimp only at h0 ⊢
  split
  · exact h0
  · split
    · exact RR.trans h0 (RR.trans (RR.of_eq rfl) (checkElected_rr _ _ _))
    · exact RR.trans h0 (RR.of_eq rfl)

theorem adoptNewView_rr (w : W) (nvm : NVMsg) : RR w (adoptNewView w nvm) := by
  unfold adoptNewView
  dsimp only
  have key : ∀ (w1 : W) (ok : Bool), RR w w1 →
      RR w (if (!ok) = true then w1 else
        if (!validatePreprepare w1.n ⟨nvm.pp, nvm.block⟩) = true then w1 else
          if (!(initView { w1 with n := { w1.n with latestNV := nvm.header.view } } nvm.header.view).2) = true
          then (initView { w1 with n := { w1.n with latestNV := nvm.header.view } } nvm.header.view).1
          else processPreprepare (initView { w1 with n := { w1.n with latestNV := nvm.header.view } } nvm.header.view).1 ⟨nvm.pp, nvm.block⟩) := by
    intro w1 ok h1
    split
    · exact h1
    split
    · exact h1
    have h2 : RR w (initView { w1 with n := { w1.n with latestNV := nvm.header.view } } nvm.header.view).1 :=
      RR.trans h1 (RR.trans (RR.of_eq rfl) (initView_rr _ _))
    split
    · exact h2
    · exact RR.trans h2 (processPreprepare_rr _ _)
  by_cases hlv : (latestVote nvm.header.votes).isNone = true
  · simp only [hlv, if_true]
    exact key _ _ (askValidate_rr _ _ _ _ _)
  · simp only [hlv]
    exact key w true (RR.refl w)

theorem handleNewView_rr (w : W) (nvm : NVMsg) : RR w (handleNewView w nvm) := by
  unfold handleNewView
  dsimp only
  split; exact RR.refl w
  split; exact RR.refl w
  split; exact RR.refl w
  split; exact RR.refl w
  split; exact RR.refl w
  split; exact RR.refl w
  split; exact RR.refl w
  split; exact RR.refl w
  split; exact RR.refl w
  exact adoptNewView_rr w nvm

theorem startTerm_rr (w : W) (c : Bool) : RR w (startTerm w c) := by
  unfold startTerm
  dsimp only
  have h0 : RR w (initView { w with n := { w.n with prepared := none } } 0).1 := RR.trans (RR.of_eq rfl) (initView_rr _ 0)
  generalize initView { w with n := { w.n with prepared := none } } 0 = r at h0 ⊢
  obtain ⟨w1, ok⟩ := r
  dsimp only at h0 ⊢
  split; exact h0
  split; exact h0
  split; exact h0
  have h1 := askProposal_rr w1 w1.n.cfg.height 0
  generalize askProposal w1 w1.n.cfg.height 0 = r2 at h1 ⊢
  obtain ⟨w2, ob⟩ := r2
  dsimp only at h1 ⊢
  split
  · exact RR.trans h0 h1
  · exact RR.trans h0 (RR.trans h1 (RR.of_eq rfl))

/-- **one event of the term changes its registry by registry operations only** -/
theorem step_regRun (n : Node) (e : Event) (spi : List Spi) : RegRun n.reg (step n e spi).1.reg := by
  unfold step
  dsimp only
  cases e with
  | start c => exact startTerm_rr _ c
  | election h v => exact election_rr _ h v
  | cancelOlder h v => exact RegRun.one _ _
  | deliver m =>
    cases m with
    | preprepare m => exact handlePrePrepare_rr _ m
    | prepare m => exact handlePrepare_rr _ m
    | commit m => exact handleCommit_rr _ m
    | viewChange m => exact handleViewChange_rr _ m
    | newView m => exact handleNewView_rr _ m

/-- the registry invariant of C15 is kept by every event of the term -/
theorem step_regInv (n : Node) (e : Event) (spi : List Spi) (h : C15.Inv n.reg) : C15.Inv (step n e spi).1.reg :=
  (step_regRun n e spi).inv h

end LeanHelix.Term
