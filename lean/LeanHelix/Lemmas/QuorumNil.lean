import LeanHelix.Model.Term
/-!
# A quorum is never empty

`Quorum.isQuorum [] ms = false` for every committee, also when the weights overflow: the weight of the
empty subset is 0 and the quorum threshold is at least 1 (`calcQuorumWeight` returns 1 for a zero
total and `sum - (sum-1)/3 ≥ 1` otherwise).  Hence every list of COMMITs handed to the commit callback
is non-empty, and its first element determines height, view and hash of the certificate.
-/
namespace LeanHelix.Term
open LeanHelix LeanHelix.Msg

/-! ### a commit quorum is never empty -/

theorem subsetWeight_nil (ms : List Member) : Quorum.subsetWeight [] ms = 0 := by
  unfold Quorum.subsetWeight
  have : ∀ (l : List Member) (s : Nat), l.foldl (fun s m => if ([] : List Nat).contains m.id then wrap64 (s + m.weight) else s) s = s := by
    intro l
    induction l with
    | nil => intro s; rfl
    | cons x xs ih => intro s; simp only [List.foldl_cons, List.contains_nil, Bool.false_eq_true, if_false]; exact ih s
  exact this ms 0

theorem sumWeights_lt (ws : List Nat) : Quorum.sumWeights ws < U64 := by
  unfold Quorum.sumWeights
  have : ∀ (l : List Nat) (s : Nat), s < U64 → l.foldl (fun s w => wrap64 (s + w)) s < U64 := by
    intro l
    induction l with
    | nil => intro s hs; exact hs
    | cons x xs ih => intro s _; simp only [List.foldl_cons]; exact ih _ (wrap64_lt _)
  exact this ws 0 (by decide)

theorem calcQuorumWeight_pos (ws : List Nat) : 1 ≤ Quorum.calcQuorumWeight ws := by
  unfold Quorum.calcQuorumWeight
  dsimp only
  split
  · exact Nat.le_refl _
  · rename_i hne
    have hlt := sumWeights_lt ws
    generalize Quorum.sumWeights ws = s at hne hlt
    unfold Quorum.calcF wrap64
    unfold U64 at *
    omega

theorem isQuorum_nil (c : Term.Cfg) : Term.isQuorum c [] = false := by
  unfold Term.isQuorum Quorum.isQuorum
  dsimp only
  rw [subsetWeight_nil]
  have := calcQuorumWeight_pos (Quorum.getWeights c.members)
  simp only [ge_iff_le, decide_eq_false_iff_not]
  omega

theorem mem_getCommits_height {s : Term.Store} {h v hash : Nat} {cm : CMsg} (hm : cm ∈ s.getCommits h v hash) :
    cm.header.height = h := by
  unfold Term.Store.getCommits at hm
  rw [List.mem_filter] at hm
  have h2 := hm.2
  simp only [Bool.and_eq_true, beq_iff_eq] at h2
  exact h2.1.1


theorem mem_getCommits_all {s : Term.Store} {h v hash : Nat} {cm : CMsg} (hm : cm ∈ s.getCommits h v hash) :
    cm ∈ s.commits ∧ cm.header.height = h ∧ cm.header.view = v ∧ cm.header.hash = hash := by
  unfold Term.Store.getCommits at hm
  rw [List.mem_filter] at hm
  have h2 := hm.2
  simp only [Bool.and_eq_true, beq_iff_eq] at h2
  exact ⟨hm.1, h2.1.1, h2.1.2, h2.2⟩

end LeanHelix.Term
