import LeanHelix.Net.Blocks
/-!
# The network model, part 7: the delivered block commits to the certified hash

Consumer contract **A2**: `ValidateBlockProposal(block, hash)` answers nil only if the block commits to
the hash (`ValidateBlockCommitment`).  In the model the verdict is an SPI input; `SpiA2 e spi` says
that a step whose SPI answers begin with a positive verdict is delivering a proposal whose attached
block commits to its signed hash, and `TraceA2` that this holds for every step of the schedule.

Under `TraceA2`, every block a correct member has stored under a proposal, attached to a logged vote, or
handed to its commit callback commits to the hash it travels under (`reach_blocks`): for fresh proposals
by A2, for locked re-proposals because `handleNewView` / `handleViewChange` check the commitment against
the proven hash, for own proposals because the member signs the hash of the block its consumer returned.
-/
namespace LeanHelix.Net
open LeanHelix LeanHelix.Msg LeanHelix.Term LeanHelix.Spec
open LeanHelix.C01Local (GInv lift)

variable {C : NetCfg}

def evBlockOK : Event → Prop
  | .deliver (.preprepare m) => commitmentOk m.block m.c.header.hash = true
  | .deliver (.newView m) => commitmentOk m.block m.pp.header.hash = true
  | _ => True

/-- consumer contract A2 for one step -/
def SpiA2 (e : Event) (spi : List Spi) : Prop := ∀ cd rest, spi = Spi.verdict true cd :: rest → evBlockOK e

def TraceA2 (trace : List (Nat × Event × List Spi)) : Prop := ∀ t ∈ trace, SpiA2 t.2.1 t.2.2

/-- every stored proposal's block commits to the proposal's signed hash -/
def BlocksOK (n : Node) : Prop := ∀ ppm ∈ n.store.pps, ∀ b, ppm.block = some b → b.hash = ppm.c.header.hash

/-- every logged vote's block commits to the hash its proof certifies -/
def VCBlocksOK (n : Node) : Prop :=
  ∀ m ∈ n.store.vcs, ∀ b p, m.block = some b → m.c.header.proof = some p → b.hash = p.pRef.hash

theorem commitmentOk_some {b : Block} {h : Nat} (hc : commitmentOk (some b) h = true) : b.hash = h := by
  simpa [commitmentOk] using hc

theorem blocksOK_storePP {a : Node} (ppm : PPMsg) (h : BlocksOK a) (hb : ∀ b, ppm.block = some b → b.hash = ppm.c.header.hash) :
    ∀ x ∈ (a.store.storePP ppm).pps, ∀ b, x.block = some b → b.hash = x.c.header.hash := by
  intro x hx b hxb
  rcases mem_storePP hx with hx | rfl
  · exact h x hx b hxb
  · exact hb b hxb

/-! ## own votes, and the NEW_VIEWs a correct leader sends (C11 at the network level) -/

/-- the node's own logged votes pass every check a peer applies to a received vote -/
def OwnVotesOK (n : Node) : Prop := ∀ m ∈ n.store.vcs, m.c.sender = mySig n.cfg → C11.VoteChecked n m

/-- the block-body invariants of one node -/
structure Body (n : Node) : Prop where
  blocks : BlocksOK n
  vcblocks : VCBlocksOK n
  ownVotes : OwnVotesOK n

/-- two configurations of the same term: same committee, instance and height (`me` may differ) -/
def CfgSim (c d : Cfg) : Prop := c.members = d.members ∧ c.inst = d.inst ∧ c.height = d.height

/-- the NEW_VIEW is a valid certificate (`C07.ValidCertificate`: everything `handleNewView` checks
before adopting it) for every node of this term whose view is not above the NEW_VIEW's -/
def NVGood (c : Cfg) (nv : NVMsg) : Prop :=
  nv.pp.header.mtype = tPP ∧ nv.pp.sender = nv.sender
  ∧ ∀ peer : Node, CfgSim peer.cfg c → ¬ peer.view > nv.header.view → C07.ValidCertificate peer nv

/-- the certificate handed to the commit callback: provided the block has this term's height (the
other half of the consumer contract A2), the block proof generated from the COMMITs passes strict
`ValidateBlockConsensus` (the C02 model) of every node with this instance id and committee -/
def CertOK (c : Cfg) (blk : Block) (cs : List CMsg) : Prop :=
  blk.height = c.height →
    ∃ p, BlockProof.generate cs true = some p ∧
      BlockProof.validate ⟨false, some blk, some p, c.inst, c.members, false⟩ = .ok

/-- the VIEW_CHANGE passes everything `handleViewChange` checks before logging it (`C11.VoteChecked`), at
every node of this term -/
def VoteGood (c : Cfg) (vc : VCMsg) : Prop := ∀ peer : Node, CfgSim peer.cfg c → C11.VoteChecked peer vc

/-- what a block of effects may contain: commit callbacks whose block commits to the certified hash,
and NEW_VIEWs every correct peer accepts as a certificate -/
def OutsOK (c : Cfg) (l : List Out) : Prop :=
  (∀ blk cs, Out.commit blk cs ∈ l → blk.hash = commitHash cs)
  ∧ (∀ rs nv, Out.send rs (.newView nv) ∈ l → NVGood c nv)
  ∧ (∀ blk cs, Out.commit blk cs ∈ l → CertOK c blk cs)
  ∧ (∀ rs vc, Out.send rs (.viewChange vc) ∈ l → VoteGood c vc)

theorem outsOK_nil (c : Cfg) : OutsOK c [] := by
  refine ⟨?_, ?_, ?_, ?_⟩
  · intro _ _ h; cases h
  · intro _ _ h; cases h
  · intro _ _ h; cases h
  · intro _ _ h; cases h

theorem outsOK_append {c : Cfg} {l1 l2 : List Out} (h1 : OutsOK c l1) (h2 : OutsOK c l2) : OutsOK c (l1 ++ l2) :=
  ⟨fun blk cs hm => (List.mem_append.mp hm).elim (h1.1 blk cs) (h2.1 blk cs),
   fun rs nv hm => (List.mem_append.mp hm).elim (h1.2.1 rs nv) (h2.2.1 rs nv),
   fun blk cs hm => (List.mem_append.mp hm).elim (h1.2.2.1 blk cs) (h2.2.2.1 blk cs),
   fun rs vc hm => (List.mem_append.mp hm).elim (h1.2.2.2 rs vc) (h2.2.2.2 rs vc)⟩

theorem cfgSim_eq {c d : Cfg} (h : CfgSim c d) : c = { d with me := c.me } := by
  obtain ⟨h1, h2, h3⟩ := h
  cases c; cases d
  simp only at h1 h2 h3
  simp [h1, h2, h3]

theorem isViewChangeValid_sim (p q : Node) (h : CfgSim p.cfg q.cfg) (vc : VCContent) :
    isViewChangeValid p vc = isViewChangeValid q vc := by
  have := cfgSim_eq h
  unfold isViewChangeValid
  rw [this]
  rfl

theorem validCertificate_sim {p q : Node} (h : CfgSim p.cfg q.cfg) (hv : p.view = q.view) (nv : NVMsg)
    (hq : C07.ValidCertificate q nv) : C07.ValidCertificate p nv := by
  have he := cfgSim_eq h
  obtain ⟨a1, a2, a3, a4, a5, a6, a7, a8, a9, a10, a11⟩ := hq
  refine ⟨a1, by rw [hv]; exact a2, a3, ?_, ?_, ?_, a7, a8, a9, by rw [h.2.1]; exact a10, a11⟩
  · rw [he]; exact a4
  · rw [he]; exact a5
  · intro vc hvc
    obtain ⟨b1, b2, b3⟩ := a6 vc hvc
    exact ⟨b1, b2, by rw [isViewChangeValid_sim p q h]; exact b3⟩

theorem ownVote_eq (n : Node) : ownVote n = C09.voteOnTimeout n := by
  unfold ownVote C09.voteOnTimeout
  rw [← voteProof_eq, ← voteBlock_eq]
  rfl

theorem ownVotesOK_congr (a b : Node) (hc : b.cfg = a.cfg) (hs : b.store.vcs = a.store.vcs) (h : OwnVotesOK a) : OwnVotesOK b := by
  intro m hm hsig
  rw [hs] at hm
  rw [hc] at hsig
  have := h m hm hsig
  unfold C11.VoteChecked at this ⊢
  rw [C11.isViewChangeValid_cfg b a hc]
  exact this

theorem isMember_of_mem (C : NetCfg) (i : Nat) (hm : ∃ m ∈ C.ms, m.id = i) : isMember (C.cfg i) (C.cfg i).me = true := by
  obtain ⟨m, hm, hid⟩ := hm
  unfold isMember
  rw [List.any_eq_true]
  exact ⟨m, hm, by simpa [NetCfg.cfg] using hid⟩

/-- **one atomic block keeps the block-body invariants** (under A2 for this step), and a commit
callback gets a block that commits to the certified hash -/
theorem blk_blocks (hwf : WF C) {e : Event} {spi0 : List Spi} {i : Nat} {a b : Node} {l : List Out} {g : List LEv} {T : List LEv} {H : List Ev}
    (hb : Blk e spi0 a b l g) (hgate : Gate (C.cfg i) e) (hA2 : SpiA2 e spi0)
    (hc : Core C H i a T) (hub : Univ b) (hbo : BlocksOK a) (hvo : VCBlocksOK a) :
    BlocksOK b ∧ VCBlocksOK b ∧ ∀ blk cs, Out.commit blk cs ∈ l → blk.hash = commitHash cs := by
  cases hb with
  | quiet hq hs hl =>
    refine ⟨by unfold BlocksOK; rw [hs]; exact hbo, by unfold VCBlocksOK; rw [hs]; exact hvo, ?_⟩
    intro blk cs hm
    have := hl _ hm
    simp [stmtOf] at this
  | log op he =>
    refine ⟨?_, ?_, fun _ _ hm => by cases hm⟩
    · cases op with
      | pp m => exfalso; cases e <;> first | (simp [evOp] at he; done) | (rename_i m'; cases m' <;> simp [evOp] at he)
      | prepare m => unfold BlocksOK; show ∀ ppm ∈ (a.store.storePrepare m).pps, _; rw [storePrepare_pps]; exact hbo
      | commit m => unfold BlocksOK; show ∀ ppm ∈ (a.store.storeCommit m).pps, _; rw [storeCommit_pps]; exact hbo
      | vc m => unfold BlocksOK; show ∀ ppm ∈ (a.store.storeVC m).pps, _; rw [storeVC_pps]; exact hbo
    · cases op with
      | pp m => unfold VCBlocksOK; show ∀ x ∈ (a.store.storePP m).vcs, _; rw [storePP_vcs]; exact hvo
      | prepare m => unfold VCBlocksOK; show ∀ x ∈ (a.store.storePrepare m).vcs, _; rw [storePrepare_vcs]; exact hvo
      | commit m => unfold VCBlocksOK; show ∀ x ∈ (a.store.storeCommit m).vcs, _; rw [storeCommit_vcs]; exact hvo
      | vc m =>
        obtain ⟨hnotme, _⟩ := gate_vc he hgate
        intro x hx bk p hxb hxp
        rcases mem_storeVC hx with hx' | rfl
        · exact hvo x hx' bk p hxb hxp
        · rcases hub.vcs.auth x hx with hchk | hmine
          · obtain ⟨h1, _, h3⟩ := hchk
            have hcm := h3 (by rw [hxb]; rfl)
            rw [hxb, hxp] at hcm
            have := commitmentOk_some hcm
            obtain ⟨_, _, _, _, _, s6⟩ := isViewChangeValid_spec _ x.c h1
            rw [hxp] at s6
            rw [this, validatePreparedProof_hash _ _ _ p s6]
            rfl
          · exfalso; apply hnotme; rw [hmine, hc.cfg]; rfl
  | accept ppm f rcpt hh hv' hnone hnl hlock hsrc hval =>
    refine ⟨?_, ?_, fun _ _ hm => by simp at hm⟩
    · have hbk : ∀ bk, ppm.block = some bk → bk.hash = ppm.c.header.hash := by
        intro bk hbk
        rcases hsrc with ⟨he, hf⟩ | ⟨nvm, he, hppm, hf, hchk⟩
        · obtain ⟨cd, rest, hspi⟩ := hval (Or.inl hf)
          have := hA2 cd rest hspi
          rw [he] at this
          simp only [evBlockOK] at this
          rw [hbk] at this
          exact commitmentOk_some this
        · cases hlv : latestVote nvm.header.votes with
          | none =>
            obtain ⟨cd, rest, hspi⟩ := hval (Or.inr ⟨nvm, he, hlv⟩)
            have := hA2 cd rest hspi
            rw [he] at this
            simp only [evBlockOK] at this
            rw [hppm] at hbk ⊢
            simp only at hbk ⊢
            rw [hbk] at this
            exact commitmentOk_some this
          | some lv =>
            obtain ⟨_, _, _, _, hlock'⟩ := hchk
            unfold lockOk at hlock'
            rw [hlv] at hlock'
            simp only [Bool.and_eq_true, beq_iff_eq] at hlock'
            rw [hppm] at hbk ⊢
            simp only at hbk ⊢
            rw [hbk] at hlock'
            rw [hlock'.2]
            exact commitmentOk_some hlock'.1.2
      intro x hx bk hxb
      have hx' : x ∈ (a.store.storePP ppm).pps := by
        have : (acceptNode a ppm).store.pps = (a.store.storePP ppm).pps := storePrepare_pps _ _
        rw [this] at hx; exact hx
      exact blocksOK_storePP ppm hbo hbk x hx' bk hxb
    · unfold VCBlocksOK
      show ∀ x ∈ ((a.store.storePP ppm).storePrepare _).vcs, _
      rw [storePrepare_vcs, storePP_vcs]; exact hvo
  | prepared v hash rcpt hv' hnot hpp hproof =>
    refine ⟨?_, ?_, fun _ _ hm => by simp at hm⟩
    · unfold BlocksOK; show ∀ ppm ∈ (a.store.storeCommit _).pps, _; rw [storeCommit_pps]; exact hbo
    · unfold VCBlocksOK; show ∀ x ∈ (a.store.storeCommit _).vcs, _; rw [storeCommit_vcs]; exact hvo
  | late h v hash rcpt hq => exact ⟨hbo, hvo, fun _ _ hm => by simp at hm⟩
  | decide blk cs h v hash hq hs hcs hcq hpp =>
    refine ⟨by unfold BlocksOK; rw [hs]; exact hbo, by unfold VCBlocksOK; rw [hs]; exact hvo, ?_⟩
    intro blk' cs' hm
    simp only [List.mem_singleton, Out.commit.injEq] at hm
    obtain ⟨rfl, rfl⟩ := hm
    obtain ⟨ppm, hg, hbk, hh⟩ := hpp
    obtain ⟨hin, _, _⟩ := getPP_spec hg
    have h1 := hbo ppm hin blk' hbk
    have hne : cs' ≠ [] := by
      intro he
      have := isQuorum_ne_nil a.cfg (by rw [hc.cfg]; exact hwf.fit) _ hcq
      rw [he] at this; exact this rfl
    rw [hcs] at hne ⊢
    rw [commitHash_getCommits _ _ _ _ hne, h1, hh]
  | propose ppm f o hh hv' hnone hlnv hf ho hown hsrc hreq hblk hmsg =>
    refine ⟨?_, ?_, ?_⟩
    · have hbk : ∀ bk, ppm.block = some bk → bk.hash = ppm.c.header.hash := by
        intro bk hbk
        obtain ⟨b', hb', hcase⟩ := hblk
        have : b' = bk := by rw [hb'] at hbk; exact Option.some.inj hbk
        subst this
        rcases hcase with h1 | ⟨h', hsome⟩
        · exact h1
        · obtain ⟨m, hm, hmb, hhash, _⟩ := (C09.latestBlockFromVCs_spec (a.store.getVCs h' a.view)).2 b' _ hsome
          unfold Store.getVCs at hm
          rw [List.mem_filter] at hm
          have hps : m.c.header.proof.isSome = true := by rw [← hc.vcb m hm.1, hmb]; rfl
          cases hp : m.c.header.proof with
          | none => rw [hp] at hps; cases hps
          | some p0 =>
            rw [hp] at hhash
            simp only at hhash
            rw [hhash]
            exact hvo m hm.1 b' p0 hmb hp
      exact blocksOK_storePP ppm hbo hbk
    · unfold VCBlocksOK; show ∀ x ∈ (a.store.storePP ppm).vcs, _; rw [storePP_vcs]; exact hvo
    · intro blk cs hm
      simp only [List.mem_singleton] at hm
      rw [← hm] at ho
      simp [stmtOf] at ho
  | voteSend vc rcpt hv' hp hpv hown => exact ⟨hbo, hvo, fun _ _ hm => by simp at hm⟩
  | voteStore vc hv' hp hown hpv hbk =>
    refine ⟨?_, ?_, fun _ _ hm => by cases hm⟩
    · unfold BlocksOK; show ∀ ppm ∈ (a.store.storeVC vc).pps, _; rw [storeVC_pps]; exact hbo
    · intro x hx bk p hxb hxp
      rcases mem_storeVC hx with hx' | rfl
      · exact hvo x hx' bk p hxb hxp
      · rcases vote_payload hc.ginv hc.prepBlock with ⟨_, hn, _⟩ | ⟨pv, p', b', ppm, _, hex, hs, hsb, _, hg, _, _, e3, _⟩
        · rw [hp, hn] at hxp; cases hxp
        · rw [hp, hs] at hxp
          have : p' = p := Option.some.inj hxp
          subst this
          rw [hbk, hsb] at hxb
          obtain ⟨hin, _, _⟩ := getPP_spec hg
          have hb' : b' = ppm.block := by
            obtain ⟨ppm2, _, hg2, _, _, _, _, _, e5⟩ := extractProof_shape a pv p' b' hex
            rw [hg] at hg2
            rw [e5, Option.some.inj hg2]
          rw [hb'] at hxb
          rw [e3]
          exact hbo ppm hin bk hxb

/-- the votes a node has logged for its own view reach a quorum only if there is one: the list is not empty -/
theorem quorum_mem (hwf : WF C) {i : Nat} {a : Node} (hcfg : a.cfg = C.cfg i) {l : List VCMsg}
    (hq : isQuorum a.cfg (l.map (·.c.sender.id)) = true) : ∃ m, m ∈ l := by
  cases l with
  | nil =>
    exfalso
    exact isQuorum_ne_nil a.cfg (by rw [hcfg]; exact hwf.fit) _ hq rfl
  | cons m _ => exact ⟨m, List.mem_cons_self ..⟩

/-- **one atomic block keeps `OwnVotesOK`, and every NEW_VIEW it sends is a valid certificate for
every correct peer whose view is not higher** -/
theorem blk_votes (hwf : WF C) {e : Event} {spi0 : List Spi} {i : Nat} {a b : Node} {l : List Out} {g : List LEv} {T : List LEv} {H : List Ev}
    (hb : Blk e spi0 a b l g) (hgate : Gate (C.cfg i) e) (hmem : ∃ m ∈ C.ms, m.id = i)
    (hc : Core C H i a T) (hua : Univ a) (hbo : BlocksOK a) (hov : OwnVotesOK a) :
    OwnVotesOK b ∧ (∀ rs nv, Out.send rs (.newView nv) ∈ l → NVGood a.cfg nv)
      ∧ ∀ rs vc, Out.send rs (.viewChange vc) ∈ l → VoteGood a.cfg vc := by
  -- the vote a node builds on timeout passes the checks of `handleViewChange` (at the node itself)
  have own_vote_checked : ∀ (vc : VCMsg), vc = ownVote a → (∀ pv, a.prepared = some pv → pv < a.view) → C11.VoteChecked a vc := by
    intro vc hvc hpv
    have hp : vc.c.header.proof = voteProof a := by rw [hvc]; rfl
    have hbk : vc.block = voteBlock a := by rw [hvc]; rfl
    have hme : isMember a.cfg a.cfg.me = true := by rw [hc.cfg]; exact isMember_of_mem C i hmem
    have hvalid : isViewChangeValid a (C09.voteOnTimeout a).c = true :=
      C11.own_vote_is_valid_for_peers a a rfl hme hua.prepares hua.proposals
        (fun pv hpr => ⟨hpv pv hpr, fun pm hpm hvw hs => by have := hua.ownNL pm hpm hs; rw [hvw] at this; exact this⟩)
        (fun ppm hm => (hua.clean.pps ppm hm).1) (fun pm hm => (hua.clean.prepares pm hm).1)
    rw [← ownVote_eq, ← hvc] at hvalid
    refine ⟨hvalid, ?_, ?_⟩
    · rintro ⟨h1, h2⟩
      rcases vote_payload hc.ginv hc.prepBlock with ⟨_, hn, _⟩ | ⟨pv, p', b', ppm, _, _, _, hsb, hbs, _⟩
      · rw [hp, hn] at h2; cases h2
      · rw [hbk, hsb] at h1
        rw [Option.isNone_iff_eq_none] at h1
        rw [h1] at hbs; cases hbs
    · intro hsome
      rcases vote_payload hc.ginv hc.prepBlock with ⟨_, _, hn⟩ | ⟨pv, p', b', ppm, _, hex, hs, hsb, hbs, hg, _, e2, _, _⟩
      · rw [hbk, hn] at hsome; cases hsome
      · have hb' : b' = ppm.block := by
          obtain ⟨ppm2, _, hg2, _, _, _, _, _, e5⟩ := extractProof_shape a pv p' b' hex
          rw [hg] at hg2
          rw [e5, Option.some.inj hg2]
        obtain ⟨hin, _, _⟩ := getPP_spec hg
        rw [hbk, hsb, hp, hs]
        cases hbb : b' with
        | none => rw [hbb] at hbs; cases hbs
        | some bk =>
          have := hbo ppm hin bk (by rw [← hb', hbb])
          simp only [commitmentOk, proofHash, beq_iff_eq]
          rw [this, e2]
  cases hb with
  | quiet hq hs hl =>
    refine ⟨ownVotesOK_congr a _ hq.cfg (by rw [hs]) hov, ?_, ?_⟩
    · intro rs nv hm
      have := hl _ hm
      simp [stmtOf] at this
    · intro rs vc hm
      have := hl _ hm
      simp [stmtOf] at this
  | log op he =>
    refine ⟨?_, (fun _ _ hm => by cases hm), (fun _ _ hm => by cases hm)⟩
    cases op with
    | pp m => exact ownVotesOK_congr a _ rfl (storePP_vcs _ _) hov
    | prepare m => exact ownVotesOK_congr a _ rfl (storePrepare_vcs _ _) hov
    | commit m => exact ownVotesOK_congr a _ rfl (storeCommit_vcs _ _) hov
    | vc m =>
      obtain ⟨hnotme, _⟩ := gate_vc he hgate
      intro x hx hsig
      rcases mem_storeVC hx with hx' | rfl
      · exact hov x hx' hsig
      · exfalso; apply hnotme
        have : x.c.sender = mySig a.cfg := hsig
        rw [this, hc.cfg]; rfl
  | accept ppm f rcpt hh hv' hnone hnl hlock hsrc hval =>
    refine ⟨ownVotesOK_congr a _ rfl ?_ hov, (fun _ _ hm => by simp at hm), (fun _ _ hm => by simp at hm)⟩
    show ((a.store.storePP ppm).storePrepare _).vcs = _
    rw [storePrepare_vcs, storePP_vcs]
  | prepared v hash rcpt hv' hnot hpp hproof =>
    exact ⟨ownVotesOK_congr a _ rfl (storeCommit_vcs _ _) hov, (fun _ _ hm => by simp at hm), (fun _ _ hm => by simp at hm)⟩
  | late h v hash rcpt hq => exact ⟨hov, (fun _ _ hm => by simp at hm), (fun _ _ hm => by simp at hm)⟩
  | decide blk cs h v hash hq hs hcs hcq hpp =>
    exact ⟨ownVotesOK_congr a _ hq.cfg (by rw [hs]) hov, (fun _ _ hm => by simp at hm), (fun _ _ hm => by simp at hm)⟩
  | voteSend vc rcpt hv' hp hpv hown hvc =>
    refine ⟨hov, (fun _ _ hm => by simp at hm), ?_⟩
    intro rs vc' hm
    simp only [List.mem_singleton, Out.send.injEq, Message.viewChange.injEq] at hm
    rw [hm.2]
    obtain ⟨c1, c2, c3⟩ := own_vote_checked vc hvc hpv
    intro peer hsim
    exact ⟨by rw [isViewChangeValid_sim peer a hsim]; exact c1, c2, c3⟩
  | voteStore vc hv' hp hown hpv hbk hvc =>
    refine ⟨?_, (fun _ _ hm => by cases hm), (fun _ _ hm => by cases hm)⟩
    intro x hx hsig
    rcases mem_storeVC hx with hx' | rfl
    · exact hov x hx' hsig
    · exact own_vote_checked x hvc hpv
  | propose ppm f o hh hv' hnone hlnv hf ho hown hsrc hreq hblk hmsg =>
    refine ⟨ownVotesOK_congr a _ rfl (storePP_vcs _ _) hov, ?_, ?_⟩
    rotate_left
    · intro rs vc hm
      simp only [List.mem_singleton] at hm
      rcases hmsg with ⟨rcpt, ho'⟩ | ⟨rcpt, nvm, h, ho', _⟩ <;> (rw [ho'] at hm; cases hm)
    intro rs nv hm
    simp only [List.mem_singleton] at hm
    rcases hmsg with ⟨rcpt, ho'⟩ | ⟨rcpt, nvm, h, ho', hpp, hvotes, hexact, hlead, hq, hsel⟩
    · rw [ho'] at hm; cases hm
    rw [ho'] at hm
    simp only [Out.send.injEq, Message.newView.injEq] at hm
    rw [hm.2]
    -- the votes counted are those of this term's height
    have hh' : h = a.cfg.height := by
      obtain ⟨m, hm⟩ := quorum_mem hwf hc.cfg hq
      unfold Store.getVCs at hm
      rw [List.mem_filter] at hm
      have h2 := hm.2
      simp only [Bool.and_eq_true, beq_iff_eq] at h2
      rw [← h2.1]; exact (hua.clean.vcs m hm.1).2
    subst hh'
    have hchk : ∀ m ∈ a.store.getVCs a.cfg.height a.view, C11.VoteChecked a m := by
      intro m hm
      have hm' : m ∈ a.store.vcs := by unfold Store.getVCs at hm; exact (List.mem_filter.mp hm).1
      rcases hua.vcs.auth m hm' with c | c
      · exact c
      · exact hov m hm' c
    refine ⟨by rw [hexact]; exact hown.2.2, by rw [hexact]; exact hown.1, ?_⟩
    intro peer hsim hview
    obtain ⟨bk, hbk, _⟩ := hblk
    have hex : C11.NewViewExact a.cfg a.view (a.store.getVCs a.cfg.height a.view) o := by
      intro rs' nv' he'
      rw [ho'] at he'
      simp only [Out.send.injEq, Message.newView.injEq] at he'
      obtain ⟨_, rfl⟩ := he'
      refine ⟨bk, ppm.c.header.hash, ?_, ?_⟩
      · rw [hexact, hbk]
        have : ppm.c = ⟨mkRef a.cfg tPP a.view ppm.c.header.hash, mySig a.cfg⟩ := by
          obtain ⟨⟨⟨t, ins, ht, vw, hs⟩, sd⟩, blk⟩ := ppm
          simp only at hown hh hv' ⊢
          obtain ⟨o1, o2, o3⟩ := hown
          subst o1 o2 o3 hh hv'
          rfl
        rw [← this]
      · cases hl : latestBlockFromVCs (a.store.getVCs a.cfg.height a.view) with
        | none =>
          rw [hl] at hsel
          exact hsel bk hbk
        | some x =>
          obtain ⟨b', h''⟩ := x
          rw [hl] at hsel
          simp only at hsel ⊢
          rw [hbk] at hsel
          exact ⟨Option.some.inj hsel.1, hsel.2⟩
    have hview' : ¬ ({ peer with cfg := a.cfg } : Node).view > a.view := by
      have : nvm.header.view = a.view := by rw [hexact]
      rw [this] at hview; exact hview
    have hcert : C07.ValidCertificate ({ peer with cfg := a.cfg } : Node) nvm :=
      C11.elected_newview_is_valid_certificate a.cfg a.view _ _ o hex rcpt nvm ho' rfl hview' hlead hq
        (by
          intro m hm
          have hf := hm
          unfold Store.getVCs at hf
          have h2 := (List.mem_filter.mp hf).2
          simp only [Bool.and_eq_true, beq_iff_eq] at h2
          refine ⟨h2.1, h2.2, ?_⟩
          rw [C11.isViewChangeValid_cfg ({ peer with cfg := a.cfg } : Node) a rfl]
          exact (hchk m hm).1)
        (by
          have := getVCs_nodup a hua.vcs a.cfg.height a.view
          rw [List.map_map] at this
          exact this)
        (by
          intro m hm
          have hm' : m ∈ a.store.vcs := by unfold Store.getVCs at hm; exact (List.mem_filter.mp hm).1
          exact ⟨hc.vcb m hm', (hchk m hm).2.2⟩)
    exact validCertificate_sim (q := { peer with cfg := a.cfg }) hsim rfl nvm hcert

/-- **the certificate of a commit callback is accepted by strict ValidateBlockConsensus** -/
theorem blk_cert (hwf : WF C) {e : Event} {spi0 : List Spi} {i : Nat} {a b : Node} {l : List Out} {g : List LEv} {T : List LEv} {H : List Ev}
    (hb : Blk e spi0 a b l g) (hc : Core C H i a T) (hua : Univ a) (hbo : BlocksOK a) :
    ∀ blk cs, Out.commit blk cs ∈ l → CertOK a.cfg blk cs := by
  cases hb with
  | quiet hq hs hl =>
    intro blk cs hm
    have := hl _ hm
    simp [stmtOf] at this
  | log op he => intro _ _ hm; cases hm
  | accept ppm f rcpt => intro _ _ hm; simp at hm
  | prepared v hash rcpt => intro _ _ hm; simp at hm
  | late h v hash rcpt hq => intro _ _ hm; simp at hm
  | voteSend vc rcpt => intro _ _ hm; simp at hm
  | voteStore vc => intro _ _ hm; cases hm
  | propose ppm f o hh hv' hnone hlnv hf ho =>
    intro blk cs hm
    simp only [List.mem_singleton] at hm
    rw [← hm] at ho
    simp [stmtOf] at ho
  | decide blk cs h v hash hq hs hcs hcq hpp =>
    intro blk' cs' hm hheight
    simp only [List.mem_singleton, Out.commit.injEq] at hm
    obtain ⟨rfl, rfl⟩ := hm
    obtain ⟨ppm, hg, hbk, hh⟩ := hpp
    obtain ⟨hin, _, _⟩ := getPP_spec hg
    have h1 := hbo ppm hin blk' hbk
    have hfit : C06.Fits a.cfg.members := by rw [hc.cfg]; exact hwf.fit
    rw [hcs] at hcq
    -- the commits are of this term's height
    have hh' : h = a.cfg.height := by
      cases hl : a.store.getCommits h v hash with
      | nil =>
        exfalso
        rw [hl] at hcq
        exact isQuorum_ne_nil a.cfg hfit _ hcq rfl
      | cons c rest =>
        have hm : c ∈ a.store.getCommits h v hash := by rw [hl]; exact List.mem_cons_self ..
        unfold Store.getCommits at hm
        rw [List.mem_filter] at hm
        have h2 := hm.2
        simp only [Bool.and_eq_true, beq_iff_eq] at h2
        rw [← h2.1.1]; exact (hua.clean.commits c hm.1).2
    rw [hcs]
    exact C03.stored_quorum_validates a h v hash blk' hua.commits hcq hfit.pos hfit.fits
      (fun cm hm => (hua.clean.commits cm hm).1) ⟨by rw [h1, hh], by rw [hheight, hh']⟩

/-- both halves together -/
theorem blk_body (hwf : WF C) {e : Event} {spi0 : List Spi} {i : Nat} {a b : Node} {l : List Out} {g : List LEv} {T : List LEv} {H : List Ev}
    (hb : Blk e spi0 a b l g) (hgate : Gate (C.cfg i) e) (hA2 : SpiA2 e spi0) (hmem : ∃ m ∈ C.ms, m.id = i)
    (hc : Core C H i a T) (hua : Univ a) (hub : Univ b) (hbody : Body a) :
    Body b ∧ OutsOK a.cfg l := by
  obtain ⟨b1, b2, b3⟩ := blk_blocks hwf hb hgate hA2 hc hub hbody.blocks hbody.vcblocks
  obtain ⟨v1, v2, v3⟩ := blk_votes hwf hb hgate hmem hc hua hbody.blocks hbody.ownVotes
  exact ⟨⟨b1, b2, v1⟩, b3, v2, blk_cert hwf hb hc hua hbody.blocks, v3⟩

end LeanHelix.Net
