import LeanHelix.Net.Blocks
/-!
# The network model, part 7: the delivered block commits to the certified hash

Consumer contract **A2**: `ValidateBlockProposal(block, hash)` answers nil only if the block commits to
the hash (`ValidateBlockCommitment`).  In the model the verdict is an SPI input; `SpiA2 e spi` says
that a step whose SPI answers begin with a positive verdict is delivering a proposal whose attached
block commits to its signed hash, and `TraceA2` that this holds for every step of the schedule.

Under `TraceA2`, every block a correct member has stored under a proposal, attached to a logged vote, or
handed to its commit callback commits to the hash it travels under (`reach_blocks`): for fresh proposals
by A2, for locked re-proposals because `handleNewView` / `handleViewChange` check the commitment against
the proven hash, for own proposals because the member signs the hash of the block its consumer returned.
-/
namespace LeanHelix.Net
open LeanHelix LeanHelix.Msg LeanHelix.Term LeanHelix.Spec
open LeanHelix.C01Local (GInv lift)

variable {C : NetCfg}

def evBlockOK : Event → Prop
  | .deliver (.preprepare m) => commitmentOk m.block m.c.header.hash = true
  | .deliver (.newView m) => commitmentOk m.block m.pp.header.hash = true
  | _ => True

/-- consumer contract A2 for one step -/
def SpiA2 (e : Event) (spi : List Spi) : Prop := ∀ cd rest, spi = Spi.verdict true cd :: rest → evBlockOK e

def TraceA2 (trace : List (Nat × Event × List Spi)) : Prop := ∀ t ∈ trace, SpiA2 t.2.1 t.2.2

/-- every stored proposal's block commits to the proposal's signed hash -/
def BlocksOK (n : Node) : Prop := ∀ ppm ∈ n.store.pps, ∀ b, ppm.block = some b → b.hash = ppm.c.header.hash

/-- every logged vote's block commits to the hash its proof certifies -/
def VCBlocksOK (n : Node) : Prop :=
  ∀ m ∈ n.store.vcs, ∀ b p, m.block = some b → m.c.header.proof = some p → b.hash = p.pRef.hash

theorem commitmentOk_some {b : Block} {h : Nat} (hc : commitmentOk (some b) h = true) : b.hash = h := by
  simpa [commitmentOk] using hc

theorem blocksOK_storePP {a : Node} (ppm : PPMsg) (h : BlocksOK a) (hb : ∀ b, ppm.block = some b → b.hash = ppm.c.header.hash) :
    ∀ x ∈ (a.store.storePP ppm).pps, ∀ b, x.block = some b → b.hash = x.c.header.hash := by
  intro x hx b hxb
  rcases mem_storePP hx with hx | rfl
  · exact h x hx b hxb
  · exact hb b hxb

/-- **one atomic block keeps the block-body invariants** (under A2 for this step), and a commit
callback gets a block that commits to the certified hash -/
theorem blk_blocks (hwf : WF C) {e : Event} {spi0 : List Spi} {i : Nat} {a b : Node} {l : List Out} {g : List LEv} {T : List LEv} {H : List Ev}
    (hb : Blk e spi0 a b l g) (hgate : Gate (C.cfg i) e) (hA2 : SpiA2 e spi0)
    (hc : Core C H i a T) (hub : Univ b) (hbo : BlocksOK a) (hvo : VCBlocksOK a) :
    BlocksOK b ∧ VCBlocksOK b ∧ ∀ blk cs, Out.commit blk cs ∈ l → blk.hash = commitHash cs := by
  cases hb with
  | quiet hq hs hl =>
    refine ⟨by unfold BlocksOK; rw [hs]; exact hbo, by unfold VCBlocksOK; rw [hs]; exact hvo, ?_⟩
    intro blk cs hm
    have := hl _ hm
    simp [stmtOf] at this
  | log op he =>
    refine ⟨?_, ?_, fun _ _ hm => by cases hm⟩
    · cases op with
      | pp m => exfalso; cases e <;> first | (simp [evOp] at he; done) | (rename_i m'; cases m' <;> simp [evOp] at he)
      | prepare m => unfold BlocksOK; show ∀ ppm ∈ (a.store.storePrepare m).pps, _; rw [storePrepare_pps]; exact hbo
      | commit m => unfold BlocksOK; show ∀ ppm ∈ (a.store.storeCommit m).pps, _; rw [storeCommit_pps]; exact hbo
      | vc m => unfold BlocksOK; show ∀ ppm ∈ (a.store.storeVC m).pps, _; rw [storeVC_pps]; exact hbo
    · cases op with
      | pp m => unfold VCBlocksOK; show ∀ x ∈ (a.store.storePP m).vcs, _; rw [storePP_vcs]; exact hvo
      | prepare m => unfold VCBlocksOK; show ∀ x ∈ (a.store.storePrepare m).vcs, _; rw [storePrepare_vcs]; exact hvo
      | commit m => unfold VCBlocksOK; show ∀ x ∈ (a.store.storeCommit m).vcs, _; rw [storeCommit_vcs]; exact hvo
      | vc m =>
        obtain ⟨hnotme, _⟩ := gate_vc he hgate
        intro x hx bk p hxb hxp
        rcases mem_storeVC hx with hx' | rfl
        · exact hvo x hx' bk p hxb hxp
        · rcases hub.vcs.auth x hx with hchk | hmine
          · obtain ⟨h1, _, h3⟩ := hchk
            have hcm := h3 (by rw [hxb]; rfl)
            rw [hxb, hxp] at hcm
            have := commitmentOk_some hcm
            obtain ⟨_, _, _, _, _, s6⟩ := isViewChangeValid_spec _ x.c h1
            rw [hxp] at s6
            rw [this, validatePreparedProof_hash _ _ _ p s6]
            rfl
          · exfalso; apply hnotme; rw [hmine, hc.cfg]; rfl
  | accept ppm f rcpt hh hv' hnone hnl hlock hsrc hval =>
    refine ⟨?_, ?_, fun _ _ hm => by simp at hm⟩
    · have hbk : ∀ bk, ppm.block = some bk → bk.hash = ppm.c.header.hash := by
        intro bk hbk
        rcases hsrc with ⟨he, hf⟩ | ⟨nvm, he, hppm, hf, hchk⟩
        · obtain ⟨cd, rest, hspi⟩ := hval (Or.inl hf)
          have := hA2 cd rest hspi
          rw [he] at this
          simp only [evBlockOK] at this
          rw [hbk] at this
          exact commitmentOk_some this
        · cases hlv : latestVote nvm.header.votes with
          | none =>
            obtain ⟨cd, rest, hspi⟩ := hval (Or.inr ⟨nvm, he, hlv⟩)
            have := hA2 cd rest hspi
            rw [he] at this
            simp only [evBlockOK] at this
            rw [hppm] at hbk ⊢
            simp only at hbk ⊢
            rw [hbk] at this
            exact commitmentOk_some this
          | some lv =>
            obtain ⟨_, _, _, _, hlock'⟩ := hchk
            unfold lockOk at hlock'
            rw [hlv] at hlock'
            simp only [Bool.and_eq_true, beq_iff_eq] at hlock'
            rw [hppm] at hbk ⊢
            simp only at hbk ⊢
            rw [hbk] at hlock'
            rw [hlock'.2]
            exact commitmentOk_some hlock'.1.2
      intro x hx bk hxb
      have hx' : x ∈ (a.store.storePP ppm).pps := by
        have : (acceptNode a ppm).store.pps = (a.store.storePP ppm).pps := storePrepare_pps _ _
        rw [this] at hx; exact hx
      exact blocksOK_storePP ppm hbo hbk x hx' bk hxb
    · unfold VCBlocksOK
      show ∀ x ∈ ((a.store.storePP ppm).storePrepare _).vcs, _
      rw [storePrepare_vcs, storePP_vcs]; exact hvo
  | prepared v hash rcpt hv' hnot hpp hproof =>
    refine ⟨?_, ?_, fun _ _ hm => by simp at hm⟩
    · unfold BlocksOK; show ∀ ppm ∈ (a.store.storeCommit _).pps, _; rw [storeCommit_pps]; exact hbo
    · unfold VCBlocksOK; show ∀ x ∈ (a.store.storeCommit _).vcs, _; rw [storeCommit_vcs]; exact hvo
  | late h v hash rcpt hq => exact ⟨hbo, hvo, fun _ _ hm => by simp at hm⟩
  | decide blk cs h v hash hq hs hcs hcq hpp =>
    refine ⟨by unfold BlocksOK; rw [hs]; exact hbo, by unfold VCBlocksOK; rw [hs]; exact hvo, ?_⟩
    intro blk' cs' hm
    simp only [List.mem_singleton, Out.commit.injEq] at hm
    obtain ⟨rfl, rfl⟩ := hm
    obtain ⟨ppm, hg, hbk, hh⟩ := hpp
    obtain ⟨hin, _, _⟩ := getPP_spec hg
    have h1 := hbo ppm hin blk' hbk
    have hne : cs' ≠ [] := by
      intro he
      have := isQuorum_ne_nil a.cfg (by rw [hc.cfg]; exact hwf.fit) _ hcq
      rw [he] at this; exact this rfl
    rw [hcs] at hne ⊢
    rw [commitHash_getCommits _ _ _ _ hne, h1, hh]
  | propose ppm f o hh hv' hnone hlnv hf ho hown hsrc hreq hblk hmsg =>
    refine ⟨?_, ?_, ?_⟩
    · have hbk : ∀ bk, ppm.block = some bk → bk.hash = ppm.c.header.hash := by
        intro bk hbk
        obtain ⟨b', hb', hcase⟩ := hblk
        have : b' = bk := by rw [hb'] at hbk; exact Option.some.inj hbk
        subst this
        rcases hcase with h1 | ⟨h', hsome⟩
        · exact h1
        · obtain ⟨m, hm, hmb, hhash, _⟩ := (C09.latestBlockFromVCs_spec (a.store.getVCs h' a.view)).2 b' _ hsome
          unfold Store.getVCs at hm
          rw [List.mem_filter] at hm
          have hps : m.c.header.proof.isSome = true := by rw [← hc.vcb m hm.1, hmb]; rfl
          cases hp : m.c.header.proof with
          | none => rw [hp] at hps; cases hps
          | some p0 =>
            rw [hp] at hhash
            simp only at hhash
            rw [hhash]
            exact hvo m hm.1 b' p0 hmb hp
      exact blocksOK_storePP ppm hbo hbk
    · unfold VCBlocksOK; show ∀ x ∈ (a.store.storePP ppm).vcs, _; rw [storePP_vcs]; exact hvo
    · intro blk cs hm
      simp only [List.mem_singleton] at hm
      rw [← hm] at ho
      simp [stmtOf] at ho
  | voteSend vc rcpt hv' hp hpv hown => exact ⟨hbo, hvo, fun _ _ hm => by simp at hm⟩
  | voteStore vc hv' hp hown hpv hbk =>
    refine ⟨?_, ?_, fun _ _ hm => by cases hm⟩
    · unfold BlocksOK; show ∀ ppm ∈ (a.store.storeVC vc).pps, _; rw [storeVC_pps]; exact hbo
    · intro x hx bk p hxb hxp
      rcases mem_storeVC hx with hx' | rfl
      · exact hvo x hx' bk p hxb hxp
      · rcases vote_payload hc.ginv hc.prepBlock with ⟨_, hn, _⟩ | ⟨pv, p', b', ppm, _, hex, hs, hsb, _, hg, _, _, e3, _⟩
        · rw [hp, hn] at hxp; cases hxp
        · rw [hp, hs] at hxp
          have : p' = p := Option.some.inj hxp
          subst this
          rw [hbk, hsb] at hxb
          obtain ⟨hin, _, _⟩ := getPP_spec hg
          have hb' : b' = ppm.block := by
            obtain ⟨ppm2, _, hg2, _, _, _, _, _, e5⟩ := extractProof_shape a pv p' b' hex
            rw [hg] at hg2
            rw [e5, Option.some.inj hg2]
          rw [hb'] at hxb
          rw [e3]
          exact hbo ppm hin bk hxb

end LeanHelix.Net
