import LeanHelix.Net.Certs
/-!
# The network model, part 3: N correct nodes, an adversary, and the global history

`Net` is the state of one height of one instance: the term-model state of every member (only the
correct members' states matter), what each of them has emitted, and the ghost history `H` of the
statements correct members have made (`Spec.Ev`, newest first).  A step (`NStep`) lets one correct
member handle one event of the term model (`Term.step`: start, any delivered message, election
trigger, cancellation — with any SPI answers), provided

* `Gate`: the event is one the worker's filter lets through (this instance, this height, not from this
  node — established for the worker model in `C08Worker` / `C17`), and a VIEW_CHANGE's attached block
  does not have the empty hash (SPI contract: no block commits to the empty hash);
* `AdmEvent`: every verifying signature of a correct member inside the delivered message, over a
  statement of this instance and height, matches a statement that member has made (`Net/Adm.lean`).

Delivering *any* such message at *any* time to *any* correct member covers loss, duplication,
reordering, delay, replay, equivocation and arbitrary constructions by Byzantine members and
outsiders.  The ghost history is extended with the statements of the atomic blocks of the step
(`Lemmas/TermRuns.lean`).
-/
namespace LeanHelix.Net
open LeanHelix LeanHelix.Msg LeanHelix.Term LeanHelix.Spec

variable (C : NetCfg)

/-! ## owners of statements -/

def evOwner : Ev → Nat
  | .acc n _ _ => n
  | .com n _ _ => n
  | .lcom n _ _ => n
  | .vote n _ _ => n
  | .dec n _ => n

def mine (i : Nat) (e : Ev) : Bool := evOwner e == i

theorem evOwner_lift (i : Nat) (x : LEv) : evOwner (C01Local.lift i x) = i := by
  cases x <;> rfl

theorem mine_lift (i : Nat) (x : LEv) : mine i (C01Local.lift i x) = true := by
  unfold mine; rw [evOwner_lift]; exact beq_self_eq_true i

theorem mine_lift_ne {i j : Nat} (h : i ≠ j) (x : LEv) : mine j (C01Local.lift i x) = false := by
  unfold mine; rw [evOwner_lift]; simpa using h

theorem lift_inj_acc {i : Nat} {x : LEv} {v h : Nat} (e : C01Local.lift i x = Ev.acc i v h) : ∃ f, x = .acc v h f := by
  cases x <;> simp [C01Local.lift] at e
  exact ⟨_, by rw [e.1, e.2]⟩

theorem lift_inj_com {i : Nat} {x : LEv} {v h : Nat} (e : C01Local.lift i x = Ev.com i v h) : x = .com v h := by
  cases x <;> simp [C01Local.lift] at e
  rw [e.1, e.2]

theorem lift_inj_vote {i : Nat} {x : LEv} {v : Nat} {pf : Option (Nat × Nat)} (e : C01Local.lift i x = Ev.vote i v pf) :
    ∃ s, x = .vote v pf s := by
  cases x <;> simp [C01Local.lift] at e
  exact ⟨_, by rw [e.1, e.2]⟩

theorem lift_inj_dec {i : Nat} {x : LEv} {h : Nat} (e : C01Local.lift i x = Ev.dec i h) : x = .dec h := by
  cases x <;> simp [C01Local.lift] at e
  rw [e]

section sees
variable {i : Nat} {H : List Ev} {T : List LEv} (hs : H.filter (mine i) = T.map (C01Local.lift i))
include hs

theorem mem_H_of_T {x : LEv} (hx : x ∈ T) : C01Local.lift i x ∈ H := by
  have : C01Local.lift i x ∈ T.map (C01Local.lift i) := List.mem_map.mpr ⟨x, hx, rfl⟩
  rw [← hs, List.mem_filter] at this
  exact this.1

theorem mem_T_of_H {e : Ev} (he : e ∈ H) (ho : evOwner e = i) : ∃ x ∈ T, C01Local.lift i x = e := by
  have : e ∈ H.filter (mine i) := by
    rw [List.mem_filter]; exact ⟨he, by unfold mine; rw [ho]; exact beq_self_eq_true i⟩
  rw [hs, List.mem_map] at this
  exact this

theorem sees_of_filter : C01Local.Sees i H T where
  acc := by
    intro v h
    constructor
    · intro hm
      obtain ⟨x, hx, e⟩ := mem_T_of_H hs hm rfl
      obtain ⟨f, rfl⟩ := lift_inj_acc e
      exact ⟨f, hx⟩
    · intro ⟨f, hf⟩
      exact mem_H_of_T hs hf
  vote := by
    intro v pf hm
    obtain ⟨x, hx, e⟩ := mem_T_of_H hs hm rfl
    obtain ⟨s, rfl⟩ := lift_inj_vote e
    exact ⟨s, hx⟩
  com := by
    intro v h
    constructor
    · intro hm
      obtain ⟨x, hx, e⟩ := mem_T_of_H hs hm rfl
      rw [lift_inj_com e] at hx
      exact hx
    · intro hm
      exact mem_H_of_T hs hm

end sees

/-! ## what the worker lets through -/

def msgSenderId : Message → Nat
  | .preprepare m => m.c.sender.id
  | .prepare m => m.sender.id
  | .commit m => m.sender.id
  | .viewChange m => m.c.sender.id
  | .newView m => m.sender.id

def noEmptyBlock : Message → Prop
  | .viewChange m => ∀ b, m.block = some b → b.hash ≠ emptyBytes
  | _ => True

def Gate (c : Cfg) : Event → Prop
  | .start _ => True
  | .deliver m => msgInstT m = c.inst ∧ msgHeightT m = c.height ∧ msgSenderId m ≠ c.me ∧ noEmptyBlock m
  | _ => True

theorem eventLocal_of_gate (n : Node) (e : Event) (h : Gate n.cfg e) (hns : ∀ c, e ≠ .start c) : EventLocal n e := by
  cases e with
  | start c => exact absurd rfl (hns c)
  | election _ _ => trivial
  | cancelOlder _ _ => trivial
  | deliver m =>
    cases m with
    | preprepare x => exact ⟨h.2.1, h.2.2.1⟩
    | prepare x => exact h.2.1
    | commit x => trivial
    | viewChange x => trivial
    | newView x => exact ⟨h.2.1, h.2.2.1⟩

theorem eventClean_of_gate (n : Node) (e : Event) (h : Gate n.cfg e) : EventClean n e := by
  cases e with
  | start c => trivial
  | election _ _ => trivial
  | cancelOlder _ _ => trivial
  | deliver m => exact ⟨h.1, h.2.1⟩

/-! ## the universal log invariants, and their inheritance by earlier logs -/

structure Univ (n : Node) : Prop where
  commits : C03.CommitsOK n
  prepares : C11.PreparesOK n
  proposals : C04.ProposalsOK n
  vcs : C11.VCsOK n
  clean : LogClean n
  ownNL : OwnPreparesNL n

structure StoreLe (a b : Store) : Prop where
  pps : a.pps <+: b.pps
  prepares : a.prepares <+: b.prepares
  commits : a.commits <+: b.commits
  vcs : a.vcs <+: b.vcs

theorem StoreLe.refl (a : Store) : StoreLe a a :=
  ⟨List.prefix_refl _, List.prefix_refl _, List.prefix_refl _, List.prefix_refl _⟩

theorem StoreLe.trans {a b c : Store} (h1 : StoreLe a b) (h2 : StoreLe b c) : StoreLe a c :=
  ⟨h1.pps.trans h2.pps, h1.prepares.trans h2.prepares, h1.commits.trans h2.commits, h1.vcs.trans h2.vcs⟩

theorem StoreLe.of_eq {a b : Store} (h : b = a) : StoreLe a b := by rw [h]; exact StoreLe.refl a

theorem storePP_pps_prefix (s : Store) (m : PPMsg) : s.pps <+: (s.storePP m).pps := by
  unfold Store.storePP; split
  · exact List.prefix_refl _
  · exact List.prefix_append _ _
theorem storeCommit_prefix (s : Store) (m : CMsg) : s.commits <+: (s.storeCommit m).commits := by
  unfold Store.storeCommit; split
  · exact List.prefix_refl _
  · exact List.prefix_append _ _
theorem storeVC_prefix (s : Store) (m : VCMsg) : s.vcs <+: (s.storeVC m).vcs := by
  unfold Store.storeVC; split
  · exact List.prefix_refl _
  · exact List.prefix_append _ _
theorem storePP_commits (s : Store) (m : PPMsg) : (s.storePP m).commits = s.commits := by unfold Store.storePP; split <;> rfl
theorem storePP_vcs (s : Store) (m : PPMsg) : (s.storePP m).vcs = s.vcs := by unfold Store.storePP; split <;> rfl
theorem storePrepare_commits (s : Store) (m : PMsg) : (s.storePrepare m).commits = s.commits := by unfold Store.storePrepare; split <;> rfl
theorem storePrepare_vcs (s : Store) (m : PMsg) : (s.storePrepare m).vcs = s.vcs := by unfold Store.storePrepare; split <;> rfl
theorem storeCommit_vcs (s : Store) (m : CMsg) : (s.storeCommit m).vcs = s.vcs := by unfold Store.storeCommit; split <;> rfl
theorem storeVC_commits (s : Store) (m : VCMsg) : (s.storeVC m).commits = s.commits := by unfold Store.storeVC; split <;> rfl

theorem storeLe_apply (s : Store) (op : StoreOp) : StoreLe s (s.apply op) := by
  cases op with
  | pp m => exact ⟨storePP_pps_prefix s m, by show _ <+: (s.storePP m).prepares; rw [storePP_prepares]; exact List.prefix_refl _,
      by show _ <+: (s.storePP m).commits; rw [storePP_commits]; exact List.prefix_refl _,
      by show _ <+: (s.storePP m).vcs; rw [storePP_vcs]; exact List.prefix_refl _⟩
  | prepare m => exact ⟨by show _ <+: (s.storePrepare m).pps; rw [storePrepare_pps]; exact List.prefix_refl _, storePrepare_prefix s m,
      by show _ <+: (s.storePrepare m).commits; rw [storePrepare_commits]; exact List.prefix_refl _,
      by show _ <+: (s.storePrepare m).vcs; rw [storePrepare_vcs]; exact List.prefix_refl _⟩
  | commit m => exact ⟨by show _ <+: (s.storeCommit m).pps; rw [storeCommit_pps]; exact List.prefix_refl _,
      by show _ <+: (s.storeCommit m).prepares; rw [storeCommit_prepares]; exact List.prefix_refl _, storeCommit_prefix s m,
      by show _ <+: (s.storeCommit m).vcs; rw [storeCommit_vcs]; exact List.prefix_refl _⟩
  | vc m => exact ⟨by show _ <+: (s.storeVC m).pps; rw [storeVC_pps]; exact List.prefix_refl _,
      by show _ <+: (s.storeVC m).prepares; rw [storeVC_prepares]; exact List.prefix_refl _,
      by show _ <+: (s.storeVC m).commits; rw [storeVC_commits]; exact List.prefix_refl _, storeVC_prefix s m⟩

theorem nodup_map_prefix {α β} (f : α → β) {l1 l2 : List α} (h : l1 <+: l2) (hn : (l2.map f).Nodup) : (l1.map f).Nodup :=
  List.Nodup.sublist (List.Sublist.map f h.sublist) hn

/-- every earlier log of the same node satisfies the universal invariants of a later one -/
theorem Univ.sub {a fin : Node} (hc : a.cfg = fin.cfg) (hs : StoreLe a.store fin.store) (h : Univ fin) : Univ a where
  commits := ⟨by intro cm hcm; rw [hc]; exact h.commits.auth cm (hs.commits.subset hcm), nodup_map_prefix _ hs.commits h.commits.keys⟩
  prepares := ⟨by intro pm hpm; rw [hc]; exact h.prepares.auth pm (hs.prepares.subset hpm), nodup_map_prefix _ hs.prepares h.prepares.keys⟩
  proposals := by intro ppm hp; rw [hc]; exact h.proposals ppm (hs.pps.subset hp)
  vcs := ⟨by
    intro m hm
    rcases h.vcs.auth m (hs.vcs.subset hm) with hv | hv
    · left
      unfold C11.VoteChecked at hv ⊢
      rw [C11.isViewChangeValid_cfg a fin hc]; exact hv
    · right; rw [hc]; exact hv, nodup_map_prefix _ hs.vcs h.vcs.keys⟩
  clean := ⟨by intro m hm; rw [hc]; exact h.clean.pps m (hs.pps.subset hm), by intro m hm; rw [hc]; exact h.clean.prepares m (hs.prepares.subset hm),
    by intro m hm; rw [hc]; exact h.clean.commits m (hs.commits.subset hm), by intro m hm; rw [hc]; exact h.clean.vcs m (hs.vcs.subset hm)⟩
  ownNL := by intro pm hpm hsig; rw [hc] at hsig ⊢; exact h.ownNL pm (hs.prepares.subset hpm) hsig

/-- own PREPAREs are only ever logged for views the node does not lead (messages claiming the node's
own id are dropped by the gate) -/
theorem step_evN (n : Node) (e : Event) (spi : List Spi) (hg : Gate n.cfg e) : Evolves OwnNL n (step n e spi).1 := by
  cases e with
  | start c => exact startTerm_evN { n := n, spi := spi } c
  | election h v => exact election_evN { n := n, spi := spi } h v
  | cancelOlder h v => exact ev_other rfl rfl
  | deliver m =>
    cases m with
    | preprepare m => exact handlePrePrepare_evN { n := n, spi := spi } m hg.2.2.1
    | prepare m => exact handlePrepare_evN { n := n, spi := spi } m hg.2.2.1
    | commit m => exact handleCommit_evN { n := n, spi := spi } m
    | viewChange m => exact handleViewChange_evN { n := n, spi := spi } m
    | newView m => exact handleNewView_evN { n := n, spi := spi } m hg.2.2.1

theorem blk_storeLe {e : Event} {spi0 : List Spi} {a b : Node} {l : List Out} {g : List LEv} (h : Blk e spi0 a b l g) : StoreLe a.store b.store := by
  cases h with
  | quiet _ hs _ => exact StoreLe.of_eq hs
  | log op _ => exact storeLe_apply _ op
  | accept ppm f rcpt => exact (storeLe_apply a.store (.pp ppm)).trans (storeLe_apply _ (.prepare _))
  | prepared v hash rcpt => exact storeLe_apply a.store (.commit _)
  | late => exact StoreLe.refl _
  | decide _ _ _ _ _ _ hs => exact StoreLe.of_eq hs
  | propose ppm => exact storeLe_apply a.store (.pp ppm)
  | voteSend => exact StoreLe.refl _
  | voteStore vc => exact storeLe_apply a.store (.vc vc)

theorem runs_storeLe {e : Event} {spi0 : List Spi} {w w' : Term.W} {g : List LEv} (h : Runs e spi0 w w' g) : StoreLe w.n.store w'.n.store := by
  induction h with
  | refl => exact StoreLe.refl _
  | blk _ hb => exact blk_storeLe hb
  | trans _ _ ih1 ih2 => exact ih1.trans ih2

end LeanHelix.Net
