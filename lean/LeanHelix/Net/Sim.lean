import LeanHelix.Net.Reach
/-!
# The network model, part 6: an executable schedule runner, to exhibit reachable states

`sim` runs a schedule (member, event, SPI answers) with `Term.step`; `okStep` is a *decidable,
sufficient* condition for each step to be a step of the network model (`NStep`): the member is a
correct committee member, the event passes the filter, and — for PREPREPARE / PREPARE / COMMIT
deliveries — every verifying signature of a correct member in it matches something that member has
sent.  `sim_reach`: a schedule whose steps are all ok ends in a reachable state of the network with
exactly the simulated node states and outputs.  Used for the non-vacuity examples of `Props/C01Net`.
-/
namespace LeanHelix.Net
open LeanHelix LeanHelix.Msg LeanHelix.Term LeanHelix.Spec
open LeanHelix.C01Local (lift)

variable {C : NetCfg}

/-! ## what a correct member has sent is in the history -/

theorem mem_erase_acc' {T : List LEv} {v h : Nat} (hm : Stmt.acc v h ∈ T.filterMap Term.erase) : ∃ f, LEv.acc v h f ∈ T :=
  C01Local.mem_erase_acc hm

theorem mem_erase_cmt {T : List LEv} {v h : Nat} (hm : Stmt.cmt v h ∈ T.filterMap Term.erase) :
    LEv.com v h ∈ T ∨ LEv.lcom v h ∈ T := by
  rw [List.mem_filterMap] at hm
  obtain ⟨e, he, hx⟩ := hm
  cases e with
  | com v' h' => simp only [Term.erase, Option.some.injEq, Stmt.cmt.injEq] at hx; obtain ⟨rfl, rfl⟩ := hx; exact Or.inl he
  | lcom v' h' => simp only [Term.erase, Option.some.injEq, Stmt.cmt.injEq] at hx; obtain ⟨rfl, rfl⟩ := hx; exact Or.inr he
  | acc v' h' f => simp [Term.erase] at hx
  | dec h' => simp [Term.erase] at hx
  | vote v' pf s => cases s <;> simp [Term.erase] at hx

/-- every statement-carrying effect a started correct member has emitted is in the global history -/
theorem stmt_in_history (hwf : WF C) {net : Net} (hinv : NetInv C hwf net) {i : Nat} (hh : C.honest i = true)
    (hm : ∃ m ∈ C.ms, m.id = i) (hs : net.started i = true) {o : Out} (ho : o ∈ net.outs i) :
    (∀ v h, stmtOf o = some (.acc v h) → Ev.acc i v h ∈ net.H)
    ∧ (∀ v h, stmtOf o = some (.cmt v h) → Ev.com i v h ∈ net.H ∨ Ev.lcom i v h ∈ net.H) := by
  obtain ⟨⟨T, hcore, herase⟩, _, _, _, _⟩ := hinv.nodes i hh hm hs
  constructor
  · intro v h hst
    have h1 : Stmt.acc v h ∈ (net.outs i).filterMap stmtOf := List.mem_filterMap.mpr ⟨_, ho, hst⟩
    rw [herase] at h1
    obtain ⟨f, hf⟩ := mem_erase_acc' h1
    exact mem_H_of_T hcore.sees (List.mem_reverse.mp hf)
  · intro v h hst
    have h1 : Stmt.cmt v h ∈ (net.outs i).filterMap stmtOf := List.mem_filterMap.mpr ⟨_, ho, hst⟩
    rw [herase] at h1
    rcases mem_erase_cmt h1 with hf | hf
    · exact Or.inl (mem_H_of_T hcore.sees (List.mem_reverse.mp hf))
    · exact Or.inr (mem_H_of_T hcore.sees (List.mem_reverse.mp hf))

/-! ## decidable sufficient conditions -/

def isMemberB (C : NetCfg) (i : Nat) : Bool := C.ms.any (fun m => m.id == i)

theorem isMemberB_spec {i : Nat} (h : isMemberB C i = true) : ∃ m ∈ C.ms, m.id = i := by
  unfold isMemberB at h
  rw [List.any_eq_true] at h
  obtain ⟨m, hm, he⟩ := h
  exact ⟨m, hm, by simpa using he⟩

def hasStmt (outs : List Out) (s : Stmt) : Bool := outs.any (fun o => stmtOf o == some s)

theorem hasStmt_spec {outs : List Out} {s : Stmt} (h : hasStmt outs s = true) : ∃ o ∈ outs, stmtOf o = some s := by
  unfold hasStmt at h
  rw [List.any_eq_true] at h
  obtain ⟨o, ho, he⟩ := h
  exact ⟨o, ho, by simpa using he⟩

/-- a signed block reference whose correct signer (if the signature verifies and the statement is of
this instance and height) has started, is a member and has sent the matching statement -/
def admRefB (C : NetCfg) (started : Nat → Bool) (outs : Nat → List Out) (r : BlockRef) (s : SSig) : Bool :=
  !(r.inst == C.inst && r.height == C.height && s.ok && C.honest s.id)
  || (started s.id && isMemberB C s.id
      && (!(r.mtype == tPP || r.mtype == tP) || hasStmt (outs s.id) (.acc r.view r.hash))
      && (!(r.mtype == tC) || hasStmt (outs s.id) (.cmt r.view r.hash)))

theorem admRefB_sound (hwf : WF C) {net : Net} (hinv : NetInv C hwf net) {r : BlockRef} {s : SSig}
    (h : admRefB C net.started net.outs r s = true) : AdmRef C net.H r s := by
  intro h1 h2
  unfold admRefB at h
  simp only [Bool.or_eq_true, Bool.not_eq_true', Bool.and_eq_false_iff, Bool.and_eq_true, beq_iff_eq,
    beq_eq_false_iff_ne, ne_eq] at h
  constructor
  · intro ht ok hh
    rcases h with h | h
    · rcases h with ((h | h) | h) | h
      · exact absurd h1 h
      · exact absurd h2 h
      · rw [ok] at h; cases h
      · rw [hh] at h; cases h
    · obtain ⟨⟨⟨hst, hmem⟩, hacc⟩, _⟩ := h
      have hmem' := isMemberB_spec hmem
      rcases hacc with hn | hacc
      · exfalso
        rcases ht with ht | ht
        · rw [ht] at hn; simp at hn
        · rw [ht] at hn; simp at hn
      · obtain ⟨o, ho, hso⟩ := hasStmt_spec hacc
        exact (stmt_in_history hwf hinv hh hmem' hst ho).1 _ _ hso
  · intro ht ok hh
    rcases h with h | h
    · rcases h with ((h | h) | h) | h
      · exact absurd h1 h
      · exact absurd h2 h
      · rw [ok] at h; cases h
      · rw [hh] at h; cases h
    · obtain ⟨⟨⟨hst, hmem⟩, _⟩, hcm⟩ := h
      have hmem' := isMemberB_spec hmem
      rcases hcm with hn | hcm
      · rw [ht] at hn; simp at hn
      · obtain ⟨o, ho, hso⟩ := hasStmt_spec hcm
        exact (stmt_in_history hwf hinv hh hmem' hst ho).2 _ _ hso

def gateB (c : Cfg) : Event → Bool
  | .start _ => false
  | .deliver m => msgInstT m == c.inst && msgHeightT m == c.height && msgSenderId m != c.me
      && (match m with
          | .viewChange x => (match x.block with | some b => b.hash != emptyBytes | none => true)
          | _ => true)
  | _ => true

/-- some started correct member has sent exactly this message -/
def sentB (C : NetCfg) (started : Nat → Bool) (outs : Nat → List Out) (m : Message) : Bool :=
  C.ms.any (fun x => C.honest x.id && started x.id
    && (outs x.id).any (fun o => match o with | .send _ m' => decide (m' = m) | _ => false))

/-- whatever a correct member sent may be delivered: it is admissible (`NodeInv.sends`) -/
theorem sentB_sound (hwf : WF C) {net : Net} (hinv : NetInv C hwf net) {m : Message}
    (h : sentB C net.started net.outs m = true) : AdmMsg C net.H m := by
  unfold sentB at h
  rw [List.any_eq_true] at h
  obtain ⟨x, hx, hc⟩ := h
  simp only [Bool.and_eq_true, List.any_eq_true] at hc
  obtain ⟨⟨hh, hs⟩, o, ho, hm⟩ := hc
  cases o with
  | send rcpt m' =>
    simp only [decide_eq_true_eq] at hm
    subst hm
    exact (hinv.nodes x.id hh ⟨x, hx, rfl⟩ hs).sends rcpt m' ho
  | commit _ _ => simp at hm
  | registerElection _ _ => simp at hm
  | callRequest _ => simp at hm
  | callValidate _ _ _ => simp at hm
  | goPanic _ => simp at hm

/-- admissibility, decided for deliveries of messages a correct member sent (any kind), for forged
PREPREPARE / PREPARE / COMMIT deliveries, election triggers and cancellations -/
def admB (C : NetCfg) (started : Nat → Bool) (outs : Nat → List Out) : Event → Bool
  | .deliver m => sentB C started outs m ||
      (match m with
       | .preprepare m => admRefB C started outs m.c.header m.c.sender
       | .prepare m => admRefB C started outs m.header m.sender
       | .commit m => admRefB C started outs m.header m.sender
       | _ => false)
  | .start _ => false
  | _ => true

structure SimState where
  node : Nat → Node
  started : Nat → Bool
  outs : Nat → List Out

def SimState.init (C : NetCfg) : SimState := ⟨fun i => { cfg := C.cfg i }, fun _ => false, fun _ => []⟩

abbrev SStep := Nat × Event × List Spi

def simStep (s : SimState) (x : SStep) : SimState :=
  let r := step (s.node x.1) x.2.1 x.2.2
  ⟨upd s.node x.1 r.1, upd s.started x.1 true, upd s.outs x.1 (s.outs x.1 ++ r.2)⟩

def okStep (C : NetCfg) (s : SimState) (x : SStep) : Bool :=
  C.honest x.1 && isMemberB C x.1 &&
    (match x.2.1 with
     | .start _ => !s.started x.1
     | e => s.started x.1 && gateB (C.cfg x.1) e && admB C s.started s.outs e)

def simOk (C : NetCfg) : SimState → List SStep → Bool
  | _, [] => true
  | s, x :: xs => okStep C s x && simOk C (simStep s x) xs

def sim (s : SimState) (xs : List SStep) : SimState := xs.foldl simStep s

/-- a network state agrees with a simulated state -/
def Agrees (net : Net) (s : SimState) : Prop := net.node = s.node ∧ net.started = s.started ∧ net.outs = s.outs

theorem gateB_sound {c : Cfg} {e : Event} (h : gateB c e = true) : Gate c e ∧ ∀ b, e ≠ .start b := by
  cases e with
  | start b => simp [gateB] at h
  | election _ _ => exact ⟨trivial, fun _ h => by cases h⟩
  | cancelOlder _ _ => exact ⟨trivial, fun _ h => by cases h⟩
  | deliver m =>
    refine ⟨?_, fun _ h => by cases h⟩
    simp only [gateB, Bool.and_eq_true, beq_iff_eq, bne_iff_ne, ne_eq] at h
    refine ⟨h.1.1.1, h.1.1.2, h.1.2, ?_⟩
    cases m with
    | viewChange x =>
      intro b hb
      have h2 := h.2
      simp only [hb, bne_iff_ne, ne_eq] at h2
      exact h2
    | preprepare x => trivial
    | prepare x => trivial
    | commit x => trivial
    | newView x => trivial

theorem admB_sound (hwf : WF C) {net : Net} (hinv : NetInv C hwf net) {e : Event}
    (h : admB C net.started net.outs e = true) : AdmEvent C net.H e := by
  cases e with
  | start b => trivial
  | election _ _ => trivial
  | cancelOlder _ _ => trivial
  | deliver m =>
    simp only [admB, Bool.or_eq_true] at h
    rcases h with h | h
    · exact sentB_sound hwf hinv h
    · cases m with
      | preprepare x => exact admRefB_sound hwf hinv h
      | prepare x => exact admRefB_sound hwf hinv h
      | commit x => exact admRefB_sound hwf hinv h
      | viewChange x => simp at h
      | newView x => simp at h

/-- **a schedule whose steps all pass the decidable checks is an execution of the network model** -/
theorem sim_reach (hwf : WF C) (xs : List SStep) : ∀ (s : SimState) (net : Net), Reach C net → Agrees net s →
    simOk C s xs = true → ∃ net', Reach C net' ∧ Agrees net' (sim s xs) ∧ net'.trace = xs.reverse ++ net.trace := by
  induction xs with
  | nil => intro s net hr ha _; exact ⟨net, hr, ha, rfl⟩
  | cons x xs ih =>
    intro s net hr ha hok
    simp only [simOk, Bool.and_eq_true] at hok
    obtain ⟨hx, hrest⟩ := hok
    obtain ⟨i, e, spi⟩ := x
    obtain ⟨an, as, ao⟩ := ha
    unfold okStep at hx
    simp only [Bool.and_eq_true] at hx
    obtain ⟨⟨hh, hmem⟩, hev⟩ := hx
    have hmem' := isMemberB_spec hmem
    have hinv := reach_inv hwf hr
    have key : ∃ net', NStep C net net' ∧ net'.node = upd net.node i (step (net.node i) e spi).1
        ∧ net'.started = upd net.started i true
        ∧ net'.outs = upd net.outs i (net.outs i ++ (step (net.node i) e spi).2)
        ∧ net'.trace = (i, e, spi) :: net.trace := by
      cases e with
      | start b =>
        have hs : net.started i = false := by rw [as]; simpa using hev
        obtain ⟨f1, _, _⟩ := hinv.fresh i hs
        obtain ⟨w', g, hruns, hst⟩ := step_runs (net.node i) (.start b) spi (by rw [f1]; exact ⟨rfl, rfl⟩)
          (by rw [f1]; exact viewsOK_init _) (by rw [f1]; exact C10.lvInv_init _) (by rw [f1]; exact (C01Local.ginv_init _).leader)
        exact ⟨_, NStep.start net i b spi w' g hh hmem' hs hruns hst, by rw [hst], rfl, by rw [hst], rfl⟩
      | deliver m =>
        simp only [Bool.and_eq_true] at hev
        obtain ⟨⟨hs, hg⟩, hadm⟩ := hev
        rw [← as] at hs hadm
        rw [← ao] at hadm
        obtain ⟨hgate, hns⟩ := gateB_sound hg
        obtain ⟨⟨T, hcore, _⟩, _, hvo, hlv, _⟩ := hinv.nodes i hh hmem' hs
        obtain ⟨w', g, hruns, hst⟩ := step_runs (net.node i) (.deliver m) spi
          (eventLocal_of_gate _ _ (by rw [hcore.cfg]; exact hgate) hns) hvo hlv hcore.ginv.leader
        exact ⟨_, NStep.event net i (.deliver m) spi w' g hh hmem' hs hns hgate (admB_sound hwf hinv hadm) hruns hst,
          by rw [hst], rfl, by rw [hst], rfl⟩
      | election a b =>
        simp only [Bool.and_eq_true] at hev
        obtain ⟨⟨hs, hg⟩, hadm⟩ := hev
        rw [← as] at hs
        obtain ⟨hgate, hns⟩ := gateB_sound hg
        obtain ⟨⟨T, hcore, _⟩, _, hvo, hlv, _⟩ := hinv.nodes i hh hmem' hs
        obtain ⟨w', g, hruns, hst⟩ := step_runs (net.node i) (.election a b) spi trivial hvo hlv hcore.ginv.leader
        exact ⟨_, NStep.event net i (.election a b) spi w' g hh hmem' hs hns hgate trivial hruns hst,
          by rw [hst], rfl, by rw [hst], rfl⟩
      | cancelOlder a b =>
        simp only [Bool.and_eq_true] at hev
        obtain ⟨⟨hs, hg⟩, hadm⟩ := hev
        rw [← as] at hs
        obtain ⟨hgate, hns⟩ := gateB_sound hg
        obtain ⟨⟨T, hcore, _⟩, _, hvo, hlv, _⟩ := hinv.nodes i hh hmem' hs
        obtain ⟨w', g, hruns, hst⟩ := step_runs (net.node i) (.cancelOlder a b) spi trivial hvo hlv hcore.ginv.leader
        exact ⟨_, NStep.event net i (.cancelOlder a b) spi w' g hh hmem' hs hns hgate trivial hruns hst,
          by rw [hst], rfl, by rw [hst], rfl⟩
    obtain ⟨net', hstep, k1, k2, k3, k4⟩ := key
    obtain ⟨net'', hr'', ha'', ht''⟩ := ih (simStep s (i, e, spi)) net' (.step hr hstep) (by
      unfold simStep
      exact ⟨by rw [k1, an], by rw [k2, as], by rw [k3, ao, an]⟩) hrest
    refine ⟨net'', hr'', ha'', ?_⟩
    rw [ht'', k4, List.reverse_cons, List.append_assoc]
    rfl

theorem agrees_init (C : NetCfg) : Agrees (Net.init C) (SimState.init C) := ⟨rfl, rfl, rfl⟩

end LeanHelix.Net
