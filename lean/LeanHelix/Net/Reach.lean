import LeanHelix.Net.BlockBody
/-!
# The network model, part 5: executions, the invariant, and agreement

`NStep`: one correct member handles one event.  `Reach`: any finite sequence of such steps from the
initial state.  `reach_inv`: in every reachable state the ghost history is `Spec.Valid`, every correct
member's state is tied to it (`Core`), and the statement-carrying effects a member has emitted are
exactly its statements.  `net_agreement` (C01) and `net_validity` follow from `Spec/Safety.lean`.
-/
namespace LeanHelix.Net
open LeanHelix LeanHelix.Msg LeanHelix.Term LeanHelix.Spec
open LeanHelix.C01Local (GInv LocalJ LocalValid lift)

variable {C : NetCfg}

/-- a whole handler (a sequence of atomic blocks) keeps `Core` and extends the valid history -/
theorem runs_net (hwf : WF C) {e : Event} {spi0 : List Spi} {i : Nat} {w w' : Term.W} {g : List LEv} (hr : Runs e spi0 w w' g) :
    ∀ {T : List LEv} {H : List Ev} (fin : Node), StoreLe w'.n.store fin.store → fin.cfg = w.n.cfg → Univ fin →
      C.honest i = true → (∃ m ∈ C.ms, m.id = i) → Gate (C.cfg i) e → AdmEvent C H e →
      Core C H i w.n T → Valid (setting C hwf) H →
      Core C ((g.map (lift i)).reverse ++ H) i w'.n (g.reverse ++ T)
      ∧ Valid (setting C hwf) ((g.map (lift i)).reverse ++ H)
      ∧ (∀ v h f, LEv.acc v h f ∈ g → ApprovedStep e spi0 h ∨ Locked (setting C hwf) ((g.map (lift i)).reverse ++ H) v h)
      ∧ (∃ l, w'.outs = w.outs ++ l ∧ (∀ rcpt m, Out.send rcpt m ∈ l → AdmMsg C ((g.map (lift i)).reverse ++ H) m)
          ∧ (SpiA2 e spi0 → Body w.n → Body w'.n ∧ OutsOK w.n.cfg l)) := by
  induction hr with
  | refl w =>
    intro T H fin _ _ _ _ _ _ _ hc hv
    refine ⟨hc, hv, ?_, [], (List.append_nil _).symm, ?_, ?_⟩
    · intro _ _ _ hm; cases hm
    · intro _ _ hm; cases hm
    · intro _ hb1; exact ⟨hb1, outsOK_nil _⟩
  | blk ho hb =>
    intro T H fin hle hcfg hfin hhon hmem hgate hae hc hv
    have hcb := C01Local.blk_cfg hb
    have hua := Univ.sub hcfg.symm ((blk_storeLe hb).trans hle) hfin
    have hub := Univ.sub (a := _) (by rw [hcb]; exact hcfg.symm) hle hfin
    obtain ⟨r1, r2⟩ := blk_net hwf hb hhon hmem hgate hae hc hv hua hub
    refine ⟨r1, r2, ?_, _, ho, blk_sends_adm hwf hb hc hua, fun hA2 hb1 => blk_body hwf hb hgate hA2 hmem hc hua hub hb1⟩
    intro v h f hm
    rcases blk_origin hwf hb hgate hae hc hv hua v h f hm with ho' | ho'
    · exact Or.inl ho'
    · exact Or.inr (ho'.mono (fun _ hx => List.mem_append_right _ hx))
  | trans r1 r2 ih1 ih2 =>
    rename_i a b c g1 g2
    intro T H fin hle hcfg hfin hhon hmem hgate hae hc hv
    obtain ⟨hc1, hv1, ho1, l1, hl1, hs1, hk1⟩ := ih1 fin ((runs_storeLe r2).trans hle) hcfg hfin hhon hmem hgate hae hc hv
    have hae1 : AdmEvent C ((g1.map (lift i)).reverse ++ H) e :=
      AdmEvent.mono (fun _ h => List.mem_append_right _ h) hae
    obtain ⟨hc2, hv2, ho2, l2, hl2, hs2, hk2⟩ := ih2 fin hle (by rw [C01Local.runs_cfg r1]; exact hcfg) hfin hhon hmem hgate hae1 hc1 hv1
    have e1 : ((g1 ++ g2).map (lift i)).reverse ++ H = (g2.map (lift i)).reverse ++ ((g1.map (lift i)).reverse ++ H) := by
      rw [List.map_append, List.reverse_append, List.append_assoc]
    have e2 : (g1 ++ g2).reverse ++ T = g2.reverse ++ (g1.reverse ++ T) := by
      rw [List.reverse_append, List.append_assoc]
    rw [e1, e2]
    refine ⟨hc2, hv2, ?_, l1 ++ l2, by rw [hl2, hl1, List.append_assoc], ?_, ?_⟩
    · intro v h f hm
      rcases List.mem_append.mp hm with hm1 | hm2
      · rcases ho1 v h f hm1 with ho' | ho'
        · exact Or.inl ho'
        · exact Or.inr (ho'.mono (fun _ hx => List.mem_append_right _ hx))
      · exact ho2 v h f hm2
    · intro rcpt m hm
      rcases List.mem_append.mp hm with hm1 | hm2
      · exact AdmEvent.mono (e := .deliver m) (fun _ hx => List.mem_append_right _ hx) (hs1 rcpt m hm1)
      · exact hs2 rcpt m hm2
    · intro hA2 hb1
      obtain ⟨x1, x3⟩ := hk1 hA2 hb1
      obtain ⟨y1, y3⟩ := hk2 hA2 x1
      rw [C01Local.runs_cfg r1] at y3
      exact ⟨y1, outsOK_append x3 y3⟩

/-! ## the network -/

structure Net where
  node : Nat → Node
  started : Nat → Bool
  outs : Nat → List Out
  H : List Ev
  /-- ghost: the schedule so far (member, event, SPI answers), newest first -/
  trace : List (Nat × Event × List Spi)

def Net.init (C : NetCfg) : Net := ⟨fun i => { cfg := C.cfg i }, fun _ => false, fun _ => [], [], []⟩

def upd {α : Type} (f : Nat → α) (i : Nat) (x : α) : Nat → α := fun j => if j = i then x else f j

theorem upd_same {α : Type} (f : Nat → α) (i : Nat) (x : α) : upd f i x i = x := by simp [upd]
theorem upd_other {α : Type} (f : Nat → α) {i j : Nat} (x : α) (h : j ≠ i) : upd f i x j = f j := by simp [upd, h]

/-- one correct member handles one event; the ghost history grows by the statements of the atomic
blocks of the handling (`hr`, `hst`: the blocks are a decomposition of exactly this `Term.step`) -/
inductive NStep (C : NetCfg) : Net → Net → Prop where
  | start (net : Net) (i : Nat) (first : Bool) (spi : List Spi) (w' : Term.W) (g : List LEv)
      (hh : C.honest i = true) (hm : ∃ m ∈ C.ms, m.id = i) (hs : net.started i = false)
      (hr : Runs (.start first) spi { n := net.node i, spi := spi } w' g)
      (hst : step (net.node i) (.start first) spi = (w'.n, w'.outs)) :
      NStep C net ⟨upd net.node i w'.n, upd net.started i true, upd net.outs i (net.outs i ++ w'.outs),
        (g.map (lift i)).reverse ++ net.H, (i, .start first, spi) :: net.trace⟩
  | event (net : Net) (i : Nat) (e : Event) (spi : List Spi) (w' : Term.W) (g : List LEv)
      (hh : C.honest i = true) (hm : ∃ m ∈ C.ms, m.id = i) (hs : net.started i = true)
      (hns : ∀ c, e ≠ .start c) (hg : Gate (C.cfg i) e) (ha : AdmEvent C net.H e)
      (hr : Runs e spi { n := net.node i, spi := spi } w' g)
      (hst : step (net.node i) e spi = (w'.n, w'.outs)) :
      NStep C net ⟨upd net.node i w'.n, upd net.started i true, upd net.outs i (net.outs i ++ w'.outs),
        (g.map (lift i)).reverse ++ net.H, (i, e, spi) :: net.trace⟩

inductive Reach (C : NetCfg) : Net → Prop where
  | init : Reach C (Net.init C)
  | step {a b : Net} : Reach C a → NStep C a b → Reach C b

/-! ## the invariant -/

/-- a started correct member -/
structure NodeInv (C : NetCfg) (H : List Ev) (i : Nat) (n : Node) (outs : List Out) : Prop where
  core : ∃ T, Core C H i n T ∧ outs.filterMap stmtOf = T.reverse.filterMap erase
  univ : Univ n
  views : ViewsOK n
  lv : C10.LVInv n
  /-- everything the member has sent is admissible: the network never forbids delivering it to a correct peer -/
  sends : ∀ rcpt m, Out.send rcpt m ∈ outs → AdmMsg C H m

/-- some step of member `m` in the schedule approved hash `h` (see `ApprovedStep`) -/
def ApprovedBy (trace : List (Nat × Event × List Spi)) (m h : Nat) : Prop :=
  ∃ t ∈ trace, t.1 = m ∧ ApprovedStep t.2.1 t.2.2 h

structure NetInv (C : NetCfg) (hwf : WF C) (net : Net) : Prop where
  valid : Valid (setting C hwf) net.H
  /-- every hash a correct member accepted was approved by its own consumer or certified in an earlier view -/
  origin : ∀ i v h, Ev.acc i v h ∈ net.H → ApprovedBy net.trace i h ∨ Locked (setting C hwf) net.H v h
  fresh : ∀ i, net.started i = false → net.node i = { cfg := C.cfg i } ∧ net.outs i = [] ∧ net.H.filter (mine i) = []
  nodes : ∀ i, C.honest i = true → (∃ m ∈ C.ms, m.id = i) → net.started i = true → NodeInv C net.H i (net.node i) (net.outs i)

theorem univ_init (c : Cfg) : Univ { cfg := c } :=
  ⟨C03.commitsOK_init c, C11.preparesOK_init c, (by intro p h; cases h), C11.vcsOK_init c, logClean_init c, ownPreparesNL_init c⟩

theorem core_init (C : NetCfg) (H : List Ev) (i : Nat) (hs : H.filter (mine i) = []) :
    Core C H i { cfg := C.cfg i } [] where
  cfg := rfl
  ginv := C01Local.ginv_init _
  sees := by rw [hs]; rfl
  adm := ⟨(by intro m h; cases h), (by intro m h; cases h), (by intro m h; cases h), (by intro m h; cases h)⟩
  vcb := by intro m h; cases h
  ownvc := by intro m h; cases h
  prepBlock := by intro pv h; cases h

/-- the universal log invariants after a step -/
theorem univ_step (n : Node) (e : Event) (spi : List Spi) (hme : isMember n.cfg n.cfg.me = true)
    (hstart : ∀ c, e = .start c → n.view = 0) (hcl : EventClean n e) (hg : Gate n.cfg e) (h : Univ n) : Univ (step n e spi).1 :=
  ⟨C03.commits_ok_step n e spi hme hstart h.commits, C11.prepares_ok_step n e spi hme hstart h.prepares,
   C04.stored_proposals_are_from_the_leader (step_ev n e spi hstart) h.proposals,
   C11.vcs_ok_step n e spi hstart h.vcs, step_clean n e spi hcl h.clean, ownPreparesNL_evolves (step_evN n e spi hg) h.ownNL⟩

/-- the ghost statements of another member do not disturb a member's tie to the history -/
theorem core_frame {H : List Ev} {i j : Nat} (hij : i ≠ j) {n : Node} {T : List LEv} (g : List LEv)
    (hc : Core C H j n T) : Core C ((g.map (lift i)).reverse ++ H) j n T where
  cfg := hc.cfg
  ginv := hc.ginv
  sees := by
    rw [List.filter_append]
    have : ((g.map (lift i)).reverse).filter (mine j) = [] := by
      rw [List.filter_eq_nil_iff]
      intro x hx
      rw [List.mem_reverse, List.mem_map] at hx
      obtain ⟨y, _, rfl⟩ := hx
      rw [mine_lift_ne hij]; exact Bool.false_ne_true
    rw [this]; exact hc.sees
  adm := hc.adm.mono (fun _ h => List.mem_append_right _ h)
  vcb := hc.vcb
  ownvc := hc.ownvc
  prepBlock := hc.prepBlock

theorem filter_frame {H : List Ev} {i j : Nat} (hij : i ≠ j) (g : List LEv) :
    ((g.map (lift i)).reverse ++ H).filter (mine j) = H.filter (mine j) := by
  rw [List.filter_append]
  have : ((g.map (lift i)).reverse).filter (mine j) = [] := by
    rw [List.filter_eq_nil_iff]
    intro x hx
    rw [List.mem_reverse, List.mem_map] at hx
    obtain ⟨y, _, rfl⟩ := hx
    rw [mine_lift_ne hij]; exact Bool.false_ne_true
  rw [this]; rfl

/-- the common part of both kinds of step -/
theorem step_inv (hwf : WF C) (net : Net) (hinv : NetInv C hwf net) (i : Nat) (e : Event) (spi : List Spi)
    (w' : Term.W) (g : List LEv) (hh : C.honest i = true) (hm : ∃ m ∈ C.ms, m.id = i)
    (hgate : Gate (C.cfg i) e) (ha : AdmEvent C net.H e)
    (hr : Runs e spi { n := net.node i, spi := spi } w' g) (hst : step (net.node i) e spi = (w'.n, w'.outs))
    (hni : NodeInv C net.H i (net.node i) (net.outs i)) (hstart : ∀ c, e = .start c → (net.node i).view = 0)
    (hcl : EventClean (net.node i) e) :
    NetInv C hwf ⟨upd net.node i w'.n, upd net.started i true, upd net.outs i (net.outs i ++ w'.outs),
      (g.map (lift i)).reverse ++ net.H, (i, e, spi) :: net.trace⟩
    ∧ (SpiA2 e spi → Body (net.node i) → Body w'.n ∧ OutsOK (C.cfg i) w'.outs) := by
  obtain ⟨T, hcore, herase⟩ := hni.core
  have hcfg : (net.node i).cfg = C.cfg i := hcore.cfg
  have hfin : Univ w'.n := by
    have := univ_step (net.node i) e spi (by rw [hcfg]; exact isMember_of_mem C i hm) hstart hcl (by rw [hcfg]; exact hgate) hni.univ
    rw [hst] at this; exact this
  obtain ⟨hc', hv', ho', lnew, hlnew, hsnew, hbody⟩ := runs_net hwf hr w'.n (StoreLe.refl _) (C01Local.runs_cfg hr) hfin hh hm hgate ha hcore hinv.valid
  have hl' : w'.outs = lnew := by simpa using hlnew
  refine ⟨⟨hv', ?_, ?_, ?_⟩, by rw [hl', ← hcfg]; exact hbody⟩
  · intro j v h hacc
    dsimp only at hacc ⊢
    rcases List.mem_append.mp hacc with hnew | hold
    · rw [List.mem_reverse, List.mem_map] at hnew
      obtain ⟨x, hx, hxe⟩ := hnew
      have hj : j = i := by
        have := evOwner_lift i x
        rw [hxe] at this
        exact this
      subst hj
      obtain ⟨f, rfl⟩ := lift_inj_acc hxe
      rcases ho' v h f hx with hap | hlk
      · exact Or.inl ⟨(j, e, spi), List.mem_cons_self .., rfl, hap⟩
      · exact Or.inr hlk
    · rcases hinv.origin j v h hold with ⟨t, ht, h1, h2⟩ | hlk
      · exact Or.inl ⟨t, List.mem_cons_of_mem _ ht, h1, h2⟩
      · exact Or.inr (hlk.mono (fun _ hx => List.mem_append_right _ hx))
  · intro j hsj
    dsimp only at hsj ⊢
    by_cases hji : j = i
    · subst hji; simp [upd] at hsj
    · have hsj' : net.started j = false := by rw [upd_other _ _ hji] at hsj; exact hsj
      obtain ⟨f1, f2, f3⟩ := hinv.fresh j hsj'
      refine ⟨by rw [upd_other _ _ hji]; exact f1, by rw [upd_other _ _ hji]; exact f2, ?_⟩
      show (((g.map (lift i)).reverse ++ net.H).filter (mine j)) = []
      rw [filter_frame (Ne.symm hji)]; exact f3
  · intro j hhj hmj hsj
    dsimp only at hsj ⊢
    by_cases hji : j = i
    · subst hji
      show NodeInv C _ j (upd net.node j w'.n j) (upd net.outs j (net.outs j ++ w'.outs) j)
      rw [upd_same, upd_same]
      refine ⟨⟨g.reverse ++ T, hc', ?_⟩, hfin, ?_, ?_, ?_⟩
      · obtain ⟨l, hl, hle⟩ := hr.erase
        have houts : w'.outs = l := by simpa using hl
        rw [List.filterMap_append, herase, houts, hle, List.reverse_append, List.reverse_reverse, List.filterMap_append]
      · have := C01Local.step_views (net.node j) e spi hni.views
        rw [hst] at this; exact this
      · have := (C10.step_nv (net.node j) e spi hni.lv).2.1
        rw [hst] at this; exact this
      · intro rcpt m hm
        rcases List.mem_append.mp hm with hm1 | hm2
        · exact AdmEvent.mono (e := .deliver m) (fun _ hx => List.mem_append_right _ hx) (hni.sends rcpt m hm1)
        · rw [hl'] at hm2
          exact hsnew rcpt m hm2
    · have hsj' : net.started j = true := by rw [upd_other _ _ hji] at hsj; exact hsj
      obtain ⟨⟨Tj, hcj, hej⟩, huj, hvj, hlj, hsj⟩ := hinv.nodes j hhj hmj hsj'
      show NodeInv C _ j (upd net.node i w'.n j) (upd net.outs i (net.outs i ++ w'.outs) j)
      rw [upd_other _ _ hji, upd_other _ _ hji]
      exact ⟨⟨Tj, core_frame (Ne.symm hji) g hcj, hej⟩, huj, hvj, hlj,
        fun rcpt m hm => AdmEvent.mono (e := .deliver m) (fun _ hx => List.mem_append_right _ hx) (hsj rcpt m hm)⟩

theorem netInv_init (hwf : WF C) : NetInv C hwf (Net.init C) where
  valid := .nil
  origin := by intro _ _ _ hm; cases hm
  fresh := fun _ _ => ⟨rfl, rfl, rfl⟩
  nodes := by intro _ _ _ hs; cases hs

/-- **the invariant holds in every reachable state of the network** -/
theorem reach_inv (hwf : WF C) {net : Net} (hr : Reach C net) : NetInv C hwf net := by
  induction hr with
  | init => exact netInv_init hwf
  | @step net _ _ hs ih =>
    cases hs with
    | start i first spi w' g hh hm hs hr hst =>
      obtain ⟨f1, f2, f3⟩ := ih.fresh i hs
      have hni : NodeInv C net.H i (net.node i) (net.outs i) := by
        rw [f1, f2]
        exact ⟨⟨[], core_init C net.H i f3, rfl⟩, univ_init _, viewsOK_init _, C10.lvInv_init _, fun _ _ hm => by cases hm⟩
      exact (step_inv hwf net ih i (.start first) spi w' g hh hm trivial trivial hr hst hni (by intro c _; rw [f1]) trivial).1
    | event i e spi w' g hh hm hs hns hg ha hr hst =>
      have hni := ih.nodes i hh hm hs
      obtain ⟨T, hcore, _⟩ := hni.core
      refine (step_inv hwf net ih i e spi w' g hh hm hg ha hr hst hni ?_ ?_).1
      · intro c hc; exact absurd hc (hns c)
      · have := eventClean_of_gate (net.node i) e (by rw [hcore.cfg]; exact hg)
        exact this

/-! ## block bodies, own votes and NEW_VIEWs, under the consumer contract A2 -/

/-- for every correct member: stored proposals and logged votes carry blocks that commit to their
hashes, its own logged votes pass every check a peer applies, every commit callback got a block that
commits to the certified hash, and every NEW_VIEW it sent is a valid certificate for every correct
peer whose view is not higher -/
def BodyInv (C : NetCfg) (net : Net) : Prop :=
  ∀ i, C.honest i = true → (∃ m ∈ C.ms, m.id = i) → Body (net.node i) ∧ OutsOK (C.cfg i) (net.outs i)

theorem body_fresh (c : Cfg) : Body { cfg := c } :=
  ⟨(by intro p h; cases h), (by intro m h; cases h), (by intro m h; cases h)⟩

/-- **under A2 the block-body invariant holds in every reachable state** -/
theorem reach_blocks (hwf : WF C) {net : Net} (hr : Reach C net) (hA2 : TraceA2 net.trace) : BodyInv C net := by
  induction hr with
  | init =>
    intro i _ _
    exact ⟨body_fresh _, outsOK_nil _⟩
  | @step net _ hprev hs ih =>
    have hinv := reach_inv hwf hprev
    -- both kinds of step extend the trace by one entry and run `step_inv`
    have common : ∀ (i : Nat) (e : Event) (spi : List Spi) (w' : Term.W) (g : List LEv),
        C.honest i = true → (∃ m ∈ C.ms, m.id = i) →
        (SpiA2 e spi → Body (net.node i) → Body w'.n ∧ OutsOK (C.cfg i) w'.outs) →
        TraceA2 ((i, e, spi) :: net.trace) →
        BodyInv C ⟨upd net.node i w'.n, upd net.started i true, upd net.outs i (net.outs i ++ w'.outs),
          (g.map (lift i)).reverse ++ net.H, (i, e, spi) :: net.trace⟩ := by
      intro i e spi w' g hh hm hstep hA2'
      have hold := ih (fun t ht => hA2' t (List.mem_cons_of_mem _ ht))
      have hA2e : SpiA2 e spi := hA2' (i, e, spi) List.mem_cons_self
      intro j hhj hmj
      by_cases hji : j = i
      · subst hji
        obtain ⟨o1, o3⟩ := hold j hhj hmj
        obtain ⟨n1, n3⟩ := hstep hA2e o1
        show Body (upd net.node j w'.n j) ∧ OutsOK (C.cfg j) (upd net.outs j (net.outs j ++ w'.outs) j)
        rw [upd_same, upd_same]
        exact ⟨n1, outsOK_append o3 n3⟩
      · show Body (upd net.node i w'.n j) ∧ OutsOK (C.cfg j) (upd net.outs i (net.outs i ++ w'.outs) j)
        rw [upd_other _ _ hji, upd_other _ _ hji]
        exact hold j hhj hmj
    cases hs with
    | start i first spi w' g hh hm hs hr hst =>
      obtain ⟨f1, f2, f3⟩ := hinv.fresh i hs
      have hni : NodeInv C net.H i (net.node i) (net.outs i) := by
        rw [f1, f2]
        exact ⟨⟨[], core_init C net.H i f3, rfl⟩, univ_init _, viewsOK_init _, C10.lvInv_init _, fun _ _ hm => by cases hm⟩
      exact common i (.start first) spi w' g hh hm
        (step_inv hwf net hinv i (.start first) spi w' g hh hm trivial trivial hr hst hni (by intro c _; rw [f1]) trivial).2 hA2
    | event i e spi w' g hh hm hs hns hg ha hr hst =>
      have hni := hinv.nodes i hh hm hs
      obtain ⟨T, hcore, _⟩ := hni.core
      exact common i e spi w' g hh hm
        (step_inv hwf net hinv i e spi w' g hh hm hg ha hr hst hni (by intro c hc; exact absurd hc (hns c))
          (eventClean_of_gate (net.node i) e (by rw [hcore.cfg]; exact hg))).2 hA2

end LeanHelix.Net
